module verifextract

go 1.26

require golang.org/x/tools v0.31.0

require (
	golang.org/x/mod v0.24.0 // indirect
	golang.org/x/sync v0.12.0 // indirect
)
