// Command extract regenerates Mmmbbb/Extracted.lean from the Go source of the repository:
// constants and a few structural facts the Lean theorems are stated over.
package main

import (
	"fmt"
	"go/ast"
	"go/constant"
	"go/token"
	"go/types"
	"os"
	"sort"
	"strconv"
	"strings"

	"golang.org/x/tools/go/packages"
)

var out strings.Builder
var problems []string

func problem(f string, a ...any) { problems = append(problems, fmt.Sprintf(f, a...)) }

func constOf(p *packages.Package, name string) (constant.Value, bool) {
	if o, ok := p.Types.Scope().Lookup(name).(*types.Const); ok {
		return o.Val(), true
	}
	problem("constant %s.%s not found", p.Name, name)
	return nil, false
}

func emitIntConst(p *packages.Package, goName, leanName, doc string) {
	v, ok := constOf(p, goName)
	if !ok {
		fmt.Fprintf(&out, "/-- %s (NOT FOUND in source) -/\ndef %s : Int := 0\n", doc, leanName)
		return
	}
	iv := constant.ToInt(v)
	fmt.Fprintf(&out, "/-- %s -/\ndef %s : Int := %s\n", doc, leanName, iv.ExactString())
}

func funcDecl(p *packages.Package, recv, name string) *ast.FuncDecl {
	for _, f := range p.Syntax {
		for _, d := range f.Decls {
			fd, ok := d.(*ast.FuncDecl)
			if !ok || fd.Name.Name != name {
				continue
			}
			r := ""
			if fd.Recv != nil && len(fd.Recv.List) == 1 {
				t := fd.Recv.List[0].Type
				if s, ok := t.(*ast.StarExpr); ok {
					t = s.X
				}
				if id, ok := t.(*ast.Ident); ok {
					r = id.Name
				}
			}
			if r == recv {
				return fd
			}
		}
	}
	problem("function %s.%s not found in %s", recv, name, p.Name)
	return nil
}

// declOfFunc: the declaration (with body) of a function or method of this package, by its types object
func declOfFunc(p *packages.Package, obj types.Object) *ast.FuncDecl {
	if obj == nil || obj.Pkg() == nil || obj.Pkg() != p.Types {
		return nil
	}
	for _, f := range p.Syntax {
		for _, d := range f.Decls {
			if fd, ok := d.(*ast.FuncDecl); ok && fd.Body != nil && p.TypesInfo.Defs[fd.Name] == obj {
				return fd
			}
		}
	}
	return nil
}

// calleeDecl: the same-package function or method a call expression names, if any
func calleeDecl(p *packages.Package, c *ast.CallExpr) *ast.FuncDecl {
	switch f := c.Fun.(type) {
	case *ast.Ident:
		return declOfFunc(p, p.TypesInfo.Uses[f])
	case *ast.SelectorExpr:
		return declOfFunc(p, p.TypesInfo.Uses[f.Sel])
	}
	return nil
}

// inspectInline walks a body like ast.Inspect and, at every call of a function or method of the same
// package, walks the callee's body too (helpers extracted by a refactoring are looked through), up to
// three levels deep.
func inspectInline(p *packages.Package, n ast.Node, fn func(ast.Node) bool) {
	inspectInlineF(p, n, fn, nil)
}

// inspectInlineF: as inspectInline, looking only into the callees `allow` admits
func inspectInlineF(p *packages.Package, n ast.Node, fn func(ast.Node) bool, allow func(*ast.FuncDecl) bool) {
	seen := map[*ast.FuncDecl]bool{}
	var walk func(n ast.Node, depth int)
	walk = func(n ast.Node, depth int) {
		if n == nil {
			return
		}
		ast.Inspect(n, func(m ast.Node) bool {
			if m == nil {
				return false
			}
			if !fn(m) {
				return false
			}
			if c, ok := m.(*ast.CallExpr); ok && depth < 3 {
				if fd := calleeDecl(p, c); fd != nil && !seen[fd] && (allow == nil || allow(fd)) {
					seen[fd] = true
					walk(fd.Body, depth+1)
				}
			}
			return true
		})
	}
	walk(n, 0)
}

// funcLitOf: a function literal, directly or through a local variable / same-package function that names it
func funcLitBody(p *packages.Package, scope ast.Node, e ast.Expr) *ast.BlockStmt {
	switch x := e.(type) {
	case *ast.FuncLit:
		return x.Body
	case *ast.Ident:
		obj := p.TypesInfo.Uses[x]
		if fd := declOfFunc(p, obj); fd != nil {
			return fd.Body
		}
		var body *ast.BlockStmt
		for _, f := range p.Syntax {
			ast.Inspect(f, func(m ast.Node) bool {
				switch y := m.(type) {
				case *ast.AssignStmt:
					for i, l := range y.Lhs {
						if id, ok := l.(*ast.Ident); ok && i < len(y.Rhs) && (p.TypesInfo.Defs[id] == obj || p.TypesInfo.Uses[id] == obj) && obj != nil {
							if fl, ok := y.Rhs[i].(*ast.FuncLit); ok && body == nil {
								body = fl.Body
							}
						}
					}
				case *ast.ValueSpec:
					for i, id := range y.Names {
						if p.TypesInfo.Defs[id] == obj && obj != nil && i < len(y.Values) {
							if fl, ok := y.Values[i].(*ast.FuncLit); ok && body == nil {
								body = fl.Body
							}
						}
					}
				}
				return true
			})
		}
		return body
	}
	return nil
}

func leanStr(s string) string { return fmt.Sprintf("%q", s) }

// prefix function used by a List handler: the callee inside NameHasPrefix(<fn>(req.Project))
func listPrefixFn(fd *ast.FuncDecl) string {
	res := ""
	if fd == nil {
		return res
	}
	ast.Inspect(fd.Body, func(n ast.Node) bool {
		if c, ok := n.(*ast.CallExpr); ok {
			if se, ok := c.Fun.(*ast.SelectorExpr); ok && se.Sel.Name == "NameHasPrefix" && len(c.Args) == 1 {
				if inner, ok := resolveLocal(fd, c.Args[0]).(*ast.CallExpr); ok {
					if id, ok := inner.Fun.(*ast.Ident); ok {
						res = id.Name
					}
				}
			}
		}
		return true
	})
	return res
}

// suffix literal of `func f(project string) string { return project + "<lit>" }`
func prefixSuffix(p *packages.Package, name string) string {
	fd := funcDecl(p, "", name)
	if fd == nil || len(fd.Body.List) != 1 {
		return ""
	}
	if rs, ok := fd.Body.List[0].(*ast.ReturnStmt); ok && len(rs.Results) == 1 {
		if be, ok := rs.Results[0].(*ast.BinaryExpr); ok && be.Op == token.ADD {
			if tv, ok := p.TypesInfo.Types[be.Y]; ok && tv.Value != nil {
				return constant.StringVal(tv.Value)
			}
		}
	}
	problem("prefix function %s has an unexpected shape", name)
	return ""
}

// resolveLocal: an identifier that a function body defines once (`x := e`, `var x = e`) stands for `e`
// (a refactoring that names a sub-expression is looked through); anything else is returned as it is
func resolveLocal(fd *ast.FuncDecl, e ast.Expr) ast.Expr {
	for depth := 0; depth < 3; depth++ {
		id, ok := e.(*ast.Ident)
		if !ok || fd == nil {
			return e
		}
		var defs []ast.Expr
		ast.Inspect(fd.Body, func(n ast.Node) bool {
			switch x := n.(type) {
			case *ast.AssignStmt:
				for i, l := range x.Lhs {
					if li, ok := l.(*ast.Ident); ok && li.Name == id.Name && len(x.Lhs) == len(x.Rhs) {
						defs = append(defs, x.Rhs[i])
					}
				}
			case *ast.ValueSpec:
				for i, li := range x.Names {
					if li.Name == id.Name && i < len(x.Values) {
						defs = append(defs, x.Values[i])
					}
				}
			}
			return true
		})
		if len(defs) != 1 {
			return e
		}
		e = defs[0]
	}
	return e
}

// default page size: `var pageSize int32 = N`, or `pageSize := f(req.PageSize)` where every constant
// that the same-package function f returns is the same N
func pageSizeDefault(p *packages.Package, fd *ast.FuncDecl) (v int64) {
	v = -1
	if fd == nil {
		return v
	}
	defer func() {
		if v != -1 {
			return
		}
		c, ok := resolveLocal(fd, ast.NewIdent("pageSize")).(*ast.CallExpr)
		if !ok {
			return
		}
		callee := calleeDecl(p, c)
		if callee == nil {
			return
		}
		vals := map[int64]bool{}
		ast.Inspect(callee.Body, func(n ast.Node) bool {
			if _, ok := n.(*ast.FuncLit); ok {
				return false
			}
			if rs, ok := n.(*ast.ReturnStmt); ok && len(rs.Results) == 1 {
				if tv, ok := p.TypesInfo.Types[rs.Results[0]]; ok && tv.Value != nil {
					if x, ok := constant.Int64Val(constant.ToInt(tv.Value)); ok {
						vals[x] = true
					}
				}
			}
			return true
		})
		if len(vals) == 1 {
			for x := range vals {
				v = x
			}
		}
	}()
	ast.Inspect(fd.Body, func(n ast.Node) bool {
		if vs, ok := n.(*ast.ValueSpec); ok && len(vs.Names) == 1 && vs.Names[0].Name == "pageSize" && len(vs.Values) == 1 {
			if tv, ok := p.TypesInfo.Types[vs.Values[0]]; ok && tv.Value != nil {
				v, _ = constant.Int64Val(constant.ToInt(tv.Value))
			}
		}
		return true
	})
	return v
}

// what the per-subscription loop of WakePublishListeners does when a subscription has no waiter set
func wakeNilBranch(p *packages.Package) string {
	fd := funcDecl(p, "", "WakePublishListeners")
	res := "unknown"
	if fd == nil {
		return res
	}
	// the waking loop: the range statement whose body closes channels (here or in a helper of the
	// package).  What matters is whether something in it ends the loop early for the subscriptions
	// that follow — a `return`, or a `break` of this loop; skipping one subscription (`continue`, an
	// `if set != nil { … }`, a helper that does nothing on a nil set) is "continue".
	var loop *ast.RangeStmt
	ast.Inspect(fd.Body, func(n ast.Node) bool {
		rs, ok := n.(*ast.RangeStmt)
		if !ok || loop != nil {
			return true
		}
		closes := false
		inspectInline(p, rs.Body, func(m ast.Node) bool {
			if c, ok := m.(*ast.CallExpr); ok && exprName(c.Fun) == "close" {
				closes = true
			}
			return true
		})
		if closes {
			loop = rs
			return false
		}
		return true
	})
	if loop == nil {
		return res
	}
	res = "continue"
	var walk func(n ast.Node, inner bool)
	walk = func(n ast.Node, inner bool) {
		ast.Inspect(n, func(m ast.Node) bool {
			switch x := m.(type) {
			case *ast.FuncLit:
				return false
			case *ast.ReturnStmt:
				res = "return"
			case *ast.BranchStmt:
				if x.Tok == token.BREAK && (!inner || x.Label != nil) {
					res = "break"
				}
				if x.Tok == token.GOTO {
					res = "goto"
				}
			case *ast.ForStmt:
				if m != n {
					walk(x.Body, true)
					return false
				}
			case *ast.RangeStmt:
				if m != n {
					walk(x.Body, true)
					return false
				}
			case *ast.SwitchStmt:
				walk(x.Body, true)
				return false
			case *ast.TypeSwitchStmt:
				walk(x.Body, true)
				return false
			case *ast.SelectStmt:
				walk(x.Body, true)
				return false
			}
			return true
		})
	}
	walk(loop.Body, false)
	return res
}

// holdsAwaiter: is the variable assigned, somewhere in fd, from PublishAwaiter(..) or from a helper of the
// package that calls it
func holdsAwaiter(p *packages.Package, fd *ast.FuncDecl, v *ast.Ident) bool {
	obj := p.TypesInfo.Uses[v]
	if obj == nil {
		obj = p.TypesInfo.Defs[v]
	}
	res := false
	ast.Inspect(fd.Body, func(n ast.Node) bool {
		as, ok := n.(*ast.AssignStmt)
		if !ok {
			return true
		}
		for i, l := range as.Lhs {
			id, ok := l.(*ast.Ident)
			if !ok || i >= len(as.Rhs) || (p.TypesInfo.Uses[id] != obj && p.TypesInfo.Defs[id] != obj) {
				continue
			}
			inspectInline(p, as.Rhs[i], func(m ast.Node) bool {
				if c, ok := m.(*ast.CallExpr); ok && exprName(c.Fun) == "PublishAwaiter" {
					res = true
				}
				return true
			})
		}
		return true
	})
	return res
}

// the RETRY loop of GetSubscriptionMessages.execute: does the assignment `pubAwaiter = PublishAwaiter(..)`
// come before the first runTx call of the loop body, and which select cases loop again
func pullLoopFacts(p *packages.Package) (registersFirst bool, cases []string) {
	fd := funcDecl(p, "GetSubscriptionMessages", "execute")
	if fd == nil {
		problem("GetSubscriptionMessages.execute not found")
		return
	}
	ast.Inspect(fd.Body, func(n ast.Node) bool {
		ls, ok := n.(*ast.LabeledStmt)
		if !ok || ls.Label.Name != "RETRY" {
			return true
		}
		fs, ok := ls.Stmt.(*ast.ForStmt)
		if !ok {
			return true
		}
		reg, run := -1, -1
		for i, st := range fs.Body.List {
			// the statement that registers: the first one that calls PublishAwaiter, itself or through a
			// helper of the package (whatever variable the awaiter is kept in)
			if reg < 0 {
				inspectInline(p, st, func(m ast.Node) bool {
					if c, ok := m.(*ast.CallExpr); ok && exprName(c.Fun) == "PublishAwaiter" && reg < 0 {
						reg = i
					}
					return true
				})
			}
			hasRun := false
			ast.Inspect(st, func(m ast.Node) bool {
				if c, ok := m.(*ast.CallExpr); ok && exprName(c.Fun) == "runTx" {
					hasRun = true
				}
				return true
			})
			if hasRun && run < 0 {
				run = i
			}
			if sel, ok := st.(*ast.SelectStmt); ok {
				for _, cl := range sel.Body.List {
					cc := cl.(*ast.CommClause)
					name := "default"
					if es, ok := cc.Comm.(*ast.ExprStmt); ok {
						if ue, ok := es.X.(*ast.UnaryExpr); ok {
							name = exprName(ue.X)
							if c, ok := ue.X.(*ast.CallExpr); ok {
								name = exprName(c.Fun)
							}
							// whatever the variable that holds the awaiter is called, the case reads "pubAwaiter"
							if id, ok := ue.X.(*ast.Ident); ok && holdsAwaiter(p, fd, id) {
								name = "pubAwaiter"
							}
						}
					}
					what := "other"
					if len(cc.Body) > 0 {
						switch b := cc.Body[len(cc.Body)-1].(type) {
						case *ast.BranchStmt:
							what = strings.ToLower(b.Tok.String())
						case *ast.ReturnStmt:
							what = "return"
						}
					}
					cases = append(cases, name+":"+what)
				}
			}
		}
		registersFirst = reg >= 0 && run >= 0 && reg < run
		return false
	})
	return
}

// every transaction closure (argument of runTx) of GetSubscriptionMessages.execute that selects
// candidates (queryAndLockDeliveriesOnce): "with-apply" when the same closure also records the
// attempt (applyResults) — selection and lease are one transaction — else "without-apply"
func pullTxShape(p *packages.Package) []string {
	fd := funcDecl(p, "GetSubscriptionMessages", "execute")
	var res []string
	if fd == nil {
		problem("GetSubscriptionMessages.execute not found")
		return res
	}
	ast.Inspect(fd.Body, func(n ast.Node) bool {
		c, ok := n.(*ast.CallExpr)
		if !ok || exprName(c.Fun) != "runTx" || len(c.Args) != 1 {
			return true
		}
		fl, ok := c.Args[0].(*ast.FuncLit)
		if !ok {
			return true
		}
		selects, applies := false, false
		ast.Inspect(fl.Body, func(m ast.Node) bool {
			if cc, ok := m.(*ast.CallExpr); ok {
				switch exprName(cc.Fun) {
				case "a.queryAndLockDeliveriesOnce":
					selects = true
				case "a.applyResults":
					applies = true
				}
			}
			return true
		})
		if selects {
			if applies {
				res = append(res, "with-apply")
			} else {
				res = append(res, "without-apply")
			}
		}
		return true
	})
	return res
}

// GetSubscriptionMessages.nextAttempt: the column each of its `Order(ent.Asc(delivery.FieldX))` sorts by
func nextAttemptOrders(p *packages.Package) []string {
	fd := funcDecl(p, "GetSubscriptionMessages", "nextAttempt")
	var res []string
	if fd == nil {
		return res
	}
	inspectInline(p, fd.Body, func(n ast.Node) bool {
		c, ok := n.(*ast.CallExpr)
		if !ok {
			return true
		}
		if se, ok := c.Fun.(*ast.SelectorExpr); ok && se.Sel.Name == "Order" && len(c.Args) == 1 {
			if in, ok := c.Args[0].(*ast.CallExpr); ok && len(in.Args) == 1 {
				dir := exprName(in.Fun)
				res = append(res, strings.TrimPrefix(dir, "ent.")+":"+strings.TrimPrefix(exprName(in.Args[0]), "delivery.Field"))
			}
		}
		return true
	})
	// source order (Inspect visits the outer call of a chain first; the chains are separate statements)
	return res
}

// deliverToSubscription: the sort keys of the predecessor query (`Order(...)`), in order. A function
// literal that orders by `EXISTS(select from deliveries n where n.not_before_id = <this row>.id)`
// ascending (rows nobody waits on first) is reported as "Asc:HasSuccessor".
func predecessorOrder(p *packages.Package) []string {
	fd := funcDecl(p, "", "deliverToSubscription")
	var res []string
	if fd == nil {
		return res
	}
	inspectInline(p, fd.Body, func(n ast.Node) bool {
		c, ok := n.(*ast.CallExpr)
		if !ok {
			return true
		}
		se, ok := c.Fun.(*ast.SelectorExpr)
		if !ok || se.Sel.Name != "Order" || len(res) > 0 {
			return true
		}
		for _, a := range c.Args {
			if x, isCall := a.(*ast.CallExpr); isCall {
				if len(x.Args) == 1 {
					res = append(res, strings.TrimPrefix(exprName(x.Fun), "ent.")+":"+strings.TrimPrefix(exprName(x.Args[0]), "delivery.Field"))
				} else {
					res = append(res, "?")
				}
				continue
			}
			body := funcLitBody(p, fd, a)
			if body == nil {
				res = append(res, "?")
				continue
			}
			var calls, names []string
			ast.Inspect(body, func(m ast.Node) bool {
				switch y := m.(type) {
				case *ast.CallExpr:
					nm := exprName(y.Fun)
					if i := strings.LastIndex(nm, "."); i >= 0 && !strings.HasPrefix(nm, "sql.") && !strings.HasPrefix(nm, "ent.") {
						nm = "_" + nm[i:] // a method of a local value: its name, not the variable's
					}
					calls = append(calls, nm)
				case *ast.SelectorExpr:
					names = append(names, exprName(y))
				}
				return true
			})
			has := func(l []string, w string) bool {
				for _, e := range l {
					if e == w {
						return true
					}
				}
				return false
			}
			switch {
			case has(calls, "_.OrderExpr") && has(calls, "sql.Exists") && !has(calls, "sql.Desc") && !has(calls, "sql.NotExists") &&
				has(names, "delivery.NotBeforeColumn") && has(names, "delivery.FieldID") && has(names, "delivery.Table") && has(calls, "sql.ColumnsEQ"):
				res = append(res, "Asc:HasSuccessor")
			default:
				res = append(res, "func:?")
			}
		}
		return true
	})
	return res
}

// every `case <-pubNotify:` of MessageStreamer.Go: does its body start by taking a new awaiter
func streamerRenewals(p *packages.Package) []string {
	fd := funcDecl(p, "MessageStreamer", "Go")
	var res []string
	if fd == nil {
		problem("MessageStreamer.Go not found")
		return res
	}
	// awaiter variables: whatever is assigned from PublishAwaiter(..), in Go or in a method / helper of
	// the package that a goroutine of Go was moved into (names do not matter)
	isAwaiterCall := func(e ast.Expr) bool {
		c, ok := e.(*ast.CallExpr)
		return ok && exprName(c.Fun) == "PublishAwaiter"
	}
	objOf := func(id *ast.Ident) types.Object {
		if o := p.TypesInfo.Defs[id]; o != nil {
			return o
		}
		return p.TypesInfo.Uses[id]
	}
	// (the pull action's own loop, reached through getter.ExecuteClient, is pullLoopFacts' business)
	ownCode := func(c *ast.FuncDecl) bool {
		if c.Recv == nil || len(c.Recv.List) != 1 {
			return true
		}
		t := c.Recv.List[0].Type
		if st, ok := t.(*ast.StarExpr); ok {
			t = st.X
		}
		id, ok := t.(*ast.Ident)
		return ok && id.Name == "MessageStreamer"
	}
	awaiters := map[types.Object]bool{}
	inspectInlineF(p, fd.Body, func(n ast.Node) bool {
		switch x := n.(type) {
		case *ast.AssignStmt:
			for i, l := range x.Lhs {
				if id, ok := l.(*ast.Ident); ok && i < len(x.Rhs) && isAwaiterCall(x.Rhs[i]) {
					awaiters[objOf(id)] = true
				}
			}
		case *ast.ValueSpec:
			for i, id := range x.Names {
				if i < len(x.Values) && isAwaiterCall(x.Values[i]) {
					awaiters[objOf(id)] = true
				}
			}
		}
		return true
	}, ownCode)
	inspectInlineF(p, fd.Body, func(n ast.Node) bool {
		cc, ok := n.(*ast.CommClause)
		if !ok || cc.Comm == nil {
			return true
		}
		es, ok := cc.Comm.(*ast.ExprStmt)
		if !ok {
			return true
		}
		ue, ok := es.X.(*ast.UnaryExpr)
		if !ok {
			return true
		}
		ch, ok := ue.X.(*ast.Ident)
		if !ok || !awaiters[objOf(ch)] {
			return true
		}
		r := "stale"
		if len(cc.Body) > 0 {
			if as, ok := cc.Body[0].(*ast.AssignStmt); ok && len(as.Lhs) == 1 && len(as.Rhs) == 1 {
				if id, ok := as.Lhs[0].(*ast.Ident); ok && objOf(id) == objOf(ch) && isAwaiterCall(as.Rhs[0]) {
					r = "renews"
				}
			}
		}
		res = append(res, r)
		return true
	}, ownCode)
	return res
}

// the reader goroutine of MessageStreamer.Go (the func literal that calls conn.Receive): every
// delete(pending, id) in it — "guarded" when it sits under `if pending[id] == <snapshot entry>`
// (only the entry that was pending before the database was told is released), else "unguarded"
func streamerReaderReleases(p *packages.Package) []string {
	fd := funcDecl(p, "MessageStreamer", "Go")
	var res []string
	if fd == nil {
		problem("MessageStreamer.Go not found")
		return res
	}
	var reader *ast.FuncLit
	ast.Inspect(fd.Body, func(n ast.Node) bool {
		fl, ok := n.(*ast.FuncLit)
		if !ok || reader != nil {
			return true
		}
		calls := false
		nested := false
		ast.Inspect(fl.Body, func(m ast.Node) bool {
			if c, ok := m.(*ast.CallExpr); ok && exprName(c.Fun) == "conn.Receive" {
				calls = true
			}
			return true
		})
		_ = nested
		if calls {
			reader = fl
		}
		return true
	})
	if reader == nil {
		problem("reader goroutine of MessageStreamer.Go not found")
		return res
	}
	// the deletes of the reader itself and of the closures / helpers it calls (a refactoring that hoists
	// `release` out of the loop, or out of the goroutine, is looked through); one entry per delete
	found := map[token.Pos]string{}
	seenBody := map[*ast.BlockStmt]bool{}
	var walk func(body *ast.BlockStmt, depth int)
	walk = func(body *ast.BlockStmt, depth int) {
		if body == nil || seenBody[body] || depth > 3 {
			return
		}
		seenBody[body] = true
		var stack []ast.Node
		ast.Inspect(body, func(n ast.Node) bool {
			if n == nil {
				stack = stack[:len(stack)-1]
				return true
			}
			stack = append(stack, n)
			c, ok := n.(*ast.CallExpr)
			if !ok {
				return true
			}
			if id, ok := c.Fun.(*ast.Ident); ok && id.Name != "delete" {
				walk(funcLitBody(p, fd, id), depth+1)
			} else if callee := calleeDecl(p, c); callee != nil {
				walk(callee.Body, depth+1)
			}
			if exprName(c.Fun) != "delete" || len(c.Args) != 2 || exprName(c.Args[0]) != "pending" {
				return true
			}
			r := "unguarded"
			for i := len(stack) - 2; i >= 0; i-- {
				is, ok := stack[i].(*ast.IfStmt)
				if !ok {
					continue
				}
				if be, ok := is.Cond.(*ast.BinaryExpr); ok && be.Op == token.EQL {
					if ix, ok := be.X.(*ast.IndexExpr); ok && exprName(ix.X) == "pending" && exprName(ix.Index) == exprName(c.Args[1]) {
						r = "guarded"
					}
				}
				break
			}
			found[c.Pos()] = r
			return true
		})
	}
	walk(reader.Body, 0)
	var poss []token.Pos
	for ps := range found {
		poss = append(poss, ps)
	}
	sort.Slice(poss, func(i, j int) bool { return poss[i] < poss[j] })
	for _, ps := range poss {
		res = append(res, found[ps])
	}
	return res
}

// the sender goroutine of MessageStreamer.Go (the func literal that runs the fetch): for every
// statement that hands deliveries to the connection (conn.Send / SendBatch) — "book-first" when an
// assignment into `pending[...]` comes before it in the same loop body, else "send-first"
func streamerBooksBeforeSend(p *packages.Package) []string {
	fd := funcDecl(p, "MessageStreamer", "Go")
	var res []string
	if fd == nil {
		problem("MessageStreamer.Go not found")
		return res
	}
	var sender *ast.FuncLit
	ast.Inspect(fd.Body, func(n ast.Node) bool {
		fl, ok := n.(*ast.FuncLit)
		if !ok || sender != nil {
			return true
		}
		ast.Inspect(fl.Body, func(m ast.Node) bool {
			if c, ok := m.(*ast.CallExpr); ok && exprName(c.Fun) == "getter.ExecuteClient" {
				sender = fl
			}
			return true
		})
		return true
	})
	if sender == nil {
		problem("sender goroutine of MessageStreamer.Go not found")
		return res
	}
	// positions (source offsets) of the first assignment into pending[...] and of every send
	bookPos := token.NoPos
	var sends []token.Pos
	ast.Inspect(sender.Body, func(n ast.Node) bool {
		switch x := n.(type) {
		case *ast.AssignStmt:
			for _, l := range x.Lhs {
				if ix, ok := l.(*ast.IndexExpr); ok && exprName(ix.X) == "pending" && bookPos == token.NoPos {
					bookPos = x.Pos()
				}
			}
		case *ast.CallExpr:
			// a send: `<conn>.Send(ctx, d)` / `<conn>.SendBatch(ctx, ds)`, whatever the connection is called,
			// here or in a helper of the package called from here (it then counts at the helper's call)
			isSend := func(c *ast.CallExpr) bool {
				se, ok := c.Fun.(*ast.SelectorExpr)
				return ok && (se.Sel.Name == "Send" || se.Sel.Name == "SendBatch") && len(c.Args) == 2
			}
			if isSend(x) {
				sends = append(sends, x.Pos())
			} else if callee := calleeDecl(p, x); callee != nil {
				inspectInline(p, callee.Body, func(m ast.Node) bool {
					if c, ok := m.(*ast.CallExpr); ok && isSend(c) {
						sends = append(sends, x.Pos())
					}
					return true
				})
			}
		}
		return true
	})
	for _, sp := range sends {
		if bookPos != token.NoPos && bookPos < sp {
			res = append(res, "book-first")
		} else {
			res = append(res, "send-first")
		}
	}
	return res
}

// the lease-renewal ticker of MessageStreamer.Go: for every `time.NewTicker(x)` the floor (ns) that a
// preceding `if x < C { x = C }` guarantees for its argument; 0 when there is no such guard
func streamerTickerFloors(p *packages.Package) []int64 {
	fd := funcDecl(p, "MessageStreamer", "Go")
	var res []int64
	if fd == nil {
		problem("MessageStreamer.Go not found")
		return res
	}
	floors := map[string]int64{}
	ast.Inspect(fd.Body, func(n ast.Node) bool {
		switch x := n.(type) {
		case *ast.IfStmt:
			be, ok := x.Cond.(*ast.BinaryExpr)
			if !ok || be.Op != token.LSS || len(x.Body.List) != 1 {
				return true
			}
			as, ok := x.Body.List[0].(*ast.AssignStmt)
			if !ok || len(as.Lhs) != 1 || len(as.Rhs) != 1 || exprName(as.Lhs[0]) != exprName(be.X) {
				return true
			}
			tc, ok1 := p.TypesInfo.Types[be.Y]
			ta, ok2 := p.TypesInfo.Types[as.Rhs[0]]
			if ok1 && ok2 && tc.Value != nil && ta.Value != nil {
				c, _ := constant.Int64Val(constant.ToInt(tc.Value))
				a, _ := constant.Int64Val(constant.ToInt(ta.Value))
				if a >= c {
					floors[exprName(be.X)] = c
				}
			}
		case *ast.AssignStmt:
			// x = max(x, C)
			if len(x.Lhs) == 1 && len(x.Rhs) == 1 {
				if c, v := maxFloor(p, x.Rhs[0]); c > 0 && v == exprName(x.Lhs[0]) {
					floors[v] = c
				}
			}
		case *ast.CallExpr:
			if exprName(x.Fun) == "time.NewTicker" && len(x.Args) == 1 {
				if c, _ := maxFloor(p, x.Args[0]); c > 0 { // NewTicker(max(x, C))
					res = append(res, c)
				} else {
					res = append(res, floors[exprName(x.Args[0])])
				}
			}
		}
		return true
	})
	return res
}

// maxFloor: for `max(v, C)` / `max(C, v)` with a constant C, (C, name of v); else (0, "")
func maxFloor(p *packages.Package, e ast.Expr) (int64, string) {
	c, ok := e.(*ast.CallExpr)
	if !ok || exprName(c.Fun) != "max" || len(c.Args) != 2 {
		return 0, ""
	}
	for i := 0; i < 2; i++ {
		if tv, ok := p.TypesInfo.Types[c.Args[i]]; ok && tv.Value != nil {
			if v, ok := constant.Int64Val(constant.ToInt(tv.Value)); ok {
				return v, exprName(c.Args[1-i])
			}
		}
	}
	return 0, ""
}

// services.monitorPusher: which context the returned monitor embeds — "errgroup" when it is the
// context errgroup.WithContext returned (done as soon as the pusher goroutine ends), "parent" when it is
// the context that was passed to errgroup.WithContext (done only when the service cancels the pusher)
func pusherMonitorContext(p *packages.Package) string {
	fd := funcDecl(p, "", "monitorPusher")
	if fd == nil {
		return "missing"
	}
	egCtx, parent := "", ""
	res := "unknown"
	ast.Inspect(fd.Body, func(n ast.Node) bool {
		switch x := n.(type) {
		case *ast.AssignStmt:
			if len(x.Lhs) == 2 && len(x.Rhs) == 1 {
				if c, ok := x.Rhs[0].(*ast.CallExpr); ok && exprName(c.Fun) == "errgroup.WithContext" && len(c.Args) == 1 {
					egCtx, parent = exprName(x.Lhs[1]), exprName(c.Args[0])
				}
			}
		case *ast.ReturnStmt:
			if len(x.Results) == 1 {
				if cl, ok := x.Results[0].(*ast.CompositeLit); ok && len(cl.Elts) >= 2 {
					switch exprName(cl.Elts[1]) {
					case egCtx:
						res = "errgroup"
					case parent:
						res = "parent"
					}
				}
			}
		}
		return true
	})
	return res
}

// every pruneServiceFor("name", func(params) { return actions.NewX(params) }) registration: (name, constructor)
func pruneServices(p *packages.Package) []string {
	var res []string
	for _, f := range p.Syntax {
		ast.Inspect(f, func(n ast.Node) bool {
			c, ok := n.(*ast.CallExpr)
			if !ok || exprName(c.Fun) != "pruneServiceFor" || len(c.Args) != 2 {
				return true
			}
			name := "?"
			if bl, ok := c.Args[0].(*ast.BasicLit); ok {
				if u, err := strconv.Unquote(bl.Value); err == nil {
					name = u
				}
			}
			ctor := "?"
			ast.Inspect(c.Args[1], func(m ast.Node) bool {
				if cc, ok := m.(*ast.CallExpr); ok && ctor == "?" {
					fn := exprName(cc.Fun)
					if strings.HasPrefix(fn, "actions.New") {
						ctor = strings.TrimPrefix(fn, "actions.")
					}
				}
				return true
			})
			res = append(res, fmt.Sprintf("(%s, %s)", leanStr(name), leanStr(ctor)))
			return true
		})
	}
	sort.Strings(res)
	return res
}

// HTTP status codes of the success arm of the push streamer's switch
func pushSuccessCodes(p *packages.Package) []int64 {
	fd := funcDecl(p, "httpPushStreamConn", "Send")
	var codes []int64
	if fd == nil {
		return codes
	}
	// the first switch reached from Send (helpers of the package are looked into) whose first case
	// lists HTTP status constants: on `resp.StatusCode` itself or on a parameter it was passed as
	inspectInline(p, fd.Body, func(n ast.Node) bool {
		if sw, ok := n.(*ast.SwitchStmt); ok && sw.Tag != nil && codes == nil {
			for _, st := range sw.Body.List {
				cc := st.(*ast.CaseClause)
				if len(cc.List) > 0 {
					var cs []int64
					for _, e := range cc.List {
						if tv, ok := p.TypesInfo.Types[e]; ok && tv.Value != nil {
							if c, ok := constant.Int64Val(constant.ToInt(tv.Value)); ok && c >= 100 && c <= 599 {
								cs = append(cs, c)
							}
						}
					}
					if len(cs) == len(cc.List) {
						codes = cs
					}
					break
				}
			}
		}
		return true
	})
	if codes == nil {
		// no such switch: a lookup table (set / slice literal of HTTP status constants) that Send or a helper
		// it calls refers to
		inspectInline(p, fd.Body, func(n ast.Node) bool {
			id, ok := n.(*ast.Ident)
			if !ok || codes != nil {
				return true
			}
			v, ok := p.TypesInfo.Uses[id].(*types.Var)
			if !ok || v.Parent() != p.Types.Scope() {
				return true
			}
			for _, f := range p.Syntax {
				for _, d := range f.Decls {
					gd, ok := d.(*ast.GenDecl)
					if !ok {
						continue
					}
					for _, sp := range gd.Specs {
						vs, ok := sp.(*ast.ValueSpec)
						if !ok {
							continue
						}
						for i, nm := range vs.Names {
							if p.TypesInfo.Defs[nm] != v || i >= len(vs.Values) {
								continue
							}
							cl, ok := vs.Values[i].(*ast.CompositeLit)
							if !ok || len(cl.Elts) < 2 {
								continue
							}
							var cs []int64
							for _, e := range cl.Elts {
								if kv, ok := e.(*ast.KeyValueExpr); ok {
									e = kv.Key
								}
								if tv, ok := p.TypesInfo.Types[e]; ok && tv.Value != nil {
									if c, ok := constant.Int64Val(constant.ToInt(tv.Value)); ok && c >= 100 && c <= 599 {
										cs = append(cs, c)
									}
								}
							}
							if len(cs) == len(cl.Elts) {
								codes = cs
							}
						}
					}
				}
			}
			return true
		})
	}
	sort.Slice(codes, func(i, j int) bool { return codes[i] < codes[j] })
	if len(codes) == 0 {
		problem("push success status codes not found")
	}
	return codes
}

// the distinct integer constants of httpPushStreamConn.Receive and of the helpers of the package it
// calls (literals and named constants alike), ascending: the window's lower bound, the nack factor,
// the window's upper bound
func windowConsts(p *packages.Package, fd *ast.FuncDecl) []int64 {
	seen := map[int64]bool{}
	if fd == nil {
		return nil
	}
	inspectInline(p, fd.Body, func(n ast.Node) bool {
		var e ast.Expr
		switch x := n.(type) {
		case *ast.BasicLit:
			if x.Kind == token.INT {
				e = x
			}
		case *ast.Ident:
			if _, ok := p.TypesInfo.Uses[x].(*types.Const); ok {
				e = x
			}
		}
		if e != nil {
			if tv, ok := p.TypesInfo.Types[e]; ok && tv.Value != nil && tv.Value.Kind() == constant.Int {
				if c, ok := constant.Int64Val(tv.Value); ok && c != 0 {
					if c < 0 { // a step written as a signed constant (-1, -10) counts by its magnitude
						c = -c
					}
					seen[c] = true
				}
			}
		}
		return true
	})
	var res []int64
	for c := range seen {
		res = append(res, c)
	}
	sort.Slice(res, func(i, j int) bool { return res[i] < res[j] })
	return res
}

// integer literals in httpPushStreamConn.Receive, in source order
func intLits(p *packages.Package, fd *ast.FuncDecl) []int64 {
	var lits []int64
	if fd == nil {
		return lits
	}
	ast.Inspect(fd.Body, func(n ast.Node) bool {
		if bl, ok := n.(*ast.BasicLit); ok && bl.Kind == token.INT {
			if tv, ok := p.TypesInfo.Types[bl]; ok && tv.Value != nil {
				c, _ := constant.Int64Val(constant.ToInt(tv.Value))
				lits = append(lits, c)
			}
		}
		return true
	})
	return lits
}

// interceptor names in grpc.ChainUnaryInterceptor(...)
func interceptors(p *packages.Package, which string) []string {
	var names []string
	for _, f := range p.Syntax {
		ast.Inspect(f, func(n ast.Node) bool {
			if c, ok := n.(*ast.CallExpr); ok {
				if se, ok := c.Fun.(*ast.SelectorExpr); ok && se.Sel.Name == which {
					for _, a := range c.Args {
						names = append(names, exprName(a))
					}
				}
			}
			return true
		})
	}
	return names
}

func exprName(e ast.Expr) string {
	switch x := e.(type) {
	case *ast.Ident:
		return x.Name
	case *ast.SelectorExpr:
		return exprName(x.X) + "." + x.Sel.Name
	case *ast.CallExpr:
		return exprName(x.Fun) + "()"
	}
	return "?"
}

// commit hooks: every tx.OnCommit(func(c) { return CommitFunc(func(ctx, tx) error { BODY }) })
// shape "guarded": BODY calls c.Commit first and reaches a Wake* call only when the commit returned nil
type hook struct{ where, shape string }

// "guarded runner": a helper of the package that takes a `func()` and does nothing with it but call it
// inside a commit hook it registers (runAfterCommit(tx, func() { Wake…() })).  The parameter then counts
// as a wake inside the helper (so the helper's own hook is classified as strictly as any other), and
// a call of the helper counts as a hook at its call sites.
var (
	wakeParams  = map[types.Object]bool{}
	runnerDecls = map[types.Object]bool{}
	wakeInfos   []*types.Info
)

func findRunners(p *packages.Package) {
	wakeInfos = append(wakeInfos, p.TypesInfo)
	for _, f := range p.Syntax {
		if strings.HasSuffix(p.Fset.Position(f.Pos()).Filename, "_test.go") {
			continue
		}
		for _, d := range f.Decls {
			fd, ok := d.(*ast.FuncDecl)
			if !ok || fd.Body == nil || fd.Type.Params == nil {
				continue
			}
			var hooks []*ast.CallExpr
			ast.Inspect(fd.Body, func(n ast.Node) bool {
				if c, ok := n.(*ast.CallExpr); ok {
					if se, ok := c.Fun.(*ast.SelectorExpr); ok && se.Sel.Name == "OnCommit" && len(c.Args) == 1 {
						hooks = append(hooks, c)
					}
				}
				return true
			})
			if len(hooks) == 0 {
				continue
			}
			for _, fld := range fd.Type.Params.List {
				ft, ok := fld.Type.(*ast.FuncType)
				if !ok || (ft.Params != nil && len(ft.Params.List) != 0) || (ft.Results != nil && len(ft.Results.List) != 0) {
					continue
				}
				for _, name := range fld.Names {
					obj := p.TypesInfo.Defs[name]
					if obj == nil {
						continue
					}
					// every use: the callee of a call, inside one of the hooks
					uses, good := 0, true
					calleeIdents := map[*ast.Ident]bool{}
					ast.Inspect(fd.Body, func(n ast.Node) bool {
						if c, ok := n.(*ast.CallExpr); ok {
							if id, ok := c.Fun.(*ast.Ident); ok && p.TypesInfo.Uses[id] == obj && len(c.Args) == 0 {
								calleeIdents[id] = true
							}
						}
						return true
					})
					ast.Inspect(fd.Body, func(n ast.Node) bool {
						if id, ok := n.(*ast.Ident); ok && p.TypesInfo.Uses[id] == obj {
							uses++
							inside := false
							for _, h := range hooks {
								if h.Args[0].Pos() <= id.Pos() && id.End() <= h.Args[0].End() {
									inside = true
								}
							}
							if !inside || !calleeIdents[id] {
								good = false
							}
						}
						return true
					})
					if uses > 0 && good {
						wakeParams[obj] = true
						runnerDecls[p.TypesInfo.Defs[fd.Name]] = true
					}
				}
			}
		}
	}
}

func useOf(id *ast.Ident) types.Object {
	for _, inf := range wakeInfos {
		if o := inf.Uses[id]; o != nil {
			return o
		}
	}
	return nil
}

func isRunnerCall(n ast.Node) bool {
	c, ok := n.(*ast.CallExpr)
	if !ok {
		return false
	}
	switch f := c.Fun.(type) {
	case *ast.Ident:
		return runnerDecls[useOf(f)]
	case *ast.SelectorExpr:
		return runnerDecls[useOf(f.Sel)]
	}
	return false
}

func isWakeCall(n ast.Node) bool {
	if c, ok := n.(*ast.CallExpr); ok {
		if id, ok := c.Fun.(*ast.Ident); ok && wakeParams[useOf(id)] {
			return true
		}
		name := exprName(c.Fun)
		return strings.HasPrefix(name, "Wake") || strings.Contains(name, ".Wake")
	}
	return false
}

func containsWake(n ast.Node) bool {
	found := false
	ast.Inspect(n, func(m ast.Node) bool {
		if isWakeCall(m) {
			found = true
		}
		return !found
	})
	return found
}

func commitHooks(p *packages.Package) []hook {
	var hooks []hook
	for _, f := range p.Syntax {
		var stack []string
		ast.Inspect(f, func(n ast.Node) bool {
			if fd, ok := n.(*ast.FuncDecl); ok {
				stack = []string{fd.Name.Name}
			}
			c, ok := n.(*ast.CallExpr)
			if !ok {
				return true
			}
			se, ok := c.Fun.(*ast.SelectorExpr)
			if !ok || se.Sel.Name != "OnCommit" || len(c.Args) != 1 {
				return true
			}
			where := p.Name + "." + strings.Join(stack, ".")
			// find the innermost func literal with an error result
			var body *ast.BlockStmt
			ast.Inspect(c.Args[0], func(m ast.Node) bool {
				if fl, ok := m.(*ast.FuncLit); ok && fl.Type.Results != nil && len(fl.Type.Results.List) == 1 {
					if id, ok := fl.Type.Results.List[0].Type.(*ast.Ident); ok && id.Name == "error" {
						body = fl.Body
					}
				}
				return true
			})
			hooks = append(hooks, hook{where, classify(body)})
			return true
		})
	}
	return hooks
}

func isCommitCall(e ast.Expr) bool {
	if c, ok := e.(*ast.CallExpr); ok {
		if se, ok := c.Fun.(*ast.SelectorExpr); ok && se.Sel.Name == "Commit" {
			return true
		}
	}
	return false
}

func classify(body *ast.BlockStmt) string {
	if body == nil || len(body.List) == 0 {
		return "unknown"
	}
	// form A: if err := c.Commit(..); err != nil { return err }; WAKES; return nil
	// form B: err := c.Commit(..); if err == nil { WAKES }; return err
	first := body.List[0]
	switch s := first.(type) {
	case *ast.IfStmt:
		if as, ok := s.Init.(*ast.AssignStmt); ok && len(as.Rhs) == 1 && isCommitCall(as.Rhs[0]) {
			if be, ok := s.Cond.(*ast.BinaryExpr); ok && be.Op == token.NEQ && len(s.Body.List) == 1 {
				if _, ok := s.Body.List[0].(*ast.ReturnStmt); ok && !containsWake(s.Body) {
					return "guarded"
				}
			}
		}
	case *ast.AssignStmt:
		if len(s.Rhs) == 1 && isCommitCall(s.Rhs[0]) {
			ok := true
			for _, st := range body.List[1:] {
				if ifs, isIf := st.(*ast.IfStmt); isIf {
					if be, isBe := ifs.Cond.(*ast.BinaryExpr); isBe && be.Op == token.EQL && ifs.Else == nil {
						continue // wakes inside `if err == nil`
					}
					if containsWake(ifs) {
						ok = false
					}
				} else if containsWake(st) {
					ok = false
				}
			}
			if ok {
				return "guarded"
			}
		}
	}
	if containsWake(body) {
		return "unguarded"
	}
	return "nowake"
}

// Wake*Listeners call sites that are not inside an OnCommit hook (outside notify.go)
func strayWakes(p *packages.Package) []string {
	var res []string
	for _, f := range p.Syntax {
		fname := p.Fset.Position(f.Pos()).Filename
		if strings.HasSuffix(fname, "notify.go") || strings.HasSuffix(fname, "_test.go") {
			continue
		}
		var inHook []ast.Node
		ast.Inspect(f, func(n ast.Node) bool {
			if c, ok := n.(*ast.CallExpr); ok {
				if se, ok := c.Fun.(*ast.SelectorExpr); ok && se.Sel.Name == "OnCommit" {
					inHook = append(inHook, c)
				}
				if isRunnerCall(c) {
					inHook = append(inHook, c)
				}
			}
			return true
		})
		ast.Inspect(f, func(n ast.Node) bool {
			if isWakeCall(n) {
				inside := false
				for _, h := range inHook {
					if h.Pos() <= n.Pos() && n.End() <= h.End() {
						inside = true
					}
				}
				if !inside {
					pos := p.Fset.Position(n.Pos())
					res = append(res, fmt.Sprintf("(%s, %s)", leanStr(pos.Filename[strings.LastIndex(pos.Filename, "/")+1:]), leanStr(exprName(n.(*ast.CallExpr).Fun))))
				}
			}
			return true
		})
	}
	sort.Strings(res)
	return res
}

// shape of faults.Set.Check: which of the expected steps are present, in source order
func faultsCheckShape(p *packages.Package) []string {
	fd := funcDecl(p, "Set", "Check")
	var shape []string
	if fd == nil {
		return shape
	}
	// names do not matter: the receiver and the description may be called anything, the counter's new
	// value is whatever variable the atomic add is assigned to, and helpers of the package are looked into
	remaining := "remaining"
	lastSel := func(e ast.Expr) string {
		if se, ok := e.(*ast.SelectorExpr); ok {
			return se.Sel.Name
		}
		return ""
	}
	inspectInline(p, fd.Body, func(n ast.Node) bool {
		switch x := n.(type) {
		case *ast.AssignStmt:
			if len(x.Lhs) == 1 && len(x.Rhs) == 1 {
				if c, ok := x.Rhs[0].(*ast.CallExpr); ok && exprName(c.Fun) == "atomic.AddInt64" {
					if id, ok := x.Lhs[0].(*ast.Ident); ok {
						remaining = id.Name
					}
				}
			}
		case *ast.CallExpr:
			name := exprName(x.Fun)
			switch {
			case lastSel(x.Fun) == "match" && calleeDecl(p, x) != nil:
				shape = append(shape, "match")
				return false // the lookup itself is faultsSetMatchLock's and faultsMatchShape's business
			case name == "atomic.AddInt64" && len(x.Args) == 2:
				if tv, ok := p.TypesInfo.Types[x.Args[1]]; ok && tv.Value != nil {
					shape = append(shape, "atomic-add:"+tv.Value.ExactString())
				} else {
					shape = append(shape, "atomic-add:?")
				}
			case lastSel(x.Fun) == "OnFault":
				shape = append(shape, "fire")
			}
		case *ast.IfStmt:
			if be, ok := x.Cond.(*ast.BinaryExpr); ok {
				if id, ok := be.X.(*ast.Ident); ok && id.Name == remaining {
					if tv, ok := p.TypesInfo.Types[be.Y]; ok && tv.Value != nil && tv.Value.ExactString() == "0" {
						switch be.Op {
						case token.LEQ:
							shape = append(shape, "prune-if<=0")
						case token.LSS:
							if len(x.Body.List) == 1 {
								if b, ok := x.Body.List[0].(*ast.BranchStmt); ok && b.Tok == token.CONTINUE {
									shape = append(shape, "retry-if<0")
								} else {
									shape = append(shape, "if<0:other")
								}
							}
						default:
							shape = append(shape, "if-remaining:"+be.Op.String())
						}
					}
				}
			}
		}
		return true
	})
	return shape
}

// shape of faults.Description.match: the early returns, in source order
func faultsMatchShape(p *packages.Package) []string {
	fd := funcDecl(p, "Description", "match")
	var shape []string
	if fd == nil {
		return shape
	}
	// names do not matter (the receiver reads "d", the parameters "op" and "params"), and a final
	// `return helper(args)` is continued in the helper with its parameters standing for the arguments
	subst := map[string]string{}
	if fd.Recv != nil && len(fd.Recv.List) == 1 && len(fd.Recv.List[0].Names) == 1 {
		subst[fd.Recv.List[0].Names[0].Name] = "d"
	}
	canon := []string{"op", "params"}
	i := 0
	for _, fld := range fd.Type.Params.List {
		for _, nm := range fld.Names {
			if i < len(canon) {
				subst[nm.Name] = canon[i]
			}
			i++
		}
	}
	var render func(e ast.Expr, sub map[string]string) string
	render = func(e ast.Expr, sub map[string]string) string {
		switch x := e.(type) {
		case *ast.Ident:
			if r, ok := sub[x.Name]; ok {
				return r
			}
			return x.Name
		case *ast.SelectorExpr:
			return render(x.X, sub) + "." + x.Sel.Name
		case *ast.CallExpr:
			return render(x.Fun, sub) + "()"
		}
		return "?"
	}
	var flatten func(body *ast.BlockStmt, sub map[string]string, depth int)
	flatten = func(body *ast.BlockStmt, sub map[string]string, depth int) {
		for _, st := range body.List {
			switch x := st.(type) {
			case *ast.IfStmt:
				if be, ok := x.Cond.(*ast.BinaryExpr); ok {
					shape = append(shape, "if:"+render(be.X, sub)+be.Op.String()+render(be.Y, sub))
				}
			case *ast.RangeStmt:
				shape = append(shape, "range:"+render(x.X, sub))
			case *ast.ReturnStmt:
				if len(x.Results) == 1 {
					if c, ok := x.Results[0].(*ast.CallExpr); ok && depth < 3 {
						if callee := calleeDecl(p, c); callee != nil && callee.Recv == nil {
							inner := map[string]string{}
							k := 0
							for _, fld := range callee.Type.Params.List {
								for _, nm := range fld.Names {
									if k < len(c.Args) {
										inner[nm.Name] = render(c.Args[k], sub)
									}
									k++
								}
							}
							flatten(callee.Body, inner, depth+1)
							continue
						}
					}
					shape = append(shape, "return:"+render(x.Results[0], sub))
				}
			}
		}
	}
	flatten(fd.Body, subst, 0)
	return shape
}

// top-level statements of faults.Set.match, in order: the lock calls, the lookup, the walk, the returns.
// The walk over the description list is under the read lock iff the list reads
// ["RLock", "defer:RUnlock", ..., "range", ...] with no plain "RUnlock" before the range.
func faultsSetMatchLock(p *packages.Package) []string {
	fd := funcDecl(p, "Set", "match")
	var shape []string
	if fd == nil {
		return shape
	}
	for _, st := range fd.Body.List {
		switch x := st.(type) {
		case *ast.ExprStmt:
			if c, ok := x.X.(*ast.CallExpr); ok {
				n := exprName(c.Fun)
				shape = append(shape, n[strings.LastIndex(n, ".")+1:])
			}
		case *ast.DeferStmt:
			n := exprName(x.Call.Fun)
			shape = append(shape, "defer:"+n[strings.LastIndex(n, ".")+1:])
		case *ast.AssignStmt:
			shape = append(shape, "assign")
		case *ast.RangeStmt:
			shape = append(shape, "range")
		case *ast.ReturnStmt:
			shape = append(shape, "return")
		default:
			shape = append(shape, "?")
		}
	}
	return shape
}

// MessageStreamer.Go, refresh goroutine: what the loop that applies the database's answer (the one
// whose body deletes from `pending`, inside the refresh goroutine: it also reads `deliveryMap`) ranges over — the list of ids taken before the query, or the live map
func streamerRefreshApplies(p *packages.Package) []string {
	fd := funcDecl(p, "MessageStreamer", "Go")
	var res []string
	if fd == nil {
		return res
	}
	// by types, not by names: the loop that deletes from the map of pending messages and reads the
	// database's answer (a map of deliveries) — in Go or in a method / helper a goroutine was moved into.
	// "ids": it ranges over a slice (the ids taken before the query); "pending": over the live map.
	typeStr := func(e ast.Expr) string {
		if tv, ok := p.TypesInfo.Types[e]; ok && tv.Type != nil {
			return tv.Type.String()
		}
		return ""
	}
	isPendingMap := func(e ast.Expr) bool {
		t := typeStr(e)
		return strings.HasPrefix(t, "map[") && strings.HasSuffix(t, "pendingMessage")
	}
	inspectInline(p, fd.Body, func(n ast.Node) bool {
		rs, ok := n.(*ast.RangeStmt)
		if !ok {
			return true
		}
		deletes, reads := false, false
		ast.Inspect(rs.Body, func(m ast.Node) bool {
			if c, ok := m.(*ast.CallExpr); ok && exprName(c.Fun) == "delete" && len(c.Args) == 2 && isPendingMap(c.Args[0]) {
				deletes = true
			}
			if ix, ok := m.(*ast.IndexExpr); ok {
				if t := typeStr(ix.X); strings.HasPrefix(t, "map[") && strings.HasSuffix(t, "ent.Delivery") {
					reads = true
				}
			}
			return true
		})
		if deletes && reads {
			switch t := typeStr(rs.X); {
			case strings.HasPrefix(t, "[]"):
				res = append(res, "ids")
			case isPendingMap(rs.X):
				res = append(res, "pending")
			default:
				res = append(res, exprName(rs.X))
			}
		}
		return true
	})
	return res
}

func main() {
	repo := "/repo"
	if len(os.Args) > 1 {
		repo = os.Args[1]
	}
	cfg := &packages.Config{Mode: packages.NeedName | packages.NeedSyntax | packages.NeedTypes | packages.NeedTypesInfo | packages.NeedFiles, Dir: repo}
	pkgs, err := packages.Load(cfg, "./actions", "./services", "./faults", "./grpc")
	if err != nil {
		fmt.Fprintln(os.Stderr, "load error:", err)
		os.Exit(2)
	}
	byName := map[string]*packages.Package{}
	for _, p := range pkgs {
		if len(p.Errors) > 0 {
			fmt.Fprintln(os.Stderr, p.PkgPath, "errors:", p.Errors[0])
			os.Exit(2)
		}
		byName[p.Name] = p
	}
	act, svc, grpcp := byName["actions"], byName["services"], byName["grpc"]

	out.WriteString("/- GENERATED by /verif/extract from the repository source on every run — do not edit. -/\nnamespace Mmmbbb.Extracted\n\n")
	emitIntConst(act, "defaultMinDelay", "defaultMinDelay", "actions.defaultMinDelay (ns)")
	emitIntConst(act, "defaultMaxDelay", "defaultMaxDelay", "actions.defaultMaxDelay (ns)")
	emitIntConst(act, "defaultSnapshotTTL", "defaultSnapshotTTL", "actions.defaultSnapshotTTL (ns)")
	if v, ok := constOf(act, "retryBackoffFactor"); ok {
		num, den := constant.Num(v), constant.Denom(v)
		fmt.Fprintf(&out, "/-- actions.retryBackoffFactor as numerator / denominator -/\ndef retryBackoffNum : Nat := %s\ndef retryBackoffDen : Nat := %s\n", num.ExactString(), den.ExactString())
	} else {
		out.WriteString("def retryBackoffNum : Nat := 0\ndef retryBackoffDen : Nat := 1\n")
	}
	emitIntConst(svc, "defaultSubscriptionTTL", "defaultSubscriptionTTL", "services.defaultSubscriptionTTL (ns)")
	emitIntConst(svc, "defaultSubscriptionMessageTTL", "defaultSubscriptionMessageTTL", "services.defaultSubscriptionMessageTTL (ns)")
	emitIntConst(svc, "defaultDeadLetterMaxAttempts", "defaultDeadLetterMaxAttempts", "services.defaultDeadLetterMaxAttempts")

	fmt.Fprintf(&out, "\n/-- what WakePublishListeners' loop does for a subscription without waiters -/\ndef wakeNilBranch : String := %s\n", leanStr(wakeNilBranch(act)))
	q := func(ss []string) string {
		o := make([]string, len(ss))
		for i, s := range ss {
			o[i] = leanStr(s)
		}
		return "[" + strings.Join(o, ", ") + "]"
	}
	regFirst, selCases := pullLoopFacts(act)
	fmt.Fprintf(&out, "/-- in the RETRY loop of GetSubscriptionMessages.execute the awaiter is registered before the query transaction -/\ndef pullRegistersBeforeQuery : Bool := %v\n", regFirst)
	fmt.Fprintf(&out, "/-- the cases of that loop's select and how each ends -/\ndef pullSelectCases : List String := %s\n", q(selCases))
	fmt.Fprintf(&out, "/-- the sort order of the queries of GetSubscriptionMessages.nextAttempt (the wake-up time of a waiting pull) -/\ndef nextAttemptOrders : List String := %s\n", q(nextAttemptOrders(act)))
	fmt.Fprintf(&out, "/-- the sort keys of the predecessor query of deliverToSubscription -/\ndef predecessorOrder : List String := %s\n", q(predecessorOrder(act)))
	fmt.Fprintf(&out, "/-- the transaction closures of GetSubscriptionMessages.execute that select candidates: do they record the attempt too -/\ndef pullTxShape : List String := %s\n", q(pullTxShape(act)))
	fmt.Fprintf(&out, "/-- every `case <-pubNotify` of MessageStreamer.Go: does it take a new awaiter first -/\ndef streamerRenewals : List String := %s\n", q(streamerRenewals(act)))
	fmt.Fprintf(&out, "/-- every Send / SendBatch of the sender goroutine of MessageStreamer.Go: are the fetched deliveries entered into `pending` before it -/\ndef streamerBooksBeforeSend : List String := %s\n", q(streamerBooksBeforeSend(act)))
	fmt.Fprintf(&out, "/-- MessageStreamer.Go, refresh goroutine: what the loop applying the database's answer ranges over -/\ndef streamerRefreshApplies : List String := %s\n", q(streamerRefreshApplies(act)))
	fmt.Fprintf(&out, "/-- services.monitorPusher: the context the push service watches to learn that a pusher has ended -/\ndef pusherMonitorContext : String := %q\n", pusherMonitorContext(svc))
	{
		var fl []string
		for _, f := range streamerTickerFloors(act) {
			fl = append(fl, fmt.Sprint(f))
		}
		fmt.Fprintf(&out, "/-- for every time.NewTicker(x) of MessageStreamer.Go: the floor (ns) an `if x < C { x = C }` before it guarantees (0: none) -/\ndef streamerTickerFloors : List Int := [%s]\n", strings.Join(fl, ", "))
	}
	fmt.Fprintf(&out, "/-- every `delete(pending, id)` of the reader goroutine of MessageStreamer.Go: is it under `if pending[id] == <entry snapshotted before the database call>` -/\ndef streamerReaderReleases : List String := %s\n", q(streamerReaderReleases(act)))

	out.WriteString("\n/-- List handler ↦ literal appended to the project to form the name prefix -/\n")
	for _, h := range [][3]string{{"publisherServer", "ListTopics", "listTopicsSuffix"}, {"subscriberServer", "ListSubscriptions", "listSubscriptionsSuffix"}, {"subscriberServer", "ListSnapshots", "listSnapshotsSuffix"}} {
		fd := funcDecl(svc, h[0], h[1])
		fn := listPrefixFn(fd)
		suffix := ""
		if fn != "" {
			suffix = prefixSuffix(svc, fn)
		} else {
			problem("%s: prefix function not found", h[1])
		}
		fmt.Fprintf(&out, "def %s : String := %s\n", h[2], leanStr(suffix))
		fmt.Fprintf(&out, "def %sPageDefault : Int := %d\n", strings.TrimSuffix(h[2], "Suffix"), pageSizeDefault(svc, fd))
	}

	codes := pushSuccessCodes(act)
	cs := make([]string, len(codes))
	for i, c := range codes {
		cs[i] = fmt.Sprint(c)
	}
	fmt.Fprintf(&out, "\n/-- HTTP status codes the push streamer treats as success -/\ndef pushSuccessCodes : List Nat := [%s]\n", strings.Join(cs, ", "))
	{
		var ws []string
		for _, c := range windowConsts(act, funcDecl(act, "httpPushStreamConn", "Receive")) {
			ws = append(ws, fmt.Sprint(c))
		}
		fmt.Fprintf(&out, "/-- the distinct integer constants of httpPushStreamConn.Receive and its helpers, ascending (window floor, nack factor, window ceiling) -/\ndef pushWindowConsts : List Int := [%s]\n", strings.Join(ws, ", "))
	}

	un := interceptors(grpcp, "ChainUnaryInterceptor")
	st := interceptors(grpcp, "ChainStreamInterceptor")
	fmt.Fprintf(&out, "\n/-- production interceptor chains of grpc/server.go -/\ndef unaryInterceptors : List String := %s\ndef streamInterceptors : List String := %s\n", q(un), q(st))

	var hooks []hook
	findRunners(act)
	findRunners(svc)
	hooks = append(hooks, commitHooks(act)...)
	hooks = append(hooks, commitHooks(svc)...)
	sort.Slice(hooks, func(i, j int) bool { return hooks[i].where < hooks[j].where })
	hs := make([]string, len(hooks))
	for i, h := range hooks {
		hs[i] = fmt.Sprintf("(%s, %s)", leanStr(h.where), leanStr(h.shape))
	}
	fmt.Fprintf(&out, "\n/-- every tx.OnCommit hook: (where, shape); \"guarded\" = wakes only after the inner commit returned nil -/\ndef commitHooks : List (String × String) := [\n  %s]\n", strings.Join(hs, ",\n  "))
	stray := append(strayWakes(act), strayWakes(svc)...)
	fmt.Fprintf(&out, "/-- Wake* call sites outside commit hooks (outside notify.go): (file, callee) -/\ndef strayWakes : List (String × String) := [%s]\n", strings.Join(stray, ", "))

	fmt.Fprintf(&out, "\n/-- maintenance services registered by services/prune-common.go: (service name, action constructor) -/\ndef pruneServices : List (String × String) := [%s]\n", strings.Join(pruneServices(svc), ", "))
	flt := byName["faults"]
	fmt.Fprintf(&out, "\n/-- steps of faults.Set.Check found in the source, in order -/\ndef faultsCheckShape : List String := %s\n", q(faultsCheckShape(flt)))
	fmt.Fprintf(&out, "/-- top-level statements of faults.Set.match, in order (is the walk over the descriptions under the read lock?) -/\ndef faultsSetMatchLock : List String := %s\n", q(faultsSetMatchLock(flt)))
	fmt.Fprintf(&out, "/-- statements of faults.Description.match, in order -/\ndef faultsMatchShape : List String := %s\n", q(faultsMatchShape(flt)))

	out.WriteString("\nend Mmmbbb.Extracted\n")
	if len(problems) > 0 {
		for _, p := range problems {
			fmt.Fprintln(os.Stderr, "extract:", p)
		}
	}
	fmt.Print(out.String())
}
