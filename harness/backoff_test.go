package harness

import (
	"fmt"
	"math"
	"strings"
	"testing"
	"time"

	"github.com/google/uuid"

	"go.6river.tech/mmmbbb/actions"
	"go.6river.tech/mmmbbb/ent"
)

// setDur stores v in a field whose type (an interval type internal to the repository) cannot be named here
func setDur[T ~int64](p **T, v int64) { x := T(v); *p = &x }

// backoffSweep calls actions.NextDelayFor directly over a grid of retry policies and attempt counts
// (far beyond what a history reaches: a push endpoint that has been failing for days) and compares
// with the Lean model's exact value min(max, ⌊min·11ⁿ/10ⁿ⌋) (line `backoff`), within the stated float
// tolerance; the jittered delay lies in [nominal, nominal + 1 s).
func backoffSweep(prop string) func(t *testing.T, st *Stats) {
	return func(t *testing.T, st *Stats) {
		m, err := StartModel()
		if err != nil {
			t.Fatal(err)
		}
		defer m.Close()
		mins := []*int64{nil, p64(0), p64(1), p64(800), p64(int64(time.Millisecond)), p64(200 * int64(time.Millisecond)), p64(int64(time.Second)), p64(10 * int64(time.Second)), p64(600 * int64(time.Second)), p64(10000 * int64(time.Second))}
		maxs := []*int64{nil, p64(0), p64(1), p64(800), p64(int64(time.Second)), p64(600 * int64(time.Second)), p64(1000000 * int64(time.Second)), p64(math.MaxInt64 / 2)}
		var ns []int
		for n := 0; n <= 60; n++ {
			ns = append(ns, n)
		}
		for n := 200; n <= 280; n++ {
			ns = append(ns, n)
		}
		ns = append(ns, 100, 150, 300, 400, 433, 434, 450, 500, 1000, 5000)
		big := []int{100000, 1000000, math.MaxInt32}
		type q struct {
			mn, mx *int64
			n      int
		}
		var qs []q
		var lines []string
		f := func(p *int64) string {
			if p == nil {
				return "-"
			}
			return fmt.Sprint(*p)
		}
		for _, mn := range mins {
			for _, mx := range maxs {
				for _, n := range ns {
					qs = append(qs, q{mn, mx, n})
					lines = append(lines, fmt.Sprintf("backoff minb=%s maxb=%s n=%d", f(mn), f(mx), n))
				}
			}
		}
		outs, err := m.Replay(lines)
		if err != nil {
			t.Fatal(err)
		}
		id := uuid.MustParse("6ba7b810-9dad-11d1-80b4-00c04fd430c8")
		mk := func(mn, mx *int64) *ent.Subscription {
			s := &ent.Subscription{ID: id}
			if mn != nil {
				setDur(&s.MinBackoff, *mn)
			}
			if mx != nil {
				setDur(&s.MaxBackoff, *mx)
			}
			return s
		}
		bad := func(sig, what, replay string) {
			p := ReplayPath(fmt.Sprintf("%s-%s-%d.txt", prop, sig, Seed()))
			writeFile(p, replay)
			st.Violate(Violation{What: "[" + sig + "] " + what, Replay: p, FoundInput: true, Sig: sig})
		}
		for i, x := range qs {
			nom, fz := actions.NextDelayFor(mk(x.mn, x.mx), x.n)
			var want int64
			if _, err := fmt.Sscanf(strings.TrimPrefix(outs[i], "R nominal="), "%d", &want); err != nil {
				t.Fatalf("model: %q", outs[i])
			}
			tol := want/1099511627776 + 2
			st.Count("backoff_points", 1)
			if d := int64(nom) - want; d > tol || d < -tol {
				bad("backoff-value", fmt.Sprintf("NextDelayFor(min=%s, max=%s, attempts=%d) gives a nominal delay of %d ns; min(max, min·1.1ⁿ) is %d ns", f(x.mn), f(x.mx), x.n, int64(nom), want), lines[i]+"\n"+outs[i])
				return
			}
			if fz < nom || fz >= nom+time.Second {
				bad("backoff-jitter", fmt.Sprintf("NextDelayFor(min=%s, max=%s, attempts=%d): jittered delay %d ns is not in [nominal, nominal + 1 s) with nominal %d ns", f(x.mn), f(x.mx), x.n, int64(fz), int64(nom)), lines[i])
				return
			}
		}
		// attempt counts beyond what the exact model is asked for: the cap holds and nothing is negative
		for _, mn := range mins {
			for _, mx := range maxs {
				for _, n := range big {
					nom, fz := actions.NextDelayFor(mk(mn, mx), n)
					cap := int64(600 * time.Second)
					if mx != nil && *mx > 0 {
						cap = *mx
					}
					st.Count("backoff_points", 1)
					if int64(nom) < 0 || int64(nom) > cap+cap/1099511627776+2 || fz < nom || fz >= nom+time.Second {
						bad("backoff-value", fmt.Sprintf("NextDelayFor(min=%s, max=%s, attempts=%d) gives nominal %d ns, jittered %d ns; the maximum back-off is %d ns", f(mn), f(mx), n, int64(nom), int64(fz), cap), fmt.Sprintf("min=%s max=%s n=%d", f(mn), f(mx), n))
						return
					}
				}
			}
		}
	}
}
