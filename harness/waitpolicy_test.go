package harness

import (
	"context"
	"encoding/json"
	"fmt"
	"os"
	"testing"
	"testing/synctest"
	"time"

	"github.com/google/uuid"

	"go.6river.tech/mmmbbb/actions"
	"go.6river.tech/mmmbbb/ent/delivery"
)

// waitingPullCurrentPolicy: a Pull that is waiting (nothing due) while UpdateSubscription changes the
// dead-letter policy of its subscription acts, when a lease then lapses, on the policy the
// subscription has at that moment — not on the row it loaded before it began to wait.
//
//	removed : the policy (1 attempt, topic d) is removed while the pull waits: the message is handed
//	          out again (attempt 2) and nothing reaches the subscription of d
//	attached: a policy (1 attempt, topic d) is attached while the pull waits: the message, which has
//	          had its one attempt, is retired and forwarded to d instead of being handed out again
func waitingPullCurrentPolicy(prop string) func(t *testing.T, st *Stats) {
	return func(t *testing.T, st *Stats) {
		for _, mode := range []string{"removed", "attached"} {
			what := ""
			synctest.Test(t, func(t *testing.T) {
				w := NewWorld(t, Seed())
				defer w.Close()
				cfg := &SubCfg{Topic: "t", TTL: 24 * 3600 * Sec, MTTL: 3600 * Sec, MinB: Sec}
				if mode == "removed" {
					cfg.MaxAtt, cfg.DLT = 1, "d"
				}
				w.Exec(Op{K: "create_topic", Topic: "t"})
				w.Exec(Op{K: "create_topic", Topic: "d"})
				w.Exec(Op{K: "create_sub", Sub: "s", Cfg: cfg})
				w.Exec(Op{K: "create_sub", Sub: "ds", Cfg: &SubCfg{Topic: "d", TTL: 24 * 3600 * Sec, MTTL: 3600 * Sec}})
				w.Exec(Op{K: "publish", Topic: "t", Msgs: []MsgSpec{{N: 0}}})
				time.Sleep(time.Millisecond)
				r := w.Exec(Op{K: "pull", Sub: "s", Max: 2})
				if len(r.Delivered) != 1 {
					t.Fatalf("setup: pull delivered %d", len(r.Delivered))
				}
				w.Dump()
				var subID, dsID uuid.UUID
				for _, row := range w.lastSubs {
					if row.Name == SubName("s") {
						subID = row.ID
					} else {
						dsID = row.ID
					}
				}
				var due time.Time
				for _, d := range w.lastDels {
					if d.ID == r.Delivered[0].ID {
						due = d.AttemptAt
					}
				}
				a := actions.NewGetSubscriptionMessages(actions.GetSubscriptionMessagesParams{ID: &subID, Name: SubName("s"), MaxMessages: 5, MaxBytes: 1 << 30, MaxWait: 30 * time.Second})
				fin := make(chan error, 1)
				go func() { fin <- a.ExecuteClient(context.Background(), w.Client) }()
				synctest.Wait()
				select {
				case <-fin:
					what = "setup: the waiting pull returned at once"
					return
				default:
				}
				// the policy changes while the pull waits
				req := &SubReq{Name: SubName("s"), Topic: TopicName("t")}
				if mode == "attached" {
					dl := TopicName("d")
					req.DLTopic, req.DLMax = &dl, 1
				}
				if u := w.Exec(Op{K: "rpc", Rpc: &Rpc{Kind: "updateSub", Has: true, Paths: []string{"dead_letter_policy"}, Sub: req}}); u.Resp != "OK" && u.Resp != "ok" && len(u.Resp) > 0 && u.Resp[0] == 'E' {
					what = "setup: UpdateSubscription answered " + u.Resp
					return
				}
				time.Sleep(time.Until(due) + 300*time.Millisecond)
				synctest.Wait()
				handed := -1
				select {
				case <-fin:
					if res, ok := a.Results(); ok {
						handed = len(res.Deliveries)
					}
				default:
				}
				src, _ := w.Client.Delivery.Get(qctx, r.Delivered[0].ID)
				fwd, _ := w.Client.Delivery.Query().Where(delivery.SubscriptionID(dsID)).Count(qctx)
				switch mode {
				case "removed":
					if fwd != 0 || handed != 1 || src == nil || src.CompletedAt != nil {
						what = fmt.Sprintf("the dead-letter policy (1 attempt, topic d) of subscription s was removed while a Pull on s was waiting; when the lease of the message then lapsed the waiting Pull returned %d deliveries (-1: still waiting), the subscription of d holds %d deliveries, the message is retired on s: %v — expected: handed out again by that Pull, nothing forwarded", handed, fwd, src != nil && src.CompletedAt != nil)
					}
				case "attached":
					if fwd != 1 || handed > 0 || src == nil || src.CompletedAt == nil {
						what = fmt.Sprintf("a dead-letter policy (1 attempt, topic d) was attached to subscription s while a Pull on s was waiting; the message had had its one attempt; when its lease lapsed the waiting Pull returned %d deliveries (-1: still waiting), the subscription of d holds %d deliveries, the message is retired on s: %v — expected: retired and forwarded, not handed out a second time", handed, fwd, src != nil && src.CompletedAt != nil)
					}
				}
				if handed < 0 {
					time.Sleep(40 * time.Second) // let the pull run into its MaxWait
					synctest.Wait()
				}
			})
			st.Count("waiting_pull_policy_cases", 1)
			if what != "" {
				p := ReplayPath(fmt.Sprintf("%s-waiting-pull-policy-%s-%d.json", prop, mode, Seed()))
				b, _ := json.MarshalIndent(map[string]interface{}{"property": prop, "sig": "waiting-pull-stale-policy", "seed": Seed(), "what": what, "mode": mode,
					"history": []string{"topics t, d; subscription s on t (minimum backoff 1 s), subscription ds on d", "publish m to t; Pull(s): m, attempt 1", "Pull(s) with a 30 s wait: blocks", "UpdateSubscription(s, mask dead_letter_policy): policy " + mode, "m's lease lapses"}}, "", " ")
				os.WriteFile(p, b, 0o644)
				st.Violate(Violation{What: "[waiting-pull-stale-policy] " + what, Replay: p, FoundInput: true, Sig: "waiting-pull-stale-policy"})
				return
			}
		}
	}
}

// waitingEmptyPullRestartsExpiry: "every pull, even an empty one, restarts the clock" — a Pull that waits
// 40 s on an empty subscription (TTL 60 s) and comes back empty restarts it when it *ends*: 30 s later
// the expiry job must leave the subscription alone.
func waitingEmptyPullRestartsExpiry(t *testing.T, st *Stats) {
	for _, updated := range []bool{false, true} {
		if waitingEmptyPullCase(t, st, updated) {
			return
		}
	}
	cancelledFetchRestartsExpiry(t, st)
}

// cancelledFetchRestartsExpiry: the fetch of a stream (or of the push path) names its subscription by id and
// usually ends because the client goes away; it has restarted the expiry clock when it began. Subscription
// with a TTL of 60 s, idle for 30 s; a fetch begins, is cancelled 10 s later; 30 s after that (70 s after
// the subscription's creation, 40 s after the fetch began) the expiry job leaves the subscription alone.
func cancelledFetchRestartsExpiry(t *testing.T, st *Stats) {
	what := ""
	synctest.Test(t, func(t *testing.T) {
		w := NewWorld(t, Seed())
		defer w.Close()
		w.Exec(Op{K: "create_topic", Topic: "t"})
		w.Exec(Op{K: "create_sub", Sub: "s", Cfg: &SubCfg{Topic: "t", TTL: 60 * Sec, MTTL: 3600 * Sec}})
		w.Dump()
		var subID uuid.UUID
		for _, row := range w.lastSubs {
			subID = row.ID
		}
		time.Sleep(30 * time.Second)
		ctx, cancel := context.WithCancel(context.Background())
		a := actions.NewGetSubscriptionMessages(actions.GetSubscriptionMessagesParams{ID: &subID, Name: SubName("s"), MaxMessages: 5, MaxBytes: 1 << 30, MaxWait: 50 * time.Second})
		fin := make(chan error, 1)
		go func() { fin <- a.ExecuteClient(ctx, w.Client) }()
		time.Sleep(10 * time.Second)
		synctest.Wait()
		cancel()
		synctest.Wait()
		select {
		case <-fin:
		default:
			what = "setup: the cancelled fetch did not return"
			time.Sleep(60 * time.Second)
			synctest.Wait()
			return
		}
		time.Sleep(30 * time.Second)
		r := w.Exec(Op{K: "expire_subs", Max: 5})
		g := w.Exec(Op{K: "pull", Sub: "s", Max: 1})
		if r.Resp != "ok:0" || (len(g.Resp) > 0 && g.Resp[0] == 'E') {
			what = fmt.Sprintf("subscription with an expiration TTL of 60 s, idle for 30 s; a fetch by subscription id (as a stream or the push path makes it) began then and was cancelled 10 s later; 30 s after that — 40 s after the fetch began — the expiry job answered %s and a Pull is answered %s: the fetch did not restart the expiry clock", r.Resp, g.Resp)
		}
	})
	st.Count("cancelled_fetch_cases", 1)
	if what != "" && (len(what) < 6 || what[:6] != "setup:") {
		p := ReplayPath(fmt.Sprintf("C14-cancelled-fetch-%d.json", Seed()))
		b, _ := json.MarshalIndent(map[string]interface{}{"property": "C14", "sig": "fetch-did-not-restart-expiry", "seed": Seed(), "what": what,
			"history": []string{"subscription s, expiration TTL 60 s, nothing published", "30 s pass", "fetch by subscription id with a 50 s wait begins", "10 s later its context is cancelled", "30 s later: expiry job, then Pull(s)"}}, "", " ")
		os.WriteFile(p, b, 0o644)
		st.Violate(Violation{What: "[fetch-did-not-restart-expiry] " + what, Replay: p, FoundInput: true, Sig: "fetch-did-not-restart-expiry"})
	} else if what != "" {
		st.Count("cancelled_fetch_setup_failed", 1)
	}
}

// updated: while the pull waits, UpdateSubscription raises the expiration TTL to 300 s; the clock the pull
// restarts at its end runs with the TTL the subscription has then (checked 100 s after the pull ended)
func waitingEmptyPullCase(t *testing.T, st *Stats, updated bool) (violated bool) {
	what := ""
	synctest.Test(t, func(t *testing.T) {
		w := NewWorld(t, Seed())
		defer w.Close()
		w.Exec(Op{K: "create_topic", Topic: "t"})
		w.Exec(Op{K: "create_sub", Sub: "s", Cfg: &SubCfg{Topic: "t", TTL: 60 * Sec, MTTL: 3600 * Sec}})
		w.Dump()
		var subID uuid.UUID
		for _, row := range w.lastSubs {
			subID = row.ID
		}
		a := actions.NewGetSubscriptionMessages(actions.GetSubscriptionMessagesParams{ID: &subID, Name: SubName("s"), MaxMessages: 5, MaxBytes: 1 << 30, MaxWait: 40 * time.Second})
		start := time.Now()
		fin := make(chan error, 1)
		go func() { fin <- a.ExecuteClient(context.Background(), w.Client) }()
		if updated {
			time.Sleep(10 * time.Second)
			synctest.Wait()
			ttl := int64(300 * Sec)
			if u := w.Exec(Op{K: "rpc", Rpc: &Rpc{Kind: "updateSub", Has: true, Paths: []string{"expiration_policy"}, Sub: &SubReq{Name: SubName("s"), Topic: TopicName("t"), Expiration: &ttl}}}); len(u.Resp) > 0 && u.Resp[0] == 'E' {
				what = "setup: UpdateSubscription answered " + u.Resp
				return
			}
			time.Sleep(31 * time.Second)
		} else {
			time.Sleep(41 * time.Second)
		}
		synctest.Wait()
		select {
		case err := <-fin:
			if err != nil {
				what = "setup: the waiting pull failed: " + err.Error()
				return
			}
		default:
			what = "setup: the pull with a 40 s wait has not returned after 41 s"
			time.Sleep(60 * time.Second)
			synctest.Wait()
			return
		}
		ended := time.Since(start)
		if updated {
			time.Sleep(100 * time.Second)
		} else {
			time.Sleep(29 * time.Second)
		}
		r := w.Exec(Op{K: "expire_subs", Max: 5})
		g := w.Exec(Op{K: "pull", Sub: "s", Max: 1})
		if r.Resp != "ok:0" || (len(g.Resp) > 0 && g.Resp[0] == 'E') {
			what = fmt.Sprintf("subscription with an expiration TTL of 60 s; a Pull waited %s on it and came back empty; %s after the pull ended the expiry job answered %s and a Pull is answered %s — the empty pull did not restart the expiry clock when it ended", ended, time.Since(start)-ended, r.Resp, g.Resp)
			if updated {
				what = fmt.Sprintf("subscription with an expiration TTL of 60 s; while a Pull was waiting on it UpdateSubscription raised the TTL to 300 s; the Pull came back empty after %s; %s after it ended the expiry job answered %s and a Pull is answered %s — the clock the pull restarted at its end does not run with the TTL the subscription had then", ended, time.Since(start)-ended, r.Resp, g.Resp)
			}
		}
	})
	st.Count("waiting_empty_pull_cases", 1)
	if what != "" && (len(what) < 6 || what[:6] != "setup:") {
		p := ReplayPath(fmt.Sprintf("C14-waiting-empty-pull-%d.json", Seed()))
		b, _ := json.MarshalIndent(map[string]interface{}{"property": "C14", "sig": "empty-pull-did-not-restart-expiry", "seed": Seed(), "what": what,
			"ttl_updated_while_waiting": updated,
			"history":                   []string{"subscription s, expiration TTL 60 s, nothing published", "Pull(s) with a 40 s wait: comes back empty after 40 s", "(variant: 10 s into the wait UpdateSubscription sets the TTL to 300 s)", "29 s (variant: 100 s) later: expiry job, then Pull(s)"}}, "", " ")
		os.WriteFile(p, b, 0o644)
		st.Violate(Violation{What: "[empty-pull-did-not-restart-expiry] " + what, Replay: p, FoundInput: true, Sig: "empty-pull-did-not-restart-expiry"})
		return true
	} else if what != "" {
		st.Count("waiting_empty_pull_setup_failed", 1)
	}
	return false
}
