package harness

import (
	"bufio"
	"fmt"
	"io"
	"os"
	"os/exec"
	"strings"
	"sync"
)

// Model is a running Lean driver process.
type Model struct {
	mu  sync.Mutex
	cmd *exec.Cmd
	in  io.WriteCloser
	out *bufio.Reader
}

func DriverPath() string {
	if p := os.Getenv("VERIF_DRIVER"); p != "" {
		return p
	}
	return "/verif/lean/.lake/build/bin/driver"
}

func StartModel() (*Model, error) {
	cmd := exec.Command(DriverPath())
	in, err := cmd.StdinPipe()
	if err != nil {
		return nil, err
	}
	out, err := cmd.StdoutPipe()
	if err != nil {
		return nil, err
	}
	cmd.Stderr = os.Stderr
	if err := cmd.Start(); err != nil {
		return nil, err
	}
	return &Model{cmd: cmd, in: in, out: bufio.NewReaderSize(out, 1<<20)}, nil
}

func (m *Model) Close() {
	m.in.Close()
	m.cmd.Wait()
}

// Replay sends the lines and returns the driver's answers, one per line.
func (m *Model) Replay(lines []string) ([]string, error) {
	m.mu.Lock()
	defer m.mu.Unlock()
	errc := make(chan error, 1)
	go func() {
		w := bufio.NewWriterSize(m.in, 1<<20)
		for _, l := range lines {
			if strings.ContainsAny(l, "\n\r") {
				errc <- fmt.Errorf("line contains newline")
				return
			}
			w.WriteString(l)
			w.WriteByte('\n')
		}
		errc <- w.Flush()
	}()
	outs := make([]string, 0, len(lines))
	for range lines {
		s, err := m.out.ReadString('\n')
		if err != nil {
			return outs, fmt.Errorf("driver died: %w", err)
		}
		outs = append(outs, strings.TrimRight(s, "\n"))
	}
	if err := <-errc; err != nil {
		return outs, err
	}
	return outs, nil
}

// Disagreement describes the first line on which model and implementation differ.
type Disagreement struct {
	LineNo int
	Line   string
	Answer string
}

// dumpDiff points at the first rows on which two canonical dumps differ.
func dumpDiff(impl, model string) string {
	ti, tm := strings.Split(impl, "|"), strings.Split(model, "|")
	for k := 0; k < len(ti) && k < len(tm); k++ {
		if ti[k] == tm[k] {
			continue
		}
		ri, rm := strings.Split(ti[k], ";"), strings.Split(tm[k], ";")
		mi := map[string]string{}
		for _, r := range rm {
			mi[strings.SplitN(r, ",", 2)[0]] = r
		}
		seen := map[string]bool{}
		for _, r := range ri {
			key := strings.SplitN(r, ",", 2)[0]
			seen[key] = true
			if o, ok := mi[key]; !ok {
				return "row only in implementation: " + r
			} else if o != r {
				fi, fm := strings.Split(r, ","), strings.Split(o, ",")
				var diffs []string
				for x := 0; x < len(fi) && x < len(fm); x++ {
					if fi[x] != fm[x] {
						diffs = append(diffs, "impl "+fi[x]+" / model "+fm[x])
					}
				}
				return "row " + key + " (table " + ti[k][:1] + ") differs: " + strings.Join(diffs, "; ")
			}
		}
		for _, r := range rm {
			if !seen[strings.SplitN(r, ",", 2)[0]] {
				return "row only in model: " + r
			}
		}
	}
	return "dumps differ"
}

func (d *Disagreement) String() string {
	if strings.HasPrefix(d.Line, "dump ") && strings.HasPrefix(d.Answer, "MISMATCH kind=dump model=") {
		return fmt.Sprintf("line %d: tables differ after the operation: %s", d.LineNo, dumpDiff(d.Line[5:], strings.TrimPrefix(d.Answer, "MISMATCH kind=dump model=")))
	}
	l := d.Line
	if len(l) > 600 {
		l = l[:600] + "…"
	}
	a := d.Answer
	if len(a) > 600 {
		a = a[:600] + "…"
	}
	return fmt.Sprintf("line %d: %s\n    model says: %s", d.LineNo, l, a)
}

// Check replays a trace and returns the first disagreement (nil if none).
func (m *Model) Check(lines []string) (*Disagreement, error) {
	outs, err := m.Replay(lines)
	if err != nil {
		return nil, err
	}
	for i, o := range outs {
		if o != "ok" {
			return &Disagreement{LineNo: i, Line: lines[i], Answer: o}, nil
		}
	}
	return nil, nil
}

// OrdStats asks the driver for the ordered-delivery refinement counters of the trace replayed last
// (steps that satisfied Ord.stepOk, steps outside the theorem's hypotheses, steps on which only the
// clock assumption failed).
func (m *Model) OrdStats() (checked, excluded, stamps int) {
	checked, excluded, stamps, _, _ = m.OrdFragStats()
	return
}

// OrdFragStats: as OrdStats, plus how many steps of the last replayed history lie inside / outside the
// fragment of the operations on which C05 is proved outright (`C05_fragment`)
func (m *Model) OrdFragStats() (checked, excluded, stamps, fragIn, fragOut int) {
	outs, err := m.Replay([]string{"ordstats"})
	if err != nil || len(outs) != 1 {
		return
	}
	fmt.Sscanf(outs[0], "R checked=%d excluded=%d stamps=%d fragin=%d fragout=%d", &checked, &excluded, &stamps, &fragIn, &fragOut)
	return
}

// OrdTieStats: how many steps of the last replayed history satisfied the refinement obligation that has
// no clock assumption (`Ord2.stepOk2`, theorem `C05_ordered_ties`), and how many steps that are not
// excluded (not a Seek) did not
func (m *Model) OrdTieStats() (ok, bad int) {
	outs, err := m.Replay([]string{"ordstats"})
	if err != nil || len(outs) != 1 {
		return
	}
	if i := strings.Index(outs[0], " ties="); i >= 0 {
		fmt.Sscanf(outs[0][i:], " ties=%d tiesbad=%d", &ok, &bad)
	}
	return
}

// OrdFragDLStats: how many steps of the last replayed history lie inside the fragment of `C05_fragment_dl`
// (every operation but the seeks; acknowledgements of handed-out deliveries; tie-closed rounds of the jobs
// that delete delivery rows), and how many steps that are not seeks lie outside it
func (m *Model) OrdFragDLStats() (in, out int) {
	outs, err := m.Replay([]string{"ordstats"})
	if err != nil || len(outs) != 1 {
		return
	}
	if i := strings.Index(outs[0], " fragdlin="); i >= 0 {
		fmt.Sscanf(outs[0][i:], " fragdlin=%d fragdlout=%d", &in, &out)
	}
	return
}
