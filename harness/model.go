package harness

import (
	"bufio"
	"fmt"
	"io"
	"os"
	"os/exec"
	"strings"
	"sync"
)

// Model is a running Lean driver process.
type Model struct {
	mu  sync.Mutex
	cmd *exec.Cmd
	in  io.WriteCloser
	out *bufio.Reader
}

func DriverPath() string {
	if p := os.Getenv("VERIF_DRIVER"); p != "" {
		return p
	}
	return "/verif/lean/.lake/build/bin/driver"
}

func StartModel() (*Model, error) {
	cmd := exec.Command(DriverPath())
	in, err := cmd.StdinPipe()
	if err != nil {
		return nil, err
	}
	out, err := cmd.StdoutPipe()
	if err != nil {
		return nil, err
	}
	cmd.Stderr = os.Stderr
	if err := cmd.Start(); err != nil {
		return nil, err
	}
	return &Model{cmd: cmd, in: in, out: bufio.NewReaderSize(out, 1<<20)}, nil
}

func (m *Model) Close() {
	m.in.Close()
	m.cmd.Wait()
}

// Replay sends the lines and returns the driver's answers, one per line.
func (m *Model) Replay(lines []string) ([]string, error) {
	m.mu.Lock()
	defer m.mu.Unlock()
	errc := make(chan error, 1)
	go func() {
		w := bufio.NewWriterSize(m.in, 1<<20)
		for _, l := range lines {
			if strings.ContainsAny(l, "\n\r") {
				errc <- fmt.Errorf("line contains newline")
				return
			}
			w.WriteString(l)
			w.WriteByte('\n')
		}
		errc <- w.Flush()
	}()
	outs := make([]string, 0, len(lines))
	for range lines {
		s, err := m.out.ReadString('\n')
		if err != nil {
			return outs, fmt.Errorf("driver died: %w", err)
		}
		outs = append(outs, strings.TrimRight(s, "\n"))
	}
	if err := <-errc; err != nil {
		return outs, err
	}
	return outs, nil
}

// Disagreement describes the first line on which model and implementation differ.
type Disagreement struct {
	LineNo int
	Line   string
	Answer string
}

func (d *Disagreement) String() string {
	l := d.Line
	if len(l) > 600 {
		l = l[:600] + "…"
	}
	a := d.Answer
	if len(a) > 600 {
		a = a[:600] + "…"
	}
	return fmt.Sprintf("line %d: %s\n    model says: %s", d.LineNo, l, a)
}

// Check replays a trace and returns the first disagreement (nil if none).
func (m *Model) Check(lines []string) (*Disagreement, error) {
	outs, err := m.Replay(lines)
	if err != nil {
		return nil, err
	}
	for i, o := range outs {
		if o != "ok" {
			return &Disagreement{LineNo: i, Line: lines[i], Answer: o}, nil
		}
	}
	return nil, nil
}
