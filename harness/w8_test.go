package harness

import (
	"sort"
	"context"
	"encoding/json"
	"fmt"
	"math/rand"
	"net/http"
	"os"
	"strings"
	"testing"
	"testing/synctest"
	"time"

	"github.com/google/uuid"
	ggrpc "google.golang.org/grpc"
	"google.golang.org/grpc/codes"
	"google.golang.org/grpc/status"

	"go.6river.tech/mmmbbb/actions"
	"go.6river.tech/mmmbbb/controllers"
	"go.6river.tech/mmmbbb/ent/delivery"
	"go.6river.tech/mmmbbb/faults"
	mgrpc "go.6river.tech/mmmbbb/grpc"
	"go.6river.tech/mmmbbb/grpc/pubsubpb"
	"go.6river.tech/mmmbbb/services"
)

// Scenarios through the outer layers (the gRPC stream adapter, the HTTP pusher, the service loops with
// their default settings, the stream handler behind the fault interceptor) for the properties whose
// core is checked on the action level.

func writeScenario(prop, sig, what string, history []string) string {
	p := ReplayPath(fmt.Sprintf("%s-%s-%d.json", prop, sig, Seed()))
	b, _ := json.MarshalIndent(map[string]interface{}{"property": prop, "sig": sig, "seed": Seed(), "what": what, "history": history}, "", " ")
	os.WriteFile(p, b, 0o644)
	return p
}

// pushRefusedRedelivered (C04): pushes the endpoint refuses are rescheduled after the back-off — every one
// of them, also when several refusals arrive together — and pushed again.
func pushRefusedRedelivered(prop string) func(t *testing.T, st *Stats) {
	return func(t *testing.T, st *Stats) {
		for _, mix := range [][2]int{{6, 0}, {14, 0}, {9, 5}} {
			what := pushBatchOutcome(t, Seed(), mix[0], mix[1])
			st.Count("push_batch_cases", 1)
			if strings.HasPrefix(what, "setup:") {
				st.Count("push_batch_setup_failed", 1)
				continue
			}
			if what != "" {
				p := writeScenario(prop, "push-refused-not-redelivered", what, []string{"push subscription (minimum backoff 1 s, maximum 2 s)", "the window is opened by fast successes",
					fmt.Sprintf("a batch is held in flight and answered together: %d x 500, %d x slow 200", mix[0], mix[1]), "every message answered 500 is pushed again within a minute"})
				st.Violate(Violation{What: "[push-refused-not-redelivered] " + what, Replay: p, FoundInput: true, Sig: "push-refused-not-redelivered"})
				return
			}
		}
	}
}

// pushRejectedForwarded (C06): a push subscription with a dead-letter policy of two attempts; a batch
// of messages is refused by the endpoint twice (the refusals of a round arrive together). Every one of
// them has then had its two deliveries and is forwarded to the dead-letter topic's subscription — none
// is silently retired.
func pushRejectedForwarded(t *testing.T, st *Stats) {
	const n = 8
	what := ""
	synctest.Test(t, func(t *testing.T) {
		w := NewWorld(t, Seed())
		defer w.Close()
		w.Exec(Op{K: "create_topic", Topic: "t"})
		w.Exec(Op{K: "create_topic", Topic: "d"})
		w.Exec(Op{K: "create_sub", Sub: "push", Cfg: &SubCfg{Topic: "t", TTL: 24 * 3600 * Sec, MTTL: 3600 * Sec, MinB: Sec, MaxB: 2 * Sec, Push: "http://push.test/x", MaxAtt: 2, DLT: "d"}})
		w.Exec(Op{K: "create_sub", Sub: "ds", Cfg: &SubCfg{Topic: "d", TTL: 24 * 3600 * Sec, MTTL: 3600 * Sec}})
		var dsID, pushID uuid.UUID
		var pushName string
		w.Dump()
		for _, row := range w.lastSubs {
			if row.Name == SubName("ds") {
				dsID = row.ID
			} else {
				pushID, pushName = row.ID, row.Name
			}
		}
		rt := &scriptedRT{reqs: make(chan *pushReq)}
		ctx, cancel := context.WithCancel(context.Background())
		defer cancel()
		pusher := actions.NewHttpPusher(pushName, pushID, "http://push.test/x", &http.Client{Transport: rt}, w.Client)
		done := make(chan error, 1)
		go func() { done <- pusher.Go(ctx) }()
		synctest.Wait()
		next := func() *pushReq {
			synctest.Wait()
			select {
			case r := <-rt.reqs:
				return r
			default:
				return nil
			}
		}
		w2 := *w
		publish := func(from, n int) {
			var msgs []MsgSpec
			for i := 0; i < n; i++ {
				msgs = append(msgs, MsgSpec{N: from + i})
			}
			w2.execInner(Op{K: "publish", Topic: "t", Msgs: msgs}, &Result{T: w.Now()})
		}
		// open the window with fast successes
		publish(0, 3*n+6)
		served := 0
		for tries := 0; served < 3*n+6 && tries < 400; tries++ {
			r := next()
			if r == nil {
				time.Sleep(200 * time.Millisecond)
				continue
			}
			r.respond <- pushResp{code: 204}
			served++
		}
		synctest.Wait()
		if wdw := pusher.CurrentFlowControl().MaxMessages; wdw < n {
			what = fmt.Sprintf("setup: the window only opened to %d after %d fast successes", wdw, served)
			return
		}
		publish(1000, n)
		refused := map[string]int{}
		for round := 1; round <= 2; round++ {
			var held []*pushReq
			for tries := 0; len(held) < n && tries < 200; tries++ {
				r := next()
				if r == nil {
					time.Sleep(200 * time.Millisecond)
					continue
				}
				held = append(held, r)
			}
			if round == 1 && len(held) < n {
				what = fmt.Sprintf("setup: only %d of %d pushes in flight", len(held), n)
				return
			}
			for _, r := range held {
				refused[r.body.Message.MessageID]++
				r.respond <- pushResp{code: 500, delay: 1100 * time.Millisecond}
			}
			time.Sleep(1200 * time.Millisecond)
			synctest.Wait()
		}
		// stragglers (a message pushed late in round 2) are refused as well
		for tries := 0; tries < 60; tries++ {
			r := next()
			if r == nil {
				time.Sleep(500 * time.Millisecond)
				continue
			}
			refused[r.body.Message.MessageID]++
			r.respond <- pushResp{code: 500}
		}
		time.Sleep(30 * time.Second)
		synctest.Wait()
		fwd, _ := w.Client.Delivery.Query().Where(delivery.SubscriptionID(dsID)).Count(qctx)
		open, _ := w.Client.Delivery.Query().Where(delivery.SubscriptionID(pushID), delivery.CompletedAtIsNil()).Count(qctx)
		once := 0
		for _, k := range refused {
			if k < 2 {
				once++
			}
		}
		if fwd != n {
			what = fmt.Sprintf("push subscription with a dead-letter policy of 2 attempts: %d messages were pushed and every push was refused (500) by the endpoint, the refusals of a round arriving together; %d of them were refused only once and never pushed again; afterwards the dead-letter subscription holds %d deliveries (expected %d) and %d deliveries are still outstanding on the push subscription: messages were retired without having had their 2 deliveries and without being forwarded", n, once, fwd, n, open)
		}
		cancel()
		synctest.Wait()
	})
	st.Count("push_dead_letter_cases", 1)
	if strings.HasPrefix(what, "setup:") {
		st.Count("push_dead_letter_setup_failed", 1)
		return
	}
	if what != "" {
		p := writeScenario("C06", "push-refused-not-forwarded", what, []string{"push subscription (2 attempts, dead-letter topic d, backoff 1-2 s), subscription ds on d", "window opened by fast successes",
			fmt.Sprintf("%d messages, every push answered 500, the answers of a round together", n), "all of them are forwarded to ds after their second refusal"})
		st.Violate(Violation{What: "[push-refused-not-forwarded] " + what, Replay: p, FoundInput: true, Sig: "push-refused-not-forwarded"})
	}
}

// streamInitialRequestAcks (C06, C03): the request that opens a StreamingPull stream may carry
// acknowledgements like any other; a message acknowledged there, after its last permitted delivery, is
// not forwarded to the dead-letter topic when its lease lapses.
func streamInitialRequestAcks(t *testing.T, st *Stats) {
	what := ""
	synctest.Test(t, func(t *testing.T) {
		w := NewWorld(t, Seed())
		defer w.Close()
		w.Exec(Op{K: "create_topic", Topic: "t"})
		w.Exec(Op{K: "create_topic", Topic: "d"})
		w.Exec(Op{K: "create_sub", Sub: "s", Cfg: &SubCfg{Topic: "t", TTL: 24 * 3600 * Sec, MTTL: 3600 * Sec, MinB: Sec, MaxB: 2 * Sec, MaxAtt: 2, DLT: "d"}})
		w.Exec(Op{K: "create_sub", Sub: "ds", Cfg: &SubCfg{Topic: "d", TTL: 24 * 3600 * Sec, MTTL: 3600 * Sec}})
		var dsID, sID uuid.UUID
		w.Dump()
		for _, row := range w.lastSubs {
			if row.Name == SubName("ds") {
				dsID = row.ID
			} else {
				sID = row.ID
			}
		}
		w.Exec(Op{K: "publish", Topic: "t", Msgs: []MsgSpec{{N: 0}}})
		time.Sleep(time.Millisecond)
		var ackID uuid.UUID
		for attempt := 1; attempt <= 2; attempt++ {
			r := w.Exec(Op{K: "pull", Sub: "s", Max: 5})
			if len(r.Delivered) != 1 || r.Delivered[0].Attempt != attempt {
				what = fmt.Sprintf("setup: pull %d delivered %v", attempt, r.Delivered)
				return
			}
			ackID = r.Delivered[0].ID
			if attempt == 1 {
				time.Sleep(5 * time.Second)
			}
		}
		time.Sleep(100 * time.Millisecond)
		w.Ctl.mu.Lock()
		w.Ctl.tick = 0
		w.Ctl.mu.Unlock()
		conn := &scriptConn{closed: make(chan struct{}), out: map[uuid.UUID]int{}, limit: actions.FlowControl{MaxMessages: 1 << 30, MaxBytes: 1 << 40}, ctl: w.Ctl, greqs: make(chan *pubsubpb.StreamingPullRequest)}
		ctx, cancel := context.WithCancel(WithLabel(context.Background(), "stream"))
		defer cancel()
		w.Ctl.SpinGuard("stream", 200)
		fin := make(chan error, 1)
		go func() { fin <- w.Api().Sub.StreamingPull(&grpcStream{c: conn, ctx: ctx}) }()
		select {
		case conn.greqs <- &pubsubpb.StreamingPullRequest{Subscription: SubName("s"), StreamAckDeadlineSeconds: 10, MaxOutstandingMessages: 10, AckIds: []string{ackID.String()}}:
		case err := <-fin:
			what = fmt.Sprintf("setup: the stream ended before its initial request: %v", err)
			return
		}
		synctest.Wait()
		time.Sleep(30 * time.Second)
		synctest.Wait()
		fwd, _ := w.Client.Delivery.Query().Where(delivery.SubscriptionID(dsID)).Count(qctx)
		row, err := w.Client.Delivery.Get(qctx, ackID)
		conn.mu.Lock()
		resent := len(conn.sent)
		conn.mu.Unlock()
		switch {
		case err != nil:
			what = "setup: " + err.Error()
		case fwd != 0 || resent != 0 || row.CompletedAt == nil:
			what = fmt.Sprintf("subscription with a dead-letter policy of 2 attempts; the message was pulled twice, then acknowledged in the request that opens a StreamingPull stream (ack_ids of the initial request); 30 s later (lease lapsed) the dead-letter subscription holds %d deliveries of it (expected 0), the stream has sent %d messages (expected 0) and the delivery is completed=%v: the acknowledgement carried by the initial request was dropped", fwd, resent, row.CompletedAt != nil)
		}
		_ = sID
		w.Ctl.SpinGuard("", 0)
		cancel()
		w.Ctl.SpinReset()
		synctest.Wait()
	})
	st.Count("stream_initial_ack_cases", 1)
	if strings.HasPrefix(what, "setup:") {
		st.Count("stream_initial_ack_setup_failed", 1)
		return
	}
	if what != "" {
		p := writeScenario("C06", "forwarded-after-stream-ack", what, []string{"subscription s (2 attempts, dead-letter topic d), subscription ds on d", "publish, Pull(s), 5 s, Pull(s)",
			"StreamingPull{subscription s, ack_ids [the ack id]} as initial request", "30 s pass", "ds holds nothing, the delivery is completed"})
		st.Violate(Violation{What: "[forwarded-after-stream-ack] " + what, Replay: p, FoundInput: true, Sig: "forwarded-after-stream-ack"})
	}
}

// expiryServiceLoop (C14): the registered delete-expired-subscriptions service, run the way the server
// runs it (Initialize, Start, default settings), removes every subscription whose expiration TTL has
// passed without pull activity — also the second and third one, after rounds that removed one row.
func expiryServiceLoop(t *testing.T, st *Stats) {
	what := ""
	synctest.Test(t, func(t *testing.T) {
		w := NewWorld(t, Seed())
		defer w.Close()
		w.Exec(Op{K: "create_topic", Topic: "t"})
		w.Exec(Op{K: "create_sub", Sub: "keep", Cfg: &SubCfg{Topic: "t", TTL: 30 * 24 * 3600 * Sec, MTTL: 3600 * Sec}})
		svc := services.NewPruneServiceForVerif("delete-expired-subscriptions")
		if svc == nil {
			what = "no maintenance service named delete-expired-subscriptions is registered"
			return
		}
		ctx, cancel := context.WithCancel(context.Background())
		defer cancel()
		if err := svc.Initialize(ctx, w.Client); err != nil {
			what = "setup: Initialize: " + err.Error()
			return
		}
		ready := make(chan struct{})
		done := make(chan error, 1)
		go func() { done <- svc.Start(ctx, ready) }()
		<-ready
		for phase := 1; phase <= 3 && what == ""; phase++ {
			name := fmt.Sprintf("e%d", phase)
			w.Exec(Op{K: "create_sub", Sub: name, Cfg: &SubCfg{Topic: "t", TTL: 1800 * Sec, MTTL: 600 * Sec}})
			// pull activity restarts the clock
			time.Sleep(20 * time.Minute)
			if r := w.Exec(Op{K: "pull", Sub: name, Max: 1}); r.Err != nil {
				what = fmt.Sprintf("phase %d: subscription %s (expiration TTL 30 min) was gone 20 minutes after its creation: %v", phase, name, r.Err)
				break
			}
			time.Sleep(20 * time.Minute)
			synctest.Wait()
			if _, err := w.Api().Sub.GetSubscription(qctx, &pubsubpb.GetSubscriptionRequest{Subscription: SubName(name)}); err != nil {
				what = fmt.Sprintf("phase %d: subscription %s (expiration TTL 30 min) pulled 20 minutes ago is gone: %v", phase, name, err)
				break
			}
			// the TTL passes without activity, then ten minutes of the service's rounds
			time.Sleep(20 * time.Minute)
			synctest.Wait()
			if _, err := w.Api().Sub.GetSubscription(qctx, &pubsubpb.GetSubscriptionRequest{Subscription: SubName(name)}); status.Code(err) != codes.NotFound {
				what = fmt.Sprintf("phase %d: subscription %s (expiration TTL 30 min) has had no pull activity for 40 minutes and is still served (GetSubscription: %v) although the delete-expired-subscriptions service (default settings, a round a minute) has been running all the time; in the phases before, its rounds removed the subscriptions of those phases", phase, name, err)
			}
		}
		if what == "" {
			if _, err := w.Api().Sub.GetSubscription(qctx, &pubsubpb.GetSubscriptionRequest{Subscription: SubName("keep")}); err != nil {
				what = fmt.Sprintf("subscription keep (expiration TTL 30 days) is gone after 3 hours: %v", err)
			}
		}
		cancel()
		synctest.Wait()
	})
	st.Count("expiry_service_loop_cases", 1)
	if strings.HasPrefix(what, "setup:") {
		st.Count("expiry_service_setup_failed", 1)
		return
	}
	if what != "" {
		p := writeScenario("C14", "expiry-service-stuck", what, []string{"registered service delete-expired-subscriptions: Initialize, Start (default settings)",
			"three phases: create a subscription with expiration TTL 30 min, 20 min, Pull, 20 min (still there), 20 min more (gone)"})
		st.Violate(Violation{What: "[expiry-service-stuck] " + what, Replay: p, FoundInput: true, Sig: "expiry-service-stuck"})
	}
}

// seekAfterDefaultMaintenance (C13): with the registered maintenance services running on their default
// settings, messages acknowledged a few minutes ago are still retained: a Seek to a time before their
// publish makes them outstanding again.
func seekAfterDefaultMaintenance(t *testing.T, st *Stats) {
	what := ""
	synctest.Test(t, func(t *testing.T) {
		w := NewWorld(t, Seed())
		defer w.Close()
		w.Exec(Op{K: "create_topic", Topic: "t"})
		w.Exec(Op{K: "create_sub", Sub: "s", Cfg: &SubCfg{Topic: "t", TTL: 30 * 24 * 3600 * Sec, MTTL: 24 * 3600 * Sec}})
		ctx, cancel := context.WithCancel(context.Background())
		defer cancel()
		for _, name := range []string{"prune-completed-deliveries", "prune-completed-messages", "prune-expired-deliveries"} {
			svc := services.NewPruneServiceForVerif(name)
			if svc == nil {
				what = "no maintenance service named " + name + " is registered"
				return
			}
			if err := svc.Initialize(ctx, w.Client); err != nil {
				what = "setup: Initialize: " + err.Error()
				return
			}
			ready := make(chan struct{})
			go func() { _ = svc.Start(ctx, ready) }()
			<-ready
		}
		t0 := w.Now()
		time.Sleep(time.Second)
		w.Exec(Op{K: "publish", Topic: "t", Msgs: []MsgSpec{{N: 0}, {N: 1}, {N: 2}}})
		time.Sleep(time.Millisecond)
		r := w.Exec(Op{K: "pull", Sub: "s", Max: 10})
		if len(r.Delivered) != 3 {
			what = fmt.Sprintf("setup: pull delivered %d", len(r.Delivered))
			return
		}
		w.Exec(Op{K: "ack", Refs: []Ref{{N: 0, Sub: "s"}, {N: 1, Sub: "s"}, {N: 2, Sub: "s"}}})
		time.Sleep(5 * time.Minute)
		synctest.Wait()
		if sr := w.Exec(Op{K: "seek_time", Sub: "s", D: t0}); sr.Err != nil {
			what = fmt.Sprintf("setup: seek: %v", sr.Err)
			return
		}
		time.Sleep(time.Millisecond)
		r = w.Exec(Op{K: "pull", Sub: "s", Max: 10})
		if len(r.Delivered) != 3 {
			what = fmt.Sprintf("the maintenance services run on their default settings; three messages were published, pulled and acknowledged; five minutes later a Seek to a time before their publish makes %d of them outstanding again (expected 3): acknowledged messages were not retained", len(r.Delivered))
		}
		cancel()
		synctest.Wait()
	})
	st.Count("seek_default_maintenance_cases", 1)
	if strings.HasPrefix(what, "setup:") {
		st.Count("seek_default_maintenance_setup_failed", 1)
		return
	}
	if what != "" {
		p := writeScenario("C13", "acknowledged-not-retained", what, []string{"registered services prune-completed-deliveries, prune-completed-messages, prune-expired-deliveries: Initialize, Start (default settings)",
			"publish 3, Pull, Acknowledge", "5 minutes pass", "Seek(s, time before the publish)", "Pull returns the 3 messages"})
		st.Violate(Violation{What: "[acknowledged-not-retained] " + what, Replay: p, FoundInput: true, Sig: "acknowledged-not-retained"})
	}
}

// streamCallFailsAsInjected (C18): a fault injected (through the HTTP controller) on a message of a
// StreamingPull stream fails the matching call — the real handler, behind the real stream interceptor,
// ends with an error — whatever the error kind, and is used up.
func streamCallFailsAsInjected(t *testing.T, st *Stats) {
	for _, kind := range []string{"grpc.Unavailable", "grpc.Canceled", "grpc.DeadlineExceeded", "context.Canceled", "context.DeadlineExceeded", "grpc.NotFound"} {
		what := ""
		synctest.Test(t, func(t *testing.T) {
			w := NewWorld(t, Seed())
			defer w.Close()
			w.Exec(Op{K: "create_topic", Topic: "t"})
			w.Exec(Op{K: "create_sub", Sub: "s", Cfg: &SubCfg{Topic: "t", TTL: 24 * 3600 * Sec, MTTL: 3600 * Sec}})
			w.Exec(Op{K: "publish", Topic: "t", Msgs: []MsgSpec{{N: 0}}})
			time.Sleep(time.Millisecond)
			w.Ctl.mu.Lock()
			w.Ctl.tick = 0
			w.Ctl.mu.Unlock()
			set := faults.NewSet(fmt.Sprintf("w8-%d-%s", Seed(), kind))
			fic := controllers.NewFaultInjectorControllerForVerif(set)
			bj, _ := json.Marshal(map[string]any{"operation": "StreamingPull:SendMsg", "count": 1, "error": kind})
			if code, resp, err := callController(nil, fic, "POST", "/faults/inject", string(bj)); err != nil || code != 201 {
				what = fmt.Sprintf("POST /faults/inject %s answered %d %s (%v)", bj, code, resp, err)
				return
			}
			var handler ggrpc.StreamHandler
			for _, sd := range pubsubpb.Subscriber_ServiceDesc.Streams {
				if sd.StreamName == "StreamingPull" {
					handler = sd.Handler
				}
			}
			if handler == nil {
				what = "setup: no StreamingPull stream handler in the service description"
				return
			}
			inj := mgrpc.StreamFaultInjector(set)
			info := &ggrpc.StreamServerInfo{FullMethod: "/google.pubsub.v1.Subscriber/StreamingPull", IsClientStream: true, IsServerStream: true}
			conn := &scriptConn{closed: make(chan struct{}), out: map[uuid.UUID]int{}, limit: actions.FlowControl{MaxMessages: 1 << 30, MaxBytes: 1 << 40}, ctl: w.Ctl, greqs: make(chan *pubsubpb.StreamingPullRequest)}
			ctx, cancel := context.WithCancel(WithLabel(context.Background(), "stream"))
			defer cancel()
			w.Ctl.SpinGuard("stream", 200)
			fin := make(chan error, 1)
			go func() { fin <- inj(w.Api().Sub, &grpcStream{c: conn, ctx: ctx}, info, handler) }()
			select {
			case conn.greqs <- &pubsubpb.StreamingPullRequest{Subscription: SubName("s"), StreamAckDeadlineSeconds: 10, MaxOutstandingMessages: 10}:
			case err := <-fin:
				what = fmt.Sprintf("setup: the stream ended before its initial request: %v", err)
				return
			}
			synctest.Wait()
			time.Sleep(2 * time.Second)
			synctest.Wait()
			ended, cerr := false, error(nil)
			select {
			case cerr = <-fin:
				ended = true
			default:
			}
			conn.mu.Lock()
			sent := len(conn.sent)
			conn.mu.Unlock()
			left := len(set.Current()["StreamingPull:SendMsg"])
			switch {
			case !ended:
				what = fmt.Sprintf("fault {StreamingPull:SendMsg, count 1, error %s} injected through POST /faults/inject; a StreamingPull call on a subscription with one deliverable message: two seconds later the call has not ended, %d messages were sent, %d faults are still listed", kind, sent, left)
			case cerr == nil:
				what = fmt.Sprintf("fault {StreamingPull:SendMsg, count 1, error %s} injected through POST /faults/inject; the fault fired (%d faults still listed, %d messages sent) but the matching StreamingPull call did not fail: it ended with status OK", kind, left, sent)
			case left != 0:
				what = fmt.Sprintf("fault {StreamingPull:SendMsg, count 1, error %s}: the call failed (%v) but the fault is still listed", kind, cerr)
			case sent != 0:
				what = fmt.Sprintf("fault {StreamingPull:SendMsg, count 1, error %s}: the call failed (%v) but the message whose send was to fail was sent", kind, cerr)
			}
			w.Ctl.SpinGuard("", 0)
			cancel()
			w.Ctl.SpinReset()
			synctest.Wait()
		})
		st.Count("stream_call_fault_cases", 1)
		if strings.HasPrefix(what, "setup:") {
			st.Count("stream_call_fault_setup_failed", 1)
			continue
		}
		if what != "" {
			p := writeScenario("C18", "stream-call-not-failed", what, []string{"POST /faults/inject {operation StreamingPull:SendMsg, count 1, error " + kind + "}",
				"StreamingPull (real handler behind the stream fault interceptor) on a subscription with one deliverable message", "the call ends with an error, GET /faults lists nothing"})
			st.Violate(Violation{What: "[stream-call-not-failed] " + what, Replay: p, FoundInput: true, Sig: "stream-call-not-failed"})
			return
		}
	}
}

// reportedSuccessIsReal (C01, C03): an operation that reports success has taken effect — also when its
// COMMIT fails, or when the request's context ends between its last statement and its COMMIT. The target
// is run with every statement (the COMMIT included) failing / cancelled in turn; whenever it reports
// success the tables must be what the fault-free run leaves.
func reportedSuccessIsReal(prop string, prefix []Op, target Op, effect string) func(t *testing.T, st *Stats) {
	return func(t *testing.T, st *Stats) {
		clean := runFaulted(t, Seed(), prefix, target, "", 0, false)
		if clean.err != nil {
			st.Count("success_is_real_setup_failed", 1)
			return
		}
		for _, mode := range []string{"fail", "cancel", "cancel-before-commit"} {
			for k := 1; k <= clean.stmts; k++ {
				if mode == "cancel-before-commit" && k > 1 {
					break
				}
				fr := runFaulted(t, Seed(), prefix, target, mode, k, false)
				st.Count("success_is_real_runs", 1)
				if fr.txOpen || fr.err != nil {
					continue
				}
				if fr.lost == "" && fr.canon == clean.canon {
					continue
				}
				st.Count("success_is_real_reported_success", 1)
				what := fmt.Sprintf("%s with statement %d of %d %s (%s): the operation reported success, but %s (tables differ from the fault-free run%s)", target.K, k, clean.stmts,
					map[string]string{"fail": "failing", "cancel": "issued under a cancelled context", "cancel-before-commit": "— the request's context ended between the last statement and COMMIT"}[mode], mode, effect,
					map[bool]string{true: "; " + fr.lost, false: ""}[fr.lost != ""])
				p := writeReplay(fmt.Sprintf("%s-success-not-real-%d.json", prop, Seed()), replayFile{Property: prop, Sig: "success-not-real", Seed: Seed(), Ops: append(append([]Op{}, prefix...), target),
					What: what, Note: fmt.Sprintf("target operation %s, %s at statement %d", target.K, mode, k)})
				st.Violate(Violation{What: "[success-not-real] " + what, Replay: p, FoundInput: true, Sig: "success-not-real"})
				return
			}
		}
	}
}

// orderedPush (C05): ordering on the push path. An ordered push subscription; K1 and K2 carry one
// ordering key, an un-keyed message lies between them. The endpoint does not accept the first push of
// K1 (the connection breaks / it answers 500 / its answer is slow): K2 is not pushed before a push of
// K1 has been accepted.
func orderedPush(t *testing.T, st *Stats) {
	for _, how := range []string{"transport-error", "500", "slow-500"} {
		what := ""
		var seq []string
		synctest.Test(t, func(t *testing.T) {
			w := NewWorld(t, Seed())
			defer w.Close()
			w.Exec(Op{K: "create_topic", Topic: "t"})
			w.Exec(Op{K: "create_sub", Sub: "push", Cfg: &SubCfg{Topic: "t", Ordered: true, TTL: 24 * 3600 * Sec, MTTL: 3600 * Sec, MinB: Sec, MaxB: 2 * Sec, Push: "http://push.test/x"}})
			sub, err := w.Client.Subscription.Query().Only(qctx)
			if err != nil {
				what = "setup: " + err.Error()
				return
			}
			rt := &scriptedRT{reqs: make(chan *pushReq)}
			ctx, cancel := context.WithCancel(context.Background())
			defer cancel()
			pusher := actions.NewHttpPusher(sub.Name, sub.ID, "http://push.test/x", &http.Client{Transport: rt}, w.Client)
			done := make(chan error, 1)
			go func() { done <- pusher.Go(ctx) }()
			synctest.Wait()
			w2 := *w
			for i, key := range []string{"k", "", "k"} {
				w2.execInner(Op{K: "publish", Topic: "t", Msgs: []MsgSpec{{N: i, Key: key}}}, &Result{T: w.Now()})
				time.Sleep(time.Millisecond)
			}
			name := map[string]string{}
			for _, m := range w.Client.Message.Query().AllX(qctx) {
				var p struct{ N int }
				_ = json.Unmarshal(m.Payload, &p)
				name[m.ID.String()] = []string{"K1", "nokey", "K2"}[p.N%3]
			}
			k1Accepted, k1Refused := false, false
			for tries := 0; tries < 80 && what == ""; tries++ {
				synctest.Wait()
				var r *pushReq
				select {
				case r = <-rt.reqs:
				default:
				}
				if r == nil {
					time.Sleep(500 * time.Millisecond)
					continue
				}
				n := name[r.body.Message.MessageID]
				switch {
				case n == "K1" && !k1Refused:
					k1Refused = true
					seq = append(seq, "K1:"+how)
					switch how {
					case "transport-error":
						r.respond <- pushResp{code: -1}
					case "500":
						r.respond <- pushResp{code: 500}
					default:
						r.respond <- pushResp{code: 500, delay: 1500 * time.Millisecond}
					}
				case n == "K2" && !k1Accepted:
					seq = append(seq, "K2:pushed")
					r.respond <- pushResp{code: 204}
					what = fmt.Sprintf("ordered push subscription; K1 and K2 have one ordering key; the only push of K1 so far was not accepted (%s); K2 is pushed nevertheless — sequence of pushes: %v", how, seq)
				default:
					if n == "K1" {
						k1Accepted = true
					}
					seq = append(seq, n+":204")
					r.respond <- pushResp{code: 204}
				}
			}
			if what == "" && !(k1Refused && k1Accepted) {
				what = fmt.Sprintf("setup: K1 refused=%v accepted=%v within 40 s, pushes %v", k1Refused, k1Accepted, seq)
			}
			cancel()
			synctest.Wait()
		})
		st.Count("ordered_push_cases", 1)
		if strings.HasPrefix(what, "setup:") {
			st.Count("ordered_push_setup_failed", 1)
			continue
		}
		if what != "" {
			p := writeScenario("C05", "push-overtake", what, []string{"ordered push subscription (backoff 1-2 s)", "publish K1 (key k), an un-keyed message, K2 (key k)",
				"the first push of K1: " + how + "; every other push: 204", "K2 is pushed only after a push of K1 was answered 204"})
			st.Violate(Violation{What: "[push-overtake] " + what, Replay: p, FoundInput: true, Sig: "push-overtake"})
			return
		}
	}
}

// notifierOnSQLite (C10): the registered pg-notifier service, started the way the server starts it on a
// database that is not PostgreSQL, has nothing to relay — and must leave the in-process wake-ups alone:
// a Pull waiting on an empty subscription returns the message published a moment later at once.
func notifierOnSQLite(t *testing.T, st *Stats) {
	what := ""
	synctest.Test(t, func(t *testing.T) {
		w := NewWorld(t, Seed())
		defer w.Close()
		w.Exec(Op{K: "create_topic", Topic: "t"})
		w.Exec(Op{K: "create_sub", Sub: "s", Cfg: &SubCfg{Topic: "t", TTL: 24 * 3600 * Sec, MTTL: 3600 * Sec}})
		svc := services.NewPgNotifierServiceForVerif()
		sctx, scancel := context.WithCancel(context.Background())
		defer scancel()
		if err := svc.Initialize(sctx, w.Client); err != nil {
			what = "setup: Initialize: " + err.Error()
			return
		}
		ready := make(chan struct{})
		sdone := make(chan error, 1)
		go func() { sdone <- svc.Start(sctx, ready) }()
		<-ready
		synctest.Wait()
		type pulled struct {
			n   int
			err error
			at  time.Time
		}
		for round := 1; round <= 2 && what == ""; round++ {
			res := make(chan pulled, 1)
			pctx, pcancel := context.WithCancel(WithLabel(context.Background(), "waiter"))
			go func() {
				r, err := w.Api().Sub.Pull(pctx, &pubsubpb.PullRequest{Subscription: SubName("s"), MaxMessages: 5})
				n := 0
				if r != nil {
					n = len(r.ReceivedMessages)
				}
				res <- pulled{n, err, time.Now()}
			}()
			synctest.Wait()
			time.Sleep(300 * time.Millisecond)
			synctest.Wait()
			select {
			case p := <-res:
				what = fmt.Sprintf("setup: the Pull on the empty subscription returned before anything was published (%d messages, %v)", p.n, p.err)
				pcancel()
				continue
			default:
			}
			t0 := time.Now()
			w2 := *w
			w2.execInner(Op{K: "publish", Topic: "t", Msgs: []MsgSpec{{N: round}}}, &Result{T: w.Now()})
			synctest.Wait()
			time.Sleep(100 * time.Millisecond)
			synctest.Wait()
			select {
			case p := <-res:
				if p.err != nil || p.n != 1 {
					what = fmt.Sprintf("round %d: the waiting Pull returned %d messages, err=%v", round, p.n, p.err)
				} else if p.at.Sub(t0) > 50*time.Millisecond {
					what = fmt.Sprintf("round %d: the waiting Pull returned the message %v after the publish committed", round, p.at.Sub(t0))
				}
			default:
				what = fmt.Sprintf("the pg-notifier service was started (Initialize, Start) on a database that is not PostgreSQL; round %d: a Pull waits on the empty subscription, a message is published and committed; 100 ms later the Pull is still waiting: its wake-up was lost", round)
			}
			pcancel()
			synctest.Wait()
			// acknowledge what was delivered so that the next round starts empty
			for _, d := range w.Client.Delivery.Query().Where(delivery.CompletedAtIsNil()).AllX(qctx) {
				w.Client.Delivery.UpdateOne(d).SetCompletedAt(time.Now()).ExecX(qctx)
			}
		}
		scancel()
		synctest.Wait()
	})
	st.Count("notifier_service_cases", 1)
	if strings.HasPrefix(what, "setup:") {
		st.Count("notifier_service_setup_failed", 1)
		return
	}
	if what != "" {
		p := writeScenario("C10", "wake-lost-notifier-service", what, []string{"pg-notifier service: Initialize, Start on SQLite", "Pull(s) waits on the empty subscription", "Publish(t) commits", "the Pull returns the message at once"})
		st.Violate(Violation{What: "[wake-lost-notifier-service] " + what, Replay: p, FoundInput: true, Sig: "wake-lost-notifier-service"})
	}
}

// waitingStreamUnsetLimits (C10): a StreamingPull whose initial request leaves one of the two limits
// unset (0 = the documented default) waits on an empty subscription; a message published then is sent
// on it promptly.
func waitingStreamUnsetLimits(t *testing.T, st *Stats) {
	for _, lim := range [][2]int{{10, 0}, {0, 10000}, {0, 0}} {
		cs := c11Case{Name: fmt.Sprintf("waiting-stream-limits-%d-%d", lim[0], lim[1]), Grpc: true,
			Actions: []c11Action{{K: "fc", Msgs: lim[0], Byts: lim[1]}, {K: "advance", D: 500 * Ms}, {K: "publish", Pads: []int{0}}, {K: "advance", D: 500 * Ms},
				{K: "ack", Pick: []int{0}}, {K: "advance", D: 500 * Ms}, {K: "publish", Pads: []int{0}}, {K: "advance", D: 500 * Ms}}}
		r := c11Run(t, Seed(), cs, map[string]bool{"stall-head-of-line": true})
		st.Count("waiting_stream_unset_limit_cases", 1)
		if r.sentTotal < 2 {
			p := ReplayPath(fmt.Sprintf("C10-%s-%d.json", cs.Name, Seed()))
			what := fmt.Sprintf("a StreamingPull opened with max_outstanding_messages=%d, max_outstanding_bytes=%d (0 = unset) waits on an empty subscription; a message is published, acknowledged when it arrives, then a second one is published; 500 ms after the second publish %d of the 2 messages have been sent on the stream: the waiting fetch was not woken (%s)", lim[0], lim[1], r.sentTotal, r.violation)
			b, _ := json.MarshalIndent(c11Replay{Property: "C10", Sig: "waiting-stream-not-woken", Seed: Seed(), Case: cs, What: what}, "", " ")
			os.WriteFile(p, b, 0o644)
			st.Violate(Violation{What: "[waiting-stream-not-woken] " + what, Replay: p, FoundInput: true, Sig: "waiting-stream-not-woken"})
			return
		}
	}
}

// streamTimedCases (C11): two cases in which time passes on a stream, outside the event model of the
// other C11 cases. (i) A subscription with a short retry back-off, a stream with room for one message: the
// message it has been sent is not acknowledged and its retry deadline passes; it is still outstanding
// (not acknowledged, not expired), so a second message published then is not sent. (ii) A subscription
// with an injected delivery delay, a stream with room for five: a message published while another is
// outstanding is sent once its delay has passed — the stream does not sit idle with capacity free.
func streamTimedCases(t *testing.T, st *Stats) {
	type tc struct {
		name  string
		cfg   SubCfg
		delay int64
		limit int64
	}
	for _, c := range []tc{
		{name: "lease-lapsed-keeps-slot", cfg: SubCfg{Topic: "t", TTL: 24 * 3600 * Sec, MTTL: 3600 * Sec, MinB: 200 * Ms, MaxB: 300 * Ms}, limit: 1},
		{name: "delayed-publish-wakes", cfg: SubCfg{Topic: "t", TTL: 24 * 3600 * Sec, MTTL: 3600 * Sec}, delay: 300 * Ms, limit: 5},
	} {
		what := ""
		synctest.Test(t, func(t *testing.T) {
			w := NewWorld(t, Seed())
			defer w.Close()
			w.Exec(Op{K: "create_topic", Topic: "t"})
			cfg := c.cfg
			w.Exec(Op{K: "create_sub", Sub: "s", Cfg: &cfg})
			if c.delay > 0 {
				if r := w.Exec(Op{K: "set_delay", Sub: "s", D: c.delay}); r.Err != nil {
					what = "setup: set_delay: " + r.Err.Error()
					return
				}
			}
			time.Sleep(time.Millisecond)
			w.Ctl.mu.Lock()
			w.Ctl.tick = 0
			w.Ctl.mu.Unlock()
			conn := &scriptConn{closed: make(chan struct{}), out: map[uuid.UUID]int{}, limit: actions.FlowControl{MaxMessages: int(c.limit), MaxBytes: 1 << 40}, ctl: w.Ctl, greqs: make(chan *pubsubpb.StreamingPullRequest)}
			ctx, cancel := context.WithCancel(WithLabel(context.Background(), "stream"))
			defer cancel()
			w.Ctl.SpinGuard("stream", 200)
			fin := make(chan error, 1)
			go func() { fin <- w.Api().Sub.StreamingPull(&grpcStream{c: conn, ctx: ctx}) }()
			select {
			case conn.greqs <- &pubsubpb.StreamingPullRequest{Subscription: SubName("s"), StreamAckDeadlineSeconds: 10, MaxOutstandingMessages: c.limit, MaxOutstandingBytes: 1 << 30}:
			case err := <-fin:
				what = fmt.Sprintf("setup: the stream ended before its initial request: %v", err)
				return
			}
			synctest.Wait()
			distinct := func() int {
				conn.mu.Lock()
				defer conn.mu.Unlock()
				seen := map[uuid.UUID]bool{}
				for _, s := range conn.sent {
					seen[s.id] = true
				}
				return len(seen)
			}
			w2 := *w
			first := []MsgSpec{{N: 0}}
			if c.limit == 1 {
				// two messages wait; the stream has room for one of them
				first = []MsgSpec{{N: 0}, {N: 10}}
			}
			w2.execInner(Op{K: "publish", Topic: "t", Msgs: first}, &Result{T: w.Now()})
			synctest.Wait()
			hold := 600 * time.Millisecond
			if c.limit == 1 {
				hold = 2500 * time.Millisecond // the retry deadline (back-off plus up to a second of jitter) has passed for sure
			}
			time.Sleep(hold)
			synctest.Wait()
			if n0 := distinct(); n0 != 1 {
				if c.delay > 0 && n0 == 0 {
					what = fmt.Sprintf("subscription with an injected delivery delay of 300 ms, StreamingPull with max_outstanding_messages=%d waiting on the empty subscription: a message was published %v ago and has been deliverable since its delay passed, but the stream has sent nothing: it sits idle with capacity free", c.limit, hold)
				} else {
					what = fmt.Sprintf("setup: %d messages sent %v after the first publish", n0, hold)
				}
				return
			}
			w2.execInner(Op{K: "publish", Topic: "t", Msgs: []MsgSpec{{N: 1}}}, &Result{T: w.Now()})
			synctest.Wait()
			time.Sleep(2 * time.Second)
			synctest.Wait()
			n := distinct()
			switch {
			case c.limit == 1 && n > 1:
				what = fmt.Sprintf("subscription with a retry back-off of 200-300 ms, StreamingPull with max_outstanding_messages=1: the first message was sent and neither acknowledged nor nacked; 2.5 s later (its retry deadline passed, its retention did not) another message is published (a second one has been waiting all along); within 2 s the stream has sent %d distinct messages, none of them acknowledged: more than the limit outstanding", n)
			case c.limit > 1 && n < 2:
				what = fmt.Sprintf("subscription with an injected delivery delay of 300 ms, StreamingPull with max_outstanding_messages=%d: one message outstanding; a second message was published 2 s ago and has been deliverable for 1.7 s, but the stream has sent %d distinct messages: it sits idle with capacity free", c.limit, n)
			}
			w.Ctl.SpinGuard("", 0)
			cancel()
			w.Ctl.SpinReset()
			synctest.Wait()
		})
		st.Count("stream_timed_cases", 1)
		if strings.HasPrefix(what, "setup:") {
			st.Count("stream_timed_setup_failed", 1)
			continue
		}
		if what != "" {
			sig := map[bool]string{true: "bound-exceeded-after-lease-lapse", false: "stall-delayed-publish"}[c.limit == 1]
			p := writeScenario("C11", sig, what, []string{"subscription " + fmt.Sprintf("%+v", c.cfg) + fmt.Sprintf(" delivery delay %d ns", c.delay),
				fmt.Sprintf("StreamingPull{max_outstanding_messages %d}", c.limit), "publish, 0.6 s (2.5 s in the first case), publish, 2 s; nothing is acknowledged"})
			st.Violate(Violation{What: "[" + sig + "] " + what, Replay: p, FoundInput: true, Sig: sig})
			return
		}
	}
}

// filterEnforced (C17): "what was set is what Get returns and what is enforced" — the filter in force when
// a message is published decides, also right after an UpdateSubscription replaced it and after the name
// was deleted and made again with another filter.
func filterEnforced(t *testing.T, st *Stats) {
	what := ""
	synctest.Test(t, func(t *testing.T) {
		w := NewWorld(t, Seed())
		defer w.Close()
		cfg := func(f string) *SubCfg { return &SubCfg{Topic: "t", TTL: 24 * 3600 * Sec, MTTL: 3600 * Sec, Filter: f} }
		w.Exec(Op{K: "create_topic", Topic: "t"})
		w.Exec(Op{K: "create_sub", Sub: "s", Cfg: cfg("attributes:a")})
		pub := func(n int, k string) {
			w.Exec(Op{K: "publish", Topic: "t", Via: "handler", Msgs: []MsgSpec{{N: n, Attrs: map[string]string{k: "1"}}}})
			time.Sleep(time.Millisecond)
		}
		got := func() []int {
			var out []int
			r := w.Exec(Op{K: "pull", Sub: "s", Max: 20, Via: "handler"})
			for _, d := range r.Delivered {
				if n, ok := nOfPayload(d); ok {
					out = append(out, n)
				}
			}
			sort.Ints(out)
			var refs []Ref
			for _, n := range out {
				refs = append(refs, Ref{N: n, Sub: "s"})
			}
			if len(refs) > 0 {
				w.Exec(Op{K: "ack", Refs: refs})
			}
			return out
		}
		pub(0, "a")
		pub(1, "b")
		if g := got(); fmt.Sprint(g) != "[0]" {
			what = fmt.Sprintf("setup: filter attributes:a, published 0{a} 1{b}: pulled %v", g)
			return
		}
		nf := "attributes:b"
		u := w.Exec(Op{K: "rpc", Rpc: &Rpc{Kind: "updateSub", Has: true, Paths: []string{"filter"}, Sub: &SubReq{Name: SubName("s"), Topic: TopicName("t"), Filter: nf}}})
		if u.Resp != "ok" {
			what = "setup: UpdateSubscription(filter): " + u.Resp
			return
		}
		g1 := w.Exec(Op{K: "rpc", Rpc: &Rpc{Kind: "getSub", Name: SubName("s")}})
		pub(2, "a")
		pub(3, "b")
		if g := got(); fmt.Sprint(g) != "[3]" {
			what = fmt.Sprintf("subscription s created with filter attributes:a; UpdateSubscription(mask filter) set attributes:b and was answered OK (GetSubscription: %s); then 2{a:1} and 3{b:1} are published: a Pull returns messages %v, the filter in force says [3]", g1.Body, g)
			return
		}
		w.Exec(Op{K: "delete_sub", Sub: "s"})
		w.Exec(Op{K: "create_sub", Sub: "s", Cfg: cfg("attributes:c")})
		pub(4, "b")
		pub(5, "c")
		if g := got(); fmt.Sprint(g) != "[5]" {
			what = fmt.Sprintf("subscription s (filter attributes:b) is deleted and created again with filter attributes:c; then 4{b:1} and 5{c:1} are published: a Pull returns messages %v, the filter in force says [5]", g)
		}
	})
	st.Count("filter_enforced_cases", 1)
	if strings.HasPrefix(what, "setup:") {
		st.Count("filter_enforced_setup_failed", 1)
		return
	}
	if what != "" {
		p := writeScenario("C17", "filter-not-enforced", what, []string{"create s (filter attributes:a); publish 0{a}, 1{b}; Pull -> [0]", "UpdateSubscription(s, filter attributes:b); publish 2{a}, 3{b}; Pull -> [3]",
			"delete s; create s (filter attributes:c); publish 4{b}, 5{c}; Pull -> [5]"})
		st.Violate(Violation{What: "[filter-not-enforced] " + what, Replay: p, FoundInput: true, Sig: "filter-not-enforced"})
	}
}

// streamPruneInvisible (C15): a streaming consumer sees the same whether or not the job that deletes
// expired deliveries has run. Room for one message; the message the stream was sent is never acknowledged
// and its retention ends; a second message is published. With and without a round of the job in between,
// the stream's sends are the same.
func streamPruneInvisible(t *testing.T, st *Stats) {
	run := func(withJob bool) (sent int, problem string) {
		synctest.Test(t, func(t *testing.T) {
			w := NewWorld(t, Seed())
			defer w.Close()
			w.Exec(Op{K: "create_topic", Topic: "t"})
			w.Exec(Op{K: "create_sub", Sub: "s", Cfg: &SubCfg{Topic: "t", TTL: 24 * 3600 * Sec, MTTL: 120 * Sec}})
			time.Sleep(time.Millisecond)
			w.Ctl.mu.Lock()
			w.Ctl.tick = 0
			w.Ctl.mu.Unlock()
			conn := &scriptConn{closed: make(chan struct{}), out: map[uuid.UUID]int{}, limit: actions.FlowControl{MaxMessages: 1, MaxBytes: 1 << 40}, ctl: w.Ctl, greqs: make(chan *pubsubpb.StreamingPullRequest)}
			ctx, cancel := context.WithCancel(WithLabel(context.Background(), "stream"))
			defer cancel()
			w.Ctl.SpinGuard("stream", 200)
			fin := make(chan error, 1)
			go func() { fin <- w.Api().Sub.StreamingPull(&grpcStream{c: conn, ctx: ctx}) }()
			select {
			case conn.greqs <- &pubsubpb.StreamingPullRequest{Subscription: SubName("s"), StreamAckDeadlineSeconds: 10, MaxOutstandingMessages: 1, MaxOutstandingBytes: 1 << 30}:
			case err := <-fin:
				problem = fmt.Sprintf("setup: the stream ended before its initial request: %v", err)
				return
			}
			synctest.Wait()
			w2 := *w
			w2.execInner(Op{K: "publish", Topic: "t", Msgs: []MsgSpec{{N: 0}}}, &Result{T: w.Now()})
			synctest.Wait()
			time.Sleep(130 * time.Second) // the retention (120 s) of message 0 ends, unacknowledged
			synctest.Wait()
			if withJob {
				if _, err, ok := services.PruneRunOnceForVerif(context.Background(), "prune-expired-deliveries", actions.PruneCommonParams{MinAge: 0, MaxDelete: 100}, w.Client); err != nil || !ok {
					problem = fmt.Sprintf("setup: prune-expired-deliveries: %v (registered=%v)", err, ok)
					return
				}
			}
			w2.execInner(Op{K: "publish", Topic: "t", Msgs: []MsgSpec{{N: 1}}}, &Result{T: w.Now()})
			synctest.Wait()
			time.Sleep(3 * time.Second)
			synctest.Wait()
			conn.mu.Lock()
			seen := map[uuid.UUID]bool{}
			for _, s := range conn.sent {
				seen[s.id] = true
			}
			sent = len(seen)
			conn.mu.Unlock()
			w.Ctl.SpinGuard("", 0)
			cancel()
			w.Ctl.SpinReset()
			synctest.Wait()
		})
		return
	}
	a, pa := run(false)
	b, pb := run(true)
	st.Count("stream_prune_invisible_cases", 1)
	if pa != "" || pb != "" {
		st.Count("stream_prune_invisible_setup_failed", 1)
		return
	}
	if a != b {
		what := fmt.Sprintf("StreamingPull with max_outstanding_messages=1 on a subscription with 120 s retention: message 0 is sent and never acknowledged; 130 s later (its retention over) message 1 is published; without a round of prune-expired-deliveries in between the stream has sent %d distinct messages 3 s later, with one it has sent %d: running the job changed what the client observes", a, b)
		p := writeScenario("C15", "prune-visible-on-stream", what, []string{"subscription s (retention 120 s); StreamingPull{max_outstanding_messages 1}", "publish 0; 130 s pass (0 expires unacknowledged)",
			"[variant: one round of prune-expired-deliveries, minimum age 0]", "publish 1; 3 s pass", "the number of distinct messages the stream has sent is the same in both variants"})
		st.Violate(Violation{What: "[prune-visible-on-stream] " + what, Replay: p, FoundInput: true, Sig: "prune-visible-on-stream"})
	}
}

// streamAckNotLost (C03): an acknowledgement sent on a stream has no answer of its own; when the storage
// fails while it is applied, the stream has to end with an error — a stream that stays open tells the
// client its acknowledgement is done, and the message must then never come again.
func streamAckNotLost(t *testing.T, st *Stats) {
	prefix, _ := faultScenario()
	b0, full, n, err0 := streamRequestFaulted(t, Seed(), prefix, "", 0)
	if err0 != nil || full == b0 {
		st.Count("stream_ack_setup_failed", 1)
		return
	}
	for k := 1; k <= n; k++ {
		before, after, _, err := streamRequestFaulted(t, Seed(), prefix, "fail", k)
		st.Count("stream_ack_fault_runs", 1)
		if after == before && err == nil {
			what := fmt.Sprintf("a StreamingPull request carried ack_ids=[c/0] (and zero deadlines for two more deliveries); statement %d of %d of its handling failed in the storage, nothing was applied — and the stream stayed open without an error: the client takes its acknowledgement for done, the message will be delivered again", k, n)
			p := writeReplay(fmt.Sprintf("C03-stream-ack-lost-%d.json", Seed()), replayFile{Property: "C03", Sig: "stream-ack-lost", Seed: Seed(), Ops: prefix, What: what,
				Note: fmt.Sprintf("after the operations: a MessageStreamer on subscription c receives one request {ack: [c/0], nack: [b/0, a/0]}; statement %d of its handling fails", k)})
			st.Violate(Violation{What: "[stream-ack-lost] " + what, Replay: p, FoundInput: true, Sig: "stream-ack-lost"})
			return
		}
	}
}

// pushWindowArithmetic: the adaptive window of an HTTP push connection, batch by batch, against the
// model's `windowStep` — with no HTTP traffic and no goroutines, so that the size of every batch is
// what the sequence says (in the end-to-end runs of TestC19 it is whatever the scheduler lets the
// connection drain at once).  The real `Receive` is driven through the hook PushWindowForVerif.
// A window outside 1..1000 is a violation with the sequence as its input; any other difference from
// the model is a broken correspondence.
func pushWindowArithmetic(t *testing.T, st *Stats, m *Model) {
	rng := rand.New(rand.NewSource(int64(Seed())*7919 + 19))
	nseq := 40
	if Tier() == "thorough" {
		nseq = 400
	}
	kinds := []string{"fast", "slow", "nack"}
	sizes := []int{1, 1, 2, 3, 5, 9, 10, 11, 12, 37, 99, 100, 101, 250, 999, 1000, 1001, 1500}
	steps := 0
	for s := 0; s < nseq && len(st.Violations) == 0; s++ {
		var seq []string
		// directed prefixes first: overshoot from small windows, climb to the cap, collapse
		switch s {
		case 0:
			seq = []string{"f1", "s2", "f2", "s3", "f1", "f1", "n1", "f12", "s13", "f12", "s12", "f12", "s11", "s1", "s1"}
		case 1:
			seq = []string{"f999", "f1", "f1", "s1", "f2", "n100", "f1500", "n99", "n1", "s1", "f998", "f2", "s999", "s1"}
		case 2:
			seq = []string{"f1", "n1", "f10", "n1", "f11", "n1", "f9", "n1", "f20", "n2", "f21", "n2", "s1"}
		default:
			n := 5 + rng.Intn(40)
			for i := 0; i < n; i++ {
				k := "f"
				switch r := rng.Intn(10); {
				case r < 4:
					k = "f"
				case r < 7:
					k = "s"
				default:
					k = "n"
				}
				seq = append(seq, fmt.Sprintf("%s%d", k, sizes[rng.Intn(len(sizes))]))
			}
		}
		pw := actions.NewPushWindowForVerif()
		got := []string{"1"}
		bad := -1
		for i, b := range seq {
			kind := map[byte]string{'f': kinds[0], 's': kinds[1], 'n': kinds[2]}[b[0]]
			var n int
			fmt.Sscan(b[1:], &n)
			wdw, _, err := pw.Step(context.Background(), kind, n)
			if err != nil {
				t.Fatal(err)
			}
			got = append(got, fmt.Sprint(wdw))
			steps++
			if (wdw < 1 || wdw > 1000) && bad < 0 {
				bad = i
			}
		}
		out, err := m.Replay([]string{"window batches=" + strings.Join(seq, ",")})
		if err != nil {
			t.Fatal(err)
		}
		want := strings.TrimPrefix(out[0], "R ")
		if bad >= 0 {
			p := ReplayPath(fmt.Sprintf("C19-window-arithmetic-%d.txt", Seed()))
			writeFile(p, "a fresh HTTP push connection (window 1); batches of outcomes picked up by Receive, in order (f = fast successes, s = slow successes, n = refusals):\n"+strings.Join(seq[:bad+1], ",")+"\nwindow after each: "+strings.Join(got[:bad+2], ",")+"\nmodel: "+want)
			st.Violate(Violation{What: fmt.Sprintf("after the batches %s the window of the push connection is %s, outside 1..1000", strings.Join(seq[:bad+1], ","), got[bad+1]), Replay: p, FoundInput: true, Sig: "window"})
			break
		}
		if want != strings.Join(got, ",") {
			p := ReplayPath(fmt.Sprintf("C19-window-arithmetic-%d.txt", Seed()))
			writeFile(p, "batches "+strings.Join(seq, ",")+"\nmodel "+want+"\nimpl  "+strings.Join(got, ","))
			st.Violate(Violation{What: "adaptive window arithmetic differs from the model: batches " + strings.Join(seq, ",") + " model " + want + " impl " + strings.Join(got, ","), Replay: p, FoundInput: false, Sig: "correspondence"})
			break
		}
	}
	st.Count("window_arithmetic_steps", steps)
}

// pushOutcomeRouting: outcomes of all three kinds are queued on one HTTP push connection at once; each
// Receive then has to report the queued outcomes of exactly one kind, successes as acknowledgements and
// refusals as negative acknowledgements, until everything is drained — whichever queue the runtime's
// `select` picks first.  (End to end this is the mixed-batch scenario of TestC19 / TestC06, where how
// much is drained at once is up to the scheduler.)  Returns "" or what went wrong.
func pushOutcomeRouting(st *Stats, seed int64) string {
	rng := rand.New(rand.NewSource(seed*104729 + 6))
	rounds := 30
	if Tier() == "thorough" {
		rounds = 300
	}
	for r := 0; r < rounds; r++ {
		nf, ns, nn := rng.Intn(6), rng.Intn(6), rng.Intn(6)
		if r == 0 {
			nf, ns, nn = 0, 4, 10
		}
		if r == 1 {
			nf, ns, nn = 3, 3, 3
		}
		if nf+ns+nn == 0 {
			continue
		}
		pw := actions.NewPushWindowForVerif()
		f, s, n := pw.Load(nf, ns, nn)
		kindOf := map[uuid.UUID]string{}
		for _, id := range f {
			kindOf[id] = "fast success"
		}
		for _, id := range s {
			kindOf[id] = "slow success"
		}
		for _, id := range n {
			kindOf[id] = "refusal"
		}
		left := map[string]int{"fast success": nf, "slow success": ns, "refusal": nn}
		desc := fmt.Sprintf("%d fast successes, %d slow successes and %d refusals queued on one push connection", nf, ns, nn)
		for calls := 0; left["fast success"]+left["slow success"]+left["refusal"] > 0; calls++ {
			if calls > 3 {
				return desc + ": after three calls of Receive there are still outcomes queued"
			}
			ctx, cancel := context.WithTimeout(context.Background(), time.Second)
			acks, nacks, _, err := pw.Drain(ctx)
			cancel()
			if err != nil {
				return desc + ": Receive: " + err.Error()
			}
			kinds := map[string]int{}
			for _, id := range acks {
				k := kindOf[id]
				if k == "refusal" || k == "" {
					return fmt.Sprintf("%s: Receive reports a %s as an acknowledgement", desc, map[string]string{"refusal": "refused push", "": "push that was never made"}[k])
				}
				kinds[k]++
			}
			for _, id := range nacks {
				k := kindOf[id]
				if k != "refusal" {
					return fmt.Sprintf("%s: Receive reports a %s as a negative acknowledgement (the message will be pushed again)", desc, map[string]string{"fast success": "push answered with success", "slow success": "push answered (slowly) with success", "": "push that was never made"}[k])
				}
				kinds[k]++
			}
			if len(kinds) != 1 {
				return fmt.Sprintf("%s: one Receive reports outcomes of %d kinds (%v)", desc, len(kinds), kinds)
			}
			for k, c := range kinds {
				if c != left[k] {
					return fmt.Sprintf("%s: Receive reports %d of the %d queued outcomes of kind %q", desc, c, left[k], k)
				}
				left[k] = 0
			}
		}
		st.Count("outcome_routing_rounds", 1)
	}
	return ""
}

// pushOutcomeRoutingFor: pushOutcomeRouting as a scenario of another property (C04: a refused push is
// pushed again after the back-off; C06: refused pushes count as attempts) — a refusal that the
// connection reports as an acknowledgement completes the delivery instead.
func pushOutcomeRoutingFor(prop string) func(t *testing.T, st *Stats) {
	return func(t *testing.T, st *Stats) {
		if what := pushOutcomeRouting(st, Seed()); what != "" {
			p := writeScenario(prop, "push-outcome-routing", what, []string{"a fresh HTTP push connection of the push streamer", what})
			st.Violate(Violation{What: "[push-outcome-routing] " + what, Replay: p, FoundInput: true, Sig: "push-outcome-routing"})
		}
	}
}
