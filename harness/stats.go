package harness

import (
	"encoding/json"
	"fmt"
	"os"
	"path/filepath"
	"sort"
	"sync"
)

// Violation is reported to bin/check through the statistics file.
type Violation struct {
	What       string `json:"what"`
	Replay     string `json:"replay"`
	FoundInput bool   `json:"found_input"`
	Sig        string `json:"sig"`
}

// Stats collects what a runner covered; bin/check copies `coverage` into the evidence file.
type Stats struct {
	mu         sync.Mutex
	Summary    string                 `json:"summary"`
	Coverage   map[string]interface{} `json:"coverage"`
	Violations []Violation            `json:"violations"`
	counters   map[string]int
	distinct   map[string]struct{}
	samples    []interface{}
}

func NewStats() *Stats {
	return &Stats{Coverage: map[string]interface{}{}, counters: map[string]int{}, distinct: map[string]struct{}{}}
}

func (s *Stats) Count(k string, n int) { s.mu.Lock(); s.counters[k] += n; s.mu.Unlock() }
func (s *Stats) Get(k string) int      { s.mu.Lock(); defer s.mu.Unlock(); return s.counters[k] }

// Distinct records one non-trivial case by its canonical key.
func (s *Stats) Distinct(key string) { s.mu.Lock(); s.distinct[key] = struct{}{}; s.mu.Unlock() }

func (s *Stats) Sample(x interface{}) {
	s.mu.Lock()
	if len(s.samples) < 5 {
		s.samples = append(s.samples, x)
	}
	s.mu.Unlock()
}

func (s *Stats) Violate(v Violation) {
	s.mu.Lock()
	s.Violations = append(s.Violations, v)
	s.mu.Unlock()
}

func (s *Stats) Set(k string, v interface{}) { s.mu.Lock(); s.Coverage[k] = v; s.mu.Unlock() }

// Write stores the statistics where bin/check expects them (VERIF_STATS).
func (s *Stats) Write() {
	s.mu.Lock()
	defer s.mu.Unlock()
	keys := make([]string, 0, len(s.counters))
	for k := range s.counters {
		keys = append(keys, k)
	}
	sort.Strings(keys)
	hist := map[string]int{}
	for _, k := range keys {
		hist[k] = s.counters[k]
	}
	s.Coverage["counters"] = hist
	if _, ok := s.Coverage["distinct_nontrivial"]; !ok {
		s.Coverage["distinct_nontrivial"] = len(s.distinct)
	}
	if len(s.samples) > 0 {
		s.Coverage["samples"] = s.samples
	}
	if s.Violations == nil {
		s.Violations = []Violation{}
	}
	path := os.Getenv("VERIF_STATS")
	if path == "" {
		b, _ := json.MarshalIndent(s, "", " ")
		if len(b) > 3000 {
			b = b[:3000]
		}
		fmt.Println(string(b))
		return
	}
	b, _ := json.MarshalIndent(s, "", " ")
	os.WriteFile(path, b, 0o644)
}

// ReplayPath returns a file name under the replay directory.
func ReplayPath(name string) string {
	dir := os.Getenv("VERIF_REPLAYS")
	if dir == "" {
		dir = "/verif/replays"
	}
	os.MkdirAll(dir, 0o755)
	return filepath.Join(dir, name)
}

func Tier() string {
	if t := os.Getenv("VERIF_TIER"); t == "thorough" {
		return t
	}
	return "quick"
}

func Seed() int64 { return int64(envInt("VERIF_SEED", 1)) }

func osWriteFile(path string, b []byte) error { return os.WriteFile(path, b, 0o644) }
