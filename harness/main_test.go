package harness

import (
	"os"
	"testing"

	"github.com/rs/zerolog"
)

func TestMain(m *testing.M) {
	zerolog.SetGlobalLevel(zerolog.Disabled)
	os.Exit(m.Run())
}
