package harness

import (
	"context"
	"encoding/json"
	"fmt"
	"math/rand"
	"os"
	"sort"
	"strings"
	"sync"
	"testing"
	"testing/synctest"
	"time"

	"github.com/google/uuid"

	"go.6river.tech/mmmbbb/actions"
)

// ---- C10: no lost wake-up.  Schedules of real waiters (Pull / StreamingPull fetch loop) and real
// writers, controlled at transaction boundaries by the driver wrapper's gates under synctest, are
// executed step by step; after every step the position of every process and the registry of
// publish waiters is compared with the protocol model (Mmmbbb.Notify), and at the end the oracle
// is checked directly: nobody still sleeps on a subscription that has a deliverable message, and no
// virtual time passed (no timeout, no retry timer was involved).

type c10Waiter struct {
	Sub    string `json:"sub"`
	Max    int    `json:"max"`
	Stream bool   `json:"stream,omitempty"`
}

type c10Writer struct {
	Op   Op             `json:"op"`
	Adds map[string]int `json:"adds"` // messages made deliverable per subscription (expected)
}

type c10Scenario struct {
	Name    string      `json:"name"`
	Setup   []Op        `json:"setup"`
	Subs    []string    `json:"subs"` // the subscriptions of interest, index = model subscription number
	Waiters []c10Waiter `json:"waiters"`
	Writers []c10Writer `json:"writers"`
}

type c10Replay struct {
	Property string      `json:"property"`
	Sig      string      `json:"sig"`
	What     string      `json:"what"`
	Seed     int64       `json:"seed"`
	Scenario c10Scenario `json:"scenario"`
	Schedule []string    `json:"schedule"`
	Trace    []string    `json:"trace,omitempty"`
}

func c10Scenarios() []c10Scenario {
	cfg := func(c SubCfg) *SubCfg { c.TTL, c.MTTL = 24*3600*Sec, 3600*Sec; return &c }
	base := []Op{{K: "create_topic", Topic: "t"}, {K: "create_topic", Topic: "d"},
		{K: "create_sub", Sub: "a", Cfg: cfg(SubCfg{Topic: "t"})},
		{K: "create_sub", Sub: "b", Cfg: cfg(SubCfg{Topic: "t"})}}
	with := func(ops ...Op) []Op { return append(append([]Op{}, base...), ops...) }
	m := func(n int, key string) MsgSpec { return MsgSpec{N: n, Key: key} }
	return []c10Scenario{
		{Name: "publish-two-subs", Setup: with(), Subs: []string{"a", "b"},
			Waiters: []c10Waiter{{Sub: "a", Max: 10}, {Sub: "b", Max: 10}},
			Writers: []c10Writer{{Op: Op{K: "publish", Topic: "t", Msgs: []MsgSpec{m(0, "")}}, Adds: map[string]int{"a": 1, "b": 1}}}},
		{Name: "publish-one-waiter", Setup: with(), Subs: []string{"a", "b"},
			Waiters: []c10Waiter{{Sub: "b", Max: 10}},
			Writers: []c10Writer{{Op: Op{K: "publish", Topic: "t", Msgs: []MsgSpec{m(0, "")}}, Adds: map[string]int{"a": 1, "b": 1}}}},
		{Name: "nack-spanning-subs", Subs: []string{"a", "b"},
			Setup:   with(Op{K: "publish", Topic: "t", Msgs: []MsgSpec{m(0, "")}}, Op{K: "pull", Sub: "a", Max: 5}, Op{K: "pull", Sub: "b", Max: 5}),
			Waiters: []c10Waiter{{Sub: "a", Max: 10}, {Sub: "b", Max: 10}},
			Writers: []c10Writer{{Op: Op{K: "delay", Refs: []Ref{{N: 0, Sub: "a"}, {N: 0, Sub: "b"}}, D: 0}, Adds: map[string]int{"a": 1, "b": 1}}}},
		{Name: "nack-spanning-subs-one-waiter", Subs: []string{"a", "b"},
			Setup:   with(Op{K: "publish", Topic: "t", Msgs: []MsgSpec{m(0, "")}}, Op{K: "pull", Sub: "a", Max: 5}, Op{K: "pull", Sub: "b", Max: 5}),
			Waiters: []c10Waiter{{Sub: "b", Max: 10}},
			Writers: []c10Writer{{Op: Op{K: "delay", Via: "handler", Refs: []Ref{{N: 0, Sub: "a"}, {N: 0, Sub: "b"}}, D: 0}, Adds: map[string]int{"a": 1, "b": 1}}}},
		{Name: "nack-spanning-subs-other-waiter", Subs: []string{"a", "b"},
			Setup:   with(Op{K: "publish", Topic: "t", Msgs: []MsgSpec{m(0, "")}}, Op{K: "pull", Sub: "a", Max: 5}, Op{K: "pull", Sub: "b", Max: 5}),
			Waiters: []c10Waiter{{Sub: "a", Max: 10}},
			Writers: []c10Writer{{Op: Op{K: "delay", Refs: []Ref{{N: 0, Sub: "a"}, {N: 0, Sub: "b"}}, D: 0}, Adds: map[string]int{"a": 1, "b": 1}}}},
		{Name: "stream-nack-other-sub", Subs: []string{"a", "b"},
			Setup:   with(Op{K: "publish", Topic: "t", Msgs: []MsgSpec{m(0, "")}}, Op{K: "pull", Sub: "a", Max: 5}, Op{K: "pull", Sub: "b", Max: 5}),
			Waiters: []c10Waiter{{Sub: "b", Max: 1, Stream: true}},
			Writers: []c10Writer{{Op: Op{K: "delay", Refs: []Ref{{N: 0, Sub: "b"}, {N: 0, Sub: "a"}}, D: 0}, Adds: map[string]int{"a": 1, "b": 1}}}},
		{Name: "ack-ordered-predecessor", Subs: []string{"o"},
			Setup: with(Op{K: "create_sub", Sub: "o", Cfg: cfg(SubCfg{Topic: "t", Ordered: true})},
				Op{K: "publish", Topic: "t", Msgs: []MsgSpec{m(0, "k"), m(1, "k")}}, Op{K: "pull", Sub: "o", Max: 1}),
			Waiters: []c10Waiter{{Sub: "o", Max: 10}},
			Writers: []c10Writer{{Op: Op{K: "ack", Refs: []Ref{{N: 0, Sub: "o"}}}, Adds: map[string]int{"o": 1}}}},
		{Name: "deadletter-ordered-predecessor-and-forward", Subs: []string{"src", "dl"},
			Setup: with(Op{K: "create_sub", Sub: "src", Cfg: cfg(SubCfg{Topic: "t", Ordered: true, MaxAtt: 1, DLT: "d"})},
				Op{K: "create_sub", Sub: "dl", Cfg: cfg(SubCfg{Topic: "d"})},
				Op{K: "publish", Topic: "t", Msgs: []MsgSpec{m(0, "k"), m(1, "k")}}, Op{K: "pull", Sub: "src", Max: 1}),
			Waiters: []c10Waiter{{Sub: "src", Max: 10}, {Sub: "dl", Max: 10}},
			Writers: []c10Writer{{Op: Op{K: "nack", Refs: []Ref{{N: 0, Sub: "src"}}}, Adds: map[string]int{"src": 1, "dl": 1}}}},
		// the same, with a dead-letter topic nobody subscribes to: nothing is forwarded, the predecessor is retired all the same
		{Name: "deadletter-ordered-predecessor-no-dl-subscriber", Subs: []string{"src"},
			Setup: with(Op{K: "create_sub", Sub: "src", Cfg: cfg(SubCfg{Topic: "t", Ordered: true, MaxAtt: 1, DLT: "d"})},
				Op{K: "publish", Topic: "t", Msgs: []MsgSpec{m(0, "k"), m(1, "k")}}, Op{K: "advance", D: Ms}, Op{K: "pull", Sub: "src", Max: 1}, Op{K: "advance", D: Ms}),
			Waiters: []c10Waiter{{Sub: "src", Max: 10}},
			Writers: []c10Writer{{Op: Op{K: "nack", Refs: []Ref{{N: 0, Sub: "src"}}}, Adds: map[string]int{"src": 1}}}},
		{Name: "sweep-forward-into-topic", Subs: []string{"dl", "dl2"},
			Setup: with(Op{K: "create_sub", Sub: "src", Cfg: cfg(SubCfg{Topic: "t", MaxAtt: 1, DLT: "d"})},
				Op{K: "create_sub", Sub: "dl", Cfg: cfg(SubCfg{Topic: "d"})}, Op{K: "create_sub", Sub: "dl2", Cfg: cfg(SubCfg{Topic: "d"})},
				Op{K: "publish", Topic: "t", Msgs: []MsgSpec{m(0, "")}}, Op{K: "pull", Sub: "src", Max: 1}, Op{K: "advance", D: 700 * Sec}),
			Waiters: []c10Waiter{{Sub: "dl", Max: 10}, {Sub: "dl2", Max: 10}},
			Writers: []c10Writer{{Op: Op{K: "dl_sweep", Max: 10}, Adds: map[string]int{"dl": 1, "dl2": 1}}}},
		{Name: "seek-to-time", Subs: []string{"a"},
			Setup: with(Op{K: "advance", D: 5 * Sec}, Op{K: "publish", Topic: "t", Msgs: []MsgSpec{m(0, "")}}, Op{K: "pull", Sub: "a", Max: 5},
				Op{K: "ack", Refs: []Ref{{N: 0, Sub: "a"}}}, Op{K: "advance", D: 5 * Sec}),
			Waiters: []c10Waiter{{Sub: "a", Max: 10}},
			Writers: []c10Writer{{Op: Op{K: "seek_time", Sub: "a", D: 1 * Sec}, Adds: map[string]int{"a": 1}}}},
		{Name: "seek-to-snapshot", Subs: []string{"a"},
			Setup: with(Op{K: "publish", Topic: "t", Msgs: []MsgSpec{m(0, "")}}, Op{K: "snapshot", Sub: "a", Snap: "n0"}, Op{K: "pull", Sub: "a", Max: 5},
				Op{K: "ack", Refs: []Ref{{N: 0, Sub: "a"}}}, Op{K: "advance", D: 5 * Sec}),
			Waiters: []c10Waiter{{Sub: "a", Max: 10}},
			Writers: []c10Writer{{Op: Op{K: "seek_snap", Sub: "a", Snap: "n0"}, Adds: map[string]int{"a": 1}}}},
		{Name: "seek-snapshot-acks-ordered-predecessor", Subs: []string{"o"},
			Setup: with(Op{K: "create_sub", Sub: "o", Cfg: cfg(SubCfg{Topic: "t", Ordered: true})},
				Op{K: "publish", Topic: "t", Msgs: []MsgSpec{m(0, "k"), m(1, "k")}}, Op{K: "advance", D: Ms}, Op{K: "pull", Sub: "a", Max: 10},
				Op{K: "ack", Refs: []Ref{{N: 0, Sub: "a"}}}, Op{K: "snapshot", Sub: "a", Snap: "n0"}, Op{K: "pull", Sub: "o", Max: 1}, Op{K: "advance", D: Ms}),
			Waiters: []c10Waiter{{Sub: "o", Max: 10}},
			Writers: []c10Writer{{Op: Op{K: "seek_snap", Sub: "o", Snap: "n0"}, Adds: map[string]int{"o": 1}}}},
		// the predecessor is acknowledged only through the snapshot's list of acknowledged messages
		// (an older message is still unacknowledged in the snapshot, so the time threshold acknowledges nothing)
		{Name: "seek-snapshot-acks-ordered-predecessor-by-id", Subs: []string{"o"},
			Setup: with(Op{K: "create_sub", Sub: "o", Cfg: cfg(SubCfg{Topic: "t", Ordered: true})},
				Op{K: "publish", Topic: "t", Msgs: []MsgSpec{m(2, "")}}, Op{K: "advance", D: Ms},
				Op{K: "publish", Topic: "t", Msgs: []MsgSpec{m(0, "k"), m(1, "k")}}, Op{K: "advance", D: Ms}, Op{K: "pull", Sub: "a", Max: 10},
				Op{K: "ack", Refs: []Ref{{N: 0, Sub: "a"}}}, Op{K: "snapshot", Sub: "a", Snap: "n0"}, Op{K: "pull", Sub: "o", Max: 5}, Op{K: "advance", D: Ms}),
			Waiters: []c10Waiter{{Sub: "o", Max: 10}},
			Writers: []c10Writer{{Op: Op{K: "seek_snap", Sub: "o", Snap: "n0"}, Adds: map[string]int{"o": 1}}}},
		{Name: "seek-time-acks-ordered-predecessor", Subs: []string{"o"},
			Setup: with(Op{K: "create_sub", Sub: "o", Cfg: cfg(SubCfg{Topic: "t", Ordered: true})}, Op{K: "advance", D: 5 * Sec},
				Op{K: "publish", Topic: "t", Msgs: []MsgSpec{m(0, "k")}}, Op{K: "advance", D: 5 * Sec}, Op{K: "publish", Topic: "t", Msgs: []MsgSpec{m(1, "k")}},
				Op{K: "pull", Sub: "o", Max: 1}, Op{K: "advance", D: Ms}),
			Waiters: []c10Waiter{{Sub: "o", Max: 10}},
			Writers: []c10Writer{{Op: Op{K: "seek_time", Sub: "o", D: 7 * Sec}, Adds: map[string]int{"o": 1}}}},
		{Name: "spurious-wake-then-publish", Subs: []string{"a"},
			Setup:   with(Op{K: "publish", Topic: "t", Msgs: []MsgSpec{m(0, "")}}, Op{K: "pull", Sub: "a", Max: 5}),
			Waiters: []c10Waiter{{Sub: "a", Max: 10}},
			Writers: []c10Writer{{Op: Op{K: "ack", Refs: []Ref{{N: 0, Sub: "a"}}}, Adds: map[string]int{}},
				{Op: Op{K: "publish", Topic: "t", Msgs: []MsgSpec{m(1, "")}}, Adds: map[string]int{"a": 1, "b": 1}}}},
		{Name: "two-publishes-two-waiters-same-sub", Setup: with(), Subs: []string{"a"},
			Waiters: []c10Waiter{{Sub: "a", Max: 10}, {Sub: "a", Max: 10}},
			Writers: []c10Writer{{Op: Op{K: "publish", Topic: "t", Msgs: []MsgSpec{m(0, "")}}, Adds: map[string]int{"a": 1, "b": 1}},
				{Op: Op{K: "publish", Topic: "t", Msgs: []MsgSpec{m(1, "")}}, Adds: map[string]int{"a": 1, "b": 1}}}},
		{Name: "stream-publish", Setup: with(), Subs: []string{"a", "b"},
			Waiters: []c10Waiter{{Sub: "a", Max: 1, Stream: true}, {Sub: "b", Max: 10}},
			Writers: []c10Writer{{Op: Op{K: "publish", Topic: "t", Msgs: []MsgSpec{m(0, "")}}, Adds: map[string]int{"a": 1, "b": 1}}}},
		{Name: "stream-nack", Subs: []string{"a", "b"},
			Setup:   with(Op{K: "publish", Topic: "t", Msgs: []MsgSpec{m(0, "")}}, Op{K: "pull", Sub: "a", Max: 5}, Op{K: "pull", Sub: "b", Max: 5}),
			Waiters: []c10Waiter{{Sub: "a", Max: 1, Stream: true}},
			Writers: []c10Writer{{Op: Op{K: "delay", Refs: []Ref{{N: 0, Sub: "b"}, {N: 0, Sub: "a"}}, D: 0}, Adds: map[string]int{"a": 1, "b": 1}}}},
		// the first message of an ordering key on an ordered subscription (no predecessor to link behind)
		{Name: "publish-first-of-key-ordered", Subs: []string{"o", "a"},
			Setup:   with(Op{K: "create_sub", Sub: "o", Cfg: cfg(SubCfg{Topic: "t", Ordered: true})}),
			Waiters: []c10Waiter{{Sub: "o", Max: 10}},
			Writers: []c10Writer{{Op: Op{K: "publish", Topic: "t", Msgs: []MsgSpec{m(0, "k")}}, Adds: map[string]int{"o": 1, "a": 1, "b": 1}}}},
		// one Acknowledge whose ids span two ordered subscriptions: both successors become deliverable
		{Name: "ack-spanning-ordered-subs", Subs: []string{"o", "o2"},
			Setup: with(Op{K: "create_sub", Sub: "o", Cfg: cfg(SubCfg{Topic: "t", Ordered: true})}, Op{K: "create_sub", Sub: "o2", Cfg: cfg(SubCfg{Topic: "t", Ordered: true})},
				Op{K: "publish", Topic: "t", Msgs: []MsgSpec{m(0, "k"), m(1, "k")}}, Op{K: "pull", Sub: "o", Max: 1}, Op{K: "pull", Sub: "o2", Max: 1}),
			Waiters: []c10Waiter{{Sub: "o", Max: 10}, {Sub: "o2", Max: 10}},
			Writers: []c10Writer{{Op: Op{K: "ack", Refs: []Ref{{N: 0, Sub: "o"}, {N: 0, Sub: "o2"}}}, Adds: map[string]int{"o": 1, "o2": 1}}}},
		{Name: "stream-ack-ordered-predecessor", Subs: []string{"o"},
			Setup: with(Op{K: "create_sub", Sub: "o", Cfg: cfg(SubCfg{Topic: "t", Ordered: true})},
				Op{K: "publish", Topic: "t", Msgs: []MsgSpec{m(0, "k"), m(1, "k")}}, Op{K: "pull", Sub: "o", Max: 1}),
			Waiters: []c10Waiter{{Sub: "o", Max: 1, Stream: true}},
			Writers: []c10Writer{{Op: Op{K: "ack", Refs: []Ref{{N: 0, Sub: "o"}}}, Adds: map[string]int{"o": 1}}}},
	}
}

// scripted stream connection: never sends a request, records what the streamer sends
type idleConn struct {
	mu     sync.Mutex
	sent   int
	closed chan struct{}
	once   sync.Once
}

func (c *idleConn) Close() error { c.once.Do(func() { close(c.closed) }); return nil }
func (c *idleConn) Receive(ctx context.Context) (*actions.MessageStreamRequest, error) {
	select {
	case <-ctx.Done():
		return nil, ctx.Err()
	case <-c.closed:
		return nil, context.Canceled
	}
}
func (c *idleConn) Send(ctx context.Context, d *actions.SubscriptionMessageDelivery) error {
	c.mu.Lock()
	c.sent++
	c.mu.Unlock()
	return nil
}
func (c *idleConn) Sent() int { c.mu.Lock(); defer c.mu.Unlock(); return c.sent }

type c10Proc struct {
	label   string
	waiter  *c10Waiter
	writer  *c10Writer
	started bool
	fin     chan struct{}
	commits int
	got     int
	err     error
	cancel  context.CancelFunc
	conn    *idleConn
	subID   uuid.UUID
}

func (p *c10Proc) finished() bool {
	select {
	case <-p.fin:
		return true
	default:
		return false
	}
}

type c10Result struct {
	trace     []string // model-comparable observation after every model step
	sched     []string // the model schedule actually executed (with the automatic re-loops made explicit)
	violation string
	sig       string
	line      string
	answer    string
}

// runSchedule executes one schedule in a fresh world.
func c10Run(t *testing.T, seed int64, sc c10Scenario, schedule []string) *c10Result {
	res := &c10Result{}
	synctest.Test(t, func(t *testing.T) {
		w := NewWorld(t, seed)
		defer w.Close()
		for _, op := range sc.Setup {
			if r := w.Exec(op); strings.HasPrefix(r.Resp, "E:") {
				t.Fatalf("scenario %s: setup op %s failed: %s", sc.Name, op.K, r.Resp)
			}
		}
		subIdx := map[string]int{}
		subIDs := make([]uuid.UUID, len(sc.Subs))
		w.Dump()
		for i, s := range sc.Subs {
			subIdx[s] = i
			for _, row := range w.lastSubs {
				if row.Name == SubName(s) && row.DeletedAt == nil {
					subIDs[i] = row.ID
				}
			}
		}
		anyStream := false
		var procs []*c10Proc
		byName := map[string]*c10Proc{}
		for i := range sc.Waiters {
			p := &c10Proc{label: fmt.Sprintf("W%d", i), waiter: &sc.Waiters[i], fin: make(chan struct{}), subID: subIDs[subIdx[sc.Waiters[i].Sub]]}
			procs = append(procs, p)
			byName[p.label] = p
			anyStream = anyStream || p.waiter.Stream
		}
		for j := range sc.Writers {
			p := &c10Proc{label: fmt.Sprintf("X%d", j), writer: &sc.Writers[j], fin: make(chan struct{})}
			procs = append(procs, p)
			byName[p.label] = p
		}
		// the set-up's own awaiters left empty waiter sets behind: start from an empty registry, as a
		// freshly started server would
		actions.WakeAllInternal()
		t0 := w.Now()
		// no clock tick on message inserts here: a sleeping process would look blocked to synctest.Wait
		w.Ctl.mu.Lock()
		w.Ctl.tick = 0
		w.Ctl.mu.Unlock()
		start := func(p *c10Proc) {
			ctx, cancel := context.WithCancel(WithLabel(context.Background(), p.label))
			p.cancel = cancel
			p.started = true
			w.Ctl.Gate(p.label, true)
			switch {
			case p.writer != nil:
				w2 := *w
				w2.Ctx = ctx
				go func() {
					defer close(p.fin)
					r := &Result{Op: p.writer.Op, T: w2.Now()}
					w2.execInner(p.writer.Op, r)
					p.err = r.Err
				}()
			case p.waiter.Stream:
				p.conn = &idleConn{closed: make(chan struct{})}
				id := p.subID
				ms := &actions.MessageStreamer{Client: w.Client, SubscriptionID: &id, SubscriptionName: SubName(p.waiter.Sub)}
				go func() {
					defer close(p.fin)
					p.err = ms.Go(ctx, p.conn)
				}()
			default:
				id := p.subID
				a := actions.NewGetSubscriptionMessages(actions.GetSubscriptionMessagesParams{ID: &id, Name: SubName(p.waiter.Sub),
					MaxMessages: p.waiter.Max, MaxBytes: 1 << 30, MaxWait: time.Hour})
				go func() {
					defer close(p.fin)
					p.err = a.ExecuteClient(ctx, w.Client)
					if r, ok := a.Results(); ok && p.err == nil {
						p.got = len(r.Deliveries)
					}
				}()
			}
			synctest.Wait() // parked before its first BEGIN
		}
		returned := func(p *c10Proc) bool {
			if p.waiter != nil && p.waiter.Stream {
				return p.conn != nil && p.conn.Sent() > 0
			}
			return p.finished()
		}
		pcOf := func(p *c10Proc) int {
			if p.writer != nil {
				switch {
				case !p.started:
					return 0
				case p.finished():
					return 2
				case w.Ctl.Where(p.label) == "post-commit":
					return 1
				}
				return 0
			}
			if !p.started {
				return 0
			}
			if returned(p) {
				return 5
			}
			switch w.Ctl.Where(p.label) {
			case "post-commit":
				if p.commits <= 1 {
					return 1
				}
				return 3
			case "pre-begin":
				if p.commits == 0 {
					return 0
				}
				return 2
			}
			return 4
		}
		got := func(p *c10Proc) int {
			if p.waiter.Stream {
				return p.conn.Sent()
			}
			return p.got
		}
		observe := func() string {
			var ws, xs, rs, gs []string
			counts := actions.PubWaiterCountsForVerif()
			for _, p := range procs {
				if p.waiter != nil {
					ws = append(ws, fmt.Sprint(pcOf(p)))
					if p.started && p.conn != nil || p.waiter != nil && !p.waiter.Stream {
						gs = append(gs, fmt.Sprint(got(p)))
					} else {
						gs = append(gs, "0")
					}
				} else {
					xs = append(xs, fmt.Sprint(pcOf(p)))
				}
			}
			for _, id := range subIDs {
				if n, ok := counts[id]; ok {
					rs = append(rs, fmt.Sprint(n))
				} else {
					rs = append(rs, "-") // no waiter set for this subscription
				}
			}
			if anyStream {
				rs = nil // a stream holds two more awaiters of its own; the registry is compared for pulls only
			}
			return "w=" + strings.Join(ws, ",") + ";x=" + strings.Join(xs, ",") + ";r=" + strings.Join(rs, ",") + ";g=" + strings.Join(gs, ",")
		}
		release := func(p *c10Proc) {
			before := w.Ctl.Where(p.label)
			if before == "" {
				return // blocked in its select, or finished
			}
			w.Ctl.Release(p.label)
			synctest.Wait()
			if w.Ctl.Where(p.label) == "post-commit" {
				p.commits++
			}
		}
		// one model step of process p
		stepProc := func(p *c10Proc) {
			if !p.started {
				start(p)
				release(p) // through its first transaction
				return
			}
			if p.finished() {
				return
			}
			release(p)
		}
		for _, name := range schedule {
			p := byName[name]
			if p == nil {
				t.Fatalf("bad schedule entry %q", name)
			}
			// waiters blocked in their select before this step
			var blocked []*c10Proc
			for _, q := range procs {
				if q.waiter != nil && q.started && pcOf(q) == 4 {
					blocked = append(blocked, q)
				}
			}
			stepProc(p)
			res.sched = append(res.sched, name)
			// a woken waiter runs on by itself to its next transaction: make that step explicit for the model
			var auto []string
			for _, q := range blocked {
				if q != p && pcOf(q) != 4 {
					auto = append(auto, q.label)
				}
			}
			if len(auto) == 0 {
				res.trace = append(res.trace, observe())
			} else {
				// the intermediate states of the model are not observable: mark them
				for range auto {
					res.trace = append(res.trace, "*")
				}
				res.sched = append(res.sched, auto...)
				res.trace = append(res.trace, observe())
			}
		}
		// ---- the oracle: let everything run, without letting the clock move
		for _, p := range procs {
			w.Ctl.Gate(p.label, false)
		}
		for _, p := range procs {
			if !p.started {
				start(p)
			}
		}
		for i := 0; i < 50; i++ {
			moved := false
			for _, p := range procs {
				if w.Ctl.Where(p.label) != "" {
					w.Ctl.Release(p.label)
					moved = true
				}
			}
			synctest.Wait()
			if !moved {
				break
			}
		}
		elapsed := w.Now() - t0
		for _, p := range procs {
			if p.writer != nil && (!p.finished() || p.err != nil) {
				res.violation = fmt.Sprintf("writer %s did not complete: %v", p.label, p.err)
				res.sig = "writer-stuck"
			}
		}
		if res.violation == "" {
			for _, p := range procs {
				if p.waiter == nil || returned(p) {
					continue
				}
				// still asleep: is something deliverable on its subscription?
				r := w.Exec(Op{K: "pull", Sub: p.waiter.Sub, Max: 100})
				if len(r.Delivered) > 0 {
					kind := "Pull"
					if p.waiter.Stream {
						kind = "StreamingPull"
					}
					res.violation = fmt.Sprintf("lost wake-up: the %s %s on subscription %s is still waiting although %d message(s) are deliverable on it after every writer committed and ran its hooks", kind, p.label, p.waiter.Sub, len(r.Delivered))
					res.sig = "lost-wakeup"
					break
				}
			}
		}
		if res.violation == "" && elapsed > int64(100*time.Millisecond) {
			res.violation = fmt.Sprintf("virtual time advanced by %s during the schedule: a timer was involved", time.Duration(elapsed))
			res.sig = "timer-involved"
		}
		for _, p := range procs {
			if p.cancel != nil {
				p.cancel()
			}
		}
		synctest.Wait()
	})
	return res
}

func c10ModelLine(sc c10Scenario, wakes [][]string, sched []string) string {
	idx := map[string]int{}
	for i, s := range sc.Subs {
		idx[s] = i
	}
	var ws, xs []string
	for _, wt := range sc.Waiters {
		ws = append(ws, fmt.Sprintf("%d:%d", idx[wt.Sub], wt.Max))
	}
	for j, x := range sc.Writers {
		var adds, wk []string
		var names []string
		for s := range x.Adds {
			names = append(names, s)
		}
		sort.Strings(names)
		for _, s := range names {
			if i, ok := idx[s]; ok {
				adds = append(adds, fmt.Sprintf("%d:%d", i, x.Adds[s]))
			}
		}
		for _, s := range wakes[j] {
			if i, ok := idx[s]; ok {
				wk = append(wk, fmt.Sprint(i))
			}
		}
		xs = append(xs, strings.Join(adds, "+")+"/"+strings.Join(wk, "+"))
	}
	return fmt.Sprintf("notify nsubs=%d waiters=%s writers=%s avail= sched=%s", len(sc.Subs), strings.Join(ws, ","), strings.Join(xs, ";"), strings.Join(sched, ","))
}

// c10Wakes runs the writers sequentially in a twin world and reports, per writer, the subscriptions
// whose waiters it wakes; it also checks the scenario's own expectation of what becomes deliverable.
func c10Wakes(t *testing.T, seed int64, sc c10Scenario) (wakes [][]string, problem string) {
	synctest.Test(t, func(t *testing.T) {
		w := NewWorld(t, seed)
		defer w.Close()
		for _, op := range sc.Setup {
			w.Exec(op)
		}
		w.Dump()
		name := map[uuid.UUID]string{}
		for _, row := range w.lastSubs {
			if row.DeletedAt == nil {
				name[row.ID] = row.Name[strings.LastIndex(row.Name, "/")+1:]
			}
		}
		for _, x := range sc.Writers {
			r := w.Exec(x.Op)
			if strings.HasPrefix(r.Resp, "E:") {
				problem = fmt.Sprintf("writer %s fails: %s", x.Op.K, r.Resp)
				return
			}
			var wk []string
			for _, id := range r.Wakes {
				wk = append(wk, name[id])
			}
			sort.Strings(wk)
			wakes = append(wakes, wk)
		}
		// what is deliverable now per subscription of interest = sum of the expected adds
		for _, s := range sc.Subs {
			want := 0
			for _, x := range sc.Writers {
				want += x.Adds[s]
			}
			r := w.Exec(Op{K: "pull", Sub: s, Max: 100})
			if len(r.Delivered) != want {
				problem = fmt.Sprintf("scenario expectation wrong: %d deliverable on %s after the writers, scenario says %d", len(r.Delivered), s, want)
			}
		}
	})
	return
}

// all interleavings of the per-process step budgets
func c10Interleavings(budget map[string]int, names []string, limit int, rng *rand.Rand) [][]string {
	var out [][]string
	total := 0
	for _, n := range names {
		total += budget[n]
	}
	var rec func(cur []string, left map[string]int)
	rec = func(cur []string, left map[string]int) {
		if len(out) >= limit {
			return
		}
		if len(cur) == total {
			out = append(out, append([]string{}, cur...))
			return
		}
		for _, n := range names {
			if left[n] > 0 {
				left[n]--
				rec(append(cur, n), left)
				left[n]++
			}
		}
	}
	count := 1.0
	rem := total
	for _, n := range names {
		for k := 1; k <= budget[n]; k++ {
			count = count * float64(rem) / float64(k)
			rem--
		}
	}
	if count <= float64(limit) {
		l := map[string]int{}
		for k, v := range budget {
			l[k] = v
		}
		rec(nil, l)
		return out
	}
	// too many: sample uniformly
	seen := map[string]bool{}
	for len(out) < limit {
		var pool []string
		for _, n := range names {
			for k := 0; k < budget[n]; k++ {
				pool = append(pool, n)
			}
		}
		rng.Shuffle(len(pool), func(i, j int) { pool[i], pool[j] = pool[j], pool[i] })
		key := strings.Join(pool, ",")
		if !seen[key] {
			seen[key] = true
			out = append(out, pool)
		}
	}
	return out
}

func TestC10(t *testing.T) {
	st := NewStats()
	defer st.Write()
	m, err := StartModel()
	if err != nil {
		t.Fatal(err)
	}
	defer m.Close()
	if p := os.Getenv("VERIF_REPLAY"); p != "" {
		b, err := os.ReadFile(p)
		if err != nil {
			t.Fatal(err)
		}
		var rp c10Replay
		if err := json.Unmarshal(b, &rp); err != nil {
			t.Fatal(err)
		}
		r := c10Run(t, rp.Seed, rp.Scenario, rp.Schedule)
		if r.violation != "" {
			st.Violate(Violation{What: r.violation, Replay: p, FoundInput: true, Sig: r.sig})
		}
		st.Summary = "replayed " + p
		return
	}
	limit := 70
	if Tier() == "thorough" {
		limit = 700
	}
	rng := rand.New(rand.NewSource(Seed()))
	schedules, steps := 0, 0
	exhaustive := true
	var corrBroken *Violation
	for _, sc := range c10Scenarios() {
		wakes, problem := c10Wakes(t, Seed(), sc)
		if problem != "" {
			t.Fatalf("scenario %s: %s", sc.Name, problem)
		}
		// every writer must wake every subscription on which it makes something deliverable
		for j, x := range sc.Writers {
			for s, k := range x.Adds {
				found := false
				for _, wk := range wakes[j] {
					found = found || wk == s
				}
				if k > 0 && !found {
					p := ReplayPath(fmt.Sprintf("C10-not-woken-%s.json", sc.Name))
					b, _ := json.MarshalIndent(c10Replay{Property: "C10", Sig: "not-woken", Seed: Seed(), Scenario: sc, What: "writer does not wake " + s}, "", " ")
					os.WriteFile(p, b, 0o644)
					st.Violate(Violation{What: fmt.Sprintf("[not-woken] scenario %s: the %s makes a message deliverable on subscription %s but does not wake its waiters (woken: %v)", sc.Name, x.Op.K, s, wakes[j]), Replay: p, FoundInput: true, Sig: "not-woken"})
				}
			}
		}
		if len(st.Violations) > 0 {
			break
		}
		budget := map[string]int{}
		var names []string
		for i := range sc.Waiters {
			n := fmt.Sprintf("W%d", i)
			budget[n] = 4 + 2*len(sc.Writers)
			if len(sc.Waiters)+len(sc.Writers) > 2 {
				budget[n] = 4 + len(sc.Writers)
			}
			names = append(names, n)
		}
		for j := range sc.Writers {
			n := fmt.Sprintf("X%d", j)
			budget[n] = 2
			names = append(names, n)
		}
		all := c10Interleavings(budget, names, limit, rng)
		if len(all) >= limit {
			exhaustive = false
			st.Count("sampled_"+sc.Name, len(all))
		} else {
			st.Count("exhaustive_"+sc.Name, len(all))
		}
		st.Distinct(sc.Name)
		for _, sched := range all {
			r := c10Run(t, Seed(), sc, sched)
			schedules++
			steps += len(r.sched)
			if r.violation != "" {
				p := ReplayPath(fmt.Sprintf("C10-%s-%s-%d.json", r.sig, sc.Name, Seed()))
				b, _ := json.MarshalIndent(c10Replay{Property: "C10", Sig: r.sig, Seed: Seed(), Scenario: sc, Schedule: sched, What: r.violation, Trace: r.trace}, "", " ")
				os.WriteFile(p, b, 0o644)
				st.Violate(Violation{What: fmt.Sprintf("[%s] scenario %s, schedule %s: %s", r.sig, sc.Name, strings.Join(sched, ","), r.violation), Replay: p, FoundInput: true, Sig: r.sig})
				break
			}
			// the model on the same schedule (after a first disagreement only the oracle keeps being checked,
			// in search of a concrete failing schedule)
			if corrBroken != nil {
				continue
			}
			line := c10ModelLine(sc, wakes, r.sched)
			outs, err := m.Replay([]string{line})
			if err != nil {
				t.Fatal(err)
			}
			want := strings.Split(strings.TrimPrefix(outs[0], "R "), "|")
			bad := len(want) != len(r.trace) || !strings.HasPrefix(outs[0], "R ")
			for i := 0; !bad && i < len(want); i++ {
				if r.trace[i] == "*" {
					continue
				}
				mw := want[i]
				if strings.Contains(r.trace[i], ";r=;") {
					// registry not compared (stream present)
					a := strings.Index(mw, ";r=")
					b := strings.Index(mw, ";g=")
					mw = mw[:a] + ";r=" + mw[b:]
				}
				if mw != r.trace[i] {
					bad = true
					st.Sample(map[string]interface{}{"step": i, "model": want[i], "impl": r.trace[i]})
				}
			}
			if bad {
				p := ReplayPath(fmt.Sprintf("C10-correspondence-%s-%d.json", sc.Name, Seed()))
				b, _ := json.MarshalIndent(c10Replay{Property: "C10", Sig: "correspondence", Seed: Seed(), Scenario: sc, Schedule: sched,
					What: "model: " + outs[0] + " impl: " + strings.Join(r.trace, "|"), Trace: []string{line}}, "", " ")
				os.WriteFile(p, b, 0o644)
				corrBroken = &Violation{What: fmt.Sprintf("correspondence with the protocol model broken: scenario %s, schedule %s\n    model: %s\n    impl:  %s", sc.Name, strings.Join(r.sched, ","), strings.TrimPrefix(outs[0], "R "), strings.Join(r.trace, "|")), Replay: p, FoundInput: false, Sig: "correspondence"}
			}
		}
		if len(st.Violations) > 0 {
			break
		}
	}
	// an acknowledgement that commits while the stream is inside the Send of that message: the stream must
	// notice (its flow-control slot is free, an ordered successor became deliverable) without any timer
	if len(st.Violations) == 0 {
		for _, cs := range c11AckInSendCases() {
			r := c11Run(t, Seed(), cs, map[string]bool{"stall-head-of-line": true})
			st.Count("ack_in_send_cases", 1)
			if r.violation != "" && (r.sig == "stall" || r.sig == "stall-head-of-line") {
				p := ReplayPath(fmt.Sprintf("C10-ack-in-send-%s-%d.json", cs.Name, Seed()))
				b, _ := json.MarshalIndent(c11Replay{Property: "C10", Sig: "lost-wakeup-ack-in-send", Seed: Seed(), Case: cs, What: r.violation}, "", " ")
				os.WriteFile(p, b, 0o644)
				st.Violate(Violation{What: fmt.Sprintf("[lost-wakeup-ack-in-send] case %s (the client acknowledges a message while the server is inside its Send; no timer may be needed): %s", cs.Name, r.violation), Replay: p, FoundInput: true, Sig: "lost-wakeup-ack-in-send"})
				break
			}
		}
	}
	// the wake set of every operation of random histories vs the store model (the `covers` side of the
	// protocol theorem: who is woken by what)
	if len(st.Violations) == 0 {
		nh := 12
		if Tier() == "thorough" {
			nh = 150
		}
		prof := ProfileAll
		prof.Seek, prof.Snap, prof.Ack, prof.Sweep = 3, 3, 5, 2
		for hi := 0; hi < nh; hi++ {
			seed := Seed()*7001 + int64(hi)
			h := RunHistory(t, seed, NewGen(seed, prof), nil, 80, false)
			st.Count("wake_histories", 1)
			st.Count("wake_ops", len(h.Ops))
			d, err := m.Check(h.Lines)
			if err != nil {
				t.Fatal(err)
			}
			if d != nil && mismatchKind(d.Answer) == "wakes" {
				opk := opOfLine(h.Lines, d.LineNo)
				p := writeReplay(fmt.Sprintf("C10-wake-set-%d.json", seed), replayFile{Property: "C10", Sig: "wake-set", Seed: seed, Ops: h.Ops[:len(h.Ops)],
					What: d.String(), Trace: traceOf(h.Lines[:d.LineNo+1], 30)})
				st.Violate(Violation{What: fmt.Sprintf("[wake-set] operation %s wakes other subscriptions than the store model says (history of %d operations): %s", opk, len(h.Ops), d.String()), Replay: p, FoundInput: false, Sig: "wake-set"})
				break
			}
		}
	}
	// a zero deadline sent on a stream (actions-level request and gRPC StreamingPull request alike) makes the
	// message deliverable now and wakes the subscription's waiters — the stream's own fetch is one of them:
	// with room for one message it sends the message again promptly
	if !hasConcrete(st.Violations) {
		for _, grpc := range []bool{false, true} {
			cs := c11Case{Name: fmt.Sprintf("zero-deadline-on-stream-grpc=%v", grpc), Grpc: grpc,
				Actions: []c11Action{{K: "fc", Msgs: 1, Byts: 10000}, {K: "publish", Pads: []int{0}}, {K: "delay0", Pick: []int{0}}, {K: "advance", D: 2 * Sec}}}
			r := c11Run(t, Seed(), cs, map[string]bool{"stall-head-of-line": true})
			st.Count("stream_zero_deadline_cases", 1)
			if r.sentTotal < 2 {
				p := ReplayPath(fmt.Sprintf("C10-stream-zero-deadline-grpc=%v-%d.json", grpc, Seed()))
				what := fmt.Sprintf("a streaming pull (grpc=%v) with room for one message has been sent message m; the client sends a zero deadline for m on the stream; 2 s later m has been sent %d time(s) in all: the zero deadline did not make m deliverable and wake the stream's waiting fetch (%s)", grpc, r.sentTotal, r.violation)
				b, _ := json.MarshalIndent(c11Replay{Property: "C10", Sig: "stream-zero-deadline-no-wake", Seed: Seed(), Case: cs, What: what}, "", " ")
				os.WriteFile(p, b, 0o644)
				st.Violate(Violation{What: "[stream-zero-deadline-no-wake] " + what, Replay: p, FoundInput: true, Sig: "stream-zero-deadline-no-wake"})
				break
			}
		}
	}
	if !hasConcrete(st.Violations) {
		waitingStreamUnsetLimits(t, st)
	}
	if !hasConcrete(st.Violations) {
		notifierOnSQLite(t, st)
	}
	if corrBroken != nil && len(st.Violations) == 0 {
		st.Violate(*corrBroken)
	}
	st.Set("evaluations", schedules)
	st.Set("schedules", schedules)
	st.Set("steps", steps)
	st.Set("exhaustive", exhaustive)
	st.Set("traces_validated_against_impl", schedules)
	st.Set("rule", "per scenario (writer kinds: publish to a topic with several subscriptions, zero-deadline nack and nack of ids spanning subscriptions, ack of an ordered predecessor, dead-lettering of an ordered predecessor with forward, sweep forward into a topic, seek to time, seek to snapshot, spurious wake then publish, two publishes/two waiters; waiters: Pull and the StreamingPull fetch loop): all interleavings of the processes' transaction-boundary steps when fewer than the limit, else a uniform sample; distinct = scenarios")
	st.Summary = fmt.Sprintf("scenarios=%d schedules=%d steps=%d", len(st.distinct), schedules, steps)
}
