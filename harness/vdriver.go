package harness

// database/sql/driver wrapper around mattn SQLite: statement log with arguments and first-column
// capture, fault injection at statement k, context cancellation at statement k, transaction gates
// (before BEGIN / after COMMIT) for schedule control, and the 1 µs clock tick per message insert.

import (
	"context"
	"database/sql/driver"
	"errors"
	"fmt"
	"io"
	"os"
	"strings"
	"sync"
	"time"

	sqlite3 "github.com/mattn/go-sqlite3"
)

type Stmt struct {
	Kind   string // begin commit rollback exec query
	SQL    string
	Args   []driver.Value
	Col0   []string // first column of every returned row (queries)
	Label  string
	Failed bool // the injected fault hit this statement
}

var ErrInjected = errors.New("injected storage failure")

type labelKey struct{}

// WithLabel marks a context so that the wrapper can attribute statements and park the goroutine at gates.
func WithLabel(ctx context.Context, l string) context.Context {
	return context.WithValue(ctx, labelKey{}, l)
}
func labelOf(ctx context.Context) string {
	l, _ := ctx.Value(labelKey{}).(string)
	return l
}

type Ctl struct {
	mu        sync.Mutex
	logging   bool
	log       []*Stmt
	n         int // statements counted since arm
	failAt    int // 1-based, 0 = off
	cancelAt  int
	cancel    context.CancelFunc
	failLabel string // only count statements of this label ("" = all)
	tick      time.Duration
	// gates
	gated    map[string]bool // labels that stop at gates
	multi    map[string]bool
	parkedAt map[string][]chan struct{}
	plain    map[string]string        // label -> SQL fragment of the plain (non-transaction) query to park at
	parked   map[string]chan struct{} // label -> release channel
	where    map[string]string
	txToken  chan struct{} // serialises transactions
	// spin guard: a labelled process that issues more than spinLimit statements without the harness
	// resetting the counter is parked (it is busy-looping; under synctest it would never block)
	spinLimit int
	spinLabel string
	spinN     int
	spinCh    chan struct{}
	spinning  bool
}

// SpinGuard arms the guard for one label (limit 0 disarms).
func (c *Ctl) SpinGuard(label string, limit int) {
	c.mu.Lock()
	c.spinLabel, c.spinLimit, c.spinN = label, limit, 0
	c.mu.Unlock()
}

// SpinReset restarts the count and releases a parked spinner; reports whether one was parked.
func (c *Ctl) SpinReset() bool {
	c.mu.Lock()
	was := c.spinning
	c.spinN = 0
	c.spinning = false
	ch := c.spinCh
	c.spinCh = nil
	c.mu.Unlock()
	if ch != nil {
		close(ch)
	}
	return was
}
func (c *Ctl) Spinning() bool { c.mu.Lock(); defer c.mu.Unlock(); return c.spinning }

func (c *Ctl) spinCheck(ctx context.Context) {
	c.mu.Lock()
	if c.spinLimit == 0 || labelOf(ctx) != c.spinLabel {
		c.mu.Unlock()
		return
	}
	c.spinN++
	if c.spinN <= c.spinLimit {
		c.mu.Unlock()
		return
	}
	c.spinning = true
	if c.spinCh == nil {
		c.spinCh = make(chan struct{})
	}
	ch := c.spinCh
	c.mu.Unlock()
	select {
	case <-ch:
	case <-ctx.Done():
	}
}

func NewCtl() *Ctl {
	c := &Ctl{tick: time.Microsecond, gated: map[string]bool{}, parked: map[string]chan struct{}{}, where: map[string]string{}}
	c.txToken = make(chan struct{}, 1)
	c.txToken <- struct{}{}
	return c
}

func (c *Ctl) StartLog() { c.mu.Lock(); c.logging = true; c.log = nil; c.mu.Unlock() }
func (c *Ctl) StopLog() []*Stmt {
	c.mu.Lock()
	defer c.mu.Unlock()
	c.logging = false
	l := c.log
	c.log = nil
	return l
}

// Arm makes statement k (counted from now, for the given label or all) fail; k=0 disarms.
func (c *Ctl) Arm(failAt, cancelAt int, cancel context.CancelFunc, label string) {
	c.mu.Lock()
	c.n, c.failAt, c.cancelAt, c.cancel, c.failLabel = 0, failAt, cancelAt, cancel, label
	c.mu.Unlock()
}

// peek returns the statements logged so far without stopping the log.
func (c *Ctl) peek() []*Stmt {
	c.mu.Lock()
	defer c.mu.Unlock()
	return append([]*Stmt(nil), c.log...)
}
func (c *Ctl) Count() int { c.mu.Lock(); defer c.mu.Unlock(); return c.n }

// TxIdle reports whether no transaction is open (begun and neither committed nor rolled back).
func (c *Ctl) TxIdle() bool { return len(c.txToken) == 1 }

func (c *Ctl) hit(ctx context.Context, kind, q string, args []driver.NamedValue) (*Stmt, error) {
	c.mu.Lock()
	defer c.mu.Unlock()
	if w := os.Getenv("VERIF_SQLGREP"); w != "" && strings.Contains(q, w) { // debugging aid
		fmt.Fprintln(os.Stderr, "SQL:", time.Now().UnixNano()/1000000%100000000, labelOf(ctx), q)
	}
	var st *Stmt
	if c.logging {
		st = &Stmt{Kind: kind, SQL: q, Label: labelOf(ctx)}
		for _, a := range args {
			st.Args = append(st.Args, a.Value)
		}
		c.log = append(c.log, st)
	}
	if c.failLabel == "" || c.failLabel == labelOf(ctx) {
		c.n++
		if c.failAt != 0 && c.n == c.failAt {
			if st != nil {
				st.Failed = true
			}
			return st, ErrInjected
		}
		if c.cancelAt != 0 && c.n == c.cancelAt && c.cancel != nil {
			if st != nil {
				st.Failed = true
			}
			c.cancel()
			return st, context.Canceled
		}
	}
	return st, nil
}

// Mark appends a harness event to the statement log (keeps harness actions and SQL in one order).
func (c *Ctl) Mark(what string) {
	c.mu.Lock()
	if c.logging {
		c.log = append(c.log, &Stmt{Kind: "mark", SQL: what})
	}
	c.mu.Unlock()
}

func (c *Ctl) logOnly(ctx context.Context, kind, q string) {
	c.mu.Lock()
	if c.logging {
		c.log = append(c.log, &Stmt{Kind: kind, SQL: q, Label: labelOf(ctx)})
	}
	c.mu.Unlock()
}

// ---- gates ----
func (c *Ctl) Gate(label string, on bool) { c.mu.Lock(); c.gated[label] = on; c.mu.Unlock() }

// GateMulti gates a label under which several goroutines run (the goroutines of one stream): each
// parks separately, keyed by where it parked; ParkedAt / ReleaseAt address them.
func (c *Ctl) GateMulti(label string, on bool) {
	c.mu.Lock()
	if c.multi == nil {
		c.multi, c.parkedAt = map[string]bool{}, map[string][]chan struct{}{}
	}
	c.multi[label] = on
	c.mu.Unlock()
}
func (c *Ctl) ParkedAt(l, where string) int {
	c.mu.Lock()
	defer c.mu.Unlock()
	return len(c.parkedAt[l+"|"+where])
}
func (c *Ctl) ReleaseAt(l, where string) bool {
	c.mu.Lock()
	q := c.parkedAt[l+"|"+where]
	if len(q) == 0 {
		c.mu.Unlock()
		return false
	}
	c.parkedAt[l+"|"+where] = q[1:]
	c.mu.Unlock()
	close(q[0])
	return true
}
func (c *Ctl) park(ctx context.Context, where string) {
	l := labelOf(ctx)
	c.mu.Lock()
	if l != "" && c.multi[l] {
		ch := make(chan struct{})
		c.parkedAt[l+"|"+where] = append(c.parkedAt[l+"|"+where], ch)
		c.mu.Unlock()
		<-ch
		return
	}
	if l == "" || !c.gated[l] {
		c.mu.Unlock()
		return
	}
	ch := make(chan struct{})
	c.parked[l] = ch
	c.where[l] = where
	c.mu.Unlock()
	<-ch
}
func (c *Ctl) Where(l string) string { c.mu.Lock(); defer c.mu.Unlock(); return c.where[l] }
func (c *Ctl) Release(l string) string {
	c.mu.Lock()
	ch := c.parked[l]
	w := c.where[l]
	delete(c.parked, l)
	delete(c.where, l)
	c.mu.Unlock()
	if ch != nil {
		close(ch)
	}
	return w
}

// ---- connector ----
type Connector struct {
	DSN string
	C   *Ctl
}

func (v *Connector) Connect(ctx context.Context) (driver.Conn, error) {
	cn, err := (&sqlite3.SQLiteDriver{}).Open(v.DSN)
	if err != nil {
		return nil, err
	}
	return &vconn{cn.(*sqlite3.SQLiteConn), v.C}, nil
}
func (v *Connector) Driver() driver.Driver { return &sqlite3.SQLiteDriver{} }

type vconn struct {
	*sqlite3.SQLiteConn
	c *Ctl
}

func (v *vconn) ExecContext(ctx context.Context, q string, args []driver.NamedValue) (driver.Result, error) {
	if _, err := v.c.hit(ctx, "exec", q, args); err != nil {
		return nil, err
	}
	if v.c.tick > 0 && strings.Contains(q, "INSERT INTO `messages`") {
		time.Sleep(v.c.tick)
	}
	return v.SQLiteConn.ExecContext(ctx, q, args)
}

// GatePlain: while the label is gated with GateMulti, a query outside a transaction whose text contains
// frag parks at "plain-query" before it is executed
func (c *Ctl) GatePlain(label, frag string) {
	c.mu.Lock()
	if c.plain == nil {
		c.plain = map[string]string{}
	}
	c.plain[label] = frag
	c.mu.Unlock()
}

func (v *vconn) QueryContext(ctx context.Context, q string, args []driver.NamedValue) (driver.Rows, error) {
	if l := labelOf(ctx); l != "" {
		v.c.mu.Lock()
		frag, on := v.c.plain[l], v.c.multi[l]
		v.c.mu.Unlock()
		if on && frag != "" && strings.Contains(q, frag) {
			v.c.park(ctx, "plain-query")
		}
	}
	st, err := v.c.hit(ctx, "query", q, args)
	if err != nil {
		return nil, err
	}
	rows, err := v.SQLiteConn.QueryContext(ctx, q, args)
	if err != nil || st == nil {
		return rows, err
	}
	return &vrows{rows, st, v.c}, nil
}

func (v *vconn) BeginTx(ctx context.Context, opts driver.TxOptions) (driver.Tx, error) {
	v.c.spinCheck(ctx)
	v.c.park(ctx, "pre-begin")
	if _, err := v.c.hit(ctx, "begin", "BEGIN", nil); err != nil {
		return nil, err
	}
	// serialise transactions ourselves: a BEGIN IMMEDIATE that has to wait would spin in C
	select {
	case <-v.c.txToken:
	case <-ctx.Done():
		return nil, ctx.Err()
	}
	tx, err := v.SQLiteConn.BeginTx(ctx, opts)
	if err != nil {
		v.c.txToken <- struct{}{}
		return nil, err
	}
	return &vtx{tx, v.c, ctx, false}, nil
}

func (v *vconn) PrepareContext(ctx context.Context, q string) (driver.Stmt, error) {
	return nil, fmt.Errorf("prepare not expected: %s", q)
}

type vtx struct {
	driver.Tx
	c    *Ctl
	ctx  context.Context
	done bool
}

func (t *vtx) release() {
	if !t.done {
		t.done = true
		t.c.txToken <- struct{}{}
	}
}

func (t *vtx) Commit() error {
	if _, err := t.c.hit(t.ctx, "commit", "COMMIT", nil); err != nil {
		_ = t.Tx.Rollback()
		t.release()
		return err
	}
	err := t.Tx.Commit()
	t.release()
	t.c.park(t.ctx, "post-commit")
	return err
}

func (t *vtx) Rollback() error {
	t.c.logOnly(t.ctx, "rollback", "ROLLBACK")
	err := t.Tx.Rollback()
	t.release()
	return err
}

type vrows struct {
	driver.Rows
	st *Stmt
	c  *Ctl
}

func (r *vrows) Next(dest []driver.Value) error {
	err := r.Rows.Next(dest)
	if err == nil && len(dest) > 0 {
		var s string
		switch x := dest[0].(type) {
		case string:
			s = x
		case []byte:
			s = string(x)
		default:
			s = fmt.Sprint(x)
		}
		r.c.mu.Lock()
		r.st.Col0 = append(r.st.Col0, s)
		r.c.mu.Unlock()
	} else if err != nil && err != io.EOF {
		return err
	}
	return err
}
