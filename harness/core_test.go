package harness

import (
	"strings"
	"encoding/json"
	"os"
	"strconv"
	"testing"
	"testing/synctest"
)

func envInt(name string, def int) int {
	if s := os.Getenv(name); s != "" {
		if v, err := strconv.Atoi(s); err == nil {
			return v
		}
	}
	return def
}

func nOfPayload(d Delivered) (int, bool) {
	var p struct {
		N *int `json:"n"`
	}
	if json.Unmarshal([]byte(d.Payload), &p) == nil && p.N != nil {
		return *p.N, true
	}
	return 0, false
}

// RunHistory executes ops (generated on the fly when gen != nil) in a fresh world and returns the
// executed operations, their results and the protocol trace.
func RunHistory(t *testing.T, seed int64, gen *Gen, fixed []Op, nops int) (ops []Op, results []*Result, lines []string) {
	synctest.Test(t, func(t *testing.T) {
		w := NewWorld(t, seed)
		defer w.Close()
		do := func(op Op) {
			res := w.Exec(op)
			ops = append(ops, op)
			results = append(results, res)
			if gen != nil {
				gen.Observe(res, nOfPayload)
			}
		}
		if gen != nil {
			for _, op := range gen.Setup() {
				do(op)
			}
			for i := 0; i < nops; i++ {
				do(gen.Next(w.Now()))
				// keep clear of stored deadlines: a small odd tick after every operation
				do(Op{K: "advance", D: Ms + int64(gen.R.Intn(999))*1000 + 1})
			}
		} else {
			for _, op := range fixed {
				do(op)
			}
		}
		lines = w.Lines
	})
	return
}

func TestCoreSmoke(t *testing.T) {
	m, err := StartModel()
	if err != nil {
		t.Fatal(err)
	}
	defer m.Close()
	seeds := envInt("SEEDS", 5)
	nops := envInt("NOPS", 40)
	base := envInt("VERIF_SEED", 1)
	for s := 0; s < seeds; s++ {
		seed := int64(base*100000 + s)
		gen := NewGen(seed, ProfileAll)
		ops, _, lines := RunHistory(t, seed, gen, nil, nops)
		d, err := m.Check(lines)
		if err != nil {
			t.Fatal(err)
		}
		if d != nil {
			t.Errorf("seed %d (%d ops): %s", seed, len(ops), d)
			if f := os.Getenv("TRACE_OUT"); f != "" {
				os.WriteFile(f, []byte(strings.Join(lines, "\n")+"\n"), 0o644)
			}
			if os.Getenv("VERBOSE") != "" {
				for i, l := range lines {
					if i <= d.LineNo && l[:4] != "dump" {
						t.Log(l)
					}
				}
			}
			return
		}
	}
}
