package harness

import (
	"context"
	"encoding/json"
	"fmt"
	"github.com/google/uuid"
	"go.6river.tech/mmmbbb/actions"
	"go.6river.tech/mmmbbb/grpc/pubsubpb"
	"os"
	"path/filepath"
	"strconv"
	"strings"
	"testing"
	"testing/synctest"
	"time"
)

func envInt(name string, def int) int {
	if s := os.Getenv(name); s != "" {
		if v, err := strconv.Atoi(s); err == nil {
			return v
		}
	}
	return def
}

func nOfPayload(d Delivered) (int, bool) {
	var p struct {
		N *int `json:"n"`
	}
	if json.Unmarshal([]byte(d.Payload), &p) == nil && p.N != nil {
		return *p.N, true
	}
	return 0, false
}

// History is everything one executed history produced.
type History struct {
	Seed     int64
	Ops      []Op
	Results  []*Result
	Lines    []string
	Findings []Finding
	Counts   map[string]int
	// wrong predecessor links seen by the monitor (directs the C05 violation search)
	LinkMismatch []LinkMis
}

// drainOps: advance past every back-off and pull everything, three times
func drainOps(subs []string) []Op {
	var ops []Op
	for round := 0; round < 3; round++ {
		ops = append(ops, Op{K: "advance", D: 700*Sec + 1234567})
		for _, s := range subs {
			for k := 0; k < 3; k++ {
				ops = append(ops, Op{K: "pull", Sub: s, Max: 100})
			}
		}
	}
	return ops
}

// RunHistory executes ops (generated on the fly when gen != nil) in a fresh world.
func RunHistory(t *testing.T, seed int64, gen *Gen, fixed []Op, nops int, drain bool) *History {
	h := &History{Seed: seed}
	synctest.Test(t, func(t *testing.T) {
		w := NewWorld(t, seed)
		defer w.Close()
		mon := NewMonitors()
		stuck := false
		do := func(op Op) {
			if stuck {
				return // a transaction was left open: the next BEGIN would wait for ever
			}
			res := w.Exec(op)
			h.Ops = append(h.Ops, op)
			h.Results = append(h.Results, res)
			mon.Observe(len(h.Ops)-1, res)
			if !w.Ctl.TxIdle() {
				// the operation has returned, its transaction is neither committed nor rolled back: it keeps
				// the write lock, every later writer (client request or maintenance round) fails
				stuck = true
				what := fmt.Sprintf("operation %s (answered %s) returned with its transaction left open: every later request that writes and every later maintenance round fails", op.K, res.Resp)
				for _, p := range []string{"C15", "C16", "C09"} {
					mon.Findings = append(mon.Findings, Finding{Prop: p, Sig: "tx-left-open", What: what, At: len(h.Ops) - 1})
				}
			}
			if gen != nil {
				gen.Observe(res, nOfPayload)
			}
		}
		if gen != nil {
			for _, op := range gen.Setup() {
				do(op)
			}
			for i := 0; i < nops; i++ {
				do(gen.Next(w.Now()))
				// keep clear of stored deadlines: a small odd tick after every operation
				do(Op{K: "advance", D: Ms + int64(gen.R.Intn(999))*1000 + 1})
			}
			if drain {
				var live []string
				for _, s := range gen.Subs {
					if s.live {
						live = append(live, s.name)
					}
				}
				for _, op := range drainOps(live) {
					do(op)
				}
			}
		} else {
			for _, op := range fixed {
				do(op)
			}
		}
		h.Lines = w.Lines
		h.Findings = mon.Findings
		h.Counts = mon.Counts
		h.LinkMismatch = mon.LinkMismatch
	})
	return h
}

// chargedProps: which properties a model/implementation disagreement on an operation of this kind
// is charged to (the properties whose theorems unfold the model function of that operation).
func chargedProps(opKind, mismatchKind string) []string {
	if mismatchKind == "ordered-refinement" {
		// the step is not one of the ordered-delivery steps `C05_ordered_partial` quantifies over
		return []string{"C05"}
	}
	if mismatchKind == "wakes" {
		// who is woken is part of every operation's modelled effect; C10 and C09 rest on it directly
		return append([]string{"C10", "C09"}, chargedProps(opKind, "")...)
	}
	// a property is charged with every operation its theorems quantify over
	switch opKind {
	case "publish", "msg":
		return []string{"C01", "C02", "C05", "C06", "C07", "C13", "C14"}
	case "pull":
		return []string{"C01", "C02", "C03", "C04", "C05", "C06", "C13", "C14"}
	case "ack":
		return []string{"C01", "C02", "C03", "C05", "C13"}
	case "nack":
		return []string{"C01", "C03", "C04", "C05", "C06"}
	case "delay":
		return []string{"C01", "C03", "C04"}
	case "dl_sweep":
		return []string{"C01", "C03", "C05", "C06"}
	case "seek_time", "seek_snap":
		// (C03: a Seek is the one operation that may rewind acknowledged messages — of its own subscription only)
		// (C15: the completion time a Seek stamps is the clock the age-based jobs go by)
		return []string{"C01", "C02", "C03", "C05", "C13", "C14", "C15"}
	case "snapshot", "delete_snap":
		return []string{"C01", "C02", "C13"}
	case "expire_subs":
		return []string{"C01", "C14", "C15"}
	case "set_delay":
		// (C15: the injector answers for live subscriptions only — a deleted one's row, pruned or not, is not its business)
		return []string{"C14", "C15"}
	case "delete_topic", "delete_sub":
		// what a delete leaves behind is what the maintenance jobs have to reclaim (C15)
		return []string{"C12", "C17", "C01", "C02", "C15"}
	case "create_topic", "create_sub":
		// the configuration a subscription is created with (retry policy, ordering, dead-letter policy,
		// filter, TTLs) is what the data-plane properties quantify over
		return []string{"C12", "C17", "C01", "C02", "C04", "C05", "C06", "C07", "C14"}
	case "rpc":
		// a control-plane request inside a data-plane history (UpdateSubscription with a mask): the
		// configuration it stores is what every later operation of the history runs under
		return []string{"C17", "C12", "C16", "C01", "C02", "C04", "C05", "C06", "C14"}
	case "advance":
		return nil
	}
	if strings.HasPrefix(opKind, "prune_") {
		return []string{"C15", "C01"}
	}
	return []string{"C01"}
}

// opOfLine returns the operation kind a protocol line belongs to (a dump line belongs to the
// operation before it).
func opOfLine(lines []string, i int) string {
	for ; i >= 0; i-- {
		k := strings.SplitN(lines[i], " ", 2)[0]
		if k != "dump" {
			return k
		}
	}
	return ""
}

func mismatchKind(answer string) string {
	for _, w := range strings.Split(answer, " ") {
		if strings.HasPrefix(w, "kind=") {
			return w[5:]
		}
	}
	return "error"
}

type coreCfg struct {
	prop          string
	profile       Profile
	quickSeeds    int
	thoroughSeeds int
	nops          int
	drain         bool
	metamorphic   bool
	extra         func(t *testing.T, st *Stats) // further runners of the same property
}

func hasFinding(fs []Finding, prop, sig string) *Finding {
	for i := range fs {
		if fs[i].Prop == prop && (sig == "" || fs[i].Sig == sig) {
			return &fs[i]
		}
	}
	return nil
}

// shrink removes operations while the finding (prop, sig) persists.
func shrink(t *testing.T, seed int64, ops []Op, prop, sig string) []Op {
	still := func(cand []Op) bool {
		h := RunHistory(t, seed, nil, cand, 0, false)
		return hasFinding(h.Findings, prop, sig) != nil
	}
	cur := ops
	n := 2
	budget := 160
	for len(cur) >= 2 && budget > 0 {
		chunk := (len(cur) + n - 1) / n
		reduced := false
		for i := 0; i < len(cur) && budget > 0; i += chunk {
			end := i + chunk
			if end > len(cur) {
				end = len(cur)
			}
			cand := append(append([]Op{}, cur[:i]...), cur[end:]...)
			budget--
			if len(cand) > 0 && still(cand) {
				cur = cand
				if n > 2 {
					n--
				}
				reduced = true
				break
			}
		}
		if !reduced {
			if n >= len(cur) {
				break
			}
			n *= 2
			if n > len(cur) {
				n = len(cur)
			}
		}
	}
	return cur
}

type replayFile struct {
	Property string   `json:"property"`
	Sig      string   `json:"sig"`
	What     string   `json:"what"`
	Seed     int64    `json:"seed"`
	Ops      []Op     `json:"ops"`
	Trace    []string `json:"trace,omitempty"`
	Note     string   `json:"note,omitempty"`
}

func writeReplay(name string, rf replayFile) string {
	p := ReplayPath(name)
	b, _ := json.MarshalIndent(rf, "", " ")
	os.WriteFile(p, b, 0o644)
	return p
}

func traceOf(lines []string, max int) []string {
	var out []string
	for _, l := range lines {
		if !strings.HasPrefix(l, "dump") {
			if len(l) > 400 {
				l = l[:400] + "…"
			}
			out = append(out, l)
		}
	}
	if len(out) > max {
		out = out[len(out)-max:]
	}
	return out
}

// runCore is the runner shared by the history properties.
func runCore(t *testing.T, cfg coreCfg) {
	st := NewStats()
	defer st.Write()
	m, err := StartModel()
	if err != nil {
		t.Fatal(err)
	}
	defer m.Close()
	if rp := os.Getenv("VERIF_REPLAY"); rp != "" {
		replayCore(t, m, rp)
		return
	}
	seeds := cfg.quickSeeds
	if Tier() == "thorough" {
		seeds = cfg.thoroughSeeds
	}
	if os.Getenv("VERIF_WIDEN") != "" {
		seeds *= 3
	}
	base := Seed()
	// thorough tier: bin/check runs several processes, each with its own slice of the seed range
	shard, nShards := 0, 1
	fmt.Sscanf(os.Getenv("VERIF_SHARD"), "%d/%d", &shard, &nShards)
	if nShards < 1 {
		shard, nShards = 0, 1
	}
	nOps, nHist, disagreements := 0, 0, 0
	reportedSig := map[string]bool{}
	focus := ""
	// corpus of minimised past failures runs first
	corpus, _ := filepath.Glob(filepath.Join(corpusDir(), "*.json"))
	if shard != 0 {
		corpus = nil // the corpus, the metamorphic runs and the extra runners belong to shard 0
	}
	for _, cf := range corpus {
		b, err := os.ReadFile(cf)
		if err != nil {
			continue
		}
		var rf replayFile
		if json.Unmarshal(b, &rf) != nil {
			continue
		}
		h := RunHistory(t, rf.Seed, nil, rf.Ops, 0, false)
		st.Count("corpus_histories", 1)
		for _, f := range h.Findings {
			if f.Prop == cfg.prop && !reportedSig[f.Sig] {
				reportedSig[f.Sig] = true
				st.Violate(Violation{What: fmt.Sprintf("[%s] corpus history %s: %s", f.Sig, filepath.Base(cf), f.What), Replay: cf, FoundInput: true, Sig: f.Sig})
			}
		}
		if d, err := m.Check(h.Lines); err == nil && d != nil {
			for _, p := range chargedProps(opOfLine(h.Lines, d.LineNo), mismatchKind(d.Answer)) {
				if p == cfg.prop && !reportedSig["correspondence"] {
					reportedSig["correspondence"] = true
					st.Violate(Violation{What: "correspondence broken on corpus history " + filepath.Base(cf) + ": " + d.String(), Replay: cf, FoundInput: false, Sig: "correspondence"})
				}
			}
		}
	}
	only := -1
	fmt.Sscanf(os.Getenv("VERIF_ONLY"), "%d", &only) // reproduce one history of a run
	for s := 0; s < seeds; s++ {
		if s%nShards != shard || (only >= 0 && s != only) {
			continue
		}
		seed := base*100003 + int64(s)
		prof := cfg.profile
		if focus != "" {
			// the correspondence broke on this kind of operation: look for a concrete failing history
			// among histories that use it (and what makes its effect visible) much more often
			prof = focusProfile(prof, focus)
			st.Count("focused_histories", 1)
		}
		gen := NewGen(seed, prof)
		h := RunHistory(t, seed, gen, nil, cfg.nops, cfg.drain)
		nHist++
		nOps += len(h.Ops)
		for _, r := range h.Results {
			st.Count("op_"+r.Op.K, 1)
			if strings.HasPrefix(r.Resp, "E:") {
				st.Count("err_"+r.Resp, 1)
			}
		}
		for k, v := range h.Counts {
			st.Count("mon_"+k, v)
		}
		st.Distinct(fmt.Sprint(seed))
		if s < 2 {
			st.Sample(traceOf(h.Lines, 12))
		}
		// monitors first: a concrete failing history is the strongest report
		for _, f := range h.Findings {
			if f.Prop != cfg.prop || reportedSig[f.Sig] {
				continue
			}
			reportedSig[f.Sig] = true
			small := shrink(t, seed, h.Ops, f.Prop, f.Sig)
			hs := RunHistory(t, seed, nil, small, 0, false)
			what := f.What
			if g := hasFinding(hs.Findings, f.Prop, f.Sig); g != nil {
				what = g.What
			}
			p := writeReplay(fmt.Sprintf("%s-%s-%d.json", cfg.prop, f.Sig, seed), replayFile{Property: cfg.prop, Sig: f.Sig, What: what, Seed: seed, Ops: small, Trace: traceOf(hs.Lines, 60)})
			st.Violate(Violation{What: fmt.Sprintf("[%s] %s (history of %d operations, shrunk from %d)", f.Sig, what, len(small), len(h.Ops)), Replay: p, FoundInput: true, Sig: f.Sig})
		}
		// directed search (C05): a delivery was published without the link to its same-key predecessor
		// that the mechanism prescribes; make the consequence observable: re-open the predecessor by a
		// seek to just before it and pull
		if cfg.prop == "C05" && len(h.LinkMismatch) > 0 && !reportedSig["overtake-link-missing"] {
			lm := h.LinkMismatch[0]
			ext := append(append([]Op{}, h.Ops[:lm.At+1]...), Op{K: "advance", D: Ms + 1}, Op{K: "seek_time", Sub: lm.Sub, D: lm.PredPublished - 1},
				Op{K: "advance", D: Ms + 1}, Op{K: "pull", Sub: lm.Sub, Max: 100}, Op{K: "advance", D: Ms + 1}, Op{K: "pull", Sub: lm.Sub, Max: 100})
			he := RunHistory(t, seed, nil, ext, 0, false)
			st.Count("directed_link_searches", 1)
			for _, f := range he.Findings {
				if f.Prop == "C05" && !reportedSig[f.Sig] {
					reportedSig[f.Sig] = true
					small := shrink(t, seed, ext, f.Prop, f.Sig)
					hs := RunHistory(t, seed, nil, small, 0, false)
					what := f.What
					if g := hasFinding(hs.Findings, f.Prop, f.Sig); g != nil {
						what = g.What
					}
					p := writeReplay(fmt.Sprintf("%s-%s-%d.json", cfg.prop, f.Sig, seed), replayFile{Property: cfg.prop, Sig: f.Sig, What: what, Seed: seed, Ops: small, Trace: traceOf(hs.Lines, 60)})
					st.Violate(Violation{What: fmt.Sprintf("[%s] %s (history of %d operations, found by the directed search after a wrong predecessor link)", f.Sig, what, len(small)), Replay: p, FoundInput: true, Sig: f.Sig})
				}
			}
		}
		// correspondence
		d, err := m.Check(h.Lines)
		if err != nil {
			t.Fatal(err)
		}
		if d == nil {
			oc, oe, os2, fin, fout := m.OrdFragStats()
			st.Count("ordered_refinement_steps_ok", oc)
			st.Count("ordered_refinement_steps_excluded", oe)
			st.Count("ordered_refinement_steps_clock_assumption_failed", os2)
			// the fragment of C05_fragment: steps inside it, and histories that never leave it
			st.Count("fragment_steps_inside", fin)
			st.Count("fragment_steps_outside", fout)
			if fout == 0 && fin > 0 {
				st.Count("fragment_histories_entirely_inside", 1)
			}
			// the obligation without clock assumption (C05_ordered_ties)
			tok, tbad := m.OrdTieStats()
			st.Count("ordered_refinement_no_clock_assumption_steps_ok", tok)
			st.Count("ordered_refinement_no_clock_assumption_steps_failed", tbad)
			// the fragment of C05_fragment_dl (everything but seeks): steps inside, non-seek steps outside
			din, dout := m.OrdFragDLStats()
			st.Count("fragment_all_but_seek_steps_inside", din)
			st.Count("fragment_all_but_seek_non_seek_steps_outside", dout)
		}
		if d != nil {
			kind := mismatchKind(d.Answer)
			opk := opOfLine(h.Lines, d.LineNo)
			charged := false
			for _, p := range chargedProps(opk, kind) {
				if p == cfg.prop {
					charged = true
				}
			}
			st.Count("disagreements_any", 1)
			if charged {
				disagreements++
				if focus == "" {
					focus = opk
					if seeds < s+60 {
						seeds = s + 60 // give the focused search room even in the quick tier
					}
				}
				if !reportedSig["correspondence"] {
					reportedSig["correspondence"] = true
					p := writeReplay(fmt.Sprintf("%s-correspondence-%d.json", cfg.prop, seed), replayFile{Property: cfg.prop, Sig: "correspondence", Seed: seed, Ops: h.Ops,
						What:  "model and implementation disagree: " + d.String(),
						Trace: traceOf(h.Lines[:d.LineNo+1], 40),
						Note:  "correspondence Mmmbbb.step vs /repo no longer checks on this history (operation kind " + opk + ", " + kind + "); no monitor of this property fired on it"})
					st.Violate(Violation{What: "correspondence with the model broken on operation " + opk + " (" + kind + "): " + d.String(), Replay: p, FoundInput: false, Sig: "correspondence"})
				}
			}
		}
		if len(st.Violations) > 0 && hasConcrete(st.Violations) && s > seeds/3 {
			break
		}
	}
	if cfg.metamorphic && shard == 0 {
		runMetamorphic(t, st, cfg, base)
	}
	if cfg.extra != nil && !hasConcrete(st.Violations) && shard == 0 {
		cfg.extra(t, st)
	}
	st.Set("evaluations", nOps)
	st.Set("histories", nHist)
	st.Set("traces_validated_against_impl", nHist-disagreements)
	st.Set("rule", "random API-level histories (profile "+cfg.profile.Name+") over 4 topics and 4-9 subscriptions with random filter/ordering/retry/dead-letter/retention configuration; one evaluation = one executed operation, checked by the implementation-side monitors and compared (response, wake set, full dump of the five tables) with the Lean model; distinct = distinct seeds (each yields a different history)")
	st.Summary = fmt.Sprintf("histories=%d ops=%d disagreements=%d", nHist, nOps, disagreements)
}

// focusProfile boosts the operations that exercise, and make visible, the effect of operation kind k.
func focusProfile(p Profile, k string) Profile {
	p.Name += "+focus-" + k
	switch k {
	case "snapshot", "seek_snap", "delete_snap":
		p.Snap += 5
		p.Seek += 5
		p.Ack += 3
		p.NoSeek = false
	case "seek_time":
		p.Seek += 6
		p.Ack += 3
		p.NoSeek = false
	case "dl_sweep":
		p.Sweep += 5
		p.Ack += 3
		p.Advance += 3
		p.NoDL = false
	case "nack", "delay":
		p.Nack += 4
		p.Delay += 4
		p.Ack += 2
	case "publish", "msg":
		p.Publish += 3
		p.Seek += 3
		p.Ack += 3
		p.NoSeek = false
	case "expire_subs":
		p.Maint += 6
		p.BigAdvance = true
	}
	if strings.HasPrefix(k, "prune_") {
		p.Maint += 6
		p.BigAdvance = true
	}
	return p
}

func hasConcrete(vs []Violation) bool {
	known := map[string]bool{}
	for _, k := range strings.Split(os.Getenv("VERIF_KNOWN_SIGS"), ",") {
		known[k] = true
	}
	for _, v := range vs {
		if v.FoundInput && !known[v.Sig] {
			return true
		}
	}
	return false
}

func replayCore(t *testing.T, m *Model, path string) {
	b, err := os.ReadFile(path)
	if err != nil {
		t.Fatal(err)
	}
	var rf replayFile
	if err := json.Unmarshal(b, &rf); err != nil {
		t.Fatal(err)
	}
	h := RunHistory(t, rf.Seed, nil, rf.Ops, 0, false)
	outs, _ := m.Replay(h.Lines)
	for i, l := range h.Lines {
		if strings.HasPrefix(l, "dump") {
			if i < len(outs) && outs[i] != "ok" {
				fmt.Println("   model:", outs[i][:min(len(outs[i]), 300)])
			}
			continue
		}
		a := ""
		if i < len(outs) {
			a = outs[i]
		}
		fmt.Printf("%s\n   model: %s\n", l, a)
	}
	for _, f := range h.Findings {
		fmt.Printf("MONITOR %s/%s at op %d: %s\n", f.Prop, f.Sig, f.At, f.What)
	}
}

// runMetamorphic: the same client history with and without maintenance jobs spliced in must look
// the same to clients (C15).
func runMetamorphic(t *testing.T, st *Stats, cfg coreCfg, base int64) {
	pairs := 12
	if Tier() == "thorough" {
		pairs = 150
	}
	knownSeen := map[string]bool{}
	// the directed histories of the corpus that contain maintenance jobs, with and without them
	corpus, _ := filepath.Glob(filepath.Join(corpusDir(), "*.json"))
	for _, cf := range corpus {
		b, err := os.ReadFile(cf)
		if err != nil {
			continue
		}
		var rf replayFile
		if json.Unmarshal(b, &rf) != nil {
			continue
		}
		var stripped []Op
		for _, op := range rf.Ops {
			if !strings.HasPrefix(op.K, "prune_") {
				stripped = append(stripped, op)
			}
		}
		if len(stripped) == len(rf.Ops) {
			continue
		}
		with := RunHistory(t, rf.Seed, nil, rf.Ops, 0, false)
		without := RunHistory(t, rf.Seed, nil, stripped, 0, false)
		a, b2 := ClientTrace(with.Results, nOfPayload), ClientTrace(without.Results, nOfPayload)
		st.Count("metamorphic_corpus_pairs", 1)
		for i := 0; i < len(a) || i < len(b2); i++ {
			if i >= len(a) || i >= len(b2) || a[i] != b2[i] {
				x, y := "<end>", "<end>"
				if i < len(a) {
					x = a[i]
				}
				if i < len(b2) {
					y = b2[i]
				}
				sig := "prune-visible"
				for _, op := range rf.Ops {
					if op.K == "seek_time" || op.K == "seek_snap" {
						sig = "prune-visible-after-seek"
					}
				}
				if !knownSeen[sig] {
					st.Violate(Violation{What: fmt.Sprintf("[%s] corpus history %s: running the maintenance jobs changed what clients observe: step %d with jobs %q, without %q", sig, filepath.Base(cf), i, x, y), Replay: cf, FoundInput: true, Sig: sig})
				}
				if strings.Contains(","+os.Getenv("VERIF_KNOWN_SIGS")+",", ","+sig+",") {
					knownSeen[sig] = true
					break
				}
				return
			}
		}
	}
	for s := 0; s < pairs; s++ {
		seed := base*7001 + int64(s)
		p := cfg.profile
		p.NoSeek = s%3 != 0 // seeks over pruned rows are the documented exception; keep a third with seeks
		gen := NewGen(seed, p)
		with := RunHistory(t, seed, gen, nil, cfg.nops, true)
		var stripped []Op
		for _, op := range with.Ops {
			if strings.HasPrefix(op.K, "prune_") {
				continue
			}
			stripped = append(stripped, op)
		}
		without := RunHistory(t, seed, nil, stripped, 0, false)
		a := ClientTrace(with.Results, nOfPayload)
		b := ClientTrace(without.Results, nOfPayload)
		st.Count("metamorphic_pairs", 1)
		diff := -1
		for i := 0; i < len(a) || i < len(b); i++ {
			if i >= len(a) || i >= len(b) || a[i] != b[i] {
				diff = i
				break
			}
		}
		if diff >= 0 {
			sig := "prune-visible"
			hasSeek := false
			for _, op := range with.Ops {
				if op.K == "seek_time" || op.K == "seek_snap" {
					hasSeek = true
				}
			}
			if hasSeek {
				sig = "prune-visible-after-seek"
			}
			x, y := "<end>", "<end>"
			if diff < len(a) {
				x = a[diff]
			}
			if diff < len(b) {
				y = b[diff]
			}
			if knownSeen[sig] {
				continue // a listed finding, already recorded once: the remaining pairs are still explored
			}
			pth := writeReplay(fmt.Sprintf("C15-%s-%d.json", sig, seed), replayFile{Property: "C15", Sig: sig, Seed: seed, Ops: with.Ops,
				What: fmt.Sprintf("client-visible step %d differs: with maintenance %q / without %q", diff, x, y)})
			st.Violate(Violation{What: fmt.Sprintf("[%s] running the maintenance jobs changed what clients observe: step %d with jobs %q, without %q", sig, diff, x, y), Replay: pth, FoundInput: true, Sig: sig})
			if strings.Contains(","+os.Getenv("VERIF_KNOWN_SIGS")+",", ","+sig+",") {
				knownSeen[sig] = true
				continue
			}
			return
		}
	}
}

func TestCoreSmoke(t *testing.T) {
	m, err := StartModel()
	if err != nil {
		t.Fatal(err)
	}
	defer m.Close()
	seeds := envInt("SEEDS", 5)
	nops := envInt("NOPS", 40)
	base := envInt("VERIF_SEED", 1)
	for s := 0; s < seeds; s++ {
		seed := int64(base*100000 + s)
		gen := NewGen(seed, ProfileAll)
		h := RunHistory(t, seed, gen, nil, nops, true)
		for _, f := range h.Findings {
			if f.Sig == "overtake-seek-reopened-predecessor" {
				continue // known finding
			}
			t.Errorf("seed %d: monitor %s/%s at op %d: %s", seed, f.Prop, f.Sig, f.At, f.What)
		}
		d, err := m.Check(h.Lines)
		if err != nil {
			t.Fatal(err)
		}
		if d != nil {
			t.Errorf("seed %d (%d ops): %s", seed, len(h.Ops), d)
			if f := os.Getenv("TRACE_OUT"); f != "" {
				os.WriteFile(f, []byte(strings.Join(h.Lines, "\n")+"\n"), 0o644)
			}
			return
		}
		if t.Failed() {
			return
		}
	}
}

var (
	profC02 = Profile{Name: "C02", Update: 1, Publish: 5, Pull: 6, Ack: 4, Nack: 2, Delay: 2, Advance: 4, Seek: 3, Snap: 3, Maint: 2, Sweep: 1, Churn: 1}
	profC01 = Profile{Name: "C01", Update: 1, SetDelay: 1, Publish: 6, Pull: 6, Ack: 3, Nack: 2, Delay: 2, Advance: 4, Seek: 1, Snap: 1, Maint: 3, Sweep: 1, Churn: 1}
	profC03 = Profile{Name: "C03", Publish: 5, Pull: 7, Ack: 6, Nack: 4, Delay: 4, Advance: 4, Maint: 1, Sweep: 1, Seek: 2, Snap: 1}
	profC04 = Profile{Name: "C04", Update: 1, Publish: 4, Pull: 9, Ack: 1, Nack: 3, Delay: 4, Advance: 6, NoSeek: true, NoDL: true}
	profC05 = Profile{Name: "C05", Update: 1, Publish: 7, Pull: 7, Ack: 5, Nack: 2, Delay: 1, Advance: 4, Maint: 2, Sweep: 1, Seek: 1, Snap: 1, OrderedOnly: true}
	profC06 = Profile{Name: "C06", Update: 1, Publish: 5, Pull: 8, Ack: 1, Nack: 4, Delay: 2, Advance: 5, Sweep: 3, Churn: 1}
	profC13 = Profile{Name: "C13", Publish: 6, Pull: 5, Ack: 5, Nack: 1, Advance: 3, Seek: 4, Snap: 5, Maint: 1}
	profC14 = Profile{Name: "C14", Update: 1, SetDelay: 3, Publish: 5, Pull: 6, Ack: 2, Advance: 8, Seek: 1, Snap: 2, Maint: 4, BigAdvance: true}
	profC15 = Profile{Name: "C15", Update: 1, SetDelay: 1, List: 2, Publish: 5, Pull: 6, Ack: 4, Nack: 1, Advance: 5, Maint: 8, Sweep: 1, Churn: 2, Seek: 1, Snap: 1, BigAdvance: true}
)

// streamOffered: on the streaming path too a message keeps being offered until it is acknowledged —
// a deadline extension or a nack sent on the stream is not an acknowledgement
func streamOffered(t *testing.T, st *Stats) {
	// the push path is a consumer too: messages the endpoint refused keep being offered
	// (how many of the simultaneous answers the pusher finds queued when it looks is up to the scheduler:
	// several batch sizes, the larger ones leave it no room to see them one by one)
	for _, mix := range [][2]int{{6, 0}, {3, 3}, {14, 0}, {9, 5}, {6, 0}} {
		what := pushBatchOutcome(t, Seed(), mix[0], mix[1])
		st.Count("push_batch_cases", 1)
		if what != "" && !strings.HasPrefix(what, "setup:") {
			p := ReplayPath(fmt.Sprintf("C01-push-batch-%d.txt", Seed()))
			os.WriteFile(p, []byte(fmt.Sprintf("push subscription (min backoff 1 s); window opened by fast successes; then a batch held in flight and answered together: %d x 500, %d x slow 200\n%s\n", mix[0], mix[1], what)), 0o644)
			st.Violate(Violation{What: "[push-refused-not-offered-again] " + what, Replay: p, FoundInput: true, Sig: "push-refused-not-offered-again"})
			return
		}
		if strings.HasPrefix(what, "setup:") {
			st.Count("push_batch_setup_failed", 1)
		}
	}
	for _, grpc := range []bool{true, false} {
		for _, how := range []string{"extend", "nack"} {
			if how == "extend" && !grpc {
				// without AutomaticNack (the actions-level streamer as the push path uses it) the streamer itself
				// keeps renewing the lease of what it has sent while the stream is open: no redelivery is due
				continue
			}
			cs := c11Case{Name: fmt.Sprintf("offered-after-%s-grpc=%v", how, grpc), Grpc: grpc, Actions: []c11Action{{K: "fc", Msgs: 3, Byts: 10000}, {K: "publish", Pads: []int{0}},
				{K: how, Pick: []int{0}}, {K: "advance", D: 200 * Sec}}}
			r := c11Run(t, Seed(), cs, map[string]bool{"stall-head-of-line": true})
			st.Count("stream_offered_cases", 1)
			what := ""
			switch {
			case r.violation != "" && r.sig == "stall":
				what = r.violation
			case r.sentTotal < 2:
				what = fmt.Sprintf("a message sent on a StreamingPull stream and then only %s-ed on the stream (never acknowledged) was not offered again within 200 s; sends seen: %d, completed deliveries: %d", how, r.sentTotal, r.completed)
			}
			if what != "" {
				p := ReplayPath(fmt.Sprintf("C01-stream-%s-%d.json", cs.Name, Seed()))
				b, _ := json.MarshalIndent(c11Replay{Property: "C01", Sig: "stream-not-offered", Seed: Seed(), Case: cs, What: what}, "", " ")
				os.WriteFile(p, b, 0o644)
				st.Violate(Violation{What: "[stream-not-offered] " + what, Replay: p, FoundInput: true, Sig: "stream-not-offered"})
				return
			}
		}
	}
}

func TestC01(t *testing.T) {
	runCore(t, coreCfg{prop: "C01", extra: func(t *testing.T, st *Stats) {
		streamOffered(t, st)
		if !hasConcrete(st.Violations) {
			cfg := &SubCfg{Topic: "t", TTL: 24 * 3600 * Sec, MTTL: 3600 * Sec}
			reportedSuccessIsReal("C01", []Op{{K: "create_topic", Topic: "t"}, {K: "create_sub", Sub: "a", Cfg: cfg}, {K: "create_sub", Sub: "b", Cfg: cfg}},
				Op{K: "publish", Topic: "t", Msgs: []MsgSpec{{N: 0}, {N: 1}}}, "the messages are not stored / not enqueued on every subscription: an accepted message is lost")(t, st)
			if !hasConcrete(st.Violations) {
				// and through the gRPC handler (its error mapping lies between the storage failure and the answer)
				reportedSuccessIsReal("C01", []Op{{K: "create_topic", Topic: "t"}, {K: "create_sub", Sub: "a", Cfg: cfg}, {K: "create_sub", Sub: "b", Cfg: cfg}},
					Op{K: "publish", Topic: "t", Via: "handler", Msgs: []MsgSpec{{N: 0}, {N: 1}}}, "the messages are not stored / not enqueued on every subscription: an accepted message is lost")(t, st)
			}
		}
	}, profile: profC01, quickSeeds: 40, thoroughSeeds: 1600, nops: 100, drain: true})
}
func TestC02(t *testing.T) {
	runCore(t, coreCfg{prop: "C02", extra: waitingPullCurrentPolicy("C02"), profile: profC02, quickSeeds: 40, thoroughSeeds: 1600, nops: 100, drain: true})
}

// streamInitialAck: acknowledgements carried by the first request of a StreamingPull are final too
func streamInitialAck(t *testing.T, st *Stats) {
	var what string
	synctest.Test(t, func(t *testing.T) {
		w := NewWorld(t, Seed())
		defer w.Close()
		cfg := &SubCfg{Topic: "t", TTL: 24 * 3600 * Sec, MTTL: 3600 * Sec}
		w.Exec(Op{K: "create_topic", Topic: "t"})
		w.Exec(Op{K: "create_sub", Sub: "s", Cfg: cfg})
		w.Exec(Op{K: "publish", Topic: "t", Msgs: []MsgSpec{{N: 0}, {N: 1}}})
		time.Sleep(time.Millisecond)
		r := w.Exec(Op{K: "pull", Sub: "s", Max: 1})
		if len(r.Delivered) != 1 {
			t.Fatalf("setup pull delivered %d", len(r.Delivered))
		}
		acked := r.Delivered[0].ID
		w.Ctl.mu.Lock()
		w.Ctl.tick = 0
		w.Ctl.mu.Unlock()
		conn := &scriptConn{closed: make(chan struct{}), out: map[uuid.UUID]int{}, limit: actions.FlowControl{MaxMessages: 10, MaxBytes: 1 << 20}, ctl: w.Ctl,
			greqs: make(chan *pubsubpb.StreamingPullRequest)}
		ctx, cancel := context.WithCancel(context.Background())
		fin := make(chan error, 1)
		go func() { fin <- w.Api().Sub.StreamingPull(&grpcStream{c: conn, ctx: ctx}) }()
		conn.greqs <- &pubsubpb.StreamingPullRequest{Subscription: SubName("s"), StreamAckDeadlineSeconds: 10, MaxOutstandingMessages: 10, MaxOutstandingBytes: 1 << 20,
			AckIds: []string{acked.String()}}
		synctest.Wait()
		// let every lease lapse: an acknowledged message must not come back
		time.Sleep(15 * time.Minute)
		synctest.Wait()
		conn.mu.Lock()
		for _, sm := range conn.sent {
			if sm.id == acked {
				what = fmt.Sprintf("delivery %s, acknowledged in the initial request of the StreamingPull, was sent again on the stream", acked)
			}
		}
		conn.mu.Unlock()
		if d, err := w.Client.Delivery.Get(qctx, acked); err == nil && d.CompletedAt == nil && what == "" {
			what = fmt.Sprintf("delivery %s, acknowledged in the initial request of the StreamingPull, is still outstanding", acked)
		}
		cancel()
		synctest.Wait()
	})
	st.Count("stream_initial_ack_cases", 1)
	if what != "" {
		p := writeReplay(fmt.Sprintf("C03-stream-initial-ack-%d.json", Seed()), replayFile{Property: "C03", Sig: "stream-initial-ack", Seed: Seed(), What: what,
			Note: "publish 2; Pull 1; StreamingPull whose initial request carries ack_ids=[that id]; wait 15 min"})
		st.Violate(Violation{What: "[stream-initial-ack] " + what, Replay: p, FoundInput: true, Sig: "stream-initial-ack"})
	}
}

func TestC03(t *testing.T) {
	runCore(t, coreCfg{prop: "C03", extra: func(t *testing.T, st *Stats) {
		streamInitialAck(t, st)
		if !hasConcrete(st.Violations) {
			cfg := &SubCfg{Topic: "t", TTL: 24 * 3600 * Sec, MTTL: 3600 * Sec}
			reportedSuccessIsReal("C03", []Op{{K: "create_topic", Topic: "t"}, {K: "create_sub", Sub: "a", Cfg: cfg}, {K: "publish", Topic: "t", Msgs: []MsgSpec{{N: 0}, {N: 1}}},
				{K: "advance", D: int64(time.Millisecond)}, {K: "pull", Sub: "a", Max: 5}},
				Op{K: "ack", Refs: []Ref{{N: 0, Sub: "a"}, {N: 1, Sub: "a"}}}, "the deliveries are not completed: the acknowledged messages will be delivered again")(t, st)
			if !hasConcrete(st.Violations) {
				reportedSuccessIsReal("C03", []Op{{K: "create_topic", Topic: "t"}, {K: "create_sub", Sub: "a", Cfg: cfg}, {K: "publish", Topic: "t", Msgs: []MsgSpec{{N: 0}, {N: 1}}},
					{K: "advance", D: int64(time.Millisecond)}, {K: "pull", Sub: "a", Max: 5}},
					Op{K: "ack", Via: "handler", Refs: []Ref{{N: 0, Sub: "a"}, {N: 1, Sub: "a"}}}, "the deliveries are not completed: the acknowledged messages will be delivered again")(t, st)
			}
			if !hasConcrete(st.Violations) {
				streamAckNotLost(t, st)
			}
		}
	}, profile: profC03, quickSeeds: 40, thoroughSeeds: 1600, nops: 100})
}

// streamLease: the lease on the streaming path — a message sent on a stream is not handed out again
// while it is outstanding, whatever positive deadline extensions the client sends (actions streamer
// and gRPC StreamingPull handler)
func streamLease(t *testing.T, st *Stats) {
	pullExclusive(t, st)
	if hasConcrete(st.Violations) {
		return
	}
	cases := []c11Case{
		{Name: "lease-grpc-extend", Grpc: true, Actions: []c11Action{{K: "fc", Msgs: 3, Byts: 10000}, {K: "publish", Pads: []int{0, 0}}, {K: "extend", Pick: []int{0}}, {K: "extend", Pick: []int{0, 1}}, {K: "publish", Pads: []int{0}}, {K: "extend", Pick: []int{2}}, {K: "ack", Pick: []int{0}}}},
		{Name: "lease-streamer-extend", Actions: []c11Action{{K: "fc", Msgs: 3, Byts: 10000}, {K: "publish", Pads: []int{0, 0}}, {K: "extend", Pick: []int{1}}, {K: "extend", Pick: []int{0, 1}}, {K: "ack", Pick: []int{0}}}},
	}
	// a message sent on a gRPC stream and never acknowledged is sent again after its lease lapsed
	{
		cs := c11Case{Name: "lease-grpc-redelivery", Grpc: true, Actions: []c11Action{{K: "fc", Msgs: 3, Byts: 10000}, {K: "publish", Pads: []int{0}}, {K: "advance", D: 40 * Sec}}}
		r := c11Run(t, Seed(), cs, map[string]bool{"stall-head-of-line": true})
		st.Count("stream_lease_cases", 1)
		if r.violation == "" && r.sentTotal < 2 {
			p := ReplayPath(fmt.Sprintf("C04-stream-%s-%d.json", cs.Name, Seed()))
			what := fmt.Sprintf("a message sent on a StreamingPull stream and not acknowledged was not sent again within 40 s (default retry policy: its lease ends after about 11 s); sends seen: %d", r.sentTotal)
			b, _ := json.MarshalIndent(c11Replay{Property: "C04", Sig: "stream-not-redelivered", Seed: Seed(), Case: cs, What: what}, "", " ")
			os.WriteFile(p, b, 0o644)
			st.Violate(Violation{What: "[stream-not-redelivered] " + what, Replay: p, FoundInput: true, Sig: "stream-not-redelivered"})
			return
		}
	}
	// one stream request with an acknowledgement and a zero deadline for another message: the zero deadline
	// takes effect (the message comes again at once), on both paths
	for _, grpc := range []bool{true, false} {
		cs := c11Case{Name: fmt.Sprintf("lease-ack-and-zero-deadline-grpc=%v", grpc), Grpc: grpc, Actions: []c11Action{{K: "fc", Msgs: 3, Byts: 10000}, {K: "publish", Pads: []int{0, 0}}, {K: "ackdelay0", Pick: []int{0, 1}}}}
		r := c11Run(t, Seed(), cs, map[string]bool{"stall-head-of-line": true})
		st.Count("stream_lease_cases", 1)
		if r.sig == "stall" || r.sig == "bound" || r.sentTotal < 3 {
			p := ReplayPath(fmt.Sprintf("C04-stream-%s-%d.json", cs.Name, Seed()))
			what := fmt.Sprintf("a StreamingPull request carried ack_ids=[A] and modify_deadline_ack_ids=[B] with 0 seconds: B was not handed out again at once (%d sends in all, expected A, B, B) %s", r.sentTotal, r.violation)
			b, _ := json.MarshalIndent(c11Replay{Property: "C04", Sig: "stream-zero-deadline-ignored", Seed: Seed(), Case: cs, What: what}, "", " ")
			os.WriteFile(p, b, 0o644)
			st.Violate(Violation{What: "[stream-zero-deadline-ignored] " + what, Replay: p, FoundInput: true, Sig: "stream-zero-deadline-ignored"})
			return
		}
	}
	// a deadline extension followed by a zero deadline for the same message on one stream: the zero deadline
	// is what counts (each request of a stream is taken for itself)
	{
		cs := c11Case{Name: "lease-extend-then-zero-deadline-grpc", Grpc: true, Actions: []c11Action{{K: "fc", Msgs: 3, Byts: 10000}, {K: "publish", Pads: []int{0}}, {K: "extend", Pick: []int{0}}, {K: "delay0", Pick: []int{0}}, {K: "advance", D: 2 * Sec}}}
		r := c11Run(t, Seed(), cs, map[string]bool{"stall-head-of-line": true})
		st.Count("stream_lease_cases", 1)
		if r.sentTotal < 2 {
			p := ReplayPath(fmt.Sprintf("C04-stream-%s-%d.json", cs.Name, Seed()))
			what := fmt.Sprintf("on one StreamingPull stream the client first extends the deadline of message m, then sends a zero deadline for it: 2 s later m has been sent %d time(s) in all (expected again at once) %s", r.sentTotal, r.violation)
			b, _ := json.MarshalIndent(c11Replay{Property: "C04", Sig: "stream-zero-deadline-ignored", Seed: Seed(), Case: cs, What: what}, "", " ")
			os.WriteFile(p, b, 0o644)
			st.Violate(Violation{What: "[stream-zero-deadline-ignored] " + what, Replay: p, FoundInput: true, Sig: "stream-zero-deadline-ignored"})
			return
		}
	}
	waitingPullDeadline(t, st)
	if hasConcrete(st.Violations) {
		return
	}
	for _, cs := range cases {
		r := c11Run(t, Seed(), cs, map[string]bool{"stall-head-of-line": true})
		st.Count("stream_lease_cases", 1)
		if r.sig == "redelivered-while-leased" || r.sig == "bound" {
			p := ReplayPath(fmt.Sprintf("C04-stream-%s-%d.json", cs.Name, Seed()))
			b, _ := json.MarshalIndent(c11Replay{Property: "C04", Sig: "stream-" + r.sig, Seed: Seed(), Case: cs, What: r.violation}, "", " ")
			os.WriteFile(p, b, 0o644)
			st.Violate(Violation{What: fmt.Sprintf("[stream-%s] case %s: %s", r.sig, cs.Name, r.violation), Replay: p, FoundInput: true, Sig: "stream-" + r.sig})
			return
		}
	}
}

func TestC04(t *testing.T) {
	runCore(t, coreCfg{prop: "C04", extra: func(t *testing.T, st *Stats) {
		streamLease(t, st)
		if !hasConcrete(st.Violations) {
			backoffSweep("C04")(t, st)
		}
		if !hasConcrete(st.Violations) {
			pushRefusedRedelivered("C04")(t, st)
		}
		if !hasConcrete(st.Violations) {
			pushOutcomeRoutingFor("C04")(t, st)
		}
	}, profile: profC04, quickSeeds: 40, thoroughSeeds: 1600, nops: 100})
}

// orderedStream: ordering on the streaming path — a deadline extension sent on the stream for the first
// message of a key is not an acknowledgement: the second message of the key stays behind it
func orderedStream(t *testing.T, st *Stats) {
	for _, grpc := range []bool{true, false} {
		cs := c11Case{Name: fmt.Sprintf("ordered-extend-grpc=%v", grpc), Ordered: true, Grpc: grpc, Actions: []c11Action{{K: "fc", Msgs: 3, Byts: 10000}, {K: "publish", Pads: []int{0, 0}},
			{K: "extend", Pick: []int{0}}, {K: "advance", D: 5 * Sec}}}
		r := c11Run(t, Seed(), cs, map[string]bool{"stall-head-of-line": true})
		st.Count("ordered_stream_cases", 1)
		if r.sentTotal > 1 || r.completed > 0 {
			p := ReplayPath(fmt.Sprintf("C05-stream-%s-%d.json", cs.Name, Seed()))
			what := fmt.Sprintf("ordered subscription, two messages of one key on a StreamingPull stream; after a deadline extension for the first (no acknowledgement) %d messages have been sent and %d deliveries are completed: the second message was delivered while the first is outstanding", r.sentTotal, r.completed)
			b, _ := json.MarshalIndent(c11Replay{Property: "C05", Sig: "stream-overtake", Seed: Seed(), Case: cs, What: what}, "", " ")
			os.WriteFile(p, b, 0o644)
			st.Violate(Violation{What: "[stream-overtake] " + what, Replay: p, FoundInput: true, Sig: "stream-overtake"})
			return
		}
	}
}

// fragmentHistories: histories made only of operations of the fragment on which C05 is proved outright
// (`C05_fragment`: no dead-letter policies, no seeks, no configuration updates; publishes, pulls, acks,
// nacks, deadline changes, subscription and topic churn, snapshots, expiry and the delivery prune jobs):
// the theorem says no overtaking can happen in them; the real code is run on them, the ordering monitor
// and the model are applied, and the model's driver confirms that every step was inside the fragment.
func fragmentHistories(t *testing.T, st *Stats) {
	m, err := StartModel()
	if err != nil {
		t.Fatal(err)
	}
	defer m.Close()
	n := 12
	if Tier() == "thorough" {
		n = 300
	}
	prof := Profile{Name: "C05-fragment", Publish: 7, Pull: 7, Ack: 5, Nack: 3, Delay: 2, Advance: 4, Maint: 2, Snap: 1, Churn: 1, NoSeek: true, NoDL: true, OrderedOnly: true, Frag: true}
	for k := 0; k < n; k++ {
		seed := Seed()*7919 + int64(k)
		h := RunHistory(t, seed, NewGen(seed, prof), nil, 90, true)
		st.Count("fragment_histories", 1)
		for _, f := range h.Findings {
			if f.Prop == "C05" {
				p := writeReplay(fmt.Sprintf("C05-fragment-%s-%d.json", f.Sig, seed), replayFile{Property: "C05", Sig: "fragment-" + f.Sig, What: f.What, Seed: seed, Ops: h.Ops, Trace: traceOf(h.Lines, 60)})
				st.Violate(Violation{What: fmt.Sprintf("[fragment-%s] in a history of the fragment on which the property is proved outright: %s", f.Sig, f.What), Replay: p, FoundInput: true, Sig: "fragment-" + f.Sig})
				return
			}
		}
		d, err := m.Check(h.Lines)
		if err != nil {
			t.Fatal(err)
		}
		if d != nil {
			p := writeReplay(fmt.Sprintf("C05-fragment-correspondence-%d.json", seed), replayFile{Property: "C05", Sig: "correspondence", What: d.String(), Seed: seed, Ops: h.Ops, Trace: traceOf(h.Lines, 60)})
			st.Violate(Violation{What: "correspondence with the model broken on a history of the fragment: " + d.String(), Replay: p, FoundInput: false, Sig: "correspondence"})
			return
		}
		_, _, _, fin, fout := m.OrdFragStats()
		st.Count("fragment_profile_steps_inside", fin)
		st.Count("fragment_profile_steps_outside", fout)
		if fout == 0 && fin > 0 {
			st.Count("fragment_histories_entirely_inside", 1)
		}
	}
}

func TestC05(t *testing.T) {
	runCore(t, coreCfg{prop: "C05", extra: func(t *testing.T, st *Stats) {
		orderedStream(t, st)
		if !hasConcrete(st.Violations) {
			orderedPush(t, st)
		}
		if !hasConcrete(st.Violations) {
			fragmentHistories(t, st)
		}
	}, profile: profC05, quickSeeds: 40, thoroughSeeds: 1600, nops: 100, drain: true})
}
func TestC06(t *testing.T) {
	runCore(t, coreCfg{prop: "C06", extra: func(t *testing.T, st *Stats) {
		waitingPullCurrentPolicy("C06")(t, st)
		if !hasConcrete(st.Violations) {
			deadLetterServiceLoop(t, st)
		}
		if !hasConcrete(st.Violations) {
			streamInitialRequestAcks(t, st)
		}
		if !hasConcrete(st.Violations) {
			pushRejectedForwarded(t, st)
		}
		if !hasConcrete(st.Violations) {
			pushOutcomeRoutingFor("C06")(t, st)
		}
	}, profile: profC06, quickSeeds: 40, thoroughSeeds: 1600, nops: 100, drain: true})
}
func TestC13(t *testing.T) {
	runCore(t, coreCfg{extra: seekAfterDefaultMaintenance, prop: "C13", profile: profC13, quickSeeds: 40, thoroughSeeds: 1600, nops: 100})
}
func TestC14(t *testing.T) {
	runCore(t, coreCfg{extra: func(t *testing.T, st *Stats) {
		waitingEmptyPullRestartsExpiry(t, st)
		if !hasConcrete(st.Violations) {
			expiryServiceLoop(t, st)
		}
	}, prop: "C14", profile: profC14, quickSeeds: 40, thoroughSeeds: 1600, nops: 100})
}

// recreatedStream: a dead row that no job has pruned yet is invisible too — a StreamingPull on a
// subscription that was deleted and created again under the same name works before the prune as after it
func recreatedStream(t *testing.T, st *Stats) {
	for _, grpc := range []bool{true, false} {
		cs := c11Case{Name: fmt.Sprintf("recreated-subscription-grpc=%v", grpc), Grpc: grpc, Recreate: true, Actions: []c11Action{{K: "fc", Msgs: 3, Byts: 10000}, {K: "publish", Pads: []int{0}}}}
		r := c11Run(t, Seed(), cs, map[string]bool{"stall-head-of-line": true})
		st.Count("recreated_stream_cases", 1)
		if r.sentTotal < 1 {
			p := ReplayPath(fmt.Sprintf("C15-stream-%s-%d.json", cs.Name, Seed()))
			what := fmt.Sprintf("subscription s deleted and created again (the deleted row not pruned yet); a StreamingPull on s sent %d of 1 published messages (stream ended with: %q; %s) — with the dead row pruned it works", r.sentTotal, r.streamErr, r.violation)
			b, _ := json.MarshalIndent(c11Replay{Property: "C15", Sig: "unpruned-row-visible", Seed: Seed(), Case: cs, What: what}, "", " ")
			os.WriteFile(p, b, 0o644)
			st.Violate(Violation{What: "[unpruned-row-visible] " + what, Replay: p, FoundInput: true, Sig: "unpruned-row-visible"})
			return
		}
	}
}

func TestC15(t *testing.T) {
	runCore(t, coreCfg{extra: func(t *testing.T, st *Stats) {
		recreatedStream(t, st)
		if !hasConcrete(st.Violations) {
			pruneServiceLoop(t, st)
		}
		if !hasConcrete(st.Violations) {
			streamPruneInvisible(t, st)
		}
	}, prop: "C15", profile: profC15, quickSeeds: 25, thoroughSeeds: 1000, nops: 100, metamorphic: true})
}

// TestShrink: developer helper — run one seed of ProfileAll, shrink the first finding, print the replay.
func TestShrink(t *testing.T) {
	seed := int64(envInt("SEED", 0))
	if seed == 0 {
		t.Skip()
	}
	gen := NewGen(seed, ProfileAll)
	h := RunHistory(t, seed, gen, nil, envInt("NOPS", 100), true)
	if len(h.Findings) == 0 {
		t.Log("no finding")
		return
	}
	f := h.Findings[0]
	small := shrink(t, seed, h.Ops, f.Prop, f.Sig)
	hs := RunHistory(t, seed, nil, small, 0, false)
	for _, op := range small {
		fmt.Println(op.String())
	}
	for _, g := range hs.Findings {
		fmt.Printf("FINDING %s/%s at %d: %s\n", g.Prop, g.Sig, g.At, g.What)
	}
	p := writeReplay("dev-shrink.json", replayFile{Property: f.Prop, Sig: f.Sig, Seed: seed, Ops: small, What: f.What})
	fmt.Println("replay:", p)
}

func corpusDir() string {
	if d := os.Getenv("VERIF_CORPUS"); d != "" {
		return d
	}
	return "/verif/corpus"
}
