package harness

import (
	"fmt"
	"math/big"
	"sort"
	"strings"
	"time"

	"github.com/google/uuid"
)

// Epoch is where testing/synctest's fake clock starts.
var Epoch = time.Date(2000, 1, 1, 0, 0, 0, 0, time.UTC)

func ns(t time.Time) int64 { return t.Sub(Epoch).Nanoseconds() }

func nsOpt(t *time.Time) string {
	if t == nil {
		return "-"
	}
	return fmt.Sprint(ns(*t))
}

// Enc percent-encodes every byte outside [A-Za-z0-9_./-].
func Enc(s string) string {
	var sb strings.Builder
	for i := 0; i < len(s); i++ {
		b := s[i]
		if b < 128 && (b >= 'a' && b <= 'z' || b >= 'A' && b <= 'Z' || b >= '0' && b <= '9' || b == '_' || b == '.' || b == '/' || b == '-') {
			sb.WriteByte(b)
		} else {
			fmt.Fprintf(&sb, "%%%02X", b)
		}
	}
	return sb.String()
}

func Dec(s string) (string, error) {
	var out []byte
	for i := 0; i < len(s); i++ {
		if s[i] == '%' {
			if i+2 >= len(s) {
				return "", fmt.Errorf("bad escape")
			}
			var b byte
			if _, err := fmt.Sscanf(s[i+1:i+3], "%02X", &b); err != nil {
				return "", err
			}
			out = append(out, b)
			i += 2
		} else {
			out = append(out, s[i])
		}
	}
	return string(out), nil
}

func EncOpt(s *string) string {
	if s == nil {
		return "-"
	}
	return Enc(*s)
}

// IdStr renders a UUID as the decimal value of its 128 bits.
func IdStr(u uuid.UUID) string {
	return new(big.Int).SetBytes(u[:]).String()
}

func IdOpt(u *uuid.UUID) string {
	if u == nil || *u == uuid.Nil {
		return "-"
	}
	return IdStr(*u)
}

func IdFromStr(s string) (uuid.UUID, error) {
	b, ok := new(big.Int).SetString(s, 10)
	if !ok {
		return uuid.Nil, fmt.Errorf("bad id %q", s)
	}
	var u uuid.UUID
	bs := b.Bytes()
	copy(u[16-len(bs):], bs)
	return u, nil
}

func idLess(a, b uuid.UUID) bool {
	for i := 0; i < 16; i++ {
		if a[i] != b[i] {
			return a[i] < b[i]
		}
	}
	return false
}

func sortIDs(ids []uuid.UUID) []uuid.UUID {
	out := append([]uuid.UUID(nil), ids...)
	sort.Slice(out, func(i, j int) bool { return idLess(out[i], out[j]) })
	return out
}

func IdList(ids []uuid.UUID) string {
	ss := make([]string, len(ids))
	for i, u := range ids {
		ss[i] = IdStr(u)
	}
	return strings.Join(ss, ",")
}

func MapStr(m map[string]string) string {
	keys := make([]string, 0, len(m))
	for k := range m {
		keys = append(keys, k)
	}
	sort.Strings(keys)
	ss := make([]string, len(keys))
	for i, k := range keys {
		ss[i] = Enc(k) + ":" + Enc(m[k])
	}
	return strings.Join(ss, ",")
}
