package harness

// API-level operations: the real gRPC handlers called in-process (verif export), mirrored by the
// `rpc` lines of the Lean driver (Mmmbbb.Api.handle).

import (
	"math/big"
	"context"
	"fmt"
	"sort"
	"strings"
	"time"

	"github.com/google/uuid"
	"google.golang.org/grpc/codes"
	"google.golang.org/grpc/status"
	"google.golang.org/protobuf/types/known/durationpb"
	"google.golang.org/protobuf/types/known/fieldmaskpb"
	"google.golang.org/protobuf/types/known/timestamppb"

	"go.6river.tech/mmmbbb/actions"
	"go.6river.tech/mmmbbb/ent/subscription"
	"go.6river.tech/mmmbbb/ent/topic"
	"go.6river.tech/mmmbbb/grpc/pubsubpb"
	"go.6river.tech/mmmbbb/services"
)

type PushCfg struct {
	Endpoint  string            `json:"endpoint"`
	Attrs     map[string]string `json:"attrs,omitempty"`
	Auth      bool              `json:"auth,omitempty"`
	Unwrapped bool              `json:"unwrapped,omitempty"`
}

type SubReq struct {
	Name       string            `json:"name"`
	Topic      string            `json:"topic"`
	Push       *PushCfg          `json:"push,omitempty"`
	Retention  *int64            `json:"retention,omitempty"` // ns; nil = absent
	Labels     map[string]string `json:"labels,omitempty"`
	Ordering   bool              `json:"ordering,omitempty"`
	Expiration *int64            `json:"expiration,omitempty"` // ttl ns; nil = policy absent
	Filter     string            `json:"filter,omitempty"`
	DLTopic    *string           `json:"dltopic,omitempty"` // nil = policy absent
	DLMax      int32             `json:"dlmax,omitempty"`
	RetryMin   *int64            `json:"retrymin,omitempty"`
	RetryMax   *int64            `json:"retrymax,omitempty"`
	HasRetry   bool              `json:"hasretry,omitempty"`
	Detached   bool              `json:"detached,omitempty"`
}

// Rpc is one API request (JSON-serialisable for replays).
type Rpc struct {
	Kind     string            `json:"kind"`
	Name     string            `json:"name,omitempty"`
	Name2    string            `json:"name2,omitempty"`
	Labels   map[string]string `json:"labels,omitempty"`
	Advanced bool              `json:"advanced,omitempty"`
	Bad      bool              `json:"bad,omitempty"` // publishCheck: batch [valid message, payload that is not JSON]
	Has      bool              `json:"has,omitempty"`
	Paths    []string          `json:"paths,omitempty"`
	Project  string            `json:"project,omitempty"`
	Size     int32             `json:"size,omitempty"`
	Token    string            `json:"token,omitempty"`
	Sub      *SubReq           `json:"sub,omitempty"`
	Push     *PushCfg          `json:"push,omitempty"`
	Max      int32             `json:"max,omitempty"`
	AckIDs   []string          `json:"ackids,omitempty"`
	Seconds  int32             `json:"seconds,omitempty"`
	Target   string            `json:"target,omitempty"` // none | zero | time:<ns> | snap:<name>
	Adv      time.Duration     `json:"adv,omitempty"`    // kind=advance
	Op       *Op               `json:"op,omitempty"`     // kind=op: a data-plane operation (World.Exec)
}

type RpcResult struct {
	Rpc                   Rpc
	Status                string
	Body                  string
	Err                   error
	Panic                 string
	Wakes                 []uuid.UUID
	DumpBefore, DumpAfter string
}

type ApiWorld struct {
	*World
	Pub pubsubpb.PublisherServer
	Sub pubsubpb.SubscriberServer
}

func NewApiWorld(w *World) *ApiWorld {
	return &ApiWorld{World: w, Pub: services.NewPublisherServerForVerif(w.Client), Sub: services.NewSubscriberServerForVerif(w.Client)}
}

func durPB(ns *int64) *durationpb.Duration {
	if ns == nil {
		return nil
	}
	return durationpb.New(time.Duration(*ns))
}

func (r *SubReq) proto() *pubsubpb.Subscription {
	s := &pubsubpb.Subscription{Name: r.Name, Topic: r.Topic, Labels: r.Labels, EnableMessageOrdering: r.Ordering, Filter: r.Filter, Detached: r.Detached}
	if r.Push != nil {
		s.PushConfig = pushPB(r.Push)
	}
	s.MessageRetentionDuration = durPB(r.Retention)
	if r.Expiration != nil {
		s.ExpirationPolicy = &pubsubpb.ExpirationPolicy{Ttl: durPB(r.Expiration)}
	}
	if r.DLTopic != nil {
		s.DeadLetterPolicy = &pubsubpb.DeadLetterPolicy{DeadLetterTopic: *r.DLTopic, MaxDeliveryAttempts: r.DLMax}
	}
	if r.HasRetry {
		s.RetryPolicy = &pubsubpb.RetryPolicy{MinimumBackoff: durPB(r.RetryMin), MaximumBackoff: durPB(r.RetryMax)}
	}
	return s
}

func pushPB(p *PushCfg) *pubsubpb.PushConfig {
	if p == nil {
		return nil
	}
	c := &pubsubpb.PushConfig{PushEndpoint: p.Endpoint, Attributes: p.Attrs}
	if p.Auth {
		c.AuthenticationMethod = &pubsubpb.PushConfig_OidcToken_{OidcToken: &pubsubpb.PushConfig_OidcToken{ServiceAccountEmail: "x@y"}}
	}
	if p.Unwrapped {
		c.Wrapper = &pubsubpb.PushConfig_NoWrapper_{NoWrapper: &pubsubpb.PushConfig_NoWrapper{}}
	}
	return c
}

func pushField(p *PushCfg) string {
	if p == nil {
		return "-"
	}
	return Enc(p.Endpoint) + "~" + MapStr(p.Attrs) + "~" + boolStr(p.Auth) + "~" + boolStr(p.Unwrapped)
}

func i64(p *int64) int64 {
	if p == nil {
		return 0
	}
	return *p
}
func optI64(p *int64) string {
	if p == nil {
		return "-"
	}
	return fmt.Sprint(*p)
}

func (r *SubReq) fields() string {
	dl := "-"
	if r.DLTopic != nil {
		dl = Enc(*r.DLTopic) + "~" + fmt.Sprint(r.DLMax)
	}
	retry := "-"
	if r.HasRetry {
		retry = optI64(r.RetryMin) + "~" + optI64(r.RetryMax)
	}
	return fmt.Sprintf("name=%s topic=%s push=%s retention=%d labels=%s ordering=%s expiration=%d filter=%s dl=%s retry=%s detached=%s",
		Enc(r.Name), Enc(r.Topic), pushField(r.Push), i64(r.Retention), MapStr(r.Labels), boolStr(r.Ordering), i64(r.Expiration), Enc(r.Filter), dl, retry, boolStr(r.Detached))
}

func showTopicPB(t *pubsubpb.Topic) string {
	return fmt.Sprintf("name=%s,labels=%s", Enc(t.Name), MapStr(t.Labels))
}

func showSubPB(s *pubsubpb.Subscription) string {
	push := "-"
	if s.PushConfig != nil {
		push = Enc(s.PushConfig.PushEndpoint)
	}
	filter := "-"
	if s.Filter != "" {
		filter = Enc(s.Filter)
	}
	dl := "-"
	if s.DeadLetterPolicy != nil {
		n := "-"
		if s.DeadLetterPolicy.MaxDeliveryAttempts != 0 {
			n = fmt.Sprint(s.DeadLetterPolicy.MaxDeliveryAttempts)
		}
		dl = Enc(s.DeadLetterPolicy.DeadLetterTopic) + "#" + n
	}
	retry := "-"
	if s.RetryPolicy != nil {
		a, b := "-", "-"
		if s.RetryPolicy.MinimumBackoff != nil {
			a = fmt.Sprint(s.RetryPolicy.MinimumBackoff.AsDuration().Nanoseconds())
		}
		if s.RetryPolicy.MaximumBackoff != nil {
			b = fmt.Sprint(s.RetryPolicy.MaximumBackoff.AsDuration().Nanoseconds())
		}
		retry = a + "#" + b
	}
	return fmt.Sprintf("name=%s,topic=%s,ackdl=%d,retention=%d,labels=%s,ordering=%s,ttl=%d,push=%s,filter=%s,dl=%s,retry=%s",
		Enc(s.Name), Enc(s.Topic), s.AckDeadlineSeconds, s.MessageRetentionDuration.AsDuration().Nanoseconds(), MapStr(s.Labels), boolStr(s.EnableMessageOrdering),
		s.ExpirationPolicy.GetTtl().AsDuration().Nanoseconds(), push, filter, dl, retry)
}

func showSnapPB(s *pubsubpb.Snapshot) string {
	return fmt.Sprintf("name=%s,topic=%s,expires=%d,labels=%s", Enc(s.Name), Enc(s.Topic), ns(s.ExpireTime.AsTime()), MapStr(s.Labels))
}

func tokenField(tok string) (field string) {
	if tok == "" {
		return "-"
	}
	if u, err := uuid.Parse(tok); err == nil {
		return IdStr(u)
	}
	return "!"
}

func nextField(tok string) string {
	if tok == "" {
		return "-"
	}
	if u, err := uuid.Parse(tok); err == nil {
		return IdStr(u)
	}
	return "?" + tok
}

// ExecRpc calls the real handler, records the protocol line (and the dump after it).
func (w *ApiWorld) ExecRpc(r Rpc) *RpcResult {
	res := &RpcResult{Rpc: r}
	t := w.Now()
	if r.Kind == "advance" {
		time.Sleep(r.Adv)
		w.Lines = append(w.Lines, fmt.Sprintf("advance t=%d d=%d exp=ok wk=", t, int64(r.Adv)))
		res.Status = "OK"
		return res
	}
	if w.lastDels == nil {
		w.Dump()
	}
	res.DumpBefore = w.lastDump
	if r.Kind == "pullCheck" && r.Max >= 1 {
		// a pull that passes validation and finds its subscription changes state (expiry refresh):
		// it is a data-plane operation of the model, sent through the same handler
		if n, _ := w.Client.Subscription.Query().Where(subscription.Name(r.Name), subscription.DeletedAtIsNil()).Count(context.Background()); n > 0 {
			r = Rpc{Kind: "op", Op: &Op{K: "pull", Sub: r.Name, Max: int(r.Max), Via: "handler"}}
			res.Rpc = r
		}
	}
	if r.Kind == "op" {
		var or *Result
		func() {
			defer func() {
				if p := recover(); p != nil {
					res.Panic = fmt.Sprint(p)
				}
			}()
			or = w.World.Exec(*r.Op)
		}()
		if or == nil {
			// the handler panicked: the production interceptor chain has no recovery
			res.Status = "PANIC"
			res.DumpAfter = res.DumpBefore
			return res
		}
		res.Status = "OK"
		if strings.HasPrefix(or.Resp, "E:") {
			res.Status = strings.TrimPrefix(or.Resp, "E:")
		}
		res.Err = or.Err
		res.DumpAfter = w.lastDump
		return res
	}
	watched := append([]uuid.UUID(nil), w.SubIDs...)
	aw := make([]actions.PublishNotifier, len(watched))
	for i, id := range watched {
		aw[i] = actions.PublishAwaiter(id)
	}
	ctx := context.Background()
	var fields, body string
	var err error
	newID := uuid.Nil
	func() {
		defer func() {
			if p := recover(); p != nil {
				res.Panic = fmt.Sprint(p)
			}
		}()
		switch r.Kind {
		case "createTopic":
			req := &pubsubpb.Topic{Name: r.Name, Labels: r.Labels}
			if r.Advanced {
				req.KmsKeyName = "k"
			}
			var resp *pubsubpb.Topic
			resp, err = w.Pub.CreateTopic(ctx, req)
			if err == nil {
				body = showTopicPB(resp)
				if tp, e := w.Client.Topic.Query().Where(topic.Name(r.Name), topic.DeletedAtIsNil()).Only(ctx); e == nil {
					newID = tp.ID
				}
			}
			fields = fmt.Sprintf("name=%s labels=%s adv=%s", Enc(r.Name), MapStr(r.Labels), boolStr(r.Advanced))
		case "getTopic":
			var resp *pubsubpb.Topic
			resp, err = w.Pub.GetTopic(ctx, &pubsubpb.GetTopicRequest{Topic: r.Name})
			if err == nil {
				body = showTopicPB(resp)
			}
			fields = "name=" + Enc(r.Name)
		case "updateTopic":
			req := &pubsubpb.UpdateTopicRequest{UpdateMask: &fieldmaskpb.FieldMask{Paths: r.Paths}}
			if r.Has {
				req.Topic = &pubsubpb.Topic{Name: r.Name, Labels: r.Labels}
			}
			var resp *pubsubpb.Topic
			resp, err = w.Pub.UpdateTopic(ctx, req)
			if err == nil && resp != nil {
				body = showTopicPB(resp)
			}
			fields = fmt.Sprintf("has=%s name=%s labels=%s paths=%s", boolStr(r.Has), Enc(r.Name), MapStr(r.Labels), encList(r.Paths))
		case "deleteTopic":
			_, err = w.Pub.DeleteTopic(ctx, &pubsubpb.DeleteTopicRequest{Topic: r.Name})
			fields = "name=" + Enc(r.Name)
		case "listTopics":
			var resp *pubsubpb.ListTopicsResponse
			resp, err = w.Pub.ListTopics(ctx, &pubsubpb.ListTopicsRequest{Project: r.Project, PageSize: r.Size, PageToken: r.Token})
			if err == nil {
				parts := make([]string, len(resp.Topics))
				for i, x := range resp.Topics {
					parts[i] = showTopicPB(x)
				}
				body = strings.Join(parts, ";") + "|next=" + nextField(resp.NextPageToken)
			}
			fields = fmt.Sprintf("project=%s size=%d tok=%s", Enc(r.Project), r.Size, tokenField(r.Token))
		case "createSub":
			var resp *pubsubpb.Subscription
			resp, err = w.Sub.CreateSubscription(ctx, r.Sub.proto())
			if err == nil {
				body = showSubPB(resp)
				if sp, e := w.Client.Subscription.Query().Where(subscription.Name(r.Sub.Name), subscription.DeletedAtIsNil()).Only(ctx); e == nil {
					newID = sp.ID
					w.SubIDs = append(w.SubIDs, sp.ID)
					res.Wakes = append(res.Wakes, sp.ID)
				}
			}
			fields = r.Sub.fields()
		case "getSub":
			var resp *pubsubpb.Subscription
			resp, err = w.Sub.GetSubscription(ctx, &pubsubpb.GetSubscriptionRequest{Subscription: r.Name})
			if err == nil {
				body = showSubPB(resp)
			}
			fields = "name=" + Enc(r.Name)
		case "updateSub":
			req := &pubsubpb.UpdateSubscriptionRequest{UpdateMask: &fieldmaskpb.FieldMask{Paths: r.Paths}}
			fields = "has=" + boolStr(r.Has) + " paths=" + encList(r.Paths)
			if r.Has {
				req.Subscription = r.Sub.proto()
				fields += " " + r.Sub.fields()
			}
			var resp *pubsubpb.Subscription
			resp, err = w.Sub.UpdateSubscription(ctx, req)
			if err == nil && resp != nil {
				body = showSubPB(resp)
			}
		case "deleteSub":
			_, err = w.Sub.DeleteSubscription(ctx, &pubsubpb.DeleteSubscriptionRequest{Subscription: r.Name})
			fields = "name=" + Enc(r.Name)
		case "listSubs":
			var resp *pubsubpb.ListSubscriptionsResponse
			resp, err = w.Sub.ListSubscriptions(ctx, &pubsubpb.ListSubscriptionsRequest{Project: r.Project, PageSize: r.Size, PageToken: r.Token})
			if err == nil {
				parts := make([]string, len(resp.Subscriptions))
				for i, x := range resp.Subscriptions {
					parts[i] = showSubPB(x)
				}
				body = strings.Join(parts, ";") + "|next=" + nextField(resp.NextPageToken)
			}
			fields = fmt.Sprintf("project=%s size=%d tok=%s", Enc(r.Project), r.Size, tokenField(r.Token))
		case "listTopicSubs":
			var resp *pubsubpb.ListTopicSubscriptionsResponse
			resp, err = w.Pub.ListTopicSubscriptions(ctx, &pubsubpb.ListTopicSubscriptionsRequest{Topic: r.Name, PageSize: r.Size, PageToken: r.Token})
			if err == nil {
				parts := make([]string, len(resp.Subscriptions))
				for i, x := range resp.Subscriptions {
					parts[i] = "name=" + Enc(x)
				}
				body = strings.Join(parts, ";") + "|next=" + nextField(resp.NextPageToken)
			}
			fields = fmt.Sprintf("topic=%s size=%d tok=%s", Enc(r.Name), r.Size, tokenField(r.Token))
		case "modifyPush":
			_, err = w.Sub.ModifyPushConfig(ctx, &pubsubpb.ModifyPushConfigRequest{Subscription: r.Name, PushConfig: pushPB(r.Push)})
			fields = "name=" + Enc(r.Name) + " push=" + pushField(r.Push)
		case "pullCheck":
			_, err = w.Sub.Pull(ctx, &pubsubpb.PullRequest{Subscription: r.Name, MaxMessages: r.Max, ReturnImmediately: true})
			fields = fmt.Sprintf("name=%s max=%d", Enc(r.Name), r.Max)
		case "ackCheck":
			parse := true
			for _, a := range r.AckIDs {
				if _, e := uuid.Parse(a); e != nil {
					parse = false
				}
			}
			if r.Seconds == -999 {
				_, err = w.Sub.Acknowledge(ctx, &pubsubpb.AcknowledgeRequest{Subscription: r.Name, AckIds: r.AckIDs})
			} else {
				_, err = w.Sub.ModifyAckDeadline(ctx, &pubsubpb.ModifyAckDeadlineRequest{Subscription: r.Name, AckIds: r.AckIDs, AckDeadlineSeconds: r.Seconds})
			}
			fields = fmt.Sprintf("name=%s parse=%s ack=%s", Enc(r.Name), boolStr(parse), boolStr(r.Seconds == -999))
		case "seek":
			req := &pubsubpb.SeekRequest{Subscription: r.Name}
			tf := r.Target
			switch {
			case r.Target == "none":
			case r.Target == "zero":
				req.Target = &pubsubpb.SeekRequest_Time{Time: timestamppb.New(time.Time{})}
			case strings.HasPrefix(r.Target, "time:"):
				if bi, okb := new(big.Int).SetString(r.Target[5:], 10); okb && !bi.IsInt64() {
					// an instant further from the epoch of the protocol than a Duration reaches (e.g. a few
					// nanoseconds after Go's zero time): the protobuf Timestamp is built from seconds and nanos
					total := new(big.Int).Add(bi, new(big.Int).Mul(big.NewInt(Epoch.Unix()), big.NewInt(1000000000)))
					sec, nanos := new(big.Int).DivMod(total, big.NewInt(1000000000), new(big.Int))
					req.Target = &pubsubpb.SeekRequest_Time{Time: &timestamppb.Timestamp{Seconds: sec.Int64(), Nanos: int32(nanos.Int64())}}
				} else {
					var v int64
					fmt.Sscan(r.Target[5:], &v)
					req.Target = &pubsubpb.SeekRequest_Time{Time: timestamppb.New(Epoch.Add(time.Duration(v)))}
				}
			case strings.HasPrefix(r.Target, "snap:"):
				req.Target = &pubsubpb.SeekRequest_Snapshot{Snapshot: r.Target[5:]}
				tf = "snap:" + Enc(r.Target[5:])
			}
			_, err = w.Sub.Seek(ctx, req)
			fields = "name=" + Enc(r.Name) + " target=" + tf
		case "createSnap":
			var resp *pubsubpb.Snapshot
			resp, err = w.Sub.CreateSnapshot(ctx, &pubsubpb.CreateSnapshotRequest{Name: r.Name, Subscription: r.Name2, Labels: r.Labels})
			if err == nil {
				body = showSnapPB(resp)
				if sn, e := w.Client.Snapshot.Query().All(ctx); e == nil {
					for _, x := range sn {
						if x.Name == r.Name {
							newID = x.ID
						}
					}
				}
			}
			fields = fmt.Sprintf("name=%s sub=%s labels=%s", Enc(r.Name), Enc(r.Name2), MapStr(r.Labels))
		case "getSnap":
			var resp *pubsubpb.Snapshot
			resp, err = w.Sub.GetSnapshot(ctx, &pubsubpb.GetSnapshotRequest{Snapshot: r.Name})
			if err == nil {
				body = showSnapPB(resp)
			}
			fields = "name=" + Enc(r.Name)
		case "listSnaps":
			var resp *pubsubpb.ListSnapshotsResponse
			resp, err = w.Sub.ListSnapshots(ctx, &pubsubpb.ListSnapshotsRequest{Project: r.Project, PageSize: r.Size, PageToken: r.Token})
			if err == nil {
				parts := make([]string, len(resp.Snapshots))
				for i, x := range resp.Snapshots {
					parts[i] = showSnapPB(x)
				}
				body = strings.Join(parts, ";") + "|next=" + nextField(resp.NextPageToken)
			}
			fields = fmt.Sprintf("project=%s size=%d tok=%s", Enc(r.Project), r.Size, tokenField(r.Token))
		case "deleteSnap":
			_, err = w.Sub.DeleteSnapshot(ctx, &pubsubpb.DeleteSnapshotRequest{Snapshot: r.Name})
			fields = "name=" + Enc(r.Name)
		case "publishCheck":
			preq := &pubsubpb.PublishRequest{Topic: r.Name}
			if r.Bad {
				preq.Messages = []*pubsubpb.PubsubMessage{{Data: []byte(`{"ok":1}`)}, {Data: []byte(`not json`), Attributes: map[string]string{"x": "1"}}}
			}
			_, err = w.Pub.Publish(ctx, preq)
			fields = "topic=" + Enc(r.Name) + " bad=" + boolStr(r.Bad)
		default:
			panic("unknown rpc kind " + r.Kind)
		}
	}()
	for i, id := range watched {
		select {
		case <-aw[i]:
			res.Wakes = append(res.Wakes, id)
		default:
			actions.CancelPublishAwaiter(id, aw[i])
		}
	}
	res.Err = err
	switch {
	case res.Panic != "":
		res.Status = "PANIC"
	case err == nil:
		res.Status = "OK"
	default:
		res.Status = status.Code(err).String()
		if status.Code(err) == codes.Unknown {
			res.Status = "Unknown"
		}
	}
	res.Body = body
	if r.Kind == "createTopic" || r.Kind == "createSub" || r.Kind == "createSnap" {
		fields += " id=" + IdStr(newID)
	}
	dump := w.Dump()
	res.DumpAfter = dump
	w.Lines = append(w.Lines, fmt.Sprintf("rpc t=%d kind=%s %s exp=%s body=%s wk=%s", t, r.Kind, fields, res.Status, Enc(body), IdList(sortIDs(res.Wakes))))
	w.Lines = append(w.Lines, "dump "+dump)
	return res
}

func encList(ss []string) string {
	out := make([]string, len(ss))
	for i, s := range ss {
		out[i] = Enc(s)
	}
	return strings.Join(out, ",")
}

func sortedKeys(m map[string]bool) []string {
	var ks []string
	for k := range m {
		ks = append(ks, k)
	}
	sort.Strings(ks)
	return ks
}

func rpcTopic(r Rpc) *pubsubpb.Topic { return &pubsubpb.Topic{Name: r.Name, Labels: r.Labels} }
func rpcSnap(r Rpc) *pubsubpb.CreateSnapshotRequest {
	return &pubsubpb.CreateSnapshotRequest{Name: r.Name, Subscription: r.Name2, Labels: r.Labels}
}
func statusText(err error) string {
	if err == nil {
		return "OK"
	}
	if strings.HasPrefix(err.Error(), "panic:") {
		return "PANIC"
	}
	return status.Code(err).String()
}
