package harness

import (
	"bytes"
	"fmt"
	"net/http"
	"net/http/httptest"
	"sync"
	"time"

	"github.com/gin-gonic/gin"

	"go.6river.tech/mmmbbb/controllers"
	"go.6river.tech/mmmbbb/db"
	"go.6river.tech/mmmbbb/ent"
	"go.6river.tech/mmmbbb/middleware"
)

var dbNameOnce sync.Once

// controller: what the HTTP controllers of the repository implement
type controller interface {
	Register(router gin.IRouter) error
}

// callController serves one HTTP request through the real controller (gin engine, the repository's own
// ent-client / transaction middleware) in-process; a panic of the handler is returned as status 0.
func callController(client *ent.Client, c controller, method, path, body string) (status int, resp string, err error) {
	gin.SetMode(gin.ReleaseMode)
	dbNameOnce.Do(func() {
		defer func() { _ = recover() }() // (already set by somebody else)
		db.SetDefaultDbName("mmmbbb")
	})
	r := gin.New()
	r.Use(middleware.WithEntClient(client, middleware.Key()))
	if err := c.Register(r); err != nil {
		return 0, "", err
	}
	req := httptest.NewRequest(method, path, bytes.NewReader([]byte(body)))
	if body != "" {
		req.Header.Set("content-type", "application/json")
	}
	rec := httptest.NewRecorder()
	func() {
		defer func() {
			if p := recover(); p != nil {
				err = fmt.Errorf("handler panicked: %v", p)
			}
		}()
		r.ServeHTTP(rec, req)
	}()
	if err != nil {
		return 0, "", err
	}
	return rec.Code, rec.Body.String(), nil
}

// putDelay sets (or, for 0 in every other call, deletes) the injected delivery delay of a subscription
// through controllers/delay-injector.go
func putDelay(client *ent.Client, subName string, d int64, useDelete bool) (int, string, error) {
	if d == 0 && useDelete {
		return callController(client, &controllers.DelayInjectorController{}, http.MethodDelete, "/delays/"+subName, "")
	}
	return callController(client, &controllers.DelayInjectorController{}, http.MethodPut, "/delays/"+subName, fmt.Sprintf(`{"delay":%q}`, time.Duration(d).String()))
}
