package harness

import (
	"context"
	"encoding/json"
	"fmt"
	"math/rand"
	"os"
	"strings"
	"testing"
	"testing/synctest"

	"github.com/google/uuid"

	"go.6river.tech/mmmbbb/actions"
)

// ---- C11, safety half under a schedule: a message nacked on the stream (zero deadline) is
// redelivered by a fetch that runs between the commit of that nack and the reader's bookkeeping.
// The bookkeeping must not forget the redelivered message: max outstanding messages still holds.
//
// schedule (transaction boundaries of the stream's goroutines, driver-wrapper gates):
//
//	reader:  BEGIN nack(m1) COMMIT | parked                          | pending := pending \ {m1}
//	sender:                          fetch (budget 1) -> sends m1 again |                 fetch (budget ?) -> ...
func c11NackRedeliveryRace(t *testing.T, seed int64, viaDelay bool) (what string) {
	synctest.Test(t, func(t *testing.T) {
		w := NewWorld(t, seed)
		defer w.Close()
		cfg := &SubCfg{Topic: "t", TTL: 24 * 3600 * Sec, MTTL: 3600 * Sec}
		w.Exec(Op{K: "create_topic", Topic: "t"})
		w.Exec(Op{K: "create_sub", Sub: "s", Cfg: cfg})
		w.Dump()
		var subID uuid.UUID
		for _, row := range w.lastSubs {
			subID = row.ID
		}
		w.Ctl.mu.Lock()
		w.Ctl.tick = 0
		w.Ctl.mu.Unlock()
		conn := &scriptConn{reqs: make(chan *actions.MessageStreamRequest), closed: make(chan struct{}), out: map[uuid.UUID]int{},
			limit: actions.FlowControl{MaxMessages: 2, MaxBytes: 100000}, ctl: w.Ctl}
		ctx, cancel := context.WithCancel(WithLabel(context.Background(), "stream"))
		defer cancel()
		ms := &actions.MessageStreamer{Client: w.Client, SubscriptionID: &subID, SubscriptionName: SubName("s"), AutomaticNack: true}
		fin := make(chan error, 1)
		go func() { fin <- ms.Go(ctx, conn) }()
		synctest.Wait()
		conn.reqs <- &actions.MessageStreamRequest{FlowControl: &actions.FlowControl{MaxMessages: 2, MaxBytes: 100000}}
		synctest.Wait()
		pub := func(n int) {
			w2 := *w
			w2.execInner(Op{K: "publish", Topic: "t", Msgs: []MsgSpec{{N: n}}}, &Result{T: w.Now()})
			synctest.Wait()
		}
		pub(0)
		conn.mu.Lock()
		if len(conn.order) != 1 {
			conn.mu.Unlock()
			what = "setup: the first message was not sent"
			return
		}
		m1 := conn.order[0]
		conn.mu.Unlock()
		// from here on every transaction of the stream's goroutines stops at its boundaries
		w.Ctl.GateMulti("stream", true)
		conn.settle([]uuid.UUID{m1})
		if viaDelay {
			conn.reqs <- &actions.MessageStreamRequest{Delay: []uuid.UUID{m1}, DelaySeconds: 0}
		} else {
			conn.reqs <- &actions.MessageStreamRequest{Nack: []uuid.UUID{m1}}
		}
		synctest.Wait()
		// the reader's transaction: through BEGIN, up to just after COMMIT
		if !w.Ctl.ReleaseAt("stream", "pre-begin") {
			what = "setup: the reader did not start a transaction for the nack"
			return
		}
		synctest.Wait()
		if w.Ctl.ParkedAt("stream", "post-commit") != 1 {
			what = "setup: the reader is not parked after the commit of the nack"
			return
		}
		// two more messages; the publish wakes the sender, whose fetches run to completion
		pub(1)
		pub(2)
		for i := 0; i < 40; i++ {
			moved := w.Ctl.ReleaseAt("stream", "pre-begin")
			synctest.Wait()
			// every post-commit park but the reader's (the oldest) belongs to the sender
			for w.Ctl.ParkedAt("stream", "post-commit") > 1 {
				w.Ctl.mu.Lock()
				q := w.Ctl.parkedAt["stream|post-commit"]
				ch := q[len(q)-1]
				w.Ctl.parkedAt["stream|post-commit"] = q[:len(q)-1]
				w.Ctl.mu.Unlock()
				close(ch)
				synctest.Wait()
				moved = true
			}
			if !moved {
				break
			}
		}
		// now the reader finishes its bookkeeping; everything runs freely
		w.Ctl.GateMulti("stream", false)
		for w.Ctl.ReleaseAt("stream", "post-commit") || w.Ctl.ReleaseAt("stream", "pre-begin") {
			synctest.Wait()
		}
		synctest.Wait()
		if conn.bad != "" {
			what = conn.bad
		}
		n, _ := conn.usage()
		if what == "" && n > 2 {
			what = fmt.Sprintf("%d messages outstanding, max outstanding messages is 2", n)
		}
		cancel()
		synctest.Wait()
	})
	return
}

// c11Schedules: the scheduled races of the stream's own goroutines
func c11Schedules(t *testing.T, st *Stats) {
	// the no-stall half under schedules: a stream whose fetch found nothing must notice what becomes
	// deliverable afterwards (publish, nack, ack of an ordered predecessor) wherever the writer's
	// transaction falls between the steps of the fetch loop. The scenarios with a streaming waiter are
	// those of the wake-up protocol (C10); a stream left sleeping is a stall here.
	rng := rand.New(rand.NewSource(Seed() + 11))
	limit := 40
	if Tier() == "thorough" {
		limit = 400
	}
	for _, sc := range c10Scenarios() {
		streams := false
		for _, w := range sc.Waiters {
			streams = streams || w.Stream
		}
		if !streams {
			continue
		}
		budget := map[string]int{}
		var names []string
		for i := range sc.Waiters {
			n := fmt.Sprintf("W%d", i)
			budget[n] = 4 + len(sc.Writers)
			names = append(names, n)
		}
		for j := range sc.Writers {
			n := fmt.Sprintf("X%d", j)
			budget[n] = 2
			names = append(names, n)
		}
		for _, sched := range c10Interleavings(budget, names, limit, rng) {
			r := c10Run(t, Seed(), sc, sched)
			st.Count("stream_wake_schedules", 1)
			if r.violation != "" {
				p := ReplayPath(fmt.Sprintf("C11-stall-%s-%d.json", sc.Name, Seed()))
				b, _ := json.MarshalIndent(c10Replay{Property: "C11", Sig: "stall-" + r.sig, Seed: Seed(), Scenario: sc, Schedule: sched, What: r.violation, Trace: r.trace}, "", " ")
				os.WriteFile(p, b, 0o644)
				st.Violate(Violation{What: fmt.Sprintf("[stall-%s] streaming pull, scenario %s, schedule %s: %s", r.sig, sc.Name, strings.Join(sched, ","), r.violation), Replay: p, FoundInput: true, Sig: "stall-" + r.sig})
				return
			}
		}
	}
	{
		what := c11RefreshRace(t, Seed())
		st.Count("scheduled_races", 1)
		if strings.HasPrefix(what, "setup:") {
			st.Count("scheduled_race_setup_failed", 1)
		} else if what != "" {
			p := ReplayPath(fmt.Sprintf("C11-refresh-race-%d.json", Seed()))
			b, _ := json.MarshalIndent(map[string]interface{}{"property": "C11", "sig": "bound-refresh-race", "seed": Seed(), "what": what,
				"schedule": []string{"limits: 2 messages", "publish m1 -> sent", "Acknowledge(m1) outside the stream", "refresher: takes its list of pending ids {m1}, its query is held",
					"publish m2, m3, m4", "sender: fetches run to completion (m2 is booked and sent)", "refresher: query answered, applies the answer", "sender: free-running"}}, "", " ")
			os.WriteFile(p, b, 0o644)
			st.Violate(Violation{What: "[bound-refresh-race] a fetch that books and sends a message while the refresh goroutine is between its list of pending ids and the database's answer: afterwards " + what, Replay: p, FoundInput: true, Sig: "bound-refresh-race"})
			return
		}
	}
	for _, viaDelay := range []bool{true, false} {
		what := c11NackRedeliveryRace(t, Seed(), viaDelay)
		st.Count("scheduled_races", 1)
		if what != "" {
			p := ReplayPath(fmt.Sprintf("C11-nack-redelivery-race-%d.json", Seed()))
			b, _ := json.MarshalIndent(map[string]interface{}{"property": "C11", "sig": "bound-nack-redelivery-race", "seed": Seed(), "what": what, "zero_deadline": viaDelay,
				"schedule": []string{"limits: 2 messages", "publish m1 -> sent", "stream request: nack m1 (zero deadline)", "reader: BEGIN .. COMMIT of the nack, then held before it updates the pending map",
					"publish m2, m3", "sender: fetches run to completion (m1 is sent again)", "reader: continues (updates the pending map)", "sender: free-running"}}, "", " ")
			os.WriteFile(p, b, 0o644)
			st.Violate(Violation{What: "[bound-nack-redelivery-race] a fetch that runs between the commit of a stream nack and the reader's bookkeeping re-sends the message; afterwards: " + what, Replay: p, FoundInput: true, Sig: "bound-nack-redelivery-race"})
			return
		}
	}
}

// ---- C11, safety half under a second schedule: the refresh goroutine (which rebuilds the pending
// map after acknowledgements made outside the stream) reads the database *between* taking its list of
// pending ids and applying the answer; what the sender books in between is not the refresher's
// business.
//
//	refresher: ids := {m1} | query (held)                         | apply: m1 is gone
//	sender:                   fetch -> books and sends m2        |                     fetch -> ...
func c11RefreshRace(t *testing.T, seed int64) (what string) {
	synctest.Test(t, func(t *testing.T) {
		w := NewWorld(t, seed)
		defer w.Close()
		cfg := &SubCfg{Topic: "t", TTL: 24 * 3600 * Sec, MTTL: 3600 * Sec}
		w.Exec(Op{K: "create_topic", Topic: "t"})
		w.Exec(Op{K: "create_sub", Sub: "s", Cfg: cfg})
		w.Dump()
		var subID uuid.UUID
		for _, row := range w.lastSubs {
			subID = row.ID
		}
		w.Ctl.mu.Lock()
		w.Ctl.tick = 0
		w.Ctl.mu.Unlock()
		conn := &scriptConn{reqs: make(chan *actions.MessageStreamRequest), closed: make(chan struct{}), out: map[uuid.UUID]int{},
			limit: actions.FlowControl{MaxMessages: 2, MaxBytes: 100000}, ctl: w.Ctl}
		ctx, cancel := context.WithCancel(WithLabel(context.Background(), "stream"))
		defer cancel()
		ms := &actions.MessageStreamer{Client: w.Client, SubscriptionID: &subID, SubscriptionName: SubName("s"), AutomaticNack: true}
		fin := make(chan error, 1)
		go func() { fin <- ms.Go(ctx, conn) }()
		synctest.Wait()
		conn.reqs <- &actions.MessageStreamRequest{FlowControl: &actions.FlowControl{MaxMessages: 2, MaxBytes: 100000}}
		synctest.Wait()
		pub := func(n int) {
			w2 := *w
			w2.execInner(Op{K: "publish", Topic: "t", Msgs: []MsgSpec{{N: n}}}, &Result{T: w.Now()})
			synctest.Wait()
		}
		pub(0)
		conn.mu.Lock()
		if len(conn.order) != 1 {
			conn.mu.Unlock()
			what = "setup: the first message was not sent"
			return
		}
		m1 := conn.order[0]
		conn.mu.Unlock()
		// from here on the stream's transactions stop at their boundaries and the refresher's query is held
		w.Ctl.GatePlain("stream", "FROM `deliveries` WHERE (`deliveries`.`id` IN (")
		w.Ctl.GateMulti("stream", true)
		// the client acknowledges m1 with a plain Acknowledge call, not on the stream
		conn.settle([]uuid.UUID{m1})
		w2 := *w
		w2.execInner(Op{K: "ack", Refs: []Ref{{N: 0, Sub: "s"}}}, &Result{T: w.Now()})
		synctest.Wait()
		pub(1)
		pub(2)
		pub(3)
		// the sender's transactions run to completion; the refresher stays at its query
		for i := 0; i < 60; i++ {
			moved := w.Ctl.ReleaseAt("stream", "pre-begin")
			synctest.Wait()
			if w.Ctl.ReleaseAt("stream", "post-commit") {
				moved = true
				synctest.Wait()
			}
			if !moved {
				break
			}
		}
		if w.Ctl.ParkedAt("stream", "plain-query") == 0 {
			what = "setup: the refresher did not run its query after the Acknowledge outside the stream"
			// (not a verdict: the schedule could not be built)
		}
		conn.mu.Lock()
		sentBefore := len(conn.order)
		conn.mu.Unlock()
		// now the refresher gets its answer and applies it; everything runs freely
		w.Ctl.GateMulti("stream", false)
		for w.Ctl.ReleaseAt("stream", "plain-query") || w.Ctl.ReleaseAt("stream", "post-commit") || w.Ctl.ReleaseAt("stream", "pre-begin") {
			synctest.Wait()
		}
		synctest.Wait()
		if strings.HasPrefix(what, "setup:") {
			cancel()
			synctest.Wait()
			return
		}
		if conn.bad != "" {
			what = conn.bad
		}
		n, _ := conn.usage()
		if what == "" && n > 2 {
			what = fmt.Sprintf("%d messages outstanding, max outstanding messages is 2 (%d messages had been sent when the refresher's query was answered)", n, sentBefore)
		}
		cancel()
		synctest.Wait()
	})
	return
}
