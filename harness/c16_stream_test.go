package harness

import (
	"bufio"
	"bytes"
	"context"
	"encoding/json"
	"fmt"
	"math"
	"os"
	"os/exec"
	"strings"
	"testing"
	"testing/synctest"
	"time"

	"github.com/google/uuid"
	"google.golang.org/grpc/status"
	"net/http"

	"go.6river.tech/mmmbbb/actions"
	"go.6river.tech/mmmbbb/grpc/pubsubpb"
)

// ---- C16 on StreamingPull.  A panic in one of the streamer's goroutines cannot be recovered by the
// caller (in production it ends the process), so the stream requests run in a child process of the
// test binary: the parent learns from the child's output which request was in flight when it died.

type c16StreamReq struct {
	Sub      string   `json:"subscription"`
	Deadline int32    `json:"stream_ack_deadline_seconds"`
	MaxMsgs  int64    `json:"max_outstanding_messages"`
	MaxBytes int64    `json:"max_outstanding_bytes"`
	AckIDs   []string `json:"ack_ids,omitempty"`
	ModIDs   []string `json:"modify_deadline_ack_ids,omitempty"`
	ModSecs  []int32  `json:"modify_deadline_seconds,omitempty"`
	// a second request on the open stream
	Then *c16StreamReq `json:"then,omitempty"`
}

func (r *c16StreamReq) proto() *pubsubpb.StreamingPullRequest {
	return &pubsubpb.StreamingPullRequest{Subscription: r.Sub, StreamAckDeadlineSeconds: r.Deadline, MaxOutstandingMessages: r.MaxMsgs,
		MaxOutstandingBytes: r.MaxBytes, AckIds: r.AckIDs, ModifyDeadlineAckIds: r.ModIDs, ModifyDeadlineSeconds: r.ModSecs}
}

func c16StreamRequests() []c16StreamReq {
	S := SubName("s")
	var out []c16StreamReq
	// the two published messages have 14-byte payloads: 14 and 28 are the exact-fit byte limits
	for _, mm := range []int64{math.MinInt64, -1, 0, 1, 2, 10, math.MaxInt64} {
		for _, mb := range []int64{math.MinInt64, -1, 0, 1, 13, 14, 15, 28, math.MaxInt64} {
			out = append(out, c16StreamReq{Sub: S, Deadline: 10, MaxMsgs: mm, MaxBytes: mb})
		}
	}
	for _, dl := range []int32{math.MinInt32, -1, 0, 1, 9, 600, 601, math.MaxInt32} {
		out = append(out, c16StreamReq{Sub: S, Deadline: dl, MaxMsgs: 10, MaxBytes: 1000})
	}
	for _, n := range []string{"", "foo", SubName("unknown"), TopicName("t"), "projects//subscriptions/x", SubName("gone")} {
		out = append(out, c16StreamReq{Sub: n, Deadline: 10, MaxMsgs: 10, MaxBytes: 1000})
	}
	junk := [][]string{{"xyz"}, {""}, {"00000000-0000-0000-0000-000000000000"}, {"5e0e2cf8-6d1b-4b5b-9d8a-1f2f3a4b5c6d", "nope"}}
	for _, ids := range junk {
		out = append(out, c16StreamReq{Sub: S, Deadline: 10, MaxMsgs: 10, MaxBytes: 1000, AckIDs: ids})
		out = append(out, c16StreamReq{Sub: S, Deadline: 10, MaxMsgs: 10, MaxBytes: 1000, Then: &c16StreamReq{AckIDs: ids}})
		out = append(out, c16StreamReq{Sub: S, Deadline: 10, MaxMsgs: 10, MaxBytes: 1000, Then: &c16StreamReq{ModIDs: ids, ModSecs: make([]int32, len(ids))}})
		// lengths of the two modify-deadline lists disagree
		out = append(out, c16StreamReq{Sub: S, Deadline: 10, MaxMsgs: 10, MaxBytes: 1000, Then: &c16StreamReq{ModIDs: ids}})
		out = append(out, c16StreamReq{Sub: S, Deadline: 10, MaxMsgs: 10, MaxBytes: 1000, Then: &c16StreamReq{ModIDs: ids, ModSecs: []int32{1, 2, 3, math.MinInt32}}})
	}
	for _, secs := range []int32{math.MinInt32, -1, 0, 1, 600, 601, math.MaxInt32} {
		out = append(out, c16StreamReq{Sub: S, Deadline: 10, MaxMsgs: 10, MaxBytes: 1000, Then: &c16StreamReq{ModIDs: []string{"@first"}, ModSecs: []int32{secs}}})
	}
	// a second request that repeats the subscription / changes the limits
	out = append(out, c16StreamReq{Sub: S, Deadline: 10, MaxMsgs: 1, MaxBytes: 14, Then: &c16StreamReq{Sub: S, MaxMsgs: 5, MaxBytes: 5}})
	out = append(out, c16StreamReq{Sub: S, Deadline: 10, MaxMsgs: 1, MaxBytes: 14, Then: &c16StreamReq{Sub: SubName("unknown"), Deadline: -5}})
	return out
}

// c16PushRequests: CreateSubscription requests that configure a push endpoint, with boundary values of
// the retry policy; when the request is accepted the push service would start a pusher for the
// subscription, which is what the child then does
func c16PushRequests() []Rpc {
	var out []Rpc
	T := TopicName("t")
	k := 0
	for _, d := range []*int64{nil, p64(0), p64(1), p64(2), p64(int64(time.Millisecond)), p64(int64(time.Second)), p64(int64(600 * time.Second)), p64(-int64(time.Second))} {
		for _, which := range []string{"min", "max", "both"} {
			k++
			r := &SubReq{Name: SubName(fmt.Sprintf("push%d", k)), Topic: T, Push: &PushCfg{Endpoint: "http://push.test/x"}, HasRetry: true}
			switch which {
			case "min":
				r.RetryMin = d
			case "max":
				r.RetryMax = d
			default:
				r.RetryMin, r.RetryMax = d, d
			}
			out = append(out, Rpc{Kind: "createSub", Sub: r})
		}
	}
	// endpoint strings of every kind the handler stores: the pusher is started with what was stored
	for i, ep := range []string{"http://localhost:80a/push", "://x", "http://[::1", "%zz", " http://push.test/x", "http://push.test/\x7f", "push.test", "http://push.test/%", "ht tp://x", "http://user:pa ss@push.test/"} {
		out = append(out, Rpc{Kind: "createSub", Sub: &SubReq{Name: SubName(fmt.Sprintf("pushep%d", i)), Topic: T, Push: &PushCfg{Endpoint: ep}}})
	}
	return out
}

// c16PushOne: the request through the handler; when it is accepted, the pusher the push service starts
// for such a subscription runs for two (virtual) seconds with one message to push
func c16PushOne(t *testing.T, rq Rpc) (st string, problem string) {
	synctest.Test(t, func(t *testing.T) {
		w := NewWorld(t, 1)
		defer w.Close()
		w.Exec(Op{K: "create_topic", Topic: "t"})
		rr := w.Api().ExecRpc(rq)
		st = rr.Status
		if rr.Panic != "" {
			problem = "handler panicked: " + rr.Panic
			return
		}
		if rr.Status != "OK" {
			return
		}
		sub, err := w.Client.Subscription.Query().Only(qctx)
		if err != nil {
			problem = "accepted, but the subscription cannot be read back: " + err.Error()
			return
		}
		w.Exec(Op{K: "publish", Topic: "t", Msgs: []MsgSpec{{N: 0}}})
		w.Ctl.mu.Lock()
		w.Ctl.tick = 0
		w.Ctl.mu.Unlock()
		rt := &scriptedRT{reqs: make(chan *pushReq, 16)}
		ctx, cancel := context.WithCancel(WithLabel(context.Background(), "stream"))
		defer cancel()
		w.Ctl.SpinGuard("stream", 400)
		endpoint := "http://push.test/x"
		if sub.PushEndpoint != nil {
			endpoint = *sub.PushEndpoint
		}
		pusher := actions.NewHttpPusher(sub.Name, sub.ID, endpoint, &http.Client{Transport: rt}, w.Client)
		done := make(chan error, 1)
		go func() { done <- pusher.Go(ctx) }()
		synctest.Wait()
		for i := 0; i < 4; i++ {
			select {
			case r := <-rt.reqs:
				r.respond <- pushResp{code: 204}
			default:
			}
			time.Sleep(500 * time.Millisecond)
			synctest.Wait()
		}
		w.Ctl.SpinGuard("", 0)
		cancel()
		w.Ctl.SpinReset()
		synctest.Wait()
	})
	return
}

// c16StreamOne runs one request against a fresh server; returns the status of the stream (or
// "open") and what went wrong afterwards ("" = the server still answers).
func c16StreamOne(t *testing.T, rq c16StreamReq) (st string, problem string) {
	synctest.Test(t, func(t *testing.T) {
		w := NewWorld(t, 1)
		defer w.Close()
		cfg := &SubCfg{Topic: "t", TTL: 24 * 3600 * Sec, MTTL: 3600 * Sec}
		for _, op := range []Op{{K: "create_topic", Topic: "t"}, {K: "create_sub", Sub: "s", Cfg: cfg}, {K: "create_sub", Sub: "gone", Cfg: cfg}, {K: "delete_sub", Sub: "gone"},
			{K: "publish", Topic: "t", Msgs: []MsgSpec{{N: 0}, {N: 1}}}} {
			w.Exec(op)
		}
		time.Sleep(time.Millisecond)
		w.Ctl.mu.Lock()
		w.Ctl.tick = 0
		w.Ctl.mu.Unlock()
		conn := &scriptConn{closed: make(chan struct{}), out: map[uuid.UUID]int{}, limit: actions.FlowControl{MaxMessages: 1 << 30, MaxBytes: 1 << 40}, ctl: w.Ctl, greqs: make(chan *pubsubpb.StreamingPullRequest)}
		ctx, cancel := context.WithCancel(WithLabel(context.Background(), "stream"))
		defer cancel()
		w.Ctl.SpinGuard("stream", 200)
		fin := make(chan error, 1)
		go func() { fin <- w.Api().Sub.StreamingPull(&grpcStream{c: conn, ctx: ctx}) }()
		send := func(r *pubsubpb.StreamingPullRequest) {
			select {
			case conn.greqs <- r:
			case err := <-fin:
				fin <- err
			}
		}
		send(rq.proto())
		synctest.Wait()
		if rq.Then != nil {
			p := rq.Then.proto()
			conn.mu.Lock()
			for i, id := range p.ModifyDeadlineAckIds {
				if id == "@first" && len(conn.sent) > 0 {
					p.ModifyDeadlineAckIds[i] = conn.sent[0].id.String()
				}
			}
			conn.mu.Unlock()
			send(p)
			synctest.Wait()
		}
		time.Sleep(2 * time.Second)
		synctest.Wait()
		st = "open"
		select {
		case err := <-fin:
			st = status.Code(err).String()
		default:
		}
		// (a sender that keeps re-fetching without sending — the known C11 finding — burns CPU but the
		// server keeps answering: not a wedge in the sense of C16; the spin guard only parks it)
		// the server must still answer
		done := make(chan error, 1)
		go func() {
			_, err := w.Api().Sub.GetSubscription(qctx, &pubsubpb.GetSubscriptionRequest{Subscription: SubName("s")})
			done <- err
		}()
		synctest.Wait()
		select {
		case err := <-done:
			if err != nil && problem == "" {
				problem = "GetSubscription after the stream request failed: " + err.Error()
			}
		default:
			problem = "GetSubscription after the stream request does not return"
		}
		w.Ctl.SpinGuard("", 0)
		cancel()
		w.Ctl.SpinReset()
		synctest.Wait()
	})
	return
}

// TestC16StreamChild is the child side: runs the requests $C16_STREAM_FROM.. and reports on stdout.
func TestC16StreamChild(t *testing.T) {
	if os.Getenv("C16_STREAM_CHILD") == "" {
		t.Skip()
	}
	from := envInt("C16_STREAM_FROM", 0)
	only := envInt("C16_STREAM_ONLY", -1)
	reqs := c16StreamRequests()
	pushes := c16PushRequests()
	for i := from; i < len(reqs)+len(pushes); i++ {
		if only >= 0 && i != only {
			continue
		}
		fmt.Printf("C16S start %d\n", i)
		os.Stdout.Sync()
		var st, problem string
		if i < len(reqs) {
			st, problem = c16StreamOne(t, reqs[i])
		} else {
			st, problem = c16PushOne(t, pushes[i-len(reqs)])
		}
		fmt.Printf("C16S done %d %s %s\n", i, st, strings.ReplaceAll(problem, "\n", " "))
		os.Stdout.Sync()
	}
}

// c16Streams drives the child; a child that dies names the request that killed it.
func c16Streams(t *testing.T, st *Stats) {
	var reqs []interface{}
	for _, r := range c16StreamRequests() {
		reqs = append(reqs, r)
	}
	nStream := len(reqs)
	for _, r := range c16PushRequests() {
		reqs = append(reqs, r)
	}
	setupOf := func(i int) string {
		if i < nStream {
			return "topic t, subscription s, two published 14-byte messages; StreamingPull with this initial request (and `then` as a second request)"
		}
		return "topic t; this CreateSubscription request through the handler; when it is accepted, one message is published and the pusher that the push service starts for a push subscription runs (actions.NewHttpPusher(...).Go) for two seconds"
	}
	from := 0
	for from < len(reqs) {
		cmd := exec.Command(os.Args[0], "-test.run", "^TestC16StreamChild$", "-test.timeout", "600s")
		// (the child's temporary directories live under the parent's: removed even when the child dies)
		cmd.Env = append(os.Environ(), "C16_STREAM_CHILD=1", fmt.Sprintf("C16_STREAM_FROM=%d", from), "VERIF_STATS=", "TMPDIR="+t.TempDir())
		var out, errb bytes.Buffer
		cmd.Stdout, cmd.Stderr = &out, &errb
		runErr := cmd.Run()
		inFlight, last := -1, from-1
		sc := bufio.NewScanner(&out)
		sc.Buffer(make([]byte, 1<<20), 1<<20)
		for sc.Scan() {
			f := strings.SplitN(sc.Text(), " ", 5)
			if len(f) < 3 || f[0] != "C16S" {
				continue
			}
			var i int
			fmt.Sscan(f[2], &i)
			switch f[1] {
			case "start":
				inFlight = i
			case "done":
				inFlight, last = -1, i
				st.Count("stream_requests", 1)
				if len(f) > 3 {
					st.Count("stream_status_"+f[3], 1)
				}
				if len(f) > 4 && strings.TrimSpace(f[4]) != "" {
					js, _ := json.Marshal(reqs[i])
					p := ReplayPath(fmt.Sprintf("C16-stream-wedged-%d.json", i))
					b, _ := json.MarshalIndent(map[string]interface{}{"property": "C16", "sig": "stream-wedged", "request": reqs[i], "what": f[4],
						"setup": setupOf(i)}, "", " ")
					os.WriteFile(p, b, 0o644)
					st.Violate(Violation{What: fmt.Sprintf("[stream-wedged] request %s: %s", js, f[4]), Replay: p, FoundInput: true, Sig: "stream-wedged"})
					return
				}
			}
		}
		if inFlight >= 0 {
			js, _ := json.Marshal(reqs[inFlight])
			msg := errb.String() + out.String()
			if k := strings.Index(msg, "panic:"); k >= 0 {
				msg = msg[k:]
			}
			if len(msg) > 300 {
				msg = msg[:300]
			}
			msg = strings.ReplaceAll(msg, "\n", " ")
			p := ReplayPath(fmt.Sprintf("C16-stream-crash-%d.json", inFlight))
			b, _ := json.MarshalIndent(map[string]interface{}{"property": "C16", "sig": "crash-streamingPull", "request": reqs[inFlight], "what": msg,
				"setup": setupOf(inFlight)}, "", " ")
			os.WriteFile(p, b, 0o644)
			kind := "StreamingPull"
			if inFlight >= nStream {
				kind = "CreateSubscription (push)"
			}
			st.Violate(Violation{What: fmt.Sprintf("[crash-streamingPull] %s request %s terminates the server process (%s): %s", kind, js, setupOf(inFlight), msg), Replay: p, FoundInput: true, Sig: "crash-streamingPull"})
			return
		}
		if runErr != nil && last < len(reqs)-1 {
			st.Violate(Violation{What: fmt.Sprintf("the StreamingPull child process failed without naming a request: %v %s", runErr, errb.String()), FoundInput: false, Sig: "harness"})
			return
		}
		from = last + 1
		if runErr == nil {
			break
		}
	}
}
