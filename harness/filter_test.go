package harness

import (
	"fmt"
	"google.golang.org/protobuf/types/known/fieldmaskpb"
	"math/rand"
	"sort"
	"strconv"
	"strings"
	"testing"
	"testing/synctest"
	"time"

	"google.golang.org/grpc/codes"
	"google.golang.org/grpc/status"

	"go.6river.tech/mmmbbb/filter"
	"go.6river.tech/mmmbbb/grpc/pubsubpb"
	"go.6river.tech/mmmbbb/services"
)

// ---------- reference trees with their own semantics ----------

type fBasic struct {
	kind      string // has eq ne prefix
	name, val string
}
type fTerm struct {
	neg   bool
	basic *fBasic
	sub   *fCond
}
type fCond struct {
	op    string // "" AND OR
	terms []*fTerm
}

func (b *fBasic) sem(a map[string]string) bool {
	v, ok := a[b.name]
	switch b.kind {
	case "has":
		return ok
	case "eq":
		return ok && v == b.val
	case "ne":
		return ok && v != b.val
	default:
		return ok && strings.HasPrefix(v, b.val)
	}
}
func (t *fTerm) sem(a map[string]string) bool {
	var r bool
	if t.basic != nil {
		r = t.basic.sem(a)
	} else {
		r = t.sub.sem(a)
	}
	return r != t.neg
}
func (c *fCond) sem(a map[string]string) bool {
	switch c.op {
	case "AND":
		for _, t := range c.terms {
			if !t.sem(a) {
				return false
			}
		}
		return true
	case "OR":
		for _, t := range c.terms {
			if t.sem(a) {
				return true
			}
		}
		return false
	}
	return c.terms[0].sem(a)
}

func isBareIdent(s string) bool {
	if s == "" {
		return false
	}
	for i, c := range s {
		if !(c == '_' || c >= 'a' && c <= 'z' || c >= 'A' && c <= 'Z' || c >= '0' && c <= '9' && i > 0) {
			return false
		}
	}
	return true
}

// render with syntactic variation chosen by r (nil = canonical form)
func (b *fBasic) render(r *rand.Rand) string {
	name := strconv.Quote(b.name)
	if isBareIdent(b.name) && (r == nil || r.Intn(3) > 0) {
		name = b.name
	}
	sp := func() string {
		if r != nil && r.Intn(4) == 0 {
			return []string{" ", "  ", "\t", "\n"}[r.Intn(4)]
		}
		return ""
	}
	val := strconv.Quote(b.val)
	switch b.kind {
	case "has":
		return "attributes" + sp() + ":" + sp() + name
	case "eq":
		return "attributes" + sp() + "." + sp() + name + sp() + "=" + sp() + val
	case "ne":
		return "attributes" + sp() + "." + sp() + name + sp() + "!=" + sp() + val
	default:
		return "hasPrefix" + sp() + "(" + sp() + "attributes." + name + sp() + "," + sp() + val + sp() + ")"
	}
}
func (t *fTerm) render(r *rand.Rand) string {
	s := ""
	if t.neg {
		s = "NOT "
		if r != nil && r.Intn(2) == 0 {
			s = "-"
		}
	}
	if t.basic != nil {
		return s + t.basic.render(r)
	}
	return s + "(" + t.sub.render(r) + ")"
}
func (c *fCond) render(r *rand.Rand) string {
	parts := make([]string, len(c.terms))
	for i, t := range c.terms {
		parts[i] = t.render(r)
	}
	if c.op == "" {
		return parts[0]
	}
	return strings.Join(parts, " "+c.op+" ")
}

// canonical AST text, same format as Mmmbbb.Pure.showCond
func (b *fBasic) show() string {
	switch b.kind {
	case "has":
		return "H(" + Enc(b.name) + ")"
	case "eq":
		return "EQ(" + Enc(b.name) + "," + Enc(b.val) + ")"
	case "ne":
		return "NE(" + Enc(b.name) + "," + Enc(b.val) + ")"
	}
	return "P(" + Enc(b.name) + "," + Enc(b.val) + ")"
}
func (t *fTerm) show() string {
	s := ""
	if t.neg {
		s = "!"
	}
	if t.basic != nil {
		return s + t.basic.show()
	}
	return s + "[" + t.sub.show() + "]"
}
func (c *fCond) show() string {
	s := c.terms[0].show()
	sep := "&"
	if c.op == "OR" {
		sep = "|"
	}
	for _, t := range c.terms[1:] {
		s += sep + t.show()
	}
	return s
}

// canonical text of the implementation's AST
func showGoBasic(b *filter.BasicExpression) string {
	switch {
	case b.Has != nil:
		return "H(" + Enc(b.Has.Name) + ")"
	case b.Value != nil:
		if b.Value.Op == filter.OpEqual {
			return "EQ(" + Enc(b.Value.Name) + "," + Enc(b.Value.Value) + ")"
		}
		return "NE(" + Enc(b.Value.Name) + "," + Enc(b.Value.Value) + ")"
	case b.Predicate != nil:
		return "P(" + Enc(b.Predicate.Name) + "," + Enc(b.Predicate.Value) + ")"
	}
	return "?"
}
func showGoTerm(t *filter.Term) string {
	s := ""
	if t.Not {
		s = "!"
	}
	if t.Basic != nil {
		return s + showGoBasic(t.Basic)
	}
	if t.Sub != nil {
		return s + "[" + showGoCond(t.Sub) + "]"
	}
	return s + "?"
}
func showGoCond(c *filter.Condition) string {
	s := showGoTerm(c.Term)
	for _, t := range c.And {
		s += "&" + showGoTerm(t)
	}
	for _, t := range c.Or {
		s += "|" + showGoTerm(t)
	}
	return s
}

// parseGo runs the real parser under a watchdog; crash and hang are reported.
func parseGo(s string) (c *filter.Condition, err error, crashed string) {
	type res struct {
		c   *filter.Condition
		err error
		p   string
	}
	ch := make(chan res, 1)
	go func() {
		defer func() {
			if p := recover(); p != nil {
				ch <- res{p: fmt.Sprint("panic: ", p)}
			}
		}()
		c, err := filter.Parser.ParseString("f", s)
		ch <- res{c: c, err: err}
	}()
	select {
	case r := <-ch:
		return r.c, r.err, r.p
	case <-time.After(5 * time.Second):
		return nil, nil, "hang: parser did not return within 5 s"
	}
}

func evalGo(c *filter.Condition, a map[string]string) (v bool, crashed string) {
	defer func() {
		if p := recover(); p != nil {
			crashed = fmt.Sprint("panic: ", p)
		}
	}()
	v, err := c.Evaluate(a)
	if err != nil {
		return false, "evaluation error: " + err.Error()
	}
	return v, ""
}

func renderGo(c *filter.Condition) (string, error) {
	var sb strings.Builder
	err := c.AsFilter(&sb)
	return sb.String(), err
}

// ---------- vocabulary ----------

var fNames = []string{"x", "", "AND", "a b", "é"}

// names for generated ASTs: also digit-leading, all-digit, underscore, keyword-like and punctuated
// names (what the printer must quote and what it may print bare)
var fNamesSyntax = []string{"x", "", "AND", "a b", "é", "1a", "9", "a1", "_x", "x_1", "hasPrefix", "attributes", "NOT", "OR", "a-b", "a.b", "A9_", "0"}
var fVals = []string{"", "a", "ab", "\"q\\", "NOT"}

func attrMaps(names, vals []string) []map[string]string {
	// every map over names with values in vals (absent allowed)
	out := []map[string]string{{}}
	for _, n := range names {
		var next []map[string]string
		for _, m := range out {
			next = append(next, m)
			for _, v := range vals {
				m2 := map[string]string{}
				for k, x := range m {
					m2[k] = x
				}
				m2[n] = v
				next = append(next, m2)
			}
		}
		out = next
	}
	return out
}

func attrslField(ms []map[string]string) string {
	parts := make([]string, len(ms))
	for i, m := range ms {
		parts[i] = MapStr(m)
	}
	return strings.Join(parts, ";")
}

func parseR(line string) map[string]string {
	out := map[string]string{}
	for _, w := range strings.Split(line, " ") {
		if i := strings.IndexByte(w, '='); i > 0 {
			out[w[:i]] = w[i+1:]
		}
	}
	return out
}

func allBasics(names, vals []string) []*fBasic {
	var bs []*fBasic
	for _, n := range names {
		bs = append(bs, &fBasic{kind: "has", name: n})
		for _, v := range vals {
			bs = append(bs, &fBasic{"eq", n, v}, &fBasic{"ne", n, v}, &fBasic{"prefix", n, v})
		}
	}
	return bs
}

func randCond(r *rand.Rand, depth int) *fCond {
	n := 1
	op := ""
	if r.Intn(3) > 0 {
		n = 2 + r.Intn(3)
		op = []string{"AND", "OR"}[r.Intn(2)]
	}
	c := &fCond{op: op}
	for i := 0; i < n; i++ {
		t := &fTerm{neg: r.Intn(3) == 0}
		if depth > 0 && r.Intn(3) == 0 {
			t.sub = randCond(r, depth-1)
		} else {
			t.basic = &fBasic{kind: []string{"has", "eq", "ne", "prefix"}[r.Intn(4)], name: fNamesSyntax[r.Intn(len(fNamesSyntax))], val: fVals[r.Intn(len(fVals))]}
		}
		c.terms = append(c.terms, t)
	}
	return c
}

// ---------- C07 ----------

func TestC07(t *testing.T) {
	st := NewStats()
	defer st.Write()
	m, err := StartModel()
	if err != nil {
		t.Fatal(err)
	}
	defer m.Close()
	thorough := Tier() == "thorough"
	r := rand.New(rand.NewSource(Seed()))

	type tc struct {
		c    *fCond
		text string
	}
	var cases []tc
	// (i) exhaustive small scope: every condition of <= 2 (quick) / 3 (thorough) terms over a small vocabulary
	names, vals := []string{"x", ""}, []string{"", "a", "ab"}
	var terms []*fTerm
	for _, b := range allBasics(names, vals) {
		terms = append(terms, &fTerm{basic: b}, &fTerm{neg: true, basic: b})
	}
	for _, t1 := range terms {
		cases = append(cases, tc{c: &fCond{terms: []*fTerm{t1}}})
		// parenthesised and negated-parenthesised single term
		cases = append(cases, tc{c: &fCond{terms: []*fTerm{{sub: &fCond{terms: []*fTerm{t1}}}}}})
		cases = append(cases, tc{c: &fCond{terms: []*fTerm{{neg: true, sub: &fCond{terms: []*fTerm{t1}}}}}})
		for _, t2 := range terms {
			for _, op := range []string{"AND", "OR"} {
				cases = append(cases, tc{c: &fCond{op: op, terms: []*fTerm{t1, t2}}})
			}
		}
	}
	exhaustiveN := len(cases)
	if thorough {
		// three terms: sample a deterministic 1/7 slice plus all nestings of two-term conditions
		k := 0
		for _, t1 := range terms {
			for _, t2 := range terms {
				for _, t3 := range terms {
					k++
					if k%7 != int(Seed()%7) {
						continue
					}
					for _, op := range []string{"AND", "OR"} {
						cases = append(cases, tc{c: &fCond{op: op, terms: []*fTerm{t1, t2, t3}}})
					}
				}
			}
		}
	}
	smallMaps := attrMaps(names, vals)
	// (ii) random conditions to depth 8 over the wider vocabulary with syntactic variation
	nRandom := 3000
	if thorough {
		nRandom = 60000
	}
	for i := 0; i < nRandom; i++ {
		c := randCond(r, 1+r.Intn(8))
		cases = append(cases, tc{c: c, text: c.render(r)})
	}
	wideMaps := attrMaps([]string{"x", "", "AND"}, []string{"", "a", "ab"})
	wideMaps = append(wideMaps, map[string]string{"a b": "\"q\\", "é": "NOT"}, map[string]string{"é": "", "a b": "ab", "x": "NOT"})

	lines := make([]string, 0, len(cases))
	for i := range cases {
		if cases[i].text == "" {
			cases[i].text = cases[i].c.render(nil)
		}
		maps := wideMaps
		if i < exhaustiveN || cases[i].text == cases[i].c.render(nil) && i < len(cases)-nRandom {
			maps = smallMaps
		}
		lines = append(lines, "filter s="+Enc(cases[i].text)+" attrsl="+attrslField(maps))
	}
	outs, err := m.Replay(lines)
	if err != nil {
		t.Fatal(err)
	}
	violate := func(sig, what string, found bool, replayObj string) {
		p := ReplayPath(fmt.Sprintf("C07-%s-%d.txt", sig, Seed()))
		writeFile(p, replayObj)
		st.Violate(Violation{What: what, Replay: p, FoundInput: found, Sig: sig})
	}
	evals, disagreements, skipped := 0, 0, 0
	for i, cse := range cases {
		maps := wideMaps
		if strings.HasSuffix(lines[i], attrslField(smallMaps)) {
			maps = smallMaps
		}
		gc, perr, crashed := parseGo(cse.text)
		if crashed != "" {
			violate("crash", "parser "+crashed+" on "+strconv.Quote(cse.text), true, cse.text)
			break
		}
		if perr != nil {
			violate("reject-valid", fmt.Sprintf("grammar-generated filter %q rejected: %v", cse.text, perr), true, cse.text)
			break
		}
		// implementation vs reference semantics (independent of the Lean model)
		bits := make([]byte, len(maps))
		for k, a := range maps {
			v, cr := evalGo(gc, a)
			if cr != "" {
				violate("eval-error", fmt.Sprintf("filter %q on %v: %s", cse.text, a, cr), true, cse.text+"\n"+MapStr(a))
				return
			}
			evals++
			if v != cse.c.sem(a) {
				violate("semantics", fmt.Sprintf("filter %q on attributes %v evaluates to %v, documented semantics says %v", cse.text, a, v, !v), true, cse.text+"\n"+MapStr(a))
				return
			}
			bits[k] = '0'
			if v {
				bits[k] = '1'
			}
		}
		if showGoCond(gc) != cse.c.show() {
			violate("ast", fmt.Sprintf("filter %q parsed to %s, expected %s", cse.text, showGoCond(gc), cse.c.show()), true, cse.text)
			return
		}
		// boolean laws on the implementation (sampled: they need extra parses)
		if i%5 == 0 {
			a := maps[i%len(maps)]
			base, _ := evalGo(gc, a)
			for _, variant := range []string{"NOT (NOT (" + cse.text + "))", "((" + cse.text + "))", "-(-(" + cse.text + "))"} {
				vc, e2, _ := parseGo(variant)
				if e2 != nil {
					violate("law-parse", fmt.Sprintf("%q does not parse: %v", variant, e2), true, variant)
					return
				}
				if v, _ := evalGo(vc, a); v != base {
					violate("law", fmt.Sprintf("%q and %q differ on %v", variant, cse.text, a), true, variant+"\n"+MapStr(a))
					return
				}
			}
			// a doubled negation without parentheses is not a sentence of the documented grammar; where the
			// parser takes it nevertheless, it has to mean what two negations mean
			for _, variant := range []string{"NOT NOT (" + cse.text + ")", "--(" + cse.text + ")", "NOT -(" + cse.text + ")", "-NOT (" + cse.text + ")"} {
				vc, e2, cr := parseGo(variant)
				if cr != "" {
					violate("crash", "parser "+cr+" on "+strconv.Quote(variant), true, variant)
					return
				}
				if e2 != nil {
					st.Count("unparenthesised_double_negation_rejected", 1)
					continue
				}
				st.Count("unparenthesised_double_negation_accepted", 1)
				if v, _ := evalGo(vc, a); v != base {
					violate("law", fmt.Sprintf("%q is accepted and evaluates to %v on %v, but %q evaluates to %v: a doubled negation does not cancel", variant, v, a, cse.text, base), true, variant+"\n"+MapStr(a))
					return
				}
			}
			if len(cse.c.terms) > 1 {
				// commutativity: reversed term order; De Morgan: NOT(t1 op t2..) vs dual
				rev := &fCond{op: cse.c.op}
				dual := &fCond{op: map[string]string{"AND": "OR", "OR": "AND"}[cse.c.op]}
				for k := len(cse.c.terms) - 1; k >= 0; k-- {
					rev.terms = append(rev.terms, cse.c.terms[k])
				}
				for _, tm := range cse.c.terms {
					dual.terms = append(dual.terms, &fTerm{neg: !tm.neg, basic: tm.basic, sub: tm.sub})
				}
				rc, e1, _ := parseGo(rev.render(nil))
				dc, e2, _ := parseGo("NOT (" + dual.render(nil) + ")")
				if e1 != nil || e2 != nil {
					violate("law-parse", fmt.Sprintf("variant of %q does not parse", cse.text), true, cse.text)
					return
				}
				v1, _ := evalGo(rc, a)
				v2, _ := evalGo(dc, a)
				if v1 != base || v2 != base {
					violate("law", fmt.Sprintf("commutativity/De Morgan fails for %q on %v", cse.text, a), true, cse.text+"\n"+MapStr(a))
					return
				}
			}
			st.Count("law_checks", 1)
		}
		// correspondence with the Lean model
		ans := parseR(outs[i])
		switch {
		case ans["parse"] == "unsupported":
			skipped++
		case ans["parse"] != "ok" || ans["ast"] != showGoCond(gc) || ans["eval"] != string(bits):
			disagreements++
			if disagreements == 1 {
				violate("correspondence", fmt.Sprintf("model and implementation differ on %q: model %s / impl ast=%s eval=%s", cse.text, outs[i], showGoCond(gc), bits), false, lines[i]+"\n"+outs[i])
			}
		}
		st.Distinct(cse.c.show())
		if i%997 == 0 {
			st.Sample(map[string]string{"filter": cse.text, "ast": cse.c.show()})
		}
	}
	// ---- delivery level: publish and dead-letter routing use the same evaluation on the message's attributes ----
	{
		cfgOf := func(f string) *SubCfg { return &SubCfg{Topic: "t", Filter: f, TTL: 24 * 3600 * Sec, MTTL: 3600 * Sec} }
		filters := []string{`attributes:x`, `NOT attributes:x`, `-attributes:x`, `attributes.x != "a"`, `NOT attributes.x = "a" OR attributes:y`,
			`hasPrefix(attributes.x, "a")`, `NOT hasPrefix(attributes.x, "a")`, `attributes:x OR attributes:y OR attributes:z`, `attributes:x AND attributes:y AND attributes:z`, ``}
		ops := []Op{{K: "create_topic", Topic: "t"}, {K: "create_topic", Topic: "d"}}
		for i, f := range filters {
			ops = append(ops, Op{K: "create_sub", Sub: fmt.Sprintf("f%d", i), Cfg: cfgOf(f)})
		}
		// a dead-letter source whose forwards are routed through the same filters (dead-letter topic = t)
		ops = append(ops, Op{K: "create_sub", Sub: "src", Cfg: &SubCfg{Topic: "d", MaxAtt: 1, DLT: "t", TTL: 24 * 3600 * Sec, MTTL: 3600 * Sec}})
		attrs := []map[string]string{nil, {}, {"x": "a"}, {"x": "ab"}, {"x": "b"}, {"y": "1"}, {"z": ""}, {"x": "a", "y": "", "z": "q"}, {"y": "a", "z": "a"}}
		var dmsgs []MsgSpec
		for i, a := range attrs {
			ops = append(ops, Op{K: "publish", Topic: "t", Msgs: []MsgSpec{{N: i, Attrs: a}}})
			dmsgs = append(dmsgs, MsgSpec{N: 100 + i, Attrs: a})
		}
		ops = append(ops, Op{K: "publish", Topic: "d", Msgs: dmsgs}, Op{K: "pull", Sub: "src", Max: 100}, Op{K: "advance", D: 700 * Sec},
			Op{K: "dl_sweep", Max: 100})
		// the filter of a subscription is replaced (UpdateSubscription, path "filter"): routing follows the
		// filter the subscription has now, not one it had earlier
		for i := range filters {
			ops = append(ops, Op{K: "rpc", Rpc: &Rpc{Kind: "updateSub", Has: true, Paths: []string{"filter"},
				Sub: &SubReq{Name: SubName(fmt.Sprintf("f%d", i)), Topic: TopicName("t"), Filter: filters[(i+3)%len(filters)]}}})
		}
		var dmsgs2 []MsgSpec
		for i, a := range attrs {
			ops = append(ops, Op{K: "publish", Topic: "t", Msgs: []MsgSpec{{N: 200 + i, Attrs: a}}})
			dmsgs2 = append(dmsgs2, MsgSpec{N: 300 + i, Attrs: a})
		}
		ops = append(ops, Op{K: "publish", Topic: "d", Msgs: dmsgs2}, Op{K: "pull", Sub: "src", Max: 100}, Op{K: "advance", D: 700 * Sec},
			Op{K: "dl_sweep", Max: 100})
		h := RunHistory(t, Seed(), nil, ops, 0, false)
		st.Count("delivery_level_publishes", len(attrs)*4)
		st.Count("delivery_level_filter_updates", len(filters))
		if d, err := m.Check(h.Lines); err == nil && d != nil {
			p := writeReplay(fmt.Sprintf("C07-delivery-correspondence-%d.json", Seed()), replayFile{Property: "C07", Sig: "correspondence", Seed: Seed(), Ops: ops, What: d.String()})
			st.Violate(Violation{What: "correspondence with the model broken on the delivery-level history: " + d.String(), Replay: p, FoundInput: false, Sig: "correspondence"})
		}
		for _, f := range h.Findings {
			if (f.Prop == "C01" && f.Sig == "enqueue") || (f.Prop == "C02" && (f.Sig == "filter" || f.Sig == "forward-filter")) || (f.Prop == "C06" && (f.Sig == "forward-missing" || f.Sig == "forward-filter")) || f.Prop == "C07" {
				p := writeReplay(fmt.Sprintf("C07-delivery-%d.json", Seed()), replayFile{Property: "C07", Sig: "delivery", Seed: Seed(), Ops: ops, What: f.What})
				st.Violate(Violation{What: "[delivery] publish / dead-letter routing does not follow the filter semantics: " + f.What, Replay: p, FoundInput: true, Sig: "delivery"})
				break
			}
		}
	}
	st.Set("evaluations", evals)
	st.Set("rule", "filters: every condition of <=2 terms (thorough: 1/7 of all 3-term ones) over names {x, \"\"} x values {\"\", a, ab} evaluated on all 16 attribute maps over that vocabulary (exhaustive), plus random conditions to depth 8 with syntactic variants over a wider vocabulary (keyword-like, quoted, unicode names); distinct = distinct ASTs")
	st.Set("exhaustive_small_scope_filters", exhaustiveN)
	st.Set("exhaustive", false)
	st.Set("traces_validated_against_impl", len(cases)-skipped)
	st.Set("skipped_unsupported_by_model", skipped)
	st.Summary = fmt.Sprintf("filters=%d evaluations=%d disagreements=%d skipped=%d", len(cases), evals, disagreements, skipped)
}

func writeFile(path, content string) {
	_ = osWriteFile(path, []byte(content))
}

// ---------- C08 ----------

func mutateTokens(r *rand.Rand, s string) string {
	// crude tokenisation on the printed form: split into identifier / string / punctuation pieces
	var toks []string
	i := 0
	for i < len(s) {
		c := s[i]
		switch {
		case c == ' ' || c == '\t' || c == '\n':
			i++
		case c == '"':
			j := i + 1
			for j < len(s) && s[j] != '"' {
				if s[j] == '\\' {
					j++
				}
				j++
			}
			if j >= len(s) {
				j = len(s) - 1
			}
			toks = append(toks, s[i:j+1])
			i = j + 1
		case c == '_' || c >= 'a' && c <= 'z' || c >= 'A' && c <= 'Z':
			j := i
			for j < len(s) && (s[j] == '_' || s[j] >= 'a' && s[j] <= 'z' || s[j] >= 'A' && s[j] <= 'Z' || s[j] >= '0' && s[j] <= '9') {
				j++
			}
			toks = append(toks, s[i:j])
			i = j
		default:
			toks = append(toks, s[i:i+1])
			i++
		}
	}
	if len(toks) == 0 {
		return s
	}
	k := r.Intn(len(toks))
	subst := []string{"AND", "OR", "NOT", "-", "(", ")", ":", ".", "=", "!", ",", "attributes", "hasPrefix", `"x"`, "x", `"AND"`, `"("`, "5", "'c'", "`r`", "/*c*/", "//c\n", `"\z"`, `"\u12"`, `"\xff"`, `"\377"`, `"\400"`, "\"unterminated", "&", "é", "\x00"}
	switch r.Intn(3) {
	case 0:
		toks = append(toks[:k], toks[k+1:]...)
	case 1:
		toks = append(toks[:k+1], toks[k:]...)
	default:
		toks[k] = subst[r.Intn(len(subst))]
	}
	return strings.Join(toks, " ")
}

func TestC08(t *testing.T) {
	st := NewStats()
	defer st.Write()
	m, err := StartModel()
	if err != nil {
		t.Fatal(err)
	}
	defer m.Close()
	thorough := Tier() == "thorough"
	r := rand.New(rand.NewSource(Seed() + 77))
	var inputs []string
	kinds := map[string]int{}
	add := func(kind, s string) { inputs = append(inputs, s); kinds[kind]++ }
	// grammar sentences in all shapes up to size 4 with quoting / whitespace variants
	nGrammar, nMut, nFuzz := 1500, 3000, 3000
	if thorough {
		nGrammar, nMut, nFuzz = 20000, 60000, 200000
	}
	var sentences []string
	for i := 0; i < nGrammar; i++ {
		c := randCond(r, r.Intn(4))
		s := c.render(r)
		sentences = append(sentences, s)
		add("grammar", s)
	}
	// escapes in names and values
	for _, esc := range []string{`\a\b\f\n\r\t\v`, `\\`, `\"`, `\x41\x7f`, `\101`, `é\U0001F600`, `é☃`, `\x00`, ``} {
		add("escapes", `attributes:"`+esc+`"`)
		add("escapes", `attributes."n"="`+esc+`"`)
		add("escapes", `hasPrefix(attributes."`+esc+`","`+esc+`")`)
	}
	for _, s := range []string{"", " ", "attributes", "attributes:", "attributes:x AND", "attributes:x AND attributes:y OR attributes:z",
		"(attributes:x", "attributes:x)", "NOT", "- -attributes:x", "NOT NOT attributes:x", "attributes:x attributes:y", "attributes.x", "attributes.x=",
		"attributes.x=y", "attributes.x!=\"v\"", "attributes.x! =\"v\"", "attributes.x==\"v\"", "hasPrefix(attributes:x,\"v\")", "hasprefix(attributes.x,\"v\")",
		"attributes:x and attributes:y", "ATTRIBUTES:x", "attributes:5", "attributes:x5", "attributes:_", "attributes.5=\"v\"", "attributes:x//c", "attributes:x /*c*/ AND attributes:y",
		"\"NOT\" attributes:x", "attributes:x \"AND\" attributes:y", "\"attributes\" \":\" x", "attributes:`x`", "attributes:'x'", "attributes:x;", "attributes:x\x00"} {
		add("handwritten", s)
	}
	for i := 0; i < nMut; i++ {
		add("mutation", mutateTokens(r, sentences[r.Intn(len(sentences))]))
	}
	alphabet := []byte("attribuesNOTADRhasPrefix():.=!,\"\\ -xyz019_/*\n\t'`&")
	for i := 0; i < nFuzz; i++ {
		n := r.Intn(64)
		b := make([]byte, n)
		for k := range b {
			if r.Intn(40) == 0 {
				b[k] = byte(r.Intn(140))
			} else {
				b[k] = alphabet[r.Intn(len(alphabet))]
			}
		}
		add("fuzz", string(b))
	}
	lines := make([]string, len(inputs))
	validUTF8 := make([]bool, len(inputs))
	for i, s := range inputs {
		validUTF8[i] = strings.ToValidUTF8(s, "�") == s
		lines[i] = "filter s=" + Enc(s) + " attrsl="
	}
	outs, err := m.Replay(lines)
	if err != nil {
		t.Fatal(err)
	}
	violate := func(sig, what string, found bool, replay string) {
		p := ReplayPath(fmt.Sprintf("C08-%s-%d.txt", sig, Seed()))
		writeFile(p, replay)
		st.Violate(Violation{What: what, Replay: p, FoundInput: found, Sig: sig})
	}
	accepted, rejected, skipped, disagreements := 0, 0, 0, 0
	known := map[string]string{}
	var acceptedInputs, rejectedInputs []string
	for i, s := range inputs {
		gc, perr, crashed := parseGo(s)
		if crashed != "" {
			violate("crash", "parser "+crashed+" on "+strconv.Quote(s), true, s)
			return
		}
		ans := parseR(outs[i])
		if !validUTF8[i] || strings.HasPrefix(outs[i], "ERROR") {
			// the line protocol carries UTF-8 only; invalid byte strings exercise the crash/hang watchdog above
			skipped++
			if perr == nil {
				accepted++
			} else {
				rejected++
			}
			continue
		}
		if perr != nil {
			rejected++
			if len(rejectedInputs) < 400 {
				rejectedInputs = append(rejectedInputs, s)
			}
			if ans["parse"] == "ok" {
				disagreements++
				if disagreements == 1 {
					violate("correspondence", fmt.Sprintf("implementation rejects %q (%v) but the model accepts it as %s", s, perr, ans["ast"]), false, lines[i]+"\n"+outs[i])
				}
			} else if ans["parse"] == "unsupported" {
				skipped++
			}
			continue
		}
		accepted++
		if len(acceptedInputs) < 400 {
			acceptedInputs = append(acceptedInputs, s)
		}
		// round trip on the implementation, independent of the model
		text, rerr := renderGo(gc)
		if rerr != nil {
			violate("render", fmt.Sprintf("AsFilter failed for %q: %v", s, rerr), true, s)
			return
		}
		gc2, perr2, _ := parseGo(text)
		if perr2 != nil {
			if utf8Clean(text) {
				violate("roundtrip", fmt.Sprintf("%q parses, is rendered as %q, and that does not parse: %v", s, text, perr2), true, s)
				return
			}
		} else if showGoCond(gc2) != showGoCond(gc) {
			// strconv.Quote/Unquote are not inverse on bytes that are not valid UTF-8 (\xff becomes U+00FF): outside the modelled alphabet
			if !strings.Contains(text, `\x`) {
				violate("roundtrip", fmt.Sprintf("%q renders as %q which parses to a different filter: %s vs %s", s, text, showGoCond(gc2), showGoCond(gc)), true, s)
				return
			}
		}
		switch ans["parse"] {
		case "unsupported":
			skipped++
		case "reject":
			disagreements++
			if disagreements == 1 {
				violate("correspondence", fmt.Sprintf("implementation accepts %q as %s but the model rejects it", s, showGoCond(gc)), false, lines[i]+"\n"+outs[i])
			}
		default:
			want, _ := Dec(ans["render"])
			if ans["render"] == "unsupported" {
				want = text
				st.Count("render_not_modelled_non_ascii", 1)
			}
			if ans["ast"] != showGoCond(gc) || want != text {
				disagreements++
				if disagreements == 1 {
					violate("correspondence", fmt.Sprintf("on %q: model ast=%s render=%q / impl ast=%s render=%q", s, ans["ast"], want, showGoCond(gc), text), false, lines[i]+"\n"+outs[i])
				}
			}
			if ans["doc"] == "quoted" {
				if _, ok := known["quoted-keyword"]; !ok {
					known["quoted-keyword"] = s
				}
			} else if ans["doc"] == "comment" {
				if _, ok := known["comment"]; !ok {
					known["comment"] = s
				}
			}
		}
		st.Distinct(showGoCond(gc))
	}
	// accepted outside the documented grammar: known findings (the model's classification)
	for sig, s := range known {
		violate(sig, fmt.Sprintf("accepted although it is not a sentence of the documented grammar (%s): %q", sig, s), true, s)
	}
	// validation before storing: CreateSubscription / UpdateSubscription on samples of both classes
	nAPI := 60
	if thorough {
		nAPI = 400
	}
	apiChecked := 0
	synctest.Test(t, func(t *testing.T) {
		w := NewWorld(t, Seed())
		defer w.Close()
		pub := services.NewPublisherServerForVerif(w.Client)
		sub := services.NewSubscriberServerForVerif(w.Client)
		if _, err := pub.CreateTopic(w.Ctx, &pubsubpb.Topic{Name: "projects/p/topics/t"}); err != nil {
			t.Fatal(err)
		}
		try := func(s string, wantOK bool, k int) bool {
			if strings.ToValidUTF8(s, "") != s {
				return true
			}
			name := fmt.Sprintf("projects/p/subscriptions/s%d", k)
			_, err := sub.CreateSubscription(w.Ctx, &pubsubpb.Subscription{Name: name, Topic: "projects/p/topics/t", Filter: s})
			got, gerr := sub.GetSubscription(w.Ctx, &pubsubpb.GetSubscriptionRequest{Subscription: name})
			apiChecked++
			if wantOK && s != "" {
				if err != nil || gerr != nil || got.Filter != s {
					violate("api", fmt.Sprintf("CreateSubscription with valid filter %q: err=%v stored=%v", s, err, got), true, s)
					return false
				}
			} else if s != "" {
				if status.Code(err) != codes.InvalidArgument && status.Code(err) != codes.Unknown || gerr == nil {
					violate("api", fmt.Sprintf("CreateSubscription with invalid filter %q: err=%v, subscription exists=%v", s, err, gerr == nil), true, s)
					return false
				}
				// the verdict on a string does not depend on whether it has been offered before: the same
				// request again (a client's retry), and the same filter for another subscription
				for rep, nm := range []string{name, name + "-again"} {
					_, err := sub.CreateSubscription(w.Ctx, &pubsubpb.Subscription{Name: nm, Topic: "projects/p/topics/t", Filter: s})
					_, gerr := sub.GetSubscription(w.Ctx, &pubsubpb.GetSubscriptionRequest{Subscription: nm})
					apiChecked++
					if status.Code(err) != codes.InvalidArgument && status.Code(err) != codes.Unknown || gerr == nil {
						violate("api-repeat", fmt.Sprintf("CreateSubscription with invalid filter %q was rejected the first time; offered again (request %d) the answer is err=%v, subscription exists=%v", s, rep+2, err, gerr == nil), true, s)
						return false
					}
				}
			}
			return true
		}
		// the same validation on the update path: UpdateSubscription(mask=filter)
		const uname = "projects/p/subscriptions/upd"
		if _, err := sub.CreateSubscription(w.Ctx, &pubsubpb.Subscription{Name: uname, Topic: "projects/p/topics/t", Filter: "attributes:seed"}); err != nil {
			t.Fatal(err)
		}
		// (and a subscription that has no filter yet: its first filter is validated like any other)
		const uname0 = "projects/p/subscriptions/upd0"
		if _, err := sub.CreateSubscription(w.Ctx, &pubsubpb.Subscription{Name: uname0, Topic: "projects/p/topics/t"}); err != nil {
			t.Fatal(err)
		}
		var tryUpdateOn func(uname, s string, wantOK bool) bool
		nUpd := 0
		tryUpdate := func(s string, wantOK bool) bool {
			if !wantOK && !tryUpdateOn(uname0, s, false) {
				return false
			}
			return tryUpdateOn(uname, s, wantOK)
		}
		tryUpdateOn = func(uname, s string, wantOK bool) bool {
			if strings.ToValidUTF8(s, "") != s || s == "" {
				return true
			}
			before, _ := sub.GetSubscription(w.Ctx, &pubsubpb.GetSubscriptionRequest{Subscription: uname})
			// the filter is validated wherever "filter" stands in the update mask
			masks := [][]string{{"filter"}, {"labels", "filter"}, {"filter", "labels"}, {"enable_message_ordering", "labels", "filter"}, {"filter"}}
			mask := masks[nUpd%len(masks)]
			nUpd++
			_, err := sub.UpdateSubscription(w.Ctx, &pubsubpb.UpdateSubscriptionRequest{
				Subscription: &pubsubpb.Subscription{Name: uname, Filter: s, Labels: before.GetLabels(), EnableMessageOrdering: before.GetEnableMessageOrdering()}, UpdateMask: &fieldmaskpb.FieldMask{Paths: mask}})
			after, gerr := sub.GetSubscription(w.Ctx, &pubsubpb.GetSubscriptionRequest{Subscription: uname})
			apiChecked++
			if gerr != nil {
				violate("api-update", fmt.Sprintf("subscription unreadable after UpdateSubscription(filter=%q): %v", s, gerr), true, s)
				return false
			}
			if wantOK && (err != nil || after.Filter != s) {
				violate("api-update", fmt.Sprintf("UpdateSubscription (mask %v) with the grammar sentence %q as filter: err=%v, stored filter %q", mask, s, err, after.Filter), true, s)
				return false
			}
			if !wantOK && (err == nil || after.Filter != before.Filter) {
				violate("api-update", fmt.Sprintf("UpdateSubscription of %s (mask %v) with the non-sentence %q as filter: err=%v, stored filter %q -> %q", uname, mask, s, err, before.Filter, after.Filter), true, s)
				return false
			}
			return true
		}
		// strings around the edges of what a handler might "normalise" before validating: always sent
		edge := []string{" ", "\t \n", "attributes:x\f", "\u00a0attributes:x", " attributes:x ", "attributes:x\n", "\vattributes:x", "attributes:x;", "ATTRIBUTES:x", "attributes:x AND", "()", "\"\""}
		for k, s := range edge {
			_, perr, crashed := parseGo(s)
			if crashed != "" {
				continue
			}
			if !try(s, perr == nil, 900000+k) || !tryUpdate(s, perr == nil) {
				return
			}
		}
		sort.Strings(acceptedInputs)
		for k := 0; k < nAPI/2 && k < len(acceptedInputs); k++ {
			if !tryUpdate(acceptedInputs[(k*11)%len(acceptedInputs)], true) {
				return
			}
		}
		for k := 0; k < nAPI/2 && k < len(rejectedInputs); k++ {
			if !tryUpdate(rejectedInputs[(k*11)%len(rejectedInputs)], false) {
				return
			}
		}
		for k := 0; k < nAPI && k < len(acceptedInputs); k++ {
			if !try(acceptedInputs[(k*7)%len(acceptedInputs)], true, k) {
				return
			}
		}
		for k := 0; k < nAPI && k < len(rejectedInputs); k++ {
			if !try(rejectedInputs[(k*7)%len(rejectedInputs)], false, nAPI+k) {
				return
			}
		}
	})
	for k, v := range kinds {
		st.Count("inputs_"+k, v)
	}
	st.Count("accepted", accepted)
	st.Count("rejected", rejected)
	st.Count("api_create_checked", apiChecked)
	st.Set("evaluations", len(inputs))
	st.Set("rule", "strings generated from the grammar (all shapes to depth 3, quoting/escape/whitespace variants), single-token deletions/duplications/substitutions of them, hand-written boundary strings and fuzzed byte strings <= 64 bytes; distinct = distinct accepted ASTs; samples of both classes through CreateSubscription (every rejected string offered three times) and UpdateSubscription (the filter path at every position of the mask)")
	st.Set("traces_validated_against_impl", len(inputs)-skipped)
	st.Set("skipped_unsupported_by_model", skipped)
	for i := 0; i < 3 && i < len(acceptedInputs); i++ {
		st.Sample(map[string]string{"accepted": acceptedInputs[i]})
	}
	for i := 0; i < 2 && i < len(rejectedInputs); i++ {
		st.Sample(map[string]string{"rejected": rejectedInputs[i]})
	}
	st.Summary = fmt.Sprintf("inputs=%d accepted=%d rejected=%d disagreements=%d skipped=%d", len(inputs), accepted, rejected, disagreements, skipped)
}

func utf8Clean(s string) bool { return strings.ToValidUTF8(s, "") == s }
