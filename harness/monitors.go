package harness

// Implementation-side property monitors: each looks only at what the real code did (responses,
// table rows before/after an operation, the virtual clock) — never at the Lean model.  A firing
// monitor is a concrete failing history.

import (
	"encoding/json"
	"fmt"
	"math/big"
	"reflect"
	"sort"
	"strings"
	"time"

	"github.com/google/uuid"

	"go.6river.tech/mmmbbb/ent"
	"go.6river.tech/mmmbbb/internal/sqltypes"
)

type Finding struct {
	Prop string // C01 …
	Sig  string // witness kind (matched against KNOWN_FINDINGS)
	What string
	At   int // index of the operation
}

type pubRecord struct {
	n       int
	id      uuid.UUID
	payload string
	attrs   map[string]string
	key     string
	t       int64
}

type leaseRecord struct {
	attempt  int
	t        int64
	deadline int64 // earliest instant the next hand-out is allowed
}

type snapRecord struct {
	sub     uuid.UUID
	topic   uuid.UUID
	t       int64
	unacked map[uuid.UUID]bool // message ids open on the subscription
	acked   map[uuid.UUID]bool // message ids completed on the subscription
}

// Monitors accumulates the observable history.
type Monitors struct {
	Findings []Finding
	idx      int
	pubs     map[uuid.UUID]*pubRecord // by message id
	leases   map[uuid.UUID]*leaseRecord
	acked    map[uuid.UUID]int64 // delivery id -> instant of the successful ack
	lastSeek map[uuid.UUID]int64 // subscription id -> instant of the last seek
	// the retry policy each subscription was asked to have (CreateSubscription / UpdateSubscription
	// requests; 0 = not given), independent of what the implementation stored
	policy map[uuid.UUID][2]int64
	// the dead-letter policy each subscription was asked to have (set = known to the monitor)
	reqDL map[uuid.UUID]dlReq
	// deliveries a seek re-opened although their retention had ended
	revivedExpired map[uuid.UUID]bool
	// the delivery delay that was injected on the subscription when the delivery was enqueued
	delayAt map[uuid.UUID]int64
	doneAt  map[uuid.UUID]int64 // when a delivery was seen to become completed (observer's clock)
	// the filter a subscription had when a delivery was routed to it
	enqFilter map[uuid.UUID]string
	// maintenance jobs that failed: the other jobs that completed a round with minimum age 0 since
	jobRounds map[string]map[string]bool
	reopened  map[uuid.UUID]bool     // deliveries re-opened by a seek at some point
	handouts  map[uuid.UUID]int      // delivery id -> number of times handed out (since last re-open)
	snaps     map[string]*snapRecord // by snapshot name
	lastPull  map[uuid.UUID]int64    // subscription id -> last pull / creation / ttl update
	dlDone    map[uuid.UUID]bool     // deliveries already dead-lettered
	Counts    map[string]int
	// ordered deliveries whose predecessor link, when they were published, was not the newest
	// same-key delivery of the subscription still inside its retention
	linkMissing  map[uuid.UUID]bool
	overtaken    map[string]string // chain (subscription/key) -> signature of its first overtake
	LinkMismatch []LinkMis
	seekAcked    map[uuid.UUID]bool // deliveries completed by a seek
}

// LinkMis records where a wrong predecessor link was made (directs the violation search).
type LinkMis struct {
	At            int
	Sub           string
	PredPublished int64
}

func NewMonitors() *Monitors {
	return &Monitors{pubs: map[uuid.UUID]*pubRecord{}, leases: map[uuid.UUID]*leaseRecord{}, acked: map[uuid.UUID]int64{},
		policy: map[uuid.UUID][2]int64{}, reqDL: map[uuid.UUID]dlReq{}, revivedExpired: map[uuid.UUID]bool{}, delayAt: map[uuid.UUID]int64{}, doneAt: map[uuid.UUID]int64{}, enqFilter: map[uuid.UUID]string{}, jobRounds: map[string]map[string]bool{}, lastSeek: map[uuid.UUID]int64{}, reopened: map[uuid.UUID]bool{}, handouts: map[uuid.UUID]int{}, snaps: map[string]*snapRecord{},
		lastPull: map[uuid.UUID]int64{}, dlDone: map[uuid.UUID]bool{}, Counts: map[string]int{}, linkMissing: map[uuid.UUID]bool{}, seekAcked: map[uuid.UUID]bool{}, overtaken: map[string]string{}}
}

// alsoViolates: an observation made by one property's monitor that contradicts the statement of
// another property as well is reported under both.
var alsoViolates = map[string][][2]string{
	"C13/other-sub":                   {{"C02", "seek-other-sub"}, {"C14", "seek-touched-other-sub"}}, // subscription independence; its rows' retention is its own
	"C13/snapshot-deacked":            {{"C03", "deacked-by-snapshot-seek"}},                          // the snapshot was taken after the ack: seeking to it rewinds nothing
	"C06/after-done":                  {{"C03", "dead-lettered-after-ack"}},                           // an acknowledged message is never handed out again
	"C13/snapshot-not-restored":       {{"C01", "lost-by-seek"}, {"C02", "lost-by-seek"}},             // a never-acknowledged delivery was retired
	"C13/not-restored":                {{"C01", "lost-by-seek"}},
	"C13/snapshot-later-not-restored": {{"C01", "lost-by-seek"}},
	"C13/restore-times":               {{"C14", "retention-not-restarted"}},
	"C13/seek-revived-expired":        {{"C14", "revived-after-retention"}},   // deliverable for exactly its retention
	"C14/pull-did-not-restart-expiry": {{"C15", "live-subscription-expired"}}, // the expiry job then removes a subscription that is in use
	"C14/expired-early":               {{"C15", "live-subscription-expired"}}, // the expiry job removed a subscription that is in use
	"C14/ttl-update-clock":            {{"C15", "live-subscription-expired"}}, // the expiry job then removes a live subscription
	"C13/row-lost":                    {{"C01", "lost"}},
	"C15/pruned-outstanding":          {{"C01", "lost"}},            // an unacknowledged, retained message is gone
	"C15/prune-unblocked":             {{"C05", "prune-unblocked"}}, // the successor is released while its predecessor was never acknowledged, expired or dead-lettered
	"C06/forward-missing":             {{"C01", "forward-missing"}},
	"C06/forward-filter":              {{"C02", "forward-filter"}, {"C07", "forward-filter"}},
	"C06/wrong-target":                {{"C02", "wrong-target"}},
	"C14/retention-at-publish":        {{"C01", "retention-at-publish"}}, // the message stops being offered before its retention ends
}

func (m *Monitors) fire(prop, sig, f string, a ...any) {
	what := fmt.Sprintf(f, a...)
	m.Findings = append(m.Findings, Finding{Prop: prop, Sig: sig, What: what, At: m.idx})
	for _, o := range alsoViolates[prop+"/"+sig] {
		m.Findings = append(m.Findings, Finding{Prop: o[0], Sig: o[1], What: what, At: m.idx})
	}
}

func isOpenRow(d *ent.Delivery, t int64) bool {
	return d != nil && d.CompletedAt == nil && ns(d.ExpiresAt) > t
}

// NominalNs is the exact value of min(maxBackoff, minBackoff·1.1ⁿ) in ns, rounded down,
// computed independently of the implementation and of the Lean model.
func NominalNs(minB, maxB *int64, n int) int64 {
	mn, mx := int64(10*Sec), int64(600*Sec)
	if minB != nil && *minB > 0 {
		mn = *minB
	}
	if maxB != nil && *maxB > 0 {
		mx = *maxB
	}
	num := new(big.Int).Exp(big.NewInt(11), big.NewInt(int64(n)), nil)
	den := new(big.Int).Exp(big.NewInt(10), big.NewInt(int64(n)), nil)
	v := new(big.Int).Mul(big.NewInt(mn), num)
	v.Quo(v, den)
	if v.Cmp(big.NewInt(mx)) > 0 {
		return mx
	}
	return v.Int64()
}

func subBackoff(s *ent.Subscription) (minB, maxB *int64) {
	if s.MinBackoff != nil {
		v := int64(*s.MinBackoff)
		minB = &v
	}
	if s.MaxBackoff != nil {
		v := int64(*s.MaxBackoff)
		maxB = &v
	}
	return
}

func hasFullDL(s *ent.Subscription) bool {
	return s != nil && s.MaxDeliveryAttempts != nil && s.DeadLetterTopicID != nil && *s.MaxDeliveryAttempts > 0
}

func jsonEqual(a, b string) bool {
	var x, y interface{}
	da := json.NewDecoder(strings.NewReader(a))
	da.UseNumber()
	db := json.NewDecoder(strings.NewReader(b))
	db.UseNumber()
	if da.Decode(&x) != nil || db.Decode(&y) != nil {
		return a == b
	}
	return reflect.DeepEqual(x, y)
}

func attrsEqual(a, b map[string]string) bool {
	if len(a) != len(b) {
		return false
	}
	for k, v := range a {
		if w, ok := b[k]; !ok || w != v {
			return false
		}
	}
	return true
}

// reference semantics of the generator's filter strings (independent of the real evaluator)
var filterSem = map[string]func(a map[string]string) bool{
	"":                            func(a map[string]string) bool { return true },
	`attributes:x`:                func(a map[string]string) bool { _, ok := a["x"]; return ok },
	`attributes.x="1"`:            func(a map[string]string) bool { v, ok := a["x"]; return ok && v == "1" },
	`NOT attributes:x`:            func(a map[string]string) bool { _, ok := a["x"]; return !ok },
	`-attributes:"x"`:             func(a map[string]string) bool { _, ok := a["x"]; return !ok },
	`hasPrefix(attributes.y,"a")`: func(a map[string]string) bool { v, ok := a["y"]; return ok && strings.HasPrefix(v, "a") },
	`attributes:x OR attributes.y!="b"`: func(a map[string]string) bool {
		_, okx := a["x"]
		v, oky := a["y"]
		return okx || (oky && v != "b")
	},
	`attributes:z OR attributes:x OR attributes.y="ab"`: func(a map[string]string) bool {
		_, okx := a["x"]
		_, okz := a["z"]
		return okz || okx || a["y"] == "ab" && has(a, "y")
	},
	`attributes:x AND attributes:y AND NOT attributes:z`: func(a map[string]string) bool {
		return has(a, "x") && has(a, "y") && !has(a, "z")
	},
	// filters of the C07 delivery-level scenario
	`-attributes:x`:                                  func(a map[string]string) bool { return !has(a, "x") },
	`attributes.x != "a"`:                            func(a map[string]string) bool { return has(a, "x") && a["x"] != "a" },
	`NOT attributes.x = "a" OR attributes:y`:         func(a map[string]string) bool { return !(has(a, "x") && a["x"] == "a") || has(a, "y") },
	`hasPrefix(attributes.x, "a")`:                   func(a map[string]string) bool { return has(a, "x") && strings.HasPrefix(a["x"], "a") },
	`NOT hasPrefix(attributes.x, "a")`:               func(a map[string]string) bool { return !(has(a, "x") && strings.HasPrefix(a["x"], "a")) },
	`attributes:x OR attributes:y OR attributes:z`:   func(a map[string]string) bool { return has(a, "x") || has(a, "y") || has(a, "z") },
	`attributes:x AND attributes:y AND attributes:z`: func(a map[string]string) bool { return has(a, "x") && has(a, "y") && has(a, "z") },
	`attributes:x AND (NOT attributes.y="b" OR attributes:z)`: func(a map[string]string) bool {
		_, okx := a["x"]
		v, oky := a["y"]
		_, okz := a["z"]
		return okx && (!(oky && v == "b") || okz)
	},
}

func has(a map[string]string, k string) bool { _, ok := a[k]; return ok }

func subTakes(s *ent.Subscription, attrs map[string]string) (bool, bool) {
	f := ""
	if s.MessageFilter != nil {
		f = *s.MessageFilter
	}
	sem, ok := filterSem[f]
	if !ok {
		return false, false
	}
	return sem(attrs), true
}

// eligibleRows computes, from the rows before a pull, what the pull may hand out.
func eligibleRows(r *Result, sub *ent.Subscription) map[uuid.UUID]*ent.Delivery {
	out := map[uuid.UUID]*ent.Delivery{}
	for id, d := range r.Before {
		if d.SubscriptionID != sub.ID || !isOpenRow(d, r.T) || ns(d.AttemptAt) > r.T {
			continue
		}
		if sub.OrderedDelivery && d.NotBeforeID != uuid.Nil {
			p := r.Before[d.NotBeforeID]
			if p == nil || !(p.CompletedAt != nil || ns(p.ExpiresAt) <= r.T) {
				continue
			}
		}
		out[id] = d
	}
	return out
}

func liveSubByName(subs map[uuid.UUID]*ent.Subscription, name string) *ent.Subscription {
	for _, s := range subs {
		if s.Name == name && s.DeletedAt == nil {
			return s
		}
	}
	return nil
}

type dlReq struct {
	topic *uuid.UUID // nil = no dead-letter policy
	max   int32
}

// asRequested returns the subscription rows with the retry and dead-letter policy the clients asked for
// (CreateSubscription / UpdateSubscription requests seen by the monitor) in place of whatever the
// implementation says it stored: the monitors judge the data plane against the requested configuration.
func (m *Monitors) asRequested(subs map[uuid.UUID]*ent.Subscription) map[uuid.UUID]*ent.Subscription {
	out := make(map[uuid.UUID]*ent.Subscription, len(subs))
	for id, s := range subs {
		pol, hasPol := m.policy[id]
		dl, hasDL := m.reqDL[id]
		if !hasPol && !hasDL {
			out[id] = s
			continue
		}
		c := *s
		if hasPol {
			c.MinBackoff, c.MaxBackoff = nil, nil
			if pol[0] > 0 {
				v := sqltypes.Interval(pol[0])
				c.MinBackoff = &v
			}
			if pol[1] > 0 {
				v := sqltypes.Interval(pol[1])
				c.MaxBackoff = &v
			}
		}
		if hasDL {
			c.DeadLetterTopicID, c.MaxDeliveryAttempts = nil, nil
			if dl.topic != nil {
				t, n := *dl.topic, dl.max
				c.DeadLetterTopicID, c.MaxDeliveryAttempts = &t, &n
			}
		}
		out[id] = &c
	}
	return out
}

func liveTopicID(topics map[uuid.UUID]*ent.Topic, name string) *uuid.UUID {
	for id, t := range topics {
		if t.Name == name && t.DeletedAt == nil {
			id := id
			return &id
		}
	}
	return nil
}

// Observe checks one executed operation against every property monitor.
func (m *Monitors) Observe(idx int, r *Result) {
	m.idx = idx
	op := r.Op
	now := r.T
	ok := strings.HasPrefix(r.Resp, "ok")
	{
		rr := *r
		rr.SubsBefore = m.asRequested(r.SubsBefore)
		r = &rr
	}

	// ---------- bookkeeping of rows a seek acknowledged ----------
	if op.K == "seek_time" || op.K == "seek_snap" {
		for id, b := range r.Before {
			if a := r.After[id]; a != nil && b.CompletedAt == nil && a.CompletedAt != nil {
				m.seekAcked[id] = true
			}
		}
	}
	// ---------- the monitor's own clock of completions (any op): the stored completed_at is what
	// the age-based jobs go by, so it is not taken on trust ----------
	for id, a := range r.After {
		b := r.Before[id]
		if a.CompletedAt != nil && (b == nil || b.CompletedAt == nil) {
			m.doneAt[id] = r.TAfter
		} else if a.CompletedAt == nil {
			delete(m.doneAt, id)
		}
	}
	// ---------- bookkeeping of re-opened rows (any op) ----------
	for id, b := range r.Before {
		if a := r.After[id]; a != nil && b.CompletedAt != nil && a.CompletedAt == nil {
			m.reopened[id] = true
			delete(m.acked, id)
			delete(m.leases, id)
			delete(m.dlDone, id)
			m.handouts[id] = 0
			if op.K == "seek_time" && ns(b.ExpiresAt) < now {
				// a seek to a time brings back "exactly the retained messages": a delivery past its retention
				// stays gone (a seek to a snapshot restores the snapshot's set, not-yet-pruned expired rows included)
				m.revivedExpired[id] = true
				m.fire("C13", "seek-revived-expired", "Seek on %s re-opened delivery %s whose retention had ended at %d (now %d)", op.Sub, id, ns(b.ExpiresAt), now)
			}
			if op.K != "seek_time" && op.K != "seek_snap" {
				m.fire("C03", "resurrect", "operation %s re-opened completed delivery %s", op.K, id)
			} else if s := liveSubByName(r.SubsBefore, SubName(op.Sub)); s == nil || s.ID != b.SubscriptionID {
				// only the subscription that is sought may be rewound
				m.fire("C03", "resurrect-other-sub", "Seek on subscription %s re-opened completed delivery %s of another subscription", op.Sub, id)
			}
		}
	}

	// ---------- C01 frame: an open delivery stays open unless legitimately terminated ----------
	if op.K != "advance" {
		ids := map[uuid.UUID]bool{}
		for _, id := range r.Ids {
			ids[id] = true
		}
		var pulled *ent.Subscription
		if op.K == "pull" || op.K == "seek_time" || op.K == "seek_snap" {
			pulled = liveSubByName(r.SubsBefore, SubName(op.Sub))
		}
		for id, b := range r.Before {
			if !isOpenRow(b, now) {
				continue
			}
			a := r.After[id]
			if a != nil && isOpenRow(a, r.TAfter) {
				continue
			}
			sub := r.SubsBefore[b.SubscriptionID]
			legit := false
			switch op.K {
			case "ack":
				legit = ids[id]
			case "nack":
				legit = ids[id] && hasFullDL(sub) && b.Attempts >= int(*sub.MaxDeliveryAttempts)
			case "pull":
				legit = pulled != nil && b.SubscriptionID == pulled.ID && hasFullDL(sub) && b.Attempts >= int(*sub.MaxDeliveryAttempts) && ns(b.AttemptAt) <= now
			case "dl_sweep":
				legit = sub != nil && sub.DeletedAt == nil && hasFullDL(sub) && b.Attempts >= int(*sub.MaxDeliveryAttempts) && ns(b.AttemptAt) <= now
			case "seek_time", "seek_snap":
				legit = pulled != nil && b.SubscriptionID == pulled.ID
			case "prune_deleted_sub_deliveries":
				legit = a == nil && sub != nil && sub.DeletedAt != nil
			}
			if a != nil && ns(a.ExpiresAt) <= r.TAfter && a.CompletedAt == nil {
				legit = true // retention ended while the operation ran (clock tick)
			}
			if !legit {
				m.fire("C01", "lost", "operation %s made outstanding delivery %s (subscription %s, attempts %d) disappear (row present after: %v)", op.String(), id, nameOf(sub), b.Attempts, a != nil)
			}
		}
	}

	if r.Lost != "" {
		m.fire("C01", "publish-lost", "%s", r.Lost)
	}
	switch op.K {
	case "create_sub":
		if ok {
			if s := liveSubByName(r.SubsAfter, SubName(op.Sub)); s != nil {
				m.lastPull[s.ID] = now
				if op.Cfg != nil {
					m.policy[s.ID] = [2]int64{op.Cfg.MinB, op.Cfg.MaxB}
					switch {
					case op.Cfg.DLT == "" && op.Cfg.MaxAtt == 0:
						m.reqDL[s.ID] = dlReq{}
					case op.Cfg.DLT != "" && op.Cfg.MaxAtt > 0:
						m.reqDL[s.ID] = dlReq{topic: liveTopicID(r.TopicsBefore, TopicName(op.Cfg.DLT)), max: op.Cfg.MaxAtt}
					}
				}
			}
		}
	case "publish":
		if !ok {
			// a failed publish must not leave anything behind
			if len(r.After) != len(r.Before) {
				m.fire("C01", "failed-publish-enqueued", "failed publish changed the deliveries table")
			}
			break
		}
		m.Counts["publishes"]++
		var topic *ent.Topic
		for _, t := range r.TopicsBefore {
			if t.Name == TopicName(op.Topic) && t.DeletedAt == nil {
				topic = t
			}
		}
		for i, id := range r.MsgIDs {
			spec := op.Msgs[i]
			m.pubs[id] = &pubRecord{n: spec.N, id: id, payload: string(payloadOf(spec)), attrs: spec.Attrs, key: spec.Key, t: now}
			if stored := r.Msgs[id]; stored != nil {
				if !jsonEqual(string(payloadOf(spec)), string(stored.Payload)) {
					m.fire("C02", "payload", "message n=%d published as %s is stored as %s", spec.N, payloadOf(spec), stored.Payload)
				}
				if !attrsEqual(spec.Attrs, stored.Attributes) {
					m.fire("C02", "attributes", "message n=%d published with attributes %v is stored with %v", spec.N, spec.Attrs, stored.Attributes)
				}
			}
			if topic == nil {
				continue
			}
			// exactly one new open delivery on every live subscription whose filter holds
			got := map[uuid.UUID]int{}
			for did, d := range r.After {
				if d.MessageID == id && r.Before[did] == nil {
					got[d.SubscriptionID]++
					if !isOpenRow(d, r.TAfter) && ns(d.ExpiresAt) > r.TAfter {
						m.fire("C01", "enqueue", "delivery of a fresh message is not open")
					}
					if sb := r.SubsBefore[d.SubscriptionID]; sb != nil {
						// retained for the subscription's message retention from its publish, first due after the injected delay
						if ns(d.ExpiresAt) != ns(d.PublishedAt)+int64(sb.MessageTTL) {
							m.fire("C14", "retention-at-publish", "message n=%d on subscription %s (retention %d ns) is retained for %d ns from its publish", spec.N, sb.Name, int64(sb.MessageTTL), ns(d.ExpiresAt)-ns(d.PublishedAt))
						}
						m.delayAt[did] = int64(sb.DeliveryDelay)
						m.enqFilter[did] = strOf(sb.MessageFilter)
						if ns(d.AttemptAt) != ns(d.PublishedAt)+int64(sb.DeliveryDelay) {
							m.fire("C14", "delay-at-publish", "message n=%d on subscription %s (injected delay %d ns) is first due %d ns after its publish", spec.N, sb.Name, int64(sb.DeliveryDelay), ns(d.AttemptAt)-ns(d.PublishedAt))
						}
					}
				}
			}
			for _, s := range r.SubsBefore {
				if s.TopicID != topic.ID || s.DeletedAt != nil {
					if got[s.ID] != 0 {
						m.fire("C02", "foreign-enqueue", "message published to %s enqueued on subscription %s of another topic / deleted", op.Topic, s.Name)
					}
					continue
				}
				want, known := subTakes(s, spec.Attrs)
				if !known {
					continue
				}
				m.Counts["enqueue_checks"]++
				if want && got[s.ID] != 1 {
					m.fire("C01", "enqueue", "published message n=%d attrs=%v: subscription %s (filter %q) received %d deliveries, expected 1", spec.N, spec.Attrs, s.Name, strOf(s.MessageFilter), got[s.ID])
				}
				if !want && got[s.ID] != 0 {
					m.fire("C07", "filter-delivery", "published message n=%d attrs=%v was enqueued on subscription %s whose filter %q it does not satisfy", spec.N, spec.Attrs, s.Name, strOf(s.MessageFilter))
				}
			}
			// predecessor link of the new ordered deliveries: the newest same-key delivery of the
			// subscription that is still inside its retention (acknowledged or not)
			if spec.Key != "" {
				for did, d := range r.After {
					if d.MessageID != id || r.Before[did] != nil {
						continue
					}
					s := r.SubsBefore[d.SubscriptionID]
					if s == nil || !s.OrderedDelivery {
						continue
					}
					var exp *ent.Delivery
					for oid, o := range r.After {
						if oid == did || o.SubscriptionID != s.ID || !o.PublishedAt.Before(d.PublishedAt) || !o.ExpiresAt.After(d.PublishedAt) {
							continue
						}
						om := r.Msgs[o.MessageID]
						if om == nil || om.OrderKey == nil || *om.OrderKey != spec.Key {
							continue
						}
						if exp == nil || o.PublishedAt.After(exp.PublishedAt) {
							exp = o
						}
					}
					m.Counts["link_checks"]++
					want := uuid.Nil
					if exp != nil {
						want = exp.ID
					}
					if d.NotBeforeID != want {
						m.Counts["link_mismatch"]++
						m.linkMissing[did] = true
						if exp != nil {
							m.LinkMismatch = append(m.LinkMismatch, LinkMis{At: m.idx, Sub: strings.TrimPrefix(s.Name, SubName("")), PredPublished: ns(exp.PublishedAt)})
						}
					}
				}
			}
		}
	case "pull":
		sub := liveSubByName(r.SubsBefore, SubName(op.Sub))
		if !ok || sub == nil {
			break
		}
		m.lastPull[sub.ID] = r.TAfter
		m.Counts["pulls"]++
		// every pull, also one that waited and came back empty, restarts the subscription's expiry clock
		// when it ends: afterwards the subscription expires one TTL from then
		if a := r.SubsAfter[sub.ID]; a != nil && a.DeletedAt == nil {
			if want := r.TAfter + int64(a.TTL); ns(a.ExpiresAt) < want-int64(Ms) || ns(a.ExpiresAt) > want+int64(Ms) {
				m.fire("C14", "pull-did-not-restart-expiry", "pull on %s ended at t=%d (began at %d, %d messages); the subscription (TTL %d ns) now expires at %d, expected %d", sub.Name, r.TAfter, now, len(r.Delivered), int64(a.TTL), ns(a.ExpiresAt), want)
			}
			m.Counts["pull_expiry_checks"]++
		}
		if len(r.Delivered) > 0 {
			m.Counts["pulls_nonempty"]++
		}
		if len(r.Delivered) > op.Max {
			m.fire("C02", "too-many", "pull max=%d returned %d messages", op.Max, len(r.Delivered))
		}
		elig := eligibleRows(r, sub)
		seen := map[uuid.UUID]bool{}
		maxBytes := op.MaxBytes
		if maxBytes == 0 {
			maxBytes = 10 << 20
		}
		for _, d := range r.Delivered {
			if seen[d.ID] {
				m.fire("C02", "duplicate", "delivery %s twice in one pull response", d.ID)
			}
			seen[d.ID] = true
			b := r.Before[d.ID]
			if b == nil || b.SubscriptionID != sub.ID {
				m.fire("C02", "foreign", "pull on %s returned delivery %s that belongs to another subscription", sub.Name, d.ID)
				continue
			}
			if b.CompletedAt != nil {
				m.fire("C03", "redelivered-after-ack", "pull on %s returned delivery %s that was already completed", sub.Name, d.ID)
			}
			if ns(b.ExpiresAt) <= now {
				m.fire("C14", "delivered-after-retention", "pull on %s at t=%d returned delivery %s whose retention ended at %d", sub.Name, now, d.ID, ns(b.ExpiresAt))
			}
			if ns(b.AttemptAt) > now {
				m.fire("C04", "early", "pull on %s at t=%d returned delivery %s which is not due before %d", sub.Name, now, d.ID, ns(b.AttemptAt))
			}
			if elig[d.ID] == nil && sub.OrderedDelivery && b.CompletedAt == nil && ns(b.ExpiresAt) > now && ns(b.AttemptAt) <= now {
				m.fire("C05", "blocked-delivered", "ordered subscription %s handed out delivery %s whose predecessor is still outstanding", sub.Name, d.ID)
			}
			// content
			if p := m.pubs[d.MsgID]; p != nil {
				if !jsonEqual(p.payload, d.Payload) {
					m.fire("C02", "payload", "message n=%d published as %s delivered as %s", p.n, p.payload, d.Payload)
				}
				if !attrsEqual(p.attrs, d.Attrs) || p.key != d.Key {
					m.fire("C02", "attributes", "message n=%d published with attrs=%v key=%q delivered with attrs=%v key=%q", p.n, p.attrs, p.key, d.Attrs, d.Key)
				}
				// the filter routes a message when it is published (or forwarded) to the subscription: the
				// one in force then decides (UpdateSubscription may have replaced it since)
				if f, rec := m.enqFilter[d.ID]; rec {
					if sem, known := filterSem[f]; known && !sem(p.attrs) {
						m.fire("C02", "filter", "subscription %s (filter %q when the message was routed) delivered message n=%d with attrs %v", sub.Name, f, p.n, p.attrs)
					}
				}
			} else {
				m.fire("C02", "unknown-message", "pull returned message id %s that no publish call returned", d.MsgID)
			}
			// acked ids never come back unless a seek happened after the ack
			if at, was := m.acked[d.ID]; was && m.lastSeek[sub.ID] < at {
				m.fire("C03", "redelivered-after-ack", "delivery %s acked at t=%d delivered again at t=%d without a seek in between", d.ID, at, now)
			}
			// lease
			if l := m.leases[d.ID]; l != nil {
				if now < l.deadline {
					m.fire("C04", "lease", "delivery %s (attempt %d at t=%d) handed out again at t=%d, before its retry deadline %d", d.ID, l.attempt, l.t, now, l.deadline)
				}
				if d.Attempt != l.attempt+1 {
					m.fire("C04", "attempt-number", "delivery %s attempt %d followed by attempt %d", d.ID, l.attempt, d.Attempt)
				}
			} else if d.Attempt != b.Attempts+1 {
				m.fire("C04", "attempt-number", "delivery %s with %d previous attempts reported as attempt %d", d.ID, b.Attempts, d.Attempt)
			}
			minB, maxB := subBackoff(sub)
			if pol, known := m.policy[sub.ID]; known {
				// the policy the client asked for, not the one the implementation says it stored
				minB, maxB = &pol[0], &pol[1]
			}
			nominal := NominalNs(minB, maxB, d.Attempt)
			tol := nominal/(1<<40) + 2
			a := r.After[d.ID]
			if a != nil {
				lease := ns(a.AttemptAt) - now
				hi := nominal + tol + Sec
				if nominal+tol <= Sec/2 {
					hi = nominal + tol + 1
				}
				if lease < nominal-tol || lease >= hi {
					m.fire("C04", "backoff", "delivery %s attempt %d: next attempt in %d ns, expected min(max, min·1.1ⁿ)=%d ns plus jitter < 1 s", d.ID, d.Attempt, lease, nominal)
				}
				if a.Attempts != b.Attempts+1 {
					m.fire("C04", "attempt-number", "delivery %s: stored attempts %d -> %d", d.ID, b.Attempts, a.Attempts)
				}
			}
			m.leases[d.ID] = &leaseRecord{attempt: d.Attempt, t: now, deadline: now + nominal - tol}
			m.handouts[d.ID]++
			if dl, known := m.delayAt[d.ID]; known && dl > 0 && now < ns(b.PublishedAt)+dl {
				sig := "delivered-before-delay"
				if m.reopened[d.ID] {
					// acknowledged by a Seek forward before it was ever due, re-opened by a Seek back (attempt_at = now)
					sig = "delay-skipped-after-seek"
				}
				m.fire("C14", sig, "delivery %s (enqueued at %d with an injected delay of %d ns) was handed out at %d, %d ns after its publish", d.ID, ns(b.PublishedAt), dl, now, now-ns(b.PublishedAt))
			}
			if hasFullDL(sub) && m.handouts[d.ID] > int(*sub.MaxDeliveryAttempts) && !m.reopened[d.ID] {
				m.fire("C06", "too-many-attempts", "delivery %s handed out %d times on %s with max_delivery_attempts=%d", d.ID, m.handouts[d.ID], sub.Name, *sub.MaxDeliveryAttempts)
			}
			// C05 per-key order
			if sub.OrderedDelivery && d.Key != "" {
				for oid, o := range r.Before {
					if oid == d.ID || o.SubscriptionID != sub.ID || !isOpenRow(o, now) || !o.PublishedAt.Before(b.PublishedAt) {
						continue
					}
					om := r.Msgs[o.MessageID]
					if om == nil || om.OrderKey == nil || *om.OrderKey != d.Key {
						continue
					}
					sig := "overtake"
					if m.linkMissing[d.ID] {
						// the overtaking delivery was not linked behind its same-key predecessor when it was
						// published although that predecessor was inside its retention: not the recorded finding
						sig = "overtake-link-missing"
					} else if pred := r.Before[b.NotBeforeID]; b.NotBeforeID != uuid.Nil && pred != nil && pred.CompletedAt == nil && ns(pred.ExpiresAt) <= now &&
						pred.PublishedAt.After(o.PublishedAt) && !m.reopened[oid] && !m.reopened[pred.ID] {
						// the delivery it was linked behind has expired, unacknowledged, while the older one has not:
						// the retention of the subscription was shortened between the two publishes (UpdateSubscription)
						sig = "overtake-retention-shortened"
					} else if m.reopened[oid] && m.revivedExpired[oid] {
						// the predecessor's retention had ended before the overtaking message was published (no link
						// is due then); a seek brought it back regardless: not the recorded finding
						sig = "overtake-expired-predecessor-revived"
					} else if m.reopened[oid] {
						sig = "overtake-seek-reopened-predecessor"
					} else if m.seekAcked[b.NotBeforeID] {
						// the delivery this one was linked behind was acknowledged by a seek (it is in the
						// snapshot's acked list / before the seek time) while an older one is still outstanding
						sig = "overtake-seek-acked-middle"
					}
					// once a chain (subscription, key) has been overtaken in one of the recorded ways, a delivery has
					// been handed out — and may since have been acknowledged — ahead of an outstanding older one:
					// what happens on that chain afterwards follows from that, and is reported under the same name
					chain := sub.ID.String() + "/" + d.Key
					if first, seen := m.overtaken[chain]; seen && sig == "overtake" && first != "overtake" && first != "overtake-link-missing" {
						sig = first
					} else if !seen {
						m.overtaken[chain] = sig
					}
					m.fire("C05", sig, "ordered subscription %s delivered key %q message (delivery %s, published %d) while earlier same-key delivery %s (published %d, attempts %d) is outstanding", sub.Name, d.Key, d.ID, ns(b.PublishedAt), oid, ns(o.PublishedAt), o.Attempts)
				}
			}
		}
		// completeness: with a generous byte budget the pull hands out (or dead-letters) min(max, eligible)
		if op.MaxBytes == 0 {
			want := len(elig)
			if op.Max < want {
				want = op.Max
			}
			if len(r.Delivered)+r.NumDL != want {
				m.fire("C01", "not-offered", "pull max=%d on %s returned %d and dead-lettered %d although %d deliveries were due", op.Max, sub.Name, len(r.Delivered), r.NumDL, len(elig))
			}
			if len(elig) > 0 {
				m.Counts["pull_completeness_nontrivial"]++
			}
		}
		m.checkDeadLetters(r, "pull")
	case "ack":
		if ok {
			for _, id := range r.Ids {
				if b := r.Before[id]; b != nil && b.CompletedAt == nil {
					if a := r.After[id]; a == nil || a.CompletedAt == nil {
						m.fire("C03", "ack-ignored", "Acknowledge of outstanding delivery %s succeeded but the delivery is still outstanding", id)
					} else {
						m.acked[id] = now
					}
				}
			}
		} else {
			m.fire("C03", "ack-error", "Acknowledge failed: %s", r.Resp)
		}
		m.checkUntouchedExcept(r, "C03", func(id uuid.UUID, b, a *ent.Delivery) bool {
			return containsID(r.Ids, id) && b.CompletedAt == nil
		})
	case "nack":
		m.checkDeadLetters(r, "nack")
		for _, id := range r.Ids {
			b, a := r.Before[id], r.After[id]
			if b == nil || a == nil {
				continue
			}
			if b.CompletedAt != nil && !rowsEqual(b, a) {
				m.fire("C03", "resurrect", "nack changed completed delivery %s", id)
			}
			if isOpenRow(b, now) && a.CompletedAt == nil {
				sub := r.SubsBefore[b.SubscriptionID]
				minB, maxB := subBackoff(sub)
				if pol, known := m.policy[b.SubscriptionID]; known {
					minB, maxB = &pol[0], &pol[1]
				}
				nominal := NominalNs(minB, maxB, b.Attempts)
				tol := nominal/(1<<40) + 2
				d := ns(a.AttemptAt) - now
				hi := nominal + tol + Sec
				if nominal+tol <= Sec/2 {
					hi = nominal + tol + 1
				}
				if d < nominal-tol || d >= hi {
					m.fire("C04", "nack-backoff", "nack of delivery %s (attempts %d): rescheduled in %d ns, expected backoff %d ns", id, b.Attempts, d, nominal)
				}
				delete(m.leases, id)
				m.leases[id] = &leaseRecord{attempt: b.Attempts, t: now, deadline: now + nominal - tol}
			}
		}
		m.checkUntouchedExcept(r, "C03", func(id uuid.UUID, b, a *ent.Delivery) bool { return containsID(r.Ids, id) && b.CompletedAt == nil })
	case "delay":
		for _, id := range r.Ids {
			b, a := r.Before[id], r.After[id]
			if b == nil || a == nil {
				continue
			}
			if b.CompletedAt != nil {
				if !rowsEqual(b, a) {
					m.fire("C03", "resurrect", "ModifyAckDeadline changed completed delivery %s", id)
				}
				continue
			}
			switch {
			case op.D > 0:
				if a.AttemptAt.Before(b.AttemptAt) {
					m.fire("C04", "modack-shortened", "positive ModifyAckDeadline moved delivery %s's deadline earlier", id)
				}
				if ns(a.AttemptAt) < now+op.D {
					m.fire("C04", "modack-ignored", "ModifyAckDeadline(%d ns) left delivery %s due at %d < %d", op.D, id, ns(a.AttemptAt), now+op.D)
				}
				if l := m.leases[id]; l != nil && l.deadline < now+op.D {
					l.deadline = now + op.D
				}
			default:
				if ns(a.AttemptAt) > now {
					m.fire("C04", "modack-zero", "ModifyAckDeadline(<=0) left delivery %s due only at %d (now %d)", id, ns(a.AttemptAt), now)
				}
				delete(m.leases, id)
				if l := m.leases[id]; l == nil {
					m.leases[id] = &leaseRecord{attempt: b.Attempts, t: now, deadline: now + op.D}
				}
			}
		}
		m.checkUntouchedExcept(r, "C03", func(id uuid.UUID, b, a *ent.Delivery) bool { return containsID(r.Ids, id) && b.CompletedAt == nil })
	case "dl_sweep":
		m.checkDeadLetters(r, "sweep")
		// the rows the sweep selected: none may be acknowledged or expired already
		if ok {
			for _, id := range r.Ids {
				if b := r.Before[id]; b != nil && (b.CompletedAt != nil || ns(b.ExpiresAt) <= now) {
					m.fire("C06", "after-done", "the sweep dead-lettered delivery %s although it was already acknowledged or expired", id)
				}
			}
		}
	case "seek_time":
		sub := liveSubByName(r.SubsBefore, SubName(op.Sub))
		if !ok || sub == nil {
			break
		}
		m.lastSeek[sub.ID] = now
		m.Counts["seeks"]++
		T := op.D
		for id, b := range r.Before {
			a := r.After[id]
			if b.SubscriptionID != sub.ID {
				if a == nil || !rowsEqual(b, a) {
					m.fire("C13", "other-sub", "seek on %s changed delivery %s of another subscription", sub.Name, id)
				}
				continue
			}
			if a == nil {
				m.fire("C13", "row-lost", "seek removed delivery %s", id)
				continue
			}
			retained := ns(b.ExpiresAt) >= now
			// "published at or before T": for a message published to the subscription's own topic that is the
			// publish time the client was told (the message's); a forwarded message entered the subscription
			// when it was forwarded (the delivery's)
			pubT := ns(b.PublishedAt)
			if msg := r.Msgs[b.MessageID]; msg != nil && msg.TopicID == sub.TopicID && ns(msg.PublishedAt) < pubT {
				pubT = ns(msg.PublishedAt)
			}
			switch {
			case !retained:
				if !rowsEqual(b, a) {
					m.fire("C13", "expired-touched", "seek changed delivery %s whose retention had ended", id)
				}
			case pubT <= T:
				if a.CompletedAt == nil {
					m.fire("C13", "not-acked", "seek to %d left delivery %s (published %d) outstanding", T, id, pubT)
					if b.CompletedAt != nil {
						// the seek target is not before the message: this seek rewinds nothing of it
						m.fire("C03", "reopened-by-later-seek", "delivery %s (message published %d) was acknowledged; a seek to %d, which is not before its publish, made it outstanding again", id, pubT, T)
					}
				}
				m.Counts["seek_acked_rows"]++
			default:
				if a.CompletedAt != nil {
					m.fire("C13", "not-restored", "seek to %d left delivery %s (published %d, retained) acknowledged", T, id, ns(b.PublishedAt))
				} else if b.CompletedAt != nil {
					if ns(a.AttemptAt) != now || ns(a.ExpiresAt) != now+int64(sub.MessageTTL) {
						m.fire("C13", "restore-times", "seek restored delivery %s with attempt_at=%d expires=%d, expected %d / %d", id, ns(a.AttemptAt), ns(a.ExpiresAt), now, now+int64(sub.MessageTTL))
					}
					m.Counts["seek_restored_rows"]++
				} else if !rowsEqual(b, a) {
					m.fire("C13", "open-touched", "seek changed delivery %s that was already outstanding", id)
				}
			}
		}
	case "snapshot":
		sub := liveSubByName(r.SubsBefore, SubName(op.Sub))
		if !ok || sub == nil {
			break
		}
		sr := &snapRecord{sub: sub.ID, topic: sub.TopicID, t: now, unacked: map[uuid.UUID]bool{}, acked: map[uuid.UUID]bool{}}
		for _, d := range r.Before {
			if d.SubscriptionID != sub.ID {
				continue
			}
			if isOpenRow(d, now) {
				sr.unacked[d.MessageID] = true
			} else if d.CompletedAt != nil {
				sr.acked[d.MessageID] = true
			}
		}
		m.snaps[SnapName(op.Snap)] = sr
		if len(r.Before) != len(r.After) {
			m.fire("C13", "snapshot-touched", "creating a snapshot changed the deliveries table")
		}
	case "seek_snap":
		sub := liveSubByName(r.SubsBefore, SubName(op.Sub))
		sr := m.snaps[SnapName(op.Snap)]
		if !ok || sub == nil {
			break
		}
		m.lastSeek[sub.ID] = now
		if sr == nil {
			break
		}
		m.Counts["snapshot_seeks"]++
		for id, b := range r.Before {
			a := r.After[id]
			if b.SubscriptionID != sub.ID {
				if a == nil || !rowsEqual(b, a) {
					m.fire("C13", "other-sub", "seek on %s changed delivery %s of another subscription", sub.Name, id)
				}
				continue
			}
			if a == nil || sr.topic != sub.TopicID {
				continue
			}
			retained := ns(b.ExpiresAt) >= now
			if b.CompletedAt != nil && a.CompletedAt == nil {
				// revived by the seek: immediately deliverable, with fresh retention (as for a seek to a time)
				m.Counts["snapshot_revived_rows"]++
				if ns(a.AttemptAt) != now || ns(a.ExpiresAt) != now+int64(sub.MessageTTL) {
					m.fire("C13", "restore-times", "seek to snapshot %s restored delivery %s with attempt_at=%d expires=%d, expected %d / %d (now, now + message retention)", op.Snap, id, ns(a.AttemptAt), ns(a.ExpiresAt), now, now+int64(sub.MessageTTL))
				}
			}
			switch {
			case sr.unacked[b.MessageID] && !sr.acked[b.MessageID]:
				// unacknowledged when the snapshot was taken: outstanding again (same subscription only:
				// a sibling may have had it acknowledged independently)
				if sub.ID == sr.sub && a.CompletedAt != nil && (retained || b.CompletedAt != nil) {
					m.fire("C13", "snapshot-not-restored", "seek to snapshot %s left delivery %s acknowledged although its message was unacknowledged when the snapshot was taken", op.Snap, id)
				}
				m.Counts["snapshot_restore_checks"]++
			case sr.acked[b.MessageID] && !sr.unacked[b.MessageID] && sub.ID == sr.sub:
				// (a delivery whose retention had ended is given fresh retention by the revival: just as visible)
				if a.CompletedAt == nil && (retained || ns(a.ExpiresAt) > now) {
					m.fire("C13", "snapshot-deacked", "seek to snapshot %s made delivery %s outstanding although its message was acknowledged before the snapshot was taken", op.Snap, id)
				}
				m.Counts["snapshot_acked_checks"]++
			case ns(b.PublishedAt) > sr.t:
				if a.CompletedAt != nil {
					m.fire("C13", "snapshot-later-not-restored", "seek to snapshot %s left delivery %s (published after the snapshot) acknowledged", op.Snap, id)
				}
			}
		}
	case "rpc":
		// UpdateSubscription(expiration_policy): the subscription's expiry clock restarts with the new TTL
		if ok && op.Rpc != nil && op.Rpc.Kind == "updateSub" && op.Rpc.Sub != nil {
			for _, pth := range op.Rpc.Paths {
				if pth == "dead_letter_policy" {
					if s := liveSubByName(r.SubsAfter, op.Rpc.Sub.Name); s != nil {
						switch {
						case op.Rpc.Sub.DLTopic == nil || *op.Rpc.Sub.DLTopic == "":
							m.reqDL[s.ID] = dlReq{}
						default:
							if tid := liveTopicID(r.TopicsBefore, *op.Rpc.Sub.DLTopic); tid != nil {
								mx := op.Rpc.Sub.DLMax
								if mx == 0 {
									mx = 5 // the API default
								}
								m.reqDL[s.ID] = dlReq{topic: tid, max: mx}
							}
						}
					}
				}
				if pth == "retry_policy" {
					if s := liveSubByName(r.SubsAfter, op.Rpc.Sub.Name); s != nil {
						var pol [2]int64
						if op.Rpc.Sub.HasRetry {
							if op.Rpc.Sub.RetryMin != nil {
								pol[0] = *op.Rpc.Sub.RetryMin
							}
							if op.Rpc.Sub.RetryMax != nil {
								pol[1] = *op.Rpc.Sub.RetryMax
							}
						}
						m.policy[s.ID] = pol
					}
				}
				if pth != "expiration_policy" {
					continue
				}
				// an absent policy (or a zero TTL) means the default of 30 days
				ttl := int64(30 * 24 * time.Hour)
				if op.Rpc.Sub.Expiration != nil && *op.Rpc.Sub.Expiration > 0 {
					ttl = *op.Rpc.Sub.Expiration
				} else if op.Rpc.Sub.Expiration != nil && *op.Rpc.Sub.Expiration < 0 {
					continue
				}
				if s := liveSubByName(r.SubsAfter, op.Rpc.Sub.Name); s != nil {
					m.lastPull[s.ID] = now
					if ns(s.ExpiresAt) != now+ttl {
						m.fire("C14", "ttl-update-clock", "UpdateSubscription set the expiration TTL of %s to %d ns at t=%d; the subscription now expires at %d instead of %d", s.Name, ttl, now, ns(s.ExpiresAt), now+ttl)
					}
				}
			}
		}
	case "expire_subs":
		// only subscriptions without pull activity for a full TTL may be expired
		for id, b := range r.SubsBefore {
			a := r.SubsAfter[id]
			if b.DeletedAt == nil && a != nil && a.DeletedAt != nil {
				m.Counts["subs_expired"]++
				if last, okp := m.lastPull[id]; okp && now <= last+int64(b.TTL) {
					m.fire("C14", "expired-early", "subscription %s expired at t=%d although its last pull/creation was at %d and its TTL is %d", b.Name, now, last, int64(b.TTL))
				}
			}
			if b.DeletedAt != nil && a != nil && (a.DeletedAt == nil || !a.DeletedAt.Equal(*b.DeletedAt)) {
				// a deleted subscription whose deletion time keeps moving is never old enough to be pruned
				m.fire("C15", "deleted-again", "the expiry job changed the deletion time of the already deleted subscription %s (%d -> %s): it can never become old enough to be pruned", b.Name, ns(*b.DeletedAt), nsOpt(a.DeletedAt))
			}
		}
	}
	if strings.HasPrefix(op.K, "prune_") || op.K == "expire_subs" {
		m.checkPrune(r)
	}
}

func (m *Monitors) checkUntouchedExcept(r *Result, prop string, may func(id uuid.UUID, b, a *ent.Delivery) bool) {
	for id, b := range r.Before {
		a := r.After[id]
		if may(id, b, a) {
			continue
		}
		if a == nil || !rowsEqual(b, a) {
			// dead-lettering completes the source and is handled by its own monitor
			if a != nil && b.CompletedAt == nil && a.CompletedAt != nil {
				continue
			}
			m.fire(prop, "side-effect", "%s changed delivery %s that it did not address", r.Op.K, id)
		}
	}
}

func rowsEqual(a, b *ent.Delivery) bool {
	return a.ID == b.ID && a.MessageID == b.MessageID && a.SubscriptionID == b.SubscriptionID && a.PublishedAt.Equal(b.PublishedAt) &&
		a.AttemptAt.Equal(b.AttemptAt) && a.Attempts == b.Attempts && timePtrEq(a.CompletedAt, b.CompletedAt) && a.ExpiresAt.Equal(b.ExpiresAt) &&
		a.NotBeforeID == b.NotBeforeID && timePtrEq(a.LastAttemptedAt, b.LastAttemptedAt)
}

func timePtrEq(a, b *time.Time) bool {
	if a == nil || b == nil {
		return a == b
	}
	return a.Equal(*b)
}

func containsID(ids []uuid.UUID, id uuid.UUID) bool {
	for _, x := range ids {
		if x == id {
			return true
		}
	}
	return false
}

func nameOf(s *ent.Subscription) string {
	if s == nil {
		return "?"
	}
	return s.Name
}
func strOf(p *string) string {
	if p == nil {
		return ""
	}
	return *p
}

// checkDeadLetters verifies every delivery that this operation retired by dead-lettering.
func (m *Monitors) checkDeadLetters(r *Result, path string) {
	now := r.T
	srcs, fw := attributeForwards(r.Stmts, r.Before, r.After)
	if r.NumDL != len(srcs) && strings.HasPrefix(r.Resp, "ok") {
		m.fire("C06", "count", "%s reports %d dead-lettered deliveries, %d source deliveries were retired", path, r.NumDL, len(srcs))
	}
	forwarded := map[uuid.UUID]bool{}
	for _, src := range srcs {
		b := r.Before[src]
		sub := r.SubsBefore[b.SubscriptionID]
		m.Counts["dead_letterings_"+path]++
		if !hasFullDL(sub) {
			m.fire("C06", "no-policy", "delivery %s dead-lettered on subscription %s without a dead-letter policy", src, nameOf(sub))
			continue
		}
		N := int(*sub.MaxDeliveryAttempts)
		if b.Attempts < N {
			m.fire("C06", "early", "delivery %s dead-lettered after %d of %d attempts", src, b.Attempts, N)
		}
		if b.CompletedAt != nil || ns(b.ExpiresAt) <= now {
			m.fire("C06", "after-done", "delivery %s dead-lettered although it was already acknowledged or expired", src)
		}
		if path != "nack" && ns(b.AttemptAt) > now {
			m.fire("C06", "early", "delivery %s dead-lettered at t=%d before its last lease lapsed (%d)", src, now, ns(b.AttemptAt))
		}
		if m.dlDone[src] {
			m.fire("C06", "twice", "delivery %s dead-lettered a second time", src)
		}
		m.dlDone[src] = true
		if a := r.After[src]; a == nil || a.CompletedAt == nil {
			m.fire("C06", "still-deliverable", "delivery %s forwarded but still outstanding on its source subscription", src)
		}
		// exactly one new open delivery of the same message on every live subscription of the live dead-letter topic whose filter holds
		got := map[uuid.UUID]int{}
		for _, d := range fw[src] {
			forwarded[d.ID] = true
			got[d.SubscriptionID]++
			if sb := r.SubsBefore[d.SubscriptionID]; sb != nil {
				m.enqFilter[d.ID] = strOf(sb.MessageFilter)
			}
			if d.MessageID != b.MessageID {
				m.fire("C06", "other-message", "dead-letter forward of delivery %s created a delivery for another message", src)
			}
			if !isOpenRow(d, r.TAfter) {
				m.fire("C06", "forward-not-open", "dead-letter forward of delivery %s is not outstanding", src)
			}
		}
		dlt := r.TopicsBefore[*sub.DeadLetterTopicID]
		msg := r.Msgs[b.MessageID]
		for _, s := range r.SubsBefore {
			isTarget := dlt != nil && dlt.DeletedAt == nil && s.TopicID == dlt.ID && s.DeletedAt == nil
			if !isTarget {
				if got[s.ID] != 0 {
					m.fire("C06", "wrong-target", "dead-letter forward of %s went to subscription %s which is not a live subscription of the dead-letter topic", src, s.Name)
				}
				continue
			}
			if msg == nil {
				continue
			}
			want, known := subTakes(s, msg.Attributes)
			if !known {
				continue
			}
			if want && got[s.ID] != 1 {
				m.fire("C06", "forward-missing", "delivery %s dead-lettered: dead-letter subscription %s received %d copies, expected 1", src, s.Name, got[s.ID])
			}
			if !want && got[s.ID] != 0 {
				m.fire("C06", "forward-filter", "delivery %s dead-lettered onto subscription %s whose filter rejects the message", src, s.Name)
			}
		}
	}
	// every new row must belong to a forward
	for id, a := range r.After {
		if r.Before[id] == nil && !forwarded[id] {
			m.fire("C06", "stray-row", "%s created delivery %s (subscription %s) that is not a dead-letter forward", path, id, a.SubscriptionID)
		}
	}
}

// checkPrune: maintenance may only remove dead rows.
func (m *Monitors) checkPrune(r *Result) {
	now := r.T
	// convergence: a job may fail in a round (its rows are still referenced by rows another job has to
	// reclaim first: NO ACTION foreign keys); it is stuck when it fails again although every other
	// job has had a successful round with minimum age 0 since
	if strings.HasPrefix(r.Resp, "E:") {
		if seen, failedBefore := m.jobRounds[r.Op.K]; failedBefore && len(seen) >= 6 {
			m.fire("C15", "job-stuck", "maintenance job %s fails again (%s %v) although each of the other jobs has completed a round with minimum age 0 since its last failure: the rows it is responsible for are never reclaimed", r.Op.K, r.Resp, r.Err)
		}
		m.jobRounds[r.Op.K] = map[string]bool{}
	} else if r.Op.D == 0 {
		for failed, seen := range m.jobRounds {
			if failed != r.Op.K {
				seen[r.Op.K] = true
			}
		}
		delete(m.jobRounds, r.Op.K)
	}
	for id, b := range r.Before {
		a := r.After[id]
		if a == nil {
			sub := r.SubsBefore[b.SubscriptionID]
			if isOpenRow(b, now) && sub != nil && sub.DeletedAt == nil {
				m.fire("C15", "pruned-outstanding", "%s deleted outstanding delivery %s of live subscription %s", r.Op.K, id, sub.Name)
			}
			m.Counts["pruned_deliveries"]++
			continue
		}
		// surviving rows: only the predecessor link may change (SET NULL), and only to a deleted row
		bb := *b
		bb.NotBeforeID = a.NotBeforeID
		if !rowsEqual(&bb, a) {
			m.fire("C15", "prune-changed-row", "%s changed delivery %s", r.Op.K, id)
		}
		if b.NotBeforeID != a.NotBeforeID {
			p := r.Before[b.NotBeforeID]
			sub := r.SubsBefore[b.SubscriptionID]
			// only on a live subscription does the link matter (deliveries of a deleted subscription are dead)
			if p != nil && isOpenRow(p, now) && sub != nil && sub.DeletedAt == nil {
				m.fire("C15", "prune-unblocked", "%s removed the predecessor link of delivery %s although the predecessor is outstanding", r.Op.K, id)
			}
		}
	}
	// progress: a job that removed fewer rows than its batch size has removed every row it is responsible for
	if r.Op.K == "prune_expired_deliveries" && strings.HasPrefix(r.Resp, "ok:") {
		var n int
		fmt.Sscanf(r.Resp, "ok:%d", &n)
		if n < r.Op.Max {
			for id, a := range r.After {
				if a.CompletedAt == nil && ns(a.ExpiresAt) < now {
					m.fire("C15", "expired-left-behind", "prune_expired_deliveries removed %d rows (batch %d) but left the expired, unacknowledged delivery %s behind", n, r.Op.Max, id)
					break
				}
			}
		}
	}
	if r.Op.K == "prune_completed_deliveries" && strings.HasPrefix(r.Resp, "ok:") {
		var n int
		fmt.Sscanf(r.Resp, "ok:%d", &n)
		if n < r.Op.Max {
			for id, a := range r.After {
				if a.CompletedAt != nil && ns(*a.CompletedAt) < now-r.Op.D {
					m.fire("C15", "completed-left-behind", "prune_completed_deliveries removed %d rows (batch %d) but left delivery %s, completed longer ago than the age limit, behind", n, r.Op.Max, id)
					break
				}
				// (by the observer's clock: the delivery was seen to become acknowledged at doneAt)
				if at, seen := m.doneAt[id]; seen && a.CompletedAt != nil && at < r.T-r.Op.D-Ms {
					m.fire("C15", "completed-left-behind", "prune_completed_deliveries (minimum age %d ns, batch %d, removed %d) at t=%d left delivery %s behind, which was acknowledged at t=%d (its stored completion time is %d)", r.Op.D, r.Op.Max, n, r.T, id, at, ns(*a.CompletedAt))
					break
				}
			}
		}
	}
	if r.Op.K != "expire_subs" {
		for id, b := range r.SubsBefore {
			if r.SubsAfter[id] == nil && b.DeletedAt == nil {
				m.fire("C15", "pruned-live-sub", "%s removed live subscription %s", r.Op.K, b.Name)
			}
		}
	}
	for id, b := range r.TopicsBefore {
		if r.TopicsAfter[id] == nil && b.DeletedAt == nil {
			m.fire("C15", "pruned-live-topic", "%s removed live topic %s", r.Op.K, b.Name)
		}
	}
}

// ClientTrace is what clients can observe of a history: pull responses and error classes.
func ClientTrace(results []*Result, nOf func(Delivered) (int, bool)) []string {
	var out []string
	for _, r := range results {
		switch r.Op.K {
		case "pull":
			var parts []string
			for _, d := range r.Delivered {
				n, _ := nOf(d)
				parts = append(parts, fmt.Sprintf("%d#%d", n, d.Attempt))
			}
			sort.Strings(parts)
			out = append(out, "pull "+r.Op.Sub+": "+strings.Join(parts, ","))
		case "advance":
		case "rpc":
			cls := r.Resp
			if r.Op.Rpc != nil && strings.HasPrefix(r.Op.Rpc.Kind, "list") {
				// a listing: the names of the page, and whether there is a further page (the token itself is an id)
				body := r.Body
				if i := strings.LastIndex(body, "|next="); i >= 0 {
					more := "more"
					if body[i+6:] == "-" {
						more = "end"
					}
					body = body[:i] + "|" + more
				}
				out = append(out, "rpc "+r.Op.Rpc.Kind+" "+r.Op.Rpc.Name+r.Op.Rpc.Project+" -> "+cls+" "+body)
			} else {
				kind := ""
				if r.Op.Rpc != nil {
					kind = r.Op.Rpc.Kind
				}
				out = append(out, "rpc "+kind+" -> "+cls)
			}
		default:
			if !strings.HasPrefix(r.Op.K, "prune_") && r.Op.K != "expire_subs" && r.Op.K != "dl_sweep" {
				cls := r.Resp
				if i := strings.IndexByte(cls, ':'); i > 0 && strings.HasPrefix(cls, "ok") {
					cls = "ok"
				}
				out = append(out, r.Op.K+" -> "+cls)
			}
		}
	}
	return out
}
