package harness

import (
	"encoding/json"
	"fmt"
	"math"
	"math/rand"
	"os"
	"sort"
	"strings"
	"testing"
	"testing/synctest"
	"time"

	"github.com/google/uuid"
)

func p64(v int64) *int64    { return &v }
func pstr(s string) *string { return &s }

// runApi executes a list of requests in a fresh world.
func runApi(t *testing.T, seed int64, reqs []Rpc, each func(i int, w *ApiWorld, r *RpcResult) bool) (lines []string, results []*RpcResult) {
	synctest.Test(t, func(t *testing.T) {
		w := NewWorld(t, seed)
		defer w.Close()
		a := w.Api()
		for i, r := range reqs {
			res := a.ExecRpc(r)
			results = append(results, res)
			if each != nil && !each(i, a, res) {
				break
			}
		}
		lines = w.Lines
	})
	return
}

type apiReplay struct {
	Property string `json:"property"`
	Sig      string `json:"sig"`
	What     string `json:"what"`
	Seed     int64  `json:"seed"`
	Rpcs     []Rpc  `json:"rpcs"`
}

func writeApiReplay(name string, rf apiReplay) string {
	p := ReplayPath(name)
	b, _ := json.MarshalIndent(rf, "", " ")
	os.WriteFile(p, b, 0o644)
	return p
}

func checkApiCorrespondence(t *testing.T, m *Model, st *Stats, prop string, seed int64, reqs []Rpc, lines []string) bool {
	d, err := m.Check(lines)
	if err != nil {
		t.Fatal(err)
	}
	if d == nil {
		return true
	}
	p := writeApiReplay(fmt.Sprintf("%s-correspondence-%d.json", prop, seed), apiReplay{Property: prop, Sig: "correspondence", Seed: seed, Rpcs: reqs,
		What: "model (Mmmbbb.Api.handle) and implementation disagree: " + d.String()})
	st.Violate(Violation{What: "correspondence with the API model broken: " + d.String(), Replay: p, FoundInput: false, Sig: "correspondence"})
	return false
}

// ---------- C16 ----------

func TestC16(t *testing.T) {
	st := NewStats()
	defer st.Write()
	m, err := StartModel()
	if err != nil {
		t.Fatal(err)
	}
	defer m.Close()
	T, D, S, S2, N := "projects/p/topics/t", "projects/p/topics/d", "projects/p/subscriptions/s", "projects/p/subscriptions/s2", "projects/p/snapshots/n"
	setup := []Rpc{
		{Kind: "createTopic", Name: T}, {Kind: "createTopic", Name: D}, {Kind: "createTopic", Name: "projects/p/topics/gone"}, {Kind: "deleteTopic", Name: "projects/p/topics/gone"},
		{Kind: "createSub", Sub: &SubReq{Name: S, Topic: T}}, {Kind: "createSub", Sub: &SubReq{Name: S2, Topic: T}},
		{Kind: "createSub", Sub: &SubReq{Name: "projects/p/subscriptions/gone", Topic: T}}, {Kind: "deleteSub", Name: "projects/p/subscriptions/gone"},
		{Kind: "createSnap", Name: N, Name2: S},
	}
	topicNames := []string{T, "projects/p/topics/unknown", S, "", "projects//topics/x", "foo", "projects/p/topics/gone", "projects/p/topics/a/b"}
	subNames := []string{S, "projects/p/subscriptions/unknown", T, "", "projects//subscriptions/x", "foo", "projects/p/subscriptions/gone"}
	snapNames := []string{N, "projects/p/snapshots/unknown", S, "", "foo"}
	ints := []int32{math.MinInt32, -1, 0, 1, math.MaxInt32}
	durs := []*int64{nil, p64(-int64(time.Second)), p64(0), p64(1), p64(int64(10 * time.Minute)), p64(int64(250 * 365 * 24 * time.Hour)), p64(math.MinInt64)}
	var reqs []Rpc
	add := func(r Rpc) { reqs = append(reqs, r) }
	for _, n := range topicNames {
		add(Rpc{Kind: "getTopic", Name: n})
		add(Rpc{Kind: "publishCheck", Name: n})
		add(Rpc{Kind: "publishCheck", Name: n, Bad: true})
		for _, has := range []bool{true, false} {
			for _, paths := range [][]string{nil, {"labels"}, {"name"}, {"foo"}, {"labels", "labels"}, {"kms_key_name"}, {"labels", "foo"}} {
				add(Rpc{Kind: "updateTopic", Has: has, Name: n, Labels: map[string]string{"a": "b"}, Paths: paths})
			}
		}
		add(Rpc{Kind: "createTopic", Name: n, Advanced: true})
	}
	for _, proj := range []string{"projects/p", "", "projects/", "p%", "projects/p_"} {
		for _, sz := range ints {
			for _, tok := range []string{"", "garbage", uuid.Nil.String()} {
				add(Rpc{Kind: "listTopics", Project: proj, Size: sz, Token: tok})
				add(Rpc{Kind: "listSubs", Project: proj, Size: sz, Token: tok})
				add(Rpc{Kind: "listSnaps", Project: proj, Size: sz, Token: tok})
			}
		}
	}
	for _, n := range subNames {
		add(Rpc{Kind: "getSub", Name: n})
		for _, mx := range ints {
			if (n == S || n == S2) && mx >= 1 {
				// a valid pull changes state (expiry refresh): it goes through the handler as a data-plane operation
				add(Rpc{Kind: "op", Op: &Op{K: "pull", Sub: n, Max: int(mx), Via: "handler"}})
			} else {
				add(Rpc{Kind: "pullCheck", Name: n, Max: mx})
			}
		}
		for _, ids := range [][]string{nil, {"xyz"}, {""}, {uuid.New().String(), "nope"}} {
			add(Rpc{Kind: "ackCheck", Name: n, AckIDs: ids, Seconds: -999})
			for _, sec := range []int32{math.MinInt32, -1, 0, 1, math.MaxInt32} {
				add(Rpc{Kind: "ackCheck", Name: n, AckIDs: ids, Seconds: sec})
			}
		}
		for _, push := range []*PushCfg{nil, {}, {Endpoint: "http://x"}, {Endpoint: "http://x", Attrs: map[string]string{"x-goog-version": "v1"}}, {Attrs: map[string]string{"x-goog-version": "v2"}}, {Attrs: map[string]string{"foo": "v1"}}, {Endpoint: "http://x", Auth: true}} {
			add(Rpc{Kind: "modifyPush", Name: n, Push: push})
		}
		// (-63082281600000000000 ns before the protocol's epoch is Go's zero time: a timestamp a few nanoseconds
		// after it is a valid, non-zero instant — whatever the handler rounds it to)
		for _, tg := range []string{"none", "zero", "time:0", "time:-1000000000000", "time:9000000000000000000", "time:-63082281599999999999", "time:-63082281599999999500", "time:-63082281599999999001", "time:-63082281599000000000", "snap:" + N, "snap:", "snap:projects/p/snapshots/unknown", "snap:foo", "snap:" + S} {
			add(Rpc{Kind: "seek", Name: n, Target: tg})
		}
		for _, sn := range snapNames {
			add(Rpc{Kind: "createSnap", Name: sn, Name2: n})
		}
	}
	for _, sn := range snapNames {
		add(Rpc{Kind: "getSnap", Name: sn})
		add(Rpc{Kind: "deleteSnap", Name: sn})
	}
	// CreateSubscription: per-field boundary values around a valid base request
	k := 0
	newName := func() string { k++; return fmt.Sprintf("projects/p/subscriptions/c%d", k) }
	base := func() *SubReq { return &SubReq{Name: newName(), Topic: T} }
	for _, n := range subNames {
		r := base()
		r.Name = n
		add(Rpc{Kind: "createSub", Sub: r})
	}
	for _, n := range topicNames {
		r := base()
		r.Topic = n
		add(Rpc{Kind: "createSub", Sub: r})
		r2 := base()
		r2.DLTopic = pstr(n)
		add(Rpc{Kind: "createSub", Sub: r2})
	}
	for _, d := range durs {
		r := base()
		r.Retention = d
		add(Rpc{Kind: "createSub", Sub: r})
		r2 := base()
		r2.Expiration = d
		add(Rpc{Kind: "createSub", Sub: r2})
		r3 := base()
		r3.HasRetry, r3.RetryMin = true, d
		add(Rpc{Kind: "createSub", Sub: r3})
		r4 := base()
		r4.HasRetry, r4.RetryMax = true, d
		add(Rpc{Kind: "createSub", Sub: r4})
	}
	for _, mx := range ints {
		r := base()
		r.DLTopic, r.DLMax = pstr(D), mx
		add(Rpc{Kind: "createSub", Sub: r})
		r2 := base()
		r2.DLTopic, r2.DLMax = pstr(""), mx
		add(Rpc{Kind: "createSub", Sub: r2})
	}
	for _, f := range []string{"", "attributes:x", "attributes:", "NOT", "((("} {
		r := base()
		r.Filter = f
		add(Rpc{Kind: "createSub", Sub: r})
	}
	for _, push := range []*PushCfg{{}, {Endpoint: "http://x"}, {Attrs: map[string]string{"x-goog-version": "v1"}}, {Auth: true}, {Unwrapped: true}} {
		r := base()
		r.Push = push
		add(Rpc{Kind: "createSub", Sub: r})
	}
	{
		r := base()
		r.Detached = true
		add(Rpc{Kind: "createSub", Sub: r})
	}
	// UpdateSubscription: masks x values
	allPaths := []string{"labels", "expiration_policy", "message_retention_duration", "enable_message_ordering", "retry_policy", "push_config", "filter", "dead_letter_policy"}
	var masks [][]string
	masks = append(masks, nil, []string{"name"}, []string{"topic"}, []string{"foo"}, []string{"ack_deadline_seconds"}, []string{"labels", "labels"}, []string{"labels", "foo"}, allPaths,
		[]string{"retry_policy.minimum_backoff"}, []string{"dead_letter_policy.max_delivery_attempts"}, []string{"push_config.push_endpoint"}, []string{"labels.k"}, []string{"."})
	for _, p := range allPaths {
		masks = append(masks, []string{p})
	}
	for _, mask := range masks {
		add(Rpc{Kind: "updateSub", Has: false, Paths: mask})
		for _, n := range []string{S2, "projects/p/subscriptions/unknown", "", T} {
			add(Rpc{Kind: "updateSub", Has: true, Paths: mask, Sub: &SubReq{Name: n, Topic: T}})
		}
		for _, d := range durs {
			add(Rpc{Kind: "updateSub", Has: true, Paths: mask, Sub: &SubReq{Name: S2, Topic: T, Retention: d, Expiration: d, HasRetry: true, RetryMin: d, RetryMax: d, Labels: map[string]string{"k": "v"}}})
		}
		add(Rpc{Kind: "updateSub", Has: true, Paths: mask, Sub: &SubReq{Name: S2, Topic: T, Filter: "((", DLTopic: pstr("projects/p/topics/unknown"), Push: &PushCfg{Auth: true}}})
		add(Rpc{Kind: "updateSub", Has: true, Paths: mask, Sub: &SubReq{Name: S2, Topic: T, Filter: "attributes:x", DLTopic: pstr(D), DLMax: -3, Push: &PushCfg{Endpoint: "http://y"}, Ordering: true}})
	}
	if Tier() != "thorough" {
		// quick: a deterministic sample of the product (the thorough tier sends everything)
		// every request of the small per-RPC domains is always sent; only the large Create/Update
		// products are sampled
		r := rand.New(rand.NewSource(Seed()))
		var keep, bulk []Rpc
		for _, q := range reqs {
			if q.Kind == "updateSub" || q.Kind == "createSub" {
				bulk = append(bulk, q)
			} else {
				keep = append(keep, q)
			}
		}
		r.Shuffle(len(bulk), func(i, j int) { bulk[i], bulk[j] = bulk[j], bulk[i] })
		if room := 900 - len(keep); room < len(bulk) {
			if room < 300 {
				room = 300
			}
			if room < len(bulk) {
				bulk = bulk[:room]
			}
		}
		reqs = append(keep, bulk...)
		r.Shuffle(len(reqs), func(i, j int) { reqs[i], reqs[j] = reqs[j], reqs[i] })
	}
	// a fixed tail (after the shuffled requests): valid data-plane requests on a richer topology — a
	// dead-letter policy of one attempt whose dead-letter topic has a subscription with a filter the
	// message does not satisfy, one it satisfies, and an ordered one; nack, then the Pull that forwards
	tail := []Rpc{
		{Kind: "createSub", Sub: &SubReq{Name: "projects/p/subscriptions/src", Topic: T, DLTopic: pstr(D), DLMax: 1}},
		{Kind: "createSub", Sub: &SubReq{Name: "projects/p/subscriptions/dlno", Topic: D, Filter: "attributes:never"}},
		{Kind: "createSub", Sub: &SubReq{Name: "projects/p/subscriptions/dlyes", Topic: D, Filter: "NOT attributes:never", Ordering: true}},
		{Kind: "op", Op: &Op{K: "publish", Topic: "t", Via: "handler", Msgs: []MsgSpec{{N: 900, Key: "k"}, {N: 901}}}},
		{Kind: "op", Op: &Op{K: "pull", Sub: "src", Max: 2, Via: "handler"}},
		{Kind: "op", Op: &Op{K: "delay", Refs: []Ref{{N: 900, Sub: "src"}, {N: 901, Sub: "src"}}, D: 0, Via: "handler"}},
		{Kind: "op", Op: &Op{K: "pull", Sub: "src", Max: 2, Via: "handler"}},
		{Kind: "op", Op: &Op{K: "pull", Sub: "dlyes", Max: 5, Via: "handler"}},
		{Kind: "op", Op: &Op{K: "pull", Sub: "dlno", Max: 5, Via: "handler"}},
		// acknowledgements and deadline changes that mix ids of outstanding deliveries with ids that match
		// nothing, and that name one id twice: answered OK, the outstanding ones are settled
		{Kind: "createSub", Sub: &SubReq{Name: "projects/p/subscriptions/ackmix", Topic: T}},
		{Kind: "op", Op: &Op{K: "publish", Topic: "t", Via: "handler", Msgs: []MsgSpec{{N: 920}, {N: 921}, {N: 922}}}},
		{Kind: "op", Op: &Op{K: "pull", Sub: "ackmix", Max: 5, Via: "handler"}},
		{Kind: "op", Op: &Op{K: "ack", Refs: []Ref{{N: 920, Sub: "ackmix"}}, Garbage: 1, Via: "handler"}},
		{Kind: "op", Op: &Op{K: "ack", Refs: []Ref{{N: 921, Sub: "ackmix"}, {N: 921, Sub: "ackmix"}}, Via: "handler"}},
		{Kind: "op", Op: &Op{K: "delay", Refs: []Ref{{N: 922, Sub: "ackmix"}, {N: 920, Sub: "ackmix"}}, Garbage: 1, D: 0, Via: "handler"}},
		{Kind: "op", Op: &Op{K: "pull", Sub: "ackmix", Max: 5, Via: "handler"}},
		// a dead-letter policy whose topic is deleted before the message has used up its attempts: the Pull that
		// finds the attempts used up has nowhere to forward to
		{Kind: "createTopic", Name: "projects/p/topics/dgone"},
		{Kind: "createSub", Sub: &SubReq{Name: "projects/p/subscriptions/src2", Topic: T, DLTopic: pstr("projects/p/topics/dgone"), DLMax: 1}},
		{Kind: "op", Op: &Op{K: "publish", Topic: "t", Via: "handler", Msgs: []MsgSpec{{N: 910}}}},
		{Kind: "op", Op: &Op{K: "pull", Sub: "src2", Max: 2, Via: "handler"}},
		{Kind: "op", Op: &Op{K: "delay", Refs: []Ref{{N: 910, Sub: "src2"}}, D: 0, Via: "handler"}},
		{Kind: "deleteTopic", Name: "projects/p/topics/dgone"},
		{Kind: "op", Op: &Op{K: "pull", Sub: "src2", Max: 2, Via: "handler"}},
		{Kind: "op", Op: &Op{K: "pull", Sub: "src2", Max: 2, Via: "handler"}},
		// a subscription outlives its topic: a snapshot of it, a seek, a pull
		{Kind: "createTopic", Name: "projects/p/topics/tgone"},
		{Kind: "createSub", Sub: &SubReq{Name: "projects/p/subscriptions/orphan", Topic: "projects/p/topics/tgone"}},
		{Kind: "op", Op: &Op{K: "publish", Topic: "tgone", Via: "handler", Msgs: []MsgSpec{{N: 911}}}},
		{Kind: "deleteTopic", Name: "projects/p/topics/tgone"},
		{Kind: "createSnap", Name: "projects/p/snapshots/orphansnap", Name2: "projects/p/subscriptions/orphan"},
		{Kind: "getSnap", Name: "projects/p/snapshots/orphansnap"},
		{Kind: "seek", Name: "projects/p/subscriptions/orphan", Target: "snap:projects/p/snapshots/orphansnap"},
		{Kind: "op", Op: &Op{K: "pull", Sub: "orphan", Max: 2, Via: "handler"}},
		{Kind: "getSub", Name: "projects/p/subscriptions/orphan"},
		// requests that are all answered OK leave a deleted topic that still has a message; the maintenance
		// service that removes deleted topics comes round before the one that removes the message (its
		// round fails on the foreign key, which is harmless); the server keeps answering afterwards
		// pairs of fields that are each fine and unusual together
		{Kind: "createSub", Sub: &SubReq{Name: "projects/p/subscriptions/pair1", Topic: T, HasRetry: true, RetryMin: p64(int64(10 * time.Second)), RetryMax: p64(int64(5 * time.Second))}},
		{Kind: "createSub", Sub: &SubReq{Name: "projects/p/subscriptions/pair2", Topic: T, HasRetry: true, RetryMin: p64(int64(600 * time.Second)), RetryMax: p64(1)}},
		{Kind: "createSub", Sub: &SubReq{Name: "projects/p/subscriptions/pair3", Topic: T, Expiration: p64(int64(time.Hour)), Retention: p64(int64(2 * time.Hour))}},
		{Kind: "createSub", Sub: &SubReq{Name: "projects/p/subscriptions/pair4", Topic: T, DLTopic: pstr(T), DLMax: 1}},
		{Kind: "updateSub", Has: true, Paths: []string{"retry_policy"}, Sub: &SubReq{Name: S2, Topic: T, HasRetry: true, RetryMin: p64(int64(600 * time.Second)), RetryMax: p64(int64(time.Second))}},
		{Kind: "updateSub", Has: true, Paths: []string{"dead_letter_policy"}, Sub: &SubReq{Name: S2, Topic: T}},
		{Kind: "updateSub", Has: true, Paths: []string{"expiration_policy", "message_retention_duration"}, Sub: &SubReq{Name: S2, Topic: T, Expiration: p64(int64(time.Minute)), Retention: p64(int64(time.Hour))}},
		{Kind: "createTopic", Name: "projects/p/topics/gone"},
		{Kind: "op", Op: &Op{K: "publish", Topic: "gone", Via: "handler", Msgs: []MsgSpec{{N: 902}}}},
		{Kind: "deleteTopic", Name: "projects/p/topics/gone"},
		{Kind: "advance", Adv: time.Second},
		{Kind: "op", Op: &Op{K: "prune_deleted_topics", Max: 5}},
		{Kind: "op", Op: &Op{K: "publish", Topic: "t", Via: "handler", Msgs: []MsgSpec{{N: 903}}}},
		{Kind: "op", Op: &Op{K: "prune_completed_messages", Max: 5}},
		{Kind: "op", Op: &Op{K: "prune_deleted_topics", Max: 5}},
		{Kind: "getTopic", Name: T},
	}
	reqs = append(reqs, tail...)
	all := append(append([]Rpc{}, setup...), reqs...)
	crashed := map[string]bool{}
	lines, results := runApi(t, Seed(), all, func(i int, w *ApiWorld, r *RpcResult) bool {
		st.Count("rpc_"+r.Rpc.Kind, 1)
		st.Count("status_"+r.Status, 1)
		js, _ := json.Marshal(r.Rpc)
		st.Distinct(string(js))
		if r.Panic != "" {
			sig := "crash-" + r.Rpc.Kind
			if !crashed[sig] {
				crashed[sig] = true
				rpcs := append(append([]Rpc{}, setup...), r.Rpc)
				if r.Rpc.Kind == "op" {
					rpcs = append([]Rpc{}, all[:i+1]...) // a data-plane request: the state it runs in is built by the requests before it
				}
				p := writeApiReplay(fmt.Sprintf("C16-%s-%d.json", sig, Seed()), apiReplay{Property: "C16", Sig: sig, Seed: Seed(), Rpcs: rpcs,
					What: "handler panicked: " + r.Panic})
				st.Violate(Violation{What: fmt.Sprintf("[%s] request %s makes the handler panic (%s); the production interceptor chain has no recovery interceptor, the server process terminates", sig, js, r.Panic), Replay: p, FoundInput: true, Sig: sig})
			}
			return true
		}
		if !w.Ctl.TxIdle() && !crashed["wedged"] {
			// the request (or maintenance round) has returned but its transaction is neither committed nor
			// rolled back: it keeps the connection and, with SQLite, the write lock — every later request
			// that writes blocks and fails ("database is locked")
			crashed["wedged"] = true
			p := writeApiReplay(fmt.Sprintf("C16-wedged-%d.json", Seed()), apiReplay{Property: "C16", Sig: "wedged", Seed: Seed(), Rpcs: append([]Rpc{}, all[:i+1]...),
				What: "a transaction is left open after " + string(js)})
			st.Violate(Violation{What: fmt.Sprintf("[wedged] after %s (answered %s) a transaction is left open, neither committed nor rolled back: it keeps the write lock and every later request that writes fails", js, r.Status), Replay: p, FoundInput: true, Sig: "wedged"})
			return false
		}
		if r.Status != "OK" && r.DumpBefore != r.DumpAfter {
			p := writeApiReplay(fmt.Sprintf("C16-error-changed-%d.json", Seed()), apiReplay{Property: "C16", Sig: "error-changed-state", Seed: Seed(), Rpcs: append(append([]Rpc{}, setup...), r.Rpc),
				What: "request answered with " + r.Status + " changed the tables"})
			st.Violate(Violation{What: fmt.Sprintf("[error-changed-state] request %s was answered with %s but changed the tables", js, r.Status), Replay: p, FoundInput: true, Sig: "error-changed-state"})
			return false
		}
		return true
	})
	if len(results) > 0 {
		for i := 0; i < 3 && i < len(reqs); i++ {
			st.Sample(reqs[i])
		}
	}
	ok := checkApiCorrespondence(t, m, st, "C16", Seed(), all, lines)
	if len(st.Violations) == 0 {
		c16Streams(t, st)
	}
	st.Set("evaluations", len(results))
	tv := 0
	if ok {
		tv = len(results)
	}
	st.Set("traces_validated_against_impl", tv)
	st.Set("rule", "requests built from per-field boundary domains (names: existing / unknown / wrong kind / empty / malformed / deleted; integers: min,-1,0,1,max; durations: absent, negative, 0, 1 ns, 10 min, max, min; nested messages absent / empty; ack ids malformed; masks known / unknown / repeated / immutable) on every modelled RPC, called in-process on the real handlers with recover; quick = 900 sampled requests, thorough = the full product; distinct = distinct requests; a fixed tail of data-plane requests on a dead-letter topology and of requests answered OK that make a maintenance round fail (no transaction may stay open); push subscriptions with boundary retry policies and endpoint strings of every kind, the pusher then run with the stored string in a child process")
	st.Summary = fmt.Sprintf("requests=%d crashes=%d", len(results), len(crashed))
}

// ---------- C12 ----------

var corrBrokenC12 int

func TestC12(t *testing.T) {
	st := NewStats()
	defer st.Write()
	m, err := StartModel()
	if err != nil {
		t.Fatal(err)
	}
	defer m.Close()
	nHist := 12
	if Tier() == "thorough" {
		nHist = 200
	}
	projects := []string{"projects/p", "projects/P", "projects/p1", "projects/p_", "projects/p%", "projects/pé"}
	for h := 0; h < nHist; h++ {
		seed := Seed()*1009 + int64(h)
		if h == 0 {
			corrBrokenC12 = 0
		}
		r := rand.New(rand.NewSource(seed))
		liveT, liveS, liveN := map[string]bool{}, map[string]bool{}, map[string]bool{}
		incT := map[string]int{}      // topic name -> number of the live incarnation (0: none)
		subInc := map[string][2]any{} // live subscription -> (topic name, incarnation)
		nInc := 0
		var reqs []Rpc
		var walks []func(results []*RpcResult) string
		name := func(kind string) string {
			pr := projects[r.Intn(len(projects))]
			if r.Intn(2) == 0 {
				pr = projects[r.Intn(2)] // the two projects that differ only by case
			}
			return pr + "/" + kind + "/" + []string{"a", "b", "c", "A"}[r.Intn(4)]
		}
		// names the history has asked to create so far: later requests mostly refer to those
		var plannedT, plannedS []string
		pickOr := func(planned []string, kind string) string {
			if len(planned) > 0 && r.Intn(5) > 0 {
				return planned[r.Intn(len(planned))]
			}
			return name(kind)
		}
		// a project with enough resources of each kind for every page size to meet page boundaries
		if h%2 == 0 {
			reqs = append(reqs, Rpc{Kind: "createTopic", Name: "projects/p/topics/w0"})
			liveNames := []string{"w0", "w1", "w2", "w3", "w4", "w5", "w6"}
			for i, n := range liveNames {
				if i > 0 {
					reqs = append(reqs, Rpc{Kind: "createTopic", Name: "projects/p/topics/" + n})
				}
				reqs = append(reqs, Rpc{Kind: "createSub", Sub: &SubReq{Name: "projects/p/subscriptions/" + n, Topic: "projects/p/topics/w0"}})
				reqs = append(reqs, Rpc{Kind: "createSnap", Name: "projects/p/snapshots/" + n, Name2: "projects/p/subscriptions/" + n})
			}
			plannedT = append(plannedT, "projects/p/topics/w0")
			plannedS = append(plannedS, "projects/p/subscriptions/w1")
			// a topic that is deleted and made again keeps nothing of its predecessor, its subscriptions included
			reqs = append(reqs, Rpc{Kind: "createTopic", Name: "projects/p/topics/w9"},
				Rpc{Kind: "createSub", Sub: &SubReq{Name: "projects/p/subscriptions/x1", Topic: "projects/p/topics/w9"}},
				Rpc{Kind: "createSub", Sub: &SubReq{Name: "projects/p/subscriptions/x2", Topic: "projects/p/topics/w9"}},
				Rpc{Kind: "deleteTopic", Name: "projects/p/topics/w9"}, Rpc{Kind: "createTopic", Name: "projects/p/topics/w9"},
				Rpc{Kind: "createSub", Sub: &SubReq{Name: "projects/p/subscriptions/x3", Topic: "projects/p/topics/w9"}})
			plannedT = append(plannedT, "projects/p/topics/w9")
		}
		for i := 0; i < 60; i++ {
			switch r.Intn(12) {
			case 0, 1, 2:
				n := name("topics")
				plannedT = append(plannedT, n)
				reqs = append(reqs, Rpc{Kind: "createTopic", Name: n})
			case 3:
				reqs = append(reqs, Rpc{Kind: "deleteTopic", Name: name("topics")})
			case 4, 5:
				n := name("subscriptions")
				plannedS = append(plannedS, n)
				reqs = append(reqs, Rpc{Kind: "createSub", Sub: &SubReq{Name: n, Topic: pickOr(plannedT, "topics")}})
			case 6:
				reqs = append(reqs, Rpc{Kind: "deleteSub", Name: name("subscriptions")})
			case 7:
				reqs = append(reqs, Rpc{Kind: "createSnap", Name: name("snapshots"), Name2: pickOr(plannedS, "subscriptions")})
			case 8:
				reqs = append(reqs, Rpc{Kind: "deleteSnap", Name: name("snapshots")})
			case 9:
				reqs = append(reqs, Rpc{Kind: "getTopic", Name: name("topics")}, Rpc{Kind: "getSub", Name: name("subscriptions")}, Rpc{Kind: "getSnap", Name: name("snapshots")})
			default:
				reqs = append(reqs, Rpc{Kind: "advance", Adv: time.Duration(1+r.Intn(5)) * time.Second})
			}
		}
		_ = walks
		var violation *Violation
		lines, results := []string(nil), []*RpcResult(nil)
		synctest.Test(t, func(t *testing.T) {
			w := NewWorld(t, seed)
			defer w.Close()
			a := w.Api()
			fire := func(sig, what string, rp []Rpc) {
				if violation == nil {
					p := writeApiReplay(fmt.Sprintf("C12-%s-%d.json", sig, seed), apiReplay{Property: "C12", Sig: sig, Seed: seed, Rpcs: rp, What: what})
					violation = &Violation{What: "[" + sig + "] " + what, Replay: p, FoundInput: true, Sig: sig}
				}
			}
			var done []Rpc
			exec := func(rq Rpc) *RpcResult {
				done = append(done, rq)
				res := a.ExecRpc(rq)
				results = append(results, res)
				st.Count("rpc_"+rq.Kind, 1)
				return res
			}
			for _, rq := range reqs {
				res := exec(rq)
				// reference registry
				switch rq.Kind {
				case "createTopic":
					if liveT[rq.Name] != (res.Status == "AlreadyExists") || (!liveT[rq.Name] && res.Status != "OK") {
						fire("create-topic", fmt.Sprintf("CreateTopic(%s) with live=%v answered %s", rq.Name, liveT[rq.Name], res.Status), done)
					}
					if res.Status == "OK" {
						liveT[rq.Name] = true
						nInc++
						incT[rq.Name] = nInc
					}
				case "deleteTopic":
					if liveT[rq.Name] != (res.Status == "OK") {
						fire("delete-topic", fmt.Sprintf("DeleteTopic(%s) with live=%v answered %s", rq.Name, liveT[rq.Name], res.Status), done)
					}
					if res.Status == "OK" {
						delete(liveT, rq.Name)
						delete(incT, rq.Name)
						// snapshots of subscriptions of the topic go with it
						for n := range liveN {
							if g := a.ExecRpc(Rpc{Kind: "getSnap", Name: n}); g.Status != "OK" {
								delete(liveN, n)
							}
						}
					}
				case "createSub":
					want := "OK"
					if liveS[rq.Sub.Name] {
						want = "AlreadyExists"
					} else if !liveT[rq.Sub.Topic] {
						want = "NotFound"
					}
					if res.Status != want {
						fire("create-sub", fmt.Sprintf("CreateSubscription(%s on %s) answered %s, expected %s", rq.Sub.Name, rq.Sub.Topic, res.Status, want), done)
					}
					if res.Status == "OK" {
						liveS[rq.Sub.Name] = true
						subInc[rq.Sub.Name] = [2]any{rq.Sub.Topic, incT[rq.Sub.Topic]}
					}
				case "deleteSub":
					if liveS[rq.Name] != (res.Status == "OK") {
						fire("delete-sub", fmt.Sprintf("DeleteSubscription(%s) with live=%v answered %s", rq.Name, liveS[rq.Name], res.Status), done)
					}
					delete(liveS, rq.Name)
				case "createSnap":
					want := "OK"
					if liveN[rq.Name] {
						want = "AlreadyExists"
					} else if !liveS[rq.Name2] {
						want = "NotFound"
					}
					if res.Status != want {
						fire("create-snap", fmt.Sprintf("CreateSnapshot(%s of %s) answered %s, expected %s", rq.Name, rq.Name2, res.Status, want), done)
					}
					if res.Status == "OK" {
						liveN[rq.Name] = true
					}
				case "deleteSnap":
					if liveN[rq.Name] != (res.Status == "OK") {
						fire("delete-snap", fmt.Sprintf("DeleteSnapshot(%s) with live=%v answered %s", rq.Name, liveN[rq.Name], res.Status), done)
					}
					delete(liveN, rq.Name)
				case "getTopic":
					if liveT[rq.Name] != (res.Status == "OK") {
						fire("get-topic", fmt.Sprintf("GetTopic(%s) with live=%v answered %s", rq.Name, liveT[rq.Name], res.Status), done)
					}
				case "getSub":
					if liveS[rq.Name] != (res.Status == "OK") {
						fire("get-sub", fmt.Sprintf("GetSubscription(%s) with live=%v answered %s", rq.Name, liveS[rq.Name], res.Status), done)
					}
				case "getSnap":
					if liveN[rq.Name] != (res.Status == "OK") {
						fire("get-snap", fmt.Sprintf("GetSnapshot(%s) with live=%v answered %s", rq.Name, liveN[rq.Name], res.Status), done)
					}
				}
			}
			// list walks: every project, every kind, several page sizes; the concatenation of the pages is the live set of exactly that project, each once
			for _, proj := range projects {
				for _, kind := range []string{"listTopics", "listSubs", "listSnaps"} {
					live := map[string]map[string]bool{"listTopics": liveT, "listSubs": liveS, "listSnaps": liveN}[kind]
					seg := map[string]string{"listTopics": "/topics/", "listSubs": "/subscriptions/", "listSnaps": "/snapshots/"}[kind]
					var want []string
					for n := range live {
						if strings.HasPrefix(n, proj+seg) {
							want = append(want, n)
						}
					}
					sort.Strings(want)
					for _, size := range []int32{1, 2, 3, 100, 0, -1} {
						var got []string
						tok := ""
						for page := 0; page < 200; page++ {
							res := exec(Rpc{Kind: kind, Project: proj, Size: size, Token: tok})
							if res.Status != "OK" {
								fire("list-error", fmt.Sprintf("%s(%s) answered %s", kind, proj, res.Status), done)
								break
							}
							body, next, _ := strings.Cut(res.Body, "|next=")
							n := 0
							for _, item := range strings.Split(body, ";") {
								if item == "" {
									continue
								}
								nm, _ := Dec(strings.TrimPrefix(strings.SplitN(item, ",", 2)[0], "name="))
								got = append(got, nm)
								n++
							}
							if size > 0 && size < 100 && n > int(size) {
								fire("page-size", fmt.Sprintf("%s(%s, page_size %d) returned %d items", kind, proj, size, n), done)
							}
							if next == "-" {
								break
							}
							if u, e := IdFromStr(next); e == nil {
								tok = u.String()
							} else {
								break
							}
						}
						sort.Strings(got)
						if strings.Join(got, "|") != strings.Join(want, "|") {
							fire("list-set", fmt.Sprintf("%s(%s) with page size %d returned %v across its pages, the live resources of exactly that project are %v", kind, proj, size, got, want), done)
						}
						st.Count("list_walks", 1)
					}
				}
			}
			// the subscriptions of a topic: those attached to the live incarnation of that name
			var tnames []string
			for _, n := range plannedT {
				dup := false
				for _, o := range tnames {
					dup = dup || o == n
				}
				if !dup {
					tnames = append(tnames, n)
				}
			}
			for _, tn := range tnames {
				var want []string
				for sn := range liveS {
					if x := subInc[sn]; x[0] == tn && incT[tn] != 0 && x[1] == incT[tn] {
						want = append(want, sn)
					}
				}
				sort.Strings(want)
				for _, size := range []int32{1, 2, 100, 0} {
					var got []string
					tok := ""
					for page := 0; page < 200; page++ {
						res := exec(Rpc{Kind: "listTopicSubs", Name: tn, Size: size, Token: tok})
						if !liveT[tn] {
							if res.Status != "NotFound" {
								fire("list-topic-subs", fmt.Sprintf("ListTopicSubscriptions(%s) of a topic that is not live answered %s", tn, res.Status), done)
							}
							break
						}
						if res.Status != "OK" {
							fire("list-error", fmt.Sprintf("ListTopicSubscriptions(%s) answered %s", tn, res.Status), done)
							break
						}
						body, next, _ := strings.Cut(res.Body, "|next=")
						n := 0
						for _, item := range strings.Split(body, ";") {
							if item == "" {
								continue
							}
							nm, _ := Dec(strings.TrimPrefix(item, "name="))
							got = append(got, nm)
							n++
						}
						if size > 0 && size < 100 && n > int(size) {
							fire("page-size", fmt.Sprintf("ListTopicSubscriptions(%s, page_size %d) returned %d items", tn, size, n), done)
						}
						if next == "-" {
							break
						}
						if u, e := IdFromStr(next); e == nil {
							tok = u.String()
						} else {
							break
						}
					}
					if !liveT[tn] {
						break
					}
					sort.Strings(got)
					if strings.Join(got, "|") != strings.Join(want, "|") {
						fire("list-topic-subs", fmt.Sprintf("ListTopicSubscriptions(%s) with page size %d returned %v across its pages; the live subscriptions attached to the live topic of that name are %v", tn, size, got, want), done)
					}
					st.Count("list_topic_subs_walks", 1)
				}
			}
			lines = w.Lines
		})
		if violation != nil {
			st.Violate(*violation)
			break
		}
		st.Distinct(fmt.Sprint(seed))
		if h == 0 {
			st.Sample(reqs[:8])
		}
		if !checkApiCorrespondence(t, m, st, "C12", seed, reqs, lines) {
			// (the remaining histories are still run: one of them may show a concrete wrong answer)
			corrBrokenC12++
			if corrBrokenC12 > 6 {
				break
			}
		}
		st.Count("histories", 1)
		st.Count("requests", len(results))
	}
	// concurrent creates of one name: exactly one succeeds
	races := 20
	if Tier() == "thorough" {
		races = 300
	}
	for k := 0; k < races && len(st.Violations) == 0; k++ {
		synctest.Test(t, func(t *testing.T) {
			w := NewWorld(t, Seed()*77+int64(k))
			defer w.Close()
			a := w.Api()
			a.ExecRpc(Rpc{Kind: "createTopic", Name: "projects/p/topics/t"})
			n := 2 + k%3
			kind := []string{"createTopic", "createSub", "createSnap"}[k%3]
			if kind == "createSnap" {
				a.ExecRpc(Rpc{Kind: "createSub", Sub: &SubReq{Name: "projects/p/subscriptions/base", Topic: "projects/p/topics/t"}})
			}
			statuses := make([]string, n)
			doneCh := make(chan int, n)
			for i := 0; i < n; i++ {
				go func(i int) {
					var rq Rpc
					switch kind {
					case "createTopic":
						rq = Rpc{Kind: kind, Name: "projects/p/topics/race"}
					case "createSub":
						rq = Rpc{Kind: kind, Sub: &SubReq{Name: "projects/p/subscriptions/race", Topic: "projects/p/topics/t"}}
					default:
						rq = Rpc{Kind: kind, Name: "projects/p/snapshots/race", Name2: "projects/p/subscriptions/base"}
					}
					statuses[i] = raceCreate(a, rq)
					doneCh <- i
				}(i)
			}
			for i := 0; i < n; i++ {
				<-doneCh
			}
			oks := 0
			for _, s := range statuses {
				if s == "OK" {
					oks++
				} else if s != "AlreadyExists" && s != "Aborted" {
					oks = -100
				}
			}
			st.Count("create_races", 1)
			if oks != 1 {
				p := writeApiReplay(fmt.Sprintf("C12-race-%d.json", Seed()), apiReplay{Property: "C12", Sig: "race", Seed: Seed(), What: fmt.Sprintf("%d concurrent %s of one name answered %v", n, kind, statuses)})
				st.Violate(Violation{What: fmt.Sprintf("[race] %d concurrent %s of one name answered %v: exactly one must succeed, the others AlreadyExists", n, kind, statuses), Replay: p, FoundInput: true, Sig: "race"})
			}
		})
	}
	st.Set("evaluations", st.Get("requests")+st.Get("create_races"))
	st.Set("traces_validated_against_impl", st.Get("histories"))
	st.Set("rule", "random histories of create / delete / re-create / get of topics, subscriptions and snapshots over projects p, P, p1, p_, p%, pé (case, prefix, LIKE wildcards, unicode) checked against a reference registry, followed by List walks of every project x kind x page size {1,2,3,100,0,-1}; concurrent creates of one name; every request also replayed through the Lean API model; distinct = distinct histories; ListTopicSubscriptions walks of every topic name against the registry of which incarnation of a name a subscription is attached to (a topic deleted and made again with subscriptions before and after)")
	st.Summary = fmt.Sprintf("histories=%d requests=%d list_walks=%d races=%d", st.Get("histories"), st.Get("requests"), st.Get("list_walks"), st.Get("create_races"))
}

// raceCreate calls the create handler directly (no protocol line: the order is the scheduler's)
func raceCreate(a *ApiWorld, rq Rpc) string {
	var err error
	func() {
		defer func() {
			if p := recover(); p != nil {
				err = fmt.Errorf("panic: %v", p)
			}
		}()
		switch rq.Kind {
		case "createTopic":
			_, err = a.Pub.CreateTopic(a.Ctx, rpcTopic(rq))
		case "createSub":
			_, err = a.Sub.CreateSubscription(a.Ctx, rq.Sub.proto())
		default:
			_, err = a.Sub.CreateSnapshot(a.Ctx, rpcSnap(rq))
		}
	}()
	return statusText(err)
}

// ---------- C17 ----------

type subView struct {
	topic, push, filter, dl, retry string
	ackdl                          int64
	retention, ttl                 int64
	labels                         string
	ordering                       bool
}

func parseSubBody(body string) map[string]string {
	keys := []string{"name", "topic", "ackdl", "retention", "labels", "ordering", "ttl", "push", "filter", "dl", "retry"}
	out := map[string]string{}
	rest := body
	for i, k := range keys {
		pre := k + "="
		if i > 0 {
			pre = "," + pre
		}
		j := strings.Index(rest, pre)
		if j < 0 {
			continue
		}
		rest = rest[j+len(pre):]
		end := len(rest)
		if i+1 < len(keys) {
			if e := strings.Index(rest, ","+keys[i+1]+"="); e >= 0 {
				end = e
			}
		}
		out[k] = rest[:end]
		rest = rest[end:]
	}
	return out
}

// normRetry: an explicit zero back-off bound and an absent one mean the same
func normRetry(k, v string) string {
	if k != "retry" {
		return v
	}
	parts := strings.Split(v, "#")
	for i := range parts {
		if parts[i] == "0" {
			parts[i] = "-"
		}
	}
	if len(parts) == 2 && parts[0] == "-" && parts[1] == "-" {
		return "-"
	}
	return strings.Join(parts, "#")
}

// expOf: the configuration a subscription request asks for, normalised as GetSubscription reports it
// (computed independently of the implementation and of the model)
func expOf(sub *SubReq) map[string]string {
	exp := map[string]string{"topic": Enc(sub.Topic), "labels": MapStr(sub.Labels), "ordering": boolStr(sub.Ordering)}
	ret, ttl := i64(sub.Retention), i64(sub.Expiration)
	if ret == 0 {
		ret = 7 * 24 * int64(time.Hour)
	}
	if ttl == 0 {
		ttl = 30 * 24 * int64(time.Hour)
	}
	exp["retention"], exp["ttl"] = fmt.Sprint(ret), fmt.Sprint(ttl)
	exp["push"], exp["filter"], exp["dl"], exp["retry"] = "-", "-", "-", "-"
	if sub.Push != nil && sub.Push.Endpoint != "" {
		exp["push"] = Enc(sub.Push.Endpoint)
	}
	if sub.Filter != "" {
		exp["filter"] = Enc(sub.Filter)
	}
	if sub.DLTopic != nil {
		n := sub.DLMax
		if n == 0 {
			n = 5
		}
		exp["dl"] = Enc(*sub.DLTopic) + "#" + fmt.Sprint(n)
	}
	mn, mx := i64(sub.RetryMin), i64(sub.RetryMax)
	if sub.HasRetry && (mn > 0 || mx > 0) {
		a, b := "-", "-"
		if mn > 0 {
			a = fmt.Sprint(mn)
		}
		if mx > 0 {
			b = fmt.Sprint(mx)
		}
		exp["retry"] = a + "#" + b
	}
	return exp
}

func TestC17(t *testing.T) {
	st := NewStats()
	defer st.Write()
	m, err := StartModel()
	if err != nil {
		t.Fatal(err)
	}
	defer m.Close()
	thorough := Tier() == "thorough"
	violate := func(sig, what string, rpcs []Rpc) {
		p := writeApiReplay(fmt.Sprintf("C17-%s-%d.json", sig, Seed()), apiReplay{Property: "C17", Sig: sig, Seed: Seed(), Rpcs: rpcs, What: what})
		st.Violate(Violation{What: "[" + sig + "] " + what, Replay: p, FoundInput: true, Sig: sig})
	}
	// (i) stored-duration codec: Value -> Scan is the identity; PostgreSQL-style strings parse to y*365d + mon*30d + d*24h + h:m:s.frac
	codecN := codecSweep(st, violate, thorough)
	// (ii) API round trips
	r := rand.New(rand.NewSource(Seed()*13 + 1))
	T, D := "projects/p/topics/t", "projects/p/topics/d"
	durVals := []int64{1, 999, 1000, 1001, int64(time.Millisecond), int64(time.Second) - 1, int64(time.Second), int64(time.Minute) + 1, int64(time.Hour), 7 * 24 * int64(time.Hour), 31 * 24 * int64(time.Hour), 400 * 24 * int64(time.Hour), 250 * 365 * 24 * int64(time.Hour), 123456789012345}
	pick := func() int64 { return durVals[r.Intn(len(durVals))] }
	nCfg := 40
	if thorough {
		nCfg = 600
	}
	allPaths := []string{"labels", "expiration_policy", "message_retention_duration", "enable_message_ordering", "retry_policy", "push_config", "filter", "dead_letter_policy"}
	var reqs []Rpc
	reqs = append(reqs, Rpc{Kind: "createTopic", Name: T, Labels: map[string]string{"team": "a", "": "empty"}}, Rpc{Kind: "createTopic", Name: D}, Rpc{Kind: "getTopic", Name: T},
		Rpc{Kind: "updateTopic", Has: true, Name: T, Labels: map[string]string{"x": "y"}, Paths: []string{"labels"}}, Rpc{Kind: "getTopic", Name: T},
		Rpc{Kind: "updateTopic", Has: true, Name: T, Labels: map[string]string{"z": "w"}, Paths: nil}, Rpc{Kind: "getTopic", Name: T},
		// the labels are replaced by nothing
		Rpc{Kind: "updateTopic", Has: true, Name: T, Labels: map[string]string{}, Paths: []string{"labels"}}, Rpc{Kind: "getTopic", Name: T},
		Rpc{Kind: "updateTopic", Has: true, Name: T, Labels: map[string]string{"again": "1"}, Paths: []string{"labels"}}, Rpc{Kind: "getTopic", Name: T},
		Rpc{Kind: "updateTopic", Has: true, Name: T, Labels: nil, Paths: []string{"labels"}}, Rpc{Kind: "getTopic", Name: T})
	randSub := func(name string) *SubReq {
		s := &SubReq{Name: name, Topic: T, Ordering: r.Intn(2) == 0}
		if r.Intn(2) == 0 {
			s.Labels = map[string]string{"k": fmt.Sprint(r.Intn(3)), "env": "x"}
		}
		if r.Intn(3) > 0 {
			s.Retention = p64(pick())
		}
		if r.Intn(3) > 0 {
			s.Expiration = p64(pick())
		}
		if r.Intn(2) == 0 {
			s.HasRetry = true
			if r.Intn(3) > 0 {
				s.RetryMin = p64(pick())
			}
			if r.Intn(3) > 0 {
				s.RetryMax = p64(pick())
			}
			if r.Intn(6) == 0 {
				s.RetryMin = p64(0)
			}
		}
		if r.Intn(3) == 0 {
			s.DLTopic, s.DLMax = pstr(D), []int32{0, 1, 5, 100}[r.Intn(4)]
		}
		if r.Intn(3) == 0 {
			s.Filter = []string{`attributes:x`, `attributes.x="1" AND NOT attributes:y`, `hasPrefix(attributes.k,"v")`}[r.Intn(3)]
		}
		if r.Intn(4) == 0 {
			s.Push = &PushCfg{Endpoint: "http://push.test/" + fmt.Sprint(r.Intn(3))}
		}
		return s
	}
	for i := 0; i < nCfg; i++ {
		name := fmt.Sprintf("projects/p/subscriptions/s%d", i)
		reqs = append(reqs, Rpc{Kind: "createSub", Sub: randSub(name)}, Rpc{Kind: "getSub", Name: name})
		// a sequence of updates with random mask subsets, each followed by Get
		for u := 0; u < 3; u++ {
			var mask []string
			for _, p := range allPaths {
				if r.Intn(4) == 0 {
					mask = append(mask, p)
				}
			}
			upd := randSub(name)
			reqs = append(reqs, Rpc{Kind: "updateSub", Has: true, Paths: mask, Sub: upd}, Rpc{Kind: "getSub", Name: name})
			if r.Intn(4) == 0 {
				// a mask that addresses a property inside a policy: not one of the paths the server updates;
				// whatever it answers, the sibling properties of that policy keep their values
				nested := []string{"retry_policy.minimum_backoff", "retry_policy.maximum_backoff", "dead_letter_policy.max_delivery_attempts", "dead_letter_policy.dead_letter_topic",
					"push_config.push_endpoint", "expiration_policy.ttl", "labels.k"}[r.Intn(7)]
				reqs = append(reqs, Rpc{Kind: "updateSub", Has: true, Paths: []string{nested}, Sub: randSub(name)}, Rpc{Kind: "getSub", Name: name})
			}
		}
		if i%10 == 9 {
			reqs = append(reqs, Rpc{Kind: "listSubs", Project: "projects/p", Size: 100}, Rpc{Kind: "advance", Adv: time.Second})
		}
		if i%10 == 4 {
			// the dead-letter topic is deleted and made again under its name: subscriptions that named it now
			// name a deleted topic, until an update names the (new) topic again
			reqs = append(reqs, Rpc{Kind: "deleteTopic", Name: D})
			// ... and while the deleted topic's row is still stored, and after the maintenance job for deleted
			// topics has run, a subscription naming it keeps the configuration it was given
			for _, j := range []int{i, i - 1} {
				if j >= 0 {
					reqs = append(reqs, Rpc{Kind: "getSub", Name: fmt.Sprintf("projects/p/subscriptions/s%d", j)})
				}
			}
			reqs = append(reqs, Rpc{Kind: "op", Op: &Op{K: "prune_deleted_topics", Max: 10}}, Rpc{Kind: "op", Op: &Op{K: "prune_deleted_topics", Max: 10}})
			for _, j := range []int{i, i - 1} {
				if j >= 0 {
					reqs = append(reqs, Rpc{Kind: "getSub", Name: fmt.Sprintf("projects/p/subscriptions/s%d", j)})
				}
			}
			reqs = append(reqs, Rpc{Kind: "createTopic", Name: D})
			for _, j := range []int{i, i - 1, i - 2} {
				if j < 0 {
					continue
				}
				name := fmt.Sprintf("projects/p/subscriptions/s%d", j)
				upd := randSub(name)
				upd.DLTopic, upd.DLMax = pstr(D), []int32{1, 7}[r.Intn(2)]
				reqs = append(reqs, Rpc{Kind: "getSub", Name: name}, Rpc{Kind: "updateSub", Has: true, Paths: []string{"dead_letter_policy"}, Sub: upd}, Rpc{Kind: "getSub", Name: name})
			}
		}
	}
	var lastGet map[string]map[string]string = map[string]map[string]string{}
	pathFields := map[string][]string{"labels": {"labels"}, "expiration_policy": {"ttl"}, "message_retention_duration": {"retention"}, "enable_message_ordering": {"ordering"},
		"retry_policy": {"retry", "ackdl"}, "push_config": {"push"}, "filter": {"filter"}, "dead_letter_policy": {"dl"}}
	var pendingUpd *Rpc
	wantTopic := ""
	lines, results := runApi(t, Seed(), reqs, func(i int, w *ApiWorld, res *RpcResult) bool {
		rq := res.Rpc
		st.Count("rpc_"+rq.Kind, 1)
		switch rq.Kind {
		case "createSub":
			if res.Status != "OK" {
				violate("create-rejected", fmt.Sprintf("CreateSubscription with an acceptable configuration was answered %s: %+v", res.Status, *rq.Sub), reqs[:i+1])
				return false
			}
			exp := expOf(rq.Sub)
			got := parseSubBody(res.Body)
			for k, v := range exp {
				if got[k] != v {
					violate("create-response", fmt.Sprintf("CreateSubscription(%+v) returned %s=%s, expected %s", *rq.Sub, k, got[k], v), reqs[:i+1])
					return false
				}
			}
			lastGet[rq.Sub.Name] = exp
		case "getSub":
			if res.Status != "OK" {
				violate("get", "GetSubscription of an existing subscription answered "+res.Status, reqs[:i+1])
				return false
			}
			got := parseSubBody(res.Body)
			exp := lastGet[rq.Name]
			if pendingUpd != nil {
				// fields whose path is not in the mask must be unchanged; the others must follow the request
				inMask := map[string]bool{}
				for _, p := range pendingUpd.Paths {
					for _, f := range pathFields[p] {
						inMask[f] = true
					}
				}
				for k, v := range exp {
					if !inMask[k] && got[k] != v {
						violate("update-locality", fmt.Sprintf("UpdateSubscription with mask %v changed %s from %s to %s", pendingUpd.Paths, k, v, got[k]), reqs[:i+1])
						return false
					}
				}
				// a field named in the mask takes the value of the request (durations: when the request gives one)
				want := expOf(pendingUpd.Sub)
				for k := range inMask {
					if k == "ackdl" {
						exp[k] = got[k]
						continue
					}
					if (k == "ttl" && i64(pendingUpd.Sub.Expiration) == 0) || (k == "retention" && i64(pendingUpd.Sub.Retention) == 0) {
						exp[k] = got[k]
						continue
					}
					if normRetry(k, got[k]) != normRetry(k, want[k]) {
						violate("update-not-applied", fmt.Sprintf("UpdateSubscription with mask %v and %s=%s in the request: Get afterwards returns %s=%s", pendingUpd.Paths, k, want[k], k, got[k]), reqs[:i+1])
						return false
					}
					exp[k] = got[k]
				}
				st.Count("update_locality_checks", 1)
				pendingUpd = nil
			} else {
				for k, v := range exp {
					if got[k] != v {
						violate("get-after-create", fmt.Sprintf("GetSubscription(%s) returned %s=%s, the configuration set was %s", rq.Name, k, got[k], v), reqs[:i+1])
						return false
					}
				}
				st.Count("get_after_create_checks", 1)
			}
		case "deleteTopic":
			if res.Status == "OK" {
				for _, e := range lastGet {
					if strings.HasPrefix(e["dl"], Enc(rq.Name)+"#") {
						e["dl"] = Enc("_deleted-topic_") + "#" + strings.SplitN(e["dl"], "#", 2)[1]
					}
				}
			}
		case "updateTopic":
			// a topic update whose mask names `labels` and that is answered OK: the response, and the next
			// GetTopic, carry exactly the labels of the request
			if res.Status == "OK" && rq.Has && len(rq.Paths) == 1 && rq.Paths[0] == "labels" {
				want := "name=" + Enc(rq.Name) + ",labels=" + MapStr(rq.Labels)
				if res.Body != want {
					violate("update-not-applied", fmt.Sprintf("UpdateTopic(%s, labels=%v, mask [labels]) answered OK with %q, expected %q", rq.Name, rq.Labels, res.Body, want), reqs[:i+1])
					return false
				}
				wantTopic = want
			}
		case "getTopic":
			if wantTopic != "" && res.Status == "OK" {
				if res.Body != wantTopic {
					violate("update-not-applied", fmt.Sprintf("GetTopic after UpdateTopic(mask [labels]) returns %q, expected %q", res.Body, wantTopic), reqs[:i+1])
					return false
				}
				st.Count("topic_update_checks", 1)
			}
			wantTopic = ""
		case "updateSub":
			if res.Status == "OK" {
				c := rq
				pendingUpd = &c
			} else if res.DumpBefore != res.DumpAfter {
				violate("rejected-update-changed", "an UpdateSubscription answered "+res.Status+" changed the tables", reqs[:i+1])
				return false
			} else {
				pendingUpd = &Rpc{Paths: nil, Sub: rq.Sub}
			}
			js, _ := json.Marshal(rq.Paths)
			st.Distinct(string(js))
		}
		return true
	})
	ok := true
	if len(st.Violations) == 0 {
		ok = checkApiCorrespondence(t, m, st, "C17", Seed(), reqs, lines)
	}
	st.Sample(reqs[7])
	if !hasConcrete(st.Violations) {
		filterEnforced(t, st)
	}
	st.Set("evaluations", len(results)+codecN)
	tv := 0
	if ok {
		tv = len(results)
	}
	st.Set("traces_validated_against_impl", tv)
	st.Set("rule", "stored-duration codec: Interval.Value -> Scan on powers of ten +-1, unit boundaries and random durations, generated PostgreSQL-style strings vs the component formula; API: Create with random accepted configurations (durations 1 ns .. 250 years, labels, optional blocks present/absent), Get, then sequences of Updates with random mask subsets each followed by Get; every request replayed through the Lean API model; distinct = distinct update masks")
	st.Summary = fmt.Sprintf("requests=%d codec=%d", len(results), codecN)
}
