package harness

import (
	"bytes"
	"context"
	"encoding/base64"
	"encoding/json"
	"fmt"
	"io"
	"net/http"
	"strings"
	"sync"
	"testing"
	"testing/synctest"
	"time"

	"github.com/google/uuid"

	"go.6river.tech/mmmbbb/actions"
	"go.6river.tech/mmmbbb/ent"
	"go.6river.tech/mmmbbb/ent/delivery"
	"go.6river.tech/mmmbbb/services"
)

type pushBody struct {
	Message struct {
		Data        string            `json:"data"`
		Attributes  map[string]string `json:"attributes"`
		MessageID   string            `json:"messageId"`
		PublishTime string            `json:"publishTime"`
		OrderingKey string            `json:"orderingKey"`
	} `json:"message"`
	Subscription    string `json:"subscription"`
	DeliveryAttempt int    `json:"deliveryAttempt"`
}

type pushReq struct {
	body    pushBody
	at      int64
	respond chan pushResp
}
type pushResp struct {
	code    int // <0: transport error
	delay   time.Duration
	badBody bool // the response body breaks off (fewer bytes than announced, connection closed)
}

// truncatedBody yields a few bytes and then fails the way net/http does when the peer closes early
type truncatedBody struct{ sent bool }

func (b *truncatedBody) Read(p []byte) (int, error) {
	if !b.sent && len(p) > 0 {
		b.sent = true
		return copy(p, []byte("{\"ok\":")), nil
	}
	return 0, io.ErrUnexpectedEOF
}
func (b *truncatedBody) Close() error { return nil }

// scriptedRT hands every request to the test, which decides the response.
type scriptedRT struct {
	mu        sync.Mutex
	inflight  int
	maxFlight int
	reqs      chan *pushReq
}

func (rt *scriptedRT) RoundTrip(req *http.Request) (*http.Response, error) {
	b, _ := io.ReadAll(req.Body)
	pr := &pushReq{at: ns(time.Now()), respond: make(chan pushResp, 1)}
	if err := json.Unmarshal(b, &pr.body); err != nil {
		return nil, err
	}
	rt.mu.Lock()
	rt.inflight++
	if rt.inflight > rt.maxFlight {
		rt.maxFlight = rt.inflight
	}
	rt.mu.Unlock()
	defer func() { rt.mu.Lock(); rt.inflight--; rt.mu.Unlock() }()
	select {
	case rt.reqs <- pr:
	case <-req.Context().Done():
		return nil, req.Context().Err()
	}
	var r pushResp
	select {
	case r = <-pr.respond:
	case <-req.Context().Done():
		return nil, req.Context().Err()
	}
	if r.delay > 0 {
		time.Sleep(r.delay)
	}
	if r.code < 0 {
		return nil, fmt.Errorf("connection refused (scripted)")
	}
	if r.badBody {
		return &http.Response{StatusCode: r.code, Status: fmt.Sprint(r.code), Body: &truncatedBody{}, ContentLength: 1000, Header: http.Header{}, Request: req}, nil
	}
	return &http.Response{StatusCode: r.code, Status: fmt.Sprint(r.code), Body: io.NopCloser(bytes.NewReader([]byte("{}"))), Header: http.Header{}, Request: req}, nil
}

func TestC19(t *testing.T) {
	st := NewStats()
	defer st.Write()
	m, err := StartModel()
	if err != nil {
		t.Fatal(err)
	}
	defer m.Close()
	thorough := Tier() == "thorough"
	violate := func(sig, what string, replay string) {
		p := ReplayPath(fmt.Sprintf("C19-%s-%d.txt", sig, Seed()))
		writeFile(p, replay)
		st.Violate(Violation{What: what, Replay: p, FoundInput: true, Sig: sig})
	}
	// final status codes to script
	codes := []int{200, 201, 202, 204, 102, 203, 205, 206, 226, 300, 301, 304, 400, 401, 404, 408, 429, 500, 502, 503, 599, -1}
	if thorough {
		codes = nil
		for c := 200; c <= 599; c++ {
			codes = append(codes, c)
		}
		codes = append(codes, 102, 100, 101, 103, -1)
	}
	// model classification
	cs := make([]string, len(codes))
	for i, c := range codes {
		cs[i] = fmt.Sprint(c)
	}
	outs, err := m.Replay([]string{"push codes=" + strings.Join(cs, ",")})
	if err != nil {
		t.Fatal(err)
	}
	modelAck := map[int]bool{}
	for i, a := range strings.Split(strings.TrimPrefix(outs[0], "R "), ",") {
		modelAck[codes[i]] = a == "a"
	}
	payloads := []string{`{"a":1}`, `"text with <html> & unicode é"`, `[1,2,{"n":12345678901234567890}]`, `{"nested":{"deep":[null,true]}}`, `{"n":0}`,
		// payloads whose base64 uses the two characters in which the standard and the URL-safe alphabet differ
		`{"q":">>>~~~","r":"??>"}`, `{"name":"Zoë ÿ"}`, `{"a":"?","b":"??","c":"???"}`}
	var batches []string
	var trajectory []int
	disagreements := 0
	corrBroken := ""
	synctest.Test(t, func(t *testing.T) {
		w := NewWorld(t, Seed())
		defer w.Close()
		w.Exec(Op{K: "create_topic", Topic: "t"})
		w.Exec(Op{K: "create_sub", Sub: "push", Cfg: &SubCfg{Topic: "t", TTL: 24 * 3600 * Sec, MTTL: 3600 * Sec, MinB: Sec, MaxB: 2 * Sec, Push: "http://push.test/x"}})
		sub, err := w.Client.Subscription.Query().Only(w.Ctx)
		if err != nil {
			t.Fatal(err)
		}
		rt := &scriptedRT{reqs: make(chan *pushReq)}
		ctx, cancel := context.WithCancel(context.Background())
		pusher := actions.NewHttpPusher(sub.Name, sub.ID, "http://push.test/x", &http.Client{Transport: rt}, w.Client)
		done := make(chan error, 1)
		go func() { done <- pusher.Go(ctx) }()
		synctest.Wait()
		trajectory = append(trajectory, pusher.CurrentFlowControl().MaxMessages)
		next := func() *pushReq {
			synctest.Wait()
			select {
			case r := <-rt.reqs:
				return r
			default:
				return nil
			}
		}
		for i, code := range codes {
			spec := MsgSpec{N: i, Payload: payloads[i%len(payloads)], Attrs: map[string]string{"k": fmt.Sprint(i), "": "empty"}}
			if i%3 == 0 {
				spec.Key = "key" + fmt.Sprint(i%2)
			}
			res := w.Exec(Op{K: "publish", Topic: "t", Msgs: []MsgSpec{spec}})
			if len(res.MsgIDs) != 1 {
				t.Fatalf("publish failed: %v", res.Err)
			}
			msgID := res.MsgIDs[0]
			msg := w.Client.Message.GetX(w.Ctx, msgID)
			req := next()
			if req == nil {
				violate("not-pushed", fmt.Sprintf("message %d was not pushed although it is deliverable and the window is %d", i, pusher.CurrentFlowControl().MaxMessages), fmt.Sprint(i))
				break
			}
			// envelope
			data, derr := base64.StdEncoding.DecodeString(req.body.Message.Data)
			if derr == nil && req.body.Message.Data != base64.StdEncoding.EncodeToString(data) {
				derr = fmt.Errorf("message.data is not canonical standard base64")
			}
			pt, _ := time.Parse(time.RFC3339Nano, req.body.Message.PublishTime)
			if derr != nil || !jsonEqual(string(data), spec.Payload) || !attrsEqual(req.body.Message.Attributes, spec.Attrs) ||
				req.body.Message.MessageID != msgID.String() || req.body.Message.OrderingKey != spec.Key || req.body.Subscription != sub.Name ||
				req.body.DeliveryAttempt != 1 || !pt.Equal(msg.PublishedAt) {
				violate("envelope", fmt.Sprintf("push envelope of message %d is not faithful: %+v (published payload %s attrs %v key %q id %s at %v)", i, req.body, spec.Payload, spec.Attrs, spec.Key, msgID, msg.PublishedAt), fmt.Sprintf("%+v", req.body))
				break
			}
			st.Count("envelopes_checked", 1)
			slow := i%5 == 4
			// (the final status decides, whether or not the body can be read to its end)
			resp := pushResp{code: code, badBody: i%2 == 1}
			if resp.badBody {
				st.Count("truncated_bodies", 1)
			}
			if slow {
				resp.delay = 1100 * time.Millisecond
			}
			req.respond <- resp
			if slow {
				time.Sleep(1200 * time.Millisecond)
			}
			synctest.Wait()
			d := w.Client.Delivery.Query().Where(delivery.MessageID(msgID)).OnlyX(w.Ctx)
			isAck := d.CompletedAt != nil
			documented := code == 102 || code == 200 || code == 201 || code == 202 || code == 204
			if isAck != documented {
				disagreements++
				violate("status-map", fmt.Sprintf("endpoint answered %d (-1 = transport error; response body cut short: %v): delivery acknowledged=%v, but the documented success set is 200/201/202/204/102", code, resp.badBody, isAck), fmt.Sprint(code))
				break
			}
			if isAck != modelAck[code] && corrBroken == "" {
				// the model's status table is regenerated from the source: it no longer describes the behaviour
				corrBroken = fmt.Sprintf("status %d: implementation acknowledged=%v, the model built from the regenerated status table says %v", code, isAck, modelAck[code])
			}
			st.Distinct(fmt.Sprint(code))
			switch {
			case isAck && slow:
				batches = append(batches, "s1")
			case isAck:
				batches = append(batches, "f1")
			default:
				batches = append(batches, "n1")
			}
			trajectory = append(trajectory, pusher.CurrentFlowControl().MaxMessages)
			if !isAck {
				// not acknowledged: must come again after the back-off, as attempt 2, then succeed
				if ns(d.AttemptAt) <= w.Now() {
					violate("no-backoff", fmt.Sprintf("after status %d the delivery is due at once (attempt_at %d, now %d)", code, ns(d.AttemptAt), w.Now()), fmt.Sprint(code))
					break
				}
				early := next()
				if early != nil {
					violate("early-retry", fmt.Sprintf("after status %d the message was pushed again before its back-off elapsed", code), fmt.Sprint(code))
					break
				}
				time.Sleep(time.Duration(ns(d.AttemptAt)-w.Now()) + time.Millisecond)
				retry := next()
				if retry == nil || retry.body.Message.MessageID != msgID.String() || retry.body.DeliveryAttempt != 2 {
					violate("no-retry", fmt.Sprintf("after status %d the message was not pushed again after its back-off (got %+v)", code, retry), fmt.Sprint(code))
					break
				}
				retry.respond <- pushResp{code: 200}
				synctest.Wait()
				batches = append(batches, "f1")
				trajectory = append(trajectory, pusher.CurrentFlowControl().MaxMessages)
				if d2 := w.Client.Delivery.Query().Where(delivery.MessageID(msgID)).OnlyX(w.Ctx); d2.CompletedAt == nil {
					violate("retry-not-acked", "retry answered 200 but the delivery is still outstanding", fmt.Sprint(code))
					break
				}
				st.Count("retries_checked", 1)
			} else {
				// acknowledged: never pushed again
				time.Sleep(30 * time.Second)
				if again := next(); again != nil {
					violate("pushed-after-ack", fmt.Sprintf("message acknowledged with status %d was pushed again", code), fmt.Sprint(code))
					break
				}
			}
			if wdw := pusher.CurrentFlowControl().MaxMessages; wdw < 1 || wdw > 1000 {
				violate("window", fmt.Sprintf("window %d outside 1..1000", wdw), fmt.Sprint(wdw))
				break
			}
		}
		// a message that reaches the push subscription through dead-letter forwarding keeps its id,
		// payload, attributes and original publish time in the envelope
		if len(st.Violations) == 0 {
			w.Exec(Op{K: "create_topic", Topic: "src"})
			w.Exec(Op{K: "create_sub", Sub: "srcsub", Cfg: &SubCfg{Topic: "src", TTL: 24 * 3600 * Sec, MTTL: 3600 * Sec, MaxAtt: 1, DLT: "t"}})
			fspec := MsgSpec{N: 9000, Payload: `{"n":9000,"forwarded":true}`, Attrs: map[string]string{"via": "dlq"}}
			fres := w.Exec(Op{K: "publish", Topic: "src", Msgs: []MsgSpec{fspec}})
			time.Sleep(700 * time.Millisecond)
			w.Exec(Op{K: "pull", Sub: "srcsub", Max: 1})
			time.Sleep(300 * time.Millisecond)
			w.Exec(Op{K: "nack", Refs: []Ref{{N: 9000, Sub: "srcsub"}}})
			if len(fres.MsgIDs) == 1 {
				fmsg := w.Client.Message.GetX(w.Ctx, fres.MsgIDs[0])
				if freq := next(); freq == nil {
					violate("not-pushed", "a message forwarded into the topic by dead-lettering was not pushed", "forwarded")
				} else {
					data, derr := base64.StdEncoding.DecodeString(freq.body.Message.Data)
					pt, _ := time.Parse(time.RFC3339Nano, freq.body.Message.PublishTime)
					if derr != nil || !jsonEqual(string(data), fspec.Payload) || !attrsEqual(freq.body.Message.Attributes, fspec.Attrs) ||
						freq.body.Message.MessageID != fmsg.ID.String() || !pt.Equal(fmsg.PublishedAt) {
						violate("envelope", fmt.Sprintf("push envelope of a dead-letter-forwarded message is not faithful: %+v (message id %s published at %v, payload %s attrs %v)", freq.body, fmsg.ID, fmsg.PublishedAt, fspec.Payload, fspec.Attrs), fmt.Sprintf("%+v", freq.body))
					}
					st.Count("envelopes_checked", 1)
					freq.respond <- pushResp{code: 204}
					synctest.Wait()
					batches = append(batches, "f1")
					trajectory = append(trajectory, pusher.CurrentFlowControl().MaxMessages)
				}
			}
		}
		// burst: many messages at once — concurrent pushes must stay within the window
		var burst []MsgSpec
		for i := 0; i < 40; i++ {
			burst = append(burst, MsgSpec{N: 10000 + i})
		}
		w.Exec(Op{K: "publish", Topic: "t", Msgs: burst})
		for served := 0; served < 40; {
			synctest.Wait()
			window := pusher.CurrentFlowControl().MaxMessages
			rt.mu.Lock()
			fl := rt.inflight
			rt.mu.Unlock()
			if fl > window {
				violate("inflight", fmt.Sprintf("%d pushes in flight with a window of %d", fl, window), fmt.Sprint(fl))
				break
			}
			r := next()
			if r == nil {
				time.Sleep(time.Second)
				if r = next(); r == nil {
					violate("stall", fmt.Sprintf("push stream stalled with %d of 40 burst messages served", served), fmt.Sprint(served))
					break
				}
			}
			r.respond <- pushResp{code: 204}
			served++
			st.Count("burst_served", 1)
		}
		// collapse: a full window of pushes fails at once (endpoint outage) — the window shrinks but never
		// below 1, and the failed messages are pushed again after their back-off
		if len(st.Violations) == 0 {
			w2 := *w
			window := pusher.CurrentFlowControl().MaxMessages
			b := window
			if b > 12 {
				b = 12
			}
			var msgs []MsgSpec
			for i := 0; i < b; i++ {
				msgs = append(msgs, MsgSpec{N: 15000 + i})
			}
			w2.execInner(Op{K: "publish", Topic: "t", Msgs: msgs}, &Result{T: w.Now()})
			var held []*pushReq
			for len(held) < b {
				r := next()
				if r == nil {
					time.Sleep(time.Second)
					if r = next(); r == nil {
						break
					}
				}
				held = append(held, r)
			}
			for _, r := range held {
				r.respond <- pushResp{code: 500}
			}
			synctest.Wait()
			if wdw := pusher.CurrentFlowControl().MaxMessages; wdw < 1 || wdw > 1000 {
				violate("window", fmt.Sprintf("after %d simultaneous failures with a window of %d the window is %d, outside 1..1000", len(held), window, wdw), fmt.Sprint(wdw))
			}
			// the failed messages come back
			again := 0
			for tries := 0; tries < 40 && again < len(held); tries++ {
				r := next()
				if r == nil {
					time.Sleep(500 * time.Millisecond)
					continue
				}
				r.respond <- pushResp{code: 204}
				again++
			}
			if again < len(held) && len(st.Violations) == 0 {
				violate("not-pushed-again", fmt.Sprintf("%d pushes failed at once; only %d of them were pushed again within 20 s (window now %d)", len(held), again, pusher.CurrentFlowControl().MaxMessages), fmt.Sprint(again))
			}
			synctest.Wait()
			st.Count("collapse_served", len(held)+again)
		}
		// slow collapse: a full window of pushes is answered with success, all of them slowly (more than
		// a second) and at the same moment — the window shrinks but never below 1, and pushing goes on
		if len(st.Violations) == 0 {
			w2 := *w
			window := pusher.CurrentFlowControl().MaxMessages
			st.Set("slow_collapse_window", window)
			if window >= 2 && window <= 60 {
				var msgs []MsgSpec
				for i := 0; i < window; i++ {
					msgs = append(msgs, MsgSpec{N: 17000 + i})
				}
				w2.execInner(Op{K: "publish", Topic: "t", Msgs: msgs}, &Result{T: w.Now()})
				var held []*pushReq
				for len(held) < window {
					r := next()
					if r == nil {
						time.Sleep(time.Second)
						if r = next(); r == nil {
							break
						}
					}
					held = append(held, r)
				}
				for _, r := range held {
					r.respond <- pushResp{code: 200, delay: 1100 * time.Millisecond}
				}
				time.Sleep(1200 * time.Millisecond)
				synctest.Wait()
				if wdw := pusher.CurrentFlowControl().MaxMessages; wdw < 1 || wdw > 1000 {
					violate("window", fmt.Sprintf("after %d simultaneous slow successes with a window of %d the window is %d, outside 1..1000", len(held), window, wdw), fmt.Sprint(wdw))
				} else {
					// pushing goes on
					w2.execInner(Op{K: "publish", Topic: "t", Msgs: []MsgSpec{{N: 17900}}}, &Result{T: w.Now()})
					r := next()
					if r == nil {
						time.Sleep(2 * time.Second)
						r = next()
					}
					if r == nil {
						violate("stall", fmt.Sprintf("after %d simultaneous slow successes (window %d -> %d) the next message is not pushed", len(held), window, wdw), "slow-collapse")
					} else {
						r.respond <- pushResp{code: 204}
						synctest.Wait()
					}
				}
				st.Count("slow_collapse_served", len(held))
			}
		}
		// long climb: batches of simultaneous fast successes
		// until the window has had the chance to pass its cap
		_ = 0
		if len(st.Violations) == 0 {
			w2 := *w
			n := 20000
			total := 0
			for round := 0; round < 400 && total < 2600; round++ {
				window := pusher.CurrentFlowControl().MaxMessages
				b := window
				if b > 45 {
					b = 45
				}
				var msgs []MsgSpec
				for i := 0; i < b; i++ {
					msgs = append(msgs, MsgSpec{N: n})
					n++
				}
				w2.execInner(Op{K: "publish", Topic: "t", Msgs: msgs}, &Result{T: w.Now()})
				var held []*pushReq
				for len(held) < b {
					r := next()
					if r == nil {
						time.Sleep(time.Second)
						if r = next(); r == nil {
							break
						}
					}
					held = append(held, r)
				}
				for _, r := range held {
					r.respond <- pushResp{code: 204}
				}
				total += len(held)
				synctest.Wait()
				st.Count("climb_served", len(held))
				if wdw := pusher.CurrentFlowControl().MaxMessages; wdw < 1 || wdw > 1000 {
					violate("window", fmt.Sprintf("after %d simultaneous fast successes the window is %d, outside 1..1000", len(held), wdw), fmt.Sprint(wdw))
					break
				}
				if pusher.CurrentFlowControl().MaxMessages >= 1000 && round%3 == 2 {
					break
				}
			}
			st.Set("climb_final_window", pusher.CurrentFlowControl().MaxMessages)
		}
		cancel()
		// drain whatever is still waiting so that the streamer can shut down
		for i := 0; i < 50; i++ {
			synctest.Wait()
			select {
			case r := <-rt.reqs:
				r.respond <- pushResp{code: 500}
			default:
			}
		}
		select {
		case <-done:
		case <-time.After(time.Minute):
		}
		st.Set("max_inflight", rt.maxFlight)
		_ = ent.IsNotFound
		_ = uuid.Nil
	})
	// window trajectory vs the model
	wo, err := m.Replay([]string{"window batches=" + strings.Join(batches, ",")})
	if err != nil {
		t.Fatal(err)
	}
	var gotT []string
	for _, v := range trajectory {
		gotT = append(gotT, fmt.Sprint(v))
	}
	if want := strings.TrimPrefix(wo[0], "R "); want != strings.Join(gotT, ",") && len(st.Violations) == 0 {
		disagreements++
		p := ReplayPath(fmt.Sprintf("C19-window-%d.txt", Seed()))
		writeFile(p, "batches "+strings.Join(batches, ",")+"\nmodel "+want+"\nimpl  "+strings.Join(gotT, ","))
		st.Violate(Violation{What: "adaptive window trajectory differs from the model: batches " + strings.Join(batches, ",") + " model " + want + " impl " + strings.Join(gotT, ","), Replay: p, FoundInput: false, Sig: "correspondence"})
	}
	if len(st.Violations) == 0 {
		if what := pushOutcomeRouting(st, Seed()); what != "" {
			p := ReplayPath(fmt.Sprintf("C19-outcome-routing-%d.txt", Seed()))
			writeFile(p, what)
			st.Violate(Violation{What: what, Replay: p, FoundInput: true, Sig: "outcome-routing"})
		}
	}
	// window arithmetic, batch by batch, against the model (w8_test.go)
	if len(st.Violations) == 0 {
		pushWindowArithmetic(t, st, m)
	}
	if corrBroken != "" && len(st.Violations) == 0 {
		p := ReplayPath(fmt.Sprintf("C19-status-correspondence-%d.txt", Seed()))
		writeFile(p, corrBroken)
		st.Violate(Violation{What: "correspondence with the regenerated status table broken: " + corrBroken, Replay: p, FoundInput: false, Sig: "correspondence"})
	}
	// mixed batches answered together: refusals come again, slow successes are acknowledged (the branch
	// that drains the queues is chosen by a select: several rounds)
	if len(st.Violations) == 0 {
		rounds := 4
		if thorough {
			rounds = 12
		}
		for i := 0; i < rounds; i++ {
			nf, ns := 3, 3
			if i%2 == 1 {
				nf, ns = 10, 4
			}
			what := pushBatchOutcome(t, Seed()+int64(i), nf, ns)
			st.Count("push_batch_rounds", 1)
			if what != "" && !strings.HasPrefix(what, "setup:") {
				violate("batch-outcome", what, fmt.Sprintf("%d x 500 + %d x slow 200, round %d", nf, ns, i))
				break
			}
		}
	}
	// the push service restarts a pusher that died
	if len(st.Violations) == 0 {
		st.Count("push_service_restart_cases", 1)
		if what := pushServiceRestarts(t, Seed()); what != "" && !strings.HasPrefix(what, "setup:") {
			violate("pusher-not-restarted", what, "push service; publish m1; endpoint answers 500 and the next SQL statement of the pusher fails; publish m2; 200 s")
		} else if what != "" {
			st.Count("push_service_setup_failed", 1)
		}
	}
	if len(st.Violations) == 0 {
		st.Count("push_service_keep_cases", 1)
		if what := pushServiceKeepsPushers(t, Seed()); what != "" && !strings.HasPrefix(what, "setup:") {
			violate("pusher-restarted-needlessly", what, "push service; publish m1 (POST held); create three other subscriptions; answer 204; 100 s")
		} else if what != "" {
			st.Count("push_service_setup_failed", 1)
		}
	}
	// "pushed again after the back-off": the back-off itself, for attempt counts only an endpoint that has
	// been failing for days reaches
	if len(st.Violations) == 0 {
		backoffSweep("C19")(t, st)
	}
	st.Set("evaluations", len(codes)+st.Get("retries_checked")+st.Get("burst_served")+st.Get("climb_served"))
	st.Set("traces_validated_against_impl", len(codes)-disagreements)
	st.Set("rule", "the real HttpPushStreamer under testing/synctest with an in-memory RoundTripper scripted per request: one message per final status code (quick: 22 codes incl. transport error; thorough: every code 200-599 and 100-103), fast and slow answers, retry after back-off, then a 40-message burst; distinct = distinct status codes; every other response body breaks off before its announced length; NextDelayFor swept directly against the exact model value for attempt counts up to MaxInt32")
	st.Sample(map[string]interface{}{"batches": batches, "window_trajectory": trajectory})
	st.Summary = fmt.Sprintf("codes=%d retries=%d burst=%d disagreements=%d", len(codes), st.Get("retries_checked"), st.Get("burst_served"), disagreements)
}

// pushBatchOutcome: a push subscription whose window has opened; `nFail` pushes are answered 500 and
// `nSlow` pushes are answered 200 after more than a second, all at the same instant.  Afterwards every
// message answered 500 must be pushed again (and is then accepted), and every message answered 200 must
// be acknowledged and never pushed again.  Returns what went wrong ("" = nothing).
func pushBatchOutcome(t *testing.T, seed int64, nFail, nSlow int) (what string) {
	synctest.Test(t, func(t *testing.T) {
		w := NewWorld(t, seed)
		defer w.Close()
		w.Exec(Op{K: "create_topic", Topic: "t"})
		w.Exec(Op{K: "create_sub", Sub: "push", Cfg: &SubCfg{Topic: "t", TTL: 24 * 3600 * Sec, MTTL: 3600 * Sec, MinB: Sec, MaxB: 2 * Sec, Push: "http://push.test/x"}})
		sub, err := w.Client.Subscription.Query().Only(qctx)
		if err != nil {
			t.Fatal(err)
		}
		rt := &scriptedRT{reqs: make(chan *pushReq)}
		ctx, cancel := context.WithCancel(context.Background())
		defer cancel()
		pusher := actions.NewHttpPusher(sub.Name, sub.ID, "http://push.test/x", &http.Client{Transport: rt}, w.Client)
		done := make(chan error, 1)
		go func() { done <- pusher.Go(ctx) }()
		synctest.Wait()
		next := func() *pushReq {
			synctest.Wait()
			select {
			case r := <-rt.reqs:
				return r
			default:
				return nil
			}
		}
		w2 := *w
		publish := func(from, n int) {
			var msgs []MsgSpec
			for i := 0; i < n; i++ {
				msgs = append(msgs, MsgSpec{N: from + i})
			}
			w2.execInner(Op{K: "publish", Topic: "t", Msgs: msgs}, &Result{T: w.Now()})
		}
		// open the window: fast successes
		need := nFail + nSlow
		publish(0, 3*need+6)
		served := 0
		for tries := 0; served < 3*need+6 && tries < 400; tries++ {
			r := next()
			if r == nil {
				time.Sleep(200 * time.Millisecond)
				continue
			}
			r.respond <- pushResp{code: 204}
			served++
		}
		synctest.Wait()
		if wdw := pusher.CurrentFlowControl().MaxMessages; wdw < need {
			what = fmt.Sprintf("setup: the window only opened to %d after %d fast successes", wdw, served)
			return
		}
		// the batch: held until all of them are in flight, then answered together
		publish(1000, need)
		var held []*pushReq
		for tries := 0; len(held) < need && tries < 100; tries++ {
			r := next()
			if r == nil {
				time.Sleep(200 * time.Millisecond)
				continue
			}
			held = append(held, r)
		}
		if len(held) < need {
			what = fmt.Sprintf("setup: only %d of %d pushes in flight", len(held), need)
			return
		}
		failed, slow := map[string]bool{}, map[string]bool{}
		for i, r := range held {
			if i < nFail {
				failed[r.body.Message.MessageID] = true
				r.respond <- pushResp{code: 500, delay: 1100 * time.Millisecond}
			} else {
				slow[r.body.Message.MessageID] = true
				r.respond <- pushResp{code: 200, delay: 1100 * time.Millisecond}
			}
		}
		time.Sleep(1200 * time.Millisecond)
		synctest.Wait()
		again := map[string]int{}
		for tries := 0; tries < 120; tries++ {
			r := next()
			if r == nil {
				time.Sleep(500 * time.Millisecond)
				continue
			}
			again[r.body.Message.MessageID]++
			r.respond <- pushResp{code: 204}
		}
		synctest.Wait()
		for id := range failed {
			if again[id] == 0 {
				what = fmt.Sprintf("%d pushes were answered 500 and %d were answered 200 (slowly) at the same instant; message %s, answered 500, was not pushed again within 60 s", nFail, nSlow, id)
				return
			}
		}
		for id := range slow {
			if again[id] > 0 {
				what = fmt.Sprintf("%d pushes were answered 500 and %d were answered 200 (slowly) at the same instant; message %s, answered 200, was pushed again", nFail, nSlow, id)
				return
			}
			mid, _ := uuid.Parse(id)
			if d, err := w.Client.Delivery.Query().Where(delivery.MessageID(mid)).Only(qctx); err == nil && d.CompletedAt == nil {
				what = fmt.Sprintf("%d pushes were answered 500 and %d were answered 200 (slowly) at the same instant; message %s, answered 200, is still unacknowledged", nFail, nSlow, id)
				return
			}
		}
		cancel()
		synctest.Wait()
	})
	return
}

// pushServiceRestarts: the push service (services/http-push.go) keeps a pusher running per push
// subscription; a pusher that dies of a storage error is started again, and the messages it had not
// got accepted are pushed after all.  Returns what went wrong ("" = nothing).
func pushServiceRestarts(t *testing.T, seed int64) (what string) {
	synctest.Test(t, func(t *testing.T) {
		w := NewWorld(t, seed)
		defer w.Close()
		w.Exec(Op{K: "create_topic", Topic: "t"})
		w.Exec(Op{K: "create_sub", Sub: "push", Cfg: &SubCfg{Topic: "t", TTL: 24 * 3600 * Sec, MTTL: 3600 * Sec, MinB: Sec, MaxB: 2 * Sec, Push: "http://push.test/x"}})
		rt := &scriptedRT{reqs: make(chan *pushReq)}
		oldT := http.DefaultTransport
		http.DefaultTransport = rt
		defer func() { http.DefaultTransport = oldT }()
		w.Ctl.mu.Lock()
		w.Ctl.tick = 0
		w.Ctl.mu.Unlock()
		ctx, cancel := context.WithCancel(WithLabel(context.Background(), "push"))
		defer cancel()
		svc := services.NewHttpPushServiceForVerif()
		if err := svc.Initialize(ctx, w.Client); err != nil {
			t.Fatal(err)
		}
		ready := make(chan struct{})
		done := make(chan error, 1)
		go func() { done <- svc.Start(ctx, ready) }()
		synctest.Wait()
		select {
		case <-ready:
		default:
			what = "setup: the push service did not become ready"
			return
		}
		next := func() *pushReq {
			synctest.Wait()
			select {
			case r := <-rt.reqs:
				return r
			default:
				return nil
			}
		}
		w2 := *w
		w2.execInner(Op{K: "publish", Topic: "t", Msgs: []MsgSpec{{N: 1}}}, &Result{T: w.Now()})
		r1 := next()
		if r1 == nil {
			what = "setup: the first message was not pushed"
			return
		}
		m1 := r1.body.Message.MessageID
		// the endpoint refuses it, and the storage fails under the pusher while it records that
		w.Ctl.Arm(1, 0, nil, "push")
		r1.respond <- pushResp{code: 500}
		synctest.Wait()
		w.Ctl.Arm(0, 0, nil, "")
		// a second message; then time for the retry back-off and for the service's own polling
		w2.execInner(Op{K: "publish", Topic: "t", Msgs: []MsgSpec{{N: 2}}}, &Result{T: w.Now()})
		got := map[string]int{}
		for tries := 0; tries < 400; tries++ {
			r := next()
			if r == nil {
				time.Sleep(500 * time.Millisecond)
				continue
			}
			got[r.body.Message.MessageID]++
			r.respond <- pushResp{code: 204}
		}
		synctest.Wait()
		open, _ := w.Client.Delivery.Query().Where(delivery.CompletedAtIsNil()).Count(qctx)
		if got[m1] == 0 || len(got) < 2 || open > 0 {
			what = fmt.Sprintf("the pusher of a push subscription died of a storage error after its endpoint had answered 500; 200 s later the refused message was pushed again %d times, %d distinct messages were pushed in all (2 published since), %d deliveries are still unacknowledged: the push service did not start the pusher again", got[m1], len(got), open)
		}
		cancel()
		synctest.Wait()
		_ = svc.Cleanup(context.Background())
	})
	return
}

// pushServiceKeepsPushers: while the push service is running, changes to *other* subscriptions (each
// makes the service look at its pushers again) and its periodic rounds leave a running pusher alone: a
// request in flight is not aborted, and a message the endpoint then answers with 204 is pushed once.
func pushServiceKeepsPushers(t *testing.T, seed int64) (what string) {
	synctest.Test(t, func(t *testing.T) {
		w := NewWorld(t, seed)
		defer w.Close()
		w.Exec(Op{K: "create_topic", Topic: "t"})
		w.Exec(Op{K: "create_sub", Sub: "push", Cfg: &SubCfg{Topic: "t", TTL: 24 * 3600 * Sec, MTTL: 3600 * Sec, MinB: Sec, MaxB: 2 * Sec, Push: "http://push.test/x"}})
		rt := &scriptedRT{reqs: make(chan *pushReq)}
		oldT := http.DefaultTransport
		http.DefaultTransport = rt
		defer func() { http.DefaultTransport = oldT }()
		w.Ctl.mu.Lock()
		w.Ctl.tick = 0
		w.Ctl.mu.Unlock()
		ctx, cancel := context.WithCancel(WithLabel(context.Background(), "push"))
		defer cancel()
		svc := services.NewHttpPushServiceForVerif()
		if err := svc.Initialize(ctx, w.Client); err != nil {
			t.Fatal(err)
		}
		ready := make(chan struct{})
		done := make(chan error, 1)
		go func() { done <- svc.Start(ctx, ready) }()
		synctest.Wait()
		select {
		case <-ready:
		default:
			what = "setup: the push service did not become ready"
			return
		}
		next := func() *pushReq {
			synctest.Wait()
			select {
			case r := <-rt.reqs:
				return r
			default:
				return nil
			}
		}
		w2 := *w
		w2.execInner(Op{K: "publish", Topic: "t", Msgs: []MsgSpec{{N: 1}}}, &Result{T: w.Now()})
		var r1 *pushReq
		for tries := 0; tries < 40 && r1 == nil; tries++ {
			if r1 = next(); r1 == nil {
				time.Sleep(250 * time.Millisecond)
			}
		}
		if r1 == nil {
			what = "setup: the message was not pushed"
			return
		}
		m1 := r1.body.Message.MessageID
		// while the request is in flight: other subscriptions come and go, and more than a minute passes
		posts := map[string]int{m1: 1}
		for i := 0; i < 3; i++ {
			w3 := *w
			w3.execInner(Op{K: "create_sub", Sub: fmt.Sprintf("other%d", i), Cfg: &SubCfg{Topic: "t", TTL: 24 * 3600 * Sec, MTTL: 3600 * Sec}}, &Result{T: w.Now()})
			time.Sleep(300 * time.Millisecond)
			if r := next(); r != nil {
				posts[r.body.Message.MessageID]++
				r.respond <- pushResp{code: 204}
			}
		}
		r1.respond <- pushResp{code: 204}
		for tries := 0; tries < 200; tries++ {
			r := next()
			if r == nil {
				time.Sleep(500 * time.Millisecond)
				continue
			}
			posts[r.body.Message.MessageID]++
			r.respond <- pushResp{code: 204}
		}
		synctest.Wait()
		if posts[m1] != 1 {
			what = fmt.Sprintf("push service running; one message, its POST in flight while three other (pull) subscriptions are created; the endpoint then answers 204: the message was POSTed %d times in all (a running pusher was stopped and started again, the request in flight aborted)", posts[m1])
		}
		cancel()
		synctest.Wait()
		_ = svc.Cleanup(context.Background())
	})
	return
}
