package harness

import (
	"context"
	"encoding/json"
	"errors"
	"fmt"
	"google.golang.org/grpc/metadata"
	"google.golang.org/protobuf/proto"
	"io"
	"math/rand"
	"os"
	"sort"
	"strings"
	"sync"
	"sync/atomic"
	"testing"

	ggrpc "google.golang.org/grpc"
	"google.golang.org/grpc/codes"
	"google.golang.org/grpc/status"

	"go.6river.tech/mmmbbb/controllers"
	"go.6river.tech/mmmbbb/faults"
	mgrpc "go.6river.tech/mmmbbb/grpc"
	"go.6river.tech/mmmbbb/grpc/pubsubpb"
)

type firedErr struct{ idx int }

func (e firedErr) Error() string { return fmt.Sprintf("fault %d", e.idx) }

func TestC18(t *testing.T) {
	st := NewStats()
	defer st.Write()
	m, err := StartModel()
	if err != nil {
		t.Fatal(err)
	}
	defer m.Close()
	thorough := Tier() == "thorough"
	r := rand.New(rand.NewSource(Seed()*31 + 5))
	violate := func(sig, what string, found bool, replay string) {
		p := ReplayPath(fmt.Sprintf("C18-%s-%d.txt", sig, Seed()))
		writeFile(p, replay)
		st.Violate(Violation{What: what, Replay: p, FoundInput: found, Sig: sig})
	}
	ops := []string{"Publish", "Pull", "Publish:RecvMsg"}
	keys := []string{"topic", "subscription", "x"}
	vals := []string{"a", "b", ""}
	randParams := func(max int) map[string]string {
		p := map[string]string{}
		n := r.Intn(max + 1)
		for i := 0; i < n; i++ {
			p[keys[r.Intn(len(keys))]] = vals[r.Intn(len(vals))]
		}
		return p
	}
	// (i) sequential differential of the real Set against the model
	nSeq := 400
	if thorough {
		nSeq = 8000
	}
	disagreements := 0
	for k := 0; k < nSeq; k++ {
		set := faults.NewSet(fmt.Sprintf("v%d_%d", Seed(), k))
		var lineOps, got []string
		nAdded := 0
		// every third sequence injects and lists through the HTTP controller (controllers/fault-injector.go:
		// POST /faults/inject, GET /faults) instead of calling the Set directly
		viaCtl := k%3 == 2
		fic := controllers.NewFaultInjectorControllerForVerif(set)
		// independent bookkeeping of what was injected: (operation, parameters, remaining count)
		type inj struct {
			op     string
			params map[string]string
			left   int64
		}
		var injected []*inj
		for i := 0; i < 6+r.Intn(25); i++ {
			switch r.Intn(6) {
			case 0, 1:
				op, ps, cnt := ops[r.Intn(len(ops))], randParams(2), int64(r.Intn(5)-1)
				idx := nAdded
				nAdded++
				if viaCtl {
					body := map[string]any{"operation": op, "count": cnt, "error": "grpc.NotFound"}
					if len(ps) > 0 {
						body["parameters"] = ps
					}
					bj, _ := json.Marshal(body)
					code, resp, cerr := callController(nil, fic, "POST", "/faults/inject", string(bj))
					st.Count("controller_injections", 1)
					if cerr != nil || code != 201 {
						violate("controller-inject", fmt.Sprintf("POST /faults/inject %s answered %d %s (%v)", bj, code, resp, cerr), true, string(bj))
						break
					}
				} else {
					set.Add(faults.Description{Operation: op, Parameters: ps, Count: cnt,
						OnFault: func(d faults.Description, p faults.Parameters) error { return firedErr{idx} }})
				}
				lineOps = append(lineOps, "add~"+Enc(op)+"~"+MapStr(ps)+"~"+fmt.Sprint(cnt))
				got = append(got, "ok")
				injected = append(injected, &inj{op, ps, cnt})
			case 5:
				cur := set.Current()
				if viaCtl {
					// the listing as GET /faults gives it (order of the operations is the map's: grouped here)
					code, resp, cerr := callController(nil, fic, "GET", "/faults", "")
					var list []struct {
						Operation string `json:"operation"`
						Count     int64  `json:"count"`
					}
					if cerr != nil || code != 200 || json.Unmarshal([]byte(resp), &list) != nil {
						violate("controller-list", fmt.Sprintf("GET /faults answered %d %s (%v)", code, resp, cerr), true, "GET /faults")
						break
					}
					cur = map[string][]faults.Description{}
					for _, e := range list {
						cur[e.Operation] = append(cur[e.Operation], faults.Description{Operation: e.Operation, Count: e.Count})
					}
					st.Count("controller_listings", 1)
				}
				var names []string
				for o := range cur {
					names = append(names, o)
				}
				sort.Strings(names)
				var parts []string
				for _, o := range names {
					for _, d := range cur[o] {
						parts = append(parts, fmt.Sprintf("%s=%d", Enc(o), d.Count))
					}
				}
				lineOps = append(lineOps, "current")
				got = append(got, "cur:"+strings.Join(parts, ","))
			default:
				op, ps := ops[r.Intn(len(ops))], randParams(3)
				err := set.Check(op, ps)
				res := "pass"
				var fe firedErr
				if errors.As(err, &fe) {
					res = fmt.Sprintf("fired:%d", fe.idx)
				} else if err != nil && viaCtl && status.Code(err) == codes.NotFound {
					// a fault injected through the controller does not say which one it was: the first live
					// matching one of the operation, in the order of injection (what the model says too)
					for ji, j := range injected {
						if j.op == op && j.left > 0 {
							all := true
							for k2, v := range j.params {
								if pv, ok := ps[k2]; !ok || pv != v {
									all = false
								}
							}
							if all {
								fe = firedErr{ji}
								err = fe
								res = fmt.Sprintf("fired:%d", ji)
								break
							}
						}
					}
					if res == "pass" {
						res = "fired:none-matching"
					}
				} else if err != nil {
					res = "err:" + err.Error()
				}
				lineOps = append(lineOps, "check~"+Enc(op)+"~"+MapStr(ps))
				got = append(got, res)
				// independent monitor: a call is failed only through a fault for this operation whose every
				// parameter is present in the call with the same value, and which has injections left;
				// and a call matching a fault with injections left is failed
				matches := func(j *inj) bool {
					if j.op != op {
						return false
					}
					for k2, v := range j.params {
						if pv, ok := ps[k2]; !ok || pv != v {
							return false
						}
					}
					return true
				}
				if errors.As(err, &fe) {
					j := injected[fe.idx]
					if !matches(j) {
						violate("fired-nonmatching", fmt.Sprintf("call %s%v was failed through the fault {%s %v}, which it does not match", op, ps, j.op, j.params), true, strings.Join(lineOps, ";"))
					} else if j.left <= 0 {
						violate("fired-exhausted", fmt.Sprintf("call %s%v was failed through the fault {%s %v} that had no injections left", op, ps, j.op, j.params), true, strings.Join(lineOps, ";"))
					}
					j.left--
				} else if err == nil {
					for _, j := range injected {
						if matches(j) && j.left > 0 {
							violate("not-fired", fmt.Sprintf("call %s%v matches the fault {%s %v} with %d injections left but was not failed", op, ps, j.op, j.params, j.left), true, strings.Join(lineOps, ";"))
							break
						}
					}
				}
			}
		}
		line := "faults ops=" + strings.Join(lineOps, ";")
		outs, err := m.Replay([]string{line})
		if err != nil {
			t.Fatal(err)
		}
		want := strings.Split(strings.TrimPrefix(outs[0], "R "), ";")
		// the model lists descriptions in insertion order; the implementation groups them by operation
		for i, w := range want {
			if strings.HasPrefix(w, "cur:") && len(w) > 4 {
				es := strings.Split(w[4:], ",")
				sort.SliceStable(es, func(a, b int) bool { return strings.SplitN(es[a], "=", 2)[0] < strings.SplitN(es[b], "=", 2)[0] })
				want[i] = "cur:" + strings.Join(es, ",")
			}
		}
		st.Count("sequential_ops", len(lineOps))
		st.Distinct(line)
		if k < 2 {
			st.Sample(map[string]interface{}{"ops": lineOps, "impl": got})
		}
		if strings.Join(want, ";") != strings.Join(got, ";") {
			disagreements++
			if disagreements == 1 {
				violate("correspondence", fmt.Sprintf("faults.Set and the model differ on %s: model %v / impl %v", line, want, got), false, line+"\n"+outs[0]+"\n"+strings.Join(got, ";"))
			}
		}
		// independent monitor: a fired description must match the call (same op, params subset) and counts never go up
	}
	// (ii) through the unary interceptor with real protobuf requests
	{
		set := faults.NewSet(fmt.Sprintf("vi%d", Seed()))
		inj := mgrpc.UnaryFaultInjector(set)
		handlerCalls := 0
		handler := func(ctx context.Context, req interface{}) (interface{}, error) { handlerCalls++; return "ok", nil }
		info := &ggrpc.UnaryServerInfo{FullMethod: "/google.pubsub.v1.Publisher/Publish"}
		set.Add(faults.Description{Operation: "Publish", Parameters: map[string]string{"topic": "projects/p/topics/t"}, Count: 2,
			OnFault: func(d faults.Description, p faults.Parameters) error { return firedErr{0} }})
		type step struct {
			topic string
			fail  bool
		}
		for i, sN := range []step{{"projects/p/topics/u", false}, {"projects/p/topics/t", true}, {"projects/p/topics/T", false}, {"projects/p/topics/t", true}, {"projects/p/topics/t", false}} {
			_, err := inj(context.Background(), &pubsubpb.PublishRequest{Topic: sN.topic}, info, handler)
			if (err != nil) != sN.fail {
				violate("interceptor", fmt.Sprintf("step %d: Publish to %s with fault {topic: projects/p/topics/t, count 2}: failed=%v, expected %v", i, sN.topic, err != nil, sN.fail), true, fmt.Sprint(sN))
			}
		}
		// other method with the same parameter: must not be failed
		set.Add(faults.Description{Operation: "Publish", Parameters: map[string]string{"topic": "projects/p/topics/t"}, Count: 1,
			OnFault: func(d faults.Description, p faults.Parameters) error { return firedErr{1} }})
		info2 := &ggrpc.UnaryServerInfo{FullMethod: "/google.pubsub.v1.Publisher/GetTopic"}
		if _, err := inj(context.Background(), &pubsubpb.GetTopicRequest{Topic: "projects/p/topics/t"}, info2, handler); err != nil {
			violate("interceptor", "a fault for Publish failed a GetTopic call", true, "GetTopic")
		}
		if len(set.Current()["Publish"]) != 1 {
			violate("listing", fmt.Sprintf("listing shows %v, expected the one unexhausted Publish fault", set.Current()), true, "listing")
		}
		st.Count("interceptor_steps", 7)
	}
	// (ii-b) through the stream interceptor: per-message faults on received and sent messages
	{
		set := faults.NewSet(fmt.Sprintf("vs%d", Seed()))
		inj := mgrpc.StreamFaultInjector(set)
		info := &ggrpc.StreamServerInfo{FullMethod: "/google.pubsub.v1.Subscriber/StreamingPull", IsClientStream: true, IsServerStream: true}
		set.Add(faults.Description{Operation: "StreamingPull:RecvMsg", Parameters: map[string]string{"subscription": "a"}, Count: 2,
			OnFault: func(d faults.Description, p faults.Parameters) error { return firedErr{0} }})
		set.Add(faults.Description{Operation: "StreamingPull:SendMsg", Parameters: map[string]string{}, Count: 1,
			OnFault: func(d faults.Description, p faults.Parameters) error { return firedErr{1} }})
		in := []string{"b", "a", "a", "a", "b"}
		wantRecvFail := []bool{false, true, true, false, false}
		var recvFail, sendFail []bool
		fake := &fakeServerStream{ctx: context.Background()}
		for _, s := range in {
			fake.in = append(fake.in, &pubsubpb.StreamingPullRequest{Subscription: s})
		}
		err := inj(nil, fake, info, func(srv interface{}, ss ggrpc.ServerStream) error {
			for range in {
				var req pubsubpb.StreamingPullRequest
				recvFail = append(recvFail, ss.RecvMsg(&req) != nil)
			}
			for i := 0; i < 3; i++ {
				sendFail = append(sendFail, ss.SendMsg(&pubsubpb.StreamingPullResponse{}) != nil)
			}
			return nil
		})
		if err != nil {
			violate("stream-interceptor", fmt.Sprintf("stream start failed although no fault matches the start: %v", err), true, "start")
		}
		if fmt.Sprint(recvFail) != fmt.Sprint(wantRecvFail) {
			violate("stream-interceptor", fmt.Sprintf("StreamingPull messages for subscriptions %v with fault {StreamingPull:RecvMsg, subscription=a, count 2}: failed=%v, expected %v", in, recvFail, wantRecvFail), true, fmt.Sprint(in))
		}
		if fmt.Sprint(sendFail) != fmt.Sprint([]bool{true, false, false}) {
			violate("stream-interceptor", fmt.Sprintf("three sends with fault {StreamingPull:SendMsg, count 1}: failed=%v, expected [true false false]", sendFail), true, "send")
		}
		if cur := set.Current(); len(cur["StreamingPull:RecvMsg"]) != 0 || len(cur["StreamingPull:SendMsg"]) != 0 {
			violate("listing", fmt.Sprintf("exhausted stream faults still listed: %v", cur), true, "stream-listing")
		}
		st.Count("interceptor_steps", 8)
	}
	// (ii-c) a message's parameters are its own: after a message naming subscription a, an ack-only message
	// (no subscription field) does not match a fault on subscription=a, neither on the stream nor on a unary call
	{
		set := faults.NewSet(fmt.Sprintf("vt%d", Seed()))
		sinj := mgrpc.StreamFaultInjector(set)
		uinj := mgrpc.UnaryFaultInjector(set)
		info := &ggrpc.StreamServerInfo{FullMethod: "/google.pubsub.v1.Subscriber/StreamingPull", IsClientStream: true, IsServerStream: true}
		fake := &fakeServerStream{ctx: context.Background()}
		for round := 0; round < 20; round++ {
			fake.in = append(fake.in, &pubsubpb.StreamingPullRequest{Subscription: "a", ClientId: "c1"}, &pubsubpb.StreamingPullRequest{AckIds: []string{"x"}},
				&pubsubpb.StreamingPullRequest{Subscription: "a"})
		}
		bad := ""
		_ = sinj(nil, fake, info, func(srv interface{}, ss ggrpc.ServerStream) error {
			for round := 0; round < 20 && bad == ""; round++ {
				var r1, r2, r3 pubsubpb.StreamingPullRequest
				if err := ss.RecvMsg(&r1); err != nil {
					bad = fmt.Sprintf("round %d: a message was failed although no fault is configured: %v", round, err)
					break
				}
				set.Add(faults.Description{Operation: "StreamingPull:RecvMsg", Parameters: map[string]string{"subscription": "a"}, Count: 1,
					OnFault: func(d faults.Description, p faults.Parameters) error { return firedErr{2} }})
				// (in every other round a unary call naming subscription a comes in between: its parameters are its own too)
				if round%2 == 1 {
					_, uerr := uinj(context.Background(), &pubsubpb.AcknowledgeRequest{Subscription: "a", AckIds: []string{"x"}}, &ggrpc.UnaryServerInfo{FullMethod: "/google.pubsub.v1.Subscriber/Acknowledge"},
						func(ctx context.Context, req interface{}) (interface{}, error) { return nil, nil })
					if uerr != nil {
						bad = fmt.Sprintf("round %d: Acknowledge failed although the only fault is on StreamingPull:RecvMsg: %v", round, uerr)
						break
					}
				}
				if err := ss.RecvMsg(&r2); err != nil {
					bad = fmt.Sprintf("round %d: after a message for subscription a, an ack-only message (no subscription field) was failed by the fault {StreamingPull:RecvMsg, subscription=a}", round)
					break
				}
				// a unary call without that parameter does not match either
				_, uerr := uinj(context.Background(), &pubsubpb.GetTopicRequest{Topic: "t"}, &ggrpc.UnaryServerInfo{FullMethod: "/google.pubsub.v1.Publisher/GetTopic"},
					func(ctx context.Context, req interface{}) (interface{}, error) { return nil, nil })
				if uerr != nil {
					bad = fmt.Sprintf("round %d: GetTopic failed although the only fault is on StreamingPull:RecvMsg: %v", round, uerr)
					break
				}
				if cur := set.Current(); len(cur["StreamingPull:RecvMsg"]) != 1 {
					bad = fmt.Sprintf("round %d: the fault {StreamingPull:RecvMsg, subscription=a, count 1} left the listing although no matching message has arrived: %v", round, cur)
					break
				}
				if err := ss.RecvMsg(&r3); err == nil {
					bad = fmt.Sprintf("round %d: the message for subscription a was not failed by the fault {StreamingPull:RecvMsg, subscription=a, count 1}", round)
				}
			}
			return nil
		})
		if bad != "" {
			violate("stale-parameters", bad, true, "stream: [sub=a] add-fault(sub=a) [ack-only] GetTopic [sub=a]")
		}
		st.Count("interceptor_steps", 80)
	}
	// (iii) racing callers on the real Set (search support for the proof, never the proof)
	rounds := 300
	if thorough {
		rounds = 4000
	}
	widen := os.Getenv("VERIF_WIDEN") != ""
	if widen {
		rounds = 40000 // an obligation broke: search harder for a concrete race
	}
	for k := 0; k < rounds; k++ {
		set := faults.NewSet(fmt.Sprintf("vc%d_%d", Seed(), k))
		n1, n2 := int64(r.Intn(6)), int64(r.Intn(4))
		callers := 1 + r.Intn(24)
		if widen || k%2 == 1 {
			// tight races on a nearly exhausted fault overlapped by a second one
			n1, n2, callers = int64(1+r.Intn(2)), int64(4+r.Intn(8)), 4+r.Intn(10)
		}
		var f1, f2 int64
		set.Add(faults.Description{Operation: "Pull", Parameters: map[string]string{"subscription": "s"}, Count: n1,
			OnFault: func(d faults.Description, p faults.Parameters) error { atomic.AddInt64(&f1, 1); return firedErr{0} }})
		two := k%3 == 0 || widen || k%2 == 1
		if two {
			set.Add(faults.Description{Operation: "Pull", Parameters: map[string]string{}, Count: n2,
				OnFault: func(d faults.Description, p faults.Parameters) error { atomic.AddInt64(&f2, 1); return firedErr{1} }})
		} else {
			n2 = 0
		}
		var wg sync.WaitGroup
		var failed, nonMatchingFailed int64
		var ready int32
		start := make(chan struct{})
		for c := 0; c < callers; c++ {
			wg.Add(1)
			go func(c int) {
				defer wg.Done()
				<-start
				// spin barrier: all callers enter Check as close together as the cores allow
				atomic.AddInt32(&ready, 1)
				for spins := 0; atomic.LoadInt32(&ready) < int32(callers) && spins < 200000; spins++ {
				}
				if err := set.Check("Pull", map[string]string{"subscription": "s", "x": fmt.Sprint(c)}); err != nil {
					atomic.AddInt64(&failed, 1)
				}
				if err := set.Check("Publish", map[string]string{"subscription": "s"}); err != nil {
					atomic.AddInt64(&nonMatchingFailed, 1)
				}
			}(c)
		}
		close(start)
		wg.Wait()
		want := n1 + n2
		if int64(callers) < want {
			want = int64(callers)
		}
		st.Count("race_rounds", 1)
		if failed != want || f1 > n1 || f2 > n2 || nonMatchingFailed != 0 {
			violate("count", fmt.Sprintf("%d racing matching callers, faults with counts %d and %d: %d calls failed (through them: %d, %d), expected exactly %d; non-matching calls failed: %d", callers, n1, n2, failed, f1, f2, want, nonMatchingFailed), true,
				fmt.Sprintf("callers=%d n1=%d n2=%d failed=%d", callers, n1, n2, failed))
			break
		}
	}
	// (iv) a matching call racing with prunes that compact the description list in front of its
	// description: [E1..En (one shot each, other targets), B (5 shots), C1..Cm (live, other target)];
	// one goroutine uses up the Ei (every exhaustion schedules a prune, which moves B and the Cj
	// forward), another calls Check with B's parameters five times: each of those calls must fail
	shiftRounds := 12
	if thorough {
		shiftRounds = 150
	}
	if widen {
		shiftRounds = 600
	}
	for k := 0; k < shiftRounds && len(st.Violations) == 0; k++ {
		set := faults.NewSet(fmt.Sprintf("vs%d_%d", Seed(), k))
		const nE, nC, wide = 300, 300, 40
		call := map[string]string{"target": "b"}
		for i := 0; i < wide; i++ {
			call["k"+fmt.Sprint(i)] = "v" + fmt.Sprint(i)
		}
		with := func(target string) map[string]string {
			p := map[string]string{"target": target}
			for i := 0; i < wide; i++ {
				p["k"+fmt.Sprint(i)] = "v" + fmt.Sprint(i)
			}
			return p
		}
		fired := func(d faults.Description, p faults.Parameters) error { return firedErr{3} }
		for i := 0; i < nE; i++ {
			set.Add(faults.Description{Operation: "op", Parameters: with("e" + fmt.Sprint(i)), Count: 1, OnFault: fired})
		}
		set.Add(faults.Description{Operation: "op", Parameters: map[string]string{"target": "b"}, Count: 5, OnFault: fired})
		for i := 0; i < nC; i++ {
			set.Add(faults.Description{Operation: "op", Parameters: with("c"), Count: 3, OnFault: fired})
		}
		var wg sync.WaitGroup
		wg.Add(1)
		go func() {
			defer wg.Done()
			for i := 0; i < nE; i++ {
				set.Check("op", with("e"+fmt.Sprint(i)))
			}
		}()
		passed := -1
		for j := 0; j < 5; j++ {
			if err := set.Check("op", call); err == nil && passed < 0 {
				passed = j
			}
		}
		wg.Wait()
		st.Count("prune_shift_rounds", 1)
		if passed >= 0 {
			left := int64(-1)
			for _, d := range set.Current()["op"] {
				if d.Parameters["target"] == "b" {
					left = d.Count
				}
			}
			violate("count-prune-shift", fmt.Sprintf("descriptions for one operation: %d one-shot faults for other targets, {target=b, 5 shots}, %d live faults for target c; while another caller uses up the one-shot faults (each schedules a prune), call %d of 5 with target=b was not failed although its fault had shots left (listing afterwards: count %d)", nE, nC, passed+1, left), true,
				fmt.Sprintf("nE=%d nC=%d wide=%d passed_call=%d left=%d", nE, nC, wide, passed+1, left))
		}
	}
	st.Set("evaluations", st.Get("sequential_ops")+st.Get("race_rounds")+st.Get("interceptor_steps")+st.Get("prune_shift_rounds"))
	st.Set("traces_validated_against_impl", nSeq-disagreements)
	if !hasConcrete(st.Violations) {
		streamCallFailsAsInjected(t, st)
	}
	st.Set("rule", "random sequential Add/Check/Current sequences on the real faults.Set compared op by op with the Lean model (which description fired / pass / listing); calls through UnaryFaultInjector with protobuf requests; racing goroutines asserting the exact count min(N, matching calls); distinct = distinct sequential op sequences; a matching call racing with prunes that compact the description list in front of its description")
	st.Summary = fmt.Sprintf("sequences=%d disagreements=%d race_rounds=%d", nSeq, disagreements, st.Get("race_rounds"))
}

// fakeServerStream feeds scripted requests to a stream handler
type fakeServerStream struct {
	ctx context.Context
	in  []*pubsubpb.StreamingPullRequest
	pos int
}

func (f *fakeServerStream) SetHeader(metadata.MD) error  { return nil }
func (f *fakeServerStream) SendHeader(metadata.MD) error { return nil }
func (f *fakeServerStream) SetTrailer(metadata.MD)       {}
func (f *fakeServerStream) Context() context.Context     { return f.ctx }
func (f *fakeServerStream) SendMsg(m interface{}) error  { return nil }
func (f *fakeServerStream) RecvMsg(m interface{}) error {
	if f.pos >= len(f.in) {
		return io.EOF
	}
	proto.Merge(m.(proto.Message), f.in[f.pos])
	f.pos++
	return nil
}
