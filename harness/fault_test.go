package harness

import (
	"context"
	"fmt"
	"sort"
	"strings"
	"testing"
	"testing/synctest"
	"time"

	"github.com/google/uuid"

	"go.6river.tech/mmmbbb/actions"
)

// canonDump renders the tables independently of the generated UUIDs (a retried operation draws fresh
// ids): rows are ordered by content and ids renamed by first appearance.
func (w *World) canonDump() string {
	w.Dump()
	names := map[uuid.UUID]string{}
	name := func(kind string, id uuid.UUID) string {
		if id == uuid.Nil {
			return "-"
		}
		if n, ok := names[id]; ok {
			return n
		}
		n := fmt.Sprintf("%s%d", kind, len(names))
		names[id] = n
		return n
	}
	var out []string
	var ts []string
	for _, t := range w.lastTopics {
		ts = append(ts, t.Name+"|"+nsOpt(t.DeletedAt)+"|"+fmt.Sprint(ns(t.CreatedAt)))
		_ = t
	}
	sort.Strings(ts)
	tname := map[uuid.UUID]string{}
	for _, t := range w.lastTopics {
		tname[t.ID] = t.Name + "@" + fmt.Sprint(ns(t.CreatedAt))
	}
	sname := map[uuid.UUID]string{}
	var ss []string
	for _, s := range w.lastSubs {
		sname[s.ID] = s.Name + "@" + fmt.Sprint(ns(s.CreatedAt))
		dl := "-"
		if s.DeadLetterTopicID != nil {
			dl = tname[*s.DeadLetterTopicID]
		}
		ss = append(ss, fmt.Sprintf("%s|%s|%d|%s|%d|%d|%v|%s|%s|%d", sname[s.ID], tname[s.TopicID], ns(s.ExpiresAt), nsOpt(s.DeletedAt), int64(s.TTL), int64(s.MessageTTL), s.OrderedDelivery, EncOpt(s.MessageFilter), dl, int64(s.DeliveryDelay)))
	}
	sort.Strings(ss)
	mname := map[uuid.UUID]string{}
	var ms []string
	for _, m := range w.lastMsgs {
		mname[m.ID] = fmt.Sprintf("%s@%d", string(m.Payload), ns(m.PublishedAt))
		ms = append(ms, mname[m.ID]+"|"+tname[m.TopicID]+"|"+MapStr(m.Attributes)+"|"+EncOpt(m.OrderKey))
	}
	sort.Strings(ms)
	dkey := func(id uuid.UUID) string {
		d := w.lastDels[id]
		if d == nil {
			return "-"
		}
		return fmt.Sprintf("%s/%s@%d", mname[d.MessageID], sname[d.SubscriptionID], ns(d.PublishedAt))
	}
	var ds []string
	for id, d := range w.lastDels {
		ds = append(ds, fmt.Sprintf("%s|at=%d|last=%s|att=%d|done=%s|exp=%d|nb=%s", dkey(id), ns(d.AttemptAt), nsOpt(d.LastAttemptedAt), d.Attempts, nsOpt(d.CompletedAt), ns(d.ExpiresAt), dkey(d.NotBeforeID)))
	}
	sort.Strings(ds)
	_ = name
	out = append(out, "T:"+strings.Join(ts, ";"), "S:"+strings.Join(ss, ";"), "M:"+strings.Join(ms, ";"), "D:"+strings.Join(ds, ";"))
	return strings.Join(out, "\n")
}

type faultTarget struct {
	name string
	op   Op
}

func faultScenario() (prefix []Op, targets []faultTarget) {
	cfg := func(c SubCfg) *SubCfg { c.TTL, c.MTTL = 3600*Sec, 600*Sec; return &c }
	prefix = []Op{
		{K: "create_topic", Topic: "t"}, {K: "create_topic", Topic: "d"}, {K: "create_topic", Topic: "old"},
		{K: "create_sub", Sub: "a", Cfg: cfg(SubCfg{Topic: "t", Ordered: true, MaxAtt: 1, DLT: "d"})},
		{K: "create_sub", Sub: "b", Cfg: cfg(SubCfg{Topic: "t", Filter: `attributes:x`})},
		{K: "create_sub", Sub: "c", Cfg: cfg(SubCfg{Topic: "t"})},
		{K: "create_sub", Sub: "dl", Cfg: cfg(SubCfg{Topic: "d"})},
		{K: "create_sub", Sub: "gone", Cfg: cfg(SubCfg{Topic: "old"})},
		{K: "publish", Topic: "t", Msgs: []MsgSpec{{N: 0, Key: "k", Attrs: map[string]string{"x": "1"}}, {N: 1, Key: "k"}, {N: 2}}},
		{K: "publish", Topic: "old", Msgs: []MsgSpec{{N: 3}}},
		{K: "pull", Sub: "a", Max: 1},
		{K: "pull", Sub: "b", Max: 5},
		{K: "pull", Sub: "c", Max: 2},
		{K: "ack", Refs: []Ref{{N: 1, Sub: "c"}}},
		{K: "snapshot", Sub: "c", Snap: "n0"},
		{K: "delete_sub", Sub: "gone"}, {K: "delete_topic", Topic: "old"},
		{K: "advance", D: 30 * Sec},
	}
	targets = []faultTarget{
		{"publish-single", Op{K: "publish", Topic: "t", Msgs: []MsgSpec{{N: 10, Key: "k", Attrs: map[string]string{"x": "2"}}}}},
		{"publish-batch", Op{K: "publish", Topic: "t", Msgs: []MsgSpec{{N: 11, Key: "k"}, {N: 12}, {N: 13, Attrs: map[string]string{"x": "1"}}}}},
		{"publish-handler", Op{K: "publish", Topic: "t", Via: "handler", Msgs: []MsgSpec{{N: 14}, {N: 15, Key: "k2"}}}},
		{"create-topic", Op{K: "create_topic", Topic: "new"}},
		{"create-sub", Op{K: "create_sub", Sub: "new", Cfg: cfg(SubCfg{Topic: "t", MaxAtt: 2, DLT: "d", Filter: `attributes:x`})}},
		{"delete-sub", Op{K: "delete_sub", Sub: "b"}},
		{"delete-topic", Op{K: "delete_topic", Topic: "d"}},
		{"ack", Op{K: "ack", Refs: []Ref{{N: 0, Sub: "b"}, {N: 0, Sub: "c"}}}},
		{"ack-ordered-predecessor", Op{K: "ack", Refs: []Ref{{N: 0, Sub: "a"}}}},
		{"nack", Op{K: "nack", Refs: []Ref{{N: 0, Sub: "b"}, {N: 0, Sub: "c"}}}},
		{"nack-deadletter", Op{K: "nack", Refs: []Ref{{N: 0, Sub: "a"}}}},
		{"modack-positive", Op{K: "delay", Refs: []Ref{{N: 0, Sub: "b"}}, D: 120 * Sec}},
		{"modack-zero-multi-sub", Op{K: "delay", Refs: []Ref{{N: 0, Sub: "b"}, {N: 0, Sub: "c"}, {N: 0, Sub: "a"}}, D: 0}},
		{"pull-deliver", Op{K: "pull", Sub: "c", Max: 3}},
		{"pull-deadletter", Op{K: "pull", Sub: "a", Max: 3}},
		{"pull-empty", Op{K: "pull", Sub: "dl", Max: 3}},
		{"pull-handler", Op{K: "pull", Sub: "b", Max: 3, Via: "handler"}},
		{"stream-ack-nack", Op{K: "stream_acknack", Refs: []Ref{{N: 0, Sub: "c"}}, Refs2: []Ref{{N: 0, Sub: "b"}, {N: 0, Sub: "a"}}}},
		{"seek-time", Op{K: "seek_time", Sub: "c", D: 1}},
		{"seek-snapshot", Op{K: "seek_snap", Sub: "c", Snap: "n0"}},
		{"create-snapshot", Op{K: "snapshot", Sub: "b", Snap: "n1"}},
		{"delete-snapshot", Op{K: "delete_snap", Snap: "n0"}},
		{"dl-sweep", Op{K: "dl_sweep", Max: 5}},
		{"expire-subs", Op{K: "expire_subs", Max: 5}},
		{"prune-completed-deliveries", Op{K: "prune_completed_deliveries", Max: 5}},
		{"prune-expired-deliveries", Op{K: "prune_expired_deliveries", Max: 5}},
		{"prune-completed-messages", Op{K: "prune_completed_messages", Max: 5}},
		{"prune-deleted-sub-deliveries", Op{K: "prune_deleted_sub_deliveries", Max: 5}},
		{"prune-deleted-subs", Op{K: "prune_deleted_subs", Max: 5}},
		{"prune-deleted-topics", Op{K: "prune_deleted_topics", Max: 5}},
		{"set-delay", Op{K: "set_delay", Sub: "b", D: 5 * Sec}},
	}
	return
}

type faultRun struct {
	stmts     int
	txOpen    bool
	lost      string
	err       error
	retryErr  error
	before    string
	after     string
	canon     string
	wakes     int
	modWake   bool
	refreshed bool
	lines     []string
}

// runFaulted replays the prefix, then runs the target with statement k failing (mode "fail") or the
// context cancelled at statement k (mode "cancel"); k = 0 runs it fault-free. When retry is set the
// target is run again without fault afterwards.
func runFaulted(t *testing.T, seed int64, prefix []Op, target Op, mode string, k int, retry bool) *faultRun {
	fr := &faultRun{}
	synctest.Test(t, func(t *testing.T) {
		w := NewWorld(t, seed)
		defer w.Close()
		for _, op := range prefix {
			w.Exec(op)
		}
		fr.before = w.Dump()
		// modification awaiters: a failed operation must not announce a change either
		subMod := actions.AnySubModifiedAwaiter()
		topMod := actions.AnyTopicModifiedAwaiter()
		ctx, cancel := context.WithCancel(WithLabel(context.Background(), "op"))
		defer cancel()
		w.Ctx = ctx
		if k > 0 {
			if mode == "cancel" {
				w.Ctl.Arm(0, k, cancel, "op")
			} else if mode == "cancel-before-commit" {
				// the request is cancelled after the operation's last statement and before its COMMIT;
				// database/sql's watcher gets the time to roll the transaction back
				w.Ctl.Arm(0, 0, nil, "op")
				w.preCommit = func() { cancel(); time.Sleep(time.Microsecond) }
			} else {
				w.Ctl.Arm(k, 0, nil, "op")
			}
		} else {
			w.Ctl.Arm(0, 0, nil, "op")
		}
		w.faultMode = k > 0
		res := w.Exec(target)
		w.faultMode = false
		w.preCommit = nil
		fr.stmts = res.NStmts
		w.Ctl.Arm(0, 0, nil, "")
		w.Ctx = context.Background()
		fr.err = res.Err
		fr.lost = res.Lost
		// (a cancelled context makes database/sql roll the transaction back from a goroutine of its own:
		// let it finish before looking whether the transaction is still open)
		synctest.Wait()
		fr.txOpen = !w.Ctl.TxIdle()
		if fr.txOpen {
			// nothing else can be done with this database: the write lock is held
			fr.after = fr.before
			return
		}
		if strings.HasPrefix(res.Resp, "E:") && res.Err == nil {
			fr.err = fmt.Errorf("%s", res.Resp)
		}
		fr.wakes = len(res.Wakes)
		select {
		case <-subMod:
			fr.modWake = true
		default:
			actions.CancelAnySubModifiedAwaiter(subMod)
		}
		select {
		case <-topMod:
			fr.modWake = true
		default:
			actions.CancelAnyTopicModifiedAwaiter(topMod)
		}
		fr.after = w.lastDump
		// did the pull's first (expiry refresh) transaction commit before the fault?
		commits := 0
		for _, s := range res.Stmts {
			if s.Kind == "commit" && !s.Failed {
				commits++
			}
		}
		fr.refreshed = commits > 0 && k > 0 && fr.err != nil
		if retry {
			// the client retries a little later: exactly 1 ms after the first attempt started
			gap := res.T + int64(time.Millisecond) - w.Now()
			time.Sleep(time.Duration(gap))
			w.Lines = append(w.Lines, fmt.Sprintf("advance t=%d d=%d exp=ok wk=", w.Now()-gap, gap))
			r2 := w.Exec(target)
			if strings.HasPrefix(r2.Resp, "E:") || r2.Err != nil {
				fr.retryErr = fmt.Errorf("retry failed: %s %v", r2.Resp, r2.Err)
			}
		}
		fr.canon = w.canonDump()
		fr.lines = w.Lines
	})
	return fr
}

// streamRequestFaulted: one StreamingPull request carrying acks and nacks, handled by a real
// MessageStreamer (its reader goroutine), with statement k of that handling failing / the stream's
// context cancelled at statement k.  Returns the tables before and after, the number of statements
// the request issued and the error the stream ended with (nil = still open).
func streamRequestFaulted(t *testing.T, seed int64, prefix []Op, mode string, k int) (before, after string, stmts int, err error) {
	synctest.Test(t, func(t *testing.T) {
		w := NewWorld(t, seed)
		defer w.Close()
		for _, op := range prefix {
			w.Exec(op)
		}
		w.Dump()
		ackIDs := []uuid.UUID{w.Resolve(Ref{N: 0, Sub: "c"})}
		nackIDs := []uuid.UUID{w.Resolve(Ref{N: 0, Sub: "b"}), w.Resolve(Ref{N: 0, Sub: "a"})}
		var subID uuid.UUID
		for _, row := range w.lastSubs {
			if row.Name == SubName("c") {
				subID = row.ID
			}
		}
		w.Ctl.mu.Lock()
		w.Ctl.tick = 0
		w.Ctl.mu.Unlock()
		ctx, cancel := context.WithCancel(WithLabel(context.Background(), "op"))
		defer cancel()
		conn := &scriptConn{reqs: make(chan *actions.MessageStreamRequest), closed: make(chan struct{}), out: map[uuid.UUID]int{}, ctl: w.Ctl}
		ms := &actions.MessageStreamer{Client: w.Client, SubscriptionID: &subID, SubscriptionName: SubName("c")}
		fin := make(chan error, 1)
		go func() { fin <- ms.Go(ctx, conn) }()
		synctest.Wait()
		// (the stream's first fetch has refreshed the subscription's expiry: the request starts from here)
		before = w.Dump()
		switch {
		case k > 0 && mode == "cancel":
			w.Ctl.Arm(0, k, cancel, "op")
		case k > 0:
			w.Ctl.Arm(k, 0, nil, "op")
		default:
			w.Ctl.Arm(0, 0, nil, "op")
		}
		select {
		case conn.reqs <- &actions.MessageStreamRequest{Ack: ackIDs, Nack: nackIDs}:
		case err = <-fin:
		}
		synctest.Wait()
		stmts = w.Ctl.Count()
		w.Ctl.Arm(0, 0, nil, "")
		select {
		case err = <-fin:
		default:
		}
		after = w.Dump()
		cancel()
		synctest.Wait()
	})
	return
}

func TestC09(t *testing.T) {
	st := NewStats()
	defer st.Write()
	m, err := StartModel()
	if err != nil {
		t.Fatal(err)
	}
	defer m.Close()
	prefix, targets := faultScenario()
	// fail: statement k fails; cancel: the request context is cancelled when statement k is issued;
	// cancel-before-commit: the context is cancelled between the operation's last statement and its
	// COMMIT (one run per target; operations the harness runs inside its own DoTx closure)
	modes := []string{"fail", "cancel", "cancel-before-commit"}
	faulted := 0
	// scan: every statement index of the target, both fault modes
	scan := func(seed int64, prefix []Op, tg faultTarget) bool {
		violate := func(sig, what string, target faultTarget, mode string, k int) {
			p := writeReplay(fmt.Sprintf("C09-%s-%s-%d.json", sig, target.name, seed), replayFile{Property: "C09", Sig: sig, Seed: seed, Ops: append(append([]Op{}, prefix...), target.op),
				What: what, Note: fmt.Sprintf("target operation %s, %s at statement %d", target.name, mode, k)})
			st.Violate(Violation{What: fmt.Sprintf("[%s] %s — operation %s, %s at statement %d", sig, what, target.name, mode, k), Replay: p, FoundInput: true, Sig: sig})
		}
		// fault-free twin: statement count and the state the retry must reach
		clean := runFaulted(t, seed, prefix, tg.op, "", 0, false)
		if clean.err != nil {
			st.Count("targets_failing_without_fault", 1)
			return true
		}
		// the retry happens 1 ms later; compare with a twin that runs the operation 1 ms later as well
		twinPrefix := append(append([]Op{}, prefix...), Op{K: "advance", D: int64(time.Millisecond)})
		twin := runFaulted(t, seed, twinPrefix, tg.op, "", 0, false)
		st.Count("statements_"+tg.op.K, clean.stmts)
		st.Count("targets_"+tg.op.K, 1)
		for _, mode := range modes {
			for k := 1; k <= clean.stmts; k++ {
				if mode == "cancel-before-commit" && k > 1 {
					break
				}
				fr1 := runFaulted(t, seed, prefix, tg.op, mode, k, false)
				faulted++
				if fr1.stmts < k {
					continue // the operation issues fewer statements on this path
				}
				if mode == "cancel-before-commit" && fr1.err == nil && fr1.canon == clean.canon {
					continue // not an operation run through the harness's closure: nothing was cancelled
				}
				if fr1.txOpen {
					violate("tx-left-open", "the failed operation returned with its transaction neither committed nor rolled back (it keeps the connection and the write lock: every later writer fails)", tg, mode, k)
					return false
				}
				if fr1.err == nil && fr1.lost != "" {
					violate("no-error", "the operation reported success although its transaction was rolled back: "+fr1.lost, tg, mode, k)
					return false
				}
				if fr1.err == nil {
					violate("no-error", "the storage failed but the operation reported success", tg, mode, k)
					return false
				}
				if fr1.wakes != 0 || fr1.modWake {
					violate("wake-without-commit", "a waiting consumer was notified of a change that did not commit", tg, mode, k)
					return false
				}
				if fr1.after != fr1.before {
					allowed := false
					if tg.op.K == "pull" && fr1.refreshed {
						// the pull's subscription check committed first and refreshed expires_at (what C14 requires of every pull)
						allowed = onlyExpiryDiffers(fr1.before, fr1.after)
					}
					if !allowed {
						violate("partial-effect", "the failed operation left a partial effect: "+dumpDiff(fr1.after, fr1.before), tg, mode, k)
						return false
					}
					st.Count("pull_refresh_exception", 1)
				}
				fr := runFaulted(t, seed, prefix, tg.op, mode, k, true)
				if fr.retryErr != nil {
					violate("retry-fails", "retrying the operation after the failure did not succeed: "+fr.retryErr.Error(), tg, mode, k)
					return false
				}
				if fr.canon != twin.canon {
					violate("retry-differs", "retrying after the failure does not have the same effect as an undisturbed run", tg, mode, k)
					return false
				}
				// model: the failed operation is a no-op (apart from the pull exception), the retry a normal step
				if d, err := m.Check(fr.lines); err == nil && d != nil {
					p := writeReplay(fmt.Sprintf("C09-correspondence-%d.json", seed), replayFile{Property: "C09", Sig: "correspondence", Seed: seed, Ops: append(append([]Op{}, prefix...), tg.op), What: d.String()})
					st.Violate(Violation{What: "correspondence with the model broken on a faulted run of " + tg.name + ": " + d.String(), Replay: p, FoundInput: false, Sig: "correspondence"})
					return false
				}
			}
		}
		return true
	}
	ok := true
	// a StreamingPull request with acks and nacks is all-or-nothing too (the real streamer's reader)
	{
		b0, full, n, err0 := streamRequestFaulted(t, Seed(), prefix, "", 0)
		if err0 != nil || full == b0 {
			st.Count("targets_failing_without_fault", 1)
		} else {
			st.Count("statements_stream_request", n)
			for _, mode := range []string{"fail", "cancel"} {
				for k := 1; k <= n && ok; k++ {
					before, after, _, err := streamRequestFaulted(t, Seed(), prefix, mode, k)
					faulted++
					what := ""
					switch {
					case after != before && after != full:
						what = "a stream request with ack_ids and nack ids that failed half-way left a partial effect: " + dumpDiff(after, before)
					case after == before && err == nil:
						what = "the storage failed while the stream handled a request with acks and nacks, nothing was applied, and the stream did not end with an error"
					}
					if what != "" {
						p := writeReplay(fmt.Sprintf("C09-stream-request-%d.json", Seed()), replayFile{Property: "C09", Sig: "stream-partial-effect", Seed: Seed(), Ops: prefix, What: what,
							Note: fmt.Sprintf("after the operations: a MessageStreamer on subscription c receives one request {ack: [c/0], nack: [b/0, a/0]}; %s at statement %d of its handling", mode, k)})
						st.Violate(Violation{What: fmt.Sprintf("[stream-partial-effect] %s — %s at statement %d", what, mode, k), Replay: p, FoundInput: true, Sig: "stream-partial-effect"})
						ok = false
					}
				}
			}
		}
	}
	// a later state of the same scenario: every retention has ended (expired rows of ordered
	// subscriptions are what the prune jobs' wake-ups are about), subscriptions b and c are due to expire
	{
		late := append(append([]Op{}, prefix...), Op{K: "advance", D: 700 * Sec}, Op{K: "publish", Topic: "t", Msgs: []MsgSpec{{N: 20, Key: "k"}}})
		for _, tg := range []faultTarget{
			{"late-prune-expired-deliveries", Op{K: "prune_expired_deliveries", Max: 5}},
			{"late-prune-completed-messages", Op{K: "prune_completed_messages", Max: 5}},
			{"late-pull-ordered", Op{K: "pull", Sub: "a", Max: 3}},
			{"late-publish-ordered", Op{K: "publish", Topic: "t", Msgs: []MsgSpec{{N: 21, Key: "k"}}}},
		} {
			if !ok {
				break
			}
			st.Distinct(tg.name)
			ok = scan(Seed(), late, tg)
		}
	}
	for _, tg := range targets {
		if !ok {
			break
		}
		st.Distinct(tg.name)
		if ok = scan(Seed(), prefix, tg); !ok {
			break
		}
	}
	// large requests (more ids than any batching a handler might do internally): one request is one
	// transaction, however many ack ids it carries
	if ok {
		// (quick tier: just above a batch of 500, acknowledgement only; thorough: 1200 ids, zero deadline too)
		big := 520
		if Tier() == "thorough" {
			big = 1200
		}
		cfg := &SubCfg{Topic: "t", TTL: 3600 * Sec, MTTL: 600 * Sec}
		var msgs []MsgSpec
		var refs []Ref
		for i := 0; i < big; i++ {
			msgs = append(msgs, MsgSpec{N: 5000 + i})
			refs = append(refs, Ref{N: 5000 + i, Sub: "big"})
		}
		bigPrefix := []Op{{K: "create_topic", Topic: "t"}, {K: "create_sub", Sub: "big", Cfg: cfg}, {K: "publish", Topic: "t", Msgs: msgs},
			{K: "advance", D: int64(time.Millisecond)}, {K: "pull", Sub: "big", Max: big}, {K: "advance", D: Sec}}
		for i, tg := range []faultTarget{
			{"ack-many-ids-handler", Op{K: "ack", Refs: refs, Via: "handler"}},
			{"modack-zero-many-ids-handler", Op{K: "delay", Refs: refs, D: 0, Via: "handler"}},
		} {
			if !ok || (i > 0 && Tier() != "thorough") {
				break
			}
			st.Distinct(tg.name)
			ok = scan(Seed(), bigPrefix, tg)
		}
	}
	// generated states: the last operations of random histories, each scanned in the state its history reached
	nh, tail := 1, 4
	if Tier() == "thorough" {
		nh, tail = 10, 12
	}
	for hi := 0; ok && hi < nh; hi++ {
		seed := Seed()*1000 + int64(hi)
		g := NewGen(seed, ProfileAll)
		h := RunHistory(t, seed, g, nil, 36, false)
		cnt := 0
		for i := len(h.Ops) - 1; ok && i > 0 && cnt < tail; i-- {
			op := h.Ops[i]
			if op.K == "advance" || strings.HasPrefix(h.Results[i].Resp, "E:") {
				continue
			}
			cnt++
			st.Distinct(fmt.Sprintf("gen-%d-%d-%s", seed, i, op.K))
			ok = scan(seed, h.Ops[:i], faultTarget{fmt.Sprintf("generated-%s-at-%d", op.K, i), op})
		}
	}
	st.Set("evaluations", faulted)
	st.Set("exhaustive", true)
	st.Set("traces_validated_against_impl", faulted)
	st.Set("rule", "for each mutating operation (31 targets: publish single/batch/handler, create/delete topic and subscription, ack, nack with and without dead-lettering, modify-deadline positive and zero across subscriptions, pull delivering / dead-lettering / empty / through the handler, stream ack+nack in one transaction, both seeks, create/delete snapshot, dead-letter sweep, each prune/expire job, delay injection) in a prepared state: every index k of the SQL statements it issues including BEGIN and COMMIT, once with statement k failing and once with the request context cancelled at k; exhaustive in k; distinct = distinct target operations")
	st.Sample(map[string]interface{}{"prefix": prefix[:6], "target": targets[1].op})
	st.Summary = fmt.Sprintf("targets=%d faulted_runs=%d", len(st.distinct), faulted)
}

// onlyExpiryDiffers: the two dumps differ only in `expires=` of subscription rows
func onlyExpiryDiffers(a, b string) bool {
	ta, tb := strings.Split(a, "|"), strings.Split(b, "|")
	if len(ta) != len(tb) {
		return false
	}
	for i := range ta {
		if ta[i] == tb[i] {
			continue
		}
		if !strings.HasPrefix(ta[i], "S:") {
			return false
		}
		ra, rb := strings.Split(ta[i], ";"), strings.Split(tb[i], ";")
		if len(ra) != len(rb) {
			return false
		}
		for j := range ra {
			fa, fb := strings.Split(ra[j], ","), strings.Split(rb[j], ",")
			if len(fa) != len(fb) {
				return false
			}
			for x := range fa {
				if fa[x] != fb[x] && !strings.HasPrefix(fa[x], "expires=") {
					return false
				}
			}
		}
	}
	return true
}
