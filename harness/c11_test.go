package harness

import (
	"context"
	"encoding/json"
	"fmt"
	"go.6river.tech/mmmbbb/grpc/pubsubpb"
	"google.golang.org/grpc/metadata"
	"google.golang.org/protobuf/proto"
	"math/rand"
	"os"
	"strings"
	"sync"
	"testing"
	"testing/synctest"
	"time"

	"github.com/google/uuid"

	"go.6river.tech/mmmbbb/actions"
	"go.6river.tech/mmmbbb/ent"
	"go.6river.tech/mmmbbb/ent/delivery"
)

// ---- C11: streaming pull flow control.  The real MessageStreamer runs against a scripted
// connection; after every client action the run is brought to quiescence (synctest.Wait, no virtual
// time passes) and
//   * at every Send: messages sent and not yet acked/nacked <= max outstanding messages, their bytes
//     <= max outstanding bytes unless it is a single message;
//   * at quiescence: no deliverable message that fits the free capacity is left unsent;
//   * the batches sent are the ones the model (Mmmbbb.Stream) selects from the candidates the
//     streamer's own queries returned.

type c11Action struct {
	K    string `json:"k"`              // fc publish ack nack delay0 extack advance
	Msgs int    `json:"msgs,omitempty"` // fc
	Byts int    `json:"bytes,omitempty"`
	Pads []int  `json:"pads,omitempty"` // publish: payload paddings
	Pick []int  `json:"pick,omitempty"` // indexes into the outstanding list (oldest first) at the time of the action
	D    int64  `json:"d,omitempty"`
}

type c11Case struct {
	Name    string `json:"name"`
	Ordered bool   `json:"ordered,omitempty"`
	Grpc    bool   `json:"grpc,omitempty"` // drive the gRPC StreamingPull handler (services) instead of actions.MessageStreamer
	// the client acknowledges (unary Acknowledge) each of the first AckInSend messages while the server is
	// still inside the Send that delivers it
	AckInSend int `json:"ack_in_send,omitempty"`
	// the subscription is deleted and created again under the same name before the stream is opened
	// (the deleted row is still in the table: nothing has pruned it)
	Recreate bool        `json:"recreate,omitempty"`
	Actions  []c11Action `json:"actions"`
}

type c11Replay struct {
	Property string  `json:"property"`
	Sig      string  `json:"sig"`
	What     string  `json:"what"`
	Seed     int64   `json:"seed"`
	Case     c11Case `json:"case"`
}

type sentMsg struct {
	id   uuid.UUID
	size int
}

type scriptConn struct {
	mu       sync.Mutex
	reqs     chan *actions.MessageStreamRequest
	closed   chan struct{}
	once     sync.Once
	sent     []sentMsg           // every Send, in order
	out      map[uuid.UUID]int   // sent and not yet acked/nacked by the client (id -> size)
	order    []uuid.UUID         // outstanding ids, oldest first
	limit    actions.FlowControl // the limits in force
	bad      string              // first bound violation seen at a Send
	dup      string              // a message handed out again while it was outstanding and its lease had not lapsed
	lastSend map[uuid.UUID]time.Time
	ctl      *Ctl
	greqs    chan *pubsubpb.StreamingPullRequest // gRPC mode: what the client sends
	onSend   func(id uuid.UUID)                  // called inside Send, after the message was recorded
	sending  int                                 // Sends that are sleeping inside onSend
}

func (c *scriptConn) Close() error { c.once.Do(func() { close(c.closed) }); return nil }
func (c *scriptConn) Receive(ctx context.Context) (*actions.MessageStreamRequest, error) {
	select {
	case r := <-c.reqs:
		return r, nil
	case <-ctx.Done():
		return nil, ctx.Err()
	case <-c.closed:
		return nil, context.Canceled
	}
}
func (c *scriptConn) Send(ctx context.Context, d *actions.SubscriptionMessageDelivery) error {
	c.record(d.ID, len(d.Payload))
	if c.onSend != nil {
		c.onSend(d.ID)
	}
	return nil
}

// grpcStream is the server side of a StreamingPull call whose client is the test
type grpcStream struct {
	c   *scriptConn
	ctx context.Context
}

func (g *grpcStream) SetHeader(metadata.MD) error  { return nil }
func (g *grpcStream) SendHeader(metadata.MD) error { return nil }
func (g *grpcStream) SetTrailer(metadata.MD)       {}
func (g *grpcStream) Context() context.Context     { return g.ctx }
func (g *grpcStream) SendMsg(m interface{}) error  { return g.Send(m.(*pubsubpb.StreamingPullResponse)) }
func (g *grpcStream) RecvMsg(m interface{}) error {
	r, err := g.Recv()
	if err != nil {
		return err
	}
	proto.Merge(m.(proto.Message), r)
	return nil
}
func (g *grpcStream) Recv() (*pubsubpb.StreamingPullRequest, error) {
	select {
	case r := <-g.c.greqs:
		return r, nil
	case <-g.ctx.Done():
		return nil, g.ctx.Err()
	}
}
func (g *grpcStream) Send(resp *pubsubpb.StreamingPullResponse) error {
	for _, rm := range resp.ReceivedMessages {
		id, err := uuid.Parse(rm.AckId)
		if err != nil {
			return err
		}
		g.c.record(id, len(rm.Message.Data))
		if g.c.onSend != nil {
			g.c.onSend(id)
		}
	}
	return nil
}

func (c *scriptConn) record(id uuid.UUID, sz int) {
	c.mu.Lock()
	defer c.mu.Unlock()
	d := struct{ ID uuid.UUID }{id}
	c.sent = append(c.sent, sentMsg{d.ID, sz})
	if _, dup := c.out[d.ID]; !dup {
		c.order = append(c.order, d.ID)
	} else if c.dup == "" && time.Since(c.lastSend[d.ID]) < 10*time.Second {
		// (the subscriptions of these runs have the default retry policy: a lease lasts at least 10 s)
		c.dup = fmt.Sprintf("delivery %s was handed out again on the stream %s after it was sent, while it was still outstanding (no nack, lease not lapsed)", d.ID, time.Since(c.lastSend[d.ID]))
	}
	if c.lastSend == nil {
		c.lastSend = map[uuid.UUID]time.Time{}
	}
	c.lastSend[d.ID] = time.Now()
	c.out[d.ID] = sz
	c.ctl.Mark("send " + d.ID.String())
	n, b := len(c.out), 0
	for _, s := range c.out {
		b += s
	}
	if c.bad == "" {
		if n > c.limit.MaxMessages {
			c.bad = fmt.Sprintf("%d messages outstanding after this send, max outstanding messages is %d", n, c.limit.MaxMessages)
		} else if b > c.limit.MaxBytes && n > 1 {
			c.bad = fmt.Sprintf("%d bytes outstanding in %d messages after this send, max outstanding bytes is %d", b, n, c.limit.MaxBytes)
		}
	}
}

// settle removes ids from the client's view of what is outstanding (called when the client decides
// to ack/nack, i.e. before the streamer can react)
func (c *scriptConn) settle(ids []uuid.UUID) {
	c.mu.Lock()
	defer c.mu.Unlock()
	for _, id := range ids {
		delete(c.out, id)
	}
	var keep []uuid.UUID
	for _, id := range c.order {
		if _, ok := c.out[id]; ok {
			keep = append(keep, id)
		}
	}
	c.order = keep
}

func (c *scriptConn) usage() (n, b int) {
	c.mu.Lock()
	defer c.mu.Unlock()
	for _, s := range c.out {
		b += s
	}
	return len(c.out), b
}

type c11Result struct {
	violation, sig string
	knownHits      []Violation // findings listed in the known-findings file: recorded, the case goes on
	evs            []string    // model events
	batches        []string    // ids (model numbering) sent per non-empty query, in order
	sentTotal      int
	streamErr      string // the error the stream ended with before the case was over ("" = still open)
	completed      int    // deliveries of the subscription that are completed when the case ends
	spins          int
	queries        int
}

func c11Run(t *testing.T, seed int64, cs c11Case, known map[string]bool) *c11Result {
	res := &c11Result{}
	synctest.Test(t, func(t *testing.T) {
		w := NewWorld(t, seed)
		defer w.Close()
		cfg := &SubCfg{Topic: "t", Ordered: cs.Ordered, TTL: 24 * 3600 * Sec, MTTL: 3600 * Sec}
		for _, op := range []Op{{K: "create_topic", Topic: "t"}, {K: "create_sub", Sub: "s", Cfg: cfg}} {
			w.Exec(op)
		}
		if cs.Recreate {
			w.Exec(Op{K: "delete_sub", Sub: "s"})
			time.Sleep(time.Second)
			w.Exec(Op{K: "create_sub", Sub: "s", Cfg: cfg})
		}
		w.Dump()
		var subID uuid.UUID
		for _, row := range w.lastSubs {
			if row.DeletedAt == nil {
				subID = row.ID
			}
		}
		w.Ctl.mu.Lock()
		w.Ctl.tick = 0
		w.Ctl.mu.Unlock()
		conn := &scriptConn{reqs: make(chan *actions.MessageStreamRequest), closed: make(chan struct{}), out: map[uuid.UUID]int{},
			limit: actions.FlowControl{MaxMessages: 1, MaxBytes: 1}, ctl: w.Ctl}
		if cs.AckInSend > 0 {
			left := cs.AckInSend
			conn.onSend = func(id uuid.UUID) {
				if left <= 0 {
					return
				}
				left--
				conn.settle([]uuid.UUID{id})
				ack := actions.NewAckDeliveries(id)
				if err := w.Client.DoCtxTx(qctx, nil, ack.Execute); err != nil {
					t.Errorf("ack inside Send: %v", err)
				}
				// the Send takes a moment more: whoever the acknowledgement woke runs before it returns
				conn.mu.Lock()
				conn.sending++
				conn.mu.Unlock()
				time.Sleep(time.Millisecond)
				conn.mu.Lock()
				conn.sending--
				conn.mu.Unlock()
			}
		}
		ctx, cancel := context.WithCancel(WithLabel(context.Background(), "stream"))
		defer cancel()
		w.Ctl.SpinGuard("stream", 200)
		w.Ctl.StartLog()
		fin := make(chan error, 1)
		if cs.Grpc {
			conn.greqs = make(chan *pubsubpb.StreamingPullRequest)
			gs := &grpcStream{c: conn, ctx: ctx}
			go func() { fin <- w.Api().Sub.StreamingPull(gs) }()
		} else {
			ms := &actions.MessageStreamer{Client: w.Client, SubscriptionID: &subID, SubscriptionName: SubName("s")}
			go func() { fin <- ms.Go(ctx, conn) }()
		}
		synctest.Wait()
		strs := func(ids []uuid.UUID) []string {
			out := make([]string, len(ids))
			for i, id := range ids {
				out[i] = id.String()
			}
			return out
		}
		rep := func(n int, v int32) []int32 {
			out := make([]int32, n)
			for i := range out {
				out[i] = v
			}
			return out
		}
		num := map[uuid.UUID]int{} // model numbering of delivery ids
		idOf := func(id uuid.UUID) int {
			if n, ok := num[id]; ok {
				return n
			}
			num[id] = len(num) + 1
			return num[id]
		}
		sizeOf := map[uuid.UUID]int{}
		nextN := 0
		logPos := 0
		// consume the statement log since the last call: candidate lists of the fetch queries and the sends
		drain := func() {
			stmts := w.Ctl.peek()
			var curBatch []string
			curCands := ""
			inQuery := false
			flush := func() {
				if inQuery {
					res.batches = append(res.batches, strings.Join(curBatch, "+"))
					res.evs = append(res.evs, "loop", "q~"+curCands+"~"+strings.Join(curBatch, "+"))
				}
				curBatch, inQuery = nil, false
			}
			for _, s := range stmts[logPos:] {
				switch {
				case s.Kind == "query" && s.Label == "stream" && strings.Contains(s.SQL, "FROM `deliveries`") && strings.Contains(s.SQL, "`attempt_at` <="):
					if len(s.Col0) == 0 {
						continue // the fetch keeps waiting
					}
					flush()
					res.queries++
					var cands []string
					for _, c := range s.Col0 {
						id, err := uuid.Parse(c)
						if err != nil {
							continue
						}
						if _, ok := sizeOf[id]; !ok {
							if d, err := w.Client.Delivery.Query().Where(delivery.ID(id)).WithMessage().Only(qctx); err == nil {
								sizeOf[id] = len(d.Edges.Message.Payload)
							}
						}
						cands = append(cands, fmt.Sprintf("%d:%d", idOf(id), sizeOf[id]))
					}
					curCands = strings.Join(cands, "+")
					inQuery = true
				case s.Kind == "mark" && strings.HasPrefix(s.SQL, "send "):
					id, _ := uuid.Parse(strings.TrimPrefix(s.SQL, "send "))
					curBatch = append(curBatch, fmt.Sprint(idOf(id)))
				}
			}
			flush()
			logPos = len(stmts)
		}
		quiesce := func() {
			synctest.Wait()
			for i := 0; i < 100; i++ {
				conn.mu.Lock()
				busy := conn.sending > 0
				conn.mu.Unlock()
				if !busy {
					break
				}
				time.Sleep(2 * time.Millisecond) // a Send is still in progress (sleeping): let it finish
				synctest.Wait()
			}
			if w.Ctl.Spinning() {
				res.spins++
			}
			drain()
			res.evs = append(res.evs, "loop")
		}
		check := func(step int, a c11Action) bool {
			if conn.bad != "" {
				res.violation = fmt.Sprintf("after action %d (%s): %s", step, a.K, conn.bad)
				res.sig = "bound"
				return false
			}
			if conn.dup != "" {
				res.violation = fmt.Sprintf("after action %d (%s): %s", step, a.K, conn.dup)
				res.sig = "redelivered-while-leased"
				return false
			}
			// no-stall: a deliverable message that fits the free capacity must not be left unsent
			n, b := conn.usage()
			freeM, freeB := conn.limit.MaxMessages-n, conn.limit.MaxBytes-b
			if freeM < 1 {
				return true
			}
			now := time.Now()
			ds, err := w.Client.Delivery.Query().Where(delivery.SubscriptionID(subID), delivery.CompletedAtIsNil(),
				delivery.AttemptAtLTE(now), delivery.ExpiresAtGT(now)).WithMessage().Order(ent.Asc(delivery.FieldAttemptAt)).All(qctx)
			if err != nil {
				t.Fatal(err)
			}
			var eligible []*ent.Delivery
			for _, d := range ds {
				if cs.Ordered && d.NotBeforeID != uuid.Nil {
					if p, err := w.Client.Delivery.Get(qctx, d.NotBeforeID); err == nil && p.CompletedAt == nil && p.ExpiresAt.After(now) {
						continue // blocked by its predecessor
					}
				}
				eligible = append(eligible, d)
			}
			for i, d := range eligible {
				sz := len(d.Edges.Message.Payload)
				if (n == 0 && i == 0) || (sz <= freeB && freeB >= 1) {
					how := "is quiescent"
					if w.Ctl.Spinning() {
						how = "is busy-looping over fetches that send nothing"
					}
					// the fetch asks for at most freeM candidates (oldest first): a fitting message inside that
					// window was a candidate and has been skipped; one beyond it is hidden behind larger ones
					inWindow := i < freeM && i < 100
					res.violation = fmt.Sprintf("after action %d (%s): the stream %s although a deliverable message of %d bytes (candidate %d of the fetch window of %d) fits the free capacity (%d messages, %d bytes free; %d outstanding)", step, a.K, how, sz, i+1, freeM, freeM, freeB, n)
					res.sig = "stall"
					if !inWindow {
						res.sig = "stall-head-of-line"
					}
					if known[res.sig] {
						res.knownHits = append(res.knownHits, Violation{What: res.violation, Sig: res.sig, FoundInput: true})
						res.violation, res.sig = "", ""
						return true
					}
					return false
				}
			}
			return true
		}
		streamOpen := !cs.Grpc
		for step, a := range cs.Actions {
			w.Ctl.SpinReset()
			switch a.K {
			case "fc":
				conn.mu.Lock()
				conn.limit = actions.FlowControl{MaxMessages: a.Msgs, MaxBytes: a.Byts}
				if cs.Grpc {
					// a limit the client leaves unset (0) is the documented default, not "none of the other kind"
					if a.Msgs <= 0 {
						conn.limit.MaxMessages = 1000
					}
					if a.Byts <= 0 {
						conn.limit.MaxBytes = 10 * 1024 * 1024
					}
				}
				conn.mu.Unlock()
				if cs.Grpc {
					// flow control travels in the initial request only
					conn.greqs <- &pubsubpb.StreamingPullRequest{Subscription: SubName("s"), StreamAckDeadlineSeconds: 10,
						MaxOutstandingMessages: int64(a.Msgs), MaxOutstandingBytes: int64(a.Byts)}
				} else {
					conn.reqs <- &actions.MessageStreamRequest{FlowControl: &actions.FlowControl{MaxMessages: a.Msgs, MaxBytes: a.Byts}}
				}
				conn.mu.Lock()
				res.evs = append(res.evs, fmt.Sprintf("fc~%d~%d", conn.limit.MaxMessages, conn.limit.MaxBytes), "wake", "loop")
				conn.mu.Unlock()
			case "publish":
				var msgs []MsgSpec
				for _, p := range a.Pads {
					msgs = append(msgs, MsgSpec{N: nextN, Pad: p, Key: map[bool]string{true: "k", false: ""}[cs.Ordered]})
					nextN++
				}
				w2 := *w
				w2.execInner(Op{K: "publish", Topic: "t", Msgs: msgs}, &Result{T: w.Now()})
				res.evs = append(res.evs, "spurious", "loop")
			case "ack", "nack", "delay0", "extack", "extend", "ackdelay0":
				conn.mu.Lock()
				var ids []uuid.UUID
				for _, i := range a.Pick {
					if len(conn.order) > 0 {
						ids = append(ids, conn.order[i%len(conn.order)])
					}
				}
				conn.mu.Unlock()
				if len(ids) == 0 {
					continue
				}
				// dedupe
				seen := map[uuid.UUID]bool{}
				var u []uuid.UUID
				var nums []string
				for _, id := range ids {
					if !seen[id] {
						seen[id] = true
						u = append(u, id)
						nums = append(nums, fmt.Sprint(idOf(id)))
					}
				}
				if a.K != "extend" {
					conn.settle(u)
				}
				switch a.K {
				case "extend":
					// a positive deadline only postpones: the messages stay outstanding, nothing is freed
					if cs.Grpc {
						conn.greqs <- &pubsubpb.StreamingPullRequest{ModifyDeadlineAckIds: strs(u), ModifyDeadlineSeconds: rep(len(u), 60)}
					} else {
						conn.reqs <- &actions.MessageStreamRequest{Delay: u, DelaySeconds: 60}
					}
					res.evs = append(res.evs, "spurious", "loop")
				case "ack":
					if cs.Grpc {
						conn.greqs <- &pubsubpb.StreamingPullRequest{AckIds: strs(u)}
					} else {
						conn.reqs <- &actions.MessageStreamRequest{Ack: u}
					}
					res.evs = append(res.evs, "s~"+strings.Join(nums, "+"))
				case "nack":
					if cs.Grpc {
						conn.greqs <- &pubsubpb.StreamingPullRequest{ModifyDeadlineAckIds: strs(u), ModifyDeadlineSeconds: rep(len(u), 0)}
					} else {
						conn.reqs <- &actions.MessageStreamRequest{Nack: u}
					}
					res.evs = append(res.evs, "s~"+strings.Join(nums, "+"))
				case "delay0":
					if cs.Grpc {
						conn.greqs <- &pubsubpb.StreamingPullRequest{ModifyDeadlineAckIds: strs(u), ModifyDeadlineSeconds: rep(len(u), 0)}
					} else {
						conn.reqs <- &actions.MessageStreamRequest{Delay: u, DelaySeconds: 0}
					}
					res.evs = append(res.evs, "s~"+strings.Join(nums, "+"))
				case "ackdelay0":
					// one stream request that acknowledges the first picked id and gives the others a zero deadline
					if cs.Grpc {
						conn.greqs <- &pubsubpb.StreamingPullRequest{AckIds: strs(u[:1]), ModifyDeadlineAckIds: strs(u[1:]), ModifyDeadlineSeconds: rep(len(u)-1, 0)}
					} else {
						conn.reqs <- &actions.MessageStreamRequest{Ack: u[:1], Delay: u[1:], DelaySeconds: 0}
					}
					res.evs = append(res.evs, "s~"+strings.Join(nums, "+"))
				case "extack":
					ack := actions.NewAckDeliveries(u...)
					if err := w.Client.DoCtxTx(qctx, nil, ack.Execute); err != nil {
						t.Fatal(err)
					}
					res.evs = append(res.evs, "x~"+strings.Join(nums, "+"), "r~"+strings.Join(nums, "+"))
				}
				res.evs = append(res.evs, "wake", "loop")
			case "advance":
				time.Sleep(time.Duration(a.D))
			}
			quiesce()
			if a.K == "fc" {
				streamOpen = true
			}
			// (a gRPC stream does nothing before its initial request)
			if streamOpen && !check(step, a) {
				break
			}
		}
		res.sentTotal = len(conn.sent)
		select {
		case err := <-fin:
			res.streamErr = fmt.Sprint(err)
			fin <- err
		default:
		}
		if n, err := w.Client.Delivery.Query().Where(delivery.SubscriptionID(subID), delivery.CompletedAtNotNil()).Count(qctx); err == nil {
			res.completed = n
		}
		w.Ctl.SpinGuard("", 0)
		cancel()
		w.Ctl.SpinReset()
		synctest.Wait()
		w.Ctl.StopLog()
	})
	return res
}

// acknowledgements that commit while the server is still inside the Send of that very message
func c11AckInSendCases() []c11Case {
	return []c11Case{
		{Name: "ack-in-send-ordered", Ordered: true, AckInSend: 1, Actions: []c11Action{{K: "publish", Pads: []int{0, 0}}, {K: "fc", Msgs: 1, Byts: 1000}}},
		{Name: "ack-in-send-unordered", AckInSend: 2, Actions: []c11Action{{K: "fc", Msgs: 1, Byts: 1000}, {K: "publish", Pads: []int{0, 0, 0}}}},
		{Name: "ack-in-send-grpc", Grpc: true, Ordered: true, AckInSend: 1, Actions: []c11Action{{K: "publish", Pads: []int{0, 0}}, {K: "fc", Msgs: 1, Byts: 1000}}},
		{Name: "ack-in-send-bytes", AckInSend: 1, Actions: []c11Action{{K: "fc", Msgs: 5, Byts: 14}, {K: "publish", Pads: []int{0, 0}}}},
	}
}

func c11Cases(rng *rand.Rand, n int) []c11Case {
	fixed := []c11Case{
		{Name: "one-at-a-time", Actions: []c11Action{{K: "publish", Pads: []int{0, 0, 0}}, {K: "fc", Msgs: 1, Byts: 1000}, {K: "ack", Pick: []int{0}}, {K: "ack", Pick: []int{0}}, {K: "ack", Pick: []int{0}}}},
		{Name: "bytes-below-message-size", Actions: []c11Action{{K: "fc", Msgs: 5, Byts: 10}, {K: "publish", Pads: []int{30, 30}}, {K: "ack", Pick: []int{0}}, {K: "nack", Pick: []int{0}}}},
		{Name: "bytes-exactly-two", Actions: []c11Action{{K: "publish", Pads: []int{10, 10, 10}}, {K: "fc", Msgs: 5, Byts: 50}, {K: "ack", Pick: []int{0}}, {K: "extack", Pick: []int{0}}}},
		{Name: "external-ack-frees-capacity", Actions: []c11Action{{K: "fc", Msgs: 2, Byts: 10000}, {K: "publish", Pads: []int{0, 0, 0, 0}}, {K: "extack", Pick: []int{0}}, {K: "extack", Pick: []int{0, 1}}}},
		{Name: "zero-deadline-frees-capacity", Actions: []c11Action{{K: "fc", Msgs: 2, Byts: 10000}, {K: "publish", Pads: []int{0, 0, 0, 0}}, {K: "delay0", Pick: []int{1}}, {K: "ack", Pick: []int{0}}}},
		// an older message whose lease was extended stays outstanding; a younger one is nacked and is due again
		// after its back-off: the fetch that is waiting has to wake at *that* deadline, not at the older one's
		{Name: "redelivery-behind-extended-lease", Actions: []c11Action{{K: "fc", Msgs: 2, Byts: 10000}, {K: "publish", Pads: []int{0}}, {K: "advance", D: int64(time.Second)}, {K: "publish", Pads: []int{0}}, {K: "extend", Pick: []int{0}}, {K: "nack", Pick: []int{1}}, {K: "advance", D: int64(12500 * time.Millisecond)}}},
		{Name: "redelivery-behind-extended-lease-grpc", Grpc: true, Actions: []c11Action{{K: "fc", Msgs: 2, Byts: 10000}, {K: "publish", Pads: []int{0}}, {K: "advance", D: int64(time.Second)}, {K: "publish", Pads: []int{0}}, {K: "extend", Pick: []int{0}}, {K: "nack", Pick: []int{1}}, {K: "advance", D: int64(12500 * time.Millisecond)}}},
		// only one of the two limits set by the client: the other is its default, the one set is obeyed
		{Name: "grpc-only-message-limit", Grpc: true, Actions: []c11Action{{K: "publish", Pads: []int{0, 0, 0, 0}}, {K: "fc", Msgs: 2, Byts: 0}, {K: "ack", Pick: []int{0}}}},
		{Name: "grpc-only-byte-limit", Grpc: true, Actions: []c11Action{{K: "publish", Pads: []int{0, 0, 0, 0}}, {K: "fc", Msgs: 0, Byts: 30}, {K: "ack", Pick: []int{0}}}},
		{Name: "exact-fit", Actions: []c11Action{{K: "publish", Pads: []int{0, 0, 0, 0}}, {K: "fc", Msgs: 5, Byts: 28}, {K: "ack", Pick: []int{0}}, {K: "ack", Pick: []int{0, 1}}}},
		{Name: "exact-fit-single", Actions: []c11Action{{K: "fc", Msgs: 5, Byts: 14}, {K: "publish", Pads: []int{0, 0}}, {K: "ack", Pick: []int{0}}}},
		{Name: "exact-fit-second", Actions: []c11Action{{K: "publish", Pads: []int{6, 0, 0}}, {K: "fc", Msgs: 5, Byts: 34}, {K: "nack", Pick: []int{1}}}},
		{Name: "small-behind-large", Actions: []c11Action{{K: "publish", Pads: []int{5, 60, 5}}, {K: "fc", Msgs: 2, Byts: 60}, {K: "ack", Pick: []int{0}}}},
		{Name: "ordered-stream", Ordered: true, Actions: []c11Action{{K: "fc", Msgs: 3, Byts: 10000}, {K: "publish", Pads: []int{0, 0, 0, 0, 0}}, {K: "ack", Pick: []int{0}}, {K: "ack", Pick: []int{0}}, {K: "extack", Pick: []int{0}}}},
		{Name: "grow-limits", Actions: []c11Action{{K: "publish", Pads: []int{0, 0, 0, 0, 0, 0}}, {K: "fc", Msgs: 1, Byts: 100}, {K: "fc", Msgs: 3, Byts: 200}, {K: "ack", Pick: []int{0, 1}}, {K: "fc", Msgs: 6, Byts: 1000}}},
	}
	// through the gRPC StreamingPull handler: the limits travel in the initial request
	fixed = append(fixed,
		c11Case{Name: "grpc-one-at-a-time", Grpc: true, Actions: []c11Action{{K: "fc", Msgs: 1, Byts: 1000}, {K: "publish", Pads: []int{0, 0, 0}}, {K: "extend", Pick: []int{0}}, {K: "ack", Pick: []int{0}}, {K: "nack", Pick: []int{0}}, {K: "ack", Pick: []int{0}}}},
		c11Case{Name: "grpc-extend-keeps-slot", Grpc: true, Actions: []c11Action{{K: "publish", Pads: []int{0, 0, 0, 0}}, {K: "fc", Msgs: 2, Byts: 10000}, {K: "extend", Pick: []int{0, 1}}, {K: "extend", Pick: []int{1}}, {K: "ack", Pick: []int{0}}}},
		c11Case{Name: "grpc-bytes", Grpc: true, Actions: []c11Action{{K: "fc", Msgs: 5, Byts: 28}, {K: "publish", Pads: []int{0, 0, 0, 0}}, {K: "ack", Pick: []int{0}}, {K: "extack", Pick: []int{0}}, {K: "nack", Pick: []int{0}}}},
		c11Case{Name: "extend-keeps-slot", Actions: []c11Action{{K: "fc", Msgs: 2, Byts: 10000}, {K: "publish", Pads: []int{0, 0, 0, 0}}, {K: "extend", Pick: []int{0}}, {K: "ack", Pick: []int{1}}}},
	)
	fixed = append(fixed, c11AckInSendCases()...)
	for i := 0; i < n; i++ {
		c := c11Case{Name: fmt.Sprintf("random-%d", i), Ordered: rng.Intn(5) == 0, Grpc: i%4 == 3}
		sizes := []int{0, 0, 5, 20, 60, 200}
		maxM := 1 + rng.Intn(4)
		maxB := []int{1, 14, 20, 28, 40, 42, 45, 80, 100, 300, 100000}[rng.Intn(11)]
		if rng.Intn(2) == 0 || c.Grpc {
			c.Actions = append(c.Actions, c11Action{K: "fc", Msgs: maxM, Byts: maxB})
		}
		pub := func() c11Action {
			a := c11Action{K: "publish"}
			for k := 1 + rng.Intn(4); k > 0; k-- {
				a.Pads = append(a.Pads, sizes[rng.Intn(len(sizes))])
			}
			return a
		}
		c.Actions = append(c.Actions, pub())
		if len(c.Actions) == 1 {
			c.Actions = append(c.Actions, c11Action{K: "fc", Msgs: maxM, Byts: maxB})
		}
		for k := 4 + rng.Intn(10); k > 0; k-- {
			switch rng.Intn(10) {
			case 0, 1:
				c.Actions = append(c.Actions, pub())
			case 2, 3, 4:
				c.Actions = append(c.Actions, c11Action{K: "ack", Pick: []int{rng.Intn(4)}})
			case 5:
				c.Actions = append(c.Actions, c11Action{K: "ack", Pick: []int{rng.Intn(4), rng.Intn(4)}})
			case 6:
				c.Actions = append(c.Actions, c11Action{K: "nack", Pick: []int{rng.Intn(4)}})
			case 7:
				c.Actions = append(c.Actions, c11Action{K: "delay0", Pick: []int{rng.Intn(4)}})
			case 8:
				c.Actions = append(c.Actions, c11Action{K: "extack", Pick: []int{rng.Intn(4)}})
			case 9:
				if c.Grpc || rng.Intn(2) == 0 {
					// a positive deadline: postpones, frees nothing
					c.Actions = append(c.Actions, c11Action{K: "extend", Pick: []int{rng.Intn(4)}})
					break
				}
				// limits only grow
				maxM += rng.Intn(2)
				maxB += rng.Intn(50)
				c.Actions = append(c.Actions, c11Action{K: "fc", Msgs: maxM, Byts: maxB})
			}
		}
		fixed = append(fixed, c)
	}
	return fixed
}

func TestC11(t *testing.T) {
	st := NewStats()
	defer st.Write()
	m, err := StartModel()
	if err != nil {
		t.Fatal(err)
	}
	defer m.Close()
	known := map[string]bool{}
	for _, s := range strings.Split(os.Getenv("VERIF_KNOWN_SIGS"), ",") {
		known[s] = true
	}
	var cases []c11Case
	if p := os.Getenv("VERIF_REPLAY"); p != "" {
		b, err := os.ReadFile(p)
		if err != nil {
			t.Fatal(err)
		}
		var rp c11Replay
		if err := json.Unmarshal(b, &rp); err != nil {
			t.Fatal(err)
		}
		cases = []c11Case{rp.Case}
	} else {
		n := 60
		if Tier() == "thorough" {
			n = 1200
		}
		cases = c11Cases(rand.New(rand.NewSource(Seed())), n)
	}
	runs, sent, queries, spins := 0, 0, 0, 0
	seen := map[string]bool{}
	for _, cs := range cases {
		r := c11Run(t, Seed(), cs, known)
		runs++
		for _, kh := range r.knownHits {
			if !seen[kh.Sig] {
				seen[kh.Sig] = true
				p := ReplayPath(fmt.Sprintf("C11-%s-%s-%d.json", kh.Sig, cs.Name, Seed()))
				b, _ := json.MarshalIndent(c11Replay{Property: "C11", Sig: kh.Sig, Seed: Seed(), Case: cs, What: kh.What}, "", " ")
				os.WriteFile(p, b, 0o644)
				kh.Replay = p
				kh.What = fmt.Sprintf("[%s] case %s: %s", kh.Sig, cs.Name, kh.What)
				st.Violate(kh)
			}
			st.Count("known_"+kh.Sig, 1)
		}
		sent += r.sentTotal
		queries += r.queries
		spins += r.spins
		st.Distinct(cs.Name)
		if r.violation != "" {
			if seen[r.sig] {
				continue
			}
			seen[r.sig] = true
			p := ReplayPath(fmt.Sprintf("C11-%s-%s-%d.json", r.sig, cs.Name, Seed()))
			b, _ := json.MarshalIndent(c11Replay{Property: "C11", Sig: r.sig, Seed: Seed(), Case: cs, What: r.violation}, "", " ")
			os.WriteFile(p, b, 0o644)
			st.Violate(Violation{What: fmt.Sprintf("[%s] case %s: %s", r.sig, cs.Name, r.violation), Replay: p, FoundInput: true, Sig: r.sig})
			continue
		}
		if cs.AckInSend > 0 {
			continue // (the acknowledgement falls between a fetch and its bookkeeping: outside the event vocabulary of the stream model)
		}
		// the model on the same events: the batches must be the ones the model selects
		outs, err := m.Replay([]string{"stream evs=" + strings.Join(r.evs, ";")})
		if err != nil {
			t.Fatal(err)
		}
		ans := strings.TrimPrefix(outs[0], "R ")
		sel := strings.Split(strings.SplitN(ans, "|", 2)[0], ";")
		bad := ans == outs[0]
		for _, x := range sel {
			bad = bad || strings.HasPrefix(x, "bad")
		}
		if bad && !seen["correspondence"] {
			seen["correspondence"] = true
			p := ReplayPath(fmt.Sprintf("C11-correspondence-%s-%d.json", cs.Name, Seed()))
			b, _ := json.MarshalIndent(c11Replay{Property: "C11", Sig: "correspondence", Seed: Seed(), Case: cs,
				What: "model: " + outs[0] + " impl batches: " + strings.Join(r.batches, ";") + " events: " + strings.Join(r.evs, ";")}, "", " ")
			os.WriteFile(p, b, 0o644)
			st.Violate(Violation{What: fmt.Sprintf("correspondence with the stream model broken on case %s\n    events: %s\n    model selects: %s\n    impl sent:     %s", cs.Name, strings.Join(r.evs, ";"), strings.Join(sel, ";"), strings.Join(r.batches, ";")), Replay: p, FoundInput: false, Sig: "correspondence"})
		}
	}
	if os.Getenv("VERIF_REPLAY") == "" {
		c11Schedules(t, st)
	}
	if os.Getenv("VERIF_REPLAY") == "" && !hasConcrete(st.Violations) {
		streamTimedCases(t, st)
	}
	st.Set("evaluations", runs)
	st.Set("messages_sent", sent)
	st.Set("fetches_with_candidates", queries)
	st.Set("busy_loops_observed", spins)
	st.Set("traces_validated_against_impl", runs)
	st.Set("rule", "fixed cases (limits 1..6 messages; byte limits below, at and above message sizes; small message behind a large one; ordered stream; growing limits; outside acknowledgements; zero deadlines) plus random cases: random limits, message size mixes, and sequences of publish / stream ack / nack / zero deadline / outside ack / limit growth, each brought to quiescence; distinct = cases")
	st.Summary = fmt.Sprintf("cases=%d sends=%d fetches=%d busy_loops=%d", runs, sent, queries, spins)
}
