package harness

import (
	"context"
	"encoding/json"
	"errors"
	"fmt"
	"google.golang.org/protobuf/types/known/timestamppb"
	"strings"
	"time"

	"github.com/google/uuid"

	"go.6river.tech/mmmbbb/actions"
	"go.6river.tech/mmmbbb/ent"
	"go.6river.tech/mmmbbb/ent/delivery"
	"go.6river.tech/mmmbbb/ent/message"
	"go.6river.tech/mmmbbb/ent/subscription"
	"go.6river.tech/mmmbbb/grpc/pubsubpb"
	"go.6river.tech/mmmbbb/services"
	"google.golang.org/grpc/codes"
	"google.golang.org/grpc/status"
)

type MsgSpec struct {
	N       int               `json:"n"`
	Key     string            `json:"key,omitempty"`
	Attrs   map[string]string `json:"attrs,omitempty"`
	Pad     int               `json:"pad,omitempty"`
	Payload string            `json:"payload,omitempty"` // explicit JSON text; default {"n":N,"p":"xx…"}
}

// Ref names the delivery of message N on subscription Sub.
type Ref struct {
	N   int    `json:"n"`
	Sub string `json:"sub"`
}

type SubCfg struct {
	Topic   string            `json:"topic"`
	TTL     int64             `json:"ttl,omitempty"`
	MTTL    int64             `json:"mttl,omitempty"`
	Ordered bool              `json:"ordered,omitempty"`
	Filter  string            `json:"filter,omitempty"`
	MinB    int64             `json:"minb,omitempty"`
	MaxB    int64             `json:"maxb,omitempty"`
	MaxAtt  int32             `json:"maxatt,omitempty"`
	DLT     string            `json:"dlt,omitempty"`
	Push    string            `json:"push,omitempty"`
	Labels  map[string]string `json:"labels,omitempty"`
}

type Op struct {
	K        string            `json:"k"`
	Topic    string            `json:"topic,omitempty"`
	Sub      string            `json:"sub,omitempty"`
	Name     string            `json:"name,omitempty"`
	Snap     string            `json:"snap,omitempty"`
	Msgs     []MsgSpec         `json:"msgs,omitempty"`
	Max      int               `json:"max,omitempty"`
	MaxBytes int               `json:"maxbytes,omitempty"`
	Strict   bool              `json:"strict,omitempty"`
	Refs     []Ref             `json:"refs,omitempty"`
	Refs2    []Ref             `json:"refs2,omitempty"` // second id list (stream ack+nack: Refs acked, Refs2 nacked)
	Garbage  int               `json:"garbage,omitempty"`
	D        int64             `json:"d,omitempty"`
	Cfg      *SubCfg           `json:"cfg,omitempty"`
	Labels   map[string]string `json:"labels,omitempty"`
	// Via = "handler": go through the gRPC handler instead of the action (pull, ack, delay, publish, seek)
	Via string `json:"via,omitempty"`
	// K = "rpc": a control-plane request sent to the real gRPC handler (UpdateSubscription with a mask, …)
	Rpc *Rpc `json:"rpc,omitempty"`
}

func (o Op) String() string { b, _ := json.Marshal(o); return string(b) }

func TopicName(s string) string {
	if strings.Contains(s, "/") || s == "" {
		return s
	}
	return "projects/p/topics/" + s
}
func SubName(s string) string {
	if strings.Contains(s, "/") || s == "" {
		return s
	}
	return "projects/p/subscriptions/" + s
}
func SnapName(s string) string {
	if strings.Contains(s, "/") || s == "" {
		return s
	}
	return "projects/p/snapshots/" + s
}

// Delivered is one element of a pull response as the client sees it.
type Delivered struct {
	ID      uuid.UUID
	MsgID   uuid.UUID
	Attempt int
	Payload string
	Attrs   map[string]string
	Key     string
	PubNs   int64
}

// Result is what one executed operation looked like from outside (for the monitors).
type Result struct {
	// Body of a control-plane response (K = "rpc"), as the API layer renders it
	Body string
	// an operation that reported success although (part of) its effect is missing from the tables
	Lost                      string
	Op                        Op
	T                         int64 // clock before
	TAfter                    int64
	Resp                      string
	Err                       error
	Delivered                 []Delivered
	NumDL                     int
	Wakes                     []uuid.UUID
	Ids                       []uuid.UUID // ids the op addressed (ack/nack/delay)
	MsgIDs                    []uuid.UUID // publish response
	Stmts                     []*Stmt
	NoWk                      bool // composite operation: the wake set is not attributed to a single model step
	NStmts                    int  // statements counted by the fault controller during the operation
	Before                    map[uuid.UUID]*ent.Delivery
	After                     map[uuid.UUID]*ent.Delivery
	SubsBefore, SubsAfter     map[uuid.UUID]*ent.Subscription
	TopicsBefore, TopicsAfter map[uuid.UUID]*ent.Topic
	Msgs                      map[uuid.UUID]*ent.Message // after
}

func errClass(err error) string {
	switch {
	case err == nil:
		return "ok"
	case errors.Is(err, actions.ErrNotFound) || ent.IsNotFound(err):
		return "E:NotFound"
	case errors.Is(err, actions.ErrExists):
		return "E:AlreadyExists"
	case strings.Contains(err.Error(), "invalid message filter"):
		return "E:InvalidArgument"
	case strings.Contains(err.Error(), "FOREIGN KEY constraint failed"):
		return "E:Unknown"
	default:
		return "E:Other:" + Enc(err.Error())
	}
}

func (w *World) snapDeliveries() map[uuid.UUID]*ent.Delivery {
	ds, err := w.Client.Delivery.Query().All(qctx)
	if err != nil {
		w.T.Fatalf("snap: %v", err)
	}
	m := make(map[uuid.UUID]*ent.Delivery, len(ds))
	for _, d := range ds {
		m[d.ID] = d
	}
	return m
}

// Resolve finds the delivery id for a Ref (uuid.Nil if none).
func (w *World) noteHanded(id uuid.UUID) {
	if w.handed == nil {
		w.handed = map[uuid.UUID]bool{}
	}
	w.handed[id] = true
}

func (w *World) Resolve(r Ref) uuid.UUID {
	sub, err := w.Client.Subscription.Query().Where(subscription.Name(SubName(r.Sub))).Order(ent.Desc(subscription.FieldCreatedAt)).First(qctx)
	if err != nil {
		return uuid.Nil
	}
	ms, err := w.Client.Message.Query().All(qctx)
	if err != nil {
		return uuid.Nil
	}
	for _, m := range ms {
		var p struct {
			N *int `json:"n"`
		}
		if json.Unmarshal(m.Payload, &p) == nil && p.N != nil && *p.N == r.N {
			d, err := w.Client.Delivery.Query().Where(delivery.SubscriptionID(sub.ID), delivery.MessageID(m.ID)).First(qctx)
			if err == nil {
				// an ack id is a random UUID: a client can only name one it has been handed (a shrunk
				// history may have lost the pull that delivered it: the reference then names nothing)
				if d.Attempts == 0 && !w.handed[d.ID] {
					return uuid.Nil
				}
				return d.ID
			}
		}
	}
	return uuid.Nil
}

func garbageID(seed int64, i int) uuid.UUID {
	var u uuid.UUID
	x := uint64(seed)*1000003 + uint64(i)*7919 + 12345
	for k := 0; k < 16; k++ {
		x = x*6364136223846793005 + 1442695040888963407
		u[k] = byte(x >> 56)
	}
	u[6] = (u[6] & 0x0f) | 0x40
	u[8] = (u[8] & 0x3f) | 0x80
	return u
}

func payloadOf(m MsgSpec) json.RawMessage {
	if m.Payload != "" {
		return json.RawMessage(m.Payload)
	}
	return json.RawMessage(fmt.Sprintf(`{"n":%d,"p":"%s"}`, m.N, strings.Repeat("x", m.Pad)))
}

func fwdStr(d *ent.Delivery) string {
	nb := d.NotBeforeID
	return IdStr(d.SubscriptionID) + ":" + IdStr(d.ID) + ":" + IdOpt(&nb)
}

// attributeForwards walks the statement log and assigns newly created delivery rows to the source
// delivery whose completion follows them.
func attributeForwards(stmts []*Stmt, before, after map[uuid.UUID]*ent.Delivery) (srcs []uuid.UUID, fw map[uuid.UUID][]*ent.Delivery) {
	fw = map[uuid.UUID][]*ent.Delivery{}
	var pending []*ent.Delivery
	for _, st := range stmts {
		if st.Kind != "exec" && st.Kind != "query" {
			continue
		}
		if strings.HasPrefix(st.SQL, "INSERT INTO `deliveries`") {
			// ent inserts with `RETURNING id`: the returned column is the list of created rows
			for _, s := range st.Col0 {
				if u, err := uuid.Parse(s); err == nil {
					if d, isNew := after[u]; isNew && before[u] == nil {
						pending = append(pending, d)
					}
				}
			}
		} else if strings.HasPrefix(st.SQL, "UPDATE `deliveries`") && strings.Contains(st.SQL, "`completed_at` = ?") {
			for _, a := range st.Args {
				if s, ok := a.(string); ok {
					if u, err := uuid.Parse(s); err == nil {
						if b := before[u]; b != nil && b.CompletedAt == nil && after[u] != nil && after[u].CompletedAt != nil {
							srcs = append(srcs, u)
							fw[u] = pending
							pending = nil
						}
					}
				}
			}
		}
	}
	return
}

func srcFwdField(srcs []uuid.UUID, fw map[uuid.UUID][]*ent.Delivery) string {
	var parts []string
	for _, s := range srcs {
		for _, d := range fw[s] {
			parts = append(parts, IdStr(s)+"/"+fwdStr(d))
		}
	}
	return strings.Join(parts, ",")
}

// firstQueryCol0 returns the first-column values of the first query on the table that satisfies pred.
func firstQueryCol0(stmts []*Stmt, pred func(sql string) bool) []uuid.UUID {
	for _, st := range stmts {
		if st.Kind == "query" && pred(st.SQL) {
			var out []uuid.UUID
			for _, s := range st.Col0 {
				if u, err := uuid.Parse(s); err == nil {
					out = append(out, u)
				}
			}
			return out
		}
	}
	return nil
}

func (w *World) run(a interface {
	Execute(context.Context, *ent.Tx) error
}) error {
	return w.Client.DoCtxTx(w.Ctx, nil, func(ctx context.Context, tx *ent.Tx) error {
		err := a.Execute(ctx, tx)
		if err == nil && w.preCommit != nil {
			w.preCommit()
		}
		return err
	})
}

// Exec runs one operation against the implementation, appends its protocol lines (operation with
// observations, then the dump) to the trace and returns what was observed.
// qctx is the context of the harness's own queries (never labelled, never cancelled)
var qctx = context.Background()

func (w *World) Exec(op Op) *Result {
	res := &Result{Op: op, T: w.Now()}
	if w.lastDels == nil {
		w.Dump()
	}
	res.Before = w.lastDels
	res.SubsBefore, res.TopicsBefore = w.lastSubs, w.lastTopics
	if op.K == "rpc" {
		// the API layer writes its own protocol lines (rpc + dump), replayed by the same model state
		rr := w.Api().ExecRpc(*op.Rpc)
		res.Resp = "ok"
		res.Body = rr.Body
		if rr.Status != "OK" {
			res.Resp = "E:" + rr.Status
		}
		res.Wakes = rr.Wakes
		res.TAfter = w.Now()
		res.After = w.lastDels
		res.SubsAfter, res.TopicsAfter, res.Msgs = w.lastSubs, w.lastTopics, w.lastMsgs
		return res
	}
	if op.K == "advance" {
		// nothing runs concurrently in a sequential history: the tables cannot change
		line := w.execInner(op, res)
		res.TAfter = w.Now()
		res.After = res.Before
		res.SubsAfter, res.TopicsAfter, res.Msgs = w.lastSubs, w.lastTopics, w.lastMsgs
		w.Lines = append(w.Lines, line+" exp=ok wk=")
		return res
	}
	// awaiters for the wake observation
	watched := append([]uuid.UUID(nil), w.SubIDs...)
	aw := make([]actions.PublishNotifier, len(watched))
	for i, id := range watched {
		aw[i] = actions.PublishAwaiter(id)
	}
	w.Ctl.StartLog()
	line := w.execInner(op, res)
	res.Stmts = w.Ctl.StopLog()
	res.NStmts = w.Ctl.Count()
	for i, id := range watched {
		select {
		case <-aw[i]:
			res.Wakes = append(res.Wakes, id)
		default:
			actions.CancelPublishAwaiter(id, aw[i])
		}
	}
	res.TAfter = w.Now()
	dump := w.Dump() // refreshes lastDels
	res.After = w.lastDels
	res.SubsAfter, res.TopicsAfter, res.Msgs = w.lastSubs, w.lastTopics, w.lastMsgs
	if w.faultMode && (res.Err != nil || strings.HasPrefix(res.Resp, "E:")) {
		// an injected storage failure: the model treats the operation as not having happened, except
		// that a pull whose subscription check already committed has refreshed the expiry
		commits := 0
		for _, s := range res.Stmts {
			if s.Kind == "commit" && !s.Failed {
				commits++
			}
		}
		fl := fmt.Sprintf("fault t=%d ta=%d kind=%s", res.T, res.TAfter, op.K)
		if op.K == "pull" && commits > 0 {
			fl += " refreshed=" + Enc(SubName(op.Sub))
		}
		// messages of a failed publish were never stored: drop their msg lines
		for len(w.Lines) > 0 && strings.HasPrefix(w.Lines[len(w.Lines)-1], "msg ") {
			w.Lines = w.Lines[:len(w.Lines)-1]
		}
		w.Lines = append(w.Lines, fl, "dump "+dump)
		return res
	}
	if line != "" {
		if res.Op.K != op.K {
			op = res.Op // a composite operation is reported as its last step
		}
		line = w.finishLine(line, op, res)
		w.Lines = append(w.Lines, line)
		w.Lines = append(w.Lines, "dump "+dump)
	}
	return res
}

func (w *World) finishLine(line string, op Op, res *Result) string {
	// observations that need the after-state
	switch op.K {
	case "pull":
		var delays []string
		for _, d := range res.Delivered {
			if a := res.After[d.ID]; a != nil {
				delays = append(delays, fmt.Sprintf("%s:%d", IdStr(d.ID), ns(a.AttemptAt)-res.T))
			}
		}
		srcs, fw := attributeForwards(res.Stmts, res.Before, res.After)
		line += " delays=" + strings.Join(delays, ",") + " fw=" + srcFwdField(srcs, fw)
	case "nack":
		var delays []string
		for _, id := range sortIDs(res.Ids) {
			b, a := res.Before[id], res.After[id]
			if b != nil && a != nil && b.CompletedAt == nil && a.CompletedAt == nil && b.ExpiresAt.After(Epoch.Add(time.Duration(res.T))) {
				delays = append(delays, fmt.Sprintf("%s:%d", IdStr(id), ns(a.AttemptAt)-res.T))
			}
		}
		srcs, fw := attributeForwards(res.Stmts, res.Before, res.After)
		line += " delays=" + strings.Join(delays, ",") + " fw=" + srcFwdField(srcs, fw)
	case "dl_sweep":
		srcs, fw := attributeForwards(res.Stmts, res.Before, res.After)
		line += " fw=" + srcFwdField(srcs, fw)
	case "seek_time", "seek_snap":
		if op.Via == "handler" && res.Resp == "ok" {
			// the handler does not report counts: read them off the tables
			na, nd := 0, 0
			for id, b := range res.Before {
				a := res.After[id]
				if a == nil {
					continue
				}
				if b.CompletedAt == nil && a.CompletedAt != nil {
					na++
				}
				if b.CompletedAt != nil && a.CompletedAt == nil {
					nd++
				}
			}
			res.Resp = fmt.Sprintf("ok:%d,%d", na, nd)
		}
	}
	if res.NoWk {
		return line + " exp=" + res.Resp
	}
	return line + " exp=" + res.Resp + " wk=" + IdList(sortIDs(res.Wakes))
}

func (w *World) execInner(op Op, res *Result) string {
	t := res.T
	hdr := func(name string) string { return fmt.Sprintf("%s t=%d", name, t) }
	switch op.K {
	case "advance":
		time.Sleep(time.Duration(op.D))
		res.Resp = "ok"
		return hdr("advance") + fmt.Sprintf(" d=%d", op.D)
	case "create_topic":
		a := actions.NewCreateTopic(actions.CreateTopicParams{Name: TopicName(op.Topic), Labels: op.Labels})
		err := w.run(a)
		res.Err, res.Resp = err, errClass(err)
		id := uuid.Nil
		if r, ok := a.Results(); ok && err == nil {
			id = r.ID
		}
		return hdr("create_topic") + fmt.Sprintf(" name=%s labels=%s id=%s", Enc(TopicName(op.Topic)), MapStr(op.Labels), IdStr(id))
	case "delete_topic":
		a := actions.NewDeleteTopic(TopicName(op.Topic))
		err := w.run(a)
		res.Err, res.Resp = err, errClass(err)
		if r, ok := a.Results(); ok && err == nil {
			res.Resp = fmt.Sprintf("ok:%d", r.NumDeleted)
		}
		return hdr("delete_topic") + " name=" + Enc(TopicName(op.Topic))
	case "create_sub":
		c := op.Cfg
		p := actions.CreateSubscriptionParams{
			TopicName: TopicName(c.Topic), Name: SubName(op.Sub), TTL: time.Duration(c.TTL), MessageTTL: time.Duration(c.MTTL),
			OrderedDelivery: c.Ordered, Labels: c.Labels, PushEndpoint: c.Push, MinBackoff: time.Duration(c.MinB),
			MaxBackoff: time.Duration(c.MaxB), Filter: c.Filter, MaxDeliveryAttempts: c.MaxAtt, DeadLetterTopic: TopicName(c.DLT),
		}
		a := actions.NewCreateSubscription(p)
		err := w.run(a)
		res.Err, res.Resp = err, errClass(err)
		id := uuid.Nil
		if r, ok := a.Results(); ok && err == nil {
			id = r.ID
			w.SubIDs = append(w.SubIDs, id)
			// the creation wakes the (not yet registered) waiters of the new id
			res.Wakes = append(res.Wakes, id)
		}
		return hdr("create_sub") + fmt.Sprintf(" name=%s topic=%s ttl=%d mttl=%d ordered=%s labels=%s push=%s minb=%d maxb=%d filter=%s maxatt=%d dlt=%s id=%s",
			Enc(p.Name), Enc(p.TopicName), c.TTL, c.MTTL, boolStr(c.Ordered), MapStr(c.Labels), Enc(c.Push), c.MinB, c.MaxB, Enc(c.Filter), c.MaxAtt, Enc(p.DeadLetterTopic), IdStr(id))
	case "delete_sub":
		a := actions.NewDeleteSubscription(SubName(op.Sub))
		err := w.run(a)
		res.Err, res.Resp = err, errClass(err)
		if r, ok := a.Results(); ok && err == nil {
			res.Resp = fmt.Sprintf("ok:%d", r.NumDeleted)
		}
		return hdr("delete_sub") + " name=" + Enc(SubName(op.Sub))
	case "publish":
		return w.execPublish(op, res, hdr)
	case "pull":
		return w.execPull(op, res, hdr)
	case "ack", "nack", "delay":
		ids := make([]uuid.UUID, 0, len(op.Refs)+op.Garbage)
		for _, r := range op.Refs {
			if id := w.Resolve(r); id != uuid.Nil {
				ids = append(ids, id)
			}
		}
		for i := 0; i < op.Garbage; i++ {
			ids = append(ids, garbageID(w.Seed, len(w.Lines)+i))
		}
		res.Ids = append([]uuid.UUID(nil), ids...)
		idField := " ids=" + IdList(ids)
		if op.Via == "handler" && op.K != "nack" {
			strs := make([]string, len(ids))
			for i, id := range ids {
				strs[i] = id.String()
			}
			subName := "projects/p/subscriptions/any"
			if op.K == "ack" {
				_, err := w.Api().Sub.Acknowledge(w.Ctx, &pubsubpb.AcknowledgeRequest{Subscription: subName, AckIds: strs})
				res.Err, res.Resp = err, grpcErrClass(err)
				if err == nil {
					seen := map[uuid.UUID]bool{}
					cnt := 0
					for _, id := range ids {
						if b := res.Before[id]; b != nil && b.CompletedAt == nil && !seen[id] {
							seen[id] = true
							cnt++
						}
					}
					res.Resp = fmt.Sprintf("ok:%d", cnt)
				}
				return hdr("ack") + idField
			}
			secs := op.D / Sec
			_, err := w.Api().Sub.ModifyAckDeadline(w.Ctx, &pubsubpb.ModifyAckDeadlineRequest{Subscription: subName, AckIds: strs, AckDeadlineSeconds: int32(secs)})
			res.Err, res.Resp = err, grpcErrClass(err)
			if err == nil {
				seen := map[uuid.UUID]bool{}
				cnt := 0
				for _, id := range ids {
					b := res.Before[id]
					if b == nil || b.CompletedAt != nil || seen[id] {
						continue
					}
					if secs <= 0 || ns(b.AttemptAt) < t+secs*Sec {
						seen[id] = true
						cnt++
					}
				}
				res.Resp = fmt.Sprintf("ok:%d", cnt)
			}
			return hdr("delay") + idField + fmt.Sprintf(" d=%d", secs*Sec)
		}
		switch op.K {
		case "ack":
			a := actions.NewAckDeliveries(append([]uuid.UUID(nil), ids...)...)
			err := w.run(a)
			res.Err, res.Resp = err, errClass(err)
			if r, ok := a.Results(); ok && err == nil {
				res.Resp = fmt.Sprintf("ok:%d", r.NumAcked)
			}
			return hdr("ack") + idField
		case "nack":
			a := actions.NewNackDeliveries(append([]uuid.UUID(nil), ids...)...)
			err := w.run(a)
			res.Err, res.Resp = err, errClass(err)
			if r, ok := a.Results(); ok && err == nil {
				res.Resp = fmt.Sprintf("ok:%d,%d", r.NumNacked, r.NumDeadLettered)
				res.NumDL = r.NumDeadLettered
			}
			return hdr("nack") + idField
		default:
			a := actions.NewDelayDeliveries(actions.DelayDeliveriesParams{IDs: append([]uuid.UUID(nil), ids...), Delay: time.Duration(op.D)})
			err := w.run(a)
			res.Err, res.Resp = err, errClass(err)
			if r, ok := a.Results(); ok && err == nil {
				res.Resp = fmt.Sprintf("ok:%d", r.NumDelayed)
			}
			return hdr("delay") + idField + fmt.Sprintf(" d=%d", op.D)
		}
	case "stream_acknack":
		// what MessageStreamer.doAcksNacks does: ack and nack in one transaction
		var ackIDs, nackIDs []uuid.UUID
		for _, r := range op.Refs {
			if id := w.Resolve(r); id != uuid.Nil {
				ackIDs = append(ackIDs, id)
			}
		}
		for _, r := range op.Refs2 {
			if id := w.Resolve(r); id != uuid.Nil {
				nackIDs = append(nackIDs, id)
			}
		}
		res.Ids = append(append([]uuid.UUID(nil), ackIDs...), nackIDs...)
		ack := actions.NewAckDeliveries(append([]uuid.UUID(nil), ackIDs...)...)
		nack := actions.NewNackDeliveries(append([]uuid.UUID(nil), nackIDs...)...)
		err := w.Client.DoTx(w.Ctx, nil, func(tx *ent.Tx) error {
			if err := ack.Execute(w.Ctx, tx); err != nil {
				return err
			}
			return nack.Execute(w.Ctx, tx)
		})
		res.Err, res.Resp = err, errClass(err)
		// modelled as two steps (ack, then nack) at the same instant: emit the ack line here, the nack line is returned
		if err == nil {
			ar, _ := ack.Results()
			nr, _ := nack.Results()
			w.Lines = append(w.Lines, hdr("ack")+" ids="+IdList(ackIDs)+fmt.Sprintf(" exp=ok:%d", ar.NumAcked))
			res.Resp = fmt.Sprintf("ok:%d,%d", nr.NumNacked, nr.NumDeadLettered)
			res.NumDL = nr.NumDeadLettered
			res.Ids = nackIDs
		}
		op.K = "nack"
		res.Op.K = "nack"
		res.NoWk = true
		return hdr("nack") + " ids=" + IdList(nackIDs)
	case "dl_sweep":
		a := actions.NewDeadLetterDeliveries(actions.DeadLetterDeliveriesParams{MaxDeliveries: op.Max})
		err := w.run(a)
		res.Err, res.Resp = err, errClass(err)
		if r, ok := a.Results(); ok && err == nil {
			res.Resp = fmt.Sprintf("ok:%d", r.NumDeadLettered)
			res.NumDL = r.NumDeadLettered
		}
		victims := firstQueryCol0(w.Ctl.peek(), func(s string) bool { return strings.Contains(s, "FROM `deliveries`") })
		res.Ids = victims
		return hdr("dl_sweep") + fmt.Sprintf(" max=%d victims=%s", op.Max, IdList(victims))
	case "seek_time":
		// op.D is the target instant in ns since the epoch
		if op.Via == "handler" {
			// through the gRPC Seek handler; the counts are read off the tables afterwards (finishLine)
			_, err := w.Api().Sub.Seek(w.Ctx, &pubsubpb.SeekRequest{Subscription: SubName(op.Sub),
				Target: &pubsubpb.SeekRequest_Time{Time: timestamppb.New(Epoch.Add(time.Duration(op.D)))}})
			res.Err, res.Resp = err, grpcErrClass(err)
			return hdr("seek_time") + fmt.Sprintf(" sub=%s time=%d", Enc(SubName(op.Sub)), op.D)
		}
		a := actions.NewSeekSubscriptionToTime(actions.SeekSubscriptionToTimeParams{Name: SubName(op.Sub), Time: Epoch.Add(time.Duration(op.D))})
		err := w.run(a)
		res.Err, res.Resp = err, errClass(err)
		if r, ok := a.Results(); ok && err == nil {
			res.Resp = fmt.Sprintf("ok:%d,%d", r.NumAcked, r.NumDeAcked)
		}
		return hdr("seek_time") + fmt.Sprintf(" sub=%s time=%d", Enc(SubName(op.Sub)), op.D)
	case "seek_snap":
		if op.Via == "handler" {
			_, err := w.Api().Sub.Seek(w.Ctx, &pubsubpb.SeekRequest{Subscription: SubName(op.Sub),
				Target: &pubsubpb.SeekRequest_Snapshot{Snapshot: SnapName(op.Snap)}})
			res.Err, res.Resp = err, grpcErrClass(err)
			return hdr("seek_snap") + fmt.Sprintf(" sub=%s snap=%s", Enc(SubName(op.Sub)), Enc(SnapName(op.Snap)))
		}
		a := actions.NewSeekSubscriptionToSnapshot(actions.SeekSubscriptionToSnapshotParams{SubscriptionName: SubName(op.Sub), SnapshotName: SnapName(op.Snap)})
		err := w.run(a)
		res.Err, res.Resp = err, errClass(err)
		if r, ok := a.Results(); ok && err == nil {
			res.Resp = fmt.Sprintf("ok:%d,%d", r.NumAcked, r.NumDeAcked)
		}
		return hdr("seek_snap") + fmt.Sprintf(" sub=%s snap=%s", Enc(SubName(op.Sub)), Enc(SnapName(op.Snap)))
	case "delete_snap":
		// there is no action for this: the gRPC handler deletes the row itself, so the handler is what runs
		_, err := w.Api().Sub.DeleteSnapshot(w.Ctx, &pubsubpb.DeleteSnapshotRequest{Snapshot: SnapName(op.Snap)})
		res.Err, res.Resp = err, grpcErrClass(err)
		return hdr("delete_snap") + " name=" + Enc(SnapName(op.Snap))
	case "set_delay":
		// through the real controller (controllers/delay-injector.go): PUT /delays/<subscription>, and for a
		// delay of 0 in every other call DELETE /delays/<subscription>
		w.nSetDelay++
		code, body, err := putDelay(w.Client, SubName(op.Sub), op.D, w.nSetDelay%2 == 0)
		switch {
		case err != nil:
		case code == 404:
			err = actions.ErrNotFound
		case code != 200 && code != 204:
			err = fmt.Errorf("delay injector answered %d: %s", code, body)
		}
		res.Err, res.Resp = err, errClass(err)
		return hdr("set_delay") + fmt.Sprintf(" sub=%s d=%d", Enc(SubName(op.Sub)), op.D)
	case "snapshot":
		a := actions.NewCreateSnapshot(actions.CreateSnapshotParams{SubscriptionName: SubName(op.Sub), Name: SnapName(op.Snap), Labels: op.Labels})
		err := w.run(a)
		res.Err, res.Resp = err, errClass(err)
		id := uuid.Nil
		if r, ok := a.Results(); ok && err == nil {
			id = r.SnapshotID
		}
		return hdr("snapshot") + fmt.Sprintf(" name=%s sub=%s labels=%s id=%s", Enc(SnapName(op.Snap)), Enc(SubName(op.Sub)), MapStr(op.Labels), IdStr(id))
	case "expire_subs", "prune_completed_deliveries", "prune_expired_deliveries", "prune_completed_messages",
		"prune_deleted_sub_deliveries", "prune_deleted_subs", "prune_deleted_topics":
		pp := actions.PruneCommonParams{MinAge: time.Duration(op.D), MaxDelete: op.Max}
		var a interface {
			Execute(context.Context, *ent.Tx) error
			Results() (actions.PruneCommonResults, bool)
		}
		table := "`deliveries`"
		switch op.K {
		case "expire_subs":
			a, table = actions.NewDeleteExpiredSubscriptions(pp), "`subscriptions`"
		case "prune_completed_deliveries":
			a = actions.NewPruneCompletedDeliveries(pp)
		case "prune_expired_deliveries":
			a = actions.NewPruneExpiredDeliveries(pp)
		case "prune_completed_messages":
			a, table = actions.NewPruneCompletedMessages(pp), "`messages`"
		case "prune_deleted_sub_deliveries":
			a = actions.NewPruneDeletedSubscriptionDeliveries(pp)
		case "prune_deleted_subs":
			a, table = actions.NewPruneDeletedSubscriptions(pp), "`subscriptions`"
		case "prune_deleted_topics":
			a, table = actions.NewPruneDeletedTopics(pp), "`topics`"
		}
		// the action the *registered* maintenance service of that name runs (the deployed wiring)
		svcName := map[string]string{"expire_subs": "delete-expired-subscriptions", "prune_completed_deliveries": "prune-completed-deliveries",
			"prune_expired_deliveries": "prune-expired-deliveries", "prune_completed_messages": "prune-completed-messages",
			"prune_deleted_sub_deliveries": "prune-deleted-subscription-deliveries", "prune_deleted_subs": "prune-deleted-subscriptions",
			"prune_deleted_topics": "prune-deleted-topics"}[op.K]
		if reg := services.PruneActionForVerif(svcName, pp); reg != nil {
			a = reg
		} else {
			res.Err, res.Resp = fmt.Errorf("no maintenance service %q is registered", svcName), "E:unregistered"
			return hdr(op.K) + fmt.Sprintf(" max=%d victims=", op.Max)
		}
		// one round the way the service runs it: its own BEGIN / COMMIT / ROLLBACK around the action
		// (in the cancel-before-commit mode of the fault runs the harness's own closure is used instead)
		var err error
		if w.preCommit == nil {
			var n int
			n, err, _ = services.PruneRunOnceForVerif(w.Ctx, svcName, pp, w.Client)
			res.Err, res.Resp = err, errClass(err)
			if err == nil {
				res.Resp = fmt.Sprintf("ok:%d", n)
			}
		} else {
			err = w.run(a)
			res.Err, res.Resp = err, errClass(err)
			if r, ok := a.Results(); ok && err == nil {
				res.Resp = fmt.Sprintf("ok:%d", r.NumDeleted)
			}
		}
		victims := firstQueryCol0(w.Ctl.peek(), func(s string) bool { return strings.Contains(s, "FROM "+table) })
		f := hdr(op.K) + fmt.Sprintf(" max=%d victims=%s", op.Max, IdList(victims))
		if op.K != "expire_subs" && op.K != "prune_expired_deliveries" {
			f += fmt.Sprintf(" minage=%d", op.D)
		}
		return f
	}
	w.T.Fatalf("unknown op %q", op.K)
	return ""
}

func (w *World) execPublish(op Op, res *Result, hdr func(string) string) string {
	topicName := TopicName(op.Topic)
	var ids []uuid.UUID
	var err error
	if op.Via == "handler" {
		req := &pubsubpb.PublishRequest{Topic: topicName}
		for _, m := range op.Msgs {
			req.Messages = append(req.Messages, &pubsubpb.PubsubMessage{Data: payloadOf(m), Attributes: m.Attrs, OrderingKey: m.Key})
		}
		var resp *pubsubpb.PublishResponse
		resp, err = w.Api().Pub.Publish(w.Ctx, req)
		if err == nil {
			for _, s := range resp.MessageIds {
				u, _ := uuid.Parse(s)
				ids = append(ids, u)
			}
		}
	} else {
		// mirror of publisherServer.Publish: one transaction for the whole batch
		err = w.Client.DoTx(w.Ctx, nil, func(tx *ent.Tx) error {
			for _, m := range op.Msgs {
				a := actions.NewPublishMessage(actions.PublishMessageParams{
					TopicName: topicName, Payload: payloadOf(m), Attributes: m.Attrs, OrderKey: m.Key,
				})
				if err := a.Execute(w.Ctx, tx); err != nil {
					return err
				}
				r, _ := a.Results()
				ids = append(ids, r.ID)
			}
			if w.preCommit != nil {
				w.preCommit()
			}
			return nil
		})
	}
	res.Err, res.Resp = err, errClass(err)
	if op.Via == "handler" {
		res.Resp = grpcErrClass(err)
	}
	if err != nil {
		ids = nil
	}
	res.MsgIDs = ids
	// msg lines
	for i, id := range ids {
		m, merr := w.Client.Message.Query().Where(message.ID(id)).Only(qctx)
		if merr != nil {
			// the publish reported success and handed out this id, but nothing is stored
			res.Lost = fmt.Sprintf("publish on %s returned message id %s but no such message is stored (%v)", op.Topic, id, merr)
			continue
		}
		ds, _ := w.Client.Delivery.Query().Where(delivery.MessageID(id)).All(qctx)
		// creation order = order of appearance in the insert statements
		order := map[uuid.UUID]int{}
		k := 0
		for _, st := range w.Ctl.peek() {
			if strings.HasPrefix(st.SQL, "INSERT INTO `deliveries`") {
				for _, s := range st.Col0 {
					if u, e := uuid.Parse(s); e == nil {
						if _, seen := order[u]; !seen {
							order[u] = k
							k++
						}
					}
				}
			}
		}
		for a := 0; a < len(ds); a++ {
			for b := a + 1; b < len(ds); b++ {
				if order[ds[b].ID] < order[ds[a].ID] {
					ds[a], ds[b] = ds[b], ds[a]
				}
			}
		}
		fws := make([]string, len(ds))
		for j, d := range ds {
			fws[j] = fwdStr(d)
		}
		w.Lines = append(w.Lines, fmt.Sprintf("msg id=%s payload=%s plen=%d attrs=%s key=%s fw=%s",
			IdStr(id), Enc(string(m.Payload)), len(m.Payload), MapStr(op.Msgs[i].Attrs), Enc(op.Msgs[i].Key), strings.Join(fws, ";")))
	}
	return hdr("publish") + fmt.Sprintf(" topic=%s tick=%d", Enc(topicName), int64(w.Ctl.tick))
}

func (w *World) execPull(op Op, res *Result, hdr func(string) string) string {
	maxBytes := op.MaxBytes
	if maxBytes == 0 {
		maxBytes = 10 * 1024 * 1024
	}
	if op.Via == "handler" {
		return w.execPullHandler(op, res, hdr)
	}
	a := actions.NewGetSubscriptionMessages(actions.GetSubscriptionMessagesParams{
		Name: SubName(op.Sub), MaxMessages: op.Max, MaxBytes: maxBytes, MaxBytesStrict: op.Strict, MaxWait: time.Nanosecond,
	})
	err := a.ExecuteClient(w.Ctx, w.Client)
	res.Err, res.Resp = err, errClass(err)
	if r, ok := a.Results(); ok && err == nil {
		parts := make([]string, len(r.Deliveries))
		for i, d := range r.Deliveries {
			parts[i] = fmt.Sprintf("%s#%d", IdStr(d.ID), d.NumAttempts)
			key := ""
			if d.OrderKey != nil {
				key = *d.OrderKey
			}
			w.noteHanded(d.ID)
			res.Delivered = append(res.Delivered, Delivered{ID: d.ID, MsgID: d.MessageID, Attempt: d.NumAttempts,
				Payload: string(d.Payload), Attrs: d.Attributes, Key: key, PubNs: ns(d.PublishedAt)})
		}
		res.NumDL = r.NumDeadLettered
		res.Resp = fmt.Sprintf("ok:%s;dl=%d", strings.Join(parts, ","), r.NumDeadLettered)
	}
	cands := firstQueryCol0(w.Ctl.peek(), func(s string) bool {
		return strings.Contains(s, "FROM `deliveries`") && strings.Contains(s, "`attempt_at` <= ?")
	})
	return hdr("pull") + fmt.Sprintf(" sub=%s max=%d maxbytes=%d strict=%s wait=1 cands=%s",
		Enc(SubName(op.Sub)), op.Max, maxBytes, boolStr(op.Strict), IdList(cands))
}

func grpcErrClass(err error) string {
	if err == nil {
		return "ok"
	}
	switch status.Code(err) {
	case codes.NotFound:
		return "E:NotFound"
	case codes.AlreadyExists:
		return "E:AlreadyExists"
	case codes.InvalidArgument:
		return "E:InvalidArgument"
	}
	return "E:Other:" + Enc(err.Error())
}

// execPullHandler: the unary Pull handler (ReturnImmediately) — same line format as the action-level pull
func (w *World) execPullHandler(op Op, res *Result, hdr func(string) string) string {
	resp, err := w.Api().Sub.Pull(w.Ctx, &pubsubpb.PullRequest{Subscription: SubName(op.Sub), MaxMessages: int32(op.Max), ReturnImmediately: true})
	res.Err, res.Resp = err, grpcErrClass(err)
	if err == nil {
		parts := make([]string, len(resp.ReceivedMessages))
		for i, rm := range resp.ReceivedMessages {
			id, _ := uuid.Parse(rm.AckId)
			mid, _ := uuid.Parse(rm.Message.MessageId)
			parts[i] = fmt.Sprintf("%s#%d", IdStr(id), rm.DeliveryAttempt)
			w.noteHanded(id)
			res.Delivered = append(res.Delivered, Delivered{ID: id, MsgID: mid, Attempt: int(rm.DeliveryAttempt), Payload: string(rm.Message.Data),
				Attrs: rm.Message.Attributes, Key: rm.Message.OrderingKey, PubNs: ns(rm.Message.PublishTime.AsTime())})
		}
		// the handler does not report dead-letterings; count the source rows retired by this call
		ndl := 0
		for _, st := range w.Ctl.peek() {
			if st.Kind == "exec" && strings.HasPrefix(st.SQL, "UPDATE `deliveries`") && strings.Contains(st.SQL, "`completed_at` = ?") {
				ndl++
			}
		}
		res.NumDL = ndl
		res.Resp = fmt.Sprintf("ok:%s;dl=%d", strings.Join(parts, ","), ndl)
	}
	cands := firstQueryCol0(w.Ctl.peek(), func(s string) bool {
		return strings.Contains(s, "FROM `deliveries`") && strings.Contains(s, "`attempt_at` <= ?")
	})
	return hdr("pull") + fmt.Sprintf(" sub=%s max=%d maxbytes=%d strict=false wait=1 cands=%s",
		Enc(SubName(op.Sub)), op.Max, 10*1024*1024, IdList(cands))
}
