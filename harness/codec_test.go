package harness

import (
	"fmt"
	"math/rand"
	"strconv"
	"time"

	"go.6river.tech/mmmbbb/internal/sqltypes"
)

// codecSweep checks the stored-duration codec against its specification.
func codecSweep(st *Stats, violate func(sig, what string, rpcs []Rpc), thorough bool) int {
	n := 0
	check := func(d int64) bool {
		n++
		v, err := sqltypes.Interval(d).Value()
		if err != nil {
			violate("codec", fmt.Sprintf("Interval(%d).Value() failed: %v", d, err), nil)
			return false
		}
		var back sqltypes.Interval
		if err := back.Scan(v); err != nil || int64(back) != d {
			violate("codec", fmt.Sprintf("duration %d ns is stored as %q and read back as %d (err %v)", d, v, int64(back), err), nil)
			return false
		}
		js, _ := sqltypes.Interval(d).MarshalJSON()
		var viaJSON sqltypes.Interval
		if err := viaJSON.UnmarshalJSON(js); err != nil || int64(viaJSON) != d {
			violate("codec", fmt.Sprintf("duration %d ns JSON-encoded as %s decodes to %d (err %v)", d, js, int64(viaJSON), err), nil)
			return false
		}
		return true
	}
	p := int64(1)
	for i := 0; i < 19; i++ {
		for _, d := range []int64{p - 1, p, p + 1, -p, 3 * p, 7*p + 1} {
			if !check(d) {
				return n
			}
		}
		if p < 9e17 {
			p *= 10
		}
	}
	for _, u := range []int64{1000, 1e6, 1e9, 60e9, 3600e9, 24 * 3600e9} {
		for _, k := range []int64{1, 2, 59, 60, 61, 999, 1000, 1001} {
			for _, d := range []int64{u*k - 1, u * k, u*k + 1} {
				if !check(d) {
					return n
				}
			}
		}
	}
	r := rand.New(rand.NewSource(Seed()))
	random := 20000
	if thorough {
		random = 200000
	}
	for i := 0; i < random; i++ {
		d := r.Int63()
		if i%2 == 0 {
			d >>= uint(r.Intn(63))
		}
		if i%7 == 0 {
			d = -d
		}
		if !check(d) {
			return n
		}
	}
	// PostgreSQL-style strings
	for i := 0; i < random/10; i++ {
		y, mon, dd := int64(r.Intn(200)), int64(r.Intn(12)), int64(r.Intn(31))
		h, m, s := int64(r.Intn(100)), int64(r.Intn(60)), int64(r.Intn(60))
		if i%3 == 1 {
			// PostgreSQL prints intervals of more than 99 hours with as many hour digits as it takes (720:00:00 = 30 days)
			h = int64(100 + r.Intn(100000))
		}
		digits := r.Intn(11)
		frac := ""
		var fracNs int64
		if digits > 0 {
			for k := 0; k < digits; k++ {
				frac += fmt.Sprint(r.Intn(10))
			}
			if digits <= 9 {
				v, _ := strconv.ParseInt(frac, 10, 64)
				scale := int64(1e9)
				for k := 0; k < digits; k++ {
					scale /= 10
				}
				fracNs = v * scale
			}
		}
		text := ""
		if y > 0 || i%3 == 0 {
			text += fmt.Sprintf("%d year%s ", y, map[bool]string{true: "s", false: ""}[y != 1])
		}
		if mon > 0 {
			text += fmt.Sprintf("%d mon%s ", mon, map[bool]string{true: "s", false: ""}[mon != 1])
		}
		if dd > 0 {
			text += fmt.Sprintf("%d day%s ", dd, map[bool]string{true: "s", false: ""}[dd != 1])
		}
		if !(y > 0 || i%3 == 0) {
			y = 0
		}
		text += fmt.Sprintf("%02d:%02d:%02d", h, m, s)
		if digits > 0 {
			text += "." + frac
		}
		n++
		got, err := sqltypes.ParsePostgreSQLInterval(text)
		want := time.Duration(y)*365*24*time.Hour + time.Duration(mon)*30*24*time.Hour + time.Duration(dd)*24*time.Hour +
			time.Duration(h)*time.Hour + time.Duration(m)*time.Minute + time.Duration(s)*time.Second + time.Duration(fracNs)
		if digits > 9 {
			if err == nil {
				violate("pg-interval", fmt.Sprintf("%q has more than nanosecond resolution but was accepted as %v", text, got), nil)
				return n
			}
			continue
		}
		if err != nil || got != want {
			violate("pg-interval", fmt.Sprintf("PostgreSQL interval %q parsed as %v (err %v), expected %v", text, got, err, want), nil)
			return n
		}
	}
	st.Count("codec_cases", n)
	return n
}
