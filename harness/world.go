package harness

import (
	"context"
	"database/sql"
	"fmt"
	"math/rand"
	"path"
	"sort"
	"strings"
	"testing"
	"testing/synctest"
	"time"

	entsql "entgo.io/ent/dialect/sql"
	"github.com/google/uuid"

	"go.6river.tech/mmmbbb/actions"
	mdb "go.6river.tech/mmmbbb/db"
	"go.6river.tech/mmmbbb/ent"
	_ "go.6river.tech/mmmbbb/ent/runtime"
)

// World is one database + virtual clock inside a synctest bubble.
type World struct {
	T      *testing.T
	Ctx    context.Context
	Client *ent.Client
	Ctl    *Ctl
	Lines  []string // line-protocol trace of this history
	// every subscription id ever created (awaiters are registered for all of them)
	SubIDs []uuid.UUID
	Seed   int64
	// deliveries as of the last dump (the next operation's "before" state)
	lastDels   map[uuid.UUID]*ent.Delivery
	lastSubs   map[uuid.UUID]*ent.Subscription
	lastMsgs   map[uuid.UUID]*ent.Message
	lastTopics map[uuid.UUID]*ent.Topic
	lastDump   string
	cancelBase context.CancelFunc
	nSetDelay  int
	// delivery ids handed to a client by a pull (the only ids a client can name)
	handed map[uuid.UUID]bool
	// fault runs: called between an operation's last statement and its COMMIT
	preCommit func()
	faultMode bool
	api       *ApiWorld
}

// Api returns the handler-level view of this world.
func (w *World) Api() *ApiWorld {
	if w.api == nil {
		w.api = NewApiWorld(w)
	}
	return w.api
}

// NewWorld must be called inside a synctest bubble.
func NewWorld(t *testing.T, seed int64) *World {
	uuid.SetRand(rand.New(rand.NewSource(seed*7919 + 17)))
	ctl := NewCtl()
	dsn := mdb.SQLiteDSN(path.Join(t.TempDir(), "v"), true, false) + "&_sync=0"
	db := sql.OpenDB(&Connector{DSN: dsn, C: ctl})
	db.SetMaxOpenConns(8)
	db.SetMaxIdleConns(8)
	client := ent.NewClient(ent.Driver(entsql.OpenDB("sqlite3", db)))
	if err := mdb.MigrateUpEnt(t.Context(), client.Schema); err != nil {
		t.Fatalf("migrate: %v", err)
	}
	baseCtx, baseCancel := context.WithCancel(context.Background())
	w := &World{T: t, Ctx: baseCtx, cancelBase: baseCancel, Client: client, Ctl: ctl, Seed: seed}
	w.Lines = append(w.Lines, "reset")
	return w
}

func (w *World) Close() {
	// (a transaction an operation left open is rolled back by database/sql when its context ends; without
	// this its watcher goroutine would still be blocked when the bubble ends)
	if w.cancelBase != nil {
		w.cancelBase()
		synctest.Wait()
	}
	w.Client.Close()
	uuid.SetRand(nil)
	actions.WakeAllInternal()
}

func (w *World) Now() int64 { return ns(time.Now()) }

func boolStr(b bool) string {
	if b {
		return "true"
	}
	return "false"
}

func i64Opt[T ~int64](p *T) string {
	if p == nil {
		return "-"
	}
	return fmt.Sprint(int64(*p))
}

// Dump renders the five tables in the canonical form of Mmmbbb.Codec.dump.
func (w *World) Dump() string {
	ctx := qctx
	c := w.Client
	var sb strings.Builder
	ts, err := c.Topic.Query().All(ctx)
	if err != nil {
		w.T.Fatalf("dump: %v", err)
	}
	sort.Slice(ts, func(i, j int) bool { return idLess(ts[i].ID, ts[j].ID) })
	w.lastTopics = make(map[uuid.UUID]*ent.Topic, len(ts))
	for _, t := range ts {
		w.lastTopics[t.ID] = t
	}
	sb.WriteString("T:")
	for i, t := range ts {
		if i > 0 {
			sb.WriteByte(';')
		}
		fmt.Fprintf(&sb, "id=%s,name=%s,created=%d,deleted=%s,live=%s,labels=%s",
			IdStr(t.ID), Enc(t.Name), ns(t.CreatedAt), nsOpt(t.DeletedAt), boolStr(t.Live != nil && *t.Live), MapStr(t.Labels))
	}
	ss, err := c.Subscription.Query().All(ctx)
	if err != nil {
		w.T.Fatalf("dump: %v", err)
	}
	sort.Slice(ss, func(i, j int) bool { return idLess(ss[i].ID, ss[j].ID) })
	w.lastSubs = make(map[uuid.UUID]*ent.Subscription, len(ss))
	for _, x := range ss {
		w.lastSubs[x.ID] = x
	}
	sb.WriteString("|S:")
	for i, s := range ss {
		if i > 0 {
			sb.WriteByte(';')
		}
		maxatt := "-"
		if s.MaxDeliveryAttempts != nil {
			maxatt = fmt.Sprint(*s.MaxDeliveryAttempts)
		}
		fmt.Fprintf(&sb, "id=%s,topic=%s,name=%s,created=%d,expires=%d,deleted=%s,live=%s,ttl=%d,mttl=%d,ordered=%s,labels=%s,minb=%s,maxb=%s,push=%s,filter=%s,maxatt=%s,dlt=%s,delay=%d",
			IdStr(s.ID), IdStr(s.TopicID), Enc(s.Name), ns(s.CreatedAt), ns(s.ExpiresAt), nsOpt(s.DeletedAt),
			boolStr(s.Live != nil && *s.Live), int64(s.TTL), int64(s.MessageTTL), boolStr(s.OrderedDelivery), MapStr(s.Labels),
			i64Opt(s.MinBackoff), i64Opt(s.MaxBackoff), EncOpt(s.PushEndpoint), EncOpt(s.MessageFilter), maxatt,
			IdOpt(s.DeadLetterTopicID), int64(s.DeliveryDelay))
	}
	ms, err := c.Message.Query().All(ctx)
	if err != nil {
		w.T.Fatalf("dump: %v", err)
	}
	sort.Slice(ms, func(i, j int) bool { return idLess(ms[i].ID, ms[j].ID) })
	w.lastMsgs = make(map[uuid.UUID]*ent.Message, len(ms))
	for _, x := range ms {
		w.lastMsgs[x.ID] = x
	}
	sb.WriteString("|M:")
	for i, m := range ms {
		if i > 0 {
			sb.WriteByte(';')
		}
		fmt.Fprintf(&sb, "id=%s,topic=%s,payload=%s,plen=%d,attrs=%s,pub=%d,key=%s",
			IdStr(m.ID), IdStr(m.TopicID), Enc(string(m.Payload)), len(m.Payload), MapStr(m.Attributes), ns(m.PublishedAt), EncOpt(m.OrderKey))
	}
	ds, err := c.Delivery.Query().All(ctx)
	if err != nil {
		w.T.Fatalf("dump: %v", err)
	}
	w.lastDels = make(map[uuid.UUID]*ent.Delivery, len(ds))
	for _, d := range ds {
		w.lastDels[d.ID] = d
	}
	sort.Slice(ds, func(i, j int) bool { return idLess(ds[i].ID, ds[j].ID) })
	sb.WriteString("|D:")
	for i, d := range ds {
		if i > 0 {
			sb.WriteByte(';')
		}
		nb := d.NotBeforeID
		fmt.Fprintf(&sb, "id=%s,msg=%s,sub=%s,pub=%d,at=%d,last=%s,attempts=%d,completed=%s,expires=%d,nb=%s",
			IdStr(d.ID), IdStr(d.MessageID), IdStr(d.SubscriptionID), ns(d.PublishedAt), ns(d.AttemptAt), nsOpt(d.LastAttemptedAt),
			d.Attempts, nsOpt(d.CompletedAt), ns(d.ExpiresAt), IdOpt(&nb))
	}
	sn, err := c.Snapshot.Query().All(ctx)
	if err != nil {
		w.T.Fatalf("dump: %v", err)
	}
	sort.Slice(sn, func(i, j int) bool { return idLess(sn[i].ID, sn[j].ID) })
	sb.WriteString("|N:")
	for i, s := range sn {
		if i > 0 {
			sb.WriteByte(';')
		}
		fmt.Fprintf(&sb, "id=%s,topic=%s,name=%s,created=%d,expires=%d,labels=%s,before=%d,acked=%s",
			IdStr(s.ID), IdStr(s.TopicID), Enc(s.Name), ns(s.CreatedAt), ns(s.ExpiresAt), MapStr(s.Labels), ns(s.AckedMessagesBefore), IdList(sortIDs(s.AckedMessageIDs)))
	}
	w.lastDump = sb.String()
	return w.lastDump
}
