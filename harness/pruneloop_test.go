package harness

import (
	"context"
	"encoding/json"
	"fmt"
	"os"
	"testing"
	"testing/synctest"
	"time"

	"go.6river.tech/mmmbbb/ent/delivery"
	"go.6river.tech/mmmbbb/services"
)

// pruneServiceLoop runs the registered prune-completed-deliveries service the way the server does
// (Initialize, Start: its own timer loop, default settings: rounds every minute, minimum age one hour)
// on the virtual clock. "Repeated rounds of the jobs reclaim all of it: no job stays stuck" — also
// after a round that removed a few rows (fewer than a batch), and after a round that removed none.
func pruneServiceLoop(t *testing.T, st *Stats) {
	what := ""
	synctest.Test(t, func(t *testing.T) {
		w := NewWorld(t, Seed())
		defer w.Close()
		cfg := &SubCfg{Topic: "t", TTL: 30 * 24 * 3600 * Sec, MTTL: 7 * 24 * 3600 * Sec}
		w.Exec(Op{K: "create_topic", Topic: "t"})
		w.Exec(Op{K: "create_sub", Sub: "s", Cfg: cfg})
		svc := services.NewPruneServiceForVerif("prune-completed-deliveries")
		if svc == nil {
			what = "no maintenance service named prune-completed-deliveries is registered"
			return
		}
		ctx, cancel := context.WithCancel(context.Background())
		defer cancel()
		if err := svc.Initialize(ctx, w.Client); err != nil {
			what = "setup: Initialize: " + err.Error()
			return
		}
		ready := make(chan struct{})
		done := make(chan error, 1)
		go func() { done <- svc.Start(ctx, ready) }()
		<-ready
		completed := func() int {
			n, _ := w.Client.Delivery.Query().Where(delivery.CompletedAtNotNil()).Count(qctx)
			return n
		}
		for phase := 1; phase <= 3 && what == ""; phase++ {
			var msgs []MsgSpec
			var refs []Ref
			for i := 0; i < 3; i++ {
				msgs = append(msgs, MsgSpec{N: phase*10 + i})
				refs = append(refs, Ref{N: phase*10 + i, Sub: "s"})
			}
			w.Exec(Op{K: "publish", Topic: "t", Msgs: msgs})
			time.Sleep(time.Millisecond)
			if r := w.Exec(Op{K: "pull", Sub: "s", Max: 10}); len(r.Delivered) != 3 {
				what = fmt.Sprintf("setup: phase %d pull delivered %d", phase, len(r.Delivered))
				break
			}
			w.Exec(Op{K: "ack", Refs: refs})
			if completed() < 3 {
				what = fmt.Sprintf("setup: phase %d: acknowledged deliveries not completed", phase)
				break
			}
			// the minimum age (1 h) passes, then several rounds' worth of time (a round a minute)
			time.Sleep(time.Hour + 10*time.Minute)
			synctest.Wait()
			if n := completed(); n != 0 {
				what = fmt.Sprintf("phase %d: %d deliveries acknowledged 70 minutes ago are still stored although the prune-completed-deliveries service (a round every minute, minimum age one hour) has been running all the time; in the phases before, its rounds removed the rows of those phases", phase, n)
			}
		}
		cancel()
		synctest.Wait()
	})
	st.Count("prune_service_loop_cases", 1)
	if what != "" {
		p := ReplayPath(fmt.Sprintf("C15-service-loop-%d.json", Seed()))
		b, _ := json.MarshalIndent(map[string]interface{}{"property": "C15", "sig": "service-loop-stuck", "seed": Seed(), "what": what,
			"history": []string{"registered service prune-completed-deliveries: Initialize, Start (default settings)", "three phases: publish 3, pull, acknowledge, 70 minutes pass", "after every phase no acknowledged delivery may be left"}}, "", " ")
		os.WriteFile(p, b, 0o644)
		st.Violate(Violation{What: "[service-loop-stuck] " + what, Replay: p, FoundInput: true, Sig: "service-loop-stuck"})
	}
}
