package harness

import (
	"context"
	"encoding/json"
	"fmt"
	"os"
	"strings"
	"testing"
	"testing/synctest"
	"time"

	"github.com/google/uuid"

	"go.6river.tech/mmmbbb/ent/delivery"
	"go.6river.tech/mmmbbb/services"
)

// pruneServiceLoop runs the registered prune-completed-deliveries service the way the server does
// (Initialize, Start: its own timer loop, default settings: rounds every minute, minimum age one hour)
// on the virtual clock. "Repeated rounds of the jobs reclaim all of it: no job stays stuck" — also
// after a round that removed a few rows (fewer than a batch), and after a round that removed none.
func pruneServiceLoop(t *testing.T, st *Stats) {
	what := ""
	synctest.Test(t, func(t *testing.T) {
		w := NewWorld(t, Seed())
		defer w.Close()
		cfg := &SubCfg{Topic: "t", TTL: 30 * 24 * 3600 * Sec, MTTL: 7 * 24 * 3600 * Sec}
		w.Exec(Op{K: "create_topic", Topic: "t"})
		w.Exec(Op{K: "create_sub", Sub: "s", Cfg: cfg})
		svc := services.NewPruneServiceForVerif("prune-completed-deliveries")
		if svc == nil {
			what = "no maintenance service named prune-completed-deliveries is registered"
			return
		}
		ctx, cancel := context.WithCancel(context.Background())
		defer cancel()
		if err := svc.Initialize(ctx, w.Client); err != nil {
			what = "setup: Initialize: " + err.Error()
			return
		}
		ready := make(chan struct{})
		done := make(chan error, 1)
		go func() { done <- svc.Start(ctx, ready) }()
		<-ready
		completed := func() int {
			n, _ := w.Client.Delivery.Query().Where(delivery.CompletedAtNotNil()).Count(qctx)
			return n
		}
		for phase := 1; phase <= 3 && what == ""; phase++ {
			var msgs []MsgSpec
			var refs []Ref
			for i := 0; i < 3; i++ {
				msgs = append(msgs, MsgSpec{N: phase*10 + i})
				refs = append(refs, Ref{N: phase*10 + i, Sub: "s"})
			}
			w.Exec(Op{K: "publish", Topic: "t", Msgs: msgs})
			time.Sleep(time.Millisecond)
			if r := w.Exec(Op{K: "pull", Sub: "s", Max: 10}); len(r.Delivered) != 3 {
				what = fmt.Sprintf("setup: phase %d pull delivered %d", phase, len(r.Delivered))
				break
			}
			w.Exec(Op{K: "ack", Refs: refs})
			if completed() < 3 {
				what = fmt.Sprintf("setup: phase %d: acknowledged deliveries not completed", phase)
				break
			}
			// the minimum age (1 h) passes, then several rounds' worth of time (a round a minute)
			time.Sleep(time.Hour + 10*time.Minute)
			synctest.Wait()
			if n := completed(); n != 0 {
				what = fmt.Sprintf("phase %d: %d deliveries acknowledged 70 minutes ago are still stored although the prune-completed-deliveries service (a round every minute, minimum age one hour) has been running all the time; in the phases before, its rounds removed the rows of those phases", phase, n)
			}
		}
		cancel()
		synctest.Wait()
	})
	st.Count("prune_service_loop_cases", 1)
	if what != "" {
		p := ReplayPath(fmt.Sprintf("C15-service-loop-%d.json", Seed()))
		b, _ := json.MarshalIndent(map[string]interface{}{"property": "C15", "sig": "service-loop-stuck", "seed": Seed(), "what": what,
			"history": []string{"registered service prune-completed-deliveries: Initialize, Start (default settings)", "three phases: publish 3, pull, acknowledge, 70 minutes pass", "after every phase no acknowledged delivery may be left"}}, "", " ")
		os.WriteFile(p, b, 0o644)
		st.Violate(Violation{What: "[service-loop-stuck] " + what, Replay: p, FoundInput: true, Sig: "service-loop-stuck"})
	}
}

// deadLetterServiceLoop runs the registered dead-letter sweep service the way the server does
// (Initialize, Start: its own timer loop, default settings: a round a minute). A message that has used up
// its one attempt and whose lease has lapsed is retired and forwarded by the service alone — nobody
// pulls or nacks — within a few rounds; and again in a second and third phase (the loop keeps running
// after rounds that moved something and after rounds that moved nothing).
func deadLetterServiceLoop(t *testing.T, st *Stats) {
	what := ""
	synctest.Test(t, func(t *testing.T) {
		w := NewWorld(t, Seed())
		defer w.Close()
		w.Exec(Op{K: "create_topic", Topic: "t"})
		w.Exec(Op{K: "create_topic", Topic: "d"})
		w.Exec(Op{K: "create_sub", Sub: "s", Cfg: &SubCfg{Topic: "t", TTL: 30 * 24 * 3600 * Sec, MTTL: 7 * 24 * 3600 * Sec, MinB: Sec, MaxB: 2 * Sec, MaxAtt: 1, DLT: "d"}})
		w.Exec(Op{K: "create_sub", Sub: "ds", Cfg: &SubCfg{Topic: "d", TTL: 30 * 24 * 3600 * Sec, MTTL: 7 * 24 * 3600 * Sec}})
		svc := services.NewDeadLetterServiceForVerif()
		ctx, cancel := context.WithCancel(context.Background())
		defer cancel()
		if err := svc.Initialize(ctx, w.Client); err != nil {
			what = "setup: Initialize: " + err.Error()
			return
		}
		ready := make(chan struct{})
		done := make(chan error, 1)
		go func() { done <- svc.Start(ctx, ready) }()
		<-ready
		var dsID, sID uuid.UUID
		w.Dump()
		for _, row := range w.lastSubs {
			if row.Name == SubName("ds") {
				dsID = row.ID
			} else {
				sID = row.ID
			}
		}
		for phase := 1; phase <= 3 && what == ""; phase++ {
			w.Exec(Op{K: "publish", Topic: "t", Msgs: []MsgSpec{{N: phase}}})
			time.Sleep(time.Millisecond)
			if r := w.Exec(Op{K: "pull", Sub: "s", Max: 10}); len(r.Delivered) != 1 {
				what = fmt.Sprintf("setup: phase %d pull delivered %d", phase, len(r.Delivered))
				break
			}
			// the lease (about 1 s) lapses; then five minutes of the service's rounds, nobody pulls
			time.Sleep(5 * time.Minute)
			synctest.Wait()
			open, _ := w.Client.Delivery.Query().Where(delivery.SubscriptionID(sID), delivery.CompletedAtIsNil()).Count(qctx)
			fwd, _ := w.Client.Delivery.Query().Where(delivery.SubscriptionID(dsID)).Count(qctx)
			if open != 0 || fwd != phase {
				what = fmt.Sprintf("phase %d: a message that has had its one attempt and whose lease lapsed five minutes ago is still outstanding on its subscription (%d outstanding) / the dead-letter subscription holds %d deliveries (expected %d): the dead-letter sweep service (a round a minute) has been running all the time and nobody else pulls or nacks", phase, open, fwd, phase)
			}
		}
		cancel()
		synctest.Wait()
	})
	st.Count("dead_letter_service_loop_cases", 1)
	if what != "" && !strings.HasPrefix(what, "setup:") {
		p := ReplayPath(fmt.Sprintf("C06-service-loop-%d.json", Seed()))
		b, _ := json.MarshalIndent(map[string]interface{}{"property": "C06", "sig": "sweep-service-stuck", "seed": Seed(), "what": what,
			"history": []string{"subscription s (1 attempt, dead-letter topic d), subscription ds on d", "dead-letter sweep service: Initialize, Start (default settings)", "three phases: publish, Pull(s) once, five minutes pass", "after every phase the message is retired on s and forwarded to ds"}}, "", " ")
		os.WriteFile(p, b, 0o644)
		st.Violate(Violation{What: "[sweep-service-stuck] " + what, Replay: p, FoundInput: true, Sig: "sweep-service-stuck"})
	} else if what != "" {
		st.Count("dead_letter_service_setup_failed", 1)
	}
}
