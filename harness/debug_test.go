package harness

import (
	"fmt"
	"testing"
	"testing/synctest"
)

func TestDebugSweep(t *testing.T) {
	synctest.Test(t, func(t *testing.T) {
		w := NewWorld(t, 1)
		defer w.Close()
		w.Exec(Op{K: "create_topic", Topic: "t1"})
		w.Exec(Op{K: "create_topic", Topic: "d"})
		w.Exec(Op{K: "create_sub", Sub: "a", Cfg: &SubCfg{Topic: "t1", TTL: 3600 * Sec, MTTL: 600 * Sec, MaxAtt: 1, DLT: "d"}})
		w.Exec(Op{K: "create_sub", Sub: "dl", Cfg: &SubCfg{Topic: "d", TTL: 3600 * Sec, MTTL: 600 * Sec}})
		w.Exec(Op{K: "publish", Topic: "t1", Msgs: []MsgSpec{{N: 0}}})
		w.Exec(Op{K: "pull", Sub: "a", Max: 1})
		w.Exec(Op{K: "advance", D: 30 * Sec})
		r := w.Exec(Op{K: "dl_sweep", Max: 3})
		for _, s := range r.Stmts {
			fmt.Printf("%s %s %v\n", s.Kind, s.SQL, s.Args)
		}
		for _, l := range w.Lines {
			if l[:4] != "dump" {
				fmt.Println(l)
			}
		}
	})
}
