package harness

import (
	"fmt"
	"testing"
	"testing/synctest"

	"go.6river.tech/mmmbbb/grpc/pubsubpb"
	"go.6river.tech/mmmbbb/services"
)

func TestDebugList(t *testing.T) {
	synctest.Test(t, func(t *testing.T) {
		w := NewWorld(t, 1)
		defer w.Close()
		pub := services.NewPublisherServerForVerif(w.Client)
		sub := services.NewSubscriberServerForVerif(w.Client)
		for _, n := range []string{"projects/p/topics/a", "projects/P/topics/b", "projects/p1/topics/c", "projects/p_/topics/d", "projects/p%/topics/e", "projects/é/topics/f"} {
			if _, err := pub.CreateTopic(w.Ctx, &pubsubpb.Topic{Name: n}); err != nil {
				t.Fatal(err)
			}
		}
		for _, pr := range []string{"projects/p", "projects/P", "projects/p1", "projects/p_", "projects/p%", "projects/é", "projects/"} {
			r, err := pub.ListTopics(w.Ctx, &pubsubpb.ListTopicsRequest{Project: pr})
			if err != nil {
				t.Fatal(err)
			}
			var names []string
			for _, x := range r.Topics {
				names = append(names, x.Name)
			}
			fmt.Println(pr, "->", names)
		}
		if _, err := sub.CreateSubscription(w.Ctx, &pubsubpb.Subscription{Name: "projects/p/subscriptions/s", Topic: "projects/p/topics/a"}); err != nil {
			t.Fatal(err)
		}
		if _, err := sub.CreateSnapshot(w.Ctx, &pubsubpb.CreateSnapshotRequest{Name: "projects/p/snapshots/n", Subscription: "projects/p/subscriptions/s"}); err != nil {
			t.Fatal(err)
		}
		r2, err := sub.ListSnapshots(w.Ctx, &pubsubpb.ListSnapshotsRequest{Project: "projects/p"})
		fmt.Println("snapshots p:", r2, err)
		r3, err := sub.ListSubscriptions(w.Ctx, &pubsubpb.ListSubscriptionsRequest{Project: "projects/P"})
		fmt.Println("subs P:", r3, err)
	})
}
