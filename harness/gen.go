package harness

import (
	"fmt"
	"math/rand"
)

const (
	Sec = int64(1e9)
	Ms  = int64(1e6)
)

// Profile weights the operation kinds of the history generator.
type Profile struct {
	Name                                                               string
	Publish, Pull, Ack, Nack, Delay, Advance, Seek, Snap, Maint, Sweep int
	SetDelay                                                           int // change a subscription's injected delivery delay
	Update                                                             int // UpdateSubscription through the gRPC handler with a random mask
	Churn                                                              int // create/delete subscriptions and topics
	List                                                               int // first pages of the four listings, small page sizes
	NoSeek, NoDL, OrderedOnly                                          bool
	BigAdvance                                                         bool
	// Frag: only operations of the fragment on which C05 is proved outright (no seek to a snapshot, of the
	// jobs only those that expire subscriptions or delete acknowledged / expired deliveries)
	Frag bool
}

var ProfileAll = Profile{Name: "all", SetDelay: 1, Update: 1, Publish: 5, Pull: 6, Ack: 3, Nack: 2, Delay: 2, Advance: 4, Seek: 1, Snap: 1, Maint: 2, Sweep: 1, Churn: 1}

type subState struct {
	name string
	cfg  SubCfg
	live bool
}

// Gen produces operations from one PRNG; all choices derive from its state.
type Gen struct {
	R      *rand.Rand
	P      Profile
	Topics []string
	Subs   []*subState
	NextN  int
	Known  []Ref // deliveries handed out by pulls
	// publish times the server reported in pull responses (seek boundaries)
	PubTimes []int64
	Snaps    []string
	SubSeq   int
}

func NewGen(seed int64, p Profile) *Gen {
	return &Gen{R: rand.New(rand.NewSource(seed)), P: p}
}

var filters = []string{"", "", "", `attributes:z OR attributes:x OR attributes.y="ab"`, `attributes:x AND attributes:y AND NOT attributes:z`, `attributes:x`, `attributes.x="1"`, `NOT attributes:x`, `hasPrefix(attributes.y,"a")`,
	`attributes:x OR attributes.y!="b"`, `attributes:x AND (NOT attributes.y="b" OR attributes:z)`, `-attributes:"x"`}

func (g *Gen) pick(ss []string) string { return ss[g.R.Intn(len(ss))] }

// viaHandler: one operation in three goes through the gRPC handler instead of the action
func (g *Gen) viaHandler() string {
	if g.R.Intn(3) == 0 {
		return "handler"
	}
	return ""
}

func (g *Gen) randCfg(topic string, allowDL bool) SubCfg {
	c := SubCfg{Topic: topic}
	c.TTL = []int64{3600 * Sec, 24 * 3600 * Sec, 600 * Sec}[g.R.Intn(3)]
	c.MTTL = []int64{300 * Sec, 600 * Sec, 3600 * Sec, 120 * Sec}[g.R.Intn(4)]
	c.Ordered = g.R.Intn(3) == 0 || g.P.OrderedOnly
	c.Filter = g.pick(filters)
	switch g.R.Intn(5) {
	case 0:
		c.MinB = []int64{Sec, 100 * Ms, 3 * Sec}[g.R.Intn(3)]
	case 1:
		c.MaxB = []int64{30 * Sec, 12 * Sec}[g.R.Intn(2)]
	case 2:
		c.MinB, c.MaxB = 2*Sec, 5*Sec
	}
	if allowDL && !g.P.NoDL && g.R.Intn(3) == 0 {
		c.MaxAtt = []int32{1, 2, 3, 5}[g.R.Intn(4)]
		c.DLT = "d"
		if topic == "d" {
			c.DLT = "d2"
		}
	}
	if g.R.Intn(4) == 0 {
		c.Labels = map[string]string{"env": "test"}
	}
	return c
}

// Setup returns the operations that create the initial topology.
func (g *Gen) Setup() []Op {
	var ops []Op
	g.Topics = []string{"t1", "t2", "d", "d2"}
	for _, t := range g.Topics {
		ops = append(ops, Op{K: "create_topic", Topic: t})
	}
	n := 3 + g.R.Intn(3)
	for i := 0; i < n; i++ {
		topic := []string{"t1", "t1", "t2"}[g.R.Intn(3)]
		ops = append(ops, g.newSub(topic))
	}
	ops = append(ops, g.newSub("d"))
	if g.R.Intn(2) == 0 {
		ops = append(ops, g.newSub("d"))
	}
	if g.R.Intn(2) == 0 {
		ops = append(ops, g.newSub("d2"))
	}
	return ops
}

func (g *Gen) newSub(topic string) Op {
	name := fmt.Sprintf("s%d", g.SubSeq)
	g.SubSeq++
	cfg := g.randCfg(topic, topic != "d2")
	g.Subs = append(g.Subs, &subState{name: name, cfg: cfg, live: true})
	return Op{K: "create_sub", Sub: name, Cfg: &cfg}
}

func (g *Gen) liveSub() *subState {
	var ls []*subState
	for _, s := range g.Subs {
		if s.live {
			ls = append(ls, s)
		}
	}
	if len(ls) == 0 {
		return nil
	}
	return ls[g.R.Intn(len(ls))]
}

func (g *Gen) msg() MsgSpec {
	m := MsgSpec{N: g.NextN, Key: []string{"", "k1", "k2", "k1"}[g.R.Intn(4)]}
	g.NextN++
	attrs := map[string]string{}
	if x := g.R.Intn(3); x > 0 {
		attrs["x"] = fmt.Sprint(x)
	}
	if y := g.R.Intn(4); y > 0 {
		attrs["y"] = []string{"", "a1", "b", "ab"}[y]
	}
	if g.R.Intn(6) == 0 {
		attrs["z"] = ""
	}
	if len(attrs) > 0 {
		m.Attrs = attrs
	}
	if g.R.Intn(5) == 0 {
		m.Pad = g.R.Intn(200)
	} else if g.R.Intn(6) == 0 {
		// payloads whose value does not survive a decode/encode cycle, odd spacing, escapes
		m.Payload = fmt.Sprintf([]string{
			`{"n":%d,"big":12345678901234567890,"tiny":0.1000000000000000055511151231257827,"huge":1e400}`,
			`{ "n" : %d ,  "s":"\u00e9<&>\"q\"", "nested":{"a":[1,2,{"b":null}],"t":true} }`,
			`{"n":%d,"z":-0.0,"i":9007199254740993,"dup":1,"dup":2}`,
		}[g.R.Intn(3)], m.N)
	}
	return m
}

func (g *Gen) refs(n int) []Ref {
	var out []Ref
	for i := 0; i < n && len(g.Known) > 0; i++ {
		// bias towards recent
		k := len(g.Known) - 1 - g.R.Intn(min(len(g.Known), 12))
		out = append(out, g.Known[k])
	}
	return out
}

// Observe feeds a result back (pull responses make delivery ids known to the client).
func (g *Gen) Observe(res *Result, nOf func(Delivered) (int, bool)) {
	if res.Op.K == "pull" {
		for _, d := range res.Delivered {
			if n, ok := nOf(d); ok {
				g.Known = append(g.Known, Ref{N: n, Sub: res.Op.Sub})
			}
			if d.PubNs > 0 {
				g.PubTimes = append(g.PubTimes, d.PubNs)
			}
		}
	}
}

// Next draws the next operation. now is the current virtual time in ns.
func (g *Gen) Next(now int64) Op {
	p := g.P
	type choice struct {
		w int
		f func() (Op, bool)
	}
	choices := []choice{
		{p.Publish, func() (Op, bool) {
			topic := []string{"t1", "t1", "t2", "t2", "d"}[g.R.Intn(5)]
			n := 1
			if g.R.Intn(4) == 0 {
				n = 2 + g.R.Intn(2)
			}
			op := Op{K: "publish", Topic: topic}
			for i := 0; i < n; i++ {
				op.Msgs = append(op.Msgs, g.msg())
			}
			if g.R.Intn(3) == 0 {
				op.Via = "handler" // through the gRPC Publish handler instead of the action
			}
			return op, true
		}},
		{p.Pull, func() (Op, bool) {
			s := g.liveSub()
			if s == nil {
				return Op{}, false
			}
			op := Op{K: "pull", Sub: s.name, Max: 1 + g.R.Intn(4)}
			if g.R.Intn(8) == 0 {
				op.MaxBytes = 20 + g.R.Intn(200)
				op.Strict = g.R.Intn(2) == 0
			} else if g.R.Intn(3) == 0 {
				op.Via = "handler"
			}
			return op, true
		}},
		{p.Ack, func() (Op, bool) {
			if len(g.Known) == 0 {
				return Op{}, false
			}
			op := Op{K: "ack", Refs: g.refs(1 + g.R.Intn(2))}
			if g.R.Intn(4) == 0 {
				op.Garbage = 1
			}
			if g.R.Intn(3) == 0 {
				op.Via = "handler"
			}
			return op, true
		}},
		{p.Nack, func() (Op, bool) {
			if len(g.Known) == 0 {
				return Op{}, false
			}
			op := Op{K: "nack", Refs: g.refs(1 + g.R.Intn(2))}
			if g.R.Intn(6) == 0 {
				op.Garbage = 1
			}
			return op, true
		}},
		{p.Delay, func() (Op, bool) {
			if len(g.Known) == 0 {
				return Op{}, false
			}
			d := []int64{0, 0, -5 * Sec, 20 * Sec, 40 * Sec, 5 * Sec, 600 * Sec}[g.R.Intn(7)]
			op := Op{K: "delay", Refs: g.refs(1 + g.R.Intn(3)), D: d}
			if g.R.Intn(3) == 0 {
				op.Via = "handler"
			}
			if g.R.Intn(12) == 0 {
				// a request that names no id at all: it changes nothing
				op.Refs, op.Via = nil, "handler"
			}
			return op, true
		}},
		{p.Advance, func() (Op, bool) {
			d := int64(1+g.R.Intn(40)) * Sec
			switch g.R.Intn(10) {
			case 0:
				d = int64(60+g.R.Intn(300)) * Sec
			case 1:
				d = int64(1+g.R.Intn(900)) * Ms
			case 2:
				if p.BigAdvance {
					d = int64(1+g.R.Intn(30)) * 3600 * Sec
				}
			}
			if g.R.Intn(3) == 0 {
				d += int64(g.R.Intn(1000)) // off the microsecond grid
			}
			return Op{K: "advance", D: d}, true
		}},
		{p.Seek, func() (Op, bool) {
			s := g.liveSub()
			if s == nil || p.NoSeek {
				return Op{}, false
			}
			back := int64(g.R.Intn(400)) * Sec
			if g.R.Intn(5) == 0 {
				back = -int64(g.R.Intn(50)) * Sec // future
				if g.R.Intn(2) == 0 {
					back = -int64(60+g.R.Intn(7200)) * Sec // far in the future: the purge idiom
				}
			}
			t := now - back
			if len(g.PubTimes) > 0 && g.R.Intn(3) == 0 {
				// the boundary: exactly the publish time the server reported for a message, or 1 ns around it
				t = g.PubTimes[len(g.PubTimes)-1-g.R.Intn(min(len(g.PubTimes), 8))] + int64(g.R.Intn(3)-1)
			}
			if t < 0 {
				t = 0
			}
			return Op{Via: g.viaHandler(), K: "seek_time", Sub: s.name, D: t}, true
		}},
		{p.Snap, func() (Op, bool) {
			s := g.liveSub()
			if s == nil || (p.NoSeek && !p.Frag) {
				return Op{}, false
			}
			if len(g.Snaps) > 0 && g.R.Intn(2) == 0 && !p.Frag {
				return Op{Via: g.viaHandler(), K: "seek_snap", Sub: s.name, Snap: g.pick(g.Snaps)}, true
			}
			name := fmt.Sprintf("n%d", len(g.Snaps))
			if g.R.Intn(6) == 0 && len(g.Snaps) > 0 {
				name = g.pick(g.Snaps) // duplicate name
			} else {
				g.Snaps = append(g.Snaps, name)
			}
			return Op{K: "snapshot", Sub: s.name, Snap: name}, true
		}},
		{p.Maint, func() (Op, bool) {
			k := []string{"expire_subs", "prune_completed_deliveries", "prune_expired_deliveries", "prune_completed_messages",
				"prune_deleted_sub_deliveries", "prune_deleted_subs", "prune_deleted_topics"}[g.R.Intn(7)]
			if p.Frag {
				k = []string{"expire_subs", "prune_completed_deliveries", "prune_expired_deliveries"}[g.R.Intn(3)]
			}
			return Op{K: k, Max: 1 + g.R.Intn(5), D: int64(g.R.Intn(4)) * 60 * Sec}, true
		}},
		{p.Sweep, func() (Op, bool) {
			return Op{K: "dl_sweep", Max: 1 + g.R.Intn(3)}, true
		}},
		{p.Update, func() (Op, bool) {
			s := g.liveSub()
			if s == nil {
				return Op{}, false
			}
			p64 := func(v int64) *int64 { return &v }
			req := &SubReq{Name: SubName(s.name), Topic: TopicName(s.cfg.Topic), Ordering: s.cfg.Ordered}
			var mask []string
			switch g.R.Intn(6) {
			case 5:
				// the filter is replaced (or cleared): later publishes are routed by the new one
				mask = []string{"filter"}
				req.Filter = g.pick(filters)
			case 0:
				mask = []string{"retry_policy"}
				req.HasRetry = g.R.Intn(4) > 0
				if g.R.Intn(3) > 0 {
					req.RetryMin = p64([]int64{Sec, 100 * Ms, 5 * Sec}[g.R.Intn(3)])
				}
				if g.R.Intn(3) > 0 {
					req.RetryMax = p64([]int64{12 * Sec, 60 * Sec, 2 * Sec}[g.R.Intn(3)])
				}
			case 1:
				mask = []string{"dead_letter_policy"}
				if g.R.Intn(4) > 0 {
					dl := TopicName([]string{"d", "d2", "t1"}[g.R.Intn(3)])
					req.DLTopic = &dl
					req.DLMax = []int32{0, 1, 2, 3}[g.R.Intn(4)]
				}
			case 2:
				mask = []string{"expiration_policy"}
				req.Expiration = p64([]int64{3600 * Sec, 24 * 3600 * Sec, 600 * Sec}[g.R.Intn(3)])
				if g.R.Intn(4) == 0 {
					req.Expiration = nil // no policy in the request: the default TTL
				}
			case 3:
				mask = []string{"message_retention_duration"}
				req.Retention = p64([]int64{300 * Sec, 600 * Sec, 3600 * Sec, 120 * Sec}[g.R.Intn(4)])
			default:
				mask = []string{"retry_policy", "dead_letter_policy", "expiration_policy"}
				req.Expiration = p64([]int64{3600 * Sec, 1800 * Sec}[g.R.Intn(2)])
				req.HasRetry = true
				req.RetryMin = p64(2 * Sec)
				dl := TopicName("d")
				req.DLTopic = &dl
				req.DLMax = 2
			}
			return Op{K: "rpc", Rpc: &Rpc{Kind: "updateSub", Has: true, Paths: mask, Sub: req}}, true
		}},
		{p.List, func() (Op, bool) {
			size := int32(1 + g.R.Intn(3))
			switch g.R.Intn(4) {
			case 0:
				return Op{K: "rpc", Rpc: &Rpc{Kind: "listTopicSubs", Name: TopicName([]string{"t1", "t2", "d"}[g.R.Intn(3)]), Size: size}}, true
			case 1:
				return Op{K: "rpc", Rpc: &Rpc{Kind: "listSubs", Project: "projects/p", Size: size}}, true
			case 2:
				return Op{K: "rpc", Rpc: &Rpc{Kind: "listTopics", Project: "projects/p", Size: size}}, true
			default:
				return Op{K: "rpc", Rpc: &Rpc{Kind: "listSnaps", Project: "projects/p", Size: size}}, true
			}
		}},
		{p.SetDelay, func() (Op, bool) {
			s := g.liveSub()
			if g.R.Intn(4) == 0 && len(g.Subs) > 0 {
				// any subscription name the history has used, deleted ones too: the delay injector
				// answers for live subscriptions only, whether or not a deleted one's row is still stored
				s = g.Subs[g.R.Intn(len(g.Subs))]
			}
			if s == nil {
				return Op{}, false
			}
			return Op{K: "set_delay", Sub: s.name, D: []int64{0, 2 * Sec, 30 * Sec, 500 * Ms}[g.R.Intn(4)]}, true
		}},
		{p.Churn, func() (Op, bool) {
			switch g.R.Intn(6) {
			case 0, 1:
				s := g.liveSub()
				if s == nil {
					return Op{}, false
				}
				s.live = false
				return Op{K: "delete_sub", Sub: s.name}, true
			case 2, 3:
				return g.newSub([]string{"t1", "t2", "d"}[g.R.Intn(3)]), true
			case 4:
				// re-create a deleted name
				for _, s := range g.Subs {
					if !s.live {
						cfg := g.randCfg(s.cfg.Topic, true)
						s.live, s.cfg = true, cfg
						return Op{K: "create_sub", Sub: s.name, Cfg: &cfg}, true
					}
				}
				return Op{}, false
			default:
				if g.R.Intn(4) == 0 {
					return Op{K: "delete_topic", Topic: []string{"d", "d2", "t2"}[g.R.Intn(3)]}, true
				}
				return Op{K: "create_topic", Topic: g.pick(g.Topics)}, true
			}
		}},
	}
	total := 0
	for _, c := range choices {
		total += c.w
	}
	for tries := 0; tries < 50; tries++ {
		x := g.R.Intn(total)
		for _, c := range choices {
			if x < c.w {
				if op, ok := c.f(); ok {
					return op
				}
				break
			}
			x -= c.w
		}
	}
	return Op{K: "advance", D: Sec}
}
