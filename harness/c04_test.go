package harness

import (
	"context"
	"encoding/json"
	"fmt"
	"os"
	"strings"
	"testing"
	"testing/synctest"
	"time"

	"github.com/google/uuid"

	"go.6river.tech/mmmbbb/actions"
	"go.6river.tech/mmmbbb/ent/delivery"
)

// ---- C04, "to the same or any concurrent puller": two real Pull actions on one subscription are
// interleaved at every transaction boundary (driver-wrapper gates under synctest).  Whatever the
// schedule, no delivery may be returned to both, and every returned delivery has been charged
// exactly one attempt.  (The model's pull is one atomic step — Model/Step.lean `pull` — which is only
// faithful if the selection and the recording of the attempt share a transaction: this runner is the
// check of that atomicity.)

type c04Sched struct {
	Ordered  bool     `json:"ordered"`
	Msgs     int      `json:"msgs"`
	MaxA     int      `json:"max_a"`
	MaxB     int      `json:"max_b"`
	Schedule []string `json:"schedule"`
}

func c04RunSched(t *testing.T, seed int64, cs c04Sched) (what string, steps int) {
	synctest.Test(t, func(t *testing.T) {
		w := NewWorld(t, seed)
		defer w.Close()
		cfg := &SubCfg{Topic: "t", Ordered: cs.Ordered, TTL: 24 * 3600 * Sec, MTTL: 3600 * Sec}
		w.Exec(Op{K: "create_topic", Topic: "t"})
		w.Exec(Op{K: "create_sub", Sub: "s", Cfg: cfg})
		var msgs []MsgSpec
		for i := 0; i < cs.Msgs; i++ {
			key := ""
			if cs.Ordered {
				key = fmt.Sprintf("k%d", i%2)
			}
			msgs = append(msgs, MsgSpec{N: i, Key: key})
		}
		w.Exec(Op{K: "publish", Topic: "t", Msgs: msgs})
		time.Sleep(time.Millisecond)
		w.Dump()
		var subID uuid.UUID
		for _, row := range w.lastSubs {
			subID = row.ID
		}
		w.Ctl.mu.Lock()
		w.Ctl.tick = 0
		w.Ctl.mu.Unlock()
		type proc struct {
			label   string
			max     int
			fin     chan struct{}
			ids     []uuid.UUID
			err     error
			started bool
			cancel  context.CancelFunc
		}
		procs := map[string]*proc{"PA": {label: "PA", max: cs.MaxA, fin: make(chan struct{})}, "PB": {label: "PB", max: cs.MaxB, fin: make(chan struct{})}}
		start := func(p *proc) {
			ctx, cancel := context.WithCancel(WithLabel(context.Background(), p.label))
			p.cancel, p.started = cancel, true
			w.Ctl.Gate(p.label, true)
			id := subID
			a := actions.NewGetSubscriptionMessages(actions.GetSubscriptionMessagesParams{ID: &id, Name: SubName("s"),
				MaxMessages: p.max, MaxBytes: 1 << 30, MaxWait: time.Second})
			go func() {
				defer close(p.fin)
				p.err = a.ExecuteClient(ctx, w.Client)
				if r, ok := a.Results(); ok && p.err == nil {
					for _, d := range r.Deliveries {
						p.ids = append(p.ids, d.ID)
					}
				}
			}()
			synctest.Wait()
		}
		for _, name := range cs.Schedule {
			p := procs[name]
			if !p.started {
				start(p)
			}
			if w.Ctl.Where(p.label) != "" {
				w.Ctl.Release(p.label)
				synctest.Wait()
				steps++
			}
		}
		for _, p := range procs {
			if !p.started {
				start(p)
			}
			w.Ctl.Gate(p.label, false)
		}
		for i := 0; i < 50; i++ {
			moved := false
			for _, p := range procs {
				if w.Ctl.Where(p.label) != "" {
					w.Ctl.Release(p.label)
					moved = true
				}
			}
			synctest.Wait()
			if !moved {
				break
			}
		}
		time.Sleep(2 * time.Second) // MaxWait of a pull that found nothing
		synctest.Wait()
		for _, p := range procs {
			if w.Ctl.Where(p.label) != "" {
				w.Ctl.Release(p.label)
			}
		}
		synctest.Wait()
		for _, p := range procs {
			select {
			case <-p.fin:
			default:
				what = fmt.Sprintf("pull %s did not return", p.label)
			}
			if p.err != nil && what == "" {
				what = fmt.Sprintf("pull %s failed: %v", p.label, p.err)
			}
			p.cancel()
		}
		if what != "" {
			return
		}
		seen := map[uuid.UUID]string{}
		var all []uuid.UUID
		for _, name := range []string{"PA", "PB"} {
			for _, id := range procs[name].ids {
				if other, dup := seen[id]; dup {
					what = fmt.Sprintf("delivery %s was handed out to both concurrent pulls (%s and %s) of one subscription, well inside its lease", id, other, name)
					return
				}
				seen[id] = name
				all = append(all, id)
			}
		}
		for _, id := range all {
			d, err := w.Client.Delivery.Query().Where(delivery.ID(id)).Only(qctx)
			if err != nil {
				t.Fatal(err)
			}
			if d.Attempts != 1 {
				what = fmt.Sprintf("delivery %s was returned once but charged %d attempts by two concurrent pulls", id, d.Attempts)
				return
			}
		}
		// nothing deliverable may be left behind while a pull came back short
		short := len(procs["PA"].ids) < cs.MaxA || len(procs["PB"].ids) < cs.MaxB
		if short && !cs.Ordered && len(all) < cs.Msgs && len(all) < cs.MaxA+cs.MaxB {
			what = fmt.Sprintf("%d messages were deliverable, the two concurrent pulls (max %d and %d) returned only %d in all", cs.Msgs, cs.MaxA, cs.MaxB, len(all))
		}
	})
	return
}

func pullExclusive(t *testing.T, st *Stats) {
	depth := 5
	if Tier() == "thorough" {
		depth = 8
	}
	var scheds [][]string
	var gen func(prefix []string)
	gen = func(prefix []string) {
		if len(prefix) == depth {
			scheds = append(scheds, append([]string(nil), prefix...))
			return
		}
		for _, n := range []string{"PA", "PB"} {
			gen(append(prefix, n))
		}
	}
	gen(nil)
	shapes := []c04Sched{{Msgs: 3, MaxA: 2, MaxB: 2}, {Msgs: 4, MaxA: 4, MaxB: 1, Ordered: true}}
	if Tier() == "thorough" {
		shapes = append(shapes, c04Sched{Msgs: 1, MaxA: 1, MaxB: 1}, c04Sched{Msgs: 6, MaxA: 3, MaxB: 3, Ordered: true})
	}
	maxSteps := 0
	for _, sh := range shapes {
		for _, s := range scheds {
			cs := sh
			cs.Schedule = s
			what, steps := c04RunSched(t, Seed(), cs)
			st.Count("concurrent_pull_schedules", 1)
			if steps > maxSteps {
				maxSteps = steps
			}
			if what != "" {
				p := ReplayPath(fmt.Sprintf("C04-concurrent-pull-%d.json", Seed()))
				b, _ := json.MarshalIndent(map[string]interface{}{"property": "C04", "sig": "concurrent-handout", "seed": Seed(), "what": what, "case": cs,
					"note": "two GetSubscriptionMessages.ExecuteClient on one subscription; each schedule entry releases that pull to its next transaction boundary (" + strings.Join(s, " ") + ")"}, "", " ")
				os.WriteFile(p, b, 0o644)
				st.Violate(Violation{What: "[concurrent-handout] " + what, Replay: p, FoundInput: true, Sig: "concurrent-handout"})
				return
			}
		}
	}
	st.Set("concurrent_pull_max_boundaries", maxSteps)
}

// waitingPullDeadline: a Pull that is already waiting is handed a message as soon as its retry deadline
// has passed — also when another outstanding message of the subscription is due much later.
func waitingPullDeadline(t *testing.T, st *Stats) {
	what := ""
	synctest.Test(t, func(t *testing.T) {
		w := NewWorld(t, Seed())
		defer w.Close()
		cfg := &SubCfg{Topic: "t", TTL: 24 * 3600 * Sec, MTTL: 3600 * Sec, MinB: Sec}
		w.Exec(Op{K: "create_topic", Topic: "t"})
		w.Exec(Op{K: "create_sub", Sub: "s", Cfg: cfg})
		w.Exec(Op{K: "publish", Topic: "t", Msgs: []MsgSpec{{N: 0}}})
		time.Sleep(time.Millisecond)
		w.Exec(Op{K: "publish", Topic: "t", Msgs: []MsgSpec{{N: 1}}})
		time.Sleep(time.Millisecond)
		r := w.Exec(Op{K: "pull", Sub: "s", Max: 2})
		if len(r.Delivered) != 2 {
			t.Fatalf("setup: pull delivered %d", len(r.Delivered))
		}
		// the older message gets a long deadline; the younger one is due after its back-off (about 1.1 s + jitter)
		w.Exec(Op{K: "delay", Refs: []Ref{{N: 0, Sub: "s"}}, D: 60 * Sec})
		w.Dump()
		var subID uuid.UUID
		for _, row := range w.lastSubs {
			subID = row.ID
		}
		var due time.Time
		for _, d := range w.lastDels {
			if d.ID == r.Delivered[1].ID {
				due = d.AttemptAt
			}
		}
		w.Ctl.mu.Lock()
		w.Ctl.tick = 0
		w.Ctl.mu.Unlock()
		a := actions.NewGetSubscriptionMessages(actions.GetSubscriptionMessagesParams{ID: &subID, Name: SubName("s"), MaxMessages: 5, MaxBytes: 1 << 30, MaxWait: 30 * time.Second})
		start := time.Now()
		fin := make(chan error, 1)
		go func() { fin <- a.ExecuteClient(context.Background(), w.Client) }()
		synctest.Wait()
		select {
		case <-fin:
			what = "setup: the waiting pull returned at once"
			return
		default:
		}
		time.Sleep(time.Until(due) + 200*time.Millisecond)
		synctest.Wait()
		select {
		case err := <-fin:
			res, ok := a.Results()
			n := 0
			if ok {
				n = len(res.Deliveries)
			}
			if err != nil || n != 1 || res.Deliveries[0].ID != r.Delivered[1].ID {
				what = fmt.Sprintf("a Pull waiting since %s returned %v / %d deliveries when the retry deadline of an outstanding message passed; expected exactly that message", time.Since(start), err, n)
			} else if d, derr := w.Client.Delivery.Get(qctx, res.Deliveries[0].ID); derr == nil {
				// the new lease counts from the hand-out, not from when the pull began to wait
				min := NominalNs(p64(Sec), nil, d.Attempts)
				if lease := ns(d.AttemptAt) - ns(time.Now()); lease < min-2-min/(1<<40)-int64(300*time.Millisecond) {
					what = fmt.Sprintf("a Pull that had waited %s was handed a message as attempt %d; its new retry deadline is only %d ns after the hand-out, the retry policy (minimum 1 s) gives at least %d ns", time.Since(start), d.Attempts, lease, min)
				}
			}
		default:
			what = fmt.Sprintf("a Pull that has been waiting for %s was not handed the message whose retry deadline passed 200 ms ago (another outstanding message of the subscription is due in a minute)", time.Since(start))
			time.Sleep(40 * time.Second) // let it run into its MaxWait
			synctest.Wait()
		}
	})
	st.Count("waiting_pull_cases", 1)
	if what != "" {
		p := ReplayPath(fmt.Sprintf("C04-waiting-pull-%d.json", Seed()))
		b, _ := json.MarshalIndent(map[string]interface{}{"property": "C04", "sig": "waiting-pull-not-woken-at-deadline", "seed": Seed(), "what": what,
			"history": []string{"subscription with minimum backoff 1 s", "publish A, publish B", "Pull (max 2): A and B, attempt 1", "ModifyAckDeadline(A, 60 s)", "Pull with a 30 s wait, started at once", "B's retry deadline passes"}}, "", " ")
		os.WriteFile(p, b, 0o644)
		st.Violate(Violation{What: "[waiting-pull-not-woken-at-deadline] " + what, Replay: p, FoundInput: true, Sig: "waiting-pull-not-woken-at-deadline"})
	}
}
