/-
C19 — HTTP push: documented envelope, success acks, anything else retries.

"… A success response (200, 201, 202 or 204; 102 where a client can observe it) acknowledges the
message so it is never pushed again; any other final status or a transport error leaves it
unacknowledged so it is pushed again after the backoff, and the number of concurrent pushes stays
within the adaptive window of 1 to 1000."

The status set and the window constants are read from the source by the extractor
(`Extracted.pushSuccessCodes`, `Extracted.pushWindowConsts`), so changing them breaks these
theorems.  Acknowledged ⇒ never pushed again is C03 (`C03_final`); not acknowledged ⇒ pushed again
after the back-off is C04 (`C04_lease_set`, the nack path) — the push streamer feeds its outcome
into exactly those actions (checked by the correspondence run of this property).
-/
import Mmmbbb.Model.Push
namespace Mmmbbb.Push

/-- the success statuses are exactly the documented ones -/
theorem C19_success_codes : Extracted.pushSuccessCodes = [102, 200, 201, 202, 204] := by decide

theorem classify_some (code : Nat) (fast : Bool) :
    classify (some code) fast = if Extracted.pushSuccessCodes.contains code then .ack fast else .nack := rfl

theorem contains_iff (code : Nat) :
    [102, 200, 201, 202, 204].contains code = true ↔ (code = 102 ∨ code = 200 ∨ code = 201 ∨ code = 202 ∨ code = 204) := by
  simp [List.contains_iff_mem]

/-- **C19 (status map)**: a push is acknowledged iff the endpoint answered with one of
    102 / 200 / 201 / 202 / 204 — for every status code whatsoever; a transport error and every
    other status nack. -/
theorem C19_status_map (code : Nat) (fast : Bool) :
    classify (some code) fast = .ack fast ↔ (code = 102 ∨ code = 200 ∨ code = 201 ∨ code = 202 ∨ code = 204) := by
  rw [classify_some, C19_success_codes]
  constructor
  · intro hh
    by_cases h : [102, 200, 201, 202, 204].contains code = true
    · exact (contains_iff code).mp h
    · rw [if_neg h] at hh; cases hh
  · intro hh
    rw [if_pos ((contains_iff code).mpr hh)]

theorem C19_transport_error_nacks (fast : Bool) : classify none fast = .nack := rfl

theorem C19_other_status_nacks (code : Nat) (fast : Bool)
    (h : ¬(code = 102 ∨ code = 200 ∨ code = 201 ∨ code = 202 ∨ code = 204)) : classify (some code) fast = .nack := by
  rw [classify_some, C19_success_codes]
  have : ¬ ([102, 200, 201, 202, 204].contains code = true) := fun hc => h ((contains_iff code).mp hc)
  rw [if_neg this]

theorem window_consts : windowMax = 1000 ∧ windowMin = 1 ∧ nackFactor = 10 := by decide
/-- …and there is no fourth constant in the window arithmetic -/
theorem window_consts_only : Extracted.pushWindowConsts.length = 3 := by decide

theorem windowStep_bounds (w : Int) (b : Batch) (h : 1 ≤ w ∧ w ≤ 1000) :
    1 ≤ windowStep w b ∧ windowStep w b ≤ 1000 := by
  obtain ⟨hmax, hmin, hf⟩ := window_consts
  cases b with
  | fastAcks n => simp only [windowStep, hmax]; split <;> (try split) <;> omega
  | slowAcks n => simp only [windowStep, hmin]; split <;> (try split) <;> omega
  | nacks n => simp only [windowStep, hmin, hf]; split <;> (try split) <;> omega

/-- **C19 (window)**: whatever sequence of fast, slow and failing response batches arrives, in any
    order and of any length, the number of concurrent pushes the streamer allows stays within 1 … 1000. -/
theorem C19_window (bs : List Batch) : 1 ≤ windowRun windowInit bs ∧ windowRun windowInit bs ≤ 1000 := by
  have gen : ∀ (bs : List Batch) (w : Int), 1 ≤ w ∧ w ≤ 1000 → 1 ≤ windowRun w bs ∧ windowRun w bs ≤ 1000 := by
    intro bs
    induction bs with
    | nil => intro w h; exact h
    | cons b r ih => intro w h; exact ih _ (windowStep_bounds w b h)
  exact gen bs windowInit (by decide)

/-- the window only grows on fast successes and only shrinks on slow successes / failures -/
theorem C19_window_direction (w : Int) (n : Nat) (h : 1 ≤ w ∧ w ≤ 1000) :
    w ≤ windowStep w (.fastAcks n) ∧ windowStep w (.slowAcks n) ≤ w ∧ windowStep w (.nacks n) ≤ w := by
  obtain ⟨hmax, hmin, hf⟩ := window_consts
  refine ⟨?_, ?_, ?_⟩
  · simp only [windowStep, hmax]; split <;> (try split) <;> omega
  · simp only [windowStep, hmin]; split <;> (try split) <;> omega
  · simp only [windowStep, hmin, hf]; split <;> (try split) <;> omega

example : windowRun windowInit [.fastAcks 1, .fastAcks 2, .nacks 1, .fastAcks 3] = 4 := by decide

/-! ### supervision: every deliverable message is POSTed — also after a pusher died

The push service keeps one pusher per push subscription and looks, whenever one of the contexts it
watches is done (or once a minute), for pushers that have ended: those are removed and started again.
Which context it watches decides whether the death of a pusher is ever noticed. -/

inductive MonCtx
  /-- the context `errgroup.WithContext` returned: done as soon as the pusher's goroutine returns -/
  | errgroup
  /-- the context handed to `errgroup.WithContext`: done only when the service itself cancels the pusher -/
  | parent
deriving DecidableEq, Repr

structure Sup where
  /-- the pusher's goroutine is running -/
  running   : Bool
  /-- the service has cancelled it (push configuration removed, shutdown) -/
  cancelled : Bool
  /-- the subscription still has a push endpoint -/
  wanted    : Bool
deriving DecidableEq, Repr

def seenDone (c : MonCtx) (s : Sup) : Bool :=
  match c with
  | .errgroup => !s.running || s.cancelled
  | .parent => s.cancelled

/-- one round of `startPushersOnce`: harvest what is seen as done, start a pusher for every wanted
    subscription that has none -/
def superviseRound (c : MonCtx) (s : Sup) : Sup :=
  if seenDone c s then (if s.wanted then { running := true, cancelled := false, wanted := true } else { s with running := false })
  else s

def monCtxOfSource : MonCtx := if Extracted.pusherMonitorContext == "errgroup" then .errgroup else .parent

/-- **C19 (a dead pusher is started again)**: with the context the source watches, a pusher that ended on
    its own (a storage error, say) while its subscription still wants pushing is running again after one
    supervision round — whatever else the state says. -/
theorem C19_dead_pusher_restarted (s : Sup) (hdead : s.running = false) (hw : s.wanted = true) :
    monCtxOfSource = .errgroup ∧ (superviseRound monCtxOfSource s).running = true := by
  have hsrc : monCtxOfSource = .errgroup := by simp [monCtxOfSource, Extracted.pusherMonitorContext]
  refine ⟨hsrc, ?_⟩
  rw [hsrc]
  simp [superviseRound, seenDone, hdead, hw]

/-- watching the parent context instead: the dead pusher is never seen as done, round after round -/
theorem C19_parent_context_variant_never_restarts (n : Nat) :
    (Nat.repeat (superviseRound .parent) n { running := false, cancelled := false, wanted := true }).running = false := by
  induction n with
  | zero => rfl
  | succ k ih =>
    have hfix : ∀ s : Sup, s = { running := false, cancelled := false, wanted := true } → superviseRound .parent s = s := by
      intro s hs; subst hs; rfl
    have hall : Nat.repeat (superviseRound .parent) k { running := false, cancelled := false, wanted := true } =
        { running := false, cancelled := false, wanted := true } := by
      clear ih
      induction k with
      | zero => rfl
      | succ j ihj => simp only [Nat.repeat]; rw [ihj]; rfl
    simp only [Nat.repeat]; rw [hall]; rfl

end Mmmbbb.Push
