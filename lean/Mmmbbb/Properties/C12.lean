/-
C12 — Resource names: one live resource per name; Get/List show exactly the live set.

"At any time there is at most one live topic, one live subscription and one snapshot per name:
creating an existing name fails with AlreadyExists (also when several creates race), deleting makes
the name immediately reusable, and the re-created resource inherits no messages, backlog or settings
from its predecessor.  Get succeeds exactly for live resources, and List for a project returns every
live resource of exactly that project once and only once across pages, for any page size."

Races: a create is one transaction = one `step` of the model; interleavings of concurrent creates
are the orders of their steps, and the second one sees the first one's row (`C12_create_conflict`).
-/
import Mmmbbb.Model.Api
import Mmmbbb.Proofs.Paging
import Mmmbbb.Proofs.Fields
namespace Mmmbbb.Api

/-- number of live topics with a given name -/
def liveTopics (db : Db) (n : String) : Nat := db.topics.countP fun t => t.name == n && t.live
def liveSubs (db : Db) (n : String) : Nat := db.subs.countP fun s => s.name == n && s.live
def snapsNamed (db : Db) (n : String) : Nat := db.snaps.countP fun s => s.name == n

theorem find?_none_countP {α} (p : α → Bool) (l : List α) : l.find? p = none ↔ l.countP p = 0 := by
  rw [List.find?_eq_none, List.countP_eq_zero]

/-- **C12 (AlreadyExists)**: creating a topic whose name is live fails with `exists` and changes nothing. -/
theorem C12_create_conflict (db : Db) (now : Time) (n : String) (l : StrMap) (i : Id)
    (h : (db.liveTopicByName n).isSome = true) : createTopic db now n l i = .error .exists := by
  unfold createTopic; simp [h]

theorem C12_create_sub_conflict (db : Db) (now : Time) (p : CreateSubParams) (i : Id)
    (h : (db.liveSubByName p.name).isSome = true) : createSub db now p i = .error .exists := by
  unfold createSub; simp [h]

theorem C12_create_snap_conflict (db : Db) (now : Time) (n s : String) (l : StrMap) (i : Id)
    (h : (db.snapByName n).isSome = true) : createSnapshot db now n s l i = .error .exists := by
  unfold createSnapshot; simp [h]

/-- **C12 (one live topic per name)**: `createTopic` keeps "at most one live topic per name", for
    every name, and the new topic's id is fresh — nothing (no subscription, message, delivery or
    snapshot) refers to it. -/
theorem C12_create_topic_unique (db : Db) (now : Time) (n : String) (l : StrMap) (i : Id) (o : TxOut Id)
    (h : createTopic db now n l i = .ok o) (hinv : ∀ m, liveTopics db m ≤ 1) :
    (∀ m, liveTopics o.db m ≤ 1) ∧ liveTopics o.db n = 1 ∧ db.allIds.contains i = false := by
  unfold createTopic at h
  split at h
  · cases h
  · rename_i hex
    split at h
    · cases h
    · rename_i hfresh
      injection h with h; subst h
      have hnone : db.liveTopicByName n = none := by
        cases hx : db.liveTopicByName n with
        | none => rfl
        | some t => rw [hx] at hex; simp at hex
      have hzero : liveTopics db n = 0 := (find?_none_countP _ _).mp hnone
      refine ⟨?_, ?_, by simpa using hfresh⟩
      · intro m
        unfold liveTopics
        simp only [List.countP_append, List.countP_cons, List.countP_nil, Topic.live, Option.isSome_none, Option.isNone_none]
        by_cases hm : m = n
        · subst hm
          unfold liveTopics at hzero
          simp only [Topic.live] at hzero
          rw [hzero]; simp
        · have := hinv m
          unfold liveTopics at this
          simp only [Topic.live] at this
          have hne : (n == m) = false := by simpa using fun e : n = m => hm e.symm
          simp [hne]; exact this
      · unfold liveTopics at hzero ⊢
        simp only [List.countP_append, List.countP_cons, List.countP_nil, Topic.live, Option.isNone_none] at hzero ⊢
        rw [hzero]; simp

/-- **C12 (delete frees the name)**: after a successful `deleteTopic n` no live topic is named `n`:
    the name is immediately reusable, and Get answers NotFound. -/
theorem C12_delete_frees (db : Db) (now : Time) (n : String) (o : TxOut Nat)
    (h : deleteTopic db now n = .ok o) : o.db.liveTopicByName n = none := by
  unfold deleteTopic at h
  simp only at h
  split at h
  · cases h
  · injection h with h; subst h
    unfold Db.liveTopicByName
    simp only
    rw [List.find?_eq_none]
    intro t ht
    unfold updateWhere at ht
    obtain ⟨t0, _, rfl⟩ := List.mem_map.mp ht
    show ¬ ((if (t0.name == n && t0.live) = true then ({ t0 with deletedAt := some now } : Topic) else t0).name == n &&
        (if (t0.name == n && t0.live) = true then ({ t0 with deletedAt := some now } : Topic) else t0).live) = true
    by_cases hp : (t0.name == n && t0.live) = true
    · rw [if_pos hp]; simp [Topic.live]
    · rw [if_neg hp]; exact hp

theorem C12_delete_sub_frees (db : Db) (now : Time) (n : String) (o : TxOut Nat)
    (h : deleteSub db now n = .ok o) : o.db.liveSubByName n = none := by
  unfold deleteSub at h
  simp only at h
  split at h
  · cases h
  · injection h with h; subst h
    unfold Db.liveSubByName
    simp only
    rw [List.find?_eq_none]
    intro t ht
    unfold updateWhere at ht
    obtain ⟨t0, _, rfl⟩ := List.mem_map.mp ht
    show ¬ ((if (t0.name == n && t0.live) = true then ({ t0 with deletedAt := some now } : Sub) else t0).name == n &&
        (if (t0.name == n && t0.live) = true then ({ t0 with deletedAt := some now } : Sub) else t0).live) = true
    by_cases hp : (t0.name == n && t0.live) = true
    · rw [if_pos hp]; simp [Sub.live]
    · rw [if_neg hp]; exact hp

/-- **C12 (Get succeeds exactly for live resources)** -/
theorem C12_get_topic_iff_live (db : Db) (now : Time) (n : String) (hv : isValidTopicName n = true) :
    (handle db now (.getTopic n)).2.status = .ok ↔ (db.liveTopicByName n).isSome = true := by
  simp only [handle]; unfold hGetTopic
  simp only [hv, Bool.not_true, Bool.false_eq_true, if_false]
  cases db.liveTopicByName n <;> simp

theorem C12_get_sub_iff_live (db : Db) (now : Time) (n : String) (hv : isValidSubscriptionName n = true) :
    (handle db now (.getSub n)).2.status = .ok ↔ (db.liveSubByName n).isSome = true := by
  simp only [handle]; unfold hGetSub
  simp only [hv, Bool.not_true, Bool.false_eq_true, if_false]
  cases db.liveSubByName n <;> simp

theorem C12_get_snap_iff_exists (db : Db) (now : Time) (n : String) (hv : isValidSnapshotName n = true) :
    (handle db now (.getSnap n)).2.status = .ok ↔ (db.snapByName n).isSome = true := by
  simp only [handle]; unfold hGetSnap
  simp only [hv, Bool.not_true, Bool.false_eq_true, if_false]
  cases db.snapByName n <;> simp

/-! ### listing -/

/-- each List handler filters with its own kind's prefix (regenerated from the source) -/
theorem C12_list_prefixes :
    Extracted.listTopicsSuffix = "/topics/" ∧ Extracted.listSubscriptionsSuffix = "/subscriptions/" ∧
    Extracted.listSnapshotsSuffix = "/snapshots/" := by decide

theorem mem_insertId {α} (key : α → Id) (x y : α) (l : List α) : y ∈ insertId key x l ↔ y = x ∨ y ∈ l := by
  induction l with
  | nil => simp [insertId]
  | cons a r ih =>
    unfold insertId
    split
    · simp
    · simp [ih]; constructor
      · rintro (h | h | h)
        · exact Or.inr (Or.inl h)
        · exact Or.inl h
        · exact Or.inr (Or.inr h)
      · rintro (h | h | h)
        · exact Or.inr (Or.inl h)
        · exact Or.inl h
        · exact Or.inr (Or.inr h)

theorem mem_sortId {α} (key : α → Id) (l : List α) (y : α) : y ∈ sortId key l ↔ y ∈ l := by
  unfold sortId
  induction l with
  | nil => simp
  | cons a r ih => simp only [List.foldr_cons, mem_insertId, ih, List.mem_cons]

/-- **C12 (a page only shows matching rows)**: every item of a page is a row of the table that
    satisfies the handler's predicate (prefix of exactly that project and kind, live) and lies
    strictly after the page token; a page never has more items than the page size. -/
theorem C12_page_sound {α} (key : α → Id) (p : α → Bool) (rows : List α) (after : Option Id) (size : Nat) (x : α)
    (hx : x ∈ (listPage key p rows after size).1) :
    x ∈ rows ∧ p x = true ∧ (∀ a, after = some a → a < key x) ∧ (listPage key p rows after size).1.length ≤ size := by
  unfold listPage at hx ⊢
  simp only at hx ⊢
  have hmem := List.mem_of_mem_take hx
  rw [mem_sortId] at hmem
  obtain ⟨h1, h2⟩ := List.mem_filter.mp hmem
  simp only [Bool.and_eq_true] at h2
  refine ⟨h1, h2.1, ?_, ?_⟩
  · intro a ha
    subst ha
    simpa [afterPred] using h2.2
  · simp only [List.length_take]; omega

/-- **C12 (page size)**: `pageSize ≤ 0` and `pageSize ≥ 100` mean 100; anything between is taken as is -/
theorem C12_page_size (n : Int) :
    effPageSize n 100 = if 0 < n ∧ n < 100 then n.toNat else 100 := by
  unfold effPageSize; split <;> rfl

/-- **C12 (paging visits every item exactly once)**: with a positive page size and ids as primary
    keys, following the page tokens from the first page — whatever the page size — yields exactly
    the selected rows (prefix of the project and kind, live), each once, in id order: no item is
    skipped, none repeated, and the walk ends (the last page carries no token) after at most
    `rows.length + 1` requests. -/
theorem C12_walk_exactly_once {α} (key : α → Id) (p : α → Bool) (rows : List α) (size : Nat) (hsize : 0 < size)
    (hkeys : rows.Pairwise (fun a b => key a ≠ key b)) :
    walk key p rows size (rows.length + 1) none = sortId key (rows.filter p) ∧
    (∀ x, x ∈ walk key p rows size (rows.length + 1) none ↔ x ∈ rows ∧ p x = true) ∧
    (walk key p rows size (rows.length + 1) none).Pairwise (fun a b => key a < key b) := by
  have hlen : ((sortId key (rows.filter p)).filter (afterPred key none)).length < rows.length + 1 := by
    have h1 : ((sortId key (rows.filter p)).filter (afterPred key none)).length ≤ (sortId key (rows.filter p)).length :=
      List.length_filter_le _ _
    have h2 : (sortId key (rows.filter p)).length = (rows.filter p).length := by
      generalize rows.filter p = l
      induction l with
      | nil => rfl
      | cons a r ih =>
        show (insertId key a (sortId key r)).length = _
        have : ∀ (m : List α), (insertId key a m).length = m.length + 1 := by
          intro m
          induction m with
          | nil => rfl
          | cons c m' ihm => unfold insertId; split <;> simp [ihm]
        rw [this, ih]; rfl
    have h3 : (rows.filter p).length ≤ rows.length := List.length_filter_le _ _
    omega
  have hw := walk_spec key p rows size hsize hkeys (rows.length + 1) none hlen
  have hnone : (sortId key (rows.filter p)).filter (afterPred key none) = sortId key (rows.filter p) := by
    apply List.filter_eq_self.mpr; intro x _; rfl
  rw [hnone] at hw
  refine ⟨hw, ?_, ?_⟩
  · intro x; rw [hw, mem_sortId']; simp [List.mem_filter]
  · rw [hw]; exact sortedLt_sortId key _ (hkeys.sublist List.filter_sublist)

/-- **C12 (the subscriptions of a topic are those of the live row of that name)**:
    `ListTopicSubscriptions` answers NotFound unless a live topic carries the name, and every name on
    a page belongs to a live subscription attached to *that row* — a subscription of a deleted
    incarnation of the name is not inherited by the topic made again under it.  (Each page is a
    `listPage`, so `C12_page_sound` and `C12_walk_exactly_once` apply to the walk.) -/
theorem C12_topic_subscriptions (db : Db) (now : Time) (topic : String) (size : Int) (tok : Option Id) :
    (db.liveTopicByName topic = none → (hListTopicSubs db now topic size (tok.map some)).2.status ≠ .ok) ∧
    (∀ t, isValidTopicName topic = true → db.liveTopicByName topic = some t →
      (hListTopicSubs db now topic size (tok.map some)).2.status = .ok ∧
      (hListTopicSubs db now topic size (tok.map some)).2.body =
        ";".intercalate ((listPage (·.id) (fun (s : Sub) => s.topicId == t.id && s.live) db.subs tok (effPageSize size 100)).1.map
          fun s => "name=" ++ Codec.enc s.name) ++ "|next=" ++
          Codec.optStr toString (listPage (·.id) (fun (s : Sub) => s.topicId == t.id && s.live) db.subs tok (effPageSize size 100)).2 ∧
      ∀ s ∈ (listPage (·.id) (fun (s : Sub) => s.topicId == t.id && s.live) db.subs tok (effPageSize size 100)).1,
        s ∈ db.subs ∧ s.topicId = t.id ∧ s.live = true) := by
  constructor
  · intro hnone
    unfold hListTopicSubs
    split
    · simp
    · rw [hnone]; simp
  · intro t hv ht
    refine ⟨?_, ?_, ?_⟩
    · unfold hListTopicSubs; rw [hv, ht]; cases tok <;> rfl
    · unfold hListTopicSubs; rw [hv, ht]; cases tok <;> rfl
    · intro s hs
      have h := C12_page_sound (·.id) (fun (s : Sub) => s.topicId == t.id && s.live) db.subs tok (effPageSize size 100) s hs
      have h2 := h.2.1
      simp only [Bool.and_eq_true, beq_iff_eq] at h2
      exact ⟨h.1, h2.1, h2.2⟩

end Mmmbbb.Api
