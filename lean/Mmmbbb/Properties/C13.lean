/-
C13 — Seek restores exactly the requested backlog.

"Seeking a subscription to a time makes exactly the retained messages published after that time
outstanding again (immediately deliverable, with fresh retention) and marks everything published at
or before it acknowledged.  Seeking to a snapshot restores exactly the set of messages that were
unacknowledged when the snapshot was taken plus everything published since; messages acknowledged
before the snapshot stay acknowledged, and other subscriptions are unaffected."
-/
import Mmmbbb.Proofs.Lease
namespace Mmmbbb

/-- what `seekTime` does to one row of subscription `s` at instant `now` with target `T` -/
def seekTimeRow (s : Sub) (now T : Time) (d : Delivery) : Delivery :=
  if d.subId == s.id && decide (now ≤ d.expiresAt) then
    if decide (d.publishedAt ≤ T) then
      (if d.completedAt.isNone then { d with completedAt := some now } else d)
    else
      (if d.completedAt.isSome then { d with completedAt := none, expiresAt := now + s.messageTtl, attemptAt := now } else d)
  else d

/-- **C13 (seek to time, exact effect)**: a successful `seekTime` rewrites the deliveries table row by
    row with `seekTimeRow`: rows of other subscriptions and rows whose retention has ended are
    untouched; retained rows published at or before `T` are completed; retained rows published after
    `T` that were completed become outstanding with `attemptAt = now` and fresh retention; rows that
    were already outstanding are untouched.  No other table changes. -/
theorem C13_seek_time (db : Db) (now : Time) (sub : String) (T : Time) (o : TxOut (Nat × Nat))
    (h : seekTime db now sub T = .ok o) :
    ∃ s, db.liveSubByName sub = some s ∧ o.db.dels = db.dels.map (seekTimeRow s now T) ∧
      o.db.topics = db.topics ∧ o.db.subs = db.subs ∧ o.db.msgs = db.msgs ∧ o.db.snaps = db.snaps := by
  unfold seekTime at h
  split at h
  · cases h
  · rename_i s hs
    refine ⟨s, hs, ?_⟩
    simp only at h
    injection h with h; subst h
    refine ⟨?_, rfl, rfl, rfl, rfl⟩
    simp only
    unfold updateWhere
    rw [List.map_map]
    apply List.map_congr_left
    intro d _
    simp only [Function.comp]
    unfold seekTimeRow
    obtain ⟨did, dmsg, dsub, dpub, dat, dlast, datt, dcomp, dexp, dnb⟩ := d
    simp only
    by_cases h1 : (dsub == s.id) = true <;> by_cases h2 : now ≤ dexp <;>
      by_cases h3 : dpub ≤ T <;> cases dcomp <;>
      simp [h1, h2, h3] <;> (unfold Time at *; omega)

/-- other subscriptions are unaffected by a seek to a time -/
theorem C13_seek_time_other_subs (s : Sub) (now T : Time) (d : Delivery) (h : (d.subId == s.id) = false) :
    seekTimeRow s now T d = d := by
  unfold seekTimeRow; simp [h]

/-- seeking twice to the same time at the same instant equals seeking once -/
theorem C13_seek_time_idempotent (s : Sub) (now T : Time) (d : Delivery) (_hm : 0 ≤ s.messageTtl) :
    seekTimeRow s now T (seekTimeRow s now T d) = seekTimeRow s now T d := by
  unfold seekTimeRow
  obtain ⟨did, dmsg, dsub, dpub, dat, dlast, datt, dcomp, dexp, dnb⟩ := d
  simp only
  by_cases h1 : (dsub == s.id) = true <;> by_cases h2 : now ≤ dexp <;>
    by_cases h3 : dpub ≤ T <;> cases dcomp <;>
    simp [h1, h2, h3] <;> (unfold Time at *; omega)

/-- what `seekSnap` does to one row of subscription `s` for snapshot `sn` -/
def seekSnapRow (s : Sub) (sn : Snapshot) (now : Time) (d : Delivery) : Delivery :=
  if d.subId == s.id then
    if d.completedAt.isNone then
      (if decide (now ≤ d.expiresAt) && (decide (d.publishedAt < sn.ackedBefore) || sn.ackedIds.contains d.msgId)
       then { d with completedAt := some now } else d)
    else
      (if decide (sn.ackedBefore ≤ d.publishedAt) && !sn.ackedIds.contains d.msgId
       then { d with completedAt := none, expiresAt := now + s.messageTtl, attemptAt := now } else d)
  else d

/-- **C13 (seek to snapshot, exact effect)**: rows of the subscription that are outstanding are
    completed iff they are retained and either older than the snapshot's threshold or in its
    acknowledged set; completed rows at or after the threshold that are not in the acknowledged set
    become outstanding (fresh retention, due now); everything else — other subscriptions, other
    tables — is untouched. -/
theorem C13_seek_snap (db : Db) (now : Time) (sub snap : String) (o : TxOut (Nat × Nat))
    (h : seekSnap db now sub snap = .ok o) :
    ∃ s sn, db.liveSubByName sub = some s ∧ db.snapByName snap = some sn ∧
      o.db.dels = db.dels.map (seekSnapRow s sn now) ∧
      o.db.topics = db.topics ∧ o.db.subs = db.subs ∧ o.db.msgs = db.msgs ∧ o.db.snaps = db.snaps := by
  unfold seekSnap at h
  split at h
  · cases h
  · rename_i s hs
    split at h
    · cases h
    · rename_i sn hsn
      refine ⟨s, sn, hs, hsn, ?_⟩
      simp only at h
      injection h with h; subst h
      refine ⟨?_, rfl, rfl, rfl, rfl⟩
      simp only
      unfold updateWhere
      by_cases he : sn.ackedIds.isEmpty = true
      · simp only [he, if_true]
        rw [List.map_map]
        apply List.map_congr_left
        intro d _
        have hnil : sn.ackedIds = [] := List.isEmpty_iff.mp he
        simp only [Function.comp]
        unfold seekSnapRow
        obtain ⟨did, dmsg, dsub, dpub, dat, dlast, datt, dcomp, dexp, dnb⟩ := d
        simp only
        by_cases h1 : (dsub == s.id) = true <;> by_cases h2 : now ≤ dexp <;>
          by_cases h3 : dpub < sn.ackedBefore <;> cases dcomp <;>
          simp [h1, h2, h3, hnil] <;> (unfold Time at *; omega)
      · simp only [he, Bool.false_eq_true, if_false]
        rw [List.map_map, List.map_map]
        apply List.map_congr_left
        intro d _
        simp only [Function.comp]
        unfold seekSnapRow
        obtain ⟨did, dmsg, dsub, dpub, dat, dlast, datt, dcomp, dexp, dnb⟩ := d
        simp only
        by_cases h1 : (dsub == s.id) = true <;> by_cases h2 : now ≤ dexp <;>
          by_cases h3 : dpub < sn.ackedBefore <;> cases dcomp <;>
          by_cases h5 : dmsg ∈ sn.ackedIds <;>
          simp [h1, h2, h3, h5] <;> (unfold Time at *; omega)

/-- **C13 (snapshot contents)**: a snapshot of subscription `s` records the oldest publish instant
    among its outstanding deliveries (or `now` when nothing is outstanding) and the messages whose
    delivery on `s` is completed and not older than that instant; taking it changes nothing else. -/
theorem C13_snapshot_contents (db : Db) (now : Time) (name sub : String) (l : StrMap) (i : Id) (o : TxOut Id)
    (h : createSnapshot db now name sub l i = .ok o) :
    ∃ s sn, db.liveSubByName sub = some s ∧ o.db.snaps = db.snaps ++ [sn] ∧ sn.name = name ∧ sn.topicId = s.topicId ∧
      o.db.dels = db.dels ∧ o.db.subs = db.subs ∧ o.db.msgs = db.msgs ∧ o.db.topics = db.topics ∧
      (match minPub (db.dels.filter fun d => d.subId == s.id && d.isOpen now) with
       | none => sn.ackedBefore = now ∧ sn.ackedIds = []
       | some t0 => sn.ackedBefore = t0 ∧
           sn.ackedIds = (db.dels.filter fun d =>
             d.subId == s.id && decide (t0 ≤ d.publishedAt) && d.completedAt.isSome).map (·.msgId)) := by
  unfold createSnapshot at h
  split at h
  · cases h
  · split at h
    · cases h
    · rename_i s hs
      split at h
      · cases h
      · injection h with h; subst h
        refine ⟨s, _, hs, rfl, rfl, rfl, rfl, rfl, rfl, rfl, ?_⟩
        simp only
        cases minPub (db.dels.filter fun d => d.subId == s.id && d.isOpen now) with
        | none => exact ⟨rfl, rfl⟩
        | some t0 => exact ⟨rfl, rfl⟩

end Mmmbbb
