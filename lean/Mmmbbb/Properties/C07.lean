/-
C07 — Subscription filters mean what the filter language says.

"For every syntactically valid filter and every attribute map, a filtered subscription receives a
published message iff the filter, read with the documented Pub/Sub semantics, is true of the
message's attributes.  Evaluation is a total, deterministic function of filter and attributes and
obeys the boolean laws (double negation, De Morgan, commutativity, parenthesisation)."

`Cond.eval` (Model/Filter.lean) follows `filter/evaluate.go`; `Sem` below is the documented
semantics written independently as a proposition.  All statements hold for every AST and every
attribute map — no size bound.
-/
import Mmmbbb.Model.Filter
import Mmmbbb.Model.Actions
namespace Mmmbbb.Filter

/-! ### documented semantics -/

def Basic.Sem (a : Attrs) : Basic → Prop
  | .has n => ∃ v, Attrs.get? a n = some v
  | .value n .eq v => Attrs.get? a n = some v
  | .value n .ne v => ∃ x, Attrs.get? a n = some x ∧ x ≠ v
  | .hasPrefix n v => ∃ x, Attrs.get? a n = some x ∧ v.toList <+: x.toList

mutual
  def Cond.Sem (a : Attrs) : Cond → Prop
    | .mk t .none => t.Sem a
    | .mk t (.ands ts) => t.Sem a ∧ ts.SemAll a
    | .mk t (.ors ts) => t.Sem a ∨ ts.SemAny a
  def Terms.SemAll (a : Attrs) : Terms → Prop
    | .one t => t.Sem a
    | .cons t ts => t.Sem a ∧ ts.SemAll a
  def Terms.SemAny (a : Attrs) : Terms → Prop
    | .one t => t.Sem a
    | .cons t ts => t.Sem a ∨ ts.SemAny a
  def Term.Sem (a : Attrs) : Term → Prop
    | .basic false b => b.Sem a
    | .basic true b => ¬ b.Sem a
    | .sub false c => c.Sem a
    | .sub true c => ¬ c.Sem a
end

theorem Basic.eval_iff_Sem (a : Attrs) (b : Basic) : b.eval a = true ↔ b.Sem a := by
  cases b with
  | has n =>
    simp only [Basic.eval, Basic.Sem, Option.isSome_iff_exists]
  | value n op v =>
    cases op with
    | eq =>
      simp only [Basic.eval, Basic.Sem]
      cases h : Attrs.get? a n with
      | none => simp
      | some x => simp
    | ne =>
      simp only [Basic.eval, Basic.Sem]
      cases h : Attrs.get? a n with
      | none => simp
      | some x => simp
  | hasPrefix n v =>
    simp only [Basic.eval, Basic.Sem, hasPrefixStr]
    cases h : Attrs.get? a n with
    | none => simp
    | some x => simp [List.isPrefixOf_iff_prefix]

mutual
  theorem Cond.eval_iff_Sem (a : Attrs) : ∀ c : Cond, c.eval a = true ↔ c.Sem a
    | .mk t .none => by
      simp only [Cond.eval, Cond.Sem]; exact Term.eval_iff_Sem a t
    | .mk t (.ands ts) => by
      have h1 := Term.eval_iff_Sem a t
      have h2 := Terms.all_iff_Sem a ts
      simp only [Cond.eval, Cond.Sem]
      cases ht : t.eval a <;> simp [ht] at h1 ⊢ <;> simp [h1, h2]
    | .mk t (.ors ts) => by
      have h1 := Term.eval_iff_Sem a t
      have h2 := Terms.any_iff_Sem a ts
      simp only [Cond.eval, Cond.Sem]
      cases ht : t.eval a <;> simp [ht] at h1 ⊢ <;> simp [h1, h2]
  theorem Terms.all_iff_Sem (a : Attrs) : ∀ ts : Terms, ts.all a = true ↔ ts.SemAll a
    | .one t => by simp only [Terms.all, Terms.SemAll]; exact Term.eval_iff_Sem a t
    | .cons t ts => by
      have h1 := Term.eval_iff_Sem a t
      have h2 := Terms.all_iff_Sem a ts
      simp only [Terms.all, Terms.SemAll]
      cases ht : t.eval a <;> simp [ht] at h1 ⊢ <;> simp [h1, h2]
  theorem Terms.any_iff_Sem (a : Attrs) : ∀ ts : Terms, ts.any a = true ↔ ts.SemAny a
    | .one t => by simp only [Terms.any, Terms.SemAny]; exact Term.eval_iff_Sem a t
    | .cons t ts => by
      have h1 := Term.eval_iff_Sem a t
      have h2 := Terms.any_iff_Sem a ts
      simp only [Terms.any, Terms.SemAny]
      cases ht : t.eval a <;> simp [ht] at h1 ⊢ <;> simp [h1, h2]
  theorem Term.eval_iff_Sem (a : Attrs) : ∀ t : Term, t.eval a = true ↔ t.Sem a
    | .basic false b => by simp only [Term.eval, Term.Sem]; simpa using Basic.eval_iff_Sem a b
    | .basic true b => by
      have := Basic.eval_iff_Sem a b
      simp only [Term.eval, Term.Sem]
      cases hb : b.eval a <;> simp [hb] at this ⊢ <;> exact this
    | .sub false c => by simp only [Term.eval, Term.Sem]; simpa using Cond.eval_iff_Sem a c
    | .sub true c => by
      have := Cond.eval_iff_Sem a c
      simp only [Term.eval, Term.Sem]
      cases hc : c.eval a <;> simp [hc] at this ⊢ <;> exact this
end

/-- **C07 (semantics)**: the evaluator returns `true` exactly when the documented semantics holds. -/
theorem C07_sound_complete (c : Cond) (a : Attrs) : c.eval a = true ↔ c.Sem a :=
  Cond.eval_iff_Sem a c

/-- **C07 (total, deterministic)**: evaluation is a function — exactly one result for every filter
    and attribute map (the error arms of the Go evaluator are unreachable for parsed filters: the
    AST type has no unpopulated nodes). -/
theorem C07_total_deterministic (c : Cond) (a : Attrs) : ∃ b : Bool, c.eval a = b ∧ ∀ b', c.eval a = b' → b' = b :=
  ⟨c.eval a, rfl, fun _ h => h.symm⟩

/-! ### boolean laws -/

/-- parenthesisation: `( c )` evaluates like `c` -/
theorem C07_paren (a : Attrs) (c : Cond) : (Term.sub false c).eval a = c.eval a := by
  simp [Term.eval]

/-- double negation: `NOT (NOT (c))` evaluates like `c` -/
theorem C07_double_neg (a : Attrs) (c : Cond) :
    (Term.sub true (.mk (.sub true c) .none)).eval a = c.eval a := by
  simp [Term.eval, Cond.eval]

def negT : Term → Term
  | .basic n b => .basic (!n) b
  | .sub n c => .sub (!n) c

theorem negT_eval (a : Attrs) (t : Term) : (negT t).eval a = !(t.eval a) := by
  cases t <;> simp [negT, Term.eval] <;> (rename_i n _; cases n <;> simp)

def mapNeg : Terms → Terms
  | .one t => .one (negT t)
  | .cons t ts => .cons (negT t) (mapNeg ts)

theorem all_mapNeg (a : Attrs) : ∀ ts : Terms, (mapNeg ts).all a = !(ts.any a)
  | .one t => by simp [mapNeg, Terms.all, Terms.any, negT_eval]
  | .cons t ts => by
    have ih := all_mapNeg a ts
    simp only [mapNeg, Terms.all, Terms.any, negT_eval, ih]; cases t.eval a <;> simp

theorem any_mapNeg (a : Attrs) : ∀ ts : Terms, (mapNeg ts).any a = !(ts.all a)
  | .one t => by simp [mapNeg, Terms.all, Terms.any, negT_eval]
  | .cons t ts => by
    have ih := any_mapNeg a ts
    simp only [mapNeg, Terms.all, Terms.any, negT_eval, ih]; cases t.eval a <;> simp

/-- De Morgan, n-ary: `NOT (t OR t₁ OR … )` = `NOT t AND NOT t₁ AND …` -/
theorem C07_de_morgan_or (a : Attrs) (t : Term) (ts : Terms) :
    (Term.sub true (.mk t (.ors ts))).eval a = (Cond.mk (negT t) (.ands (mapNeg ts))).eval a := by
  simp only [Term.eval, Cond.eval, negT_eval, all_mapNeg]
  cases t.eval a <;> simp

/-- De Morgan, n-ary: `NOT (t AND t₁ AND … )` = `NOT t OR NOT t₁ OR …` -/
theorem C07_de_morgan_and (a : Attrs) (t : Term) (ts : Terms) :
    (Term.sub true (.mk t (.ands ts))).eval a = (Cond.mk (negT t) (.ors (mapNeg ts))).eval a := by
  simp only [Term.eval, Cond.eval, negT_eval, any_mapNeg]
  cases t.eval a <;> simp

/-! commutativity: the value of an AND / OR chain depends only on the multiset of its terms -/

def Terms.toList : Terms → List Term
  | .one t => [t]
  | .cons t ts => t :: ts.toList

theorem Terms.all_eq (a : Attrs) : ∀ ts : Terms, ts.all a = ts.toList.all (·.eval a)
  | .one t => by simp [Terms.all, Terms.toList]
  | .cons t ts => by
    simp only [Terms.all, Terms.toList, List.all_cons, Terms.all_eq a ts]; cases t.eval a <;> simp

theorem Terms.any_eq (a : Attrs) : ∀ ts : Terms, ts.any a = ts.toList.any (·.eval a)
  | .one t => by simp [Terms.any, Terms.toList]
  | .cons t ts => by
    simp only [Terms.any, Terms.toList, List.any_cons, Terms.any_eq a ts]; cases t.eval a <;> simp

/-- all terms of a condition, first term included -/
def Cond.terms : Cond → List Term
  | .mk t .none => [t]
  | .mk t (.ands ts) => t :: ts.toList
  | .mk t (.ors ts) => t :: ts.toList

theorem all_perm {l₁ l₂ : List Term} (a : Attrs) (h : l₁.Perm l₂) :
    l₁.all (·.eval a) = l₂.all (·.eval a) := by
  induction h with
  | nil => rfl
  | cons x _ ih => simp [ih]
  | swap x y l => simp only [List.all_cons]; cases x.eval a <;> cases y.eval a <;> rfl
  | trans _ _ ih1 ih2 => exact ih1.trans ih2

theorem any_perm {l₁ l₂ : List Term} (a : Attrs) (h : l₁.Perm l₂) :
    l₁.any (·.eval a) = l₂.any (·.eval a) := by
  induction h with
  | nil => rfl
  | cons x _ ih => simp [ih]
  | swap x y l => simp only [List.any_cons]; cases x.eval a <;> cases y.eval a <;> rfl
  | trans _ _ ih1 ih2 => exact ih1.trans ih2

/-- AND is commutative: two AND-chains with the same terms in any order evaluate alike -/
theorem C07_and_comm (a : Attrs) (t t' : Term) (ts ts' : Terms)
    (h : (t :: ts.toList).Perm (t' :: ts'.toList)) :
    (Cond.mk t (.ands ts)).eval a = (Cond.mk t' (.ands ts')).eval a := by
  have := all_perm a h
  simp only [List.all_cons] at this
  simp only [Cond.eval, Terms.all_eq]
  cases h1 : t.eval a <;> cases h2 : t'.eval a <;> simp [h1, h2] at this ⊢ <;> exact this

/-- OR is commutative -/
theorem C07_or_comm (a : Attrs) (t t' : Term) (ts ts' : Terms)
    (h : (t :: ts.toList).Perm (t' :: ts'.toList)) :
    (Cond.mk t (.ors ts)).eval a = (Cond.mk t' (.ors ts')).eval a := by
  have := any_perm a h
  simp only [List.any_cons] at this
  simp only [Cond.eval, Terms.any_eq]
  cases h1 : t.eval a <;> cases h2 : t'.eval a <;> simp [h1, h2] at this ⊢ <;> exact this

/-! ### the tie to publishing: a filtered subscription takes a message iff the filter holds -/

/-- **C07 (delivery)**: for a subscription whose stored filter parses to `c`, `subAccepts` — the
    test `deliverAll` uses to decide which subscriptions get a delivery row — is exactly the
    documented semantics of `c` on the message's attributes. -/
theorem C07_delivery (s : Sub) (f : String) (c : Cond) (attrs : StrMap)
    (hf : s.filter = some f) (hne : f ≠ "") (hp : parse f = .ok c) :
    subAccepts s attrs = true ↔ c.Sem attrs := by
  unfold subAccepts
  rw [hf]
  have : (f == "") = false := by simpa using hne
  simp only [this, Bool.false_eq_true, if_false, hp]
  exact C07_sound_complete c attrs

/-- non-vacuity: `attributes:x AND NOT attributes.y = "v"` on two attribute maps -/
example :
    (Cond.mk (.basic false (.has "x")) (.ands (.one (.basic true (.value "y" .eq "v"))))).eval [("x", "1")] = true ∧
    (Cond.mk (.basic false (.has "x")) (.ands (.one (.basic true (.value "y" .eq "v"))))).eval [("x", "1"), ("y", "v")] = false := by
  simp [Cond.eval, Terms.all, Term.eval, Basic.eval, Attrs.get?, List.find?]

end Mmmbbb.Filter
