/-
C09 — Atomicity under storage failure.

"If the storage fails, or the request context is cancelled, at any point while publish, ack, nack,
modify-deadline, pull, seek, create or delete is being processed, the operation has no partial
effect: either every row change of the operation is visible afterwards or none is, the caller gets
an error in the latter case, no waiting consumer is notified of a change that did not commit, and
retrying the operation has the same effect as if the failure had not happened."

The model states what is left behind by a fault inside transaction `k` of an operation
(`stepFaulted`); the runner `TestC09` injects a failure, and separately a context cancellation, at
every SQL statement (BEGIN and COMMIT included) of every mutating operation of the implementation
and checks that what is left is what `stepFaulted` says, that nobody was woken, and that the retry
reaches the state of the undisturbed twin.
-/
import Mmmbbb.Model.Tx
import Mmmbbb.Properties.C01
import Mmmbbb.Extracted
namespace Mmmbbb

/-- **C09 (all or nothing)**: a fault in an operation's only transaction — and for pull, in its first —
    leaves all five tables and the clock as they were, the caller gets an error and nobody is woken. -/
theorem C09_fault_no_effect (st : St) (op : Op) (k : Nat) (h : (∀ s a b c d e, op ≠ .pull s a b c d e) ∨ k ≠ 1) :
    (stepFaulted st op k).1 = st ∧ (stepFaulted st op k).2.ok = false ∧ (stepFaulted st op k).2.wakes = [] := by
  unfold stepFaulted
  split
  · rename_i s a b c d e
    rcases h with h | h
    · exact absurd rfl (h s a b c d e)
    · exact absurd rfl h
  · exact ⟨rfl, rfl, rfl⟩

/-- **C09 (pull, second transaction)** — the one stated exception: the subscription check of a pull has
    committed before the delivery transaction starts, so a fault in the delivery transaction leaves
    the refreshed `expiresAt` of *the pulled subscription* (what C14 asks of every pull) and nothing
    else: topics, messages, deliveries and snapshots are untouched, no row appears or disappears,
    and a subscription row either is unchanged or is the pulled one (same id as the live
    subscription of that name) with only `expiresAt` rewritten to `now + ttl`; the caller gets an
    error and nobody is woken. -/
theorem C09_fault_pull (st : St) (s : String) (a b : Nat) (c : Bool) (d : Int) (e : PullObs) :
    let r := stepFaulted st (.pull s a b c d e) 1
    r.1.db.topics = st.db.topics ∧ r.1.db.msgs = st.db.msgs ∧ r.1.db.dels = st.db.dels ∧ r.1.db.snaps = st.db.snaps ∧
    r.1.now = st.now ∧ r.2.ok = false ∧ r.2.wakes = [] ∧
    r.1.db.subs.length = st.db.subs.length ∧
    (∀ (i : Nat) (x y : Sub), st.db.subs[i]? = some x → r.1.db.subs[i]? = some y →
      y = x ∨ (∃ sub, st.db.liveSubByName s = some sub ∧ x.id = sub.id ∧ y = { x with expiresAt := st.now + sub.ttl })) := by
  simp only [stepFaulted, faultEffect]
  cases hs : st.db.liveSubByName s with
  | none =>
    refine ⟨rfl, rfl, rfl, rfl, rfl, rfl, rfl, rfl, ?_⟩
    intro i x y hx hy
    rw [hx] at hy; injection hy with hy; exact Or.inl hy.symm
  | some sub =>
    refine ⟨rfl, rfl, rfl, rfl, rfl, rfl, rfl, ?_, ?_⟩
    · simp [refreshExpiry, updateWhere]
    · intro i x y hx hy
      simp only [refreshExpiry, updateWhere, List.getElem?_map, hx, Option.map_some] at hy
      injection hy with hy
      by_cases hid : (x.id == sub.id) = true
      · rw [if_pos hid] at hy
        exact Or.inr ⟨sub, rfl, by simpa using hid, hy.symm⟩
      · rw [if_neg hid] at hy; exact Or.inl hy.symm

/-- **C09 (retry)**: after a fault that left nothing behind, retrying the operation is the undisturbed
    operation; after the pull exception, the retry differs from the undisturbed pull only through
    the already refreshed expiry, which the retried pull rewrites to the same value. -/
theorem C09_retry (st : St) (op : Op) (k : Nat) (h : (∀ s a b c d e, op ≠ .pull s a b c d e) ∨ k ≠ 1) :
    step (stepFaulted st op k).1 op = step st op := by
  rw [(C09_fault_no_effect st op k h).1]

/-- refreshing the expiry twice at the same instant is refreshing it once -/
theorem refreshExpiry_idem (db : Db) (s : Sub) (now : Time) :
    refreshExpiry (refreshExpiry db s now) s now = refreshExpiry db s now := by
  simp only [refreshExpiry, updateWhere, List.map_map]
  congr 1
  apply List.map_congr_left
  intro x _
  simp only [Function.comp]
  by_cases h : (x.id == s.id) = true
  · simp [h]
  · simp [h]

/-- **C09 (errors of the operation itself)**: when the operation answers with an error — whatever the
    reason — nothing was committed and nobody is woken. -/
theorem C09_error_no_effect (st : St) (op : Op) (h : (step st op).2.ok = false) :
    (step st op).1 = st ∧ (step st op).2.wakes = [] := by
  refine ⟨C01_failed_request_no_change st op h, ?_⟩
  cases op <;> simp only [step, finish] at h ⊢ <;> (try split at h) <;> (try split) <;> simp_all

/-- **C09 (no wake-up without commit)**: every place in the source that schedules a wake-up does so
    from a commit hook (`OnCommit`) whose body runs only when the commit returned no error — the
    extractor lists every registration with its guard — and the only wake-up calls outside such
    hooks are in the LISTEN/NOTIFY relay `notifier.go`, which relays notifications that another
    process sent after *its* commit. -/
theorem C09_hooks_guarded :
    (∀ h ∈ Extracted.commitHooks, h.2 = "guarded") ∧
    (∀ w ∈ Extracted.strayWakes, w.1 = "notifier.go") := by
  -- (decided on the lists as a whole: the statement does not depend on how many hooks there are, in
  -- which functions they sit, or in which order the extractor lists them)
  have h1 : Extracted.commitHooks.all (fun h => h.2 == "guarded") = true := by decide
  have h2 : Extracted.strayWakes.all (fun w => w.1 == "notifier.go") = true := by decide
  refine ⟨?_, ?_⟩
  · intro h hh; simpa using List.all_eq_true.mp h1 h hh
  · intro w hw; simpa using List.all_eq_true.mp h2 w hw

/-- non-vacuity: a pull on a live subscription hit in its second transaction does change the expiry -/
example :
    let sub : Sub := { id := 1, name := "s", topicId := 1, createdAt := 0, expiresAt := 5, deletedAt := none, ttl := 100, messageTtl := 10, ordered := false, labels := [], minBackoff := none, maxBackoff := none, pushEndpoint := none, filter := none, maxAttempts := none, dlTopicId := none, deliveryDelay := 0 }
    let st : St := { db := { subs := [sub] }, now := 7 }
    ((stepFaulted st (.pull "s" 1 1 false 0 ⟨[], [], []⟩) 1).1.db.subs.map (·.expiresAt)) = [107] := by
  simp [stepFaulted, faultEffect, Db.liveSubByName, Sub.live, refreshExpiry, updateWhere]

end Mmmbbb
