/-
C11 — Streaming pull honours flow control and keeps flowing.

"On a streaming pull the number of messages sent but not yet acknowledged, nacked or expired never
exceeds the client's max outstanding messages, and their total size never exceeds max outstanding
bytes except for a single oversized message sent when nothing else is outstanding.  Whenever capacity
is freed - by an ack or nack on the stream or by an Acknowledge call made outside it - and
deliverable messages remain, the stream sends more promptly; it never stalls with capacity and
messages both available."

The model (Model/Stream.lean) is the bookkeeping shared by the streamer's goroutines; the theorems
hold for every sequence of events — every interleaving of the sender's loop with flow-control
messages, fetch results of any content, stream acks/nacks, outside acknowledgements and refreshes.
The limits are the largest the client has asked for so far (`hi`), i.e. the client's limits whenever
it does not shrink them mid-stream.
-/
import Mmmbbb.Model.Stream
import Mmmbbb.Proofs.Notify
namespace Mmmbbb.Stream

structure SInv (s : St) : Prop where
  hi_ge : s.fc.msgs ≤ s.hi.msgs ∧ s.fc.bytes ≤ s.hi.bytes
  count : (s.pending.length : Int) ≤ s.hi.msgs
  bytes : bytesOf s.pending ≤ s.hi.bytes ∨ s.pending.length ≤ 1
  out_sub : ∀ i ∈ s.out, i ∈ s.pending.map (·.1)
  budget : ∀ m b strict, s.budget = some (m, b, strict) →
    (m : Int) + s.pending.length ≤ s.hi.msgs ∧ b + bytesOf s.pending ≤ s.hi.bytes ∧ (strict = false → s.pending = []) ∧ 0 < b
  excl : s.budget ≠ none → s.waiting = false
  /-- the sender sleeps in the flow-control wait without a pending wake token only while the limits are used up -/
  flow : s.waiting = true → s.token = false → ¬ (0 < s.fc.bytes - bytesOf s.pending ∧ 0 < s.fc.msgs - s.pending.length)
  /-- the reader's update of the map is the guarded one (Extracted.streamerReaderReleases) -/
  g : s.guarded = true
  /-- what the reader is about to release is not outstanding: an id sent again since the reader's
      snapshot has left `releasing` -/
  rel : ∀ i ∈ s.releasing, i ∉ s.out
  /-- the sender enters what it fetched into `pending` before it sends it (Extracted.streamerBooksBeforeSend) -/
  bf : s.bookFirst = true
  ub : s.unbooked = []
  /-- an entry of `pending` that is no longer outstanding is either about to be released by the reader
      or settled in the database with a notification for the refresh goroutine outstanding -/
  stale : ∀ x ∈ s.pending, x.1 ∉ s.out → x.1 ∈ s.releasing ∨ (x.1 ∈ s.done ∧ s.dirty = true)

/-! ### list facts -/

theorem bytesOf_nonneg (p : List (Nat × Nat)) : 0 ≤ bytesOf p := by
  induction p with
  | nil => simp [bytesOf]
  | cons x r ih => obtain ⟨a, b⟩ := x; simp only [bytesOf]; omega

theorem bytesOf_append (p q : List (Nat × Nat)) : bytesOf (p ++ q) = bytesOf p + bytesOf q := by
  induction p with
  | nil => simp [bytesOf]
  | cons x r ih => obtain ⟨a, b⟩ := x; simp only [List.cons_append, bytesOf, ih]; omega

theorem bytesOf_filter_le (p : List (Nat × Nat)) (f : Nat × Nat → Bool) : bytesOf (p.filter f) ≤ bytesOf p := by
  induction p with
  | nil => simp [bytesOf]
  | cons x r ih =>
    obtain ⟨a, b⟩ := x
    simp only [List.filter_cons]
    split
    · simp only [bytesOf]; omega
    · simp only [bytesOf]; have := bytesOf_nonneg r; omega

theorem removeIds_length_le (p : List (Nat × Nat)) (ids : List Nat) : (removeIds p ids).length ≤ p.length :=
  List.length_filter_le _ _

theorem removeIds_bytes_le (p : List (Nat × Nat)) (ids : List Nat) : bytesOf (removeIds p ids) ≤ bytesOf p :=
  bytesOf_filter_le _ _

theorem mem_removeIds {p : List (Nat × Nat)} {ids : List Nat} {i : Nat}
    (h : i ∈ p.map (·.1)) (hn : i ∉ ids) : i ∈ (removeIds p ids).map (·.1) := by
  simp only [List.mem_map] at h ⊢
  obtain ⟨x, hx, rfl⟩ := h
  exact ⟨x, List.mem_filter.mpr ⟨hx, by simpa using hn⟩, rfl⟩

theorem removeIds_noop (p : List (Nat × Nat)) (g : List Nat) (h : p.any (fun x => g.contains x.1) = false) :
    removeIds p g = p := by
  unfold removeIds
  apply List.filter_eq_self.mpr
  intro x hx
  have := List.any_eq_false.mp h x hx
  simpa using this

/-! ### the byte budget of applyResults -/

theorem select_length_le (strict : Bool) (b : Int) (cands : List (Nat × Nat)) (i : Nat) (acc : Int) :
    (select strict b cands i acc).length ≤ cands.length := by
  induction cands generalizing i acc with
  | nil => simp [select]
  | cons x r ih =>
    obtain ⟨id, sz⟩ := x
    simp only [select]
    split
    · have := ih (i + 1) acc; simp only [List.length_cons]; omega
    · have := ih (i + 1) (acc + sz); simp only [List.length_cons]; omega

/-- strict mode (and every candidate after the first in any mode) stays inside the budget -/
theorem select_strict (b : Int) (cands : List (Nat × Nat)) (i : Nat) (acc : Int) (strict : Bool)
    (hs : strict = true ∨ 0 < i) (hacc : acc ≤ b) :
    acc + bytesOf (select strict b cands i acc) ≤ b := by
  induction cands generalizing i acc with
  | nil => simp [select, bytesOf]; exact hacc
  | cons x r ih =>
    obtain ⟨id, sz⟩ := x
    simp only [select]
    have hcond : (strict || decide (0 < i)) = true := by
      rcases hs with h | h
      · simp [h]
      · simp [h]
    rw [hcond]
    simp only [Bool.true_and]
    split
    · exact ih (i + 1) acc (Or.inr (Nat.succ_pos i)) hacc
    · rename_i hno
      have hfit : acc + (sz : Int) ≤ b := by simpa using hno
      have := ih (i + 1) (acc + sz) (Or.inr (Nat.succ_pos i)) hfit
      simp only [bytesOf]; omega

/-- once over the budget nothing more is taken -/
theorem select_over (b : Int) (cands : List (Nat × Nat)) (i : Nat) (acc : Int) (strict : Bool)
    (hi : 0 < i) (hacc : b < acc) : select strict b cands i acc = [] := by
  induction cands generalizing i with
  | nil => simp [select]
  | cons x r ih =>
    obtain ⟨id, sz⟩ := x
    simp only [select]
    have hcond : ((strict || decide (0 < i)) && decide (b < acc + (sz : Int))) = true := by
      have : b < acc + (sz : Int) := by omega
      simp [hi, this]
    rw [hcond]
    simp only [if_true]
    exact ih (i + 1) (Nat.succ_pos i)

/-- a non-strict fetch (nothing outstanding): within the budget, or a single oversized message -/
theorem select_first (b : Int) (hb : 0 < b) (cands : List (Nat × Nat)) :
    bytesOf (select false b cands 0 0) ≤ b ∨ (select false b cands 0 0).length ≤ 1 := by
  cases cands with
  | nil => left; simp [select, bytesOf]; omega
  | cons x r =>
    obtain ⟨id, sz⟩ := x
    have e : select false b ((id, sz) :: r) 0 0 = (id, sz) :: select false b r 1 sz := by simp [select]
    rw [e]
    by_cases hfit : (sz : Int) ≤ b
    · left
      have := select_strict b r 1 sz false (Or.inr Nat.one_pos) hfit
      simp only [bytesOf]
      omega
    · right
      have : select false b r 1 (sz : Int) = [] := select_over b r 1 _ false Nat.one_pos (by omega)
      simp [this]

/-! ### the invariant -/

theorem SInv.init : SInv {} := by
  refine ⟨⟨by decide, by decide⟩, by decide, Or.inl (by decide), ?_, ?_, ?_, ?_, rfl, ?_, rfl, rfl, ?_⟩
  · intro i hi; cases hi
  · intro m b strict h; cases h
  · intro h; exact absurd rfl h
  · intro h; cases h
  · intro i hi; cases hi
  · intro x hx; cases hx

theorem maxFc_ge (a b : Fc) : a.msgs ≤ (maxFc a b).msgs ∧ a.bytes ≤ (maxFc a b).bytes ∧
    b.msgs ≤ (maxFc a b).msgs ∧ b.bytes ≤ (maxFc a b).bytes := by
  simp only [maxFc]
  refine ⟨?_, ?_, ?_, ?_⟩ <;> split <;> omega

theorem SInv.step {s : St} (h : SInv s) (e : Ev) : SInv (step s e) := by
  cases e with
  | setFc m b =>
    obtain ⟨g1, g2, g3, g4⟩ := maxFc_ge s.hi ⟨m, b⟩
    refine ⟨⟨g3, g4⟩, ?_, ?_, h.out_sub, ?_, h.excl, ?_, h.g, h.rel, h.bf, h.ub, h.stale⟩
    · have := h.count; show (s.pending.length : Int) ≤ (maxFc s.hi ⟨m, b⟩).msgs; omega
    · rcases h.bytes with h1 | h1
      · left; show bytesOf s.pending ≤ (maxFc s.hi ⟨m, b⟩).bytes; omega
      · right; exact h1
    · intro m' b' st hb
      obtain ⟨a1, a2, a3, a4⟩ := h.budget m' b' st hb
      refine ⟨?_, ?_, a3, a4⟩
      · show (m' : Int) + s.pending.length ≤ (maxFc s.hi ⟨m, b⟩).msgs; omega
      · show b' + bytesOf s.pending ≤ (maxFc s.hi ⟨m, b⟩).bytes; omega
    · intro _ ht; cases ht
  | loop =>
    simp only [Stream.step]
    split
    · exact h
    · rename_i hbud
      split
      · exact h
      · rename_i hw
        split
        · rename_i hcap
          refine ⟨h.hi_ge, h.count, h.bytes, h.out_sub, ?_, ?_, ?_, h.g, h.rel, h.bf, h.ub, h.stale⟩
          · intro m b strict hb
            simp only [Option.some.injEq, Prod.mk.injEq] at hb
            obtain ⟨hm, hbb, hst⟩ := hb
            have hg := h.hi_ge
            refine ⟨?_, ?_, ?_, ?_⟩
            · have hc2 := hcap.2
              show (m : Int) + s.pending.length ≤ s.hi.msgs
              subst hm
              split
              · rw [Int.toNat_of_nonneg (by omega)]; omega
              · show ((100 : Nat) : Int) + _ ≤ _
                omega
            · have hc1 := hcap.1
              show b + bytesOf s.pending ≤ s.hi.bytes
              subst hbb; omega
            · intro hs
              subst hst
              have : s.pending.isEmpty = true := by
                have h0 : (!s.pending.isEmpty || s.sawPending) = false := hs
                simp only [Bool.or_eq_false_iff, Bool.not_eq_false'] at h0
                exact h0.1
              exact List.isEmpty_iff.mp this
            · subst hbb; exact hcap.1
          · intro _; simpa using hw
          · intro hwt; simp only at hwt; rw [hwt] at hw; exact absurd rfl hw
        · rename_i hcap
          refine ⟨h.hi_ge, h.count, h.bytes, h.out_sub, ?_, ?_, ?_, h.g, h.rel, h.bf, h.ub, h.stale⟩
          · intro m b strict hb; simp only at hb; rw [hbud] at hb; cases hb
          · intro hne; simp only at hne; exact absurd hbud hne
          · intro _ _; exact hcap
  | wake spurious =>
    simp only [Stream.step]
    split
    · refine ⟨h.hi_ge, h.count, h.bytes, h.out_sub, h.budget, fun _ => rfl, ?_, h.g, h.rel, h.bf, h.ub, h.stale⟩
      intro hw; cases hw
    · exact h
  | query cands =>
    simp only [Stream.step]
    split
    · exact h
    · rename_i m b strict hbud
      obtain ⟨a1, a2, a3, a4⟩ := h.budget m b strict hbud
      have hlen : (select strict b (cands.take m) 0 0).length ≤ m := by
        have := select_length_le strict b (cands.take m) 0 0
        have h2 : (cands.take m).length ≤ m := by simp [List.length_take]; omega
        omega
      have hw : s.waiting = false := h.excl (by rw [hbud]; simp)
      have hbf := h.bf
      simp only [hbf, if_true]
      refine ⟨h.hi_ge, ?count, ?bytes, ?osub, ?budget, ?excl, ?flow, h.g, ?rel, rfl, h.ub, ?stale⟩
      case stale =>
        -- entries of messages that are sent (again) are fresh; the others keep their excuse
        intro x hx hno
        have hg := h.g
        simp only [hg, if_true]
        have hx' : x ∈ insertAll s.pending (select strict b (cands.take m) 0 0) := hx
        unfold insertAll at hx'
        rcases List.mem_append.mp hx' with h1 | h1
        · have h1' := List.mem_filter.mp h1
          have hns : x.1 ∉ (select strict b (cands.take m) 0 0).map (·.1) := by simpa using h1'.2
          have hno' : x.1 ∉ s.out := by
            intro ho
            apply hno
            show x.1 ∈ s.out.filter (fun i => !((select strict b (cands.take m) 0 0).map (·.1)).contains i) ++ _
            exact List.mem_append.mpr (Or.inl (List.mem_filter.mpr ⟨ho, by simpa using hns⟩))
          rcases h.stale x h1'.1 hno' with hr | hr
          · left; exact List.mem_filter.mpr ⟨hr, by simpa using hns⟩
          · right; exact hr
        · exfalso
          apply hno
          show x.1 ∈ s.out.filter _ ++ (select strict b (cands.take m) 0 0).map (·.1)
          exact List.mem_append.mpr (Or.inr (List.mem_map.mpr ⟨x, h1, rfl⟩))
      case rel =>
        -- an id sent again leaves `releasing`; the others were not outstanding and are not sent now
        intro i hi ho
        have hg := h.g
        simp only [hg, if_true] at hi
        have hi' := List.mem_filter.mp hi
        have hns : i ∉ (select strict b (cands.take m) 0 0).map (·.1) := by simpa using hi'.2
        rcases List.mem_append.mp ho with h1 | h1
        · exact h.rel i hi'.1 (List.mem_filter.mp h1).1
        · exact hns h1
      · show ((insertAll s.pending (select strict b (cands.take m) 0 0)).length : Int) ≤ s.hi.msgs
        unfold insertAll
        have := removeIds_length_le s.pending ((select strict b (cands.take m) 0 0).map (·.1))
        simp only [List.length_append]
        omega
      · show bytesOf (insertAll s.pending (select strict b (cands.take m) 0 0)) ≤ s.hi.bytes ∨
          (insertAll s.pending (select strict b (cands.take m) 0 0)).length ≤ 1
        unfold insertAll
        cases strict with
        | true =>
          left
          have h1 := select_strict b (cands.take m) 0 0 true (Or.inl rfl) (by omega)
          have h2 := removeIds_bytes_le s.pending ((select true b (cands.take m) 0 0).map (·.1))
          rw [bytesOf_append]; omega
        | false =>
          have hp := a3 rfl
          rw [hp] at a2 ⊢
          simp only [removeIds, List.filter_nil, List.nil_append]
          rcases select_first b a4 (cands.take m) with h1 | h1
          · left; simp only [bytesOf] at a2; omega
          · right; exact h1
      · intro i hi
        show i ∈ (insertAll s.pending (select strict b (cands.take m) 0 0)).map (·.1)
        unfold insertAll
        simp only [List.map_append, List.mem_append]
        rcases List.mem_append.mp hi with h1 | h1
        · left
          have := List.mem_filter.mp h1
          exact mem_removeIds (h.out_sub i this.1) (by simpa using this.2)
        · right; exact h1
      · intro m' b' st hb; cases hb
      · intro hne; exact absurd rfl hne
      · intro hwt; simp only at hwt; rw [hw] at hwt; cases hwt
  | fetchEmpty =>
    refine ⟨h.hi_ge, h.count, h.bytes, h.out_sub, ?_, ?_, ?_, h.g, h.rel, h.bf, h.ub, h.stale⟩
    · intro m b st hb; cases hb
    · intro hne; exact absurd rfl hne
    · intro hwt ht
      by_cases hb : s.budget = none
      · exact h.flow hwt ht
      · have := h.excl hb; simp only [Stream.step] at hwt; rw [this] at hwt; cases hwt
  | settle ids =>
    have hl := removeIds_length_le s.pending ids
    have hb := removeIds_bytes_le s.pending ids
    refine ⟨h.hi_ge, ?_, ?_, ?_, ?_, h.excl, ?_, h.g, fun i hi ho => h.rel i hi (List.mem_filter.mp ho).1, h.bf, h.ub, ?_⟩
    rotate_right
    · intro x hx hno
      have hx' := List.mem_filter.mp hx
      have hni : x.1 ∉ ids := by simpa using hx'.2
      exact h.stale x hx'.1 (fun ho => hno (List.mem_filter.mpr ⟨ho, by simpa using hni⟩))
    · have := h.count; show ((removeIds s.pending ids).length : Int) ≤ s.hi.msgs; omega
    · rcases h.bytes with h1 | h1
      · left; show bytesOf (removeIds s.pending ids) ≤ s.hi.bytes; omega
      · right; show (removeIds s.pending ids).length ≤ 1; omega
    · intro i hi
      have := List.mem_filter.mp hi
      exact mem_removeIds (h.out_sub i this.1) (by simpa using this.2)
    · intro m b st hbud
      obtain ⟨a1, a2, a3, a4⟩ := h.budget m b st hbud
      refine ⟨?_, ?_, ?_, a4⟩
      · show (m : Int) + (removeIds s.pending ids).length ≤ s.hi.msgs; omega
      · show b + bytesOf (removeIds s.pending ids) ≤ s.hi.bytes; omega
      · intro hs; show removeIds s.pending ids = []; rw [a3 hs]; rfl
    · intro _ ht; cases ht
  | extSettle ids =>
    refine ⟨h.hi_ge, h.count, h.bytes, ?_, h.budget, h.excl, h.flow, h.g, fun i hi ho => h.rel i hi (List.mem_filter.mp ho).1,
      h.bf, h.ub, ?_⟩
    · intro i hi
      exact h.out_sub i (List.mem_filter.mp hi).1
    · intro x hx hno
      by_cases ho : x.1 ∈ s.out
      · right
        have : x.1 ∈ ids := by
          apply Classical.byContradiction
          intro hni
          exact hno (List.mem_filter.mpr ⟨ho, by simpa using hni⟩)
        exact ⟨List.mem_append.mpr (Or.inr this), rfl⟩
      · rcases h.stale x hx ho with hr | hr
        · left; exact hr
        · right; exact ⟨List.mem_append.mpr (Or.inl hr.1), rfl⟩
  | settleCommit ids =>
    refine ⟨h.hi_ge, h.count, h.bytes, ?_, h.budget, h.excl, h.flow, h.g, ?_, h.bf, h.ub, ?_⟩
    · intro i hi
      exact h.out_sub i (List.mem_filter.mp hi).1
    · intro i hi ho
      have ho' := List.mem_filter.mp ho
      rcases List.mem_append.mp hi with h1 | h1
      · exact h.rel i h1 ho'.1
      · have : i ∈ ids := (List.mem_filter.mp h1).1
        simp [this] at ho'
    · intro x hx hno
      by_cases hi : x.1 ∈ ids
      · left
        refine List.mem_append.mpr (Or.inr (List.mem_filter.mpr ⟨hi, ?_⟩))
        simp only [List.contains_iff_mem, List.mem_map]
        exact ⟨x, hx, rfl⟩
      · have hno' : x.1 ∉ s.out := fun ho => hno (List.mem_filter.mpr ⟨ho, by simpa using hi⟩)
        rcases h.stale x hx hno' with hr | hr
        · left; exact List.mem_append.mpr (Or.inl hr)
        · right; exact hr
  | settleBook =>
    have hl := removeIds_length_le s.pending s.releasing
    have hb := removeIds_bytes_le s.pending s.releasing
    refine ⟨h.hi_ge, ?_, ?_, ?_, ?_, h.excl, ?_, h.g, ?_, h.bf, h.ub, ?_⟩
    rotate_right
    · intro x hx hno
      have hx' := List.mem_filter.mp hx
      have hnr : x.1 ∉ s.releasing := by simpa using hx'.2
      rcases h.stale x hx'.1 hno with hr | hr
      · exact absurd hr hnr
      · right; exact hr
    · have := h.count; show ((removeIds s.pending s.releasing).length : Int) ≤ s.hi.msgs; omega
    · rcases h.bytes with h1 | h1
      · left; show bytesOf (removeIds s.pending s.releasing) ≤ s.hi.bytes; omega
      · right; show (removeIds s.pending s.releasing).length ≤ 1; omega
    · intro i hi
      exact mem_removeIds (h.out_sub i hi) (fun hr => h.rel i hr hi)
    · intro m b st hbud
      obtain ⟨a1, a2, a3, a4⟩ := h.budget m b st hbud
      refine ⟨?_, ?_, ?_, a4⟩
      · show (m : Int) + (removeIds s.pending s.releasing).length ≤ s.hi.msgs; omega
      · show b + bytesOf (removeIds s.pending s.releasing) ≤ s.hi.bytes; omega
      · intro hs; show removeIds s.pending s.releasing = []; rw [a3 hs]; rfl
    · intro _ ht; cases ht
    · intro i hi; cases hi
  | refresh =>
    simp only [Stream.step]
    have hl := removeIds_length_le s.pending (s.done.filter (fun i => !s.out.contains i))
    have hb := removeIds_bytes_le s.pending (s.done.filter (fun i => !s.out.contains i))
    refine ⟨h.hi_ge, ?_, ?_, ?_, ?_, h.excl, ?_, h.g, h.rel, h.bf, h.ub, ?_⟩
    · have := h.count; show ((removeIds s.pending _).length : Int) ≤ s.hi.msgs; omega
    · rcases h.bytes with h1 | h1
      · left; show bytesOf (removeIds s.pending _) ≤ s.hi.bytes; omega
      · right; show (removeIds s.pending _).length ≤ 1; omega
    · intro i hi
      apply mem_removeIds (h.out_sub i hi)
      intro hg
      have := (List.mem_filter.mp hg).2
      simp [hi] at this
    · intro m b st hbud
      obtain ⟨a1, a2, a3, a4⟩ := h.budget m b st hbud
      refine ⟨?_, ?_, ?_, a4⟩
      · show (m : Int) + (removeIds s.pending _).length ≤ s.hi.msgs; omega
      · show b + bytesOf (removeIds s.pending _) ≤ s.hi.bytes; omega
      · intro hs; show removeIds s.pending _ = []; rw [a3 hs]; rfl
    · intro hwt ht
      simp only [Bool.or_eq_false_iff] at ht
      rw [removeIds_noop _ _ ht.2]
      exact h.flow hwt ht.1
    · -- what was settled in the database has been dropped: the rest keeps the reader's excuse
      intro x hx hno
      have hx' := List.mem_filter.mp hx
      have hng : x.1 ∉ s.done.filter (fun i => !s.out.contains i) := by
        intro hm
        have h2 := hx'.2
        rw [List.contains_iff_mem.mpr hm] at h2
        cases h2
      rcases h.stale x hx'.1 hno with hr | hr
      · left; exact hr
      · exfalso
        exact hng (List.mem_filter.mpr ⟨hr.1, by simpa using hno⟩)
  | lateBook =>
    have hub := h.ub
    have hp : insertAll s.pending s.unbooked = s.pending := by
      rw [hub]; unfold insertAll removeIds
      simp
    simp only [Stream.step, hp]
    exact ⟨h.hi_ge, h.count, h.bytes, h.out_sub, h.budget, h.excl, h.flow, h.g, h.rel, h.bf, rfl, h.stale⟩

theorem SInv.run {s : St} (h : SInv s) (evs : List Ev) : SInv (run s evs) := by
  induction evs generalizing s with
  | nil => exact h
  | cons e r ih => exact ih (h.step e)

/-- the outstanding messages: the entries of `pending` whose id is really still outstanding -/
def outstanding (s : St) : List (Nat × Nat) := s.pending.filter (fun x => s.out.contains x.1)

/-- **C11 (bound)**: after any sequence of events, every id sent and not yet acknowledged, nacked or
    expired is among the outstanding entries, which number at most the client's max outstanding
    messages and whose total size is at most max outstanding bytes — except for a single message. -/
theorem C11_bound (evs : List Ev) :
    let s := run {} evs
    (∀ i ∈ s.out, i ∈ (outstanding s).map (·.1)) ∧
    ((outstanding s).length : Int) ≤ s.hi.msgs ∧
    (bytesOf (outstanding s) ≤ s.hi.bytes ∨ (outstanding s).length ≤ 1) := by
  intro s
  have h : SInv s := SInv.init.run evs
  have hl : (outstanding s).length ≤ s.pending.length := List.length_filter_le _ _
  refine ⟨?_, ?_, ?_⟩
  · intro i hi
    have := h.out_sub i hi
    simp only [List.mem_map] at this ⊢
    obtain ⟨x, hx, rfl⟩ := this
    exact ⟨x, List.mem_filter.mpr ⟨hx, by simpa using hi⟩, rfl⟩
  · have := h.count; omega
  · rcases h.bytes with h1 | h1
    · left; have := bytesOf_filter_le s.pending (fun x => s.out.contains x.1); unfold outstanding; omega
    · right; omega

/-- **C11 (the oversized exception is exactly that)**: a fetch made while something is outstanding is
    strict — it never takes the total over the byte limit. -/
theorem C11_strict_when_pending (evs : List Ev) (m : Nat) (b : Int) :
    let s := run {} evs
    s.budget = some (m, b, false) → s.pending = [] := by
  intro s hb
  exact ((SInv.init.run evs).budget m b false hb).2.2.1 rfl

/-- **C11 (no missed capacity)**: after any sequence of events, if the sender sleeps in its
    flow-control wait and no wake token is pending, the limits are used up by what the streamer
    still holds as pending: every event that frees capacity (ack, nack, zero deadline, refresh after
    an outside acknowledgement, a flow-control message) leaves a token. -/
theorem C11_no_missed_capacity (evs : List Ev) :
    let s := run {} evs
    s.waiting = true → s.token = false →
      ¬ (0 < s.fc.bytes - bytesOf s.pending ∧ 0 < s.fc.msgs - s.pending.length) := by
  intro s
  exact (SInv.init.run evs).flow

/-! ### the reader between its COMMIT and its update of the map

`settleCommit` / `settleBook` split a stream ack / nack at the transaction boundary: after the
commit a nacked message is deliverable again and a fetch may send it before the reader updates the
map.  `C11_bound` above quantifies over these events as well.  It needs the reader to release only
the entries it saw before the database call (`guarded`); the source has that shape, and without it
the bound fails. -/

/-- the source's reader has the guarded shape, so the model's initial state is the one the theorems start from -/
theorem C11_reader_releases_guarded :
    (∀ r ∈ Extracted.streamerReaderReleases, r = "guarded") ∧ Extracted.streamerReaderReleases ≠ [] ∧
    St.ofSource = {} := by
  refine ⟨?_, ?_, ?_⟩
  · have h : Extracted.streamerReaderReleases.all (· == "guarded") = true := by decide
    intro r hr; simpa using List.all_eq_true.mp h r hr
  · decide
  · simp [St.ofSource, Extracted.streamerReaderReleases, Extracted.streamerBooksBeforeSend]

/-- limits 2 messages: m1 is sent, nacked on the stream (commit), fetched and sent again before the
    reader updates the map, then m2 and m3 arrive.  An unguarded reader forgets the re-sent m1:
    three messages are outstanding. -/
theorem C11_unguarded_release_breaks_bound :
    let evs := [Ev.setFc 2 1000, .loop, .query [(1, 14)], .settleCommit [1], .loop, .query [(1, 14)], .settleBook,
                .loop, .query [(2, 14), (3, 14)]]
    (run { guarded := false } evs).out = [1, 2, 3] ∧ (run { guarded := false } evs).hi.msgs = 2 ∧
    (run {} evs).out = [1, 2] := by decide

/-- the two halves in direct succession are the atomic `settle` (as far as the sender can tell) -/
example : (run {} [.setFc 2 10, .loop, .query [(1, 4), (3, 5)], .settleCommit [1], .settleBook]).pending =
    (run {} [.setFc 2 10, .loop, .query [(1, 4), (3, 5)], .settle [1]]).pending := by decide

/-! ### what the streamer holds as pending is what is outstanding

`C11_no_missed_capacity` speaks about `pending`, the streamer's own book.  The book can lag behind
the truth — an Acknowledge made outside the stream, the reader between its COMMIT and its update —
but only while something is on its way to correct it: -/

/-- **C11 (the book converges)**: after any sequence of events, an entry of `pending` whose message
    is no longer outstanding is about to be released by the reader, or is settled in the database
    with a notification for the refresh goroutine outstanding. -/
theorem C11_stale_entries_are_excused (evs : List Ev) :
    let s := run {} evs
    ∀ x ∈ s.pending, x.1 ∉ s.out → x.1 ∈ s.releasing ∨ (x.1 ∈ s.done ∧ s.dirty = true) := by
  intro s
  exact (SInv.init.run evs).stale

/-- **C11 (no stall)**: after any sequence of events, when the reader is idle, no notification for the
    refresh goroutine is outstanding, and the sender sleeps in its flow-control wait without a wake
    token, the limits are used up by messages that are really outstanding: every entry counted
    against the limits is sent and neither acknowledged, nacked nor expired. -/
theorem C11_no_stall (evs : List Ev) :
    let s := run {} evs
    s.releasing = [] → s.dirty = false → s.waiting = true → s.token = false →
      (∀ x ∈ s.pending, x.1 ∈ s.out) ∧
      ¬ (0 < s.fc.bytes - bytesOf s.pending ∧ 0 < s.fc.msgs - s.pending.length) := by
  intro s hrel hdirty hw ht
  have h := SInv.init.run evs
  refine ⟨?_, h.flow hw ht⟩
  intro x hx
  apply Classical.byContradiction
  intro hno
  rcases h.stale x hx hno with hr | hr
  · rw [hrel] at hr; cases hr
  · rw [hdirty] at hr; cases hr.2

/-- the source's sender has the book-first shape -/
theorem C11_sender_books_before_send :
    (∀ r ∈ Extracted.streamerBooksBeforeSend, r = "book-first") ∧ Extracted.streamerBooksBeforeSend ≠ [] := by
  refine ⟨?_, ?_⟩
  · intro r hr
    simp only [Extracted.streamerBooksBeforeSend, List.mem_cons, List.mem_nil_iff, or_false, or_self] at hr
    exact hr
  · simp [Extracted.streamerBooksBeforeSend]

/-- a sender that sends first: the client acknowledges m1 (outside the stream) before the sender has
    entered it into its book; the refresh goroutine finds nothing to drop; the late entry then stays,
    with nothing on its way to remove it — the stream believes its one slot is taken for ever -/
theorem C11_send_first_variant_stalls :
    let s := run { bookFirst := false } [Ev.setFc 1 1000, .loop, .query [(1, 14)], .extSettle [1], .refresh, .lateBook, .loop, .wake false, .loop]
    s.pending = [(1, 14)] ∧ s.out = [] ∧ s.dirty = false ∧ s.releasing = [] ∧ s.waiting = true ∧ s.token = false := by
  decide

/-- non-vacuity: limits 3 messages / 10 bytes; 3 candidates of 4, 8 and 5 bytes: the first and the
    third are sent, 8 does not fit; with limit 2 the sender then blocks; an ack leaves a token -/
example : (run {} [.setFc 3 10, .loop, .query [(1, 4), (2, 8), (3, 5)]]).pending = [(1, 4), (3, 5)] := by decide
example :
    let s := run {} [.setFc 2 10, .loop, .query [(1, 4), (3, 5)], .loop]
    s.pending = [(1, 4), (3, 5)] ∧ s.waiting = true := by decide
example :
    let s := run {} [.setFc 2 10, .loop, .query [(1, 4), (3, 5)], .loop, .settle [1]]
    s.pending = [(3, 5)] ∧ s.token = true ∧ s.waiting = true := by decide
/-- a single oversized message goes out when nothing is outstanding -/
example : (run {} [.setFc 2 10, .loop, .query [(1, 40), (2, 3)]]).pending = [(1, 40)] := by decide

/-- the model's `refresh` is one atomic step that removes what is settled in the database and was not
    sent again since; in the source the refresher takes the list of pending ids, asks the database, and
    applies the answer to *that list* (regenerated) — entries the sender books while the query is
    under way are not in the list and stay, which is what makes the atomic step a sound abstraction
    (a refresher that walks the live map instead deletes them: the scheduled run `bound-refresh-race`
    of the harness exhibits the bound being broken) -/
theorem C11_refresh_applies_to_snapshot : Extracted.streamerRefreshApplies = ["ids"] := by decide

/-- **C11 (the sender's fetch does not sleep through a change)**: the sender of a streaming pull
    fetches through the same wait loop as a Pull (`GetSubscriptionMessages.execute`): it registers for
    wake-ups *before* it queries (regenerated from the source), so — by the wake-up protocol's
    invariant, for every interleaving of any waiters and writers — a fetch that would sleep while
    something is deliverable on its subscription always has a committed writer whose wake-up call is
    still to come: free capacity is not left unused until the fetch's own timeout. -/
theorem C11_fetch_no_lost_wakeup (subs maxes : Nat → Nat) (writers : Nat → List (Nat × Nat) × List Nat) (avail : Nat → Nat)
    (hcov : ∀ j s, 0 < Notify.addsFor (writers j).1 s → s ∈ (writers j).2) (sched : List Notify.Proc) :
    Extracted.pullRegistersBeforeQuery = true ∧
    (let σ := Notify.run Notify.Cfg.ofSource (Notify.init subs maxes writers avail) sched
     ∀ i, Notify.StuckProne σ.open (σ.waiter i) → 0 < σ.avail (σ.waiter i).sub →
      ∃ j, (σ.writer j).pc = 1 ∧ (σ.waiter i).sub ∈ (σ.writer j).wakes) := by
  have hg : Notify.Cfg.ofSource.Good := by constructor <;> decide
  exact ⟨by decide, ((Notify.Inv.init subs maxes writers avail hcov).run Notify.Cfg.ofSource hg sched).nolost⟩

end Mmmbbb.Stream
