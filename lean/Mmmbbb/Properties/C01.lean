/-
C01 — At-least-once delivery: an accepted message is never lost.

"Every message whose Publish call succeeded is delivered on every subscription that was attached to
the topic at publish time and whose filter the message satisfies, and it keeps being offered to
pulls (after each lease lapses) until it is acknowledged, its retention period ends, it is
dead-lettered, the subscription is deleted, or a seek moves past it.  Nothing else — other
subscriptions' acks, other messages, background maintenance, failed requests — can make it
disappear."
-/
import Mmmbbb.Proofs.Fields
import Mmmbbb.Proofs.Offered
import Mmmbbb.Properties.C15
namespace Mmmbbb

/-- the rows `mkRows` builds: one per observed forward, each the canonical fresh row for a live
    subscriber that accepts the message, linked to an allowed predecessor -/
theorem mkRows_spec (db : Db) (subs : List Sub) (m : Msg) (now : Time) :
    ∀ (fwds : List Fwd) (rows : List Delivery), mkRows db subs m now fwds = .ok rows →
      rows.map (·.subId) = fwds.map (·.subId) ∧ rows.map (·.id) = fwds.map (·.newId) ∧
      ∀ r ∈ rows, ∃ s f, s ∈ subs ∧ subAccepts s m.attrs = true ∧ predChoiceOk db s m now f.nb = true ∧
        r = mkDelivery s m now f := by
  intro fwds
  induction fwds with
  | nil =>
    intro rows h
    unfold mkRows at h
    injection h with h; subst h
    exact ⟨rfl, rfl, fun r hr => by cases hr⟩
  | cons f t ih =>
    intro rows h
    unfold mkRows at h
    split at h
    · cases h
    · rename_i s hs
      split at h
      · cases h
      · rename_i hacc
        split at h
        · cases h
        · rename_i hpred
          split at h
          · cases h
          · rename_i rest hrest
            injection h with h; subst h
            obtain ⟨h1, h2, h3⟩ := ih rest hrest
            have hsid : s.id = f.subId := by
              have := List.find?_some hs
              simpa using this
            refine ⟨?_, ?_, ?_⟩
            · simp [mkDelivery, h1, hsid]
            · simp [mkDelivery, h2]
            · intro r hr
              rcases List.mem_cons.mp hr with rfl | hr
              · exact ⟨s, f, List.mem_of_find?_eq_some hs, by simpa using hacc, by simpa using hpred, rfl⟩
              · exact h3 r hr

/-- **C01 (enqueued)**: a successful publish of one message appends — in the same transaction as the
    message row — fresh delivery rows such that: only live subscriptions of the topic whose filter
    accepts the message receive one, none receives two, and their number equals the number of
    accepting live subscriptions.  Every new row is outstanding (`completedAt = none`,
    `expiresAt = now + messageTtl`), due at `now + deliveryDelay`, and carries the message's id. -/
theorem C01_enqueued (db : Db) (t : Topic) (now : Time) (pm : PubMsg) (db' : Db) (w : List Id)
    (h : publishOne db t now pm = .ok (db', w)) :
    ∃ m rows, db'.msgs = db.msgs ++ [m] ∧ m.id = pm.id ∧ m.attrs = pm.attrs ∧ db'.dels = db.dels ++ rows ∧
      (rows.map (·.subId)).Nodup ∧
      rows.length = ((db.liveSubsOf t.id).filter (subAccepts · pm.attrs)).length ∧
      ∀ r ∈ rows, ∃ s, s ∈ db.liveSubsOf t.id ∧ subAccepts s pm.attrs = true ∧ r.subId = s.id ∧ r.msgId = pm.id ∧
        r.completedAt = none ∧ r.expiresAt = now + s.messageTtl ∧ r.attemptAt = now + s.deliveryDelay ∧
        r.attempts = 0 := by
  unfold publishOne at h
  split at h
  · cases h
  · simp only at h
    obtain ⟨rows, hrows, hdb, _⟩ := deliverAll_shape h
    obtain ⟨hnd, hlen, _, _⟩ := deliverAll_checks h
    subst hdb
    obtain ⟨hsubs, _, hall⟩ := mkRows_spec _ _ _ _ _ _ hrows
    refine ⟨_, rows, rfl, rfl, rfl, rfl, ?_, ?_, ?_⟩
    · rw [hsubs]; exact (nodupIds_iff _).mp hnd
    · have hl : rows.length = (rows.map (·.subId)).length := by simp
      rw [hl, hsubs, hlen]; simp; rfl
    · intro r hr
      obtain ⟨s, f, hs, hacc, _, rfl⟩ := hall r hr
      exact ⟨s, hs, hacc, rfl, rfl, rfl, rfl, rfl, rfl⟩

/-- **C01 (rows never vanish)**: under every operation except seeks and the delivery prune jobs — in
    particular under acks and nacks of other deliveries, publishes, pulls on any subscription, the
    dead-letter sweep, subscription expiry, the message/subscription/topic prune jobs and every
    *failed* request — a delivery row keeps existing with the same message, subscription and
    retention end, and is never un-completed. -/
theorem C01_rows_persist (st : St) (op : Op) (hop : op.delsMonotone = true) (i : Id) (d : Delivery)
    (hd : st.db.delById i = some d) :
    ∃ d', (step st op).1.db.delById i = some d' ∧ d'.msgId = d.msgId ∧ d'.subId = d.subId ∧
      d'.expiresAt = d.expiresAt ∧ d.attempts ≤ d'.attempts := by
  obtain ⟨d', hd', r⟩ := step_mono st op hop i d hd
  exact ⟨d', hd', r.msg, r.sub, r.expires, r.attempts⟩

/-- **C01 (failed requests change nothing)**: a step whose response is an error leaves the whole
    state — all five tables and the clock — exactly as it was. -/
theorem C01_failed_request_no_change (st : St) (op : Op) (h : (step st op).2.ok = false) :
    (step st op).1 = st := by
  cases op <;> simp only [step, finish] at h ⊢ <;> (try split at h) <;> (try split) <;> simp_all

/-! **C01 (maintenance cannot lose an outstanding delivery)**: `C15_outstanding_survives` — a row that
is not completed, inside its retention and whose subscription is live is not a victim of any of the
three delivery prune jobs. -/

theorem lookupAll_length {α} (f : Id → Option α) : ∀ (ids : List Id) (rows : List α),
    lookupAll f ids = some rows → rows.length = ids.length := by
  intro ids
  induction ids with
  | nil => intro rows h; unfold lookupAll at h; injection h with h; subst h; rfl
  | cons i t ih =>
    intro rows h
    unfold lookupAll at h
    split at h
    · rename_i a rest _ hrest
      injection h with h; subst h
      simp [ih rest hrest]
    · cases h

/-- **C01 (offered)**: a pull whose delivery query returned fewer rows than it asked for has considered
    every deliverable delivery of the subscription — not completed, inside its retention, due, (ordered)
    not blocked — and each of them was handed out in this response, or was due for dead-lettering
    (`C06_atomic` says what then happens), or was left out only because the response would have
    exceeded the byte budget.  With an ample budget and no dead-letter policy: every deliverable
    message is in the response. -/
theorem C01_offered {db : Db} {now : Time} {sub : String} {max maxBytes : Nat} {strict : Bool}
    {wait : Int} {obs : PullObs} {o : TxOut PullRes} {now' : Time}
    (h : pull db now sub max maxBytes strict wait obs = .ok (o, now'))
    (hlt : obs.cands.length < max) :
    ∃ s, db.liveSubByName sub = some s ∧
      ∀ e ∈ db.dels, (refreshExpiry db s now).eligible s now e = true →
        ∃ c, c.id = e.id ∧ (refreshExpiry db s now).eligible s now c = true ∧
          (c.id ∈ o.val.delivered.map (·.1) ∨ (s.dlTarget c).isSome = true ∨
            ∃ m b, db.msgById c.msgId = some m ∧ maxBytes < b + m.plen) := by
  unfold pull at h
  split at h
  · cases h
  · rename_i s hs
    refine ⟨s, hs, ?_⟩
    simp only at h
    split at h
    · cases h
    · rename_i cands hc
      split at h
      · cases h
      · rename_i hok
        have hok' : candsOk ((refreshExpiry db s now).eligible s now)
            ((refreshExpiry db s now).dels.filter ((refreshExpiry db s now).eligible s now)) cands max = true := by
          simpa using hok
        have hmem : ∀ c ∈ cands, c ∈ (refreshExpiry db s now).dels := by
          intro c hcm
          obtain ⟨i, _, hi⟩ := lookupAll_spec _ _ _ hc c hcm
          rw [Db.delById_eq] at hi
          exact (mem_of_findDel hi).1
        have hlen : cands.length < max := by rw [lookupAll_length _ _ _ hc]; exact hlt
        have hcomp := cands_complete _ _ cands max hok' hmem hlen
        have hall : ∀ c ∈ cands, (refreshExpiry db s now).eligible s now c = true := by
          unfold candsOk at hok'
          simp only [Bool.and_eq_true] at hok'
          exact fun c hcm => List.all_eq_true.mp hok'.1.1.2 c hcm
        intro e he hel
        have hde : (refreshExpiry db s now).dels = db.dels := rfl
        obtain ⟨c, hcm, hid⟩ := hcomp e (by rw [hde]; exact he) hel
        refine ⟨c, hid, hall c hcm, ?_⟩
        split at h
        · rename_i hemp
          have : cands = [] := List.isEmpty_iff.mp hemp
          rw [this] at hcm; cases hcm
        · split at h
          · cases h
          · rename_i o' hd
            injection h with h; injection h with h1 _; subst h1
            unfold pullDeliver at hd
            split at hd
            · cases hd
            · rename_i acc hl
              injection hd with hd; subst hd
              obtain ⟨_, _, _, hfate⟩ := pullLoop_fate _ _ _ _ _ _ _ _ _ hl
              rcases hfate c hcm with ⟨δ, hδ⟩ | hdl | ⟨m, hm, hb⟩
              · left
                simp only [List.map_map]
                exact List.mem_map.mpr ⟨(c, δ), hδ, rfl⟩
              · exact Or.inr (Or.inl hdl)
              · exact Or.inr (Or.inr ⟨m, acc.bytes, hm, hb⟩)

end Mmmbbb
