/-
C14 — Retention, expiry and delivery delay follow the configured durations.

"A message stays deliverable for exactly its subscription's retention duration counted from publish
(or from a seek that revived it) and is never delivered after that.  A subscription is expired only
after a full expiration TTL without any pull activity — every pull, even an empty one, restarts
the clock — and an expired subscription behaves as deleted.  With an injected delivery delay d, no
message is delivered earlier than d after its publish."
-/
import Mmmbbb.Proofs.Lease
namespace Mmmbbb

/-- **C14 (never after retention, never before due)**: whatever a pull hands out is inside its
    retention window (`now < expiresAt`) and due (`attemptAt ≤ now`). -/
theorem C14_delivered_in_window (st : St) (s : String) (mx mb : Nat) (strict : Bool) (wait : Int) (obs : PullObs)
    (i : Id) (n : Nat) (hmem : (i, n) ∈ (step st (.pull s mx mb strict wait obs)).2.delivered) :
    ∃ c, st.db.delById i = some c ∧ st.now < c.expiresAt ∧ c.attemptAt ≤ st.now := by
  simp only [step] at hmem
  cases h : pull st.db st.now s mx mb strict wait obs with
  | error e => simp [h] at hmem
  | ok r =>
    obtain ⟨o, now'⟩ := r
    simp only [h] at hmem
    obtain ⟨sub, _, hspec⟩ := pull_delivered_spec h
    obtain ⟨c, hc, helig, _⟩ := hspec (i, n) hmem
    unfold Db.eligible Delivery.isOpen at helig
    simp only [Bool.and_eq_true, decide_eq_true_eq] at helig
    exact ⟨c, hc, helig.1.1.2.2, helig.1.2⟩

/-- the rows `deliverToSubscription` creates: retention counted from the enqueue instant, first
    attempt after the subscription's delivery delay -/
theorem C14_row_times (s : Sub) (m : Msg) (now : Time) (f : Fwd) :
    (mkDelivery s m now f).expiresAt = now + s.messageTtl ∧
    (mkDelivery s m now f).attemptAt = now + s.deliveryDelay ∧
    (mkDelivery s m now f).publishedAt = now ∧ (mkDelivery s m now f).completedAt = none := ⟨rfl, rfl, rfl, rfl⟩

/-- **C14 (delivery delay)**: a row enqueued at `p` with delivery delay `d` is not handed out before
    `p + d`: it is due only from `attemptAt = p + d` on, and a pull hands out due rows only
    (`C14_delivered_in_window`); by `C04_exclusive` (lease `T = p + d`) this holds along every
    continuation without nack / zero deadline / seek. -/
theorem C14_delay_held (s : Sub) (m : Msg) (p : Time) (f : Fwd) : held (p + s.deliveryDelay) (mkDelivery s m p f) :=
  Or.inl (Int.le_refl _)

theorem find_updateWhere_id (subs : List Sub) (i : Id) (f : Sub → Sub) (hf : ∀ x, (f x).id = x.id) (s0 : Sub)
    (h : subs.find? (·.id == i) = some s0) :
    (updateWhere (·.id == i) f subs).find? (·.id == i) = some (f s0) := by
  unfold updateWhere
  rw [List.find?_map]
  have : ((fun x : Sub => x.id == i) ∘ fun x => if (x.id == i) = true then f x else x) = (fun x => x.id == i) := by
    funext x; simp only [Function.comp]; split <;> simp [hf]
  rw [this, h]
  have hid : (s0.id == i) = true := List.find?_some (p := fun x : Sub => x.id == i) h
  simp only [Option.map_some, hid, if_true]

theorem refreshExpiry_sub (db : Db) (s s0 : Sub) (now : Time) (hs : db.subById s.id = some s0) :
    (refreshExpiry db s now).subById s.id = some { s0 with expiresAt := now + s.ttl } := by
  unfold refreshExpiry Db.subById
  exact find_updateWhere_id db.subs s.id (fun x => { x with expiresAt := now + s.ttl }) (fun _ => rfl) s0 hs

/-- **C14 (every pull restarts the expiry clock)**: a pull that finds its subscription and nothing
    deliverable still leaves `expires_at = (clock when it returned) + ttl`. -/
theorem C14_empty_pull_refreshes (db : Db) (now : Time) (sub : String) (mx mb : Nat) (strict : Bool) (wait : Int)
    (obs : PullObs) (o : TxOut PullRes) (now' : Time) (s : Sub)
    (hs : db.liveSubByName sub = some s) (hid : db.subById s.id = some s)
    (h : pull db now sub mx mb strict wait obs = .ok (o, now')) (hc : obs.cands = []) :
    now' = now + wait ∧ ∃ s', o.db.subById s.id = some s' ∧ s'.expiresAt = now' + s.ttl := by
  unfold pull at h
  rw [hs] at h
  simp only [hc] at h
  unfold lookupAll at h
  simp only at h
  split at h
  · cases h
  · simp only [List.isEmpty_nil, if_true] at h
    injection h with h; injection h with h1 h2
    subst h1; subst h2
    refine ⟨rfl, ?_⟩
    have h1 := refreshExpiry_sub db s s now hid
    have h2 := refreshExpiry_sub (refreshExpiry db s now) s _ (now + wait) h1
    exact ⟨_, h2, rfl⟩

/-- …and a pull that delivers refreshes it too (the first statement of the pull transaction). -/
theorem C14_refresh_first (db : Db) (s : Sub) (now : Time) (hid : db.subById s.id = some s) :
    ∃ s', (refreshExpiry db s now).subById s.id = some s' ∧ s'.expiresAt = now + s.ttl :=
  ⟨_, refreshExpiry_sub db s s now hid, rfl⟩

/-- **C14 (expiry only after a full TTL)**: the expiry sweep deletes a subscription only when its
    `expires_at` — set to `last pull + ttl` by every pull — lies in the past. -/
theorem C14_expiry_only_after_ttl (db : Db) (now : Time) (mx : Nat) (victims : List Id) (o : TxOut Nat)
    (h : expireSubs db now mx victims = .ok o) (v : Id) (hv : v ∈ victims) :
    ∃ s, db.subById v = some s ∧ s.expiresAt < now ∧ s.live = true := by
  unfold expireSubs at h
  simp only at h
  split at h
  · cases h
  · rename_i hok
    simp only [Bool.not_eq_true, Bool.not_eq_false'] at hok
    unfold limitOk at hok
    simp only [Bool.and_eq_true] at hok
    have := List.all_eq_true.mp hok.2 v hv
    split at this
    · rename_i r hr
      simp only [Bool.and_eq_true, decide_eq_true_eq] at this
      exact ⟨r, hr, this.1, this.2⟩
    · cases this

end Mmmbbb
