/-
C05 — Ordered delivery: same-key messages are never overtaken.

"On a subscription with message ordering enabled, a message with ordering key K is never delivered
while an earlier-published message with the same key K is still outstanding on that subscription
(not yet acknowledged, expired or dead-lettered); consequently same-key messages are first
delivered, and can only be acknowledged, in publish order.  This holds whatever else is published in
between, including messages with other keys or with no key."

The mechanism is a link: every keyed delivery on an ordered subscription points (`notBefore`) at
the newest unexpired delivery of the *same key* that existed when it was enqueued, and a pull on
an ordered subscription skips rows whose link target is neither completed nor expired.  The two
halves are proved below for every state and observation.  The full history statement fails in the
corners recorded in KNOWN_FINDINGS.txt (a seek re-opens an acknowledged predecessor, after which a
later same-key delivery can overtake it); `C05_full_statement` is kept visible and the proved part is
named `…_partial`: `C05_ordered_partial` proves the statement's conclusion for every history, of any
length, whose steps satisfy the refinement obligation `Ord.stepOk` (Model/Ordered.lean) — which the two
seeks and a change of the retention do not, which is proved below for the operations that leave the
deliveries alone, and which the driver evaluates on every step of every replayed history for the
others (pull, publish, ack, nack, deadline changes, dead-letter sweep, prune and expiry jobs,
subscription creation and deletion).

Later sections remove the run-time side for everything but the seeks: `C05_ordered_ties` is the same
global statement for the obligation `Ord2.stepOk2`, which has no clock assumption (rows made in one
transaction share their publish time: several deliveries dead-lettered at once); `C05_fragment` proves
the property outright for every history without seeks and dead-letter policies; and `C05_fragment_dl`
proves it outright — no clock assumption, no refinement hypothesis — for *every history without a
Seek*, dead-letter policies and equal publish times included (two state guards: a client acknowledges
only ids it was handed; a `LIMIT`ed round of a job that deletes deliveries is tie-closed).
-/
import Mmmbbb.Properties.C01
import Mmmbbb.Proofs.Ordered
import Mmmbbb.Proofs.Ordered2
import Mmmbbb.Model.Fragment
namespace Mmmbbb

/-- **C05 (the pull honours the link)**: on an ordered subscription every delivery a pull hands out
    has no predecessor link, or its link target is completed or past its retention. -/
theorem C05_pull_respects_link {db : Db} {now : Time} {sub : String} {max maxBytes : Nat} {strict : Bool}
    {wait : Int} {obs : PullObs} {o : TxOut PullRes} {now' : Time}
    (h : pull db now sub max maxBytes strict wait obs = .ok (o, now'))
    (s : Sub) (hs : db.liveSubByName sub = some s) (hord : s.ordered = true) :
    ∀ x ∈ o.val.delivered, ∃ c, db.delById x.1 = some c ∧
      (c.notBefore = none ∨ ∃ p q, c.notBefore = some p ∧ db.delById p = some q ∧
        (q.completedAt.isSome = true ∨ q.expiresAt ≤ now)) := by
  obtain ⟨s', hs', hall⟩ := pull_delivered_spec h
  rw [hs] at hs'; injection hs' with hs'; subst hs'
  intro x hx
  obtain ⟨c, hc, helig, _⟩ := hall x hx
  refine ⟨c, hc, ?_⟩
  unfold Db.eligible at helig
  simp only [Bool.and_eq_true, hord, Bool.not_true, Bool.false_or] at helig
  have hpd := helig.2
  unfold Db.predDone at hpd
  cases hnb : c.notBefore with
  | none => exact Or.inl rfl
  | some p =>
    right
    rw [hnb] at hpd
    simp only at hpd
    -- the lookup inside `refreshExpiry db s now` is the lookup in `db`
    have hsame : (refreshExpiry db s now).delById p = db.delById p := rfl
    rw [hsame] at hpd
    cases hq : db.delById p with
    | none => rw [hq] at hpd; cases hpd
    | some q =>
      rw [hq] at hpd
      simp only [Bool.or_eq_true, decide_eq_true_eq] at hpd
      exact ⟨p, q, rfl, hq, hpd⟩

theorem predChoiceOk_keyed (db : Db) (s : Sub) (m : Msg) (now : Time) (nb : Option Id)
    (hord : s.ordered = true) (k : String) (hk : m.orderKey = some k) (hne : k ≠ "") :
    predChoiceOk db s m now nb =
      (match nb with
       | none => (predCands db s m now).isEmpty
       | some p => (predCands db s m now).any fun d => d.id == p && newestIn db (predCands db s m now) d) := by
  unfold predChoiceOk
  simp only [hord, hk, Bool.true_and]
  have : (k != "") = true := by simpa using hne
  simp only [this, if_true]
  cases nb <;> rfl

/-- **C05 (the link is chosen among same-key deliveries)**: every row enqueued for a keyed message on
    an ordered subscription is linked to a delivery of that subscription that is not expired, whose
    message carries the same ordering key, and that is the newest such delivery — or to nothing when
    there is none.  Un-keyed messages and other keys in between are ignored. -/
theorem C05_link_choice (db : Db) (subs : List Sub) (m : Msg) (now : Time) (fwds : List Fwd) (rows : List Delivery)
    (h : mkRows db subs m now fwds = .ok rows) (k : String) (hk : m.orderKey = some k) (hne : k ≠ "") :
    ∀ r ∈ rows, ∃ s, s ∈ subs ∧ r.subId = s.id ∧ (s.ordered = true →
      match r.notBefore with
      | none => ∀ d ∈ db.dels, d.subId = s.id → now < d.expiresAt →
          ∀ dm, db.msgById d.msgId = some dm → dm.orderKey ≠ some k
      | some p => ∃ q dm, q ∈ db.dels ∧ q.id = p ∧ q.subId = s.id ∧ now < q.expiresAt ∧
          db.msgById q.msgId = some dm ∧ dm.orderKey = some k ∧
          ∀ d ∈ db.dels, d.subId = s.id → now < d.expiresAt →
            (∀ dm', db.msgById d.msgId = some dm' → dm'.orderKey = some k → d.publishedAt ≤ q.publishedAt)) := by
  obtain ⟨_, _, hall⟩ := mkRows_spec db subs m now fwds rows h
  intro r hr
  obtain ⟨s, f, hs, _, hpred, rfl⟩ := hall r hr
  refine ⟨s, hs, rfl, ?_⟩
  intro hord
  rw [predChoiceOk_keyed db s m now f.nb hord k hk hne] at hpred
  simp only [mkDelivery]
  cases hnb : f.nb with
  | none =>
    rw [hnb] at hpred
    simp only at hpred
    intro d hd hsub hexp dm hdm hkk
    have hmem : d ∈ predCands db s m now := by
      unfold predCands
      refine List.mem_filter.mpr ⟨hd, ?_⟩
      simp only [Bool.and_eq_true, beq_iff_eq, decide_eq_true_eq]
      refine ⟨⟨hsub, hexp⟩, ?_⟩
      rw [hdm]; simp [hkk, hk]
    have : predCands db s m now = [] := List.isEmpty_iff.mp hpred
    rw [this] at hmem; cases hmem
  | some p =>
    rw [hnb] at hpred
    simp only [List.any_eq_true, Bool.and_eq_true, beq_iff_eq] at hpred
    obtain ⟨q, hq, hqid, hnew⟩ := hpred
    unfold predCands at hq
    have hq' := List.mem_filter.mp hq
    simp only [Bool.and_eq_true, beq_iff_eq, decide_eq_true_eq] at hq'
    cases hdm : db.msgById q.msgId with
    | none => rw [hdm] at hq'; simp at hq'
    | some dm =>
      rw [hdm] at hq'
      simp only [beq_iff_eq] at hq'
      refine ⟨q, dm, hq'.1, hqid, hq'.2.1.1, hq'.2.1.2, hdm, by rw [hq'.2.2, hk], ?_⟩
      intro d hd hsub hexp dm' hdm' hkk
      have hmem : d ∈ predCands db s m now := by
        unfold predCands
        refine List.mem_filter.mpr ⟨hd, ?_⟩
        simp only [Bool.and_eq_true, beq_iff_eq, decide_eq_true_eq]
        refine ⟨⟨hsub, hexp⟩, ?_⟩
        rw [hdm']; simp [hkk, hk]
      unfold newestIn at hnew
      have := List.all_eq_true.mp hnew d hmem
      simp only [Bool.and_eq_true, decide_eq_true_eq] at this
      exact this.1

/-- the predecessor query as it stands in the source (regenerated on every run): newest publish time
    first, and among equal publish times the rows nobody waits on first -/
theorem C05_predecessor_query_order :
    Extracted.predecessorOrder = ["Desc:PublishedAt", "Asc:HasSuccessor"] := by decide

/-- **C05 (equal publish times)**: rows made in one transaction carry the same publish time (several
    deliveries dead-lettered by one sweep, one pull or one nack).  Among the newest same-key rows the
    link goes to one that nobody waits on yet, if there is one — the end of the chain, not its middle
    (a link to the middle lets the new row and the chain's end become deliverable together). -/
theorem C05_link_choice_equal_times (db : Db) (subs : List Sub) (m : Msg) (now : Time) (fwds : List Fwd) (rows : List Delivery)
    (h : mkRows db subs m now fwds = .ok rows) (k : String) (hk : m.orderKey = some k) (hne : k ≠ "") :
    ∀ r ∈ rows, ∃ s, s ∈ subs ∧ r.subId = s.id ∧ (s.ordered = true →
      ∀ p, r.notBefore = some p → ∃ q, q ∈ predCands db s m now ∧ q.id = p ∧
        ∀ d ∈ predCands db s m now, d.publishedAt = q.publishedAt → hasSucc db d = false → hasSucc db q = false) := by
  obtain ⟨_, _, hall⟩ := mkRows_spec db subs m now fwds rows h
  intro r hr
  obtain ⟨s, f, hs, _, hpred, rfl⟩ := hall r hr
  refine ⟨s, hs, rfl, ?_⟩
  intro hord p hp
  rw [predChoiceOk_keyed db s m now f.nb hord k hk hne] at hpred
  simp only [mkDelivery] at hp
  rw [hp] at hpred
  simp only [List.any_eq_true, Bool.and_eq_true, beq_iff_eq] at hpred
  obtain ⟨q, hq, hqid, hnew⟩ := hpred
  refine ⟨q, hq, hqid, ?_⟩
  intro d hd heq hns
  unfold newestIn at hnew
  have := List.all_eq_true.mp hnew d hd
  have htb : tieBreak = true := by unfold tieBreak; rw [C05_predecessor_query_order]; rfl
  simp only [htb, Bool.and_eq_true, Bool.or_eq_true, Bool.not_eq_true', hns, heq,
    Bool.not_true, Bool.false_eq_true, or_false, false_or, decide_eq_true_eq] at this
  cases hq2 : hasSucc db q with
  | false => rfl
  | true => rw [hq2] at this; simp at this

/-- **C05 (the second sort key picks the end of the chain)**: let the candidates of the predecessor
    query be `pre ++ [l]` in the order the rows were made, with publish times that do not decrease
    (rows are stamped with the clock), where `l`, the row made last, has nobody waiting on it and
    every earlier candidate that shares `l`'s publish time has somebody waiting on it (it is in the
    middle of the chain: the row made after it was linked behind it).  Then the only answer the query
    `ORDER BY published_at DESC, <somebody waits on it> LIMIT 1` may give is `l` — whatever the
    publish times are, equal or not.  Without the second key (the code before 652c205) any candidate
    sharing `l`'s publish time was an allowed answer. -/
theorem C05_tie_break_picks_chain_end (db : Db) (pre : List Delivery) (l q : Delivery)
    (hsorted : ∀ e ∈ pre, e.publishedAt ≤ l.publishedAt)
    (hmiddle : ∀ e ∈ pre, e.publishedAt = l.publishedAt → hasSucc db e = true)
    (hend : hasSucc db l = false)
    (hq : q ∈ pre ++ [l]) (hnew : newestIn db (pre ++ [l]) q = true) : q = l := by
  have htb : tieBreak = true := by unfold tieBreak; rw [C05_predecessor_query_order]; rfl
  unfold newestIn at hnew
  have hl := List.all_eq_true.mp hnew l (by simp)
  simp only [htb, Bool.and_eq_true, Bool.or_eq_true, Bool.not_eq_true', Bool.not_true, Bool.false_eq_true,
    false_or, decide_eq_true_eq, beq_eq_false_iff_ne, ne_eq, hend, or_false] at hl
  rcases List.mem_append.mp hq with hp | hp
  · exfalso
    have h1 := hsorted q hp
    have heq : q.publishedAt = l.publishedAt := by
      have := hl.1
      unfold Time at *
      omega
    have h2 := hmiddle q hp heq
    rcases hl.2 with h3 | h3
    · exact h3 heq.symm
    · rw [h2] at h3; cases h3
  · simpa using hp

/-! ### the global statement, for histories that refine the ordered-delivery steps -/

/-- every step of the run from `st` satisfies the refinement obligation (with the clock assumption:
    a keyed row is stamped strictly later than the same-key rows its subscription already has) -/
def ordStepsOk : St → List Op → Bool
  | _, [] => true
  | st, op :: r =>
    Ord.stepOk true st.db st.now (step st op).1.db (step st op).1.now && ordStepsOk (step st op).1 r

theorem run_cons (st : St) (op : Op) (r : List Op) : run st (op :: r) = run (step st op).1 r := rfl

theorem ordInv_run : ∀ (ops : List Op) (st : St), Ord.Inv st.db st.now → ordStepsOk st ops = true →
    Ord.Inv (run st ops).db (run st ops).now
  | [], _, h, _ => h
  | op :: r, st, h, hok => by
    simp only [ordStepsOk, Bool.and_eq_true] at hok
    rw [run_cons]
    exact ordInv_run r _ (h.step hok.1) hok.2

theorem keyOf_of_bind {db : Db} {d : Delivery} {k : String} (hk : k ≠ "")
    (h : (db.msgById d.msgId).bind (·.orderKey) = some k) : Ord.keyOf db d = some k := by
  unfold Ord.keyOf
  cases hm : db.msgById d.msgId with
  | none => rw [hm] at h; cases h
  | some m =>
    rw [hm] at h
    simp only [Option.bind_some] at h
    simp only [h]
    have : (k == "") = false := by simpa using hk
    simp [this]

/-- **C05 (global, partial)**: after any history — of any length, with any interleaving of publishes
    (keyed, un-keyed, other keys), pulls by any number of pullers, acks, nacks, deadline changes,
    dead-lettering, prune and expiry jobs — every step of which refines the ordered-delivery steps,
    a keyed message of a live ordered subscription is not deliverable (no pull returns it) while an
    earlier-published message with the same key is outstanding on that subscription.
    Missing for the full statement: histories with a Seek (the recorded findings) or a change of the
    message retention, and the clock assumption when it fails (two same-key rows of one subscription
    stamped with the same instant). -/
theorem C05_ordered_partial (ops : List Op) (h : ordStepsOk {} ops = true) :
    let st := run {} ops
    ∀ s ∈ st.db.subs, s.live = true → s.ordered = true → ∀ d ∈ st.db.dels, ∀ e ∈ st.db.dels,
      d.subId = s.id → e.subId = s.id →
      (∃ k, k ≠ "" ∧ (st.db.msgById d.msgId).bind (·.orderKey) = some k ∧ (st.db.msgById e.msgId).bind (·.orderKey) = some k) →
      e.publishedAt < d.publishedAt → e.isOpen st.now = true → st.db.eligible s st.now d = false := by
  intro st s hs hlive hord d hd e he hds hes hkey hlt hopen
  have hinv : Ord.Inv st.db st.now := ordInv_run ops {} (Ord.Inv.init 0) h
  obtain ⟨k, hk, h1, h2⟩ := hkey
  have k1 := keyOf_of_bind hk h1
  have k2 := keyOf_of_bind hk h2
  exact hinv.ordered s hs hlive hord d e hd he hds hes (k1.trans k2.symm) (by rw [k1]; simp) hlt hopen

/-- every step of the run from `st` satisfies the refinement obligation *without* the clock
    assumption (`Ord2.stepOk2`): rows are ordered by when they were made, the link of a new row
    satisfies the predecessor query with its second sort key, and a shrinking step that removes a keyed
    row takes the earlier rows of its key that share its publish time with it -/
def ordStepsOk2 : St → List Op → Bool
  | _, [] => true
  | st, op :: r =>
    Ord2.stepOk2 st.db st.now (step st op).1.db (step st op).1.now && ordStepsOk2 (step st op).1 r

theorem ordInv2_run : ∀ (ops : List Op) (st : St), Ord2.Inv2 st.db st.now → ordStepsOk2 st ops = true →
    Ord2.Inv2 (run st ops).db (run st ops).now
  | [], _, h, _ => h
  | op :: r, st, h, hok => by
    simp only [ordStepsOk2, Bool.and_eq_true] at hok
    rw [run_cons]
    exact ordInv2_run r _ (h.step hok.1) hok.2

/-- **C05 (global, equal publish times included)**: the statement of `C05_ordered_partial` *without the
    clock assumption*.  Deliveries made in one transaction share their publish time — several
    deliveries dead-lettered by one sweep, one pull or one nack into an ordered subscription — and the
    repaired predecessor query (652c205: second sort key, rows nobody waits on first) is what keeps
    the chain intact there: after any history every step of which satisfies `Ord2.stepOk2`, a keyed
    message of a live ordered subscription is not deliverable while an earlier-published message with
    the same key is outstanding on that subscription.  The invariant (`Ord2.Inv2`, Proofs/Ordered2.lean)
    orders rows by when they were made, not by their stamps.
    Missing for the full statement: histories with a Seek (the recorded findings) or a change of the
    message retention. -/
theorem C05_ordered_ties (ops : List Op) (h : ordStepsOk2 {} ops = true) :
    let st := run {} ops
    ∀ s ∈ st.db.subs, s.live = true → s.ordered = true → ∀ d ∈ st.db.dels, ∀ e ∈ st.db.dels,
      d.subId = s.id → e.subId = s.id →
      (∃ k, k ≠ "" ∧ (st.db.msgById d.msgId).bind (·.orderKey) = some k ∧ (st.db.msgById e.msgId).bind (·.orderKey) = some k) →
      e.publishedAt < d.publishedAt → e.isOpen st.now = true → st.db.eligible s st.now d = false := by
  intro st s hs hlive hord d hd e he hds hes hkey hlt hopen
  have hinv : Ord2.Inv2 st.db st.now := ordInv2_run ops {} (Ord2.Inv2.init 0) h
  obtain ⟨k, hk, h1, h2⟩ := hkey
  have k1 := keyOf_of_bind hk h1
  have k2 := keyOf_of_bind hk h2
  exact hinv.ordered s hs hlive hord d e hd he hds hes (k1.trans k2.symm) (by rw [k1]; simp) hlt hopen

/-- consequently no pull of such a history returns the later message -/
theorem C05_ordered_partial_pull (ops : List Op) (h : ordStepsOk {} ops = true)
    {sub : String} {max maxBytes : Nat} {strict : Bool} {wait : Int} {obs : PullObs} {o : TxOut PullRes} {now' : Time}
    (hp : pull (run {} ops).db (run {} ops).now sub max maxBytes strict wait obs = .ok (o, now'))
    (s : Sub) (hs : (run {} ops).db.liveSubByName sub = some s) (hord : s.ordered = true) :
    ∀ x ∈ o.val.delivered, ∀ d, (run {} ops).db.delById x.1 = some d →
      ∀ e ∈ (run {} ops).db.dels, e.subId = s.id →
      (∃ k, k ≠ "" ∧ ((run {} ops).db.msgById d.msgId).bind (·.orderKey) = some k ∧
        ((run {} ops).db.msgById e.msgId).bind (·.orderKey) = some k) →
      e.publishedAt < d.publishedAt → e.isOpen (run {} ops).now = false := by
  intro x hx d hd e he hes hkey hlt
  obtain ⟨s', hs', hall⟩ := pull_delivered_spec hp
  rw [hs] at hs'; injection hs' with hs'; subst hs'
  obtain ⟨c, hc, helig, _⟩ := hall x hx
  rw [hd] at hc; injection hc with hc; subst hc
  have hsm : s ∈ (run {} ops).db.subs := List.mem_of_find?_eq_some hs
  have hlive : s.live = true := by
    have := List.find?_some hs
    simp only [Bool.and_eq_true] at this
    exact this.2
  have hdm : d ∈ (run {} ops).db.dels := List.mem_of_find?_eq_some hd
  have hds : d.subId = s.id := by
    unfold Db.eligible at helig
    simp only [Bool.and_eq_true, beq_iff_eq] at helig
    exact helig.1.1.1
  cases hopen : e.isOpen (run {} ops).now with
  | false => rfl
  | true =>
    have := C05_ordered_partial ops h s hsm hlive hord d hdm e he hds hes hkey hlt hopen
    -- eligibility in the table whose subscription expiry was refreshed is eligibility in the table
    have hsame : (refreshExpiry (run {} ops).db s (run {} ops).now).eligible s (run {} ops).now d =
        (run {} ops).db.eligible s (run {} ops).now d := rfl
    rw [hsame, this] at helig; cases helig

/-! the obligation holds outright for the operations that leave deliveries, subscriptions and
    messages alone (the others are evaluated at run time) -/

theorem C05_refines_advance (st : St) (d : Int) (hd : 0 ≤ d) :
    Ord.stepOk true st.db st.now (step st (.advance d)).1.db (step st (.advance d)).1.now = true := by
  apply Ord.stepOk_of_same <;> simp only [step]
  · show st.now ≤ st.now + d
    unfold Time at *; omega
  all_goals rfl

/-- an operation that fails (or otherwise leaves the state as it was) -/
theorem C05_refines_noop (st : St) (op : Op) (heq : (step st op).1 = st) :
    Ord.stepOk true st.db st.now (step st op).1.db (step st op).1.now = true := by
  rw [heq]
  exact Ord.stepOk_of_same st.db st.now st.db st.now (Int.le_refl _) rfl rfl rfl

theorem stepOk_finish {α} (st : St) (r : Except Err (TxOut α)) (render : α → String)
    (hsame : ∀ o, r = .ok o → o.db.dels = st.db.dels ∧ o.db.subs = st.db.subs ∧ o.db.msgs = st.db.msgs) :
    Ord.stepOk true st.db st.now (finish st r render).1.db (finish st r render).1.now = true := by
  cases r with
  | error e => exact Ord.stepOk_of_same st.db st.now st.db st.now (Int.le_refl _) rfl rfl rfl
  | ok o =>
    obtain ⟨h1, h2, h3⟩ := hsame o rfl
    exact Ord.stepOk_of_same st.db st.now o.db st.now (Int.le_refl _) h1 h2 h3

theorem C05_refines_createTopic (st : St) (n : String) (l : StrMap) (i : Id) :
    Ord.stepOk true st.db st.now (step st (.createTopic n l i)).1.db (step st (.createTopic n l i)).1.now = true := by
  apply stepOk_finish
  intro o h
  unfold createTopic at h
  split at h
  · cases h
  · split at h
    · cases h
    · injection h with h; subst h; exact ⟨rfl, rfl, rfl⟩

theorem C05_refines_deleteTopic (st : St) (n : String) :
    Ord.stepOk true st.db st.now (step st (.deleteTopic n)).1.db (step st (.deleteTopic n)).1.now = true := by
  apply stepOk_finish
  intro o h
  unfold deleteTopic at h
  simp only at h
  split at h
  · cases h
  · injection h with h; subst h; exact ⟨rfl, rfl, rfl⟩

theorem C05_refines_deleteSnap (st : St) (n : String) :
    Ord.stepOk true st.db st.now (step st (.deleteSnap n)).1.db (step st (.deleteSnap n)).1.now = true := by
  apply stepOk_finish
  intro o h
  unfold deleteSnapshot at h
  split at h
  · cases h
  · injection h with h; subst h; exact ⟨rfl, rfl, rfl⟩

/-! the link clause of the obligation is what the enqueueing code's predecessor query is checked for -/

theorem keyOf_of_msg {db : Db} {d : Delivery} {m : Msg} {k : String} (hm : db.msgById d.msgId = some m)
    (hk : m.orderKey = some k) (hne : k ≠ "") : Ord.keyOf db d = some k := by
  unfold Ord.keyOf
  rw [hm]; simp only [hk]
  have : (k == "") = false := by simpa using hne
  simp [this]

theorem keyOf_eq_some_iff {db : Db} {e : Delivery} {k : String} (hne : k ≠ "") :
    Ord.keyOf db e = some k ↔ ∃ dm, db.msgById e.msgId = some dm ∧ dm.orderKey = some k := by
  unfold Ord.keyOf
  cases hm : db.msgById e.msgId with
  | none => simp
  | some dm =>
    simp only [Option.some.injEq, exists_eq_left']
    cases hok : dm.orderKey with
    | none => simp
    | some k' =>
      simp only [Option.some.injEq]
      by_cases hk' : k' = ""
      · subst hk'
        simp only [beq_self_eq_true, if_true]
        constructor
        · intro h; cases h
        · intro h; exact absurd h.symm hne
      · have : (k' == "") = false := by simpa using hk'
        simp [this]

/-- for a keyed message on an ordered subscription the candidates of the obligation are the
    candidates of the predecessor query -/
theorem cands_eq_predCands (db : Db) (s : Sub) (m : Msg) (now : Time) (f : Fwd) (k : String)
    (hmsg : db.msgById m.id = some m) (hk : m.orderKey = some k) (hne : k ≠ "") :
    Ord.cands db db.dels (mkDelivery s m now f) = predCands db s m now := by
  have hkr : Ord.keyOf db (mkDelivery s m now f) = some k := keyOf_of_msg (d := mkDelivery s m now f) hmsg hk hne
  unfold Ord.cands predCands
  apply List.filter_congr
  intro e _
  rw [hkr]
  simp only [mkDelivery]
  congr 1
  cases hm : db.msgById e.msgId with
  | none =>
    have : Ord.keyOf db e = none := by unfold Ord.keyOf; rw [hm]
    rw [this]; rfl
  | some dm =>
    simp only
    rw [hk]
    by_cases hdk : dm.orderKey = some k
    · have := (keyOf_eq_some_iff (db := db) (e := e) hne).mpr ⟨dm, hm, hdk⟩
      rw [this, hdk]
    · have hne2 : Ord.keyOf db e ≠ some k := by
        intro h
        obtain ⟨dm', hm', hdk'⟩ := (keyOf_eq_some_iff (db := db) (e := e) hne).mp h
        rw [hm] at hm'; injection hm' with hm'; subst hm'
        exact hdk hdk'
      have h1 : (Ord.keyOf db e == some k) = false := by simpa using hne2
      have h2 : (dm.orderKey == some k) = false := by simpa using hdk
      rw [h1, h2]

/-- **the enqueueing check implies the obligation's link clause**: a row the model's publish / forward
    accepts (`predChoiceOk`) for a keyed message on an ordered subscription is linked as `Ord.rowNewOk`
    demands -/
theorem C05_link_clause_of_enqueue_check (db : Db) (s : Sub) (m : Msg) (now : Time) (f : Fwd) (k : String)
    (hmsg : db.msgById m.id = some m) (hk : m.orderKey = some k) (hne : k ≠ "") (hord : s.ordered = true)
    (hok : predChoiceOk db s m now f.nb = true) :
    (match (mkDelivery s m now f).notBefore with
     | none => (Ord.cands db db.dels (mkDelivery s m now f)).isEmpty
     | some p => (Ord.cands db db.dels (mkDelivery s m now f)).any fun q =>
        q.id == p && (Ord.cands db db.dels (mkDelivery s m now f)).all fun e => decide (e.publishedAt ≤ q.publishedAt)) = true := by
  rw [cands_eq_predCands db s m now f k hmsg hk hne]
  rw [predChoiceOk_keyed db s m now f.nb hord k hk hne] at hok
  show (match f.nb with
     | none => (predCands db s m now).isEmpty
     | some p => (predCands db s m now).any fun q => q.id == p && (predCands db s m now).all fun e => decide (e.publishedAt ≤ q.publishedAt)) = true
  cases hnb : f.nb with
  | none => rw [hnb] at hok; exact hok
  | some p =>
    rw [hnb] at hok
    simp only [List.any_eq_true, Bool.and_eq_true] at hok ⊢
    obtain ⟨q, hq, hqid, hnew⟩ := hok
    refine ⟨q, hq, hqid, ?_⟩
    unfold newestIn at hnew
    rw [List.all_eq_true] at hnew ⊢
    intro e he
    have := hnew e he
    simp only [Bool.and_eq_true] at this
    exact this.1

/-- a deadline modification (positive, zero or negative) only moves attempt times -/
theorem C05_refines_delay (st : St) (ids : List Id) (Δ : Int) :
    Ord.stepOk true st.db st.now (step st (.delay ids Δ)).1.db (step st (.delay ids Δ)).1.now = true := by
  simp only [step]
  unfold delay
  simp only
  split
  · simp only [finish]
    refine Ord.stepOk_of_map st.db st.now _ st.now
      (fun x => if (ids.contains x.id && x.completedAt.isNone) = true then { x with attemptAt := st.now + Δ } else x)
      (Int.le_refl _) rfl rfl ?_
    intro d _
    split
    · exact Ord.rowUpdOk_attemptAt st.db st.now _ rfl d _
    · exact Ord.rowUpdOk_refl st.db st.now _ rfl d
  · simp only [finish]
    refine Ord.stepOk_of_map st.db st.now _ st.now
      (fun x => if ((ids.contains x.id && x.completedAt.isNone) && decide (x.attemptAt < st.now + Δ)) = true
        then { x with attemptAt := st.now + Δ } else x)
      (Int.le_refl _) rfl rfl ?_
    intro d _
    split
    · exact Ord.rowUpdOk_attemptAt st.db st.now _ rfl d _
    · exact Ord.rowUpdOk_refl st.db st.now _ rfl d

/-- an acknowledgement of deliveries that have been handed out (the only ack ids a client can hold) -/
theorem C05_refines_ack (st : St) (ids : List Id)
    (hdelivered : ∀ d ∈ st.db.dels, ids.contains d.id = true → 0 < d.attempts) :
    Ord.stepOk true st.db st.now (step st (.ack ids)).1.db (step st (.ack ids)).1.now = true := by
  simp only [step]
  unfold ack
  simp only [finish]
  refine Ord.stepOk_of_map st.db st.now _ st.now
    (fun x => if (ids.contains x.id && x.completedAt.isNone) = true then { x with completedAt := some st.now } else x)
    (Int.le_refl _) rfl rfl ?_
  intro d hd
  split
  · rename_i hc
    simp only [Bool.and_eq_true] at hc
    exact Ord.rowUpdOk_complete st.db st.now _ rfl d _ (hdelivered d hd hc.1)
  · exact Ord.rowUpdOk_refl st.db st.now _ rfl d

/-! ### the enqueueing of a message refines the ordered-delivery step (publish, dead-letter forward) -/

section enqueue
open Mmmbbb.Ord

/-- looking a message up after another one with a fresh id was appended -/
theorem msgById_append_of_some {db : Db} {m x : Msg} {i : Id} (h : db.msgById i = some x) :
    ({ db with msgs := db.msgs ++ [m] } : Db).msgById i = some x := by
  unfold Db.msgById at *
  simp only [List.find?_append, h, Option.some_or]

theorem keyOf_append_of_some {db : Db} {m : Msg} {d : Delivery} (h : (db.msgById d.msgId).isSome = true) (l : List Delivery) :
    keyOf ({ db with msgs := db.msgs ++ [m], dels := l } : Db) d = keyOf db d := by
  cases hx : db.msgById d.msgId with
  | none => rw [hx] at h; cases h
  | some x =>
    have h2 : ({ db with msgs := db.msgs ++ [m], dels := l } : Db).msgById d.msgId = some x := by
      unfold Db.msgById at *
      simp only [List.find?_append, hx, Option.some_or]
    unfold keyOf
    rw [h2, hx]


theorem keyOf_congr_msgs {db db' : Db} (h : db'.msgs = db.msgs) (d : Delivery) : keyOf db' d = keyOf db d := by
  unfold keyOf Db.msgById; rw [h]

theorem liveOrd_congr_subs {db db' : Db} (h : db'.subs = db.subs) (x : Id) : liveOrd db' x = liveOrd db x := by
  unfold liveOrd; rw [h]

theorem cands_append_other (db' : Db) (T pre : List Delivery) (r : Delivery) (h : ∀ p ∈ pre, p.subId ≠ r.subId) :
    cands db' (T ++ pre) r = cands db' T r := by
  unfold cands
  rw [List.filter_append]
  have : pre.filter (fun e => e.subId == r.subId && decide (r.publishedAt < e.expiresAt) && (keyOf db' e == keyOf db' r)) = [] := by
    apply List.filter_eq_nil_iff.mpr
    intro p hp
    have := h p hp
    simp [this]
  rw [this, List.append_nil]

theorem cands_congr (db db' : Db) (hm : db'.msgs = db.msgs) (T : List Delivery) (r : Delivery) :
    cands db' T r = cands db T r := by
  unfold cands
  apply List.filter_congr
  intro e _
  rw [keyOf_congr_msgs hm e, keyOf_congr_msgs hm r]


/-- one row made by `mkDelivery` for the accepted forward `f` satisfies the new-row obligation and the
    clock assumption, against a table that consists of the old rows (all stamped earlier) and rows of
    other subscriptions -/
theorem rowNew_mkDelivery (db db' : Db) (s : Sub) (m : Msg) (now : Time) (f : Fwd) (pre : List Delivery)
    (hmsg : db.msgById m.id = some m) (hs : s ∈ db.subs) (hlive : s.live = true)
    (huniq : ∀ a ∈ db.subs, ∀ b ∈ db.subs, a.live = true → b.live = true → a.id = b.id → a = b)
    (hclock : ∀ d ∈ db.dels, d.publishedAt < now)
    (hsubs' : db'.subs = db.subs) (hmsgs' : db'.msgs = db.msgs)
    (hpre : ∀ p ∈ pre, p.subId ≠ s.id ∧ p.id ≠ f.newId)
    (hfresh : ∀ e ∈ db.dels, e.id ≠ f.newId)
    (hok : predChoiceOk db s m now f.nb = true) :
    rowNewOk now db' now (db.dels ++ pre) (mkDelivery s m now f) = true ∧
    stampOk db' (db.dels ++ pre) (mkDelivery s m now f) = true := by
  have hpre1 : ∀ p ∈ pre, p.subId ≠ (mkDelivery s m now f).subId := fun p hp => (hpre p hp).1
  constructor
  · unfold rowNewOk
    simp only [Bool.and_eq_true, decide_eq_true_eq]
    refine ⟨⟨⟨⟨⟨⟨Int.le_refl _, Int.le_refl _⟩, ?ttl⟩, rfl⟩, rfl⟩, ?fresh⟩, ?link⟩
    case ttl =>
      rw [hsubs']
      apply List.all_eq_true.mpr
      intro s' hs'
      cases hl : s'.live with
      | false => simp
      | true =>
        by_cases hid : s'.id = s.id
        · have : s' = s := huniq s' hs' s hs hl hlive hid
          subst this
          simp [mkDelivery]
        · have : (s'.id == (mkDelivery s m now f).subId) = false := by simpa [mkDelivery] using hid
          simp [this]
    case fresh =>
      apply List.all_eq_true.mpr
      intro e he
      rcases List.mem_append.mp he with h1 | h1
      · simpa [mkDelivery] using hfresh e h1
      · simpa [mkDelivery] using (hpre e h1).2
    case link =>
      rw [liveOrd_congr_subs hsubs', keyOf_congr_msgs hmsgs']
      cases hlo : liveOrd db (mkDelivery s m now f).subId with
      | false => simp
      | true =>
        cases hkk : keyOf db (mkDelivery s m now f) with
        | none => simp
        | some k =>
          simp only [Bool.not_true, Bool.false_or, Option.isNone_some]
          -- the key is the message's key
          have hne : k ≠ "" := by
            intro h0; subst h0
            unfold keyOf at hkk
            simp only [mkDelivery, hmsg] at hkk
            cases hok2 : m.orderKey with
            | none => rw [hok2] at hkk; cases hkk
            | some k' =>
              rw [hok2] at hkk
              simp only at hkk
              split at hkk
              · cases hkk
              · rename_i hk'; injection hkk with hkk; subst hkk; simp at hk'
          have hmk : m.orderKey = some k := by
            obtain ⟨dm, hdm, hdk⟩ := (keyOf_eq_some_iff (db := db) (e := mkDelivery s m now f) hne).mp hkk
            simp only [mkDelivery] at hdm
            rw [hmsg] at hdm; injection hdm with hdm; subst hdm; exact hdk
          have hord : s.ordered = true := by
            obtain ⟨s', hs', hid, hl', ho'⟩ := (liveOrd_iff db _).mp hlo
            have : s' = s := huniq s' hs' s hs hl' hlive (by simpa [mkDelivery] using hid)
            subst this; exact ho'
          have hc := C05_link_clause_of_enqueue_check db s m now f k hmsg hmk hne hord hok
          rw [cands_congr db db' hmsgs', cands_append_other db db.dels pre _ hpre1]
          exact hc
  · unfold stampOk
    rw [liveOrd_congr_subs hsubs']
    cases hlo : liveOrd db (mkDelivery s m now f).subId with
    | false => simp
    | true =>
      cases hkk : keyOf db' (mkDelivery s m now f) with
      | none => simp
      | some k =>
        simp only [Bool.not_true, Bool.false_or, Option.isNone_some]
        apply List.all_eq_true.mpr
        intro e he
        rcases List.mem_append.mp he with h1 | h1
        · have := hclock e h1
          simp [mkDelivery, this]
        · have := hpre1 e h1
          simp [this]


theorem appendOk_mkRows (db db' : Db) (subs : List Sub) (m : Msg) (now : Time)
    (hmsg : db.msgById m.id = some m)
    (hsubs : ∀ s ∈ subs, s ∈ db.subs ∧ s.live = true)
    (huniq : ∀ a ∈ db.subs, ∀ b ∈ db.subs, a.live = true → b.live = true → a.id = b.id → a = b)
    (hclock : ∀ d ∈ db.dels, d.publishedAt < now)
    (hsubs' : db'.subs = db.subs) (hmsgs' : db'.msgs = db.msgs) :
    ∀ (fwds : List Fwd) (rows pre : List Delivery), mkRows db subs m now fwds = .ok rows →
      (∀ p ∈ pre, ∀ f ∈ fwds, p.subId ≠ f.subId ∧ p.id ≠ f.newId) →
      (fwds.map (·.newId)).Nodup → (fwds.map (·.subId)).Nodup →
      (∀ f ∈ fwds, ∀ e ∈ db.dels, e.id ≠ f.newId) →
      appendOk true now db' now (db.dels ++ pre) rows = true := by
  intro fwds
  induction fwds with
  | nil =>
    intro rows pre h _ _ _ _
    unfold mkRows at h
    injection h with h; subst h
    rfl
  | cons f t ih =>
    intro rows pre h hpre hn1 hn2 hfresh
    unfold mkRows at h
    split at h
    · cases h
    · rename_i s hs
      split at h
      · cases h
      · split at h
        · cases h
        · rename_i hpred
          split at h
          · cases h
          · rename_i rest hrest
            injection h with h; subst h
            have hsid : s.id = f.subId := by
              have := List.find?_some hs
              simpa using this
            have hsm : s ∈ subs := List.mem_of_find?_eq_some hs
            obtain ⟨hsdb, hslive⟩ := hsubs s hsm
            have hok : predChoiceOk db s m now f.nb = true := by simpa using hpred
            have hrow := rowNew_mkDelivery db db' s m now f pre hmsg hsdb hslive huniq hclock hsubs' hmsgs'
              (fun p hp => by
                have := hpre p hp f (List.mem_cons_self ..)
                exact ⟨by rw [hsid]; exact this.1, this.2⟩)
              (fun e he => hfresh f (List.mem_cons_self ..) e he) hok
            simp only [List.map_cons, List.nodup_cons] at hn1 hn2
            unfold appendOk
            simp only [Bool.and_eq_true, Bool.not_true, Bool.false_or]
            refine ⟨⟨hrow.1, hrow.2⟩, ?_⟩
            rw [List.append_assoc]
            refine ih rest (pre ++ [mkDelivery s m now f]) hrest ?_ hn1.2 hn2.2
              (fun g hg e he => hfresh g (List.mem_cons_of_mem _ hg) e he)
            intro p hp g hg
            rcases List.mem_append.mp hp with h1 | h1
            · exact hpre p h1 g (List.mem_cons_of_mem _ hg)
            · simp only [List.mem_singleton] at h1
              subst h1
              simp only [mkDelivery]
              constructor
              · intro heq
                exact hn2.1 (List.mem_map.mpr ⟨g, hg, by rw [← heq, hsid]⟩)
              · intro heq
                exact hn1.1 (List.mem_map.mpr ⟨g, hg, heq.symm⟩)


/-- **the enqueueing of one message refines the ordered-delivery step** (`deliverAll`, used by publish
    and by every dead-letter forward): for a message that is in the table, onto live subscriptions with
    unique ids, at an instant later than the stamps of the rows already there (the clock assumption
    of `C05_ordered_partial`) -/
theorem C05_refines_enqueue (db db' : Db) (subs : List Sub) (m : Msg) (now : Time) (fwds : List Fwd) (w : List Id)
    (h : deliverAll db subs m now fwds = .ok (db', w))
    (hmsg : db.msgById m.id = some m)
    (hsubs : ∀ s ∈ subs, s ∈ db.subs ∧ s.live = true)
    (huniq : ∀ a ∈ db.subs, ∀ b ∈ db.subs, a.live = true → b.live = true → a.id = b.id → a = b)
    (hclock : ∀ d ∈ db.dels, d.publishedAt < now) :
    Ord.stepOk true db now db' now = true := by
  obtain ⟨rows, hrows, hdb', _⟩ := deliverAll_shape h
  obtain ⟨hn2, _, hn1, hfresh⟩ := deliverAll_checks h
  subst hdb'
  refine Ord.stepOk_of_append true db now _ now rows (Int.le_refl _) rfl rfl (fun d _ => rfl) ?_
  have := appendOk_mkRows db { db with dels := db.dels ++ rows } subs m now hmsg hsubs huniq hclock rfl rfl fwds rows [] hrows
    (fun p hp => by cases hp) ((nodupIds_iff _).mp hn1) ((nodupIds_iff _).mp hn2)
    (fun f hf e he heq => by
      have hc := hfresh f hf
      have : db.allIds.contains f.newId = true := by
        apply List.elem_eq_true_of_mem
        unfold Db.allIds
        simp only [List.mem_append, List.mem_map]
        left; right
        exact ⟨e, he, heq⟩
      rw [this] at hc; cases hc)
  simpa using this


theorem liveSubsOf_mem {db : Db} {tid : Id} {s : Sub} (h : s ∈ db.liveSubsOf tid) : s ∈ db.subs ∧ s.live = true := by
  unfold Db.liveSubsOf at h
  have := List.mem_filter.mp h
  simp only [Bool.and_eq_true] at this
  exact ⟨this.1, this.2.2⟩

theorem publishOne_shape {db db' : Db} {t : Topic} {now : Time} {pm : PubMsg} {w : List Id}
    (h : publishOne db t now pm = .ok (db', w)) :
    ∃ (m : Msg) (db1 : Db), m.id = pm.id ∧ db1 = { db with msgs := db.msgs ++ [m] } ∧
      db.allIds.contains pm.id = false ∧ deliverAll db1 (db1.liveSubsOf t.id) m now pm.fwds = .ok (db', w) := by
  unfold publishOne at h
  split at h
  · cases h
  · rename_i hf
    exact ⟨_, _, rfl, rfl, by simpa using hf, h⟩

/-- **publishing one message refines the ordered-delivery step**: `PublishMessage.Execute` inserts the
    message and enqueues it (`publishOne`); with referential integrity of the deliveries table, unique
    subscription ids and the clock assumption, the step from the table before to the table after
    satisfies `Ord.stepOk` — so histories of such publishes, acknowledgements of handed-out
    deliveries, deadline changes, clock advances and the control-plane operations proved above fall
    under `C05_ordered_partial` without any run-time check. -/
theorem C05_refines_publish_one (db db' : Db) (t : Topic) (now : Time) (pm : PubMsg) (w : List Id)
    (h : publishOne db t now pm = .ok (db', w))
    (hfk : ∀ d ∈ db.dels, (db.msgById d.msgId).isSome = true)
    (huniq : ∀ a ∈ db.subs, ∀ b ∈ db.subs, a.live = true → b.live = true → a.id = b.id → a = b)
    (hclock : ∀ d ∈ db.dels, d.publishedAt < now) :
    Ord.stepOk true db now db' now = true := by
  obtain ⟨m, db1, hmid, hdb1, hfreshm, h⟩ := publishOne_shape h
  have hmsg : db1.msgById m.id = some m := by
    rw [hdb1]
    unfold Db.msgById
    simp only [List.find?_append]
    have hnone : db.msgs.find? (fun x => x.id == m.id) = none := by
      apply List.find?_eq_none.mpr
      intro x hx hxe
      have : db.allIds.contains pm.id = true := by
        apply List.elem_eq_true_of_mem
        unfold Db.allIds
        simp only [List.mem_append, List.mem_map]
        left; left; right
        exact ⟨x, hx, by rw [← hmid]; simpa using hxe⟩
      rw [this] at hfreshm; cases hfreshm
    rw [hnone]
    simp
  have hsubs1 : db1.subs = db.subs := by rw [hdb1]
  have hdels1 : db1.dels = db.dels := by rw [hdb1]
  obtain ⟨rows, hrows, hdb', _⟩ := deliverAll_shape h
  obtain ⟨hn2, _, hn1, hfresh⟩ := deliverAll_checks h
  have happ := appendOk_mkRows db1 db' (db1.liveSubsOf t.id) m now hmsg
    (fun s hs => liveSubsOf_mem hs) (by rw [hsubs1]; exact huniq) (by rw [hdels1]; exact hclock)
    (by rw [hdb']) (by rw [hdb']) pm.fwds rows [] hrows
    (fun p hp => by cases hp) ((nodupIds_iff _).mp hn1) ((nodupIds_iff _).mp hn2)
    (fun f hf e he heq => by
      have hc := hfresh f hf
      have : db1.allIds.contains f.newId = true := by
        apply List.elem_eq_true_of_mem
        unfold Db.allIds
        simp only [List.mem_append, List.mem_map]
        left; right
        exact ⟨e, he, heq⟩
      rw [this] at hc; cases hc)
  rw [List.append_nil, hdels1] at happ
  refine Ord.stepOk_of_append true db now db' now rows (Int.le_refl _) (by rw [hdb', hdels1]) (by rw [hdb', hsubs1]) ?_ happ
  intro d hd
  rw [hdb', hdb1]
  exact keyOf_append_of_some (hfk d hd) _

end enqueue

/-! ### the enqueueing of a message satisfies the obligation that has no clock assumption -/

section enqueue2
open Mmmbbb.Ord Mmmbbb.Ord2

/-- a step that only appends rows, for the obligation without clock assumption -/
theorem stepOk2_of_append (db : Db) (now : Time) (db' : Db) (now' : Time) (rows : List Delivery)
    (hnow : now ≤ now') (hd : db'.dels = db.dels ++ rows) (hs : db'.subs = db.subs)
    (hk : ∀ d ∈ db.dels, keyOf db' d = keyOf db d)
    (happ : appendOk2 db' now' db.dels rows = true) :
    stepOk2 db now db' now' = true := by
  unfold stepOk2
  simp only [Bool.and_eq_true, decide_eq_true_eq, Bool.or_eq_true]
  refine ⟨⟨hnow, subsOk_same db db' hs⟩, Or.inl ?_⟩
  unfold growOk2
  simp only [hd, List.take_left', List.drop_left', Bool.and_eq_true]
  exact ⟨rowsUpdOk_refl' db now db' db.dels hk, happ⟩

/-- rows of other subscriptions whose links stay inside their own subscription wait on no row of `x`'s -/
theorem hasSuccIn_append_other (T pre : List Delivery) (x : Delivery)
    (h : ∀ p ∈ pre, p.notBefore ≠ some x.id) : hasSuccIn (T ++ pre) x = hasSuccIn T x := by
  unfold hasSuccIn
  rw [List.any_append]
  have : (pre.any fun e => e.notBefore == some x.id) = false := by
    apply List.any_eq_false.mpr
    intro p hp
    simpa using h p hp
  rw [this, Bool.or_false]

/-- the enqueueing check for a message without key, or a subscription without ordering: no link -/
theorem predChoiceOk_plain (db : Db) (s : Sub) (m : Msg) (now : Time) (nb : Option Id)
    (h : ¬ (s.ordered = true ∧ ∃ k, m.orderKey = some k ∧ k ≠ "")) :
    predChoiceOk db s m now nb = nb.isNone := by
  unfold predChoiceOk
  rw [if_neg]
  intro hc
  simp only [Bool.and_eq_true] at hc
  apply h
  refine ⟨hc.1, ?_⟩
  have h2 := hc.2
  cases hmo : m.orderKey with
  | none => rw [hmo] at h2; simp at h2
  | some k => rw [hmo] at h2; exact ⟨k, rfl, by simpa using h2⟩

/-- one row made by `mkDelivery` for the accepted forward `f` satisfies the new-row obligation of
    `Ord2.stepOk2` — the link clause *with the second sort key of the predecessor query* — against a
    table that consists of the old rows (none stamped later than now) and rows made in the same
    statement for other subscriptions -/
theorem rowNew2_mkDelivery (db db' : Db) (s : Sub) (m : Msg) (now : Time) (f : Fwd) (pre : List Delivery)
    (hmsg : db.msgById m.id = some m) (hs : s ∈ db.subs) (hlive : s.live = true)
    (huniq : ∀ a ∈ db.subs, ∀ b ∈ db.subs, a.live = true → b.live = true → a.id = b.id → a = b)
    (hids : (db.dels.map (·.id)).Nodup)
    (hpast : ∀ d ∈ db.dels, d.publishedAt ≤ now)
    (hsubs' : db'.subs = db.subs) (hmsgs' : db'.msgs = db.msgs)
    (hpre : ∀ p ∈ pre, p.subId ≠ s.id ∧ p.id ≠ f.newId ∧ p.publishedAt ≤ now ∧
      ∀ i, p.notBefore = some i → ∃ y ∈ db.dels, y.id = i ∧ y.subId = p.subId)
    (hfresh : ∀ e ∈ db.dels, e.id ≠ f.newId)
    (hok : predChoiceOk db s m now f.nb = true) :
    rowNewOk2 db' now (db.dels ++ pre) (mkDelivery s m now f) = true := by
  have hpre1 : ∀ p ∈ pre, p.subId ≠ (mkDelivery s m now f).subId := fun p hp => (hpre p hp).1
  -- nobody among the rows of the same statement waits on a row of this subscription
  have hsucc : ∀ x ∈ db.dels, x.subId = s.id → hasSuccIn (db.dels ++ pre) x = hasSucc db x := by
    intro x hx hxs
    refine hasSuccIn_append_other db.dels pre x ?_
    intro p hp hnb
    obtain ⟨y, hy, hyi, hys⟩ := (hpre p hp).2.2.2 x.id hnb
    have : y = x := Ord.eq_of_nodup_ids hids hy hx hyi
    subst this
    exact (hpre p hp).1 (hys.symm.trans hxs)
  unfold rowNewOk2
  simp only [Bool.and_eq_true, decide_eq_true_eq]
  refine ⟨⟨⟨⟨⟨⟨?ge, Int.le_refl _⟩, ?ttl⟩, rfl⟩, rfl⟩, ?fresh⟩, ?link⟩
  case ge =>
    apply List.all_eq_true.mpr
    intro e he
    rcases List.mem_append.mp he with h1 | h1
    · exact decide_eq_true (hpast e h1)
    · exact decide_eq_true (hpre e h1).2.2.1
  case ttl =>
    rw [hsubs']
    apply List.all_eq_true.mpr
    intro s' hs'
    cases hl : s'.live with
    | false => simp
    | true =>
      by_cases hid : s'.id = s.id
      · have : s' = s := huniq s' hs' s hs hl hlive hid
        subst this
        simp [mkDelivery]
      · have : (s'.id == (mkDelivery s m now f).subId) = false := by simpa [mkDelivery] using hid
        simp [this]
  case fresh =>
    apply List.all_eq_true.mpr
    intro e he
    rcases List.mem_append.mp he with h1 | h1
    · simpa [mkDelivery] using hfresh e h1
    · simpa [mkDelivery] using (hpre e h1).2.1
  case link =>
    rw [liveOrd_congr_subs hsubs', keyOf_congr_msgs hmsgs']
    -- is the message keyed, and the subscription ordered?
    by_cases hK : s.ordered = true ∧ ∃ k, m.orderKey = some k ∧ k ≠ ""
    · obtain ⟨hord, k, hmk, hne⟩ := hK
      have hlo : liveOrd db (mkDelivery s m now f).subId = true :=
        (liveOrd_iff db _).mpr ⟨s, hs, rfl, hlive, hord⟩
      have hkk : keyOf db (mkDelivery s m now f) = some k := keyOf_of_msg (d := mkDelivery s m now f) hmsg hmk hne
      rw [if_pos ⟨hlo, by rw [hkk]; rfl⟩]
      rw [cands_congr db db' hmsgs', cands_append_other db db.dels pre _ hpre1,
        cands_eq_predCands db s m now f k hmsg hmk hne]
      rw [predChoiceOk_keyed db s m now f.nb hord k hmk hne] at hok
      show (match f.nb with
        | none => (predCands db s m now).isEmpty
        | some p => (predCands db s m now).any fun q => q.id == p && (predCands db s m now).all fun e =>
            decide (e.publishedAt ≤ q.publishedAt) &&
              (!(e.publishedAt == q.publishedAt) || !hasSuccIn (db.dels ++ pre) q || hasSuccIn (db.dels ++ pre) e)) = true
      cases hnb : f.nb with
      | none => rw [hnb] at hok; exact hok
      | some p =>
        rw [hnb] at hok
        simp only [List.any_eq_true, Bool.and_eq_true] at hok ⊢
        obtain ⟨q, hq, hqid, hnew⟩ := hok
        refine ⟨q, hq, hqid, ?_⟩
        have htb : tieBreak = true := by unfold tieBreak; rw [C05_predecessor_query_order]; rfl
        unfold newestIn at hnew
        rw [List.all_eq_true] at hnew ⊢
        intro e he
        have := hnew e he
        simp only [htb, Bool.not_true, Bool.false_or] at this
        have hqm : q ∈ db.dels ∧ q.subId = s.id := by
          unfold predCands at hq
          have := List.mem_filter.mp hq
          simp only [Bool.and_eq_true, beq_iff_eq] at this
          exact ⟨this.1, this.2.1.1⟩
        have hem : e ∈ db.dels ∧ e.subId = s.id := by
          unfold predCands at he
          have := List.mem_filter.mp he
          simp only [Bool.and_eq_true, beq_iff_eq] at this
          exact ⟨this.1, this.2.1.1⟩
        rw [hsucc q hqm.1 hqm.2, hsucc e hem.1 hem.2]
        exact this
    · -- not a keyed message on an ordered subscription: no link
      have hnone : f.nb.isNone = true := by
        rw [predChoiceOk_plain db s m now f.nb hK] at hok; exact hok
      have hcond : ¬ (liveOrd db (mkDelivery s m now f).subId = true ∧ (keyOf db (mkDelivery s m now f)).isSome = true) := by
        rintro ⟨hlo, hks⟩
        apply hK
        obtain ⟨s', hs', hid, hl', ho'⟩ := (liveOrd_iff db _).mp hlo
        have : s' = s := huniq s' hs' s hs hl' hlive (by simpa [mkDelivery] using hid)
        subst this
        refine ⟨ho', ?_⟩
        unfold keyOf at hks
        simp only [mkDelivery, hmsg] at hks
        cases hmo : m.orderKey with
        | none => rw [hmo] at hks; cases hks
        | some k' =>
          rw [hmo] at hks
          simp only at hks
          refine ⟨k', rfl, ?_⟩
          intro h0; subst h0; simp at hks
      rw [if_neg hcond]
      simpa [mkDelivery] using hnone

theorem appendOk2_mkRows (db db' : Db) (subs : List Sub) (m : Msg) (now : Time)
    (hmsg : db.msgById m.id = some m)
    (hsubs : ∀ s ∈ subs, s ∈ db.subs ∧ s.live = true)
    (huniq : ∀ a ∈ db.subs, ∀ b ∈ db.subs, a.live = true → b.live = true → a.id = b.id → a = b)
    (hids : (db.dels.map (·.id)).Nodup)
    (hpast : ∀ d ∈ db.dels, d.publishedAt ≤ now)
    (hsubs' : db'.subs = db.subs) (hmsgs' : db'.msgs = db.msgs) :
    ∀ (fwds : List Fwd) (rows pre : List Delivery), mkRows db subs m now fwds = .ok rows →
      (∀ p ∈ pre, (∀ f ∈ fwds, p.subId ≠ f.subId ∧ p.id ≠ f.newId) ∧ p.publishedAt ≤ now ∧
        ∀ i, p.notBefore = some i → ∃ y ∈ db.dels, y.id = i ∧ y.subId = p.subId) →
      (fwds.map (·.newId)).Nodup → (fwds.map (·.subId)).Nodup →
      (∀ f ∈ fwds, ∀ e ∈ db.dels, e.id ≠ f.newId) →
      appendOk2 db' now (db.dels ++ pre) rows = true := by
  intro fwds
  induction fwds with
  | nil =>
    intro rows pre h _ _ _ _
    unfold mkRows at h
    injection h with h; subst h
    rfl
  | cons f t ih =>
    intro rows pre h hpre hn1 hn2 hfresh
    unfold mkRows at h
    split at h
    · cases h
    · rename_i s hs
      split at h
      · cases h
      · split at h
        · cases h
        · rename_i hpred
          split at h
          · cases h
          · rename_i rest hrest
            injection h with h; subst h
            have hsid : s.id = f.subId := by
              have := List.find?_some hs
              simpa using this
            have hsm : s ∈ subs := List.mem_of_find?_eq_some hs
            obtain ⟨hsdb, hslive⟩ := hsubs s hsm
            have hok : predChoiceOk db s m now f.nb = true := by simpa using hpred
            have hrow := rowNew2_mkDelivery db db' s m now f pre hmsg hsdb hslive huniq hids hpast hsubs' hmsgs'
              (fun p hp => by
                have := (hpre p hp).1 f (List.mem_cons_self ..)
                exact ⟨by rw [hsid]; exact this.1, this.2, (hpre p hp).2.1, (hpre p hp).2.2⟩)
              (fun e he => hfresh f (List.mem_cons_self ..) e he) hok
            simp only [List.map_cons, List.nodup_cons] at hn1 hn2
            unfold appendOk2
            simp only [Bool.and_eq_true]
            refine ⟨hrow, ?_⟩
            rw [List.append_assoc]
            refine ih rest (pre ++ [mkDelivery s m now f]) hrest ?_ hn1.2 hn2.2
              (fun g hg e he => hfresh g (List.mem_cons_of_mem _ hg) e he)
            intro p hp
            rcases List.mem_append.mp hp with h1 | h1
            · exact ⟨fun g hg => (hpre p h1).1 g (List.mem_cons_of_mem _ hg), (hpre p h1).2.1, (hpre p h1).2.2⟩
            · simp only [List.mem_singleton] at h1
              subst h1
              refine ⟨?_, Int.le_refl _, ?_⟩
              · intro g hg
                simp only [mkDelivery]
                constructor
                · intro heq
                  exact hn2.1 (List.mem_map.mpr ⟨g, hg, by rw [← heq, hsid]⟩)
                · intro heq
                  exact hn1.1 (List.mem_map.mpr ⟨g, hg, heq.symm⟩)
              · -- the link of the row just made names a row of its own subscription
                intro i hi
                simp only [mkDelivery] at hi
                by_cases hK : s.ordered = true ∧ ∃ k, m.orderKey = some k ∧ k ≠ ""
                · obtain ⟨hord, k, hmk, hne⟩ := hK
                  rw [predChoiceOk_keyed db s m now f.nb hord k hmk hne, hi] at hok
                  simp only [List.any_eq_true, Bool.and_eq_true, beq_iff_eq] at hok
                  obtain ⟨q, hq, hqid, _⟩ := hok
                  unfold predCands at hq
                  have := List.mem_filter.mp hq
                  simp only [Bool.and_eq_true, beq_iff_eq] at this
                  exact ⟨q, this.1, hqid, by simpa [mkDelivery] using this.2.1.1⟩
                · rw [predChoiceOk_plain db s m now f.nb hK, hi] at hok
                  cases hok

/-- **the enqueueing of one message satisfies the obligation of `C05_ordered_ties`** (`deliverAll`, used
    by publish and by every dead-letter forward) — with *no* clock assumption: the rows already in the
    table may carry the very instant the new rows are stamped with (several deliveries dead-lettered
    in one transaction).  What makes this true is the second sort key of the predecessor query, as it
    stands in the source (`C05_predecessor_query_order`, regenerated on every run). -/
theorem C05_refines2_enqueue (db db' : Db) (subs : List Sub) (m : Msg) (now : Time) (fwds : List Fwd) (w : List Id)
    (h : deliverAll db subs m now fwds = .ok (db', w))
    (hmsg : db.msgById m.id = some m)
    (hsubs : ∀ s ∈ subs, s ∈ db.subs ∧ s.live = true)
    (huniq : ∀ a ∈ db.subs, ∀ b ∈ db.subs, a.live = true → b.live = true → a.id = b.id → a = b)
    (hids : (db.dels.map (·.id)).Nodup)
    (hpast : ∀ d ∈ db.dels, d.publishedAt ≤ now) :
    Ord2.stepOk2 db now db' now = true := by
  obtain ⟨rows, hrows, hdb', _⟩ := deliverAll_shape h
  obtain ⟨hn2, _, hn1, hfresh⟩ := deliverAll_checks h
  subst hdb'
  refine stepOk2_of_append db now _ now rows (Int.le_refl _) rfl rfl (fun d _ => rfl) ?_
  have := appendOk2_mkRows db { db with dels := db.dels ++ rows } subs m now hmsg hsubs huniq hids hpast rfl rfl fwds rows [] hrows
    (fun p hp => by cases hp) ((nodupIds_iff _).mp hn1) ((nodupIds_iff _).mp hn2)
    (fun f hf e he heq => by
      have hc := hfresh f hf
      have : db.allIds.contains f.newId = true := by
        apply List.elem_eq_true_of_mem
        unfold Db.allIds
        simp only [List.mem_append, List.mem_map]
        left; right
        exact ⟨e, he, heq⟩
      rw [this] at hc; cases hc)
  simpa using this

/-- **publishing one message satisfies the obligation of `C05_ordered_ties`** — with no clock
    assumption: `now` may be the very instant rows already in the table are stamped with -/
theorem C05_refines2_publish_one (db db' : Db) (t : Topic) (now : Time) (pm : PubMsg) (w : List Id)
    (h : publishOne db t now pm = .ok (db', w))
    (hfk : ∀ d ∈ db.dels, (db.msgById d.msgId).isSome = true)
    (huniq : ∀ a ∈ db.subs, ∀ b ∈ db.subs, a.live = true → b.live = true → a.id = b.id → a = b)
    (hids : (db.dels.map (·.id)).Nodup)
    (hpast : ∀ d ∈ db.dels, d.publishedAt ≤ now) :
    Ord2.stepOk2 db now db' now = true := by
  obtain ⟨m, db1, hmid, hdb1, hfreshm, h⟩ := publishOne_shape h
  have hmsg : db1.msgById m.id = some m := by
    rw [hdb1]
    unfold Db.msgById
    simp only [List.find?_append]
    have hnone : db.msgs.find? (fun x => x.id == m.id) = none := by
      apply List.find?_eq_none.mpr
      intro x hx hxe
      have : db.allIds.contains pm.id = true := by
        apply List.elem_eq_true_of_mem
        unfold Db.allIds
        simp only [List.mem_append, List.mem_map]
        left; left; right
        exact ⟨x, hx, by rw [← hmid]; simpa using hxe⟩
      rw [this] at hfreshm; cases hfreshm
    rw [hnone]
    simp
  have hsubs1 : db1.subs = db.subs := by rw [hdb1]
  have hdels1 : db1.dels = db.dels := by rw [hdb1]
  obtain ⟨rows, hrows, hdb', _⟩ := deliverAll_shape h
  obtain ⟨hn2, _, hn1, hfresh⟩ := deliverAll_checks h
  have happ := appendOk2_mkRows db1 db' (db1.liveSubsOf t.id) m now hmsg
    (fun s hs => liveSubsOf_mem hs) (by rw [hsubs1]; exact huniq) (by rw [hdels1]; exact hids) (by rw [hdels1]; exact hpast)
    (by rw [hdb']) (by rw [hdb']) pm.fwds rows [] hrows
    (fun p hp => by cases hp) ((nodupIds_iff _).mp hn1) ((nodupIds_iff _).mp hn2)
    (fun f hf e he heq => by
      have hc := hfresh f hf
      have : db1.allIds.contains f.newId = true := by
        apply List.elem_eq_true_of_mem
        unfold Db.allIds
        simp only [List.mem_append, List.mem_map]
        left; right
        exact ⟨e, he, heq⟩
      rw [this] at hc; cases hc)
  rw [List.append_nil, hdels1] at happ
  refine stepOk2_of_append db now db' now rows (Int.le_refl _) (by rw [hdb', hdels1]) (by rw [hdb', hsubs1]) ?_ happ
  intro d hd
  rw [hdb', hdb1]
  exact keyOf_append_of_some (hfk d hd) _

end enqueue2

/-! ### the jobs that delete delivery rows refine the shrinking step -/

section prune
open Mmmbbb.Ord

/-- the row rewrite of `deleteDeliveries` -/
def clrV (ids : List Id) (d : Delivery) : Delivery :=
  match d.notBefore with
  | some p => if ids.contains p then { d with notBefore := none } else d
  | none => d

theorem clrV_id (ids : List Id) (d : Delivery) : (clrV ids d).id = d.id := by
  unfold clrV; split <;> (try split) <;> rfl

theorem deleteDeliveries_dels (db : Db) (ids : List Id) :
    (deleteDeliveries db ids).dels = (db.dels.filter fun d => !ids.contains d.id).map (clrV ids) := rfl

theorem removedIds_deleteDeliveries (db : Db) (victims : List Id) (i : Id) (hi : i ∈ db.dels.map (·.id)) :
    (removedIds db.dels (deleteDeliveries db victims).dels).contains i = victims.contains i := by
  rw [deleteDeliveries_dels]
  unfold removedIds
  rw [Bool.eq_iff_iff, List.contains_iff_mem, List.contains_iff_mem, List.mem_filter]
  constructor
  · rintro ⟨_, h⟩
    obtain ⟨d, hd, hdi⟩ := List.mem_map.mp hi
    by_cases hv : i ∈ victims
    · exact hv
    · exfalso
      have hk : d ∈ db.dels.filter fun d => !victims.contains d.id := by
        refine List.mem_filter.mpr ⟨hd, ?_⟩
        simp only [Bool.not_eq_true', List.contains_eq_mem, decide_eq_false_iff_not]
        rw [hdi]; exact hv
      have hany : (List.map (clrV victims) (db.dels.filter fun d => !victims.contains d.id)).any (fun x => x.id == i) = true := by
        apply List.any_eq_true.mpr
        exact ⟨clrV victims d, List.mem_map.mpr ⟨d, hk, rfl⟩, by rw [clrV_id, hdi]; simp⟩
      rw [hany] at h; simp at h
  · intro hv
    refine ⟨hi, ?_⟩
    have : (List.map (clrV victims) (db.dels.filter fun d => !victims.contains d.id)).any (fun x => x.id == i) = false := by
      apply List.any_eq_false.mpr
      intro x hx
      obtain ⟨d, hd, rfl⟩ := List.mem_map.mp hx
      have hd' := (List.mem_filter.mp hd).2
      rw [clrV_id]
      intro heq
      have : d.id = i := by simpa using heq
      rw [this] at hd'
      have hc : victims.contains i = true := List.contains_iff_mem.mpr hv
      rw [hc] at hd'; cases hd'
    rw [this]; rfl

/-- deleting delivery rows that exist and are not outstanding (acknowledged, or past their retention)
    is a shrinking step of the ordered-delivery obligation: the rows go, the links to them are cleared
    (`ON DELETE SET NULL`), nothing else changes -/
theorem shrinkOk_deleteDeliveries (db : Db) (now : Time) (victims : List Id)
    (hex : ∀ v ∈ victims, v ∈ db.dels.map (·.id))
    (hdone : ∀ d ∈ db.dels, victims.contains d.id = true → d.isOpen now = false ∨ liveOrd db d.subId = false) :
    shrinkOk db now (deleteDeliveries db victims) = true := by
  have hR : ∀ i ∈ db.dels.map (·.id), (removedIds db.dels (deleteDeliveries db victims).dels).contains i = victims.contains i :=
    fun i hi => removedIds_deleteDeliveries db victims i hi
  unfold shrinkOk
  simp only [Bool.and_eq_true, beq_iff_eq]
  refine ⟨⟨?_, ?_⟩, ?_⟩
  · -- the table after
    rw [deleteDeliveries_dels] at hR ⊢
    have hRsub : ∀ p, (removedIds db.dels ((db.dels.filter fun d => !victims.contains d.id).map (clrV victims))).contains p = true →
        p ∈ db.dels.map (·.id) := by
      intro p hp
      have := List.contains_iff_mem.mp hp
      unfold removedIds at this
      exact (List.mem_filter.mp this).1
    generalize removedIds db.dels ((db.dels.filter fun d => !victims.contains d.id).map (clrV victims)) = R at hR hRsub ⊢
    have hf : (db.dels.filter fun d => !R.contains d.id) = db.dels.filter fun d => !victims.contains d.id := by
      apply List.filter_congr
      intro d hd
      rw [hR d.id (List.mem_map.mpr ⟨d, hd, rfl⟩)]
    rw [hf]
    apply List.map_congr_left
    intro d hd
    have hdm : d ∈ db.dels := (List.mem_filter.mp hd).1
    unfold clrV clr
    cases hnb : d.notBefore with
    | none => rfl
    | some p =>
      simp only
      by_cases hp : p ∈ db.dels.map (·.id)
      · rw [hR p hp]
      · -- a link to a row that is not in the table: neither list contains it
        have h1 : victims.contains p = false := by
          cases hc : victims.contains p with
          | false => rfl
          | true => exact absurd (hex p (List.contains_iff_mem.mp hc)) hp
        have h2 : R.contains p = false := by
          cases hc : R.contains p with
          | false => rfl
          | true => exact absurd (hRsub p hc) hp
        rw [h1, h2]
  · apply List.all_eq_true.mpr
    intro d hd
    have := hR d.id (List.mem_map.mpr ⟨d, hd, rfl⟩)
    rw [this]
    cases hv : victims.contains d.id with
    | false => simp
    | true =>
      rcases hdone d hd hv with h1 | h1 <;> simp [h1]
  · apply List.all_eq_true.mpr
    intro d _
    simp only [Bool.or_eq_true, beq_iff_eq]
    right; rfl

theorem stepOk_of_shrink (db : Db) (now : Time) (db' : Db) (hs : db'.subs = db.subs) (h : shrinkOk db now db' = true) :
    stepOk true db now db' now = true := by
  unfold stepOk
  simp only [Bool.and_eq_true, decide_eq_true_eq, Bool.or_eq_true]
  exact ⟨⟨Int.le_refl _, subsOk_same db db' hs⟩, Or.inr h⟩

theorem limitOk_victims {α} {rows : List α} {lookup : Id → Option α} {p : α → Bool} {victims : List Id} {max : Nat}
    (h : limitOk rows lookup p victims max = true) : ∀ v ∈ victims, ∃ r, lookup v = some r ∧ p r = true := by
  unfold limitOk at h
  simp only [Bool.and_eq_true] at h
  intro v hv
  have := List.all_eq_true.mp h.2 v hv
  cases hl : lookup v with
  | none => rw [hl] at this; cases this
  | some r => rw [hl] at this; exact ⟨r, rfl, this⟩

theorem delById_mem {db : Db} {v : Id} {r : Delivery} (h : db.delById v = some r) : r ∈ db.dels ∧ r.id = v := by
  unfold Db.delById at h
  exact ⟨List.mem_of_find?_eq_some h, by simpa using List.find?_some h⟩

/-- **the job that removes acknowledged deliveries refines the shrinking step** (ids unique) -/
theorem C05_refines_pruneCompletedDeliveries (st : St) (a : Int) (mx : Nat) (v : List Id)
    (huniq : (st.db.dels.map (·.id)).Nodup) :
    Ord.stepOk true st.db st.now (step st (.pruneCompletedDeliveries a mx v)).1.db (step st (.pruneCompletedDeliveries a mx v)).1.now = true := by
  simp only [step]
  unfold pruneCompletedDeliveries
  simp only
  split
  · simp only [finish]
    exact Ord.stepOk_of_same st.db st.now _ st.now (Int.le_refl _) rfl rfl rfl
  · rename_i hlim
    simp only [finish]
    have hlim' := by simpa using hlim
    have hv := limitOk_victims hlim'
    refine stepOk_of_shrink st.db st.now _ rfl (shrinkOk_deleteDeliveries st.db st.now v ?_ ?_)
    · intro x hx
      obtain ⟨r, hr, _⟩ := hv x hx
      obtain ⟨hm, hid⟩ := delById_mem hr
      exact List.mem_map.mpr ⟨r, hm, hid⟩
    · intro d hd hc
      obtain ⟨r, hr, hp⟩ := hv d.id (List.contains_iff_mem.mp hc)
      obtain ⟨hm, hid⟩ := delById_mem hr
      have : r = d := Ord.eq_of_nodup_ids huniq hm hd hid
      subst this
      refine Or.inl ((Ord.isOpen_false_iff st.now r).mpr (Or.inl ?_))
      cases hcc : r.completedAt with
      | none => rw [hcc] at hp; cases hp
      | some c => rfl

/-- **the job that removes deliveries past their retention refines the shrinking step** (ids unique) -/
theorem C05_refines_pruneExpiredDeliveries (st : St) (mx : Nat) (v : List Id)
    (huniq : (st.db.dels.map (·.id)).Nodup) :
    Ord.stepOk true st.db st.now (step st (.pruneExpiredDeliveries mx v)).1.db (step st (.pruneExpiredDeliveries mx v)).1.now = true := by
  simp only [step]
  unfold pruneExpiredDeliveries
  simp only
  split
  · simp only [finish]
    exact Ord.stepOk_of_same st.db st.now _ st.now (Int.le_refl _) rfl rfl rfl
  · rename_i hlim
    simp only [finish]
    have hlim' := by simpa using hlim
    have hv := limitOk_victims hlim'
    refine stepOk_of_shrink st.db st.now _ rfl (shrinkOk_deleteDeliveries st.db st.now v ?_ ?_)
    · intro x hx
      obtain ⟨r, hr, _⟩ := hv x hx
      obtain ⟨hm, hid⟩ := delById_mem hr
      exact List.mem_map.mpr ⟨r, hm, hid⟩
    · intro d hd hc
      obtain ⟨r, hr, hp⟩ := hv d.id (List.contains_iff_mem.mp hc)
      obtain ⟨hm, hid⟩ := delById_mem hr
      have : r = d := Ord.eq_of_nodup_ids huniq hm hd hid
      subst this
      refine Or.inl ((Ord.isOpen_false_iff st.now r).mpr (Or.inr ?_))
      have : r.expiresAt < st.now := by simpa using hp
      exact Int.le_of_lt this

end prune

/-! ### a pull refines the ordered-delivery step (topologies without dead-letter policies) -/

section pull
open Mmmbbb.Ord

/-- subscriptions changed only in fields the ordering obligation does not read -/
theorem subsOk_of_map (db db' : Db) (g : Sub → Sub) (hs : db'.subs = db.subs.map g)
    (hg : ∀ s ∈ db.subs, (g s).id = s.id ∧ (g s).live = s.live ∧ (g s).ordered = s.ordered ∧ (g s).messageTtl = s.messageTtl) :
    subsOk db db' = true := by
  unfold subsOk
  rw [hs]
  apply List.all_eq_true.mpr
  intro s' hs'
  obtain ⟨s, hsm, rfl⟩ := List.mem_map.mp hs'
  obtain ⟨h1, h2, h3, h4⟩ := hg s hsm
  cases hl : (g s).live with
  | false => simp
  | true =>
    simp only [Bool.not_true, Bool.false_or, Bool.or_eq_true, List.any_eq_true, Bool.and_eq_true, beq_iff_eq]
    left
    exact ⟨s, hsm, ⟨⟨⟨by rw [← h2]; exact hl, h1.symm⟩, h3.symm⟩, h4.symm⟩⟩

/-- a step that updates delivery rows in place and changes subscriptions only in fields the
    obligation does not read -/
theorem stepOk_of_maps (db : Db) (now : Time) (db' : Db) (now' : Time) (g : Delivery → Delivery) (gs : Sub → Sub)
    (hnow : now ≤ now') (hd : db'.dels = db.dels.map g) (hs : db'.subs = db.subs.map gs)
    (hgs : ∀ s ∈ db.subs, (gs s).id = s.id ∧ (gs s).live = s.live ∧ (gs s).ordered = s.ordered ∧ (gs s).messageTtl = s.messageTtl)
    (hg : ∀ d ∈ db.dels, rowUpdOk db now db' d (g d) = true) :
    stepOk true db now db' now' = true := by
  unfold stepOk
  simp only [Bool.and_eq_true, decide_eq_true_eq, Bool.or_eq_true]
  refine ⟨⟨hnow, subsOk_of_map db db' gs hs hgs⟩, Or.inl ?_⟩
  unfold growOk
  have hlen : db.dels.length = (db.dels.map g).length := by simp
  simp only [hd, Bool.and_eq_true]
  rw [hlen, List.take_length, List.drop_length]
  refine ⟨?_, rfl⟩
  have : ∀ l : List Delivery, (∀ d ∈ l, rowUpdOk db now db' d (g d) = true) → rowsUpdOk db now db' l (l.map g) = true := by
    intro l
    induction l with
    | nil => intro _; rfl
    | cons d r ih =>
      intro h
      simp only [List.map_cons, rowsUpdOk, Bool.and_eq_true]
      exact ⟨h d List.mem_cons_self, ih (fun x hx => h x (List.mem_cons_of_mem _ hx))⟩
  exact this db.dels hg

/-- a row that is handed out (lease bookkeeping), its predecessor link allowing it -/
theorem rowUpdOk_lease (db : Db) (now : Time) (db' : Db) (hm : db'.msgs = db.msgs) (d : Delivery) (δ : Int)
    (hjust : liveOrd db d.subId = true → keyOf db d ≠ none → 0 < d.attempts ∨ db.predDone now d = true) :
    rowUpdOk db now db' d (leaseRow now δ d) = true := by
  have hk : keyOf db' (leaseRow now δ d) = keyOf db d := by unfold keyOf Db.msgById leaseRow; rw [hm]
  unfold rowUpdOk
  rw [hk]
  simp only [leaseRow, beq_self_eq_true, Bool.true_and, Bool.and_eq_true, Bool.or_eq_true, decide_eq_true_eq,
    Bool.not_eq_true', Option.isNone_iff_eq_none]
  refine ⟨⟨⟨?_, ?_⟩, ?_⟩, ?_⟩
  · cases d.completedAt <;> simp
  · simp
  · trivial
  · cases hlo : liveOrd db d.subId with
    | false => simp
    | true =>
      cases hkk : keyOf db d with
      | none => simp
      | some k =>
        have := hjust hlo (by rw [hkk]; simp)
        rcases this with h | h
        · simp [h]
        · simp [h]

/-- on a subscription without a dead-letter policy the loop of a pull changes no table: it only
    collects (a sub-list of) the candidates to lease -/
theorem pullLoop_noDL (s : Sub) (now : Time) (maxBytes : Nat) (strict : Bool) (obs : PullObs)
    (hnodl : ∀ d, s.dlTarget d = none) :
    ∀ (cands : List Delivery) (i : Nat) (acc acc' : PullAcc), pullLoop s now maxBytes strict obs i cands acc = .ok acc' →
      acc'.db = acc.db ∧ ∀ x ∈ acc'.delivered, x ∈ acc.delivered ∨ x.1 ∈ cands := by
  intro cands
  induction cands with
  | nil =>
    intro i acc acc' h
    unfold pullLoop at h
    injection h with h; subst h
    exact ⟨rfl, fun x hx => Or.inl hx⟩
  | cons d r ih =>
    intro i acc acc' h
    unfold pullLoop at h
    split at h
    · cases h
    · rename_i m hm
      split at h
      · obtain ⟨h1, h2⟩ := ih _ _ _ h
        exact ⟨h1, fun x hx => (h2 x hx).imp id (List.mem_cons_of_mem _)⟩
      · rw [hnodl d] at h
        simp only at h
        split at h
        · cases h
        · rename_i δ hδ
          obtain ⟨h1, h2⟩ := ih _ _ _ h
          refine ⟨h1, ?_⟩
          intro x hx
          rcases h2 x hx with h3 | h3
          · simp only [List.mem_append, List.mem_singleton] at h3
            rcases h3 with h3 | h3
            · exact Or.inl h3
            · right; rw [h3]; exact List.mem_cons_self
          · exact Or.inr (List.mem_cons_of_mem _ h3)

theorem lookupAll_mem {α} (f : Id → Option α) : ∀ (ids : List Id) (l : List α), lookupAll f ids = some l →
    ∀ c ∈ l, ∃ i, f i = some c := by
  intro ids
  induction ids with
  | nil => intro l h c hc; unfold lookupAll at h; injection h with h; subst h; cases hc
  | cons i r ih =>
    intro l h c hc
    unfold lookupAll at h
    split at h
    · rename_i a rest ha hrest
      injection h with h; subst h
      rcases List.mem_cons.mp hc with rfl | hc'
      · exact ⟨i, ha⟩
      · exact ih rest hrest c hc'
    · cases h

/-- what a successful pull is: either nothing was deliverable (the subscription's expiry is refreshed
    at the end of the wait) or the candidates — rows of the table, eligible — went through the loop and
    the collected ones are leased -/
theorem pull_ok_shape {db : Db} {now : Time} {sn : String} {mx mb : Nat} {strict : Bool} {wait : Int} {obs : PullObs}
    {o : TxOut PullRes} {now' : Time} (h : pull db now sn mx mb strict wait obs = .ok (o, now')) :
    ∃ s, db.liveSubByName sn = some s ∧
      ((now' = now + wait ∧ o.db = refreshExpiry (refreshExpiry db s now) s (now + wait)) ∨
       (now' = now ∧ ∃ cands acc,
          (∀ c ∈ cands, c ∈ db.dels ∧ (refreshExpiry db s now).eligible s now c = true) ∧
          pullLoop s now mb strict obs 0 cands
            { db := refreshExpiry (refreshExpiry db s now) s now, bytes := 0, delivered := [], numDL := 0, wakes := [] } = .ok acc ∧
          o.db = { acc.db with dels := applyLeases now acc.delivered acc.db.dels })) := by
  unfold pull at h
  split at h
  · cases h
  · rename_i s hs
    refine ⟨s, hs, ?_⟩
    simp only at h
    split at h
    · cases h
    · rename_i cands hc
      split at h
      · cases h
      · rename_i hok
        split at h
        · injection h with h
          injection h with h1 h2
          left
          exact ⟨h2.symm, by rw [← h1]⟩
        · right
          split at h
          · cases h
          · rename_i o' ho
            injection h with h
            injection h with h1 h2
            subst h1
            refine ⟨h2.symm, cands, ?_⟩
            unfold pullDeliver at ho
            split at ho
            · cases ho
            · rename_i acc hacc
              injection ho with ho
              refine ⟨acc, ?_, hacc, by rw [← ho]⟩
              intro c hcm
              have hok' : candsOk ((refreshExpiry db s now).eligible s now)
                  ((refreshExpiry db s now).dels.filter ((refreshExpiry db s now).eligible s now)) cands mx = true := by
                simpa using hok
              unfold candsOk at hok'
              simp only [Bool.and_eq_true] at hok'
              have hel := List.all_eq_true.mp hok'.1.1.2 c hcm
              obtain ⟨i, hi⟩ := lookupAll_mem _ _ _ hc c hcm
              have hm : c ∈ (refreshExpiry db s now).dels := by
                unfold Db.delById at hi
                exact List.mem_of_find?_eq_some hi
              exact ⟨hm, hel⟩

theorem refreshExpiry_subs (db : Db) (s : Sub) (t : Time) :
    (refreshExpiry db s t).subs = db.subs.map (fun x => if (x.id == s.id) = true then { x with expiresAt := t + s.ttl } else x) := rfl

theorem refreshGs (s : Sub) (t : Time) (x : Sub) :
    (if (x.id == s.id) = true then { x with expiresAt := t + s.ttl } else x).id = x.id ∧
    (if (x.id == s.id) = true then { x with expiresAt := t + s.ttl } else x).live = x.live ∧
    (if (x.id == s.id) = true then { x with expiresAt := t + s.ttl } else x).ordered = x.ordered ∧
    (if (x.id == s.id) = true then { x with expiresAt := t + s.ttl } else x).messageTtl = x.messageTtl := by
  by_cases h : (x.id == s.id) = true
  · rw [if_pos h]; exact ⟨rfl, rfl, rfl, rfl⟩
  · rw [if_neg h]; exact ⟨rfl, rfl, rfl, rfl⟩

theorem liveSubByName_mem {db : Db} {n : String} {s : Sub} (h : db.liveSubByName n = some s) : s ∈ db.subs ∧ s.live = true := by
  unfold Db.liveSubByName at h
  have := List.find?_some h
  simp only [Bool.and_eq_true] at this
  exact ⟨List.mem_of_find?_eq_some h, this.2⟩

/-- **a pull on a topology without dead-letter policies refines the ordered-delivery step**: the
    candidates the model accepts are eligible rows of the table (on an ordered subscription: their
    predecessor is done), the loop leases a sub-list of them, nothing else changes but the
    subscription's expiry; an empty pull only waits and refreshes the expiry.  (Live subscription
    ids and delivery ids unique.) -/
theorem C05_refines_pull_no_dl (st : St) (sn : String) (mx mb : Nat) (strict : Bool) (wait : Int) (obs : PullObs)
    (hwait : 0 ≤ wait)
    (hnodl : ∀ s ∈ st.db.subs, ∀ d, s.dlTarget d = none)
    (huniqS : ∀ a ∈ st.db.subs, ∀ b ∈ st.db.subs, a.live = true → b.live = true → a.id = b.id → a = b)
    (huniqD : (st.db.dels.map (·.id)).Nodup) :
    Ord.stepOk true st.db st.now (step st (.pull sn mx mb strict wait obs)).1.db (step st (.pull sn mx mb strict wait obs)).1.now = true := by
  simp only [step]
  cases hp : pull st.db st.now sn mx mb strict wait obs with
  | error e => exact Ord.stepOk_of_same st.db st.now _ st.now (Int.le_refl _) rfl rfl rfl
  | ok r =>
    obtain ⟨o, now'⟩ := r
    simp only
    obtain ⟨s, hs, hcase⟩ := pull_ok_shape hp
    obtain ⟨hsm, hslive⟩ := liveSubByName_mem hs
    rcases hcase with ⟨hn, hdb⟩ | ⟨hn, cands, acc, hc, hloop, hdb⟩
    · -- nothing deliverable
      rw [hn, hdb]
      refine stepOk_of_maps st.db st.now _ _ id
        (fun x => (fun y => if (y.id == s.id) = true then { y with expiresAt := st.now + wait + s.ttl } else y)
          ((fun y => if (y.id == s.id) = true then { y with expiresAt := st.now + s.ttl } else y) x))
        (by unfold Time at *; omega) (by simp [refreshExpiry]) ?_ ?_ ?_
      · simp only [refreshExpiry, updateWhere, List.map_map]; rfl
      · intro x _
        obtain ⟨a1, a2, a3, a4⟩ := refreshGs s st.now x
        obtain ⟨b1, b2, b3, b4⟩ := refreshGs s (st.now + wait) (if (x.id == s.id) = true then { x with expiresAt := st.now + s.ttl } else x)
        exact ⟨b1.trans a1, b2.trans a2, b3.trans a3, b4.trans a4⟩
      · intro d _
        exact Ord.rowUpdOk_refl st.db st.now _ (by simp [refreshExpiry]) d
    · -- the delivery transaction
      obtain ⟨haccdb, hdel⟩ := pullLoop_noDL s st.now mb strict obs (hnodl s hsm) cands 0 _ acc hloop
      rw [hn, hdb, haccdb]
      refine stepOk_of_maps st.db st.now _ _ (applyLease st.now acc.delivered)
        (fun x => (fun y => if (y.id == s.id) = true then { y with expiresAt := st.now + s.ttl } else y)
          ((fun y => if (y.id == s.id) = true then { y with expiresAt := st.now + s.ttl } else y) x))
        (Int.le_refl _) (by simp [refreshExpiry, applyLeases]) ?_ ?_ ?_
      · simp only [refreshExpiry, updateWhere, List.map_map]; rfl
      · intro x _
        obtain ⟨a1, a2, a3, a4⟩ := refreshGs s st.now x
        obtain ⟨b1, b2, b3, b4⟩ := refreshGs s st.now (if (x.id == s.id) = true then { x with expiresAt := st.now + s.ttl } else x)
        exact ⟨b1.trans a1, b2.trans a2, b3.trans a3, b4.trans a4⟩
      · intro d hd
        unfold applyLease
        split
        · rename_i c δ hfind
          have hcm := List.mem_of_find?_eq_some hfind
          have hcid : c.id = d.id := by simpa using List.find?_some hfind
          have hcin : c ∈ cands := by
            rcases hdel (c, δ) hcm with h0 | h0
            · cases h0
            · exact h0
          obtain ⟨hcdels, hcel⟩ := hc c hcin
          have hcd : c = d := Ord.eq_of_nodup_ids huniqD (by simpa [refreshExpiry] using hcdels) hd hcid
          subst hcd
          refine rowUpdOk_lease st.db st.now _ (by simp [refreshExpiry]) c δ ?_
          intro hlo _
          right
          unfold Db.eligible at hcel
          simp only [Bool.and_eq_true, Bool.or_eq_true, Bool.not_eq_true', beq_iff_eq] at hcel
          obtain ⟨s', hs', hid', hl', ho'⟩ := (Ord.liveOrd_iff st.db c.subId).mp hlo
          have : s' = s := huniqS s' hs' s hsm hl' hslive (hid'.trans hcel.1.1.1)
          subst this
          rcases hcel.2 with h1 | h1
          · rw [ho'] at h1; cases h1
          · simpa [Db.predDone, Db.delById, refreshExpiry] using h1
        · exact Ord.rowUpdOk_refl st.db st.now _ (by simp [refreshExpiry]) d

end pull

/-- non-vacuity: an ordered subscription, two messages of key "k" in one request, the first is pulled
    and acknowledged, then the second is pulled — every step satisfies the obligation (and while the
    first is outstanding the model's pull is given, and accepts, only the first as candidate) -/
def exampleOrderedHistory : List Op := [
  .createTopic "projects/p/topics/t" [] 1,
  .createSub { name := "projects/p/subscriptions/o", topicName := "projects/p/topics/t", ttl := 1000000000000,
               messageTtl := 100000000000, ordered := true, labels := [], pushEndpoint := "", minBackoff := 0,
               maxBackoff := 0, filter := "", maxAttempts := 0, dlTopic := "" } 2,
  .publish "projects/p/topics/t" 1 [{ id := 10, payload := "a", plen := 1, attrs := [], orderKey := "k", fwds := [⟨2, 11, none⟩] },
                                    { id := 12, payload := "b", plen := 1, attrs := [], orderKey := "k", fwds := [⟨2, 13, some 11⟩] }],
  .pull "projects/p/subscriptions/o" 10 1000 false 1 { cands := [11], delays := [(11, 11000000000)], fwds := [] },
  .ack [11],
  .advance 5,
  .pull "projects/p/subscriptions/o" 10 1000 false 1 { cands := [13], delays := [(13, 11000000000)], fwds := [] }]

example : ordStepsOk {} exampleOrderedHistory = true := by decide
example : (outs {} exampleOrderedHistory).map (·.ok) = [true, true, true, true, true, true, true] := by decide
/-- a seek that re-opens the acknowledged first message does not satisfy the obligation -/
example : ordStepsOk {} (exampleOrderedHistory ++ [.seekTime "projects/p/subscriptions/o" (-1)]) = false := by decide

/-- non-vacuity of `C05_ordered_ties`, where the clock assumption fails: two messages of key "k" are
    pulled once from a subscription with a dead-letter policy of one attempt, their leases lapse, one
    sweep forwards both into the ordered subscription `o` of the dead-letter topic — the two forwarded
    rows carry the same publish time, the second is linked behind the first — and a third message of
    the key, published to the dead-letter topic directly, is linked behind the *second* of them -/
def exampleTieHistory : List Op := [
  .createTopic "projects/p/topics/t" [] 1,
  .createTopic "projects/p/topics/d" [] 2,
  .createSub { name := "projects/p/subscriptions/s", topicName := "projects/p/topics/t", ttl := 1000000000000,
               messageTtl := 100000000000, ordered := false, labels := [], pushEndpoint := "", minBackoff := 0,
               maxBackoff := 0, filter := "", maxAttempts := 1, dlTopic := "projects/p/topics/d" } 3,
  .createSub { name := "projects/p/subscriptions/o", topicName := "projects/p/topics/d", ttl := 1000000000000,
               messageTtl := 100000000000, ordered := true, labels := [], pushEndpoint := "", minBackoff := 0,
               maxBackoff := 0, filter := "", maxAttempts := 0, dlTopic := "" } 4,
  .publish "projects/p/topics/t" 1 [{ id := 10, payload := "a", plen := 1, attrs := [], orderKey := "k", fwds := [⟨3, 11, none⟩] }],
  .publish "projects/p/topics/t" 1 [{ id := 12, payload := "b", plen := 1, attrs := [], orderKey := "k", fwds := [⟨3, 13, none⟩] }],
  .pull "projects/p/subscriptions/s" 10 1000 false 1 { cands := [11, 13], delays := [(11, 11000000000), (13, 11000000000)], fwds := [] },
  .advance 20000000000,
  .dlSweep 10 [11, 13] [(11, [⟨4, 21, none⟩]), (13, [⟨4, 22, some 21⟩])],
  .advance 5,
  .publish "projects/p/topics/d" 1 [{ id := 30, payload := "c", plen := 1, attrs := [], orderKey := "k", fwds := [⟨4, 31, some 22⟩] }],
  .pull "projects/p/subscriptions/o" 10 1000 false 1 { cands := [21], delays := [(21, 11000000000)], fwds := [] }]

example : (outs {} exampleTieHistory).map (·.ok) = [true, true, true, true, true, true, true, true, true, true, true, true] := by decide
example : ordStepsOk2 {} exampleTieHistory = true := by decide
/-- the clock assumption of `C05_ordered_partial` does not hold on this history -/
example : ordStepsOk {} exampleTieHistory = false := by decide
/-- a link to the *first* of the two forwarded rows (what the query without its second sort key could
    answer) is not an observation the model accepts -/
example : ((outs {} (exampleTieHistory.take 10 ++
    [.publish "projects/p/topics/d" 1 [{ id := 30, payload := "c", plen := 1, attrs := [], orderKey := "k", fwds := [⟨4, 31, some 21⟩] }]])).map (·.ok)).getLast? = some false := by decide

/-- the statement of the property, for the record: in every state reachable by any history, on an
    ordered subscription no keyed delivery is eligible while an earlier same-key delivery is open -/
def C05_full_statement : Prop :=
  ∀ (ops : List Op), let st := run {} ops
    ∀ s ∈ st.db.subs, s.ordered = true → ∀ d ∈ st.db.dels, ∀ e ∈ st.db.dels,
      d.subId = s.id → e.subId = s.id →
      (∃ k, k ≠ "" ∧ (st.db.msgById d.msgId).bind (·.orderKey) = some k ∧ (st.db.msgById e.msgId).bind (·.orderKey) = some k) →
      e.publishedAt < d.publishedAt → e.isOpen st.now = true → st.db.eligible s st.now d = false

/-- the witness against the full statement (the recorded finding `overtake-seek-reopened-predecessor`,
    replayed on the real code by `corpus/directed-seek-reopens-predecessor.json`): two messages of key
    "k" are delivered and acknowledged in order; a Seek to the past re-opens both; a third message of
    the key is published (linked behind the second); the client acknowledges the second again by the
    ack id it still holds — the third is now eligible while the first is outstanding -/
def seekWitness : List Op := [
  .createTopic "projects/p/topics/t" [] 1,
  .createSub { name := "projects/p/subscriptions/o", topicName := "projects/p/topics/t", ttl := 1000000000000,
               messageTtl := 100000000000, ordered := true, labels := [], pushEndpoint := "", minBackoff := 0,
               maxBackoff := 0, filter := "", maxAttempts := 0, dlTopic := "" } 2,
  .publish "projects/p/topics/t" 1 [{ id := 10, payload := "a", plen := 1, attrs := [], orderKey := "k", fwds := [⟨2, 11, none⟩] }],
  .publish "projects/p/topics/t" 1 [{ id := 12, payload := "b", plen := 1, attrs := [], orderKey := "k", fwds := [⟨2, 13, some 11⟩] }],
  .pull "projects/p/subscriptions/o" 10 1000 false 1 { cands := [11], delays := [(11, 11000000000)], fwds := [] },
  .ack [11],
  .pull "projects/p/subscriptions/o" 10 1000 false 1 { cands := [13], delays := [(13, 11000000000)], fwds := [] },
  .ack [13],
  .seekTime "projects/p/subscriptions/o" (-1),
  .publish "projects/p/topics/t" 1 [{ id := 14, payload := "c", plen := 1, attrs := [], orderKey := "k", fwds := [⟨2, 15, some 13⟩] }],
  .ack [13]]

/-- does the state violate the ordering property (executable form of its negation) -/
def overtaken (st : St) : Bool :=
  st.db.subs.any fun s => s.ordered && st.db.dels.any fun d => st.db.dels.any fun e =>
    d.subId == s.id && e.subId == s.id &&
    (match (st.db.msgById d.msgId).bind (·.orderKey), (st.db.msgById e.msgId).bind (·.orderKey) with
     | some k1, some k2 => k1 == k2 && k1 != ""
     | _, _ => false) &&
    decide (e.publishedAt < d.publishedAt) && e.isOpen st.now && st.db.eligible s st.now d

example : (outs {} seekWitness).map (·.ok) = [true, true, true, true, true, true, true, true, true, true, true] := by decide

/-- **the full statement is false** (of the model, and — the same history — of the code): a Seek is all it
    takes.  `C05_fragment_dl` shows that nothing else does. -/
theorem C05_full_statement_false : ¬ C05_full_statement := by
  intro h
  have hv : overtaken (run {} seekWitness) = true := by decide
  unfold overtaken at hv
  obtain ⟨s, hs, hv⟩ := List.any_eq_true.mp hv
  simp only [Bool.and_eq_true] at hv
  obtain ⟨hord, hv⟩ := hv
  obtain ⟨d, hd, hv⟩ := List.any_eq_true.mp hv
  obtain ⟨e, he, hv⟩ := List.any_eq_true.mp hv
  simp only [Bool.and_eq_true, beq_iff_eq, decide_eq_true_eq] at hv
  obtain ⟨⟨⟨⟨⟨hds, hes⟩, hkey⟩, hlt⟩, hopen⟩, hel⟩ := hv
  have hkey' : ∃ k, k ≠ "" ∧ ((run {} seekWitness).db.msgById d.msgId).bind (·.orderKey) = some k ∧
      ((run {} seekWitness).db.msgById e.msgId).bind (·.orderKey) = some k := by
    cases h1 : ((run {} seekWitness).db.msgById d.msgId).bind (·.orderKey) with
    | none => rw [h1] at hkey; simp at hkey
    | some k1 =>
      cases h2 : ((run {} seekWitness).db.msgById e.msgId).bind (·.orderKey) with
      | none => rw [h1, h2] at hkey; simp at hkey
      | some k2 =>
        rw [h1, h2] at hkey
        simp only [Bool.and_eq_true, beq_iff_eq, bne_iff_ne, ne_eq] at hkey
        exact ⟨k1, hkey.2, rfl, by rw [hkey.1]⟩
  have := h seekWitness s hs hord d hd e he hds hes hkey' hlt hopen
  rw [this] at hel; cases hel

/-! ### the property outright, for a fragment of the operations -/

section fragment
open Mmmbbb.Ord

/-- what the refinement theorems of the fragment need of a state, besides the ordering invariant -/
structure WF (st : St) : Prop where
  inv  : Ord.Inv st.db st.now
  fkM  : ∀ d ∈ st.db.dels, (st.db.msgById d.msgId).isSome = true
  fkS  : ∀ d ∈ st.db.dels, ∃ s ∈ st.db.subs, s.id = d.subId
  uqA  : ∀ a ∈ st.db.subs, ∀ b ∈ st.db.subs, a.id = b.id → a = b
  idsS : ∀ s ∈ st.db.subs, st.db.allIds.contains s.id = true
  clk  : ∀ d ∈ st.db.dels, d.publishedAt < st.now
  noDL : ∀ s ∈ st.db.subs, ∀ d, s.dlTarget d = none

theorem WF.uqS {st : St} (h : WF st) :
    ∀ a ∈ st.db.subs, ∀ b ∈ st.db.subs, a.live = true → b.live = true → a.id = b.id → a = b :=
  fun a ha b hb _ _ hid => h.uqA a ha b hb hid

theorem WF.init : WF {} := by
  refine ⟨Ord.Inv.init 0, ?_, ?_, ?_, ?_, ?_, ?_⟩ <;> intro x hx <;> cases hx

/-- a step that changes neither tables nor moves the clock back keeps everything -/
theorem WF.of_same {st st' : St} (h : WF st) (hdb : st'.db = st.db) (hnow : st.now ≤ st'.now) : WF st' := by
  have hok : Ord.stepOk true st.db st.now st'.db st'.now = true :=
    Ord.stepOk_of_same st.db st.now _ _ hnow (by rw [hdb]) (by rw [hdb]) (by rw [hdb])
  refine ⟨h.inv.step hok, ?_, ?_, ?_, ?_, ?_, ?_⟩
  · rw [hdb]; exact h.fkM
  · rw [hdb]; exact h.fkS
  · rw [hdb]; exact h.uqA
  · rw [hdb]; exact h.idsS
  · rw [hdb]; intro d hd; have := h.clk d hd; unfold Time at *; omega
  · rw [hdb]; exact h.noDL

theorem WF.step_advance {st : St} (h : WF st) (d : Int) (hd : 0 ≤ d) : WF (step st (.advance d)).1 := by
  apply h.of_same
  · rfl
  · show st.now ≤ st.now + d; unfold Time at *; omega

/-- a step that leaves deliveries, subscriptions and messages alone (and forgets no id) -/
theorem WF.of_tables {st st' : St} (h : WF st) (hd : st'.db.dels = st.db.dels) (hs : st'.db.subs = st.db.subs)
    (hm : st'.db.msgs = st.db.msgs) (hnow : st'.now = st.now)
    (hids : ∀ i, st.db.allIds.contains i = true → st'.db.allIds.contains i = true) : WF st' := by
  have hok : Ord.stepOk true st.db st.now st'.db st'.now = true :=
    Ord.stepOk_of_same st.db st.now _ _ (by rw [hnow]; exact Int.le_refl _) hd hs hm
  refine ⟨h.inv.step hok, ?_, ?_, ?_, ?_, ?_, ?_⟩
  · rw [hd]; intro d hdm
    have := h.fkM d hdm
    unfold Db.msgById at *; rw [hm]; exact this
  · rw [hd, hs]; exact h.fkS
  · rw [hs]; exact h.uqA
  · rw [hs]; intro s hsm; exact hids _ (h.idsS s hsm)
  · rw [hd, hnow]; exact h.clk
  · rw [hs]; exact h.noDL

theorem allIds_topics_append (db : Db) (t : Topic) (i : Id) (h : db.allIds.contains i = true) :
    ({ db with topics := db.topics ++ [t] } : Db).allIds.contains i = true := by
  rw [List.contains_iff_mem] at h ⊢
  unfold Db.allIds at h ⊢
  simp only [List.mem_append, List.mem_map, List.map_append] at h ⊢
  rcases h with (((h | h) | h) | h) | h
  · left; left; left; left; left; exact h
  · left; left; left; right; exact h
  · left; left; right; exact h
  · left; right; exact h
  · right; exact h

theorem WF.step_createTopic {st : St} (h : WF st) (n : String) (l : StrMap) (i : Id) : WF (step st (.createTopic n l i)).1 := by
  simp only [step]
  cases hc : createTopic st.db st.now n l i with
  | error e => simp only [finish]; exact h
  | ok o =>
    simp only [finish]
    unfold createTopic at hc
    split at hc
    · cases hc
    · split at hc
      · cases hc
      · injection hc with hc; subst hc
        exact h.of_tables rfl rfl rfl rfl (fun j hj => allIds_topics_append st.db _ j hj)

/-- a step that rewrites delivery rows in place, keeping their identity, message, subscription and
    publish time, and touches nothing else (subscriptions may change in fields nobody reads here) -/
theorem WF.of_dels_map {st st' : St} (h : WF st) (g : Delivery → Delivery) (gs : Sub → Sub)
    (hd : st'.db.dels = st.db.dels.map g) (hs : st'.db.subs = st.db.subs.map gs)
    (hm : st'.db.msgs = st.db.msgs) (ht : st'.db.topics = st.db.topics) (hsn : st'.db.snaps = st.db.snaps)
    (hnow : st.now ≤ st'.now)
    (hg : ∀ d, (g d).id = d.id ∧ (g d).msgId = d.msgId ∧ (g d).subId = d.subId ∧ (g d).publishedAt = d.publishedAt)
    (hgs : ∀ x, (gs x).id = x.id ∧ (gs x).live = x.live ∧ (∀ d, (gs x).dlTarget d = x.dlTarget d))
    (hok : Ord.stepOk true st.db st.now st'.db st'.now = true) : WF st' := by
  refine ⟨h.inv.step hok, ?_, ?_, ?_, ?_, ?_, ?_⟩
  · rw [hd]; intro d hdm
    obtain ⟨d0, hd0, rfl⟩ := List.mem_map.mp hdm
    rw [(hg d0).2.1]
    have := h.fkM d0 hd0
    unfold Db.msgById at *; rw [hm]; exact this
  · rw [hd, hs]; intro d hdm
    obtain ⟨d0, hd0, rfl⟩ := List.mem_map.mp hdm
    obtain ⟨s0, hs0, hid⟩ := h.fkS d0 hd0
    exact ⟨gs s0, List.mem_map.mpr ⟨s0, hs0, rfl⟩, by rw [(hgs s0).1, (hg d0).2.2.1]; exact hid⟩
  · rw [hs]; intro a ha b hb hid
    obtain ⟨a0, ha0, rfl⟩ := List.mem_map.mp ha
    obtain ⟨b0, hb0, rfl⟩ := List.mem_map.mp hb
    have := h.uqA a0 ha0 b0 hb0 (by rw [← (hgs a0).1, ← (hgs b0).1]; exact hid)
    rw [this]
  · rw [hs]; intro s hsm
    obtain ⟨s0, hs0, rfl⟩ := List.mem_map.mp hsm
    have := h.idsS s0 hs0
    rw [List.contains_iff_mem] at this ⊢
    unfold Db.allIds at this ⊢
    rw [ht, hs, hm, hd, hsn, (hgs s0).1]
    have e1 : (st.db.subs.map gs).map (·.id) = st.db.subs.map (·.id) := by
      rw [List.map_map]; apply List.map_congr_left; intro x _; exact (hgs x).1
    have e2 : (st.db.dels.map g).map (·.id) = st.db.dels.map (·.id) := by
      rw [List.map_map]; apply List.map_congr_left; intro x _; exact (hg x).1
    rw [e1, e2]; exact this
  · rw [hd]; intro d hdm
    obtain ⟨d0, hd0, rfl⟩ := List.mem_map.mp hdm
    rw [(hg d0).2.2.2]
    have := h.clk d0 hd0
    unfold Time at *; omega
  · rw [hs]; intro s hsm d
    obtain ⟨s0, hs0, rfl⟩ := List.mem_map.mp hsm
    rw [(hgs s0).2.2 d]; exact h.noDL s0 hs0 d

theorem gsId (x : Sub) : (id x).id = x.id ∧ (id x).live = x.live ∧ (∀ d, (id x).dlTarget d = x.dlTarget d) :=
  ⟨rfl, rfl, fun _ => rfl⟩

theorem WF.step_ack {st : St} (h : WF st) (ids : List Id)
    (hdel : ∀ d ∈ st.db.dels, ids.contains d.id = true → 0 < d.attempts) : WF (step st (.ack ids)).1 := by
  have hok := C05_refines_ack st ids hdel
  refine h.of_dels_map (fun x => if (ids.contains x.id && x.completedAt.isNone) = true then { x with completedAt := some st.now } else x) id
    ?_ ?_ ?_ ?_ ?_ ?_ ?_ gsId hok
  · simp only [step, Mmmbbb.ack, finish, updateWhere]
  · simp only [step, Mmmbbb.ack, finish, List.map_id]
  · simp only [step, Mmmbbb.ack, finish]
  · simp only [step, Mmmbbb.ack, finish]
  · simp only [step, Mmmbbb.ack, finish]
  · simp only [step, Mmmbbb.ack, finish]; exact Int.le_refl _
  · intro d; split <;> exact ⟨rfl, rfl, rfl, rfl⟩

theorem WF.step_delay {st : St} (h : WF st) (ids : List Id) (Δ : Int) : WF (step st (.delay ids Δ)).1 := by
  have hok := C05_refines_delay st ids Δ
  by_cases hΔ : Δ ≤ 0
  · refine h.of_dels_map (fun x => if (ids.contains x.id && x.completedAt.isNone) = true then { x with attemptAt := st.now + Δ } else x) id
      ?_ ?_ ?_ ?_ ?_ ?_ ?_ gsId hok
    all_goals (try simp only [step, Mmmbbb.delay, finish, updateWhere, hΔ, if_true, List.map_id])
    · exact Int.le_refl _
    · intro d; split <;> exact ⟨rfl, rfl, rfl, rfl⟩
  · refine h.of_dels_map (fun x => if ((ids.contains x.id && x.completedAt.isNone) && decide (x.attemptAt < st.now + Δ)) = true
        then { x with attemptAt := st.now + Δ } else x) id
      ?_ ?_ ?_ ?_ ?_ ?_ ?_ gsId hok
    all_goals (try simp only [step, Mmmbbb.delay, finish, updateWhere, hΔ, if_false, List.map_id])
    · exact Int.le_refl _
    · intro d; split <;> exact ⟨rfl, rfl, rfl, rfl⟩

theorem allIds_subs_append (db : Db) (x : Sub) (i : Id) :
    ({ db with subs := db.subs ++ [x] } : Db).allIds.contains i = true ↔ (db.allIds.contains i = true ∨ i = x.id) := by
  rw [List.contains_iff_mem, List.contains_iff_mem]
  unfold Db.allIds
  simp only [List.mem_append, List.mem_map, List.map_append, List.map_cons, List.map_nil, List.mem_singleton]
  constructor
  · rintro ((((h | h) | h) | h) | h)
    · left; left; left; left; left; exact h
    · rcases h with h | h
      · left; left; left; left; right; exact h
      · right; exact h
    · left; left; left; right; exact h
    · left; left; right; exact h
    · left; right; exact h
  · rintro (((((h | h) | h) | h) | h) | h)
    · left; left; left; left; exact h
    · left; left; left; right; left; exact h
    · left; left; right; exact h
    · left; right; exact h
    · right; exact h
    · left; left; left; right; right; exact h

/-- **creating a subscription (without a dead-letter policy) keeps the fragment's invariants** -/
theorem WF.step_createSub {st : St} (h : WF st) (p : CreateSubParams) (i : Id) (hp : p.maxAttempts = 0) :
    WF (step st (.createSub p i)).1 := by
  simp only [step]
  cases hc : Mmmbbb.createSub st.db st.now p i with
  | error e => simp only [finish]; exact h
  | ok o =>
    simp only [finish]
    obtain ⟨t, dlId, _, _, _, hfresh, hdb, _⟩ := createSub_ok hc
    have hnew : ∀ d ∈ st.db.dels, d.subId ≠ i := by
      intro d hd heq
      obtain ⟨s0, hs0, hid⟩ := h.fkS d hd
      have := h.idsS s0 hs0
      rw [hid, heq, hfresh] at this; cases this
    have hold : ∀ s ∈ st.db.subs, s.id ≠ i := by
      intro s hs heq
      have := h.idsS s hs
      rw [heq, hfresh] at this; cases this
    have hok : Ord.stepOk true st.db st.now o.db st.now = true := by
      unfold Ord.stepOk
      simp only [Bool.and_eq_true, decide_eq_true_eq, Bool.or_eq_true]
      refine ⟨⟨Int.le_refl _, ?_⟩, Or.inl ?_⟩
      · unfold Ord.subsOk
        rw [hdb]
        apply List.all_eq_true.mpr
        intro s' hs'
        simp only [List.mem_append, List.mem_singleton] at hs'
        rcases hs' with hs' | hs'
        · cases hl : s'.live with
          | false => simp
          | true =>
            simp only [Bool.not_true, Bool.false_or, Bool.or_eq_true, List.any_eq_true, Bool.and_eq_true, beq_iff_eq]
            left
            exact ⟨s', hs', ⟨⟨⟨hl, rfl⟩, rfl⟩, rfl⟩⟩
        · subst hs'
          simp only [Bool.or_eq_true]
          right
          apply List.all_eq_true.mpr
          intro d hd
          simpa [mkSub] using hnew d hd
      · unfold Ord.growOk
        rw [hdb]
        simp only [List.take_length, List.drop_length, Bool.and_eq_true]
        exact ⟨Ord.rowsUpdOk_refl st.db st.now { st.db with subs := st.db.subs ++ [mkSub st.now p i t.id dlId] } rfl st.db.dels, rfl⟩
    refine ⟨h.inv.step hok, ?_, ?_, ?_, ?_, ?_, ?_⟩
    · rw [hdb]; exact h.fkM
    · rw [hdb]; intro d hd
      obtain ⟨s0, hs0, hid⟩ := h.fkS d hd
      exact ⟨s0, List.mem_append_left _ hs0, hid⟩
    · rw [hdb]; intro a ha b hb hid
      simp only [List.mem_append, List.mem_singleton] at ha hb
      rcases ha with ha | ha <;> rcases hb with hb | hb
      · exact h.uqA a ha b hb hid
      · subst hb; exact absurd hid (by simpa [mkSub] using hold a ha)
      · subst ha; exact absurd hid.symm (by simpa [mkSub] using hold b hb)
      · rw [ha, hb]
    · rw [hdb]; intro s hs
      rw [allIds_subs_append]
      simp only [List.mem_append, List.mem_singleton] at hs
      rcases hs with hs | hs
      · exact Or.inl (h.idsS s hs)
      · right; rw [hs]
    · rw [hdb]; exact h.clk
    · rw [hdb]; intro s hs d
      simp only [List.mem_append, List.mem_singleton] at hs
      rcases hs with hs | hs
      · exact h.noDL s hs d
      · subst hs
        unfold Sub.dlTarget mkSub
        simp [hp]

theorem refreshGs' (s : Sub) (t : Time) (x : Sub) :
    (if (x.id == s.id) = true then { x with expiresAt := t + s.ttl } else x).id = x.id ∧
    (if (x.id == s.id) = true then { x with expiresAt := t + s.ttl } else x).live = x.live ∧
    (∀ d, (if (x.id == s.id) = true then { x with expiresAt := t + s.ttl } else x).dlTarget d = x.dlTarget d) := by
  by_cases h : (x.id == s.id) = true
  · rw [if_pos h]; exact ⟨rfl, rfl, fun _ => rfl⟩
  · rw [if_neg h]; exact ⟨rfl, rfl, fun _ => rfl⟩

theorem applyLease_fields (now : Time) (dl : List (Delivery × Int)) (d : Delivery) :
    (applyLease now dl d).id = d.id ∧ (applyLease now dl d).msgId = d.msgId ∧
    (applyLease now dl d).subId = d.subId ∧ (applyLease now dl d).publishedAt = d.publishedAt := by
  unfold applyLease
  split <;> exact ⟨rfl, rfl, rfl, rfl⟩

/-- **a pull keeps the fragment's invariants** -/
theorem WF.step_pull {st : St} (h : WF st) (sn : String) (mx mb : Nat) (strict : Bool) (wait : Int) (obs : PullObs)
    (hwait : 0 ≤ wait) : WF (step st (.pull sn mx mb strict wait obs)).1 := by
  have hok := C05_refines_pull_no_dl st sn mx mb strict wait obs hwait h.noDL h.uqS h.inv.uniq
  revert hok
  simp only [step]
  cases hp : pull st.db st.now sn mx mb strict wait obs with
  | error e => intro _; exact h
  | ok r =>
    obtain ⟨o, now'⟩ := r
    simp only
    intro hok
    obtain ⟨s, hs, hcase⟩ := pull_ok_shape hp
    obtain ⟨hsm, _⟩ := liveSubByName_mem hs
    rcases hcase with ⟨hn, hdb⟩ | ⟨hn, cands, acc, _, hloop, hdb⟩
    · refine h.of_dels_map id
        (fun x => (fun y => if (y.id == s.id) = true then { y with expiresAt := st.now + wait + s.ttl } else y)
          ((fun y => if (y.id == s.id) = true then { y with expiresAt := st.now + s.ttl } else y) x))
        ?_ ?_ ?_ ?_ ?_ ?_ (fun d => ⟨rfl, rfl, rfl, rfl⟩) ?_ hok
      · simp only [hdb, refreshExpiry, List.map_id]
      · simp only [hdb, refreshExpiry, updateWhere, List.map_map]; rfl
      · simp only [hdb, refreshExpiry]
      · simp only [hdb, refreshExpiry]
      · simp only [hdb, refreshExpiry]
      · rw [hn]; show st.now ≤ st.now + wait; unfold Time at *; omega
      · intro x
        obtain ⟨a1, a2, a3⟩ := refreshGs' s st.now x
        obtain ⟨b1, b2, b3⟩ := refreshGs' s (st.now + wait) (if (x.id == s.id) = true then { x with expiresAt := st.now + s.ttl } else x)
        exact ⟨b1.trans a1, b2.trans a2, fun d => (b3 d).trans (a3 d)⟩
    · obtain ⟨haccdb, _⟩ := pullLoop_noDL s st.now mb strict obs (h.noDL s hsm) cands 0 _ acc hloop
      refine h.of_dels_map (applyLease st.now acc.delivered)
        (fun x => (fun y => if (y.id == s.id) = true then { y with expiresAt := st.now + s.ttl } else y)
          ((fun y => if (y.id == s.id) = true then { y with expiresAt := st.now + s.ttl } else y) x))
        ?_ ?_ ?_ ?_ ?_ ?_ (applyLease_fields st.now acc.delivered) ?_ hok
      · simp only [hdb, haccdb, refreshExpiry, applyLeases]
      · simp only [hdb, haccdb, refreshExpiry, updateWhere, List.map_map]; rfl
      · simp only [hdb, haccdb, refreshExpiry]
      · simp only [hdb, haccdb, refreshExpiry]
      · simp only [hdb, haccdb, refreshExpiry]
      · rw [hn]; exact Int.le_refl _
      · intro x
        obtain ⟨a1, a2, a3⟩ := refreshGs' s st.now x
        obtain ⟨b1, b2, b3⟩ := refreshGs' s st.now (if (x.id == s.id) = true then { x with expiresAt := st.now + s.ttl } else x)
        exact ⟨b1.trans a1, b2.trans a2, fun d => (b3 d).trans (a3 d)⟩

theorem publish_single_shape {db : Db} {now : Time} {tn : String} {tick : Int} {pm : PubMsg} {o : TxOut (List Id)}
    (h : publish db now tn tick [pm] = .ok o) : ∃ t w, publishOne db t now pm = .ok (o.db, w) := by
  unfold publish at h
  split at h
  · cases h
  · rename_i t _
    split at h
    · cases h
    · rename_i db' wakes hl
      injection h with h; subst h
      unfold publishLoop at hl
      split at hl
      · cases hl
      · rename_i db1 w h1
        unfold publishLoop at hl
        injection hl with hl
        injection hl with h2 _
        subst h2
        exact ⟨t, w, h1⟩

/-- **publishing one message (the clock ticking on) keeps the fragment's invariants** -/
theorem WF.step_publish {st : St} (h : WF st) (tn : String) (tick : Int) (pm : PubMsg) (htick : 0 < tick) :
    WF (step st (.publish tn tick [pm])).1 := by
  simp only [step]
  cases hp : publish st.db st.now tn tick [pm] with
  | error e => exact h
  | ok o =>
    simp only [List.length_singleton]
    obtain ⟨t, w, h1⟩ := publish_single_shape hp
    have hok1 := C05_refines_publish_one st.db o.db t st.now pm w h1 h.fkM h.uqS h.clk
    have hnow : st.now ≤ st.now + tick * (1 : Nat) := by unfold Time at *; omega
    have hok2 : Ord.stepOk true o.db st.now o.db (st.now + tick * (1 : Nat)) = true :=
      Ord.stepOk_of_same o.db st.now o.db _ hnow rfl rfl rfl
    obtain ⟨m, db1, hmid, hdb1, hfreshm, hdel⟩ := publishOne_shape h1
    obtain ⟨rows, hrows, hdb', _⟩ := deliverAll_shape hdel
    obtain ⟨_, _, hall⟩ := mkRows_spec db1 (db1.liveSubsOf t.id) m st.now pm.fwds rows hrows
    have hsubs : o.db.subs = st.db.subs := by rw [hdb', hdb1]
    have hdels : o.db.dels = st.db.dels ++ rows := by rw [hdb', hdb1]
    have hmsgs : o.db.msgs = st.db.msgs ++ [m] := by rw [hdb', hdb1]
    refine ⟨(h.inv.step hok1).step hok2, ?_, ?_, ?_, ?_, ?_, ?_⟩
    · rw [hdels]; intro d hd
      rcases List.mem_append.mp hd with hd | hd
      · have := h.fkM d hd
        cases hx : st.db.msgById d.msgId with
        | none => rw [hx] at this; cases this
        | some x =>
          have : o.db.msgById d.msgId = some x := by
            unfold Db.msgById at hx ⊢
            rw [hmsgs, List.find?_append, hx]; rfl
          rw [this]; rfl
      · obtain ⟨s0, f, _, _, _, rfl⟩ := hall d hd
        have hnone : st.db.msgs.find? (fun x => x.id == m.id) = none := by
          apply List.find?_eq_none.mpr
          intro x hx hxe
          have : st.db.allIds.contains pm.id = true := by
            apply List.elem_eq_true_of_mem
            unfold Db.allIds
            simp only [List.mem_append, List.mem_map]
            left; left; right
            exact ⟨x, hx, by rw [← hmid]; simpa using hxe⟩
          rw [this] at hfreshm; cases hfreshm
        have : o.db.msgById (mkDelivery s0 m st.now f).msgId = some m := by
          unfold Db.msgById
          show List.find? (fun x => x.id == m.id) o.db.msgs = some m
          rw [hmsgs, List.find?_append, hnone]
          simp
        rw [this]; rfl
    · rw [hdels, hsubs]; intro d hd
      rcases List.mem_append.mp hd with hd | hd
      · exact h.fkS d hd
      · obtain ⟨s0, f, hs0, _, _, rfl⟩ := hall d hd
        have : s0 ∈ st.db.subs := by
          have := (liveSubsOf_mem hs0).1
          rw [hdb1] at this; exact this
        exact ⟨s0, this, rfl⟩
    · rw [hsubs]; exact h.uqA
    · rw [hsubs]; intro s hs
      have := h.idsS s hs
      rw [List.contains_iff_mem] at this ⊢
      unfold Db.allIds at this ⊢
      rw [hdb', hdb1]
      simp only [List.mem_append, List.mem_map, List.map_append] at this ⊢
      rcases this with (((h0 | h0) | h0) | h0) | h0
      · left; left; left; left; exact h0
      · left; left; left; right; exact h0
      · left; left; right; left; exact h0
      · left; right; left; exact h0
      · right; exact h0
    · rw [hdels]; intro d hd
      rcases List.mem_append.mp hd with hd | hd
      · have := h.clk d hd
        show d.publishedAt < st.now + tick * (1 : Nat)
        unfold Time at *; omega
      · obtain ⟨s0, f, _, _, _, rfl⟩ := hall d hd
        show st.now < st.now + tick * (1 : Nat)
        unfold Time at *; omega
    · rw [hsubs]; exact h.noDL

/-- deleting delivery rows keeps the fragment's invariants (given the refinement obligation) -/
theorem WF.of_deleteDeliveries {st : St} (h : WF st) (victims : List Id)
    (hok : Ord.stepOk true st.db st.now (deleteDeliveries st.db victims) st.now = true) :
    WF { st with db := deleteDeliveries st.db victims } := by
  have hmem : ∀ d ∈ (deleteDeliveries st.db victims).dels, ∃ d0 ∈ st.db.dels, d = clrV victims d0 := by
    intro d hd
    rw [deleteDeliveries_dels] at hd
    obtain ⟨d0, hd0, rfl⟩ := List.mem_map.mp hd
    exact ⟨d0, (List.mem_filter.mp hd0).1, rfl⟩
  have hfields : ∀ d0, (clrV victims d0).msgId = d0.msgId ∧ (clrV victims d0).subId = d0.subId ∧
      (clrV victims d0).publishedAt = d0.publishedAt := by
    intro d0; unfold clrV; split <;> (try split) <;> exact ⟨rfl, rfl, rfl⟩
  refine ⟨h.inv.step hok, ?_, ?_, h.uqA, ?_, ?_, h.noDL⟩
  · intro d hd
    obtain ⟨d0, hd0, rfl⟩ := hmem d hd
    rw [(hfields d0).1]; exact h.fkM d0 hd0
  · intro d hd
    obtain ⟨d0, hd0, rfl⟩ := hmem d hd
    rw [(hfields d0).2.1]; exact h.fkS d0 hd0
  · intro s hs
    have := h.idsS s hs
    rw [List.contains_iff_mem] at this ⊢
    unfold Db.allIds at this ⊢
    simp only [List.mem_append, List.mem_map] at this ⊢
    rcases this with (((h0 | h0) | h0) | h0) | h0
    · left; left; left; left; exact h0
    · left; left; left; right; exact h0
    · left; left; right; exact h0
    · -- a subscription id that is (also) a delivery id: it is a subscription id anyway
      left; left; left; right; exact ⟨s, hs, rfl⟩
    · right; exact h0
  · intro d hd
    obtain ⟨d0, hd0, rfl⟩ := hmem d hd
    rw [(hfields d0).2.2]; exact h.clk d0 hd0

theorem WF.step_pruneCompletedDeliveries {st : St} (h : WF st) (a : Int) (mx : Nat) (v : List Id) :
    WF (Mmmbbb.step st (.pruneCompletedDeliveries a mx v)).1 := by
  have hok := C05_refines_pruneCompletedDeliveries st a mx v h.inv.uniq
  revert hok
  simp only [Mmmbbb.step]
  unfold pruneCompletedDeliveries
  simp only
  split
  · intro _; simp only [finish]; exact h
  · intro hok; simp only [finish] at hok ⊢; exact h.of_deleteDeliveries v hok

theorem WF.step_pruneExpiredDeliveries {st : St} (h : WF st) (mx : Nat) (v : List Id) :
    WF (Mmmbbb.step st (.pruneExpiredDeliveries mx v)).1 := by
  have hok := C05_refines_pruneExpiredDeliveries st mx v h.inv.uniq
  revert hok
  simp only [Mmmbbb.step]
  unfold pruneExpiredDeliveries
  simp only
  split
  · intro _; simp only [finish]; exact h
  · intro hok; simp only [finish] at hok ⊢; exact h.of_deleteDeliveries v hok

theorem publishOne_topics {db db1 : Db} {t : Topic} {now : Time} {pm : PubMsg} {w : List Id}
    (h1 : publishOne db t now pm = .ok (db1, w)) : db1.topics = db.topics := by
  obtain ⟨m, dbm, _, hdbm, _, hdel⟩ := publishOne_shape h1
  obtain ⟨rows, _, hdb', _⟩ := deliverAll_shape hdel
  rw [hdb', hdbm]

theorem step_publish_one_eq {db db1 : Db} {t : Topic} {now : Time} {pm : PubMsg} {w : List Id} (tn : String) (tick : Int)
    (ht : db.liveTopicByName tn = some t) (h1 : publishOne db t now pm = .ok (db1, w)) :
    (Mmmbbb.step { db := db, now := now } (.publish tn tick [pm])).1 = { db := db1, now := now + tick * (1 : Nat) } := by
  simp only [Mmmbbb.step, publish, ht, publishLoop, h1, List.length_singleton]

/-- **a publish request with any number of messages keeps the fragment's invariants** (the clock ticks
    between the messages of the batch) -/
theorem WF.publishLoop (tn : String) (t : Topic) (tick : Int) (htick : 0 < tick) :
    ∀ (ms : List PubMsg) (db : Db) (now : Time) (wakes : List Id) (db' : Db) (w' : List Id),
      WF { db := db, now := now } → db.liveTopicByName tn = some t →
      Mmmbbb.publishLoop t tick db now wakes ms = .ok (db', w') →
      WF { db := db', now := now + tick * (ms.length : Nat) } := by
  intro ms
  induction ms with
  | nil =>
    intro db now wakes db' w' h _ hl
    unfold Mmmbbb.publishLoop at hl
    injection hl with hl; injection hl with h1 _; subst h1
    have : now + tick * ((([] : List PubMsg).length : Nat) : Int) = now := by simp
    rw [this]; exact h
  | cons pm r ih =>
    intro db now wakes db' w' h ht hl
    unfold Mmmbbb.publishLoop at hl
    split at hl
    · cases hl
    · rename_i db1 w h1
      have hstep := h.step_publish tn tick pm htick
      rw [show (Mmmbbb.step { db := db, now := now } (.publish tn tick [pm])).1 = { db := db1, now := now + tick * (1 : Nat) } from
        step_publish_one_eq tn tick ht h1] at hstep
      have ht1 : db1.liveTopicByName tn = some t := by
        unfold Db.liveTopicByName at ht ⊢
        rw [publishOne_topics h1]; exact ht
      have hnow1 : now + tick * ((1 : Nat) : Int) = now + tick := by simp
      rw [hnow1] at hstep
      have := ih db1 (now + tick) (wakes ++ w) db' w' hstep ht1 hl
      have hlen : now + tick + tick * ((r.length : Nat) : Int) = now + tick * (((pm :: r).length : Nat) : Int) := by
        simp only [List.length_cons]
        have : ((r.length + 1 : Nat) : Int) = (r.length : Int) + 1 := by omega
        rw [this, Int.mul_add, Int.mul_one]
        unfold Time at *
        omega
      rw [hlen] at this; exact this

theorem WF.step_publish_many {st : St} (h : WF st) (tn : String) (tick : Int) (ms : List PubMsg) (htick : 0 < tick) :
    WF (Mmmbbb.step st (.publish tn tick ms)).1 := by
  simp only [Mmmbbb.step]
  cases hp : publish st.db st.now tn tick ms with
  | error e => exact h
  | ok o =>
    simp only
    unfold publish at hp
    split at hp
    · cases hp
    · rename_i t ht
      split at hp
      · cases hp
      · rename_i db' wakes hl
        injection hp with hp; subst hp
        exact WF.publishLoop tn t tick htick ms st.db st.now [] db' wakes h ht hl

/-- a row map that changes nothing but next-attempt times -/
def OnlyAttemptAt (g : Delivery → Delivery) : Prop := ∀ x, ∃ t, g x = { x with attemptAt := t }

theorem OnlyAttemptAt.id : OnlyAttemptAt (fun x => x) := fun x => ⟨x.attemptAt, rfl⟩

theorem OnlyAttemptAt.comp {g h : Delivery → Delivery} (hg : OnlyAttemptAt g) (hh : OnlyAttemptAt h) :
    OnlyAttemptAt (fun x => h (g x)) := by
  intro x
  obtain ⟨t1, h1⟩ := hg x
  obtain ⟨t2, h2⟩ := hh (g x)
  refine ⟨t2, ?_⟩
  show h (g x) = _
  rw [h2, h1]

/-- without dead-letter policies the loop of a nack only moves next-attempt times -/
theorem nackLoop_noDL (now : Time) (delays : List (Id × Int)) (fwds : List (Id × List Fwd)) :
    ∀ (rows : List Delivery) (acc acc' : NackAcc),
      (∀ s ∈ acc.db.subs, ∀ d, s.dlTarget d = none) →
      nackLoop now delays fwds rows acc = .ok acc' →
      ∃ g, OnlyAttemptAt g ∧ acc'.db = { acc.db with dels := acc.db.dels.map g } := by
  intro rows
  induction rows with
  | nil =>
    intro acc acc' _ h
    unfold nackLoop at h
    injection h with h; subst h
    exact ⟨fun x => x, OnlyAttemptAt.id, by simp⟩
  | cons d r ih =>
    intro acc acc' hno h
    unfold nackLoop at h
    split at h
    · cases h
    · rename_i s hs
      have hsm : s ∈ acc.db.subs := by unfold Db.subById at hs; exact List.mem_of_find?_eq_some hs
      rw [hno s hsm d] at h
      simp only at h
      split at h
      · cases h
      · rename_i δ _
        obtain ⟨g, hg, hdb⟩ := ih _ acc' (by simpa using hno) h
        refine ⟨fun x => g (if (x.id == d.id) = true then { x with attemptAt := now + δ } else x), ?_, ?_⟩
        · apply OnlyAttemptAt.comp _ hg
          intro x
          by_cases hx : (x.id == d.id) = true
          · refine ⟨now + δ, ?_⟩
            show (if (x.id == d.id) = true then { x with attemptAt := now + δ } else x) = _
            rw [if_pos hx]
          · refine ⟨x.attemptAt, ?_⟩
            show (if (x.id == d.id) = true then { x with attemptAt := now + δ } else x) = _
            rw [if_neg hx]
        · rw [hdb]
          simp only [setAttemptAt, updateWhere, List.map_map]
          rfl

theorem nack_noDL_shape {db : Db} {now : Time} {ids : List Id} {delays : List (Id × Int)} {fwds : List (Id × List Fwd)}
    {o : TxOut (Nat × Nat)} (hno : ∀ s ∈ db.subs, ∀ d, s.dlTarget d = none) (h : nack db now ids delays fwds = .ok o) :
    ∃ g, OnlyAttemptAt g ∧ o.db = { db with dels := db.dels.map g } := by
  unfold nack at h
  simp only at h
  split at h
  · cases h
  · rename_i acc hacc
    injection h with h; subst h
    exact nackLoop_noDL now delays fwds _ _ acc hno hacc

/-- **a nack on a topology without dead-letter policies refines the ordered-delivery step** -/
theorem C05_refines_nack_no_dl (st : St) (ids : List Id) (delays : List (Id × Int)) (fwds : List (Id × List Fwd))
    (hno : ∀ s ∈ st.db.subs, ∀ d, s.dlTarget d = none) :
    Ord.stepOk true st.db st.now (step st (.nack ids delays fwds)).1.db (step st (.nack ids delays fwds)).1.now = true := by
  simp only [step]
  cases hn : nack st.db st.now ids delays fwds with
  | error e => simp only [finish]; exact Ord.stepOk_of_same st.db st.now _ st.now (Int.le_refl _) rfl rfl rfl
  | ok o =>
    simp only [finish]
    obtain ⟨g, hg, hdb⟩ := nack_noDL_shape hno hn
    refine Ord.stepOk_of_map st.db st.now _ st.now g (Int.le_refl _) (by rw [hdb]) (by rw [hdb]) ?_
    intro d _
    obtain ⟨t, ht⟩ := hg d
    rw [ht]
    exact Ord.rowUpdOk_attemptAt st.db st.now _ (by rw [hdb]) d t

theorem WF.step_nack {st : St} (h : WF st) (ids : List Id) (delays : List (Id × Int)) (fwds : List (Id × List Fwd)) :
    WF (Mmmbbb.step st (.nack ids delays fwds)).1 := by
  have hok := C05_refines_nack_no_dl st ids delays fwds h.noDL
  revert hok
  simp only [Mmmbbb.step]
  cases hn : nack st.db st.now ids delays fwds with
  | error e => intro _; simp only [finish]; exact h
  | ok o =>
    simp only [finish]
    intro hok
    obtain ⟨g, hg, hdb⟩ := nack_noDL_shape h.noDL hn
    refine h.of_dels_map g id ?_ ?_ ?_ ?_ ?_ (Int.le_refl _) ?_ gsId hok
    · rw [hdb]
    · rw [hdb]; simp
    · rw [hdb]
    · rw [hdb]
    · rw [hdb]
    · intro d
      obtain ⟨t, ht⟩ := hg d
      rw [ht]; exact ⟨rfl, rfl, rfl, rfl⟩

theorem allIds_of_sub (db : Db) (s : Sub) (hs : s ∈ db.subs) : db.allIds.contains s.id = true := by
  rw [List.contains_iff_mem]
  unfold Db.allIds
  simp only [List.mem_append, List.mem_map]
  left; left; left; right
  exact ⟨s, hs, rfl⟩

/-- an operation that commits a result leaving deliveries, subscriptions and messages alone -/
theorem WF.finish_same {α} {st : St} (h : WF st) (r : Except Err (TxOut α)) (render : α → String)
    (hsame : ∀ o, r = .ok o → o.db.dels = st.db.dels ∧ o.db.subs = st.db.subs ∧ o.db.msgs = st.db.msgs) :
    WF (finish st r render).1 := by
  cases r with
  | error e => exact h
  | ok o =>
    obtain ⟨h1, h2, h3⟩ := hsame o rfl
    simp only [finish]
    have hok : Ord.stepOk true st.db st.now o.db st.now = true :=
      Ord.stepOk_of_same st.db st.now o.db st.now (Int.le_refl _) h1 h2 h3
    refine ⟨h.inv.step hok, ?_, ?_, ?_, ?_, ?_, ?_⟩
    · rw [h1]; intro d hd
      have := h.fkM d hd
      unfold Db.msgById at *; rw [h3]; exact this
    · rw [h1, h2]; exact h.fkS
    · rw [h2]; exact h.uqA
    · intro s hs; exact allIds_of_sub o.db s hs
    · rw [h1]; exact h.clk
    · rw [h2]; exact h.noDL

theorem WF.step_deleteTopic {st : St} (h : WF st) (n : String) : WF (Mmmbbb.step st (.deleteTopic n)).1 := by
  simp only [Mmmbbb.step]
  apply h.finish_same
  intro o ho
  unfold deleteTopic at ho
  simp only at ho
  split at ho
  · cases ho
  · injection ho with ho; subst ho; exact ⟨rfl, rfl, rfl⟩

theorem WF.step_deleteSnap {st : St} (h : WF st) (n : String) : WF (Mmmbbb.step st (.deleteSnap n)).1 := by
  simp only [Mmmbbb.step]
  apply h.finish_same
  intro o ho
  unfold deleteSnapshot at ho
  split at ho
  · cases ho
  · injection ho with ho; subst ho; exact ⟨rfl, rfl, rfl⟩

theorem WF.step_snapshot {st : St} (h : WF st) (n s : String) (l : StrMap) (i : Id) :
    WF (Mmmbbb.step st (.snapshot n s l i)).1 := by
  simp only [Mmmbbb.step]
  apply h.finish_same
  intro o ho
  exact ⟨createSnapshot_dels ho, by
    unfold createSnapshot at ho
    split at ho
    · cases ho
    · split at ho
      · cases ho
      · split at ho
        · cases ho
        · injection ho with ho; subst ho; exact ⟨rfl, rfl⟩⟩

/-- subscriptions rewritten in place: identity kept, and whatever is live afterwards was live before
    with the same ordering flag and retention (subscriptions may be deleted, or change fields the
    obligation does not read) -/
theorem subsOk_of_kill (db db' : Db) (gs : Sub → Sub) (hs : db'.subs = db.subs.map gs)
    (hgs : ∀ s ∈ db.subs, (gs s).id = s.id ∧
      ((gs s).live = true → s.live = true ∧ (gs s).ordered = s.ordered ∧ (gs s).messageTtl = s.messageTtl)) :
    subsOk db db' = true := by
  unfold subsOk
  rw [hs]
  apply List.all_eq_true.mpr
  intro s' hs'
  obtain ⟨s, hsm, rfl⟩ := List.mem_map.mp hs'
  obtain ⟨h1, h2⟩ := hgs s hsm
  cases hl : (gs s).live with
  | false => simp
  | true =>
    obtain ⟨a, b, c⟩ := h2 hl
    simp only [Bool.not_true, Bool.false_or, Bool.or_eq_true, List.any_eq_true, Bool.and_eq_true, beq_iff_eq]
    left
    exact ⟨s, hsm, ⟨⟨⟨a, h1.symm⟩, b.symm⟩, c.symm⟩⟩

/-- a step that only rewrites subscriptions that way keeps the fragment's invariants -/
theorem WF.of_subs_kill {st st' : St} (h : WF st) (gs : Sub → Sub)
    (hd : st'.db.dels = st.db.dels) (hs : st'.db.subs = st.db.subs.map gs) (hm : st'.db.msgs = st.db.msgs)
    (hnow : st'.now = st.now)
    (hgs : ∀ s, (gs s).id = s.id ∧ (∀ d, s.dlTarget d = none → (gs s).dlTarget d = none) ∧
      ((gs s).live = true → s.live = true ∧ (gs s).ordered = s.ordered ∧ (gs s).messageTtl = s.messageTtl)) :
    WF st' := by
  have hok : Ord.stepOk true st.db st.now st'.db st'.now = true := by
    unfold Ord.stepOk
    simp only [Bool.and_eq_true, decide_eq_true_eq, Bool.or_eq_true]
    refine ⟨⟨by rw [hnow]; exact Int.le_refl _, subsOk_of_kill st.db st'.db gs hs (fun s _ => ⟨(hgs s).1, (hgs s).2.2⟩)⟩, Or.inl ?_⟩
    unfold Ord.growOk
    rw [hd]
    simp only [List.take_length, List.drop_length, Bool.and_eq_true]
    exact ⟨Ord.rowsUpdOk_refl st.db st.now st'.db hm st.db.dels, rfl⟩
  refine ⟨h.inv.step hok, ?_, ?_, ?_, ?_, ?_, ?_⟩
  · rw [hd]; intro d hdm
    have := h.fkM d hdm
    unfold Db.msgById at *; rw [hm]; exact this
  · rw [hd, hs]; intro d hdm
    obtain ⟨s0, hs0, hid⟩ := h.fkS d hdm
    exact ⟨gs s0, List.mem_map.mpr ⟨s0, hs0, rfl⟩, by rw [(hgs s0).1]; exact hid⟩
  · rw [hs]; intro a ha b hb hid
    obtain ⟨a0, ha0, rfl⟩ := List.mem_map.mp ha
    obtain ⟨b0, hb0, rfl⟩ := List.mem_map.mp hb
    have := h.uqA a0 ha0 b0 hb0 (by rw [← (hgs a0).1, ← (hgs b0).1]; exact hid)
    rw [this]
  · intro s hsm; exact allIds_of_sub st'.db s hsm
  · rw [hd, hnow]; exact h.clk
  · rw [hs]; intro s hsm d
    obtain ⟨s0, hs0, rfl⟩ := List.mem_map.mp hsm
    exact (hgs s0).2.1 d (h.noDL s0 hs0 d)

theorem kill_fields (p : Sub → Bool) (now : Time) (s : Sub) :
    (if p s = true then { s with deletedAt := some now } else s).id = s.id ∧
    (∀ d, s.dlTarget d = none → (if p s = true then { s with deletedAt := some now } else s).dlTarget d = none) ∧
    ((if p s = true then { s with deletedAt := some now } else s).live = true →
      s.live = true ∧ (if p s = true then { s with deletedAt := some now } else s).ordered = s.ordered ∧
      (if p s = true then { s with deletedAt := some now } else s).messageTtl = s.messageTtl) := by
  by_cases hp : p s = true
  · rw [if_pos hp]
    refine ⟨rfl, fun _ h => h, ?_⟩
    intro hl; simp [Sub.live] at hl
  · rw [if_neg hp]
    exact ⟨rfl, fun _ h => h, fun hl => ⟨hl, rfl, rfl⟩⟩

theorem WF.step_deleteSub {st : St} (h : WF st) (n : String) : WF (Mmmbbb.step st (.deleteSub n)).1 := by
  simp only [Mmmbbb.step]
  cases hc : deleteSub st.db st.now n with
  | error e => simp only [finish]; exact h
  | ok o =>
    simp only [finish]
    unfold deleteSub at hc
    simp only at hc
    split at hc
    · cases hc
    · injection hc with hc; subst hc
      exact h.of_subs_kill (fun s => if (s.name == n && s.live) = true then { s with deletedAt := some st.now } else s)
        rfl rfl rfl rfl (fun s => kill_fields (fun s => s.name == n && s.live) st.now s)

theorem WF.step_expireSubs {st : St} (h : WF st) (mx : Nat) (v : List Id) : WF (Mmmbbb.step st (.expireSubs mx v)).1 := by
  simp only [Mmmbbb.step]
  cases hc : expireSubs st.db st.now mx v with
  | error e => simp only [finish]; exact h
  | ok o =>
    simp only [finish]
    unfold expireSubs at hc
    simp only at hc
    split at hc
    · cases hc
    · injection hc with hc; subst hc
      exact h.of_subs_kill (fun s => if (v.contains s.id) = true then { s with deletedAt := some st.now } else s)
        rfl rfl rfl rfl (fun s => kill_fields (fun s => v.contains s.id) st.now s)

/-! #### the rest of the store's operations: the delay injector, the four remaining prune jobs and
    the dead-letter sweep (which finds nothing to do where no subscription has a dead-letter policy) -/

theorem WF.step_setDelay {st : St} (h : WF st) (n : String) (dl : Int) : WF (Mmmbbb.step st (.setDelay n dl)).1 := by
  simp only [Mmmbbb.step]
  cases hc : setDelay st.db n dl with
  | error e => simp only [finish]; exact h
  | ok o =>
    simp only [finish]
    unfold setDelay at hc
    simp only at hc
    split at hc
    · cases hc
    · injection hc with hc; subst hc
      refine h.of_subs_kill (fun s => if (s.name == n && s.live) = true then { s with deliveryDelay := dl } else s)
        rfl rfl rfl rfl (fun s => ?_)
      by_cases hp : (s.name == n && s.live) = true
      · rw [if_pos hp]; exact ⟨rfl, fun _ h => h, fun hl => ⟨hl, rfl, rfl⟩⟩
      · rw [if_neg hp]; exact ⟨rfl, fun _ h => h, fun hl => ⟨hl, rfl, rfl⟩⟩

theorem subById_mem {db : Db} {i : Id} {s : Sub} (h : db.subById i = some s) : s ∈ db.subs ∧ s.id = i := by
  unfold Db.subById at h
  exact ⟨List.mem_of_find?_eq_some h, by simpa using List.find?_some h⟩

theorem msgById_mem {db : Db} {i : Id} {m : Msg} (h : db.msgById i = some m) : m ∈ db.msgs ∧ m.id = i := by
  unfold Db.msgById at h
  exact ⟨List.mem_of_find?_eq_some h, by simpa using List.find?_some h⟩

/-- **the job that removes the deliveries of deleted subscriptions refines the shrinking step**: the
    rows it removes may be outstanding, but they belong to no live subscription -/
theorem C05_refines_pruneDeletedSubDeliveries (st : St) (a : Int) (mx : Nat) (v : List Id)
    (huniq : (st.db.dels.map (·.id)).Nodup)
    (huqA : ∀ a ∈ st.db.subs, ∀ b ∈ st.db.subs, a.id = b.id → a = b) :
    Ord.stepOk true st.db st.now (Mmmbbb.step st (.pruneDeletedSubDeliveries a mx v)).1.db
      (Mmmbbb.step st (.pruneDeletedSubDeliveries a mx v)).1.now = true := by
  simp only [Mmmbbb.step]
  unfold pruneDeletedSubDeliveries
  simp only
  split
  · simp only [finish]
    exact Ord.stepOk_of_same st.db st.now _ st.now (Int.le_refl _) rfl rfl rfl
  · rename_i hlim
    simp only [finish]
    have hlim' := by simpa using hlim
    have hv := limitOk_victims hlim'
    refine stepOk_of_shrink st.db st.now _ rfl (shrinkOk_deleteDeliveries st.db st.now v ?_ ?_)
    · intro x hx
      obtain ⟨r, hr, _⟩ := hv x hx
      obtain ⟨hm, hid⟩ := delById_mem hr
      exact List.mem_map.mpr ⟨r, hm, hid⟩
    · intro d hd hc
      obtain ⟨r, hr, hp⟩ := hv d.id (List.contains_iff_mem.mp hc)
      obtain ⟨hm, hid⟩ := delById_mem hr
      have : r = d := Ord.eq_of_nodup_ids huniq hm hd hid
      subst this
      right
      cases hlo : liveOrd st.db r.subId with
      | false => rfl
      | true =>
        exfalso
        unfold liveOrd at hlo
        obtain ⟨s, hs, hs2⟩ := List.any_eq_true.mp hlo
        simp only [Bool.and_eq_true, beq_iff_eq] at hs2
        cases hsb : st.db.subById r.subId with
        | none => rw [hsb] at hp; simp at hp
        | some s0 =>
          obtain ⟨hs0, hid0⟩ := subById_mem hsb
          have : s0 = s := huqA s0 hs0 s hs (by rw [hid0, hs2.1.1])
          subst this
          have hl : s0.deletedAt = none := by
            have := hs2.1.2
            unfold Sub.live at this
            cases hda : s0.deletedAt with
            | none => rfl
            | some _ => rw [hda] at this; cases this
          rw [hsb] at hp
          simp [hl] at hp

theorem WF.step_pruneDeletedSubDeliveries {st : St} (h : WF st) (a : Int) (mx : Nat) (v : List Id) :
    WF (Mmmbbb.step st (.pruneDeletedSubDeliveries a mx v)).1 := by
  have hok := C05_refines_pruneDeletedSubDeliveries st a mx v h.inv.uniq h.uqA
  revert hok
  simp only [Mmmbbb.step]
  unfold pruneDeletedSubDeliveries
  simp only
  split
  · intro _; simp only [finish]; exact h
  · intro hok; simp only [finish] at hok ⊢; exact h.of_deleteDeliveries v hok

theorem find?_filter_keep {α} (l : List α) (keep : α → Bool) (q : α → Bool)
    (h : ∀ m ∈ l, q m = true → keep m = true) : (l.filter keep).find? q = l.find? q := by
  induction l with
  | nil => rfl
  | cons m r ih =>
    have ih' := ih (fun x hx => h x (List.mem_cons_of_mem _ hx))
    cases hk : keep m with
    | true =>
      rw [List.filter_cons_of_pos hk, List.find?_cons, List.find?_cons, ih']
    | false =>
      have hq : q m = false := by
        cases hq : q m with
        | false => rfl
        | true => have := h m (List.mem_cons_self ..) hq; rw [hk] at this; cases this
      rw [List.filter_cons_of_neg (by simp [hk]), List.find?_cons, hq, ih']

/-- removing messages no delivery refers to keeps the fragment's invariants -/
theorem WF.of_msgs_filter {st : St} (h : WF st) (keep : Msg → Bool)
    (hkeep : ∀ d ∈ st.db.dels, ∀ m ∈ st.db.msgs, m.id = d.msgId → keep m = true) :
    WF { st with db := { st.db with msgs := st.db.msgs.filter keep } } := by
  have hmsg : ∀ d ∈ st.db.dels,
      ({ st.db with msgs := st.db.msgs.filter keep } : Db).msgById d.msgId = st.db.msgById d.msgId := by
    intro d hd
    unfold Db.msgById
    exact find?_filter_keep st.db.msgs keep _ (fun m hm hq => hkeep d hd m hm (by simpa using hq))
  have hk : ∀ d ∈ st.db.dels, keyOf ({ st.db with msgs := st.db.msgs.filter keep } : Db) d = keyOf st.db d := by
    intro d hd
    unfold keyOf
    rw [hmsg d hd]
  have hok : Ord.stepOk true st.db st.now ({ st.db with msgs := st.db.msgs.filter keep } : Db) st.now = true :=
    Ord.stepOk_of_append true st.db st.now _ st.now [] (Int.le_refl _) (List.append_nil _).symm rfl hk rfl
  refine ⟨h.inv.step hok, ?_, h.fkS, h.uqA, ?_, h.clk, h.noDL⟩
  · intro d hd
    rw [hmsg d hd]; exact h.fkM d hd
  · intro s hs; exact allIds_of_sub _ s hs

theorem WF.step_pruneCompletedMessages {st : St} (h : WF st) (a : Int) (mx : Nat) (v : List Id) :
    WF (Mmmbbb.step st (.pruneCompletedMessages a mx v)).1 := by
  simp only [Mmmbbb.step]
  unfold pruneCompletedMessages
  simp only
  split
  · simp only [finish]; exact h
  · rename_i hlim
    simp only [finish]
    have hlim' := by simpa using hlim
    have hv := limitOk_victims hlim'
    apply h.of_msgs_filter
    intro d hd m _ hid
    cases hc : v.contains m.id with
    | false => rfl
    | true =>
      exfalso
      obtain ⟨r, hr, hp⟩ := hv m.id (List.contains_iff_mem.mp hc)
      obtain ⟨_, hrid⟩ := msgById_mem hr
      simp only [Bool.and_eq_true, Bool.not_eq_true', decide_eq_true_eq] at hp
      have := hp.2
      rw [List.any_eq_false] at this
      exact this d hd (by simp [hrid, hid])

/-- removing subscriptions no delivery refers to keeps the fragment's invariants -/
theorem WF.of_subs_filter {st : St} (h : WF st) (keep : Sub → Bool)
    (hkeep : ∀ d ∈ st.db.dels, ∀ s ∈ st.db.subs, s.id = d.subId → keep s = true) :
    WF { st with db := { st.db with subs := st.db.subs.filter keep } } := by
  have hok : Ord.stepOk true st.db st.now ({ st.db with subs := st.db.subs.filter keep } : Db) st.now = true := by
    unfold Ord.stepOk
    simp only [Bool.and_eq_true, decide_eq_true_eq, Bool.or_eq_true]
    refine ⟨⟨Int.le_refl _, ?_⟩, Or.inl ?_⟩
    · unfold Ord.subsOk
      apply List.all_eq_true.mpr
      intro s' hs'
      have hs0 : s' ∈ st.db.subs := (List.mem_filter.mp hs').1
      cases hl : s'.live with
      | false => simp
      | true =>
        simp only [Bool.not_true, Bool.false_or, Bool.or_eq_true, List.any_eq_true, Bool.and_eq_true, beq_iff_eq]
        left
        exact ⟨s', hs0, ⟨⟨⟨hl, rfl⟩, rfl⟩, rfl⟩⟩
    · unfold Ord.growOk
      simp only [List.take_length, List.drop_length, Bool.and_eq_true]
      exact ⟨Ord.rowsUpdOk_refl st.db st.now ({ st.db with subs := st.db.subs.filter keep } : Db) rfl st.db.dels, rfl⟩
  refine ⟨h.inv.step hok, h.fkM, ?_, ?_, ?_, h.clk, ?_⟩
  · intro d hd
    obtain ⟨s0, hs0, hid⟩ := h.fkS d hd
    exact ⟨s0, List.mem_filter.mpr ⟨hs0, hkeep d hd s0 hs0 hid⟩, hid⟩
  · intro a ha b hb hid
    exact h.uqA a (List.mem_filter.mp ha).1 b (List.mem_filter.mp hb).1 hid
  · intro s hs; exact allIds_of_sub _ s hs
  · intro s hs d; exact h.noDL s (List.mem_filter.mp hs).1 d

theorem WF.step_pruneDeletedSubs {st : St} (h : WF st) (a : Int) (mx : Nat) (v : List Id) :
    WF (Mmmbbb.step st (.pruneDeletedSubs a mx v)).1 := by
  simp only [Mmmbbb.step]
  unfold pruneDeletedSubs
  simp only
  split
  · simp only [finish]; exact h
  · rename_i hlim
    simp only [finish]
    have hlim' := by simpa using hlim
    have hv := limitOk_victims hlim'
    apply h.of_subs_filter
    intro d hd s _ hid
    cases hc : v.contains s.id with
    | false => rfl
    | true =>
      exfalso
      obtain ⟨r, hr, hp⟩ := hv s.id (List.contains_iff_mem.mp hc)
      obtain ⟨_, hrid⟩ := subById_mem hr
      simp only [Bool.and_eq_true, Bool.not_eq_true'] at hp
      have := hp.2
      rw [List.any_eq_false] at this
      exact this d hd (by simp [hrid, hid])

theorem WF.step_pruneDeletedTopics {st : St} (h : WF st) (a : Int) (mx : Nat) (v : List Id) :
    WF (Mmmbbb.step st (.pruneDeletedTopics a mx v)).1 := by
  simp only [Mmmbbb.step]
  unfold pruneDeletedTopics
  simp only
  split
  · simp only [finish]; exact h
  · split
    · simp only [finish]; exact h
    · simp only [finish]
      refine h.of_subs_kill (fun s => match s.dlTopicId with
          | some d => if v.contains d = true then { s with dlTopicId := none } else s
          | none => s) rfl rfl rfl rfl (fun s => ?_)
      split
      · rename_i t hdl
        by_cases hc : v.contains t = true
        · rw [if_pos hc]
          refine ⟨rfl, fun d _ => ?_, fun hl => ⟨hl, rfl, rfl⟩⟩
          unfold Sub.dlTarget
          split <;> simp_all
        · rw [if_neg hc]; exact ⟨rfl, fun _ h => h, fun hl => ⟨hl, rfl, rfl⟩⟩
      · exact ⟨rfl, fun _ h => h, fun hl => ⟨hl, rfl, rfl⟩⟩

/-- where no subscription has a dead-letter policy the dead-letter sweep has no candidates -/
theorem WF.step_dlSweep {st : St} (h : WF st) (mx : Nat) (v : List Id) (fw : List (Id × List Fwd)) :
    WF (Mmmbbb.step st (.dlSweep mx v fw)).1 := by
  simp only [Mmmbbb.step]
  apply h.finish_same
  intro o ho
  unfold dlSweep at ho
  split at ho
  · cases ho
  · rename_i hlim
    have hlim' := by simpa using hlim
    have hv := limitOk_victims hlim'
    have hnil : v = [] := by
      cases v with
      | nil => rfl
      | cons x r =>
        exfalso
        obtain ⟨d, hd, hp⟩ := hv x (List.mem_cons_self ..)
        unfold sweepCand at hp
        simp only [Bool.and_eq_true] at hp
        cases hsb : st.db.subById d.subId with
        | none => rw [hsb] at hp; simp at hp
        | some s =>
          obtain ⟨hs, _⟩ := subById_mem hsb
          have hno := h.noDL s hs d
          rw [hsb] at hp
          unfold Sub.dlTarget at hno
          revert hno
          have hp2 := hp.2
          simp only [Bool.and_eq_true] at hp2
          revert hp2
          cases s.maxAttempts <;> cases s.dlTopicId <;> simp
    subst hnil
    simp only [lookupAll, sweepLoop] at ho
    injection ho with ho; subst ho
    exact ⟨rfl, rfl, rfl⟩

def fragRun : St → List Op → Prop
  | _, [] => True
  | st, op :: r => fragOk st op ∧ fragRun (step st op).1 r

theorem WF.step {st : St} (h : WF st) (op : Op) (hf : fragOk st op) : WF (Mmmbbb.step st op).1 := by
  cases op with
  | advance d => exact h.step_advance d hf
  | createTopic n l i => exact h.step_createTopic n l i
  | deleteTopic n => exact h.step_deleteTopic n
  | snapshot n s l i => exact h.step_snapshot n s l i
  | deleteSnap n => exact h.step_deleteSnap n
  | createSub p i => exact h.step_createSub p i hf
  | deleteSub n => exact h.step_deleteSub n
  | expireSubs mx v => exact h.step_expireSubs mx v
  | publish t tick ms => exact h.step_publish_many t tick ms hf
  | pull sn mx mb strict wait obs => exact h.step_pull sn mx mb strict wait obs hf
  | ack ids => exact h.step_ack ids hf
  | delay ids d => exact h.step_delay ids d
  | nack ids ds fw => exact h.step_nack ids ds fw
  | pruneCompletedDeliveries a mx v => exact h.step_pruneCompletedDeliveries a mx v
  | pruneExpiredDeliveries mx v => exact h.step_pruneExpiredDeliveries mx v
  | setDelay n d => exact h.step_setDelay n d
  | dlSweep mx v fw => exact h.step_dlSweep mx v fw
  | pruneCompletedMessages a mx v => exact h.step_pruneCompletedMessages a mx v
  | pruneDeletedSubDeliveries a mx v => exact h.step_pruneDeletedSubDeliveries a mx v
  | pruneDeletedSubs a mx v => exact h.step_pruneDeletedSubs a mx v
  | pruneDeletedTopics a mx v => exact h.step_pruneDeletedTopics a mx v
  | _ => exact absurd hf (by simp [fragOk])

theorem WF.run : ∀ (ops : List Op) (st : St), WF st → fragRun st ops → WF (Mmmbbb.run st ops)
  | [], _, h, _ => h
  | op :: r, st, h, hf => by
    rw [run_cons]
    exact WF.run r _ (h.step op hf.1) hf.2

/-- **C05 on the fragment, outright**: for *every* history that contains no Seek and creates no
    subscription with a dead-letter policy — clock advances, topic creations and deletions,
    subscription creations, deletions and expiries, snapshot creations and deletions, publishes
    (single and batched) with an advancing clock, pulls, deadline changes, nacks, acknowledgements of
    handed-out deliveries, the delay injector, the dead-letter sweep and all six prune jobs; any
    number of subscriptions, keys, un-keyed messages in between, pulls of any size, acks in any order,
    lease and retention expiry, pruning of completed predecessors, of deleted subscriptions and of
    their deliveries —
    in the state it reaches no keyed delivery of an ordered subscription is eligible while an
    earlier-published delivery of the same key is outstanding.  No hypothesis is evaluated on the
    run: the refinement obligation of every step is a theorem (`C05_refines_*`), and the side
    conditions those theorems need are invariants of the fragment (`WF`). -/
theorem C05_fragment (ops : List Op) (h : fragRun {} ops) :
    let st := Mmmbbb.run {} ops
    ∀ s ∈ st.db.subs, s.live = true → s.ordered = true → ∀ d ∈ st.db.dels, ∀ e ∈ st.db.dels,
      d.subId = s.id → e.subId = s.id →
      (∃ k, k ≠ "" ∧ (st.db.msgById d.msgId).bind (·.orderKey) = some k ∧ (st.db.msgById e.msgId).bind (·.orderKey) = some k) →
      e.publishedAt < d.publishedAt → e.isOpen st.now = true → st.db.eligible s st.now d = false := by
  intro st s hs hlive hord d hd e he hds hes hkey hlt hopen
  have hinv : Ord.Inv st.db st.now := (WF.run ops {} WF.init h).inv
  obtain ⟨k, hk, h1, h2⟩ := hkey
  have k1 := keyOf_of_bind hk h1
  have k2 := keyOf_of_bind hk h2
  exact hinv.ordered s hs hlive hord d e hd he hds hes (k1.trans k2.symm) (by rw [k1]; simp) hlt hopen

/-- non-vacuity: a history of the fragment in which the ordering matters — two messages of key "k",
    published one after the other; the first is pulled and acknowledged, then the second is pulled -/
def exampleFragmentHistory : List Op := [
  .createTopic "projects/p/topics/t" [] 1,
  .createSub { name := "projects/p/subscriptions/o", topicName := "projects/p/topics/t", ttl := 1000000000000,
               messageTtl := 100000000000, ordered := true, labels := [], pushEndpoint := "", minBackoff := 0,
               maxBackoff := 0, filter := "", maxAttempts := 0, dlTopic := "" } 2,
  .publish "projects/p/topics/t" 1 [{ id := 10, payload := "a", plen := 1, attrs := [], orderKey := "k", fwds := [⟨2, 11, none⟩] }],
  .publish "projects/p/topics/t" 1 [{ id := 12, payload := "b", plen := 1, attrs := [], orderKey := "k", fwds := [⟨2, 13, some 11⟩] }],
  .pull "projects/p/subscriptions/o" 10 1000 false 1 { cands := [11], delays := [(11, 11000000000)], fwds := [] },
  .ack [11],
  .advance 5,
  .pull "projects/p/subscriptions/o" 10 1000 false 1 { cands := [13], delays := [(13, 11000000000)], fwds := [] }]

example : (outs {} exampleFragmentHistory).map (·.ok) = [true, true, true, true, true, true, true, true] := by decide

example : fragRun {} exampleFragmentHistory := by
  refine ⟨trivial, rfl, by decide, by decide, by decide, by decide, by decide, by decide, trivial⟩

end fragment

/-! ### dead-lettering one delivery keeps the ordering invariant (no clock assumption) -/

section deadletter2
open Mmmbbb.Ord Mmmbbb.Ord2

/-- a step that rewrites delivery rows in place, for the obligation without clock assumption -/
theorem stepOk2_of_map (db : Db) (now : Time) (db' : Db) (now' : Time) (g : Delivery → Delivery) (hnow : now ≤ now')
    (hd : db'.dels = db.dels.map g) (hs : db'.subs = db.subs)
    (hg : ∀ d ∈ db.dels, rowUpdOk db now db' d (g d) = true) :
    stepOk2 db now db' now' = true := by
  unfold stepOk2
  simp only [Bool.and_eq_true, decide_eq_true_eq, Bool.or_eq_true]
  refine ⟨⟨hnow, subsOk_same db db' hs⟩, Or.inl ?_⟩
  unfold growOk2
  have hlen : db.dels.length = (db.dels.map g).length := by simp
  simp only [hd, Bool.and_eq_true]
  rw [hlen, List.take_length, List.drop_length]
  refine ⟨?_, rfl⟩
  have : ∀ l : List Delivery, (∀ d ∈ l, rowUpdOk db now db' d (g d) = true) → rowsUpdOk db now db' l (l.map g) = true := by
    intro l
    induction l with
    | nil => intro _; rfl
    | cons x t ih =>
      intro h
      simp only [List.map_cons, rowsUpdOk, Bool.and_eq_true]
      exact ⟨h x (List.mem_cons_self ..), ih (fun d hd => h d (List.mem_cons_of_mem _ hd))⟩
  exact this db.dels hg

/-- **dead-lettering one delivery keeps the ordering invariant** — the single routine behind the three
    triggers (a pull that finds the attempts used up, a nack, the background sweep): the forward is an
    enqueueing (`C05_refines2_enqueue`: the forwarded rows are stamped with the instant of the
    transaction, which earlier forwards of the same transaction share), the retirement of the source
    row a completion of a delivery that has been handed out.  No clock assumption: any number of
    deliveries may be dead-lettered at one instant, one after the other, and `Ord2.Inv2` — hence ordered
    delivery on the dead-letter topic's ordered subscriptions — survives each of them. -/
theorem C05_deadLetter_keeps_order {db : Db} {d : Delivery} {dlt : Id} {now : Time} {fwds : List Fwd}
    {db' : Db} {w : List Id} (h : deadLetter db d dlt now fwds = .ok (db', w))
    (hinv : Inv2 db now)
    (huniq : ∀ a ∈ db.subs, ∀ b ∈ db.subs, a.live = true → b.live = true → a.id = b.id → a = b)
    (hd : d ∈ db.dels) (hatt : 0 < d.attempts) :
    Inv2 db' now := by
  unfold deadLetter at h
  split at h
  · cases h
  · rename_i db1 w1 hf
    -- the forward
    have h1 : Inv2 db1 now ∧ db1.subs = db.subs ∧ db1.msgs = db.msgs ∧ d ∈ db1.dels := by
      unfold dlForward at hf
      split at hf
      · split at hf
        · injection hf with hf; injection hf with e1 _; subst e1; exact ⟨hinv, rfl, rfl, hd⟩
        · cases hf
      · rename_i t _
        split at hf
        · split at hf
          · injection hf with hf; injection hf with e1 _; subst e1; exact ⟨hinv, rfl, rfl, hd⟩
          · cases hf
        · split at hf
          · cases hf
          · rename_i m hm
            have hmid : m.id = d.msgId := by
              unfold Db.msgById at hm
              simpa using List.find?_some hm
            have hok := C05_refines2_enqueue db db1 (db.liveSubsOf t.id) m now fwds w1 hf (by rw [hmid]; exact hm)
              (fun s hs => liveSubsOf_mem hs) huniq hinv.uniq hinv.past
            obtain ⟨rows, _, e1, _⟩ := deliverAll_shape hf
            refine ⟨hinv.step hok, by rw [e1], by rw [e1], ?_⟩
            rw [e1]; exact List.mem_append_left _ hd
    obtain ⟨hinv1, hs1, hm1, hd1⟩ := h1
    split at h
    · cases h
    · injection h with h
      injection h with e2 _
      subst e2
      -- the retirement of the source row
      have hok : stepOk2 db1 now { db1 with dels := markCompleted d.id now db1.dels } now = true := by
        refine stepOk2_of_map db1 now _ now (fun x => if (x.id == d.id) = true then { x with completedAt := some now } else x)
          (Int.le_refl _) ?_ rfl ?_
        · simp only [markCompleted, updateWhere]
        · intro x hx
          split
          · rename_i hxd
            have : x = d := eq_of_nodup_ids hinv1.uniq hx hd1 (by simpa using hxd)
            subst this
            exact rowUpdOk_complete db1 now _ rfl x now hatt
          · exact rowUpdOk_refl db1 now _ rfl x
      exact hinv1.step hok

/-- the loop of the dead-letter sweep keeps the ordering invariant: every row it retires is still in
    the table, unchanged, when its turn comes (the rows have distinct ids) -/
theorem sweepLoop_keeps_order (now : Time) (fwds : List (Id × List Fwd)) :
    ∀ (rows : List Delivery) (db : Db) (wakes : List Id) (db' : Db) (w : List Id),
      sweepLoop now fwds rows db wakes = .ok (db', w) →
      Inv2 db now →
      (∀ a ∈ db.subs, ∀ b ∈ db.subs, a.live = true → b.live = true → a.id = b.id → a = b) →
      (rows.map (·.id)).Nodup →
      (∀ d ∈ rows, findDel db.dels d.id = some d ∧ 0 < d.attempts) →
      Inv2 db' now := by
  intro rows
  induction rows with
  | nil =>
    intro db wakes db' w h hinv _ _ _
    unfold sweepLoop at h
    injection h with h; injection h with e1 _; subst e1; exact hinv
  | cons d r ih =>
    intro db wakes db' w h hinv huniq hnd hrows
    unfold sweepLoop at h
    split at h
    · cases h
    · rename_i dlt _
      split at h
      · cases h
      · rename_i db1 w1 hdl
        have hd := (hrows d (List.mem_cons_self ..))
        have hdm : d ∈ db.dels := List.mem_of_find?_eq_some hd.1
        have hinv1 := C05_deadLetter_keeps_order hdl hinv huniq hdm hd.2
        have hsame := deadLetter_other hdl
        simp only [List.map_cons, List.nodup_cons] at hnd
        refine ih db1 _ db' w h hinv1 (by rw [hsame.2.1]; exact huniq) hnd.2 ?_
        intro x hx
        have hxr := hrows x (List.mem_cons_of_mem _ hx)
        refine ⟨deadLetter_keeps hdl ?_ hxr.1, hxr.2⟩
        intro heq
        exact hnd.1 (List.mem_map.mpr ⟨x, hx, heq.symm⟩)

/-- **the dead-letter sweep keeps the ordering invariant**, whatever number of deliveries — of one key
    or several, into one ordered subscription or several — it forwards in its one transaction -/
theorem C05_sweep_keeps_order {db : Db} {now : Time} {mx : Nat} {victims : List Id} {fwds : List (Id × List Fwd)}
    {o : TxOut Nat} (h : dlSweep db now mx victims fwds = .ok o) (hinv : Inv2 db now)
    (huniq : ∀ a ∈ db.subs, ∀ b ∈ db.subs, a.live = true → b.live = true → a.id = b.id → a = b) :
    Inv2 o.db now := by
  unfold dlSweep at h
  split at h
  · cases h
  · rename_i hlim
    have hlim' : limitOk db.dels db.delById (sweepCand db now) victims mx = true := by simpa using hlim
    split at h
    · cases h
    · rename_i rows hrows
      split at h
      · cases h
      · rename_i db1 wakes hloop
        injection h with h; subst h
        have hids : rows.map (·.id) = victims :=
          lookupAll_ids (f := db.delById) (fun i d hd => by
            unfold Db.delById at hd
            simpa using List.find?_some hd) victims rows hrows
        have hnd : victims.Nodup := by
          unfold limitOk at hlim'
          simp only [Bool.and_eq_true] at hlim'
          exact (nodupIds_iff _).mp hlim'.1.1
        refine sweepLoop_keeps_order now fwds rows db [] db1 wakes hloop hinv huniq (by rw [hids]; exact hnd) ?_
        intro d hd
        obtain ⟨i, hi, hfi⟩ := lookupAll_spec db.delById victims rows hrows d hd
        have hdid : d.id = i := by
          unfold Db.delById at hfi
          simpa using List.find?_some hfi
        refine ⟨by rw [hdid]; exact hfi, ?_⟩
        obtain ⟨r, hr, hp⟩ := limitOk_victims hlim' i hi
        rw [hfi] at hr; injection hr with hr; subst hr
        unfold sweepCand at hp
        simp only [Bool.and_eq_true] at hp
        have hp2 := hp.2
        cases hsb : db.subById d.subId with
        | none => rw [hsb] at hp2; simp at hp2
        | some s =>
          rw [hsb] at hp2
          simp only [Bool.and_eq_true] at hp2
          have hp3 := hp2.2
          revert hp3
          cases s.maxAttempts <;> cases s.dlTopicId <;> simp
          intro h1 h2
          omega

/-! ### a pull — dead-lettering included — keeps the ordering invariant -/

/-- a step that rewrites delivery rows in place and subscriptions in fields the obligation does not read -/
theorem stepOk2_of_maps (db : Db) (now : Time) (db' : Db) (now' : Time) (g : Delivery → Delivery) (gs : Sub → Sub)
    (hnow : now ≤ now') (hd : db'.dels = db.dels.map g) (hs : db'.subs = db.subs.map gs)
    (hgs : ∀ s ∈ db.subs, (gs s).id = s.id ∧ (gs s).live = s.live ∧ (gs s).ordered = s.ordered ∧ (gs s).messageTtl = s.messageTtl)
    (hg : ∀ d ∈ db.dels, rowUpdOk db now db' d (g d) = true) :
    stepOk2 db now db' now' = true := by
  unfold stepOk2
  simp only [Bool.and_eq_true, decide_eq_true_eq, Bool.or_eq_true]
  refine ⟨⟨hnow, subsOk_of_map db db' gs hs hgs⟩, Or.inl ?_⟩
  unfold growOk2
  have hlen : db.dels.length = (db.dels.map g).length := by simp
  simp only [hd, Bool.and_eq_true]
  rw [hlen, List.take_length, List.drop_length]
  refine ⟨?_, rfl⟩
  have : ∀ l : List Delivery, (∀ d ∈ l, rowUpdOk db now db' d (g d) = true) → rowsUpdOk db now db' l (l.map g) = true := by
    intro l
    induction l with
    | nil => intro _; rfl
    | cons d r ih =>
      intro h
      simp only [List.map_cons, rowsUpdOk, Bool.and_eq_true]
      exact ⟨h d List.mem_cons_self, ih (fun x hx => h x (List.mem_cons_of_mem _ hx))⟩
  exact this db.dels hg

/-- a predecessor that is done stays done along row-monotone table changes -/
theorem predDone_mono {db db' : Db} (h : DelsMono db.dels db'.dels) (now : Time) (d : Delivery)
    (hp : db.predDone now d = true) : db'.predDone now d = true := by
  unfold Db.predDone at hp ⊢
  cases hnb : d.notBefore with
  | none => rfl
  | some p =>
    rw [hnb] at hp
    simp only at hp ⊢
    cases hq : db.delById p with
    | none => rw [hq] at hp; cases hp
    | some q =>
      rw [hq] at hp
      obtain ⟨q', hq', r⟩ := h p q hq
      rw [Db.delById_eq, hq']
      simp only [Bool.or_eq_true, decide_eq_true_eq] at hp ⊢
      rcases hp with hp | hp
      · exact Or.inl (r.completed hp)
      · right; rw [r.expires]; exact hp

theorem dlTarget_attempts {s : Sub} {d : Delivery} {t : Id} (h : s.dlTarget d = some t) : 0 < d.attempts := by
  unfold Sub.dlTarget at h
  split at h
  · split at h
    · rename_i hc
      have := hc.1; have := hc.2
      omega
    · cases h
  · cases h

/-- the loop of a pull keeps the ordering invariant: the candidates whose attempts are used up are
    dead-lettered one after the other, each still unchanged in the table when its turn comes -/
theorem pullLoop_inv2 (s : Sub) (now : Time) (maxBytes : Nat) (strict : Bool) (obs : PullObs) :
    ∀ (cands : List Delivery) (i : Nat) (acc acc' : PullAcc),
      pullLoop s now maxBytes strict obs i cands acc = .ok acc' →
      Inv2 acc.db now →
      (∀ a ∈ acc.db.subs, ∀ b ∈ acc.db.subs, a.live = true → b.live = true → a.id = b.id → a = b) →
      (cands.map (·.id)).Nodup →
      (∀ c ∈ cands, findDel acc.db.dels c.id = some c) →
      Inv2 acc'.db now := by
  intro cands
  induction cands with
  | nil =>
    intro i acc acc' h hinv _ _ _
    unfold pullLoop at h
    injection h with h; subst h; exact hinv
  | cons d r ih =>
    intro i acc acc' h hinv huniq hnd hc
    simp only [List.map_cons, List.nodup_cons] at hnd
    have hcr : ∀ c ∈ r, findDel acc.db.dels c.id = some c := fun c hcm => hc c (List.mem_cons_of_mem _ hcm)
    unfold pullLoop at h
    split at h
    · cases h
    · split at h
      · exact ih _ _ _ h hinv huniq hnd.2 hcr
      · split at h
        · rename_i dlt hdlt
          split at h
          · cases h
          · rename_i db' w hdl
            have hdm : d ∈ acc.db.dels := List.mem_of_find?_eq_some (hc d (List.mem_cons_self ..))
            have hinv1 := C05_deadLetter_keeps_order hdl hinv huniq hdm (dlTarget_attempts hdlt)
            have hsame := deadLetter_other hdl
            refine ih _ _ _ h hinv1 (by rw [hsame.2.1]; exact huniq) hnd.2 ?_
            intro c hcm
            refine deadLetter_keeps hdl ?_ (hcr c hcm)
            intro heq
            exact hnd.1 (List.mem_map.mpr ⟨c, hcm, heq.symm⟩)
        · split at h
          · cases h
          · exact ih _ _ _ h hinv huniq hnd.2 hcr

/-- `pull_ok_shape` with the fact that the candidates are distinct rows -/
theorem pull_ok_shape2 {db : Db} {now : Time} {sn : String} {mx mb : Nat} {strict : Bool} {wait : Int} {obs : PullObs}
    {o : TxOut PullRes} {now' : Time} (h : pull db now sn mx mb strict wait obs = .ok (o, now')) :
    ∃ s, db.liveSubByName sn = some s ∧
      ((now' = now + wait ∧ o.db = refreshExpiry (refreshExpiry db s now) s (now + wait)) ∨
       (now' = now ∧ ∃ cands acc,
          (cands.map (·.id)).Nodup ∧
          (∀ c ∈ cands, c ∈ db.dels ∧ (refreshExpiry db s now).eligible s now c = true) ∧
          pullLoop s now mb strict obs 0 cands
            { db := refreshExpiry (refreshExpiry db s now) s now, bytes := 0, delivered := [], numDL := 0, wakes := [] } = .ok acc ∧
          o.db = { acc.db with dels := applyLeases now acc.delivered acc.db.dels })) := by
  unfold pull at h
  split at h
  · cases h
  · rename_i s hs
    refine ⟨s, hs, ?_⟩
    simp only at h
    split at h
    · cases h
    · rename_i cands hc
      split at h
      · cases h
      · rename_i hok
        split at h
        · injection h with h
          injection h with h1 h2
          left
          exact ⟨h2.symm, by rw [← h1]⟩
        · right
          split at h
          · cases h
          · rename_i o' ho
            injection h with h
            injection h with h1 h2
            subst h1
            refine ⟨h2.symm, cands, ?_⟩
            unfold pullDeliver at ho
            split at ho
            · cases ho
            · rename_i acc hacc
              injection ho with ho
              have hok' : candsOk ((refreshExpiry db s now).eligible s now)
                  ((refreshExpiry db s now).dels.filter ((refreshExpiry db s now).eligible s now)) cands mx = true := by
                simpa using hok
              unfold candsOk at hok'
              simp only [Bool.and_eq_true] at hok'
              refine ⟨acc, (nodupIds_iff _).mp hok'.1.1.1.2, ?_, hacc, by rw [← ho]⟩
              intro c hcm
              have hel := List.all_eq_true.mp hok'.1.1.2 c hcm
              obtain ⟨i, hi⟩ := lookupAll_mem _ _ _ hc c hcm
              have hm : c ∈ (refreshExpiry db s now).dels := by
                unfold Db.delById at hi
                exact List.mem_of_find?_eq_some hi
              exact ⟨hm, hel⟩

/-- **a pull keeps the ordering invariant** — on any topology, dead-letter policies included, with no
    clock assumption: the expiry refresh, the dead-lettering of the candidates whose attempts are used
    up (each a forward and a retirement, `C05_deadLetter_keeps_order`), the leases of the others (each
    eligible: on an ordered subscription its predecessor is done, and stays done while the loop runs) -/
theorem C05_pull_keeps_order {db : Db} {now : Time} {sn : String} {mx mb : Nat} {strict : Bool} {wait : Int}
    {obs : PullObs} {o : TxOut PullRes} {now' : Time}
    (h : pull db now sn mx mb strict wait obs = .ok (o, now')) (hwait : 0 ≤ wait)
    (hinv : Inv2 db now)
    (huniq : ∀ a ∈ db.subs, ∀ b ∈ db.subs, a.live = true → b.live = true → a.id = b.id → a = b) :
    Inv2 o.db now' := by
  obtain ⟨s, hs, hcase⟩ := pull_ok_shape2 h
  obtain ⟨hsm, hslive⟩ := liveSubByName_mem hs
  -- the expiry refreshes, as one rewrite of the subscriptions table
  have refresh2 : ∀ (t1 t2 : Time) (now2 : Time), now ≤ now2 →
      Inv2 (refreshExpiry (refreshExpiry db s t1) s t2) now2 := by
    intro t1 t2 now2 hn
    refine hinv.step (stepOk2_of_maps db now _ now2 id
      (fun x => (fun y => if (y.id == s.id) = true then { y with expiresAt := t2 + s.ttl } else y)
        ((fun y => if (y.id == s.id) = true then { y with expiresAt := t1 + s.ttl } else y) x))
      hn (by simp [refreshExpiry]) ?_ ?_ ?_)
    · simp only [refreshExpiry, updateWhere, List.map_map]; rfl
    · intro x _
      obtain ⟨a1, a2, a3, a4⟩ := refreshGs s t1 x
      obtain ⟨b1, b2, b3, b4⟩ := refreshGs s t2 (if (x.id == s.id) = true then { x with expiresAt := t1 + s.ttl } else x)
      exact ⟨b1.trans a1, b2.trans a2, b3.trans a3, b4.trans a4⟩
    · intro d _
      exact rowUpdOk_refl db now _ (by simp [refreshExpiry]) d
  rcases hcase with ⟨hn, hdb⟩ | ⟨hn, cands, acc, hnd, hc, hloop, hdb⟩
  · rw [hn, hdb]
    exact refresh2 now (now + wait) (now + wait) (by unfold Time at *; omega)
  · rw [hn, hdb]
    have hinv0 := refresh2 now now now (Int.le_refl _)
    have hdels0 : (refreshExpiry (refreshExpiry db s now) s now).dels = db.dels := rfl
    have hsubs0 : (refreshExpiry (refreshExpiry db s now) s now).subs = db.subs.map
        (fun x => (fun y => if (y.id == s.id) = true then { y with expiresAt := now + s.ttl } else y)
          ((fun y => if (y.id == s.id) = true then { y with expiresAt := now + s.ttl } else y) x)) := by
      simp only [refreshExpiry, updateWhere, List.map_map]; rfl
    have hgs : ∀ x : Sub, ((fun y : Sub => if (y.id == s.id) = true then { y with expiresAt := now + s.ttl } else y)
          ((fun y : Sub => if (y.id == s.id) = true then { y with expiresAt := now + s.ttl } else y) x)).id = x.id ∧
        ((fun y : Sub => if (y.id == s.id) = true then { y with expiresAt := now + s.ttl } else y)
          ((fun y : Sub => if (y.id == s.id) = true then { y with expiresAt := now + s.ttl } else y) x)).live = x.live ∧
        ((fun y : Sub => if (y.id == s.id) = true then { y with expiresAt := now + s.ttl } else y)
          ((fun y : Sub => if (y.id == s.id) = true then { y with expiresAt := now + s.ttl } else y) x)).ordered = x.ordered := by
      intro x
      obtain ⟨a1, a2, a3, _⟩ := refreshGs s now x
      obtain ⟨b1, b2, b3, _⟩ := refreshGs s now (if (x.id == s.id) = true then { x with expiresAt := now + s.ttl } else x)
      exact ⟨b1.trans a1, b2.trans a2, b3.trans a3⟩
    have huniq0 : ∀ a ∈ (refreshExpiry (refreshExpiry db s now) s now).subs, ∀ b ∈ (refreshExpiry (refreshExpiry db s now) s now).subs,
        a.live = true → b.live = true → a.id = b.id → a = b := by
      rw [hsubs0]
      intro a ha b hb hla hlb hid
      obtain ⟨a0, ha0, rfl⟩ := List.mem_map.mp ha
      obtain ⟨b0, hb0, rfl⟩ := List.mem_map.mp hb
      have := huniq a0 ha0 b0 hb0 (by rw [← (hgs a0).2.1]; exact hla) (by rw [← (hgs b0).2.1]; exact hlb)
        (by rw [← (hgs a0).1, ← (hgs b0).1]; exact hid)
      rw [this]
    have hfind : ∀ c ∈ cands, findDel (refreshExpiry (refreshExpiry db s now) s now).dels c.id = some c := by
      intro c hcm
      rw [hdels0]
      exact find?_of_nodup_mem (·.id) db.dels c hinv.uniq (hc c hcm).1
    have hinv1 := pullLoop_inv2 s now mb strict obs cands 0 _ acc hloop hinv0 huniq0 hnd hfind
    obtain ⟨hmono, hother⟩ := pullLoop_rel rowRel_mono s now mb strict obs cands 0 _ acc hloop
    have hdel := pullLoop_delivered s now mb strict obs cands 0 _ acc hloop
    obtain ⟨hkeep, _⟩ := pullLoop_keeps s now mb strict obs cands 0 _ acc hloop (by simpa using hnd)
      (fun x hx => by cases hx) hfind
    -- the leases
    refine hinv1.step (stepOk2_of_map acc.db now _ now (applyLease now acc.delivered) (Int.le_refl _)
      (by simp [applyLeases]) rfl ?_)
    intro d hd
    unfold applyLease
    split
    · rename_i c δ hfind2
      have hcm := List.mem_of_find?_eq_some hfind2
      have hcid : c.id = d.id := by simpa using List.find?_some hfind2
      have hcin : c ∈ cands := by
        rcases hdel (c, δ) hcm with h0 | h0
        · cases h0
        · exact h0
      have hcacc : c ∈ acc.db.dels := List.mem_of_find?_eq_some (hkeep (c, δ) hcm)
      have hcd : c = d := eq_of_nodup_ids hinv1.uniq hcacc hd hcid
      subst hcd
      refine rowUpdOk_lease acc.db now _ rfl c δ ?_
      intro hlo _
      right
      obtain ⟨_, hcel⟩ := hc c hcin
      unfold Db.eligible at hcel
      simp only [Bool.and_eq_true, Bool.or_eq_true, Bool.not_eq_true', beq_iff_eq] at hcel
      -- the pulled subscription is the live ordered one the row belongs to
      obtain ⟨s', hs', hid', hl', ho'⟩ := (liveOrd_iff acc.db c.subId).mp hlo
      have hs'' : s' ∈ (refreshExpiry (refreshExpiry db s now) s now).subs := by
        have := hother.2.1
        rw [this] at hs'; exact hs'
      rw [hsubs0] at hs''
      obtain ⟨s0, hs0, rfl⟩ := List.mem_map.mp hs''
      have hs0s : s0 = s := huniq s0 hs0 s hsm (by rw [← (hgs s0).2.1]; exact hl') hslive
        (by rw [← (hgs s0).1]; exact hid'.trans hcel.1.1.1)
      subst hs0s
      have hord : s0.ordered = true := by rw [← (hgs s0).2.2]; exact ho'
      rcases hcel.2 with h1 | h1
      · rw [hord] at h1; cases h1
      · have h2 : (refreshExpiry (refreshExpiry db s0 now) s0 now).predDone now c = true := by
          simpa [Db.predDone, Db.delById, refreshExpiry] using h1
        exact predDone_mono hmono now c h2
    · exact rowUpdOk_refl acc.db now _ rfl d

/-! ### a nack — dead-lettering included — keeps the ordering invariant -/

theorem perm_insertById (d : Delivery) : ∀ l : List Delivery, (insertById d l).Perm (d :: l)
  | [] => List.Perm.refl _
  | e :: r => by
    unfold insertById
    split
    · exact List.Perm.refl _
    · exact ((perm_insertById d r).cons e).trans (List.Perm.swap d e r)

theorem perm_sortById : ∀ l : List Delivery, (sortById l).Perm l
  | [] => List.Perm.refl _
  | d :: r => by
    show (insertById d (sortById r)).Perm (d :: r)
    exact (perm_insertById d (sortById r)).trans ((perm_sortById r).cons d)

/-- the loop of a nack keeps the ordering invariant: a row whose attempts are used up is dead-lettered,
    the others only get a new attempt time -/
theorem nackLoop_inv2 (now : Time) (delays : List (Id × Int)) (fwds : List (Id × List Fwd)) :
    ∀ (rows : List Delivery) (acc acc' : NackAcc),
      nackLoop now delays fwds rows acc = .ok acc' →
      Inv2 acc.db now →
      (∀ a ∈ acc.db.subs, ∀ b ∈ acc.db.subs, a.live = true → b.live = true → a.id = b.id → a = b) →
      (rows.map (·.id)).Nodup →
      (∀ c ∈ rows, findDel acc.db.dels c.id = some c) →
      Inv2 acc'.db now := by
  intro rows
  induction rows with
  | nil =>
    intro acc acc' h hinv _ _ _
    unfold nackLoop at h
    injection h with h; subst h; exact hinv
  | cons d r ih =>
    intro acc acc' h hinv huniq hnd hc
    simp only [List.map_cons, List.nodup_cons] at hnd
    have hcr : ∀ c ∈ r, findDel acc.db.dels c.id = some c := fun c hcm => hc c (List.mem_cons_of_mem _ hcm)
    have hne : ∀ c ∈ r, d.id ≠ c.id := fun c hcm heq => hnd.1 (List.mem_map.mpr ⟨c, hcm, heq.symm⟩)
    unfold nackLoop at h
    split at h
    · cases h
    · rename_i s _
      split at h
      · rename_i dlt hdlt
        split at h
        · cases h
        · rename_i db' w hdl
          have hdm : d ∈ acc.db.dels := List.mem_of_find?_eq_some (hc d (List.mem_cons_self ..))
          have hinv1 := C05_deadLetter_keeps_order hdl hinv huniq hdm (dlTarget_attempts hdlt)
          have hsame := deadLetter_other hdl
          refine ih _ _ h hinv1 (by rw [hsame.2.1]; exact huniq) hnd.2 ?_
          intro c hcm
          exact deadLetter_keeps hdl (hne c hcm) (hcr c hcm)
      · split at h
        · cases h
        · rename_i δ _
          have hok : stepOk2 acc.db now { acc.db with dels := setAttemptAt d.id (now + δ) acc.db.dels } now = true := by
            refine stepOk2_of_map acc.db now _ now (fun x => if (x.id == d.id) = true then { x with attemptAt := now + δ } else x)
              (Int.le_refl _) ?_ rfl ?_
            · simp only [setAttemptAt, updateWhere]
            · intro x _
              split
              · exact rowUpdOk_attemptAt acc.db now _ rfl x _
              · exact rowUpdOk_refl acc.db now _ rfl x
          refine ih _ _ h (hinv.step hok) huniq hnd.2 ?_
          intro c hcm
          show findDel (setAttemptAt d.id (now + δ) acc.db.dels) c.id = some c
          unfold setAttemptAt
          have hp : ∀ x : Delivery, x.id = c.id → (fun y : Delivery => y.id == d.id) x = false := by
            intro x hx
            have : x.id ≠ d.id := by rw [hx]; exact fun h0 => hne c hcm h0.symm
            simpa using this
          rw [findDel_updateWhere_ne acc.db.dels (fun y => y.id == d.id) (fun y => { y with attemptAt := now + δ }) c.id
            (fun _ => rfl) hp]
          exact hcr c hcm

/-- **a nack keeps the ordering invariant** — on any topology, with no clock assumption: of the rows it
    names, those whose attempts are used up are dead-lettered (any number of them, in one transaction,
    at one instant), the others are rescheduled -/
theorem C05_nack_keeps_order {db : Db} {now : Time} {ids : List Id} {delays : List (Id × Int)}
    {fwds : List (Id × List Fwd)} {o : TxOut (Nat × Nat)}
    (h : nack db now ids delays fwds = .ok o) (hinv : Inv2 db now)
    (huniq : ∀ a ∈ db.subs, ∀ b ∈ db.subs, a.live = true → b.live = true → a.id = b.id → a = b) :
    Inv2 o.db now := by
  unfold nack at h
  simp only at h
  split at h
  · cases h
  · rename_i acc hloop
    injection h with h; subst h
    have hperm := perm_sortById (db.dels.filter fun d => ids.contains d.id && d.isOpen now)
    refine nackLoop_inv2 now delays fwds _ _ acc hloop hinv huniq ?_ ?_
    · refine ((hperm.map (·.id)).nodup_iff).mpr ?_
      exact List.Nodup.sublist (List.Sublist.map _ List.filter_sublist) hinv.uniq
    · intro c hcm
      have hcf := (hperm.mem_iff).mp hcm
      exact find?_of_nodup_mem (·.id) db.dels c hinv.uniq (List.mem_filter.mp hcf).1

end deadletter2

/-! ### the fragment with dead-letter policies: C05 outright, equal publish times included -/

section fragment_dl
open Mmmbbb.Ord Mmmbbb.Ord2

/-- referential integrity of one delivery row: its message and its subscription are in the tables -/
def RowValid (db : Db) (x : Delivery) : Prop :=
  (db.msgById x.msgId).isSome = true ∧ ∃ s ∈ db.subs, s.id = x.subId

theorem RowValid.congr {db db' : Db} (hm : db'.msgs = db.msgs) (hs : db'.subs = db.subs) {x y : Delivery}
    (h1 : y.msgId = x.msgId) (h2 : y.subId = x.subId) (h : RowValid db x) : RowValid db' y := by
  unfold RowValid Db.msgById at *
  rw [hm, hs, h1, h2]; exact h

/-- what the per-operation theorems need of a state besides the ordering invariant: subscription ids
    are unique, every delivery row refers to a stored message and a stored subscription -/
structure WF2 (st : St) : Prop where
  inv : Inv2 st.db st.now
  uqA : ∀ a ∈ st.db.subs, ∀ b ∈ st.db.subs, a.id = b.id → a = b
  fk  : ∀ d ∈ st.db.dels, RowValid st.db d

theorem WF2.uqS {st : St} (h : WF2 st) :
    ∀ a ∈ st.db.subs, ∀ b ∈ st.db.subs, a.live = true → b.live = true → a.id = b.id → a = b :=
  fun a ha b hb _ _ hid => h.uqA a ha b hb hid

theorem WF2.init : WF2 {} := by
  refine ⟨Inv2.init 0, ?_, ?_⟩
  · intro a ha; cases ha
  · intro d hd; cases hd

/-- dead-lettering keeps referential integrity: the forwarded rows carry the (stored) message of the
    retired delivery and go to live subscriptions of the dead-letter topic -/
theorem deadLetter_fk {db : Db} {d : Delivery} {dlt : Id} {now : Time} {fwds : List Fwd} {db' : Db} {w : List Id}
    (h : deadLetter db d dlt now fwds = .ok (db', w)) (hfk : ∀ x ∈ db.dels, RowValid db x) :
    ∀ x ∈ db'.dels, RowValid db' x := by
  unfold deadLetter at h
  split at h
  · cases h
  · rename_i db1 w1 hf
    have h1 : db1.msgs = db.msgs ∧ db1.subs = db.subs ∧ ∀ x ∈ db1.dels, RowValid db1 x := by
      unfold dlForward at hf
      split at hf
      · split at hf
        · injection hf with hf; injection hf with e1 _; subst e1; exact ⟨rfl, rfl, hfk⟩
        · cases hf
      · rename_i t _
        split at hf
        · split at hf
          · injection hf with hf; injection hf with e1 _; subst e1; exact ⟨rfl, rfl, hfk⟩
          · cases hf
        · split at hf
          · cases hf
          · rename_i m hm
            obtain ⟨rows, hrows, e1, _⟩ := deliverAll_shape hf
            obtain ⟨_, _, hall⟩ := mkRows_spec db (db.liveSubsOf t.id) m now fwds rows hrows
            have hmid : m.id = d.msgId := by
              unfold Db.msgById at hm
              simpa using List.find?_some hm
            subst e1
            refine ⟨rfl, rfl, ?_⟩
            intro x hx
            rcases List.mem_append.mp hx with hx | hx
            · exact (hfk x hx).congr rfl rfl rfl rfl
            · obtain ⟨s, f, hs, _, _, rfl⟩ := hall x hx
              refine ⟨?_, s, (liveSubsOf_mem hs).1, rfl⟩
              show (db.msgById m.id).isSome = true
              rw [hmid, hm]; rfl
    obtain ⟨hm1, hs1, hfk1⟩ := h1
    split at h
    · cases h
    · injection h with h
      injection h with e2 _
      subst e2
      intro x hx
      simp only [markCompleted, updateWhere] at hx
      obtain ⟨x0, hx0, rfl⟩ := List.mem_map.mp hx
      refine (hfk1 x0 hx0).congr rfl rfl ?_ ?_ <;> (split <;> rfl)

/-- the three loops that dead-letter keep every property of the tables that dead-lettering keeps -/
theorem pullLoop_pres (P : Db → Prop) (s : Sub) (now : Time) (maxBytes : Nat) (strict : Bool) (obs : PullObs)
    (hDL : ∀ {db : Db} {d : Delivery} {dlt : Id} {fwds : List Fwd} {db' : Db} {w : List Id},
      deadLetter db d dlt now fwds = .ok (db', w) → P db → P db') :
    ∀ (cands : List Delivery) (i : Nat) (acc acc' : PullAcc),
      pullLoop s now maxBytes strict obs i cands acc = .ok acc' → P acc.db → P acc'.db := by
  intro cands
  induction cands with
  | nil =>
    intro i acc acc' h hp
    unfold pullLoop at h
    injection h with h; subst h; exact hp
  | cons d r ih =>
    intro i acc acc' h hp
    unfold pullLoop at h
    split at h
    · cases h
    · split at h
      · exact ih _ _ _ h hp
      · split at h
        · split at h
          · cases h
          · rename_i db' w hdl
            exact ih _ _ _ h (hDL hdl hp)
        · split at h
          · cases h
          · exact ih _ _ _ h hp

theorem nackLoop_pres (P : Db → Prop) (now : Time) (delays : List (Id × Int)) (fwds : List (Id × List Fwd))
    (hDL : ∀ {db : Db} {d : Delivery} {dlt : Id} {fw : List Fwd} {db' : Db} {w : List Id},
      deadLetter db d dlt now fw = .ok (db', w) → P db → P db')
    (hAt : ∀ (db : Db) (i : Id) (t : Time), P db → P { db with dels := setAttemptAt i t db.dels }) :
    ∀ (rows : List Delivery) (acc acc' : NackAcc),
      nackLoop now delays fwds rows acc = .ok acc' → P acc.db → P acc'.db := by
  intro rows
  induction rows with
  | nil =>
    intro acc acc' h hp
    unfold nackLoop at h
    injection h with h; subst h; exact hp
  | cons d r ih =>
    intro acc acc' h hp
    unfold nackLoop at h
    split at h
    · cases h
    · split at h
      · split at h
        · cases h
        · rename_i db' w hdl
          exact ih _ _ h (hDL hdl hp)
      · split at h
        · cases h
        · exact ih _ _ h (hAt acc.db _ _ hp)

theorem sweepLoop_pres (P : Db → Prop) (now : Time) (fwds : List (Id × List Fwd))
    (hDL : ∀ {db : Db} {d : Delivery} {dlt : Id} {fw : List Fwd} {db' : Db} {w : List Id},
      deadLetter db d dlt now fw = .ok (db', w) → P db → P db') :
    ∀ (rows : List Delivery) (db : Db) (wakes : List Id) (db' : Db) (w : List Id),
      sweepLoop now fwds rows db wakes = .ok (db', w) → P db → P db' := by
  intro rows
  induction rows with
  | nil =>
    intro db wakes db' w h hp
    unfold sweepLoop at h
    injection h with h; injection h with e1 _; subst e1; exact hp
  | cons d r ih =>
    intro db wakes db' w h hp
    unfold sweepLoop at h
    split at h
    · cases h
    · split at h
      · cases h
      · rename_i db1 w1 hdl
        exact ih _ _ _ _ h (hDL hdl hp)

/-- the tables a dead-lettering leaves alone, and referential integrity, as one property of a state -/
def Struct (subs : List Sub) (msgs : List Msg) (db : Db) : Prop :=
  db.subs = subs ∧ db.msgs = msgs ∧ ∀ x ∈ db.dels, RowValid db x

theorem struct_deadLetter {subs : List Sub} {msgs : List Msg} {now : Time} {db : Db} {d : Delivery} {dlt : Id}
    {fw : List Fwd} {db' : Db} {w : List Id} (h : deadLetter db d dlt now fw = .ok (db', w))
    (hp : Struct subs msgs db) : Struct subs msgs db' := by
  have hsame := deadLetter_other h
  exact ⟨hsame.2.1.trans hp.1, hsame.2.2.1.trans hp.2.1, deadLetter_fk h hp.2.2⟩

/-- a step that leaves deliveries, subscriptions and messages alone -/
theorem stepOk2_of_same (db : Db) (now : Time) (db' : Db) (now' : Time) (hnow : now ≤ now')
    (hd : db'.dels = db.dels) (hs : db'.subs = db.subs) (hm : db'.msgs = db.msgs) :
    stepOk2 db now db' now' = true := by
  refine stepOk2_of_append db now db' now' [] hnow (by rw [hd]; simp) hs ?_ rfl
  intro d _
  unfold keyOf Db.msgById; rw [hm]

theorem WF2.of_tables {st st' : St} (h : WF2 st) (hd : st'.db.dels = st.db.dels) (hs : st'.db.subs = st.db.subs)
    (hm : st'.db.msgs = st.db.msgs) (hnow : st.now ≤ st'.now) : WF2 st' := by
  refine ⟨h.inv.step (stepOk2_of_same st.db st.now st'.db st'.now hnow hd hs hm), ?_, ?_⟩
  · rw [hs]; exact h.uqA
  · rw [hd]; intro d hdm; exact (h.fk d hdm).congr hm hs rfl rfl

theorem WF2.step_advance {st : St} (h : WF2 st) (d : Int) (hd : 0 ≤ d) : WF2 (Mmmbbb.step st (.advance d)).1 := by
  refine h.of_tables rfl rfl rfl ?_
  show st.now ≤ st.now + d
  unfold Time at *; omega

theorem WF2.step_createTopic {st : St} (h : WF2 st) (n : String) (l : StrMap) (i : Id) :
    WF2 (Mmmbbb.step st (.createTopic n l i)).1 := by
  simp only [Mmmbbb.step]
  cases hc : createTopic st.db st.now n l i with
  | error e => simp only [finish]; exact h
  | ok o =>
    simp only [finish]
    unfold createTopic at hc
    split at hc
    · cases hc
    · split at hc
      · cases hc
      · injection hc with hc; subst hc
        exact h.of_tables rfl rfl rfl (Int.le_refl _)

/-- a step that rewrites delivery rows in place (identity, message and subscription kept) -/
theorem WF2.of_dels_map {st st' : St} (h : WF2 st) (g : Delivery → Delivery)
    (hd : st'.db.dels = st.db.dels.map g) (hs : st'.db.subs = st.db.subs) (hm : st'.db.msgs = st.db.msgs)
    (hg : ∀ d, (g d).msgId = d.msgId ∧ (g d).subId = d.subId)
    (hok : stepOk2 st.db st.now st'.db st'.now = true) : WF2 st' := by
  refine ⟨h.inv.step hok, ?_, ?_⟩
  · rw [hs]; exact h.uqA
  · rw [hd]; intro d hdm
    obtain ⟨d0, hd0, rfl⟩ := List.mem_map.mp hdm
    exact (h.fk d0 hd0).congr hm hs (hg d0).1 (hg d0).2

theorem WF2.step_ack {st : St} (h : WF2 st) (ids : List Id)
    (hdel : ∀ d ∈ st.db.dels, ids.contains d.id = true → 0 < d.attempts) : WF2 (Mmmbbb.step st (.ack ids)).1 := by
  refine h.of_dels_map (fun x => if (ids.contains x.id && x.completedAt.isNone) = true then { x with completedAt := some st.now } else x)
    ?_ ?_ ?_ ?_ ?_
  · simp only [Mmmbbb.step, Mmmbbb.ack, finish, updateWhere]
  · simp only [Mmmbbb.step, Mmmbbb.ack, finish]
  · simp only [Mmmbbb.step, Mmmbbb.ack, finish]
  · intro d; split <;> exact ⟨rfl, rfl⟩
  · simp only [Mmmbbb.step, Mmmbbb.ack, finish]
    refine stepOk2_of_map st.db st.now _ st.now
      (fun x => if (ids.contains x.id && x.completedAt.isNone) = true then { x with completedAt := some st.now } else x)
      (Int.le_refl _) (by simp only [updateWhere]) rfl ?_
    intro d hd
    split
    · rename_i hc
      simp only [Bool.and_eq_true] at hc
      exact rowUpdOk_complete st.db st.now _ rfl d _ (hdel d hd hc.1)
    · exact rowUpdOk_refl st.db st.now _ rfl d

theorem WF2.step_delay {st : St} (h : WF2 st) (ids : List Id) (Δ : Int) : WF2 (Mmmbbb.step st (.delay ids Δ)).1 := by
  simp only [Mmmbbb.step]
  unfold delay
  simp only
  split
  · simp only [finish]
    refine h.of_dels_map (fun x => if (ids.contains x.id && x.completedAt.isNone) = true then { x with attemptAt := st.now + Δ } else x)
      (by simp only [updateWhere]) rfl rfl (fun d => by split <;> exact ⟨rfl, rfl⟩) ?_
    refine stepOk2_of_map st.db st.now _ st.now
      (fun x => if (ids.contains x.id && x.completedAt.isNone) = true then { x with attemptAt := st.now + Δ } else x)
      (Int.le_refl _) (by simp only [updateWhere]) rfl ?_
    intro d _
    split
    · exact rowUpdOk_attemptAt st.db st.now _ rfl d _
    · exact rowUpdOk_refl st.db st.now _ rfl d
  · simp only [finish]
    refine h.of_dels_map (fun x => if ((ids.contains x.id && x.completedAt.isNone) && decide (x.attemptAt < st.now + Δ)) = true
        then { x with attemptAt := st.now + Δ } else x)
      (by simp only [updateWhere]) rfl rfl (fun d => by split <;> exact ⟨rfl, rfl⟩) ?_
    refine stepOk2_of_map st.db st.now _ st.now
      (fun x => if ((ids.contains x.id && x.completedAt.isNone) && decide (x.attemptAt < st.now + Δ)) = true
        then { x with attemptAt := st.now + Δ } else x)
      (Int.le_refl _) (by simp only [updateWhere]) rfl ?_
    intro d _
    split
    · exact rowUpdOk_attemptAt st.db st.now _ rfl d _
    · exact rowUpdOk_refl st.db st.now _ rfl d

theorem struct_setAttemptAt {subs : List Sub} {msgs : List Msg} (db : Db) (i : Id) (t : Time)
    (hp : Struct subs msgs db) : Struct subs msgs { db with dels := setAttemptAt i t db.dels } := by
  refine ⟨hp.1, hp.2.1, ?_⟩
  intro x hx
  simp only [setAttemptAt, updateWhere] at hx
  obtain ⟨x0, hx0, rfl⟩ := List.mem_map.mp hx
  refine (hp.2.2 x0 hx0).congr rfl rfl ?_ ?_ <;> (split <;> rfl)

theorem WF2.step_dlSweep {st : St} (h : WF2 st) (mx : Nat) (v : List Id) (fw : List (Id × List Fwd)) :
    WF2 (Mmmbbb.step st (.dlSweep mx v fw)).1 := by
  simp only [Mmmbbb.step]
  cases hc : dlSweep st.db st.now mx v fw with
  | error e => simp only [finish]; exact h
  | ok o =>
    simp only [finish]
    have hinv := C05_sweep_keeps_order hc h.inv h.uqS
    have hstruct : Struct st.db.subs st.db.msgs o.db := by
      unfold dlSweep at hc
      split at hc
      · cases hc
      · split at hc
        · cases hc
        · split at hc
          · cases hc
          · rename_i db1 wakes hloop
            injection hc with hc; subst hc
            exact sweepLoop_pres (Struct st.db.subs st.db.msgs) st.now fw (fun hdl hp => struct_deadLetter hdl hp)
              _ st.db [] db1 wakes hloop ⟨rfl, rfl, h.fk⟩
    exact ⟨hinv, by rw [hstruct.1]; exact h.uqA, hstruct.2.2⟩

theorem WF2.step_nack {st : St} (h : WF2 st) (ids : List Id) (ds : List (Id × Int)) (fw : List (Id × List Fwd)) :
    WF2 (Mmmbbb.step st (.nack ids ds fw)).1 := by
  simp only [Mmmbbb.step]
  cases hc : nack st.db st.now ids ds fw with
  | error e => simp only [finish]; exact h
  | ok o =>
    simp only [finish]
    have hinv := C05_nack_keeps_order hc h.inv h.uqS
    have hstruct : Struct st.db.subs st.db.msgs o.db := by
      unfold nack at hc
      simp only at hc
      split at hc
      · cases hc
      · rename_i acc hloop
        injection hc with hc; subst hc
        exact nackLoop_pres (Struct st.db.subs st.db.msgs) st.now ds fw (fun hdl hp => struct_deadLetter hdl hp)
          (fun db i t hp => struct_setAttemptAt db i t hp) _ _ acc hloop ⟨rfl, rfl, h.fk⟩
    exact ⟨hinv, by rw [hstruct.1]; exact h.uqA, hstruct.2.2⟩

/-- rewriting subscriptions in place (identities kept) keeps referential integrity and unique ids -/
theorem fk_subs_map {db db' : Db} (gs : Sub → Sub) (hd : db'.dels = db.dels) (hm : db'.msgs = db.msgs)
    (hs : db'.subs = db.subs.map gs) (hgs : ∀ x, (gs x).id = x.id)
    (hfk : ∀ x ∈ db.dels, RowValid db x) : ∀ x ∈ db'.dels, RowValid db' x := by
  rw [hd]
  intro x hx
  obtain ⟨h1, s0, hs0, hid⟩ := hfk x hx
  refine ⟨?_, gs s0, ?_, by rw [hgs]; exact hid⟩
  · unfold Db.msgById at *; rw [hm]; exact h1
  · rw [hs]; exact List.mem_map.mpr ⟨s0, hs0, rfl⟩

theorem uqA_subs_map {subs : List Sub} (gs : Sub → Sub) (hgs : ∀ x, (gs x).id = x.id)
    (h : ∀ a ∈ subs, ∀ b ∈ subs, a.id = b.id → a = b) :
    ∀ a ∈ subs.map gs, ∀ b ∈ subs.map gs, a.id = b.id → a = b := by
  intro a ha b hb hid
  obtain ⟨a0, ha0, rfl⟩ := List.mem_map.mp ha
  obtain ⟨b0, hb0, rfl⟩ := List.mem_map.mp hb
  rw [h a0 ha0 b0 hb0 (by rw [← hgs a0, ← hgs b0]; exact hid)]

theorem WF2.step_pull {st : St} (h : WF2 st) (sn : String) (mx mb : Nat) (strict : Bool) (wait : Int) (obs : PullObs)
    (hwait : 0 ≤ wait) : WF2 (Mmmbbb.step st (.pull sn mx mb strict wait obs)).1 := by
  simp only [Mmmbbb.step]
  cases hp : pull st.db st.now sn mx mb strict wait obs with
  | error e => exact h
  | ok r =>
    obtain ⟨o, now'⟩ := r
    simp only
    have hinv := C05_pull_keeps_order hp hwait h.inv h.uqS
    obtain ⟨s, hs, hcase⟩ := pull_ok_shape2 hp
    -- the two expiry refreshes as one rewrite of the subscriptions table
    have hsubs2 : ∀ t1 t2 : Time, (refreshExpiry (refreshExpiry st.db s t1) s t2).subs = st.db.subs.map
        (fun x => (fun y => if (y.id == s.id) = true then { y with expiresAt := t2 + s.ttl } else y)
          ((fun y => if (y.id == s.id) = true then { y with expiresAt := t1 + s.ttl } else y) x)) := by
      intro t1 t2
      simp only [refreshExpiry, updateWhere, List.map_map]; rfl
    have hgs2 : ∀ (t1 t2 : Time) (x : Sub), ((fun y : Sub => if (y.id == s.id) = true then { y with expiresAt := t2 + s.ttl } else y)
          ((fun y : Sub => if (y.id == s.id) = true then { y with expiresAt := t1 + s.ttl } else y) x)).id = x.id := by
      intro t1 t2 x
      exact ((refreshGs s t2 _).1).trans (refreshGs s t1 x).1
    have hfkR : ∀ t1 t2 : Time, ∀ x ∈ (refreshExpiry (refreshExpiry st.db s t1) s t2).dels,
        RowValid (refreshExpiry (refreshExpiry st.db s t1) s t2) x :=
      fun t1 t2 => fk_subs_map (db := st.db) (db' := refreshExpiry (refreshExpiry st.db s t1) s t2) _ rfl rfl
        (hsubs2 t1 t2) (hgs2 t1 t2) h.fk
    rcases hcase with ⟨_, hdb⟩ | ⟨_, cands, acc, _, _, hloop, hdb⟩
    · refine ⟨hinv, ?_, ?_⟩
      · show ∀ a ∈ o.db.subs, ∀ b ∈ o.db.subs, a.id = b.id → a = b
        rw [hdb, hsubs2]
        exact uqA_subs_map _ (hgs2 _ _) h.uqA
      · show ∀ d ∈ o.db.dels, RowValid o.db d
        rw [hdb]
        exact hfkR _ _
    · have hfk0 := hfkR st.now st.now
      have hstruct := pullLoop_pres (Struct (refreshExpiry (refreshExpiry st.db s st.now) s st.now).subs
          (refreshExpiry (refreshExpiry st.db s st.now) s st.now).msgs) s st.now mb strict obs
        (fun hdl hp => struct_deadLetter hdl hp) cands 0 _ acc hloop ⟨rfl, rfl, hfk0⟩
      refine ⟨hinv, ?_, ?_⟩
      · show ∀ a ∈ o.db.subs, ∀ b ∈ o.db.subs, a.id = b.id → a = b
        rw [hdb]
        show ∀ a ∈ acc.db.subs, ∀ b ∈ acc.db.subs, a.id = b.id → a = b
        rw [hstruct.1, hsubs2]
        exact uqA_subs_map _ (hgs2 _ _) h.uqA
      · show ∀ d ∈ o.db.dels, RowValid o.db d
        rw [hdb]
        intro d hd
        have hd' : d ∈ applyLeases st.now acc.delivered acc.db.dels := hd
        unfold applyLeases at hd'
        obtain ⟨d0, hd0, rfl⟩ := List.mem_map.mp hd'
        have hf := applyLease_fields st.now acc.delivered d0
        exact (hstruct.2.2 d0 hd0).congr rfl rfl hf.2.1 hf.2.2.1

theorem WF2.step_createSub {st : St} (h : WF2 st) (p : CreateSubParams) (i : Id) :
    WF2 (Mmmbbb.step st (.createSub p i)).1 := by
  simp only [Mmmbbb.step]
  cases hc : Mmmbbb.createSub st.db st.now p i with
  | error e => simp only [finish]; exact h
  | ok o =>
    simp only [finish]
    obtain ⟨t, dlId, _, _, _, hfresh, hdb, _⟩ := createSub_ok hc
    have hold : ∀ s ∈ st.db.subs, s.id ≠ i := by
      intro s hs heq
      have := allIds_of_sub st.db s hs
      rw [heq, hfresh] at this; cases this
    have hnew : ∀ d ∈ st.db.dels, d.subId ≠ i := by
      intro d hd heq
      obtain ⟨_, s0, hs0, hid⟩ := h.fk d hd
      exact hold s0 hs0 (hid.trans heq)
    have hok : stepOk2 st.db st.now o.db st.now = true := by
      unfold stepOk2
      simp only [Bool.and_eq_true, decide_eq_true_eq, Bool.or_eq_true]
      refine ⟨⟨Int.le_refl _, ?_⟩, Or.inl ?_⟩
      · unfold subsOk
        rw [hdb]
        apply List.all_eq_true.mpr
        intro s' hs'
        simp only [List.mem_append, List.mem_singleton] at hs'
        rcases hs' with hs' | hs'
        · cases hl : s'.live with
          | false => simp
          | true =>
            simp only [Bool.not_true, Bool.false_or, Bool.or_eq_true, List.any_eq_true, Bool.and_eq_true, beq_iff_eq]
            left
            exact ⟨s', hs', ⟨⟨⟨hl, rfl⟩, rfl⟩, rfl⟩⟩
        · subst hs'
          simp only [Bool.or_eq_true]
          right
          apply List.all_eq_true.mpr
          intro d hd
          simpa [mkSub] using hnew d hd
      · unfold growOk2
        rw [hdb]
        simp only [List.take_length, List.drop_length, Bool.and_eq_true]
        exact ⟨rowsUpdOk_refl st.db st.now { st.db with subs := st.db.subs ++ [mkSub st.now p i t.id dlId] } rfl st.db.dels, rfl⟩
    refine ⟨h.inv.step hok, ?_, ?_⟩
    · rw [hdb]; intro a ha b hb hid
      simp only [List.mem_append, List.mem_singleton] at ha hb
      rcases ha with ha | ha <;> rcases hb with hb | hb
      · exact h.uqA a ha b hb hid
      · subst hb; exact absurd hid (by simpa [mkSub] using hold a ha)
      · subst ha; exact absurd hid.symm (by simpa [mkSub] using hold b hb)
      · rw [ha, hb]
    · rw [hdb]; intro d hd
      obtain ⟨h1, s0, hs0, hid⟩ := h.fk d hd
      exact ⟨h1, s0, List.mem_append_left _ hs0, hid⟩

/-- publishing one message keeps the invariants of the fragment, at the instant it happens -/
theorem WF2.publishOne {db db1 : Db} {t : Topic} {now : Time} {pm : PubMsg} {w : List Id}
    (h : WF2 { db := db, now := now }) (h1 : publishOne db t now pm = .ok (db1, w)) :
    WF2 { db := db1, now := now } := by
  have hok := C05_refines2_publish_one db db1 t now pm w h1 (fun d hd => (h.fk d hd).1) h.uqS h.inv.uniq h.inv.past
  obtain ⟨m, dbm, hmid, hdbm, hfreshm, hdel⟩ := publishOne_shape h1
  obtain ⟨rows, hrows, hdb1, _⟩ := deliverAll_shape hdel
  obtain ⟨_, _, hall⟩ := mkRows_spec dbm (dbm.liveSubsOf t.id) m now pm.fwds rows hrows
  have hsubs : db1.subs = db.subs := by rw [hdb1, hdbm]
  have hmsgs : db1.msgs = db.msgs ++ [m] := by rw [hdb1, hdbm]
  have hmsg : (db1.msgById m.id).isSome = true := by
    unfold Db.msgById
    rw [hmsgs, List.find?_append]
    cases hfind : db.msgs.find? (fun x => x.id == m.id) with
    | some _ => rfl
    | none => simp
  refine ⟨h.inv.step hok, by rw [hsubs]; exact h.uqA, ?_⟩
  intro d hd
  rw [hdb1] at hd
  have hd' : d ∈ dbm.dels ++ rows := hd
  rw [hdbm] at hd'
  rcases List.mem_append.mp hd' with hd' | hd'
  · obtain ⟨h1', s0, hs0, hid⟩ := h.fk d hd'
    refine ⟨?_, s0, by rw [hsubs]; exact hs0, hid⟩
    cases hx : db.msgById d.msgId with
    | none => rw [hx] at h1'; cases h1'
    | some x =>
      have := msgById_append_of_some (m := m) hx
      unfold Db.msgById at this ⊢
      rw [hmsgs]; rw [this]; rfl
  · obtain ⟨s, f, hs, _, _, rfl⟩ := hall d hd'
    refine ⟨hmsg, s, ?_, rfl⟩
    rw [hsubs]
    have := (liveSubsOf_mem hs).1
    rw [hdbm] at this; exact this

theorem WF2.publishLoop (t : Topic) (tick : Int) (htick : 0 ≤ tick) :
    ∀ (ms : List PubMsg) (db : Db) (now : Time) (wakes : List Id) (db' : Db) (w' : List Id),
      WF2 { db := db, now := now } →
      Mmmbbb.publishLoop t tick db now wakes ms = .ok (db', w') →
      WF2 { db := db', now := now + tick * (ms.length : Nat) } := by
  intro ms
  induction ms with
  | nil =>
    intro db now wakes db' w' h hl
    unfold Mmmbbb.publishLoop at hl
    injection hl with hl; injection hl with h1 _; subst h1
    have : now + tick * ((([] : List PubMsg).length : Nat) : Int) = now := by simp
    rw [this]; exact h
  | cons pm r ih =>
    intro db now wakes db' w' h hl
    unfold Mmmbbb.publishLoop at hl
    split at hl
    · cases hl
    · rename_i db1 w h1
      have hstep := h.publishOne h1
      have hlater : WF2 { db := db1, now := now + tick } :=
        hstep.of_tables rfl rfl rfl (by show now ≤ now + tick; unfold Time at *; omega)
      have := ih db1 (now + tick) (wakes ++ w) db' w' hlater hl
      have hlen : now + tick + tick * ((r.length : Nat) : Int) = now + tick * (((pm :: r).length : Nat) : Int) := by
        simp only [List.length_cons]
        have : ((r.length + 1 : Nat) : Int) = (r.length : Int) + 1 := by omega
        rw [this, Int.mul_add, Int.mul_one]
        unfold Time at *
        omega
      rw [hlen] at this; exact this

theorem WF2.step_publish {st : St} (h : WF2 st) (tn : String) (tick : Int) (ms : List PubMsg) (htick : 0 ≤ tick) :
    WF2 (Mmmbbb.step st (.publish tn tick ms)).1 := by
  simp only [Mmmbbb.step]
  cases hp : publish st.db st.now tn tick ms with
  | error e => exact h
  | ok o =>
    simp only
    unfold publish at hp
    split at hp
    · cases hp
    · rename_i t ht
      split at hp
      · cases hp
      · rename_i db' wakes hl
        injection hp with hp; subst hp
        exact WF2.publishLoop t tick htick ms st.db st.now [] db' wakes h hl

/-! #### the remaining operations: deletions, expiry, snapshots, the delay injector and the prune jobs -/

/-- an operation that commits a result leaving deliveries, subscriptions and messages alone -/
theorem WF2.finish_same {α} {st : St} (h : WF2 st) (r : Except Err (TxOut α)) (render : α → String)
    (hsame : ∀ o, r = .ok o → o.db.dels = st.db.dels ∧ o.db.subs = st.db.subs ∧ o.db.msgs = st.db.msgs) :
    WF2 (finish st r render).1 := by
  cases r with
  | error e => exact h
  | ok o =>
    obtain ⟨h1, h2, h3⟩ := hsame o rfl
    simp only [finish]
    exact h.of_tables h1 h2 h3 (Int.le_refl _)

theorem WF2.step_deleteTopic {st : St} (h : WF2 st) (n : String) : WF2 (Mmmbbb.step st (.deleteTopic n)).1 := by
  simp only [Mmmbbb.step]
  apply h.finish_same
  intro o ho
  unfold deleteTopic at ho
  simp only at ho
  split at ho
  · cases ho
  · injection ho with ho; subst ho; exact ⟨rfl, rfl, rfl⟩

theorem WF2.step_deleteSnap {st : St} (h : WF2 st) (n : String) : WF2 (Mmmbbb.step st (.deleteSnap n)).1 := by
  simp only [Mmmbbb.step]
  apply h.finish_same
  intro o ho
  unfold deleteSnapshot at ho
  split at ho
  · cases ho
  · injection ho with ho; subst ho; exact ⟨rfl, rfl, rfl⟩

theorem WF2.step_snapshot {st : St} (h : WF2 st) (n s : String) (l : StrMap) (i : Id) :
    WF2 (Mmmbbb.step st (.snapshot n s l i)).1 := by
  simp only [Mmmbbb.step]
  apply h.finish_same
  intro o ho
  exact ⟨createSnapshot_dels ho, by
    unfold createSnapshot at ho
    split at ho
    · cases ho
    · split at ho
      · cases ho
      · split at ho
        · cases ho
        · injection ho with ho; subst ho; exact ⟨rfl, rfl⟩⟩

/-- a step that only rewrites subscriptions: identity kept; whatever is live afterwards was live before
    with the same ordering flag and retention -/
theorem WF2.of_subs_kill {st st' : St} (h : WF2 st) (gs : Sub → Sub)
    (hd : st'.db.dels = st.db.dels) (hs : st'.db.subs = st.db.subs.map gs) (hm : st'.db.msgs = st.db.msgs)
    (hnow : st'.now = st.now)
    (hgs : ∀ s, (gs s).id = s.id ∧
      ((gs s).live = true → s.live = true ∧ (gs s).ordered = s.ordered ∧ (gs s).messageTtl = s.messageTtl)) :
    WF2 st' := by
  have hok : stepOk2 st.db st.now st'.db st'.now = true := by
    unfold stepOk2
    simp only [Bool.and_eq_true, decide_eq_true_eq, Bool.or_eq_true]
    refine ⟨⟨by rw [hnow]; exact Int.le_refl _, subsOk_of_kill st.db st'.db gs hs (fun s _ => hgs s)⟩, Or.inl ?_⟩
    unfold growOk2
    rw [hd]
    simp only [List.take_length, List.drop_length, Bool.and_eq_true]
    exact ⟨rowsUpdOk_refl st.db st.now st'.db hm st.db.dels, rfl⟩
  refine ⟨h.inv.step hok, ?_, fk_subs_map gs hd hm hs (fun x => (hgs x).1) h.fk⟩
  rw [hs]; exact uqA_subs_map gs (fun x => (hgs x).1) h.uqA

theorem kill_fields2 (p : Sub → Bool) (now : Time) (s : Sub) :
    (if p s = true then { s with deletedAt := some now } else s).id = s.id ∧
    ((if p s = true then { s with deletedAt := some now } else s).live = true →
      s.live = true ∧ (if p s = true then { s with deletedAt := some now } else s).ordered = s.ordered ∧
      (if p s = true then { s with deletedAt := some now } else s).messageTtl = s.messageTtl) := by
  obtain ⟨a, _, c⟩ := kill_fields p now s
  exact ⟨a, c⟩

theorem WF2.step_deleteSub {st : St} (h : WF2 st) (n : String) : WF2 (Mmmbbb.step st (.deleteSub n)).1 := by
  simp only [Mmmbbb.step]
  cases hc : deleteSub st.db st.now n with
  | error e => simp only [finish]; exact h
  | ok o =>
    simp only [finish]
    unfold deleteSub at hc
    simp only at hc
    split at hc
    · cases hc
    · injection hc with hc; subst hc
      exact h.of_subs_kill (fun s => if (s.name == n && s.live) = true then { s with deletedAt := some st.now } else s)
        rfl rfl rfl rfl (fun s => kill_fields2 (fun s => s.name == n && s.live) st.now s)

theorem WF2.step_expireSubs {st : St} (h : WF2 st) (mx : Nat) (v : List Id) : WF2 (Mmmbbb.step st (.expireSubs mx v)).1 := by
  simp only [Mmmbbb.step]
  cases hc : expireSubs st.db st.now mx v with
  | error e => simp only [finish]; exact h
  | ok o =>
    simp only [finish]
    unfold expireSubs at hc
    simp only at hc
    split at hc
    · cases hc
    · injection hc with hc; subst hc
      exact h.of_subs_kill (fun s => if (v.contains s.id) = true then { s with deletedAt := some st.now } else s)
        rfl rfl rfl rfl (fun s => kill_fields2 (fun s => v.contains s.id) st.now s)

theorem WF2.step_setDelay {st : St} (h : WF2 st) (n : String) (dl : Int) : WF2 (Mmmbbb.step st (.setDelay n dl)).1 := by
  simp only [Mmmbbb.step]
  cases hc : setDelay st.db n dl with
  | error e => simp only [finish]; exact h
  | ok o =>
    simp only [finish]
    unfold setDelay at hc
    simp only at hc
    split at hc
    · cases hc
    · injection hc with hc; subst hc
      refine h.of_subs_kill (fun s => if (s.name == n && s.live) = true then { s with deliveryDelay := dl } else s)
        rfl rfl rfl rfl (fun s => ?_)
      by_cases hp : (s.name == n && s.live) = true
      · rw [if_pos hp]; exact ⟨rfl, fun hl => ⟨hl, rfl, rfl⟩⟩
      · rw [if_neg hp]; exact ⟨rfl, fun hl => ⟨hl, rfl, rfl⟩⟩

theorem WF2.step_pruneDeletedTopics {st : St} (h : WF2 st) (a : Int) (mx : Nat) (v : List Id) :
    WF2 (Mmmbbb.step st (.pruneDeletedTopics a mx v)).1 := by
  simp only [Mmmbbb.step]
  unfold pruneDeletedTopics
  simp only
  split
  · simp only [finish]; exact h
  · split
    · simp only [finish]; exact h
    · simp only [finish]
      refine h.of_subs_kill (fun s => match s.dlTopicId with
          | some d => if v.contains d = true then { s with dlTopicId := none } else s
          | none => s) rfl rfl rfl rfl (fun s => ?_)
      split
      · rename_i t hdl
        by_cases hc : v.contains t = true
        · rw [if_pos hc]; exact ⟨rfl, fun hl => ⟨hl, rfl, rfl⟩⟩
        · rw [if_neg hc]; exact ⟨rfl, fun hl => ⟨hl, rfl, rfl⟩⟩
      · exact ⟨rfl, fun hl => ⟨hl, rfl, rfl⟩⟩

theorem WF2.step_pruneCompletedMessages {st : St} (h : WF2 st) (a : Int) (mx : Nat) (v : List Id) :
    WF2 (Mmmbbb.step st (.pruneCompletedMessages a mx v)).1 := by
  simp only [Mmmbbb.step]
  unfold pruneCompletedMessages
  simp only
  split
  · simp only [finish]; exact h
  · rename_i hlim
    simp only [finish]
    have hlim' := by simpa using hlim
    have hv := limitOk_victims hlim'
    -- no delivery refers to a removed message
    have hkeep : ∀ d ∈ st.db.dels, ∀ m ∈ st.db.msgs, m.id = d.msgId → (!v.contains m.id) = true := by
      intro d hd m _ hid
      cases hc : v.contains m.id with
      | false => rfl
      | true =>
        exfalso
        obtain ⟨r, hr, hp⟩ := hv m.id (List.contains_iff_mem.mp hc)
        obtain ⟨_, hrid⟩ := msgById_mem hr
        simp only [Bool.and_eq_true, Bool.not_eq_true', decide_eq_true_eq] at hp
        have := hp.2
        rw [List.any_eq_false] at this
        exact this d hd (by simp [hrid, hid])
    have hmsg : ∀ d ∈ st.db.dels,
        ({ st.db with msgs := st.db.msgs.filter fun m => !v.contains m.id } : Db).msgById d.msgId = st.db.msgById d.msgId := by
      intro d hd
      unfold Db.msgById
      exact find?_filter_keep st.db.msgs _ _ (fun m hm hq => hkeep d hd m hm (by simpa using hq))
    have hk : ∀ d ∈ st.db.dels, keyOf ({ st.db with msgs := st.db.msgs.filter fun m => !v.contains m.id } : Db) d = keyOf st.db d := by
      intro d hd
      unfold keyOf
      rw [hmsg d hd]
    have hok : stepOk2 st.db st.now ({ st.db with msgs := st.db.msgs.filter fun m => !v.contains m.id } : Db) st.now = true :=
      stepOk2_of_append st.db st.now _ st.now [] (Int.le_refl _) (List.append_nil _).symm rfl hk rfl
    refine ⟨h.inv.step hok, h.uqA, ?_⟩
    intro d hd
    obtain ⟨h1, h2⟩ := h.fk d hd
    exact ⟨by rw [hmsg d hd]; exact h1, h2⟩

theorem WF2.step_pruneDeletedSubs {st : St} (h : WF2 st) (a : Int) (mx : Nat) (v : List Id) :
    WF2 (Mmmbbb.step st (.pruneDeletedSubs a mx v)).1 := by
  simp only [Mmmbbb.step]
  unfold pruneDeletedSubs
  simp only
  split
  · simp only [finish]; exact h
  · rename_i hlim
    simp only [finish]
    have hlim' := by simpa using hlim
    have hv := limitOk_victims hlim'
    have hkeep : ∀ d ∈ st.db.dels, ∀ s ∈ st.db.subs, s.id = d.subId → (!v.contains s.id) = true := by
      intro d hd s _ hid
      cases hc : v.contains s.id with
      | false => rfl
      | true =>
        exfalso
        obtain ⟨r, hr, hp⟩ := hv s.id (List.contains_iff_mem.mp hc)
        obtain ⟨_, hrid⟩ := subById_mem hr
        simp only [Bool.and_eq_true, Bool.not_eq_true'] at hp
        have := hp.2
        rw [List.any_eq_false] at this
        exact this d hd (by simp [hrid, hid])
    have hok : stepOk2 st.db st.now ({ st.db with subs := st.db.subs.filter fun s => !v.contains s.id } : Db) st.now = true := by
      unfold stepOk2
      simp only [Bool.and_eq_true, decide_eq_true_eq, Bool.or_eq_true]
      refine ⟨⟨Int.le_refl _, ?_⟩, Or.inl ?_⟩
      · unfold subsOk
        apply List.all_eq_true.mpr
        intro s' hs'
        have hs0 : s' ∈ st.db.subs := (List.mem_filter.mp hs').1
        cases hl : s'.live with
        | false => simp
        | true =>
          simp only [Bool.not_true, Bool.false_or, Bool.or_eq_true, List.any_eq_true, Bool.and_eq_true, beq_iff_eq]
          left
          exact ⟨s', hs0, ⟨⟨⟨hl, rfl⟩, rfl⟩, rfl⟩⟩
      · unfold growOk2
        simp only [List.take_length, List.drop_length, Bool.and_eq_true]
        exact ⟨rowsUpdOk_refl st.db st.now ({ st.db with subs := st.db.subs.filter fun s => !v.contains s.id } : Db) rfl st.db.dels, rfl⟩
    refine ⟨h.inv.step hok, ?_, ?_⟩
    · intro x hx y hy hid
      exact h.uqA x (List.mem_filter.mp hx).1 y (List.mem_filter.mp hy).1 hid
    · intro d hd
      obtain ⟨h1, s0, hs0, hid⟩ := h.fk d hd
      exact ⟨h1, s0, List.mem_filter.mpr ⟨hs0, hkeep d hd s0 hs0 hid⟩, hid⟩

/-- on ids of the table, "removed" means "named by the job" -/
theorem tieClosed_of_victims (db : Db) (v : List Id) (h : tieClosed db v = true) :
    tieClosed db (removedIds db.dels (deleteDeliveries db v).dels) = true := by
  have hR : ∀ d ∈ db.dels, (removedIds db.dels (deleteDeliveries db v).dels).contains d.id = v.contains d.id :=
    fun d hd => removedIds_deleteDeliveries db v d.id (List.mem_map.mpr ⟨d, hd, rfl⟩)
  unfold tieClosed at h ⊢
  rw [List.all_eq_true] at h ⊢
  intro g hg
  have hgv := h g hg
  rw [hR g hg]
  simp only [Bool.or_eq_true, List.all_eq_true] at hgv ⊢
  rcases hgv with h1 | h1
  · exact Or.inl h1
  · right
    intro e he
    rw [hR e he]
    exact h1 e he

/-- deleting delivery rows keeps referential integrity and unique ids; with the refinement obligation
    it keeps the ordering invariant -/
theorem WF2.of_deleteDeliveries {st : St} (h : WF2 st) (victims : List Id)
    (hok : stepOk2 st.db st.now (deleteDeliveries st.db victims) st.now = true) :
    WF2 { st with db := deleteDeliveries st.db victims } := by
  refine ⟨h.inv.step hok, h.uqA, ?_⟩
  intro d hd
  have hd' : d ∈ (deleteDeliveries st.db victims).dels := hd
  rw [deleteDeliveries_dels] at hd'
  obtain ⟨d0, hd0, rfl⟩ := List.mem_map.mp hd'
  have hf : (clrV victims d0).msgId = d0.msgId ∧ (clrV victims d0).subId = d0.subId := by
    unfold clrV; split <;> (try split) <;> exact ⟨rfl, rfl⟩
  exact (h.fk d0 (List.mem_filter.mp hd0).1).congr rfl rfl hf.1 hf.2

theorem stepOk2_of_shrink (db : Db) (now : Time) (v : List Id)
    (hs : shrinkOk db now (deleteDeliveries db v) = true) (ht : tieClosed db v = true) :
    stepOk2 db now (deleteDeliveries db v) now = true := by
  unfold stepOk2
  simp only [Bool.and_eq_true, decide_eq_true_eq, Bool.or_eq_true]
  refine ⟨⟨Int.le_refl _, subsOk_same db _ rfl⟩, Or.inr ?_⟩
  unfold shrinkOk2
  simp only [Bool.and_eq_true]
  exact ⟨hs, tieClosed_of_victims db v ht⟩

theorem WF2.step_pruneCompletedDeliveries {st : St} (h : WF2 st) (a : Int) (mx : Nat) (v : List Id)
    (ht : tieClosed st.db v = true) : WF2 (Mmmbbb.step st (.pruneCompletedDeliveries a mx v)).1 := by
  simp only [Mmmbbb.step]
  unfold pruneCompletedDeliveries
  simp only
  split
  · simp only [finish]; exact h
  · rename_i hlim
    simp only [finish]
    have hlim' := by simpa using hlim
    have hv := limitOk_victims hlim'
    refine h.of_deleteDeliveries v (stepOk2_of_shrink st.db st.now v (shrinkOk_deleteDeliveries st.db st.now v ?_ ?_) ht)
    · intro x hx
      obtain ⟨r, hr, _⟩ := hv x hx
      obtain ⟨hm, hid⟩ := delById_mem hr
      exact List.mem_map.mpr ⟨r, hm, hid⟩
    · intro d hd hc
      obtain ⟨r, hr, hp⟩ := hv d.id (List.contains_iff_mem.mp hc)
      obtain ⟨hm, hid⟩ := delById_mem hr
      have : r = d := eq_of_nodup_ids h.inv.uniq hm hd hid
      subst this
      refine Or.inl ((isOpen_false_iff st.now r).mpr (Or.inl ?_))
      cases hcc : r.completedAt with
      | none => rw [hcc] at hp; cases hp
      | some c => rfl

theorem WF2.step_pruneExpiredDeliveries {st : St} (h : WF2 st) (mx : Nat) (v : List Id)
    (ht : tieClosed st.db v = true) : WF2 (Mmmbbb.step st (.pruneExpiredDeliveries mx v)).1 := by
  simp only [Mmmbbb.step]
  unfold pruneExpiredDeliveries
  simp only
  split
  · simp only [finish]; exact h
  · rename_i hlim
    simp only [finish]
    have hlim' := by simpa using hlim
    have hv := limitOk_victims hlim'
    refine h.of_deleteDeliveries v (stepOk2_of_shrink st.db st.now v (shrinkOk_deleteDeliveries st.db st.now v ?_ ?_) ht)
    · intro x hx
      obtain ⟨r, hr, _⟩ := hv x hx
      obtain ⟨hm, hid⟩ := delById_mem hr
      exact List.mem_map.mpr ⟨r, hm, hid⟩
    · intro d hd hc
      obtain ⟨r, hr, hp⟩ := hv d.id (List.contains_iff_mem.mp hc)
      obtain ⟨hm, hid⟩ := delById_mem hr
      have : r = d := eq_of_nodup_ids h.inv.uniq hm hd hid
      subst this
      refine Or.inl ((isOpen_false_iff st.now r).mpr (Or.inr ?_))
      have : r.expiresAt < st.now := by simpa using hp
      exact Int.le_of_lt this

theorem WF2.step_pruneDeletedSubDeliveries {st : St} (h : WF2 st) (a : Int) (mx : Nat) (v : List Id)
    (ht : tieClosed st.db v = true) : WF2 (Mmmbbb.step st (.pruneDeletedSubDeliveries a mx v)).1 := by
  simp only [Mmmbbb.step]
  unfold pruneDeletedSubDeliveries
  simp only
  split
  · simp only [finish]; exact h
  · rename_i hlim
    simp only [finish]
    have hlim' := by simpa using hlim
    have hv := limitOk_victims hlim'
    refine h.of_deleteDeliveries v (stepOk2_of_shrink st.db st.now v (shrinkOk_deleteDeliveries st.db st.now v ?_ ?_) ht)
    · intro x hx
      obtain ⟨r, hr, _⟩ := hv x hx
      obtain ⟨hm, hid⟩ := delById_mem hr
      exact List.mem_map.mpr ⟨r, hm, hid⟩
    · intro d hd hc
      obtain ⟨r, hr, hp⟩ := hv d.id (List.contains_iff_mem.mp hc)
      obtain ⟨hm, hid⟩ := delById_mem hr
      have : r = d := eq_of_nodup_ids h.inv.uniq hm hd hid
      subst this
      right
      cases hlo : liveOrd st.db r.subId with
      | false => rfl
      | true =>
        exfalso
        unfold liveOrd at hlo
        obtain ⟨s, hs, hs2⟩ := List.any_eq_true.mp hlo
        simp only [Bool.and_eq_true, beq_iff_eq] at hs2
        cases hsb : st.db.subById r.subId with
        | none => rw [hsb] at hp; simp at hp
        | some s0 =>
          obtain ⟨hs0, hid0⟩ := subById_mem hsb
          have : s0 = s := h.uqA s0 hs0 s hs (by rw [hid0, hs2.1.1])
          subst this
          have hl : s0.deletedAt = none := by
            have := hs2.1.2
            unfold Sub.live at this
            cases hda : s0.deletedAt with
            | none => rfl
            | some _ => rw [hda] at this; cases this
          rw [hsb] at hp
          simp [hl] at hp

def fragRunDL : St → List Op → Prop
  | _, [] => True
  | st, op :: r => fragOkDL st op ∧ fragRunDL (Mmmbbb.step st op).1 r

theorem WF2.step {st : St} (h : WF2 st) (op : Op) (hf : fragOkDL st op) : WF2 (Mmmbbb.step st op).1 := by
  cases op with
  | advance d => exact h.step_advance d hf
  | createTopic n l i => exact h.step_createTopic n l i
  | deleteTopic n => exact h.step_deleteTopic n
  | createSub p i => exact h.step_createSub p i
  | deleteSub n => exact h.step_deleteSub n
  | expireSubs mx v => exact h.step_expireSubs mx v
  | snapshot n s l i => exact h.step_snapshot n s l i
  | deleteSnap n => exact h.step_deleteSnap n
  | setDelay n d => exact h.step_setDelay n d
  | publish t tick ms => exact h.step_publish t tick ms hf
  | pull sn mx mb strict wait obs => exact h.step_pull sn mx mb strict wait obs hf
  | ack ids => exact h.step_ack ids hf
  | nack ids ds fw => exact h.step_nack ids ds fw
  | delay ids d => exact h.step_delay ids d
  | dlSweep mx v fw => exact h.step_dlSweep mx v fw
  | pruneCompletedDeliveries a mx v => exact h.step_pruneCompletedDeliveries a mx v hf
  | pruneExpiredDeliveries mx v => exact h.step_pruneExpiredDeliveries mx v hf
  | pruneDeletedSubDeliveries a mx v => exact h.step_pruneDeletedSubDeliveries a mx v hf
  | pruneCompletedMessages a mx v => exact h.step_pruneCompletedMessages a mx v
  | pruneDeletedSubs a mx v => exact h.step_pruneDeletedSubs a mx v
  | pruneDeletedTopics a mx v => exact h.step_pruneDeletedTopics a mx v
  | seekTime sn t => exact absurd hf (by simp [fragOkDL])
  | seekSnap sn n => exact absurd hf (by simp [fragOkDL])

theorem WF2.run : ∀ (ops : List Op) (st : St), WF2 st → fragRunDL st ops → WF2 (Mmmbbb.run st ops)
  | [], _, h, _ => h
  | op :: r, st, h, hf => by
    rw [run_cons]
    exact WF2.run r _ (h.step op hf.1) hf.2

/-- **C05 outright, for every history without a Seek**: clock advances (by any amount, zero included),
    topic creations and deletions, subscription creations with any configuration — dead-letter policies
    into ordered subscriptions, chains of them, filters —, deletions and expiries, snapshots, the delay
    injector, publishes (single and batched; the clock need not move between messages), pulls of any
    size (which dead-letter the candidates whose attempts are used up and lease the others), nacks,
    deadline changes, acknowledgements of handed-out deliveries, dead-letter sweeps of any batch size and
    all six prune jobs (the three that delete delivery rows: tie-closed rounds, see `fragOkDL`): in the
    state such a history reaches no keyed delivery of an ordered subscription is eligible while an
    earlier-published delivery of the same key is outstanding.
    No clock assumption and no refinement hypothesis evaluated on the run: deliveries forwarded in one
    transaction share their publish time, and the second sort key of the predecessor query (652c205,
    regenerated from the source on every run) is what the proof of the enqueueing step uses.  What is
    outside: the two seeks (the recorded findings) and a change of the retention (not an operation of
    this state machine). -/
theorem C05_fragment_dl (ops : List Op) (h : fragRunDL {} ops) :
    let st := Mmmbbb.run {} ops
    ∀ s ∈ st.db.subs, s.live = true → s.ordered = true → ∀ d ∈ st.db.dels, ∀ e ∈ st.db.dels,
      d.subId = s.id → e.subId = s.id →
      (∃ k, k ≠ "" ∧ (st.db.msgById d.msgId).bind (·.orderKey) = some k ∧ (st.db.msgById e.msgId).bind (·.orderKey) = some k) →
      e.publishedAt < d.publishedAt → e.isOpen st.now = true → st.db.eligible s st.now d = false := by
  intro st s hs hlive hord d hd e he hds hes hkey hlt hopen
  have hinv : Inv2 st.db st.now := (WF2.run ops {} WF2.init h).inv
  obtain ⟨k, hk, h1, h2⟩ := hkey
  have k1 := keyOf_of_bind hk h1
  have k2 := keyOf_of_bind hk h2
  exact hinv.ordered s hs hlive hord d e hd he hds hes (k1.trans k2.symm) (by rw [k1]; simp) hlt hopen

/-- non-vacuity: the history of `exampleTieHistory` — two same-key deliveries forwarded by one sweep
    into an ordered subscription with the same publish time, a third message of the key published
    behind them — lies inside the fragment -/
example : fragRunDL {} exampleTieHistory := by
  refine ⟨trivial, trivial, trivial, trivial, by decide, by decide, by decide, by decide, trivial, by decide, by decide, by decide, trivial⟩

/-- … continued: the first of the two forwarded deliveries is acknowledged and a round of the job that
    deletes acknowledged deliveries removes it (together with the two retired source rows): a tie-closed
    round, inside the fragment -/
example : fragRunDL {} (exampleTieHistory ++ [.ack [21], .advance 5, .pruneCompletedDeliveries 0 10 [11, 13, 21]]) := by
  refine ⟨trivial, trivial, trivial, trivial, by decide, by decide, by decide, by decide, trivial, by decide, by decide,
    by decide, by decide, by decide, by decide, trivial⟩
example : ((outs {} (exampleTieHistory ++ [.ack [21], .advance 5, .pruneCompletedDeliveries 0 10 [11, 13, 21]])).map (·.ok)).getLast? = some true := by
  decide
/-- a round that took the *second* forwarded delivery and left the first would not be tie-closed -/
example : Ord2.tieClosed (Mmmbbb.run {} exampleTieHistory).db [22] = false := by decide

end fragment_dl

end Mmmbbb
