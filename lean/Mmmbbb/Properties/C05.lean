/-
C05 — Ordered delivery: same-key messages are never overtaken.

"On a subscription with message ordering enabled, a message with ordering key K is never delivered
while an earlier-published message with the same key K is still outstanding on that subscription
(not yet acknowledged, expired or dead-lettered); consequently same-key messages are first
delivered, and can only be acknowledged, in publish order.  This holds whatever else is published in
between, including messages with other keys or with no key."

The mechanism is a link: every keyed delivery on an ordered subscription points (`notBefore`) at
the newest unexpired delivery of the *same key* that existed when it was enqueued, and a pull on
an ordered subscription skips rows whose link target is neither completed nor expired.  The two
halves are proved below for every state and observation.  The full history statement fails in the
corners recorded in KNOWN_FINDINGS.txt (a seek re-opens an acknowledged predecessor, after which a
later same-key delivery can overtake it); `C05_full_statement` is kept visible and the proved part is
named `…_partial`.
-/
import Mmmbbb.Properties.C01
namespace Mmmbbb

/-- **C05 (the pull honours the link)**: on an ordered subscription every delivery a pull hands out
    has no predecessor link, or its link target is completed or past its retention. -/
theorem C05_pull_respects_link {db : Db} {now : Time} {sub : String} {max maxBytes : Nat} {strict : Bool}
    {wait : Int} {obs : PullObs} {o : TxOut PullRes} {now' : Time}
    (h : pull db now sub max maxBytes strict wait obs = .ok (o, now'))
    (s : Sub) (hs : db.liveSubByName sub = some s) (hord : s.ordered = true) :
    ∀ x ∈ o.val.delivered, ∃ c, db.delById x.1 = some c ∧
      (c.notBefore = none ∨ ∃ p q, c.notBefore = some p ∧ db.delById p = some q ∧
        (q.completedAt.isSome = true ∨ q.expiresAt ≤ now)) := by
  obtain ⟨s', hs', hall⟩ := pull_delivered_spec h
  rw [hs] at hs'; injection hs' with hs'; subst hs'
  intro x hx
  obtain ⟨c, hc, helig, _⟩ := hall x hx
  refine ⟨c, hc, ?_⟩
  unfold Db.eligible at helig
  simp only [Bool.and_eq_true, hord, Bool.not_true, Bool.false_or] at helig
  have hpd := helig.2
  unfold Db.predDone at hpd
  cases hnb : c.notBefore with
  | none => exact Or.inl rfl
  | some p =>
    right
    rw [hnb] at hpd
    simp only at hpd
    -- the lookup inside `refreshExpiry db s now` is the lookup in `db`
    have hsame : (refreshExpiry db s now).delById p = db.delById p := rfl
    rw [hsame] at hpd
    cases hq : db.delById p with
    | none => rw [hq] at hpd; cases hpd
    | some q =>
      rw [hq] at hpd
      simp only [Bool.or_eq_true, decide_eq_true_eq] at hpd
      exact ⟨p, q, rfl, hq, hpd⟩

theorem predChoiceOk_keyed (db : Db) (s : Sub) (m : Msg) (now : Time) (nb : Option Id)
    (hord : s.ordered = true) (k : String) (hk : m.orderKey = some k) (hne : k ≠ "") :
    predChoiceOk db s m now nb =
      (match nb with
       | none => (predCands db s m now).isEmpty
       | some p => (predCands db s m now).any fun d => d.id == p && newestIn (predCands db s m now) d) := by
  unfold predChoiceOk
  simp only [hord, hk, Bool.true_and]
  have : (k != "") = true := by simpa using hne
  simp only [this, if_true]
  cases nb <;> rfl

/-- **C05 (the link is chosen among same-key deliveries)**: every row enqueued for a keyed message on
    an ordered subscription is linked to a delivery of that subscription that is not expired, whose
    message carries the same ordering key, and that is the newest such delivery — or to nothing when
    there is none.  Un-keyed messages and other keys in between are ignored. -/
theorem C05_link_choice (db : Db) (subs : List Sub) (m : Msg) (now : Time) (fwds : List Fwd) (rows : List Delivery)
    (h : mkRows db subs m now fwds = .ok rows) (k : String) (hk : m.orderKey = some k) (hne : k ≠ "") :
    ∀ r ∈ rows, ∃ s, s ∈ subs ∧ r.subId = s.id ∧ (s.ordered = true →
      match r.notBefore with
      | none => ∀ d ∈ db.dels, d.subId = s.id → now < d.expiresAt →
          ∀ dm, db.msgById d.msgId = some dm → dm.orderKey ≠ some k
      | some p => ∃ q dm, q ∈ db.dels ∧ q.id = p ∧ q.subId = s.id ∧ now < q.expiresAt ∧
          db.msgById q.msgId = some dm ∧ dm.orderKey = some k ∧
          ∀ d ∈ db.dels, d.subId = s.id → now < d.expiresAt →
            (∀ dm', db.msgById d.msgId = some dm' → dm'.orderKey = some k → d.publishedAt ≤ q.publishedAt)) := by
  obtain ⟨_, _, hall⟩ := mkRows_spec db subs m now fwds rows h
  intro r hr
  obtain ⟨s, f, hs, _, hpred, rfl⟩ := hall r hr
  refine ⟨s, hs, rfl, ?_⟩
  intro hord
  rw [predChoiceOk_keyed db s m now f.nb hord k hk hne] at hpred
  simp only [mkDelivery]
  cases hnb : f.nb with
  | none =>
    rw [hnb] at hpred
    simp only at hpred
    intro d hd hsub hexp dm hdm hkk
    have hmem : d ∈ predCands db s m now := by
      unfold predCands
      refine List.mem_filter.mpr ⟨hd, ?_⟩
      simp only [Bool.and_eq_true, beq_iff_eq, decide_eq_true_eq]
      refine ⟨⟨hsub, hexp⟩, ?_⟩
      rw [hdm]; simp [hkk, hk]
    have : predCands db s m now = [] := List.isEmpty_iff.mp hpred
    rw [this] at hmem; cases hmem
  | some p =>
    rw [hnb] at hpred
    simp only [List.any_eq_true, Bool.and_eq_true, beq_iff_eq] at hpred
    obtain ⟨q, hq, hqid, hnew⟩ := hpred
    unfold predCands at hq
    have hq' := List.mem_filter.mp hq
    simp only [Bool.and_eq_true, beq_iff_eq, decide_eq_true_eq] at hq'
    cases hdm : db.msgById q.msgId with
    | none => rw [hdm] at hq'; simp at hq'
    | some dm =>
      rw [hdm] at hq'
      simp only [beq_iff_eq] at hq'
      refine ⟨q, dm, hq'.1, hqid, hq'.2.1.1, hq'.2.1.2, hdm, by rw [hq'.2.2, hk], ?_⟩
      intro d hd hsub hexp dm' hdm' hkk
      have hmem : d ∈ predCands db s m now := by
        unfold predCands
        refine List.mem_filter.mpr ⟨hd, ?_⟩
        simp only [Bool.and_eq_true, beq_iff_eq, decide_eq_true_eq]
        refine ⟨⟨hsub, hexp⟩, ?_⟩
        rw [hdm']; simp [hkk, hk]
      unfold newestIn at hnew
      have := List.all_eq_true.mp hnew d hmem
      simpa using this

/-- the statement of the property, for the record: in every state reachable by any history, on an
    ordered subscription no keyed delivery is eligible while an earlier same-key delivery is open -/
def C05_full_statement : Prop :=
  ∀ (ops : List Op), let st := run {} ops
    ∀ s ∈ st.db.subs, s.ordered = true → ∀ d ∈ st.db.dels, ∀ e ∈ st.db.dels,
      d.subId = s.id → e.subId = s.id →
      (∃ k, k ≠ "" ∧ (st.db.msgById d.msgId).bind (·.orderKey) = some k ∧ (st.db.msgById e.msgId).bind (·.orderKey) = some k) →
      e.publishedAt < d.publishedAt → e.isOpen st.now = true → st.db.eligible s st.now d = false

end Mmmbbb
