/-
C02 — Only rightful, intact messages are delivered; subscriptions are independent.

"A pull on a subscription only ever returns messages that were published to its topic (or
dead-lettered to it) while the subscription existed, that satisfy its filter and are currently
outstanding on it; it returns at most the requested number, never repeats a delivery within one
response, and each carries the message id returned by Publish, the same JSON payload value, and
exactly the published attributes and ordering key.  Acks, nacks, seeks, deletes or filters of one
subscription never change what another subscription receives, other than through dead-letter
forwarding that was configured between them."
-/
import Mmmbbb.Proofs.Fields
import Mmmbbb.Properties.C13
namespace Mmmbbb

/-- **C02 (pull soundness)**: every element of a pull response on subscription `s` names a delivery
    row of `s` that is not completed, inside its retention, due and (ordered) unblocked; the response
    has at most `max` elements and no delivery id twice. -/
theorem C02_pull_sound {db : Db} {now : Time} {sub : String} {max maxBytes : Nat} {strict : Bool}
    {wait : Int} {obs : PullObs} {o : TxOut PullRes} {now' : Time}
    (h : pull db now sub max maxBytes strict wait obs = .ok (o, now')) :
    (∃ s, db.liveSubByName sub = some s ∧
      ∀ x ∈ o.val.delivered, ∃ c, db.delById x.1 = some c ∧ c.subId = s.id ∧ c.completedAt = none ∧
        now < c.expiresAt ∧ c.attemptAt ≤ now) ∧
    o.val.delivered.length ≤ max ∧ (o.val.delivered.map (·.1)).Nodup := by
  have hspec := pull_delivered_spec h
  refine ⟨?_, ?_⟩
  · obtain ⟨s, hs, hall⟩ := hspec
    refine ⟨s, hs, ?_⟩
    intro x hx
    obtain ⟨c, hc, helig, _⟩ := hall x hx
    unfold Db.eligible Delivery.isOpen at helig
    simp only [Bool.and_eq_true, decide_eq_true_eq, beq_iff_eq] at helig
    refine ⟨c, hc, helig.1.1.1, ?_, helig.1.1.2.2, helig.1.2⟩
    cases hcc : c.completedAt with
    | none => rfl
    | some t => have := helig.1.1.2.1; rw [hcc] at this; cases this
  · unfold pull at h
    split at h
    · cases h
    · rename_i s hs
      simp only at h
      split at h
      · cases h
      · rename_i cands hc
        split at h
        · cases h
        · rename_i hok
          split at h
          · injection h with h; injection h with h1 _; subst h1
            exact ⟨Nat.zero_le _, List.nodup_nil⟩
          · split at h
            · cases h
            · rename_i o' hd
              injection h with h; injection h with h1 _; subst h1
              unfold pullDeliver at hd
              split at hd
              · cases hd
              · rename_i acc hl
                injection hd with hd; subst hd
                simp only [Bool.not_eq_true, Bool.not_eq_false'] at hok
                unfold candsOk at hok
                simp only [Bool.and_eq_true, beq_iff_eq] at hok
                have hlen := pullLoop_length _ _ _ _ _ _ _ _ _ hl
                simp only [List.length_nil, Nat.zero_add] at hlen
                have hnd : (cands.map (·.id)).Nodup := (nodupIds_iff _).mp hok.1.1.1.2
                have hlook : ∀ c ∈ cands, findDel (refreshExpiry db s now).dels c.id = some c := by
                  intro c hcm
                  obtain ⟨i, _, hi⟩ := lookupAll_spec _ _ _ hc c hcm
                  have : c.id = i := findDel_some_id hi
                  rw [this]; exact hi
                have hkeep := pullLoop_keeps _ _ _ _ _ _ _ _ _ hl (by simpa using hnd)
                  (by intro x hx; cases hx) hlook
                refine ⟨?_, ?_⟩
                · simp only [List.length_map]
                  have := hok.1.1.1.1
                  omega
                · rw [List.map_map]; exact hkeep.2

/-- **C02 (messages are immutable)**: no operation rewrites a message row (payload, attributes,
    ordering key, id); only the unreferenced-message prune job may remove one. -/
theorem C02_msgs_immutable (st : St) (op : Op) (hop : ∀ a mx v, op ≠ .pruneCompletedMessages a mx v) :
    ∀ m ∈ st.db.msgs, m ∈ (step st op).1.db.msgs :=
  step_msgs_preserved st op hop

/-- **C02 (subscription independence of acks and deadline changes)**: `ack` / `delay` only touch
    rows whose id is listed; in particular when all listed ids belong to subscription A, every row of
    any other subscription B is untouched. -/
theorem C02_ack_only_listed (db : Db) (now : Time) (ids : List Id) (o : TxOut Nat) (h : ack db now ids = .ok o)
    (d : Delivery) (hd : d ∈ db.dels) (hn : d.id ∉ ids) : d ∈ o.db.dels := by
  unfold ack at h
  injection h with h; subst h
  simp only
  unfold updateWhere
  refine List.mem_map.mpr ⟨d, hd, ?_⟩
  simp [hn]

theorem C02_delay_only_listed (db : Db) (now : Time) (ids : List Id) (Δ : Int) (o : TxOut Nat)
    (h : delay db now ids Δ = .ok o) (d : Delivery) (hd : d ∈ db.dels) (hn : d.id ∉ ids) : d ∈ o.db.dels := by
  unfold delay at h
  simp only at h
  split at h <;>
  · injection h with h; subst h
    simp only
    unfold updateWhere
    refine List.mem_map.mpr ⟨d, hd, ?_⟩
    simp [hn]

/-- **C02 (seeks do not touch other subscriptions)** -/
theorem C02_seek_other_subs (db : Db) (now : Time) (sub : String) (T : Time) (o : TxOut (Nat × Nat))
    (h : seekTime db now sub T = .ok o) :
    ∃ s, db.liveSubByName sub = some s ∧ ∀ d ∈ db.dels, d.subId ≠ s.id → d ∈ o.db.dels := by
  obtain ⟨s, hs, hdels, _⟩ := C13_seek_time db now sub T o h
  refine ⟨s, hs, ?_⟩
  intro d hd hne
  rw [hdels]
  refine List.mem_map.mpr ⟨d, hd, C13_seek_time_other_subs s now T d ?_⟩
  simpa using hne

end Mmmbbb
