/-
C16 — No request can crash the server; rejected requests change nothing.

"Every request on the Publisher and Subscriber APIs — whatever its field values, including zero,
negative, missing or malformed ones — is answered with a gRPC status; none terminates or wedges
the server.  A request that is answered with an error leaves all topics, subscriptions, messages
and deliveries unchanged."

`Api.handle` models every handler as validation → parameter mapping → **constructor preconditions
as an explicit `panic` outcome** → transaction → status.  The production interceptor chain has no
recovery interceptor (`recoveryInterceptorPresent`, regenerated from `grpc/server.go`, evaluates to `false`), so a panic
outcome would terminate the process: the theorem is that no request reaches one.
-/
import Mmmbbb.Model.Api
namespace Mmmbbb.Api

/-- Does one of the production interceptor chains, as found in the source (`grpc/server.go`, regenerated),
    recover from a panic?  Informational, not an obligation: today they are logging, metrics and fault
    injection, so a panic would end the process — but the theorems below show that no request reaches a
    panic outcome in the first place, which is what the property asks and which stays true whether or
    not an interceptor would catch one (a maintainer adding a recovery interceptor, or renaming the
    server's receiver, does not touch the property). -/
def recoveryInterceptorPresent : Bool :=
  (Extracted.unaryInterceptors ++ Extracted.streamInterceptors).any fun n => (n.splitOn "ecover").length > 1

theorem validName_nonempty (k n : String) (h : validName k n = true) : emptyName n = false := by
  unfold validName at h
  unfold emptyName
  cases hn : n.toList with
  | nil => rw [hn] at h; simp [splitSlash] at h
  | cons c r => rfl

theorem defaults_pos : 0 < Extracted.defaultSubscriptionTTL ∧ 0 < Extracted.defaultSubscriptionMessageTTL ∧
    0 < Extracted.defaultDeadLetterMaxAttempts := by decide

theorem emptyName_empty : emptyName "" = true := by decide

/-- a `CreateSubscription` request that passes validation satisfies the preconditions of
    `NewCreateSubscription` (TTL > 0, retention > 0, attempts ≥ 0, policy complete) -/
theorem createSub_validated_ok (r : SubReq) (h : createSubValidate r = none) : newCreateSubscriptionOk (toParams r) = true := by
  obtain ⟨d1, d2, d3⟩ := defaults_pos
  unfold createSubValidate at h
  split at h
  · cases h
  · split at h
    · cases h
    · split at h
      · cases h
      · split at h
        · cases h
        · rename_i hexp
          split at h
          · cases h
          · rename_i hret
            unfold newCreateSubscriptionOk toParams
            simp only [Bool.and_eq_true, decide_eq_true_eq]
            have httl : 0 < (if (r.expiration == 0) = true then Extracted.defaultSubscriptionTTL else r.expiration) := by
              split
              · exact d1
              · rename_i hne; simp at hne; omega
            have hm : 0 < (if (r.retention == 0) = true then Extracted.defaultSubscriptionMessageTTL else r.retention) := by
              split
              · exact d2
              · rename_i hne; simp at hne; omega
            unfold createDlCheck at h
            cases hdl : r.dl with
            | none =>
              simp only
              refine ⟨⟨⟨httl, hm⟩, by omega⟩, ?_⟩
              rw [emptyName_empty]; rfl
            | some d =>
              rw [hdl] at h
              simp only at h
              split at h
              · cases h
              · rename_i hte
                split at h
                · cases h
                · rename_i hneg
                  simp only
                  have hte' : emptyName d.topic = false := by simpa using hte
                  refine ⟨⟨⟨httl, hm⟩, ?_⟩, ?_⟩
                  · split <;> omega
                  · rw [hte']
                    have : ((if (d.maxAttempts == 0) = true then Extracted.defaultDeadLetterMaxAttempts else d.maxAttempts) != 0) = true := by
                      split
                      · simp; omega
                      · rename_i hne; simpa using hne
                    rw [this]; rfl

theorem ofErr_ne_panic (e : Err) : ofErr e ≠ .panic := by cases e <;> simp [ofErr]

theorem topicPaths_ne_panic : ∀ (ps : List String) (b : Bool) (st : Status), topicPaths ps b = .error st → st ≠ .panic := by
  intro ps
  induction ps with
  | nil => intro b st h; unfold topicPaths at h; cases h
  | cons p r ih =>
    intro b st h
    unfold topicPaths at h
    split at h
    · injection h with h; subst h; simp
    · split at h
      · exact ih _ _ h
      · split at h
        · injection h with h; subst h; simp
        · injection h with h; subst h; simp

theorem validatePush_ne_panic (p : Option PushCfg) (st : Status) (h : validatePush p = some st) : st ≠ .panic := by
  unfold validatePush at h
  split at h
  · cases h
  · split at h
    · injection h with h; subst h; simp
    · split at h
      · injection h with h; subst h; simp
      · cases h

theorem pathError_ne_panic (db : Db) (rr : SubReq) (p : String) (st : Status)
    (h : pathError db rr p = some st) : st ≠ .panic := by
  unfold pathError at h
  repeat' split at h
  all_goals first
    | (injection h with h; subst h; simp)
    | cases h
    | exact validatePush_ne_panic _ _ h

theorem applyPath_ne_panic (db : Db) (rr : SubReq) (u : SubUpdate × String) (p : String) (st : Status)
    (h : applyPath db rr u p = .error st) : st ≠ .panic := by
  unfold applyPath at h
  split at h
  · rename_i st' hp
    injection h with h; subst h
    exact pathError_ne_panic _ _ _ _ hp
  · cases h

theorem applyPaths_ne_panic (db : Db) : ∀ (ps : List String) (u : SubUpdate × String) (st : Status) (rr : SubReq),
    applyPaths db rr ps u = .error st → st ≠ .panic := by
  intro ps
  induction ps with
  | nil => intro u st rr h; unfold applyPaths at h; cases h
  | cons p rest ih =>
    intro u st rr h
    unfold applyPaths at h
    split at h
    · rename_i st' hp
      injection h with h; subst h
      exact applyPath_ne_panic _ _ _ _ _ hp
    · exact ih _ _ _ h

theorem createPushCheck_ne_panic (p : Option PushCfg) (st : Status) (h : createPushCheck p = some st) : st ≠ .panic := by
  unfold createPushCheck at h
  split at h
  · cases h
  · repeat' split at h
    all_goals first | (injection h with h; subst h; simp) | cases h

theorem createDlCheck_ne_panic (d : Option DlPolicy) (st : Status) (h : createDlCheck d = some st) : st ≠ .panic := by
  unfold createDlCheck at h
  split at h
  · repeat' split at h
    all_goals first | (injection h with h; subst h; simp) | cases h
  · cases h

theorem createSubValidate_ne_panic (r : SubReq) (st : Status) (h : createSubValidate r = some st) : st ≠ .panic := by
  unfold createSubValidate at h
  split at h
  · injection h with h; subst h; simp
  · split at h
    · injection h with h; subst h; simp
    · split at h
      · rename_i st' hp
        injection h with h; subst h
        exact createPushCheck_ne_panic _ _ hp
      · split at h
        · injection h with h; subst h; simp
        · split at h
          · injection h with h; subst h; simp
          · exact createDlCheck_ne_panic _ _ h

/-- **C16 (no request crashes the server)**: for every database state, every instant and every
    request — all field values, not a sample — the handler's outcome is a status, never a panic. -/
theorem C16_no_panic (db : Db) (now : Time) (rpc : Rpc) : (handle db now rpc).2.status ≠ .panic := by
  cases rpc with
  | createTopic name labels advanced newId =>
    simp only [handle]; unfold hCreateTopic
    split
    · simp
    · rename_i hv
      split
      · simp
      · split
        · rename_i he
          have := validName_nonempty "topics" name (by simpa [isValidTopicName] using hv)
          rw [this] at he; cases he
        · split
          · exact ofErr_ne_panic _
          · simp
  | getTopic name => simp only [handle]; unfold hGetTopic; split <;> (try split) <;> simp
  | updateTopic topic paths =>
    simp only [handle]; unfold hUpdateTopic
    split
    · simp
    · split
      · simp
      · split
        · simp
        · split
          · rename_i st hgo; exact topicPaths_ne_panic _ _ _ hgo
          · simp
          · simp
  | deleteTopic name =>
    simp only [handle]; unfold hDeleteTopic
    split
    · simp
    · split
      · exact ofErr_ne_panic _
      · simp
  | listTopics project pageSize token => simp only [handle]; unfold hListTopics; split <;> simp
  | createSub r newId =>
    simp only [handle]; unfold hCreateSub
    split
    · rename_i st hst; exact createSubValidate_ne_panic r st hst
    · rename_i hv
      dsimp only
      split
      · rename_i hbad
        rw [createSub_validated_ok r hv] at hbad; cases hbad
      · split
        · exact ofErr_ne_panic _
        · split <;> simp
  | getSub name => simp only [handle]; unfold hGetSub; split <;> (try split) <;> simp
  | updateSub r paths =>
    simp only [handle]; unfold hUpdateSub
    split
    · simp
    · split
      · simp
      · split
        · simp
        · simp only
          split
          · rename_i st hst; exact applyPaths_ne_panic db _ _ _ _ hst
          · split <;> simp
  | deleteSub name =>
    simp only [handle]; unfold hDeleteSub
    split
    · simp
    · split
      · exact ofErr_ne_panic _
      · simp
  | listSubs project pageSize token => simp only [handle]; unfold hListSubs; split <;> simp
  | listTopicSubs topic pageSize token => simp only [handle]; unfold hListTopicSubs; split <;> (try split) <;> (try split) <;> simp
  | modifyPush name push =>
    simp only [handle]; unfold hModifyPush
    split
    · simp
    · split
      · rename_i st hv; exact validatePush_ne_panic _ _ hv
      · split <;> simp
  | pullCheck name maxMessages =>
    simp only [handle]; unfold hPullCheck
    split
    · simp
    · rename_i hv
      split
      · simp
      · rename_i hmax
        split
        · rename_i hbad
          have hne := validName_nonempty "subscriptions" name (by simpa [isValidSubscriptionName] using hv)
          unfold newGetSubscriptionMessagesOk at hbad
          rw [hne] at hbad
          simp at hbad
          omega
        · split <;> simp
  | ackCheck name idsParse isAck =>
    simp only [handle]; unfold hAckCheck
    split
    · simp
    · split
      · split <;> simp
      · simp
  | seek name target =>
    simp only [handle]; unfold hSeek
    split
    · simp
    · rename_i hv
      have hne := validName_nonempty "subscriptions" name (by simpa [isValidSubscriptionName] using hv)
      split
      · simp
      · simp
      · rw [hne]
        simp only [Bool.false_eq_true, if_false]
        split
        · exact ofErr_ne_panic _
        · simp
      · rename_i sn
        split
        · simp
        · rename_i hsv
          have hne2 := validName_nonempty "snapshots" sn (by simpa [isValidSnapshotName] using hsv)
          rw [hne, hne2]
          simp only [Bool.or_self, Bool.false_eq_true, if_false]
          split
          · exact ofErr_ne_panic _
          · simp
  | createSnap name sub labels newId =>
    simp only [handle]; unfold hCreateSnap
    split
    · simp
    · rename_i hv
      split
      · simp
      · rename_i hsv
        have hne := validName_nonempty "snapshots" name (by simpa [isValidSnapshotName] using hv)
        have hne2 := validName_nonempty "subscriptions" sub (by simpa [isValidSubscriptionName] using hsv)
        rw [hne, hne2]
        simp only [Bool.or_self, Bool.false_eq_true, if_false]
        split
        · exact ofErr_ne_panic _
        · split <;> simp
  | getSnap name => simp only [handle]; unfold hGetSnap; split <;> (try split) <;> simp
  | listSnaps project pageSize token => simp only [handle]; unfold hListSnaps; split <;> simp
  | deleteSnap name =>
    simp only [handle]; unfold hDeleteSnap
    split
    · simp
    · split
      · exact ofErr_ne_panic _
      · simp
  | publishCheck topic bad => simp only [handle]; unfold hPublishCheck; split <;> (try split) <;> (try split) <;> simp

/-- every leaf of a handler either leaves the database alone or answers OK -/
macro "leaf_frame" f:ident : tactic =>
  `(tactic| (unfold $f; (try dsimp only); repeat' split) <;> first | (left; rfl) | (right; rfl))

theorem handle_frame (db : Db) (now : Time) (rpc : Rpc) :
    (handle db now rpc).1 = db ∨ (handle db now rpc).2.status = .ok := by
  cases rpc with
  | createTopic name labels advanced newId => simp only [handle]; leaf_frame hCreateTopic
  | getTopic name => simp only [handle]; leaf_frame hGetTopic
  | updateTopic topic paths => simp only [handle]; leaf_frame hUpdateTopic
  | deleteTopic name => simp only [handle]; leaf_frame hDeleteTopic
  | listTopics project pageSize token => simp only [handle]; leaf_frame hListTopics
  | createSub r newId => simp only [handle]; leaf_frame hCreateSub
  | getSub name => simp only [handle]; leaf_frame hGetSub
  | updateSub r paths => simp only [handle]; leaf_frame hUpdateSub
  | deleteSub name => simp only [handle]; leaf_frame hDeleteSub
  | listSubs project pageSize token => simp only [handle]; leaf_frame hListSubs
  | listTopicSubs topic pageSize token => simp only [handle]; leaf_frame hListTopicSubs
  | modifyPush name push => simp only [handle]; leaf_frame hModifyPush
  | pullCheck name maxMessages => simp only [handle]; leaf_frame hPullCheck
  | ackCheck name idsParse isAck => simp only [handle]; leaf_frame hAckCheck
  | seek name target => simp only [handle]; leaf_frame hSeek
  | createSnap name sub labels newId => simp only [handle]; leaf_frame hCreateSnap
  | getSnap name => simp only [handle]; leaf_frame hGetSnap
  | listSnaps project pageSize token => simp only [handle]; leaf_frame hListSnaps
  | deleteSnap name => simp only [handle]; leaf_frame hDeleteSnap
  | publishCheck topic bad => simp only [handle]; leaf_frame hPublishCheck

/-- **C16 (rejected requests change nothing)**: a request answered with anything but OK leaves all five
    tables exactly as they were — for every state and every request. -/
theorem C16_error_no_change (db : Db) (now : Time) (rpc : Rpc) (h : (handle db now rpc).2.status ≠ .ok) :
    (handle db now rpc).1 = db := by
  rcases handle_frame db now rpc with h1 | h1
  · exact h1
  · exact absurd h1 h

/-! ### the pusher a push subscription gets

An accepted `CreateSubscription` with a push endpoint makes the push service start a streamer for the
subscription.  Its lease-renewal ticker runs at 9/20 of the subscription's minimum backoff — any
positive number of nanoseconds passes the request validation — and `time.NewTicker` panics on a
non-positive interval, in a goroutine nothing recovers. -/

/-- the interval handed to `time.NewTicker`, for a minimum backoff of `minB` ns (absent: the default) -/
def tickerInterval (floor : Int) (minB : Option Int) : Int :=
  let delayAmount := (match minB with | some m => m | none => Extracted.defaultMinDelay) / 2
  let checkInterval := delayAmount * 9 / 10
  if checkInterval < floor then floor else checkInterval

/-- **C16 (no request can make the pusher's ticker panic)**: whatever minimum backoff a subscription was
    accepted with, the interval is positive — because the source keeps a positive floor under it
    (regenerated fact) -/
theorem C16_ticker_interval_positive :
    Extracted.streamerTickerFloors ≠ [] ∧
    ∀ f ∈ Extracted.streamerTickerFloors, 0 < f ∧ ∀ minB : Option Int, 0 < tickerInterval f minB := by
  refine ⟨by simp [Extracted.streamerTickerFloors], ?_⟩
  intro f hf
  simp only [Extracted.streamerTickerFloors, List.mem_cons, List.mem_nil_iff, or_false] at hf
  subst hf
  refine ⟨by decide, ?_⟩
  intro minB
  unfold tickerInterval
  simp only
  split <;> omega

/-- without the floor a minimum backoff of one nanosecond gives the interval 0 -/
example : tickerInterval 0 (some 1) = 0 := by decide

end Mmmbbb.Api
