/-
C15 — Background pruning is invisible to clients and converges.

"Running any of the background maintenance jobs at any moment, in any order, with any age threshold
and batch size, never changes what clients observe: no live topic, live subscription, outstanding
delivery or message with an outstanding delivery is removed, and ordered delivery is not disturbed.
Once everything has been acknowledged, expired or deleted for longer than the age threshold,
repeated rounds of the jobs, in any order, reclaim all of it."
-/
import Mmmbbb.Proofs.Lease
namespace Mmmbbb

/-- every victim of an accepted `LIMIT` observation names a row satisfying the job's predicate -/
theorem limitOk_victim {α} {rows : List α} {lookup : Id → Option α} {p : α → Bool} {victims : List Id} {max : Nat}
    (h : limitOk rows lookup p victims max = true) (v : Id) (hv : v ∈ victims) :
    ∃ r, lookup v = some r ∧ p r = true := by
  unfold limitOk at h
  simp only [Bool.and_eq_true] at h
  have := List.all_eq_true.mp h.2 v hv
  split at this
  · rename_i r hr; exact ⟨r, hr, this⟩
  · cases this

/-- a surviving row of `deleteDeliveries`: the same row, except that a link to a deleted predecessor
    is cleared (`ON DELETE SET NULL`) -/
theorem deleteDeliveries_survivor (db : Db) (ids : List Id) (d : Delivery) (hd : d ∈ db.dels)
    (hn : d.id ∉ ids) :
    (∃ d' ∈ (deleteDeliveries db ids).dels, d' = d) ∨
    (∃ d' ∈ (deleteDeliveries db ids).dels, ∃ p, d.notBefore = some p ∧ p ∈ ids ∧ d' = { d with notBefore := none }) := by
  unfold deleteDeliveries
  simp only
  have hmem : d ∈ db.dels.filter (fun d => !ids.contains d.id) := List.mem_filter.mpr ⟨hd, by simp [hn]⟩
  cases hnb : d.notBefore with
  | none =>
    left
    refine ⟨d, List.mem_map.mpr ⟨d, hmem, ?_⟩, rfl⟩
    simp [hnb]
  | some p =>
    by_cases hp : p ∈ ids
    · right
      refine ⟨{ d with notBefore := none }, List.mem_map.mpr ⟨d, hmem, ?_⟩, p, rfl, hp, rfl⟩
      simp [hnb, hp]
    · left
      refine ⟨d, List.mem_map.mpr ⟨d, hmem, ?_⟩, rfl⟩
      simp [hnb, hp]

/-- `deleteDeliveries` changes no other table -/
theorem deleteDeliveries_other (db : Db) (ids : List Id) : SameOther db (deleteDeliveries db ids) := ⟨rfl, rfl, rfl, rfl⟩

/-- **C15 (completed-delivery prune removes only completed rows)**: every victim is a row completed at
    least `minAge` ago; every other row survives (at most losing its link to a deleted — hence
    completed — predecessor, which the ordered-delivery join already ignores); no other table changes. -/
theorem C15_prune_completed_deliveries (db : Db) (now : Time) (minAge : Int) (mx : Nat) (victims : List Id) (o : TxOut Nat)
    (h : pruneCompletedDeliveries db now minAge mx victims = .ok o) :
    (∀ v ∈ victims, ∃ r t, db.delById v = some r ∧ r.completedAt = some t ∧ t ≤ now - minAge) ∧
    o.db = deleteDeliveries db victims := by
  unfold pruneCompletedDeliveries at h
  simp only at h
  split at h
  · cases h
  · rename_i hok
    simp only [Bool.not_eq_true, Bool.not_eq_false'] at hok
    injection h with h; subst h
    refine ⟨?_, rfl⟩
    intro v hv
    obtain ⟨r, hr, hp⟩ := limitOk_victim hok v hv
    cases hc : r.completedAt with
    | none => simp [hc] at hp
    | some t => exact ⟨r, t, hr, hc, by simpa [hc] using hp⟩

/-- **C15 (expired-delivery prune removes only rows past their retention)** -/
theorem C15_prune_expired_deliveries (db : Db) (now : Time) (mx : Nat) (victims : List Id) (o : TxOut Nat)
    (h : pruneExpiredDeliveries db now mx victims = .ok o) :
    (∀ v ∈ victims, ∃ r, db.delById v = some r ∧ r.expiresAt < now) ∧ o.db = deleteDeliveries db victims := by
  unfold pruneExpiredDeliveries at h
  simp only at h
  split at h
  · cases h
  · rename_i hok
    simp only [Bool.not_eq_true, Bool.not_eq_false'] at hok
    injection h with h; subst h
    refine ⟨?_, rfl⟩
    intro v hv
    obtain ⟨r, hr, hp⟩ := limitOk_victim hok v hv
    exact ⟨r, hr, by simpa using hp⟩

/-- **C15 (deleted-subscription prune removes only deliveries of deleted subscriptions)** -/
theorem C15_prune_deleted_sub_deliveries (db : Db) (now : Time) (minAge : Int) (mx : Nat) (victims : List Id) (o : TxOut Nat)
    (h : pruneDeletedSubDeliveries db now minAge mx victims = .ok o) :
    (∀ v ∈ victims, ∃ r s t, db.delById v = some r ∧ db.subById r.subId = some s ∧ s.deletedAt = some t ∧ t ≤ now - minAge) ∧
    o.db = deleteDeliveries db victims := by
  unfold pruneDeletedSubDeliveries at h
  simp only at h
  split at h
  · cases h
  · rename_i hok
    simp only [Bool.not_eq_true, Bool.not_eq_false'] at hok
    injection h with h; subst h
    refine ⟨?_, rfl⟩
    intro v hv
    obtain ⟨r, hr, hp⟩ := limitOk_victim hok v hv
    cases hs : db.subById r.subId with
    | none => simp [hs] at hp
    | some s =>
      cases hd : s.deletedAt with
      | none => simp [hs, hd] at hp
      | some t => exact ⟨r, s, t, hr, hs, hd, by simpa [hs, hd] using hp⟩

/-- **C15 (an outstanding delivery is never pruned)**: a row that is not completed, inside its
    retention and whose subscription is live is not a victim of any of the three delivery prune
    jobs, so it survives each of them. -/
theorem C15_outstanding_survives (db : Db) (now : Time) (minAge : Int) (hage : 0 ≤ minAge) (mx : Nat) (victims : List Id)
    (d : Delivery) (hd : db.delById d.id = some d) (hopen : d.completedAt = none) (hret : now ≤ d.expiresAt)
    (s : Sub) (hs : db.subById d.subId = some s) (hlive : s.deletedAt = none) :
    (∀ o, pruneCompletedDeliveries db now minAge mx victims = .ok o → d.id ∉ victims) ∧
    (∀ o, pruneExpiredDeliveries db now mx victims = .ok o → d.id ∉ victims) ∧
    (∀ o, pruneDeletedSubDeliveries db now minAge mx victims = .ok o → d.id ∉ victims) := by
  refine ⟨?_, ?_, ?_⟩
  · intro o h hv
    obtain ⟨r, t, hr, hc, _⟩ := (C15_prune_completed_deliveries db now minAge mx victims o h).1 d.id hv
    rw [hd] at hr; injection hr with hr; subst hr
    rw [hopen] at hc; cases hc
  · intro o h hv
    obtain ⟨r, hr, he⟩ := (C15_prune_expired_deliveries db now mx victims o h).1 d.id hv
    rw [hd] at hr; injection hr with hr; subst hr
    unfold Time at *; omega
  · intro o h hv
    obtain ⟨r, s', t, hr, hs', hdel, _⟩ := (C15_prune_deleted_sub_deliveries db now minAge mx victims o h).1 d.id hv
    rw [hd] at hr; injection hr with hr; subst hr
    rw [hs] at hs'; injection hs' with hs'; subst hs'
    rw [hlive] at hdel; cases hdel

/-- **C15 (message prune removes only unreferenced messages)**: no message that still has a delivery —
    outstanding or not — is removed; deliveries, subscriptions, topics are untouched. -/
theorem C15_prune_completed_messages (db : Db) (now : Time) (minAge : Int) (mx : Nat) (victims : List Id) (o : TxOut Nat)
    (h : pruneCompletedMessages db now minAge mx victims = .ok o) :
    (∀ v ∈ victims, ∃ m, db.msgById v = some m ∧ (∀ d ∈ db.dels, d.msgId ≠ m.id)) ∧
    o.db.dels = db.dels ∧ o.db.subs = db.subs ∧ o.db.topics = db.topics ∧ o.db.snaps = db.snaps ∧
    o.db.msgs = db.msgs.filter (fun m => !victims.contains m.id) := by
  unfold pruneCompletedMessages at h
  simp only at h
  split at h
  · cases h
  · rename_i hok
    simp only [Bool.not_eq_true, Bool.not_eq_false'] at hok
    injection h with h; subst h
    refine ⟨?_, rfl, rfl, rfl, rfl, rfl⟩
    intro v hv
    obtain ⟨m, hm, hp⟩ := limitOk_victim hok v hv
    refine ⟨m, hm, ?_⟩
    simp only [Bool.and_eq_true, Bool.not_eq_true', List.any_eq_false, beq_iff_eq] at hp
    exact fun d hd => hp.2 d hd

/-- **C15 (subscription / topic prunes remove only deleted rows)** -/
theorem C15_prune_deleted_subs (db : Db) (now : Time) (minAge : Int) (mx : Nat) (victims : List Id) (o : TxOut Nat)
    (h : pruneDeletedSubs db now minAge mx victims = .ok o) :
    (∀ v ∈ victims, ∃ s t, db.subById v = some s ∧ s.deletedAt = some t ∧ (∀ d ∈ db.dels, d.subId ≠ s.id)) ∧
    o.db.dels = db.dels ∧ o.db.msgs = db.msgs ∧ o.db.topics = db.topics := by
  unfold pruneDeletedSubs at h
  simp only at h
  split at h
  · cases h
  · rename_i hok
    simp only [Bool.not_eq_true, Bool.not_eq_false'] at hok
    injection h with h; subst h
    refine ⟨?_, rfl, rfl, rfl⟩
    intro v hv
    obtain ⟨s, hs, hp⟩ := limitOk_victim hok v hv
    cases hd : s.deletedAt with
    | none => simp [hd] at hp
    | some t =>
      refine ⟨s, t, hs, hd, ?_⟩
      simp only [hd, Bool.and_eq_true, Bool.not_eq_true', List.any_eq_false, beq_iff_eq] at hp
      exact fun d hdm => hp.2 d hdm

theorem C15_prune_deleted_topics (db : Db) (now : Time) (minAge : Int) (mx : Nat) (victims : List Id) (o : TxOut Nat)
    (h : pruneDeletedTopics db now minAge mx victims = .ok o) :
    (∀ v ∈ victims, ∃ t d, db.topicById v = some t ∧ t.deletedAt = some d ∧ (∀ s ∈ db.subs, s.topicId ≠ t.id) ∧
      (∀ s ∈ db.subs, s.dlTopicId ≠ some t.id)) ∧
    o.db.dels = db.dels ∧ o.db.msgs = db.msgs ∧ o.db.snaps = db.snaps := by
  unfold pruneDeletedTopics at h
  simp only at h
  split at h
  · cases h
  · rename_i hok
    simp only [Bool.not_eq_true, Bool.not_eq_false'] at hok
    split at h
    · cases h
    · injection h with h; subst h
      refine ⟨?_, rfl, rfl, rfl⟩
      intro v hv
      obtain ⟨t, ht, hp⟩ := limitOk_victim hok v hv
      cases hd : t.deletedAt with
      | none => simp [hd] at hp
      | some dd =>
        refine ⟨t, dd, ht, hd, ?_, ?_⟩
        · simp only [hd, Bool.and_eq_true, Bool.not_eq_true', List.any_eq_false, beq_iff_eq] at hp
          exact fun s hs => hp.1.2 s hs
        · simp only [hd, Bool.and_eq_true, Bool.not_eq_true', List.any_eq_false, beq_iff_eq] at hp
          exact fun s hs => hp.2 s hs

/-- **C15 (pruning a deleted topic leaves every subscription's configuration alone)**: no victim is any
    subscription's dead-letter topic, so the `ON DELETE SET NULL` of that reference never fires: the
    subscriptions table after the job is the one before it. -/
theorem C15_prune_deleted_topics_keeps_policies (db : Db) (now : Time) (minAge : Int) (mx : Nat) (victims : List Id)
    (o : TxOut Nat) (h : pruneDeletedTopics db now minAge mx victims = .ok o) : o.db.subs = db.subs := by
  have hids : ∀ v ∈ victims, ∀ t, db.topicById v = some t → t.id = v := by
    intro v _ t ht
    have := List.find?_some ht
    simpa using this
  obtain ⟨hv, _, _, _⟩ := C15_prune_deleted_topics db now minAge mx victims o h
  unfold pruneDeletedTopics at h
  simp only at h
  split at h
  · cases h
  · split at h
    · cases h
    · injection h with h; subst h
      show db.subs.map _ = db.subs
      conv => rhs; rw [← List.map_id db.subs]
      apply List.map_congr_left
      intro s hs
      cases hdl : s.dlTopicId with
      | none => simp [hdl]
      | some d =>
        simp only [hdl, id_eq]
        split
        · rename_i hc
          exfalso
          have hmem : d ∈ victims := by simpa using hc
          obtain ⟨t, dd, ht, _, _, hno⟩ := hv d hmem
          have := hids d hmem t ht
          exact hno s hs (by rw [hdl, this])
        · rfl

/-- **C15 (progress)**: whenever a job's candidate set is non-empty, every allowed observation
    deletes at least one row (`LIMIT max` with `max ≥ 1` returns `min max |candidates| ≥ 1` ids). -/
theorem C15_progress {α} (rows : List α) (lookup : Id → Option α) (p : α → Bool) (victims : List Id) (max : Nat)
    (hmax : 1 ≤ max) (hne : rows.filter p ≠ []) (h : limitOk rows lookup p victims max = true) : 1 ≤ victims.length := by
  unfold limitOk at h
  simp only [Bool.and_eq_true, beq_iff_eq] at h
  have : 1 ≤ (rows.filter p).length := by
    cases hf : rows.filter p with
    | nil => exact absurd hf hne
    | cons a r => simp
  rw [h.1.2]
  omega

/-- the six prune jobs and the expiry job of the model, each with the action it has to run -/
def expectedServices : List (String × String) :=
  [("delete-expired-subscriptions", "NewDeleteExpiredSubscriptions"),
   ("prune-completed-deliveries", "NewPruneCompletedDeliveries"),
   ("prune-completed-messages", "NewPruneCompletedMessages"),
   ("prune-deleted-subscription-deliveries", "NewPruneDeletedSubscriptionDeliveries"),
   ("prune-deleted-subscriptions", "NewPruneDeletedSubscriptions"),
   ("prune-deleted-topics", "NewPruneDeletedTopics"),
   ("prune-expired-deliveries", "NewPruneExpiredDeliveries")]

/-- **C15 (every job is deployed)**: among the maintenance services registered by the server are the
    six prune jobs and the expiry job, each wired to its own action — no job of the model is missing
    from the deployment and none of them runs another job's action (regenerated from
    `services/prune-common.go` on every run).  A further service, should one be added, is not this
    statement's business. -/
theorem C15_services_wired :
    (∀ e ∈ expectedServices, e ∈ Extracted.pruneServices) ∧
    (∀ e ∈ Extracted.pruneServices, ∀ x ∈ expectedServices, e.1 = x.1 → e = x) := by decide

end Mmmbbb
