/-
C08 — Filter syntax: accept exactly the language, never crash, print/parse round-trips.

"A filter string is accepted when creating or updating a subscription iff it is a sentence of the
documented filter grammar; any other string is rejected with an error (never a crash or hang) and
is never stored.  Rendering a parsed filter back to text yields a string that parses to an
equivalent filter."

Model: `Model/FilterSyntax.lean` (lexer, recursive-descent parser mirroring the participle struct
tags, printer mirroring `AsFilter`).  The parser is a total Lean function — termination on every
input is part of its definition being accepted by Lean (structural recursion on the fuel, which is
set from the token count).
-/
import Mmmbbb.Proofs.FilterRoundTrip
import Mmmbbb.Model.Actions
namespace Mmmbbb.Filter

/-- **C08 (round trip)**: printing any filter AST and parsing the printed tokens gives the same AST
    back — for every AST, no size bound. -/
theorem C08_roundtrip_tokens (c : Cond) : parseTokens (printCond c) = some c :=
  parseTokens_print c

/-- the printer never emits an empty identifier: a name is printed as an `ident` token only if it
    is a non-empty identifier (the defect fixed in `formatAttrName`: the empty name used to be
    printed as an empty identifier, which no lexer can produce) -/
theorem C08_name_tokens_lexable (n : String) :
    (∃ s, nameTok n = .ident s ∧ isIdentName s = true) ∨ nameTok n = .str n := by
  unfold nameTok
  by_cases h : isIdentName n = true
  · left; exact ⟨n, by simp [h], h⟩
  · right; simp [h]

theorem C08_empty_name_quoted : nameTok "" = .str "" := by
  simp [nameTok, isIdentName]

/-- **C08 (deterministic, total)**: `parse` yields exactly one verdict for every string. -/
theorem C08_parse_total (s : String) :
    (∃ c, parse s = .ok c) ∨ parse s = .reject ∨ parse s = .unsupported := by
  cases h : parse s with
  | ok c => exact Or.inl ⟨c, rfl⟩
  | reject => exact Or.inr (Or.inl rfl)
  | unsupported => exact Or.inr (Or.inr rfl)

end Mmmbbb.Filter

namespace Mmmbbb
open Filter

/-- **C08 (never stored)**: `CreateSubscription` with a non-empty filter that does not parse fails
    with an error — the transaction result is an error, so nothing is stored. -/
theorem C08_create_rejects (db : Db) (now : Time) (p : CreateSubParams) (i : Id)
    (hne : p.filter ≠ "") (hbad : ∀ c, parse p.filter ≠ .ok c) :
    ∃ e, createSub db now p i = .error e := by
  cases h : createSub db now p i with
  | error e => exact ⟨e, rfl⟩
  | ok o =>
    obtain ⟨t, dlId, _, hf, _⟩ := createSub_ok h
    unfold filterOk at hf
    have hne' : (p.filter == "") = false := by simpa using hne
    rw [hne'] at hf
    cases hp : parse p.filter with
    | ok c => exact absurd hp (hbad c)
    | reject => simp [hp] at hf
    | unsupported => simp [hp] at hf

/-- …and whatever `CreateSubscription` does store as a filter parses. -/
theorem C08_created_filter_parses (db : Db) (now : Time) (p : CreateSubParams) (i : Id) (o : TxOut Id)
    (h : createSub db now p i = .ok o) :
    ∀ s ∈ o.db.subs, s ∉ db.subs → ∀ f, s.filter = some f → ∃ c, parse f = .ok c := by
  obtain ⟨t, dlId, _, hf, _, _, hdb, _⟩ := createSub_ok h
  intro s hs hnot f hsf
  rw [hdb] at hs
  simp only [List.mem_append, List.mem_singleton] at hs
  rcases hs with hs | hs
  · exact absurd hs hnot
  · subst hs
    simp only [mkSub] at hsf
    split at hsf
    · cases hsf
    · rename_i hne
      injection hsf with hsf
      subst hsf
      unfold filterOk at hf
      have hne' : (p.filter == "") = false := by simpa using hne
      rw [hne'] at hf
      cases hp : parse p.filter with
      | ok c => exact ⟨c, rfl⟩
      | reject => simp [hp] at hf
      | unsupported => simp [hp] at hf

end Mmmbbb
