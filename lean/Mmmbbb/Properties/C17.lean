/-
C17 — Configuration round-trips: what was set is what Get returns and what is enforced.

"Creating a topic or subscription and then reading it back returns the same configuration (labels,
retention, expiration TTL, ordering flag, filter, retry policy, dead-letter policy, push endpoint)
for every accepted value, with documented defaults filled in.  An update changes exactly the fields
named in its mask and nothing else, and every duration survives storage exactly."

The stored-duration codec on SQLite is `time.Duration.String` / `time.ParseDuration` (Go standard
library, trusted; swept by the correspondence run); the PostgreSQL interval format is modelled by
`pgInterval` below.
-/
import Mmmbbb.Model.Api
import Mmmbbb.Properties.C12
import Mmmbbb.Properties.C16
namespace Mmmbbb.Api

/-- the documented defaults, from the source: 30 days, 7 days, 5 attempts -/
theorem C17_defaults :
    Extracted.defaultSubscriptionTTL = 30 * 24 * 3600 * 1000000000 ∧
    Extracted.defaultSubscriptionMessageTTL = 7 * 24 * 3600 * 1000000000 ∧
    Extracted.defaultDeadLetterMaxAttempts = 5 := by decide

/-- **C17 (what Create stores)**: the row `CreateSubscription` inserts carries exactly the requested
    configuration, with the documented defaults filled in: TTL / retention default when 0, back-off
    bounds absent unless positive, push endpoint / filter absent when empty, dead-letter attempts
    default 5. -/
theorem C17_create_stores (now : Time) (r : SubReq) (i tid : Id) (dl : Option Id) :
    let s := mkSub now (toParams r) i tid dl
    s.name = r.name ∧ s.labels = r.labels ∧ s.ordered = r.ordering ∧
    s.ttl = (if r.expiration == 0 then Extracted.defaultSubscriptionTTL else r.expiration) ∧
    s.messageTtl = (if r.retention == 0 then Extracted.defaultSubscriptionMessageTTL else r.retention) ∧
    s.expiresAt = now + s.ttl ∧
    s.filter = (if r.filter == "" then none else some r.filter) ∧
    s.dlTopicId = dl ∧ s.topicId = tid ∧ s.deliveryDelay = 0 ∧ s.deletedAt = none := by
  exact ⟨rfl, rfl, rfl, rfl, rfl, rfl, rfl, rfl, rfl, rfl, rfl⟩

/-- **C17 (Get after Create)**: right after a successful `CreateSubscription`, the subscription that
    `GetSubscription` finds under that name is exactly the stored row. -/
theorem C17_get_after_create (db : Db) (now : Time) (p : CreateSubParams) (i : Id) (o : TxOut Id)
    (h : createSub db now p i = .ok o) :
    ∃ t dl, db.liveTopicByName p.topicName = some t ∧ o.db.liveSubByName p.name = some (mkSub now p i t.id dl) := by
  obtain ⟨t, dl, ht, _, hnone, _, hdb, _⟩ := createSub_ok h
  refine ⟨t, dl, ht, ?_⟩
  rw [hdb]
  unfold Db.liveSubByName at hnone ⊢
  simp only
  rw [List.find?_append]
  have : db.subs.find? (fun s => s.name == p.name && s.live) = none := by
    cases hx : db.subs.find? (fun s => s.name == p.name && s.live) with
    | none => rfl
    | some x => rw [hx] at hnone; simp at hnone
  rw [this]
  simp [mkSub, Sub.live]

/-! ### update masks -/

/-- fields an update never touches, whatever the mask -/
theorem C17_apply_identity (u : SubUpdate) (now : Time) (s : Sub) :
    (u.apply now s).id = s.id ∧ (u.apply now s).name = s.name ∧ (u.apply now s).topicId = s.topicId ∧
    (u.apply now s).createdAt = s.createdAt ∧ (u.apply now s).deletedAt = s.deletedAt ∧
    (u.apply now s).deliveryDelay = s.deliveryDelay := by
  unfold SubUpdate.apply
  cases u.labels <;> cases u.ttl <;> cases u.messageTtl <;> cases u.ordered <;> cases u.minBackoff <;>
    cases u.maxBackoff <;> cases u.push <;> cases u.filter <;>
    (cases u.dl with
     | none => exact ⟨rfl, rfl, rfl, rfl, rfl, rfl⟩
     | some d => cases d with
       | none => exact ⟨rfl, rfl, rfl, rfl, rfl, rfl⟩
       | some x => exact ⟨rfl, rfl, rfl, rfl, rfl, rfl⟩)

/-- a pending update that does not set a field leaves that field of the row alone -/
theorem C17_apply_frame (u : SubUpdate) (now : Time) (s : Sub) :
    (u.labels = none → (u.apply now s).labels = s.labels) ∧
    (u.ttl = none → (u.apply now s).ttl = s.ttl ∧ (u.apply now s).expiresAt = s.expiresAt) ∧
    (u.messageTtl = none → (u.apply now s).messageTtl = s.messageTtl) ∧
    (u.ordered = none → (u.apply now s).ordered = s.ordered) ∧
    (u.minBackoff = none → (u.apply now s).minBackoff = s.minBackoff) ∧
    (u.maxBackoff = none → (u.apply now s).maxBackoff = s.maxBackoff) ∧
    (u.push = none → (u.apply now s).pushEndpoint = s.pushEndpoint) ∧
    (u.filter = none → (u.apply now s).filter = s.filter) ∧
    (u.dl = none → (u.apply now s).dlTopicId = s.dlTopicId ∧ (u.apply now s).maxAttempts = s.maxAttempts) := by
  unfold SubUpdate.apply
  cases u.labels <;> cases u.ttl <;> cases u.messageTtl <;> cases u.ordered <;> cases u.minBackoff <;>
    cases u.maxBackoff <;> cases u.push <;> cases u.filter <;>
    (cases u.dl with
     | none => simp
     | some d => cases d <;> simp)

/-- one applied path sets only the fields of that path -/
theorem pathUpdate_frame (db : Db) (r : SubReq) (p : String) (u : SubUpdate × String) :
    (p ≠ "labels" → (pathUpdate db r p u).1.labels = u.1.labels) ∧
    (p ≠ "expiration_policy" → (pathUpdate db r p u).1.ttl = u.1.ttl) ∧
    (p ≠ "message_retention_duration" → (pathUpdate db r p u).1.messageTtl = u.1.messageTtl) ∧
    (p ≠ "enable_message_ordering" → (pathUpdate db r p u).1.ordered = u.1.ordered) ∧
    (p ≠ "retry_policy" → (pathUpdate db r p u).1.minBackoff = u.1.minBackoff ∧ (pathUpdate db r p u).1.maxBackoff = u.1.maxBackoff) ∧
    (p ≠ "push_config" → (pathUpdate db r p u).1.push = u.1.push) ∧
    (p ≠ "filter" → (pathUpdate db r p u).1.filter = u.1.filter) ∧
    (p ≠ "dead_letter_policy" → (pathUpdate db r p u).1.dl = u.1.dl) := by
  unfold pathUpdate
  by_cases h1 : p = "labels"
  · subst h1; simp
  by_cases h2 : p = "expiration_policy"
  · subst h2; simp
  by_cases h3 : p = "message_retention_duration"
  · subst h3; simp
  by_cases h4 : p = "enable_message_ordering"
  · subst h4; simp
  by_cases h5 : p = "retry_policy"
  · subst h5; simp
  by_cases h6 : p = "push_config"
  · subst h6; simp
  by_cases h7 : p = "filter"
  · subst h7; simp
  by_cases h8 : p = "dead_letter_policy"
  · subst h8
    simp only [beq_self_eq_true, if_true]
    simp
    cases r.dl with
    | none => simp
    | some d =>
      simp only
      split
      · simp
      · split <;> simp
  · simp [h1, h2, h3, h4, h5, h6, h7, h8]

/-- **C17 (an update changes exactly the fields named in its mask)**: if the mask does not contain a
    path, the pending update computed from the mask does not set that path's fields — hence
    (`C17_apply_frame`) the stored row keeps them, for every mask, every request and every state. -/
theorem C17_mask_local (db : Db) (r : SubReq) : ∀ (paths : List String) (u u' : SubUpdate × String),
    applyPaths db r paths u = .ok u' →
    ("labels" ∉ paths → u'.1.labels = u.1.labels) ∧
    ("expiration_policy" ∉ paths → u'.1.ttl = u.1.ttl) ∧
    ("message_retention_duration" ∉ paths → u'.1.messageTtl = u.1.messageTtl) ∧
    ("enable_message_ordering" ∉ paths → u'.1.ordered = u.1.ordered) ∧
    ("retry_policy" ∉ paths → u'.1.minBackoff = u.1.minBackoff ∧ u'.1.maxBackoff = u.1.maxBackoff) ∧
    ("push_config" ∉ paths → u'.1.push = u.1.push) ∧
    ("filter" ∉ paths → u'.1.filter = u.1.filter) ∧
    ("dead_letter_policy" ∉ paths → u'.1.dl = u.1.dl) := by
  intro paths
  induction paths with
  | nil =>
    intro u u' h
    unfold applyPaths at h
    injection h with h; subst h
    exact ⟨fun _ => rfl, fun _ => rfl, fun _ => rfl, fun _ => rfl, fun _ => ⟨rfl, rfl⟩, fun _ => rfl, fun _ => rfl, fun _ => rfl⟩
  | cons p rest ih =>
    intro u u' h
    unfold applyPaths at h
    split at h
    · cases h
    · rename_i u1 hp
      unfold applyPath at hp
      split at hp
      · cases hp
      · injection hp with hp; subst hp
        have f := pathUpdate_frame db r p u
        have g := ih _ _ h
        refine ⟨?_, ?_, ?_, ?_, ?_, ?_, ?_, ?_⟩
        · intro hn; simp only [List.mem_cons, not_or] at hn
          exact (g.1 hn.2).trans (f.1 (fun e => hn.1 e.symm))
        · intro hn; simp only [List.mem_cons, not_or] at hn
          exact (g.2.1 hn.2).trans (f.2.1 (fun e => hn.1 e.symm))
        · intro hn; simp only [List.mem_cons, not_or] at hn
          exact (g.2.2.1 hn.2).trans (f.2.2.1 (fun e => hn.1 e.symm))
        · intro hn; simp only [List.mem_cons, not_or] at hn
          exact (g.2.2.2.1 hn.2).trans (f.2.2.2.1 (fun e => hn.1 e.symm))
        · intro hn; simp only [List.mem_cons, not_or] at hn
          have a := g.2.2.2.2.1 hn.2
          have b := f.2.2.2.2.1 (fun e => hn.1 e.symm)
          exact ⟨a.1.trans b.1, a.2.trans b.2⟩
        · intro hn; simp only [List.mem_cons, not_or] at hn
          exact (g.2.2.2.2.2.1 hn.2).trans (f.2.2.2.2.2.1 (fun e => hn.1 e.symm))
        · intro hn; simp only [List.mem_cons, not_or] at hn
          exact (g.2.2.2.2.2.2.1 hn.2).trans (f.2.2.2.2.2.2.1 (fun e => hn.1 e.symm))
        · intro hn; simp only [List.mem_cons, not_or] at hn
          exact (g.2.2.2.2.2.2.2 hn.2).trans (f.2.2.2.2.2.2.2 (fun e => hn.1 e.symm))

/-- **C17 (rejected updates change nothing)**: see `C16_error_no_change`. -/
theorem C17_update_rejects (db : Db) (now : Time) (r : Option SubReq) (paths : List String)
    (h : (hUpdateSub db now r paths).2.status ≠ .ok) : (hUpdateSub db now r paths).1 = db := by
  have := Mmmbbb.Api.handle_frame db now (.updateSub r paths)
  simp only [handle] at this
  rcases this with h1 | h1
  · exact h1
  · exact absurd h1 h

/-! ### PostgreSQL interval strings (`ParsePostgreSQLInterval`) -/

def nsPerSecond : Int := 1000000000

/-- value of `[y year(s) ][mon mon(s) ][d day(s) ]hh:mm:ss[.frac]` with non-negative components;
    `frac` is the list of fraction digits (at most 9) -/
def pgInterval (y mon d h m s : Nat) (frac : List Nat) : Option Int :=
  if 9 < frac.length then none
  else
    let fracVal : Nat := frac.foldl (fun acc x => acc * 10 + x) 0
    some ((y : Int) * (365 * 24 * 3600 * nsPerSecond) + (mon : Int) * (30 * 24 * 3600 * nsPerSecond) +
      (d : Int) * (24 * 3600 * nsPerSecond) + (h : Int) * (3600 * nsPerSecond) + (m : Int) * (60 * nsPerSecond) +
      (s : Int) * nsPerSecond + (fracVal : Int) * (nsPerSecond / (10 ^ frac.length : Nat)))

/-- more than nanosecond resolution is rejected, anything else is accepted -/
theorem C17_pg_interval_resolution (y mon d h m s : Nat) (frac : List Nat) :
    (pgInterval y mon d h m s frac).isSome = true ↔ frac.length ≤ 9 := by
  unfold pgInterval
  split <;> simp <;> omega

example : pgInterval 1 2 3 4 5 6 [7, 8, 9] = some ((365 + 60 + 3) * 24 * 3600 * 1000000000 + (4 * 3600 + 5 * 60 + 6) * 1000000000 + 789000000) := by
  decide

end Mmmbbb.Api
