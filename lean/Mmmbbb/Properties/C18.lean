/-
C18 — An injected fault fires exactly its count, only on matching calls.

"A fault injected for an operation with a parameter set and a count N makes exactly
min(N, number of matching calls) calls fail, however many callers race; a call matches only if the
operation is equal and every injected parameter equals the call's parameter.  Calls that do not
match are never failed, and an exhausted fault disappears from the listing."

`Faults.Sys` interleaves any number of concurrent `Check` callers at the granularity the code
synchronises on: the match (under the read lock) and the atomic decrement are separate steps, and
a negative result restarts the call.  All theorems hold for every schedule.
-/
import Mmmbbb.Model.Faults
import Mmmbbb.Extracted
namespace Mmmbbb.Faults

/-- the shape of `Set.Check` the model encodes, as found in the source by the extractor:
    match, atomic add of -1, retry when the result is negative, otherwise fire -/
theorem C18_check_shape :
    Extracted.faultsCheckShape = ["match", "atomic-add:-1", "prune-if<=0", "retry-if<0", "fire"] ∧
    Extracted.faultsMatchShape = ["if:atomic.LoadInt64()<=?", "if:d.Operation!=op", "range:d.Parameters", "return:true"] := by
  decide

/-- the model's `match` step reads the description list as one atomic step; in the source that is the
    read lock of `Set.match`, held (deferred unlock) over the whole walk — `prune` compacts the same
    backing array under the write lock, so a walk outside the lock can pass a live description by -/
theorem C18_match_walks_under_lock :
    Extracted.faultsSetMatchLock = ["RLock", "defer:RUnlock", "assign", "range", "return"] := by
  decide

def cnt (ds : List Desc) (i : Nat) : Int := match ds[i]? with | some d => d.count | none => 0
def pos (x : Int) : Int := if 0 < x then x else 0
def fires (cs : List Caller) (i : Nat) : Nat := cs.countP (fun c => c.phase == Phase.fired i)

theorem beq_start_fired (i : Nat) : (Phase.start == Phase.fired i) = false := by
  apply beq_false_of_ne; intro h; cases h
theorem beq_passed_fired (i : Nat) : (Phase.passed == Phase.fired i) = false := by
  apply beq_false_of_ne; intro h; cases h
theorem beq_matched_fired (j i : Nat) : (Phase.matched j == Phase.fired i) = false := by
  apply beq_false_of_ne; intro h; cases h
theorem beq_fired_fired_ne (j i : Nat) (h : j ≠ i) : (Phase.fired j == Phase.fired i) = false := by
  apply beq_false_of_ne; intro e; injection e with e; exact h e

theorem pos_nonneg (x : Int) : 0 ≤ pos x := by unfold pos; split <;> omega

structure FInv (ds0 : List Desc) (s : Sys) : Prop where
  same : ∀ (i : Nat) (d0 : Desc), ds0[i]? = some d0 →
          ∃ d : Desc, s.descs[i]? = some d ∧ d.op = d0.op ∧ d.params = d0.params
  none : ∀ i : Nat, ds0[i]? = none → s.descs[i]? = none
  bal : ∀ (i : Nat) (d0 : Desc), ds0[i]? = some d0 → (fires s.callers i : Int) + pos (cnt s.descs i) = pos d0.count
  fit : ∀ (k : Nat) (c : Caller) (i : Nat), s.callers[k]? = some c →
          (c.phase = Phase.matched i ∨ c.phase = Phase.fired i) →
          ∃ d0 : Desc, ds0[i]? = some d0 ∧ d0.fits c.op c.params = true

theorem decr_get (ds : List Desc) (i j : Nat) :
    (decr ds i)[j]? = (ds[j]?).map (fun (d : Desc) => if j == i then { d with count := d.count - 1 } else d) := by
  unfold decr
  rw [List.getElem?_mapIdx]

theorem findMatch_spec {ds : List Desc} {op : String} {params : Params} {i : Nat}
    (h : findMatch ds op params = some i) : ∃ d, ds[i]? = some d ∧ d.matches op params = true := by
  unfold findMatch at h
  obtain ⟨hlt, hp, _⟩ := List.findIdx?_eq_some_iff_getElem.mp h
  exact ⟨ds[i], by simp [hlt], hp⟩

theorem fires_set_same (cs : List Caller) (k : Nat) (c c' : Caller) (i : Nat) (hk : cs[k]? = some c)
    (hp : (c'.phase == Phase.fired i) = (c.phase == Phase.fired i)) : fires (cs.set k c') i = fires cs i := by
  unfold fires
  have hlt : k < cs.length := by
    cases h : decide (k < cs.length) with
    | true => exact of_decide_eq_true h
    | false =>
      have : ¬ k < cs.length := of_decide_eq_false h
      rw [List.getElem?_eq_none (by omega)] at hk; cases hk
  rw [List.countP_set hlt]
  have hck : cs[k] = c := by
    have := List.getElem?_eq_getElem hlt
    rw [this] at hk; injection hk
  rw [hck, hp]
  have : (if (c.phase == Phase.fired i) = true then 1 else 0) ≤ List.countP (fun c => c.phase == Phase.fired i) cs := by
    split
    · rename_i h
      have hm : c ∈ cs := hck ▸ List.getElem_mem hlt
      exact List.countP_pos_iff.mpr ⟨c, hm, h⟩
    · omega
  omega

theorem fires_set_new (cs : List Caller) (k : Nat) (c c' : Caller) (i : Nat) (hk : cs[k]? = some c)
    (h1 : (c.phase == Phase.fired i) = false) (h2 : (c'.phase == Phase.fired i) = true) :
    fires (cs.set k c') i = fires cs i + 1 := by
  unfold fires
  have hlt : k < cs.length := by
    cases h : decide (k < cs.length) with
    | true => exact of_decide_eq_true h
    | false =>
      have : ¬ k < cs.length := of_decide_eq_false h
      rw [List.getElem?_eq_none (by omega)] at hk; cases hk
  rw [List.countP_set hlt]
  have hck : cs[k] = c := by
    have := List.getElem?_eq_getElem hlt
    rw [this] at hk; injection hk
  rw [hck, h1, h2]
  simp

theorem get_set_callers (cs : List Caller) (k j : Nat) (c' c2 : Caller) (h : (cs.set k c')[j]? = some c2) :
    (j = k ∧ c2 = c') ∨ (j ≠ k ∧ cs[j]? = some c2) := by
  rw [List.getElem?_set] at h
  split at h
  · rename_i e
    split at h
    · injection h with h; exact Or.inl ⟨e.symm, h.symm⟩
    · cases h
  · rename_i e
    exact Or.inr ⟨fun x => e x.symm, h⟩

theorem inv_init (ds0 : List Desc) (cs : List Caller) (h : ∀ c ∈ cs, c.phase = .start) :
    FInv ds0 { descs := ds0, callers := cs } := by
  refine ⟨fun i d0 hd => ⟨d0, hd, rfl, rfl⟩, fun i hn => hn, ?_, ?_⟩
  · intro i d0 hd
    have : fires cs i = 0 := by
      unfold fires
      apply List.countP_eq_zero.mpr
      intro c hc
      rw [h c hc]; simp
    simp [this, cnt, hd]
  · intro k c i hk hph
    have hc : c ∈ cs := List.mem_of_getElem? hk
    rw [h c hc] at hph
    rcases hph with h1 | h1 <;> cases h1

theorem inv_step (ds0 : List Desc) (s : Sys) (k : Nat) (hinv : FInv ds0 s) : FInv ds0 (s.step k) := by
  unfold Sys.step
  cases hk : s.callers[k]? with
  | none => exact hinv
  | some c =>
    simp only
    unfold stepCaller
    cases hph : c.phase with
    | start =>
      simp only
      cases hm : findMatch s.descs c.op c.params with
      | none =>
        simp only
        refine ⟨hinv.same, hinv.none, ?_, ?_⟩
        · intro i d0 hd
          rw [fires_set_same _ _ c _ _ hk (by simp only [hph, beq_start_fired, beq_passed_fired])]
          exact hinv.bal i d0 hd
        · intro j c2 i hj hp2
          rcases get_set_callers _ _ _ _ _ hj with ⟨_, rfl⟩ | ⟨_, hj'⟩
          · rcases hp2 with h1 | h1 <;> cases h1
          · exact hinv.fit j c2 i hj' hp2
      | some i0 =>
        simp only
        obtain ⟨d, hd, hmatch⟩ := findMatch_spec hm
        refine ⟨hinv.same, hinv.none, ?_, ?_⟩
        · intro i d0 hd0
          rw [fires_set_same _ _ c _ _ hk (by simp only [hph, beq_start_fired, beq_matched_fired])]
          exact hinv.bal i d0 hd0
        · intro j c2 i hj hp2
          rcases get_set_callers _ _ _ _ _ hj with ⟨_, rfl⟩ | ⟨_, hj'⟩
          · rcases hp2 with h1 | h1
            · injection h1 with h1; subst h1
              cases hd0 : ds0[i0]? with
              | none => have := hinv.none i0 hd0; rw [this] at hd; cases hd
              | some d0 =>
                obtain ⟨d', hd', ho, hpr⟩ := hinv.same i0 d0 hd0
                rw [hd] at hd'; injection hd' with hd'; subst hd'
                refine ⟨d0, rfl, ?_⟩
                unfold Desc.matches at hmatch
                simp only [Bool.and_eq_true] at hmatch
                unfold Desc.fits at *
                rw [← ho, ← hpr]; exact hmatch.2
            · cases h1
          · exact hinv.fit j c2 i hj' hp2
    | matched i0 =>
      simp only
      cases hd : s.descs[i0]? with
      | none =>
        simp only
        refine ⟨hinv.same, hinv.none, ?_, ?_⟩
        · intro i d0 hd0
          rw [fires_set_same _ _ c _ _ hk (by simp only [hph, beq_passed_fired, beq_matched_fired])]
          exact hinv.bal i d0 hd0
        · intro j c2 i hj hp2
          rcases get_set_callers _ _ _ _ _ hj with ⟨_, rfl⟩ | ⟨_, hj'⟩
          · rcases hp2 with h1 | h1 <;> cases h1
          · exact hinv.fit j c2 i hj' hp2
      | some d =>
        simp only
        have hsame' : ∀ (i : Nat) (d0 : Desc), ds0[i]? = some d0 →
            ∃ d' : Desc, (decr s.descs i0)[i]? = some d' ∧ d'.op = d0.op ∧ d'.params = d0.params := by
          intro i d0 hd0
          obtain ⟨d', hd', ho, hpr⟩ := hinv.same i d0 hd0
          rw [decr_get, hd']
          refine ⟨_, rfl, ?_, ?_⟩ <;> (simp only; split <;> assumption)
        have hnone' : ∀ i : Nat, ds0[i]? = none → (decr s.descs i0)[i]? = none := by
          intro i hn; rw [decr_get, hinv.none i hn]; rfl
        have hcnt : ∀ i : Nat, cnt (decr s.descs i0) i = if i = i0 then cnt s.descs i - (if (s.descs[i]?).isSome then 1 else 0) else cnt s.descs i := by
          intro i
          unfold cnt
          rw [decr_get]
          cases hx : s.descs[i]? with
          | none => simp
          | some x =>
            by_cases e : i = i0
            · subst e; simp
            · have : (i == i0) = false := by simpa using e
              simp [this, e]
        split
        · -- remaining < 0: retry
          rename_i hneg
          refine ⟨hsame', hnone', ?_, ?_⟩
          · intro i d0 hd0
            rw [fires_set_same _ _ c _ _ hk (by simp only [hph, beq_start_fired, beq_matched_fired]), hcnt]
            have hb := hinv.bal i d0 hd0
            by_cases e : i = i0
            · subst e
              simp only [if_true, hd, Option.isSome_some]
              have : cnt s.descs i = d.count := by unfold cnt; rw [hd]
              rw [this] at hb ⊢
              unfold pos at hb ⊢
              split at hb <;> split <;> omega
            · simp only [e, if_false]; exact hb
          · intro j c2 i hj hp2
            rcases get_set_callers _ _ _ _ _ hj with ⟨_, rfl⟩ | ⟨_, hj'⟩
            · rcases hp2 with h1 | h1 <;> cases h1
            · exact hinv.fit j c2 i hj' hp2
        · -- fire
          rename_i hnn
          refine ⟨hsame', hnone', ?_, ?_⟩
          · intro i d0 hd0
            have hb := hinv.bal i d0 hd0
            by_cases e : i = i0
            · subst e
              rw [fires_set_new _ _ c _ _ hk (by simp only [hph, beq_matched_fired]) (by simp), hcnt]
              simp only [if_true, hd, Option.isSome_some]
              have : cnt s.descs i = d.count := by unfold cnt; rw [hd]
              rw [this] at hb ⊢
              unfold pos at hb ⊢
              split at hb <;> split <;> (push_cast; omega)
            · rw [fires_set_same _ _ c _ _ hk (by
                simp only [hph, beq_matched_fired, beq_fired_fired_ne i0 i (fun x => e x.symm)]), hcnt]
              simp only [e, if_false]; exact hb
          · intro j c2 i hj hp2
            rcases get_set_callers _ _ _ _ _ hj with ⟨_, rfl⟩ | ⟨_, hj'⟩
            · have := hinv.fit k c i0 hk (Or.inl hph)
              rcases hp2 with h1 | h1
              · cases h1
              · injection h1 with h1; subst h1; exact this
            · exact hinv.fit j c2 i hj' hp2
    | fired i0 =>
      simp only
      have : s.callers.set k c = s.callers := by
        apply List.ext_getElem?
        intro j
        rw [List.getElem?_set]
        split
        · rename_i e; subst e
          split
          · exact hk.symm
          · rename_i hl; rw [List.getElem?_eq_none (by omega)]
        · rfl
      rw [this]; exact hinv
    | passed =>
      simp only
      have : s.callers.set k c = s.callers := by
        apply List.ext_getElem?
        intro j
        rw [List.getElem?_set]
        split
        · rename_i e; subst e
          split
          · exact hk.symm
          · rename_i hl; rw [List.getElem?_eq_none (by omega)]
        · rfl
      rw [this]; exact hinv

theorem inv_run (ds0 : List Desc) (sched : List Nat) : ∀ (s : Sys), FInv ds0 s → FInv ds0 (s.run sched) := by
  induction sched with
  | nil => intro s h; exact h
  | cons k r ih => intro s h; exact ih _ (inv_step ds0 s k h)

/-- **C18 (never over)**: for every number of callers, every schedule and every mix of descriptions,
    the number of calls failed through description `i` never exceeds its injected count. -/
theorem C18_never_over (ds0 : List Desc) (cs : List Caller) (hstart : ∀ c ∈ cs, c.phase = .start)
    (sched : List Nat) (i : Nat) (d0 : Desc) (hd : ds0[i]? = some d0) :
    (fires (Sys.run { descs := ds0, callers := cs } sched).callers i : Int) ≤ pos d0.count := by
  have := (inv_run ds0 sched _ (inv_init ds0 cs hstart)).bal i d0 hd
  have h2 := pos_nonneg (cnt (Sys.run { descs := ds0, callers := cs } sched).descs i)
  omega

/-- **C18 (only matching calls fail)**: a call is failed only through a description with the same
    operation all of whose injected parameters equal the call's parameters. -/
theorem C18_only_matching (ds0 : List Desc) (cs : List Caller) (hstart : ∀ c ∈ cs, c.phase = .start)
    (sched : List Nat) (k : Nat) (c : Caller) (i : Nat)
    (hk : (Sys.run { descs := ds0, callers := cs } sched).callers[k]? = some c) (hf : c.phase = .fired i) :
    ∃ d0, ds0[i]? = some d0 ∧ d0.op = c.op ∧ ∀ kv ∈ d0.params, Params.get? c.params kv.1 = some kv.2 := by
  obtain ⟨d0, hd0, hfit⟩ := (inv_run ds0 sched _ (inv_init ds0 cs hstart)).fit k c i hk (Or.inr hf)
  refine ⟨d0, hd0, ?_, ?_⟩
  · unfold Desc.fits at hfit
    simp only [Bool.and_eq_true, beq_iff_eq] at hfit
    exact hfit.1
  · unfold Desc.fits at hfit
    simp only [Bool.and_eq_true] at hfit
    intro kv hkv
    have := List.all_eq_true.mp hfit.2 kv hkv
    simpa using this

/-! ### exactly min(N, matching calls), for one description -/

/-- every caller of the system is a matching call of the single description -/
def AllFit (d0 : Desc) (cs : List Caller) : Prop := ∀ c ∈ cs, d0.fits c.op c.params = true

/-- a call that returned nil saw the (only) description exhausted -/
def PassedSawExhausted (s : Sys) : Prop :=
  ∀ (k : Nat) (c : Caller), s.callers[k]? = some c → c.phase = Phase.passed → cnt s.descs 0 ≤ 0

theorem stepCaller_same (ds : List Desc) (c : Caller) :
    (stepCaller ds c).2.op = c.op ∧ (stepCaller ds c).2.params = c.params := by
  unfold stepCaller
  cases c.phase with
  | start => simp only; cases findMatch ds c.op c.params <;> exact ⟨rfl, rfl⟩
  | matched i =>
    simp only
    cases ds[i]? with
    | none => exact ⟨rfl, rfl⟩
    | some d => simp only; split <;> exact ⟨rfl, rfl⟩
  | fired i => exact ⟨rfl, rfl⟩
  | passed => exact ⟨rfl, rfl⟩

theorem callers_fit_step (d0 : Desc) (s : Sys) (k : Nat) (h : AllFit d0 s.callers) : AllFit d0 (s.step k).callers := by
  unfold Sys.step
  cases hk : s.callers[k]? with
  | none => exact h
  | some c =>
    simp only
    have hc : d0.fits c.op c.params = true := h c (List.mem_of_getElem? hk)
    intro c2 hc2
    obtain ⟨j, hj⟩ := List.mem_iff_getElem?.mp hc2
    rcases get_set_callers _ _ _ _ _ hj with ⟨_, rfl⟩ | ⟨_, hj'⟩
    · have := stepCaller_same s.descs c
      rw [this.1, this.2]; exact hc
    · exact h c2 (List.mem_of_getElem? hj')

theorem passed_step (d0 : Desc) (s : Sys) (k : Nat) (hinv : FInv [d0] s) (hfit : AllFit d0 s.callers)
    (hp : PassedSawExhausted s) : PassedSawExhausted (s.step k) := by
  unfold Sys.step
  cases hk : s.callers[k]? with
  | none => exact hp
  | some c =>
    simp only
    have hc : d0.fits c.op c.params = true := hfit c (List.mem_of_getElem? hk)
    obtain ⟨d, hd, ho, hpr⟩ := hinv.same 0 d0 rfl
    unfold stepCaller
    cases hph : c.phase with
    | start =>
      simp only
      cases hm : findMatch s.descs c.op c.params with
      | none =>
        simp only
        intro j c2 hj hp2
        rcases get_set_callers _ _ _ _ _ hj with ⟨_, rfl⟩ | ⟨_, hj'⟩
        · -- no description matches although `d` fits: its counter is not positive
          unfold findMatch at hm
          have hnm := List.findIdx?_eq_none_iff.mp hm d (List.mem_of_getElem? hd)
          unfold Desc.matches Desc.fits at hnm
          unfold Desc.fits at hc
          rw [ho, hpr, hc] at hnm
          simp only [Bool.and_true, Bool.not_eq_true, decide_eq_false_iff_not] at hnm
          unfold cnt; rw [hd]; simp only; omega
        · exact hp j c2 hj' hp2
      | some i0 =>
        simp only
        intro j c2 hj hp2
        rcases get_set_callers _ _ _ _ _ hj with ⟨_, rfl⟩ | ⟨_, hj'⟩
        · cases hp2
        · exact hp j c2 hj' hp2
    | matched i0 =>
      simp only
      cases hdi : s.descs[i0]? with
      | none =>
        -- impossible: a matched index names an existing description
        exfalso
        obtain ⟨d1, hd1, _⟩ := hinv.fit k c i0 hk (Or.inl hph)
        obtain ⟨d2, hd2, _⟩ := hinv.same i0 d1 hd1
        rw [hdi] at hd2; cases hd2
      | some dd =>
        simp only
        have hle : cnt (decr s.descs i0) 0 ≤ cnt s.descs 0 := by
          unfold cnt
          rw [decr_get, hd]
          simp only [Option.map_some]
          split <;> simp <;> omega
        split
        · intro j c2 hj hp2
          rcases get_set_callers _ _ _ _ _ hj with ⟨_, rfl⟩ | ⟨_, hj'⟩
          · cases hp2
          · have := hp j c2 hj' hp2
            show cnt (decr s.descs i0) 0 ≤ 0
            omega
        · intro j c2 hj hp2
          rcases get_set_callers _ _ _ _ _ hj with ⟨_, rfl⟩ | ⟨_, hj'⟩
          · cases hp2
          · have := hp j c2 hj' hp2
            show cnt (decr s.descs i0) 0 ≤ 0
            omega
    | fired i0 =>
      simp only
      intro j c2 hj hp2
      rcases get_set_callers _ _ _ _ _ hj with ⟨_, rfl⟩ | ⟨_, hj'⟩
      · rw [hph] at hp2; cases hp2
      · exact hp j c2 hj' hp2
    | passed =>
      simp only
      intro j c2 hj hp2
      rcases get_set_callers _ _ _ _ _ hj with ⟨_, rfl⟩ | ⟨_, hj'⟩
      · exact hp k c2 hk hph
      · exact hp j c2 hj' hp2

theorem run_invs (d0 : Desc) (sched : List Nat) : ∀ s : Sys, FInv [d0] s → AllFit d0 s.callers → PassedSawExhausted s →
    FInv [d0] (s.run sched) ∧ AllFit d0 (s.run sched).callers ∧ PassedSawExhausted (s.run sched) := by
  induction sched with
  | nil => intro s a b c; exact ⟨a, b, c⟩
  | cons k r ih =>
    intro s a b c
    exact ih _ (inv_step [d0] s k a) (callers_fit_step d0 s k b) (passed_step d0 s k a b c)

theorem step_callers_length (s : Sys) (k : Nat) : (s.step k).callers.length = s.callers.length := by
  unfold Sys.step
  cases s.callers[k]? with
  | none => rfl
  | some c => simp

theorem run_callers_length (sched : List Nat) : ∀ s : Sys, (s.run sched).callers.length = s.callers.length := by
  induction sched with
  | nil => intro s; rfl
  | cons k r ih => intro s; exact (ih _).trans (step_callers_length s k)

/-- **C18 (exactly min(N, matching calls))**: one description with count `N ≥ 0`, any number `M` of
    concurrent matching callers, any schedule: once every caller has returned, exactly `min N M`
    of them were failed. -/
theorem C18_exact (d0 : Desc) (hN : 0 ≤ d0.count) (cs : List Caller) (hstart : ∀ c ∈ cs, c.phase = .start)
    (hfit : AllFit d0 cs) (sched : List Nat)
    (hq : ∀ c ∈ (Sys.run { descs := [d0], callers := cs } sched).callers, (∃ i, c.phase = .fired i) ∨ c.phase = .passed) :
    (fires (Sys.run { descs := [d0], callers := cs } sched).callers 0 : Int) = min d0.count cs.length := by
  have h0 : PassedSawExhausted { descs := [d0], callers := cs } := by
    intro k c hk hp
    have := hstart c (List.mem_of_getElem? hk)
    rw [this] at hp; cases hp
  obtain ⟨hinv, _, hpass⟩ := run_invs d0 sched _ (inv_init [d0] cs hstart) hfit h0
  have hlen := run_callers_length sched { descs := [d0], callers := cs }
  generalize Sys.run { descs := [d0], callers := cs } sched = s at *
  have hbal := hinv.bal 0 d0 rfl
  have hposN : pos d0.count = d0.count := by unfold pos; split <;> omega
  rw [hposN] at hbal
  have hle : fires s.callers 0 ≤ s.callers.length := List.countP_le_length
  by_cases hex : ∃ c ∈ s.callers, c.phase = Phase.passed
  · obtain ⟨c, hc, hp⟩ := hex
    obtain ⟨k, hk⟩ := List.mem_iff_getElem?.mp hc
    have hz := hpass k c hk hp
    have hpz : pos (cnt s.descs 0) = 0 := by unfold pos; split <;> omega
    rw [hpz] at hbal
    simp only at hlen
    have : (fires s.callers 0 : Int) ≤ cs.length := by rw [← hlen]; exact_mod_cast hle
    omega
  · -- nobody passed: everybody was failed, through description 0
    have hall : ∀ c ∈ s.callers, (c.phase == Phase.fired 0) = true := by
      intro c hc
      rcases hq c hc with ⟨i, hi⟩ | hp
      · obtain ⟨k, hk⟩ := List.mem_iff_getElem?.mp hc
        obtain ⟨d1, hd1, _⟩ := hinv.fit k c i hk (Or.inr hi)
        have : i = 0 := by
          cases i with
          | zero => rfl
          | succ n => simp at hd1
        subst this
        rw [hi]; simp
      · exact absurd ⟨c, hc, hp⟩ hex
    have hcount : fires s.callers 0 = s.callers.length := List.countP_eq_length.mpr hall
    have hp := pos_nonneg (cnt s.descs 0)
    simp only at hlen
    rw [hcount, hlen] at hbal ⊢
    omega

/-- **C18 (listing)**: the listing shows exactly the descriptions with a positive remaining count, and
    pruning removes exactly the exhausted ones. -/
theorem C18_listing (ds : List Desc) (d : Desc) : d ∈ current ds ↔ d ∈ ds ∧ 0 < d.count := by
  unfold current
  simp [List.mem_filter]

theorem C18_prune (ds : List Desc) (d : Desc) : d ∈ prune ds ↔ d ∈ ds ∧ 0 < d.count := C18_listing ds d

end Mmmbbb.Faults
