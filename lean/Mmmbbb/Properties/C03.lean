/-
C03 — Acknowledgement is final and idempotent.

"Once Acknowledge (or a streaming ack) has succeeded for an ack id, that message is never delivered
again on that subscription unless a later Seek explicitly rewinds it.  Acking twice, acking unknown,
expired or foreign ids, or mixing valid and stale ids in one request succeeds without side effects
on any other delivery, and a late nack or deadline change for an already-acked id does not
resurrect it."

Rows are addressed by primary key (`Db.delById`), as the SQL code does.  `Op.delsMonotone` excludes
exactly the seeks (the explicit rewind) and the three delivery prune jobs (which delete rows; their
effect on completed rows is the subject of C15).
-/
import Mmmbbb.Proofs.StepFrame
namespace Mmmbbb

/-- **C03 (ack always succeeds)**: whatever the ids — unknown, expired, foreign, duplicated, mixed. -/
theorem C03_ack_succeeds (db : Db) (now : Time) (ids : List Id) : ∃ o, ack db now ids = .ok o := by
  unfold ack; exact ⟨_, rfl⟩

/-- the predicate and the row update of `ack` -/
def ackPred (ids : List Id) (d : Delivery) : Bool := ids.contains d.id && d.completedAt.isNone
def ackRow (now : Time) (d : Delivery) : Delivery := { d with completedAt := some now }

/-- **C03 (frame of ack)**: `ack ids` rewrites exactly the rows whose id is listed and that are not
    yet completed, sets only their `completedAt`, and touches no other table. -/
theorem C03_ack_frame (db : Db) (now : Time) (ids : List Id) (o : TxOut Nat) (h : ack db now ids = .ok o) :
    o.db.dels = updateWhere (ackPred ids) (ackRow now) db.dels ∧
      o.db.topics = db.topics ∧ o.db.subs = db.subs ∧ o.db.msgs = db.msgs ∧ o.db.snaps = db.snaps := by
  unfold ack at h
  injection h with h; subst h
  exact ⟨rfl, rfl, rfl, rfl, rfl⟩

/-- rows an ack does not address — unknown or foreign ids name no row at all; already completed rows
    are not addressed either — are left exactly as they were -/
theorem C03_ack_no_side_effect (db : Db) (now : Time) (ids : List Id) (o : TxOut Nat)
    (h : ack db now ids = .ok o) (d : Delivery) (hd : d ∈ db.dels)
    (hn : ids.contains d.id = false ∨ d.completedAt.isSome = true) : d ∈ o.db.dels := by
  rw [(C03_ack_frame db now ids o h).1]
  unfold updateWhere
  refine List.mem_map.mpr ⟨d, hd, ?_⟩
  have hcond : ackPred ids d = false := by
    unfold ackPred
    rcases hn with hn | hn
    · rw [hn]; rfl
    · cases hc : d.completedAt with
      | none => rw [hc] at hn; cases hn
      | some t => simp
  rw [hcond]; rfl

theorem updateWhere_idem {α} (p : α → Bool) (f f' : α → α) (h : ∀ d, p d = true → p (f d) = false)
    (l : List α) : updateWhere p f' (updateWhere p f l) = updateWhere p f l := by
  unfold updateWhere
  rw [List.map_map]
  apply List.map_congr_left
  intro d _
  simp only [Function.comp]
  by_cases hp : p d = true
  · rw [if_pos hp, if_neg (by rw [h d hp]; exact Bool.false_ne_true)]
  · rw [if_neg hp, if_neg hp]

/-- **C03 (idempotent)**: acknowledging the same ids again — at any later instant — changes nothing. -/
theorem C03_ack_idempotent (db : Db) (now now' : Time) (ids : List Id) (o o' : TxOut Nat)
    (h : ack db now ids = .ok o) (h' : ack o.db now' ids = .ok o') : o'.db = o.db := by
  have f1 := C03_ack_frame db now ids o h
  have f2 := C03_ack_frame o.db now' ids o' h'
  have hdels : o'.db.dels = o.db.dels := by
    rw [f2.1, f1.1]
    apply updateWhere_idem
    intro d _
    unfold ackPred ackRow
    simp
  cases hx : o'.db with
  | mk t s m dl sn =>
    cases hy : o.db with
    | mk t2 s2 m2 dl2 sn2 =>
      have e1 := f2.2.1; have e2 := f2.2.2.1; have e3 := f2.2.2.2.1; have e4 := f2.2.2.2.2
      rw [hx, hy] at e1 e2 e3 e4
      rw [hx, hy] at hdels
      simp only at e1 e2 e3 e4 hdels
      subst e1 e2 e3 e4 hdels
      rfl

/-- **C03 (no resurrection, one step)**: no operation other than a seek or a delivery prune job turns a
    completed delivery back into an outstanding one — in particular a late nack, a deadline change of
    either sign, the dead-letter sweep and pulls leave it completed. -/
theorem C03_no_resurrect (st : St) (op : Op) (hop : op.delsMonotone = true) (i : Id) (d : Delivery)
    (hd : st.db.delById i = some d) (hc : d.completedAt.isSome = true) :
    ∃ d', (step st op).1.db.delById i = some d' ∧ d'.completedAt.isSome = true := by
  obtain ⟨d', hd', r⟩ := step_mono st op hop i d hd
  exact ⟨d', hd', r.completed hc⟩

theorem run_cons (st : St) (op : Op) (ops : List Op) : run st (op :: ops) = run (step st op).1 ops := rfl

/-- a pull step never hands out a row that is completed -/
theorem step_delivered_open (st : St) (op : Op) (i : Id) (n : Nat) (d : Delivery)
    (hd : st.db.delById i = some d) (hc : d.completedAt.isSome = true) :
    (i, n) ∉ (step st op).2.delivered := by
  intro hmem
  cases op with
  | pull s mx mb strict wait obs =>
    simp only [step] at hmem
    cases h : pull st.db st.now s mx mb strict wait obs with
    | error e => simp [h] at hmem
    | ok r =>
      obtain ⟨o, now'⟩ := r
      simp only [h] at hmem
      obtain ⟨sub, _, hspec⟩ := pull_delivered_spec h
      obtain ⟨c, hcl, helig, _⟩ := hspec (i, n) hmem
      simp only at hcl
      rw [hd] at hcl
      injection hcl with hcl; subst hcl
      unfold Db.eligible Delivery.isOpen at helig
      simp only [Bool.and_eq_true] at helig
      have : d.completedAt.isNone = true := helig.1.1.2.1
      cases hx : d.completedAt with
      | none => simp [hx] at hc
      | some t => simp [hx] at this
  | publish t tick ms =>
    simp only [step] at hmem
    cases h : publish st.db st.now t tick ms <;> simp [h] at hmem
  | advance d => simp [step] at hmem
  | createTopic n l i => simp only [step, finish] at hmem; split at hmem <;> simp at hmem
  | deleteTopic n => simp only [step, finish] at hmem; split at hmem <;> simp at hmem
  | createSub p i => simp only [step, finish] at hmem; split at hmem <;> simp at hmem
  | deleteSub n => simp only [step, finish] at hmem; split at hmem <;> simp at hmem
  | ack ids => simp only [step, finish] at hmem; split at hmem <;> simp at hmem
  | nack ids ds fw => simp only [step, finish] at hmem; split at hmem <;> simp at hmem
  | delay ids d => simp only [step, finish] at hmem; split at hmem <;> simp at hmem
  | dlSweep mx v fw => simp only [step, finish] at hmem; split at hmem <;> simp at hmem
  | seekTime s t => simp only [step, finish] at hmem; split at hmem <;> simp at hmem
  | seekSnap s n => simp only [step, finish] at hmem; split at hmem <;> simp at hmem
  | snapshot n s l i => simp only [step, finish] at hmem; split at hmem <;> simp at hmem
  | deleteSnap n => simp only [step, finish] at hmem; split at hmem <;> simp at hmem
  | setDelay n d => simp only [step, finish] at hmem; split at hmem <;> simp at hmem
  | expireSubs mx v => simp only [step, finish] at hmem; split at hmem <;> simp at hmem
  | pruneCompletedDeliveries a mx v => simp only [step, finish] at hmem; split at hmem <;> simp at hmem
  | pruneExpiredDeliveries mx v => simp only [step, finish] at hmem; split at hmem <;> simp at hmem
  | pruneCompletedMessages a mx v => simp only [step, finish] at hmem; split at hmem <;> simp at hmem
  | pruneDeletedSubDeliveries a mx v => simp only [step, finish] at hmem; split at hmem <;> simp at hmem
  | pruneDeletedSubs a mx v => simp only [step, finish] at hmem; split at hmem <;> simp at hmem
  | pruneDeletedTopics a mx v => simp only [step, finish] at hmem; split at hmem <;> simp at hmem

/-- **C03 (final)**: once a delivery is completed (acknowledged, dead-lettered or skipped by a
    seek), then along *every* continuation that contains no seek (and no delivery prune job),
    of any length, the delivery stays completed and no pull response contains it. -/
theorem C03_final (ops : List Op) : ∀ (st : St) (i : Id) (d : Delivery),
    (∀ op ∈ ops, op.delsMonotone = true) →
    st.db.delById i = some d → d.completedAt.isSome = true →
    (∃ d', (run st ops).db.delById i = some d' ∧ d'.completedAt.isSome = true) ∧
    ∀ out ∈ outs st ops, ∀ n, (i, n) ∉ out.delivered := by
  induction ops with
  | nil =>
    intro st i d _ hd hc
    exact ⟨⟨d, hd, hc⟩, fun out ho => by cases ho⟩
  | cons op r ih =>
    intro st i d hops hd hc
    have hop := hops op List.mem_cons_self
    obtain ⟨d', hd', hc'⟩ := C03_no_resurrect st op hop i d hd hc
    have := ih (step st op).1 i d' (fun o ho => hops o (List.mem_cons_of_mem _ ho)) hd' hc'
    refine ⟨this.1, ?_⟩
    intro out ho n
    simp only [outs, List.mem_cons] at ho
    rcases ho with rfl | ho
    · exact step_delivered_open st op i n d hd hc
    · exact this.2 out ho n

/-- an acknowledged id is completed right after the ack (so `C03_final` applies to it) -/
theorem C03_ack_completes (db : Db) (now : Time) (ids : List Id) (o : TxOut Nat) (h : ack db now ids = .ok o)
    (i : Id) (d : Delivery) (hi : ids.contains i = true) (hd : db.delById i = some d) :
    ∃ d', o.db.delById i = some d' ∧ d'.completedAt.isSome = true := by
  have f := (C03_ack_frame db now ids o h).1
  have hid : d.id = i := by
    have := List.find?_some hd
    simpa using this
  rw [Db.delById_eq, f]
  unfold updateWhere
  rw [findDel_map _ _ _ (by intro x; split <;> rfl)]
  rw [Db.delById_eq] at hd
  rw [hd]
  refine ⟨_, rfl, ?_⟩
  show (if ackPred ids d = true then ackRow now d else d).completedAt.isSome = true
  by_cases hp : ackPred ids d = true
  · rw [if_pos hp]; rfl
  · rw [if_neg hp]
    unfold ackPred at hp
    rw [hid, hi] at hp
    cases hc : d.completedAt with
    | none => rw [hc] at hp; simp at hp
    | some t => rfl

/-- non-vacuity: a state with an outstanding delivery, acked, then nacked and modacked: stays completed -/
example :
    let d : Delivery := { id := 7, msgId := 1, subId := 2, publishedAt := 0, attemptAt := 0, lastAttemptedAt := none,
                          attempts := 1, completedAt := none, expiresAt := 100, notBefore := none }
    let st : St := { db := { dels := [d] }, now := 5 }
    let st' := run st [.ack [7], .nack [7] [] [], .delay [7] 0]
    (st'.db.delById 7).map (·.completedAt) = some (some 5) := by
  decide

end Mmmbbb
