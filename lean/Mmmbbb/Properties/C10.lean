/-
C10 — No lost wake-up.

"A Pull or StreamingPull that is waiting because nothing is deliverable returns the message promptly
(without waiting for its own timeout or an unrelated retry timer) after any committed change that
makes a message deliverable on its subscription …  This holds wherever the change lands relative to
the waiter's own steps, and when one request affects several subscriptions at once."

The protocol model (Model/Notify.lean) has any number of waiters and writers, every writer touching
any list of subscriptions, and *no timer at all*: whatever progress a waiter makes in the model it
makes without its timeout and without a retry timer.  A schedule is an arbitrary list of process
steps at transaction-boundary granularity, so the theorems below quantify over every interleaving,
including the change committing before the waiter registers, between its check and its wait, and
after it waits.  The two source facts the proof rests on (`continue` in WakePublishListeners,
register-before-query in the pull loop) are read from the source on every run (`Cfg.ofSource`);
for each alternative a concrete schedule that loses a wake-up is exhibited.
-/
import Mmmbbb.Proofs.Notify
import Mmmbbb.Proofs.Wakes
namespace Mmmbbb.Notify

/-- the source has the configuration the invariant needs (re-checked on every run against the
    regenerated `Extracted`) -/
theorem ofSource_good : Cfg.ofSource.Good := by
  constructor <;> decide

/-- the renewals in the streamer: every `case <-pubNotify` takes a fresh awaiter first, and the pull
    loop's select loops again on a wake-up and on the retry timer -/
theorem C10_source_shape :
    (∀ r ∈ Extracted.streamerRenewals, r = "renews") ∧ Extracted.streamerRenewals.length = 2 ∧
    "pubAwaiter:continue" ∈ Extracted.pullSelectCases := by
  refine ⟨?_, by decide, by decide⟩
  have h : Extracted.streamerRenewals.all (· == "renews") = true := by decide
  intro r hr; simpa using List.all_eq_true.mp h r hr

/-- **C10 (no lost wake-up, every schedule)**: in every state reachable by any interleaving of any
    waiters and writers — each writer waking at least the subscriptions on which it makes something
    deliverable (`hcov`; for the operations of the store this is what the `wk=` comparison of the
    correspondence run checks on every operation) — a waiter that would sleep until woken (query came
    back empty or already blocked, channel still open) while something is deliverable on its
    subscription always has a committed writer whose wake-up call for that subscription is still
    to come. -/
theorem C10_no_lost_wakeup (subs maxes : Nat → Nat) (writers : Nat → List (Nat × Nat) × List Nat) (avail : Nat → Nat)
    (hcov : ∀ j s, 0 < addsFor (writers j).1 s → s ∈ (writers j).2) (sched : List Proc) :
    let σ := run Cfg.ofSource (init subs maxes writers avail) sched
    ∀ i, StuckProne σ.open (σ.waiter i) → 0 < σ.avail (σ.waiter i).sub →
      ∃ j, (σ.writer j).pc = 1 ∧ (σ.waiter i).sub ∈ (σ.writer j).wakes :=
  ((Inv.init subs maxes writers avail hcov).run Cfg.ofSource ofSource_good sched).nolost

/-- **C10 (quiescence)**: once no commit hook is pending, nobody sleeps on a subscription that has a
    deliverable message. -/
theorem C10_quiescent (subs maxes : Nat → Nat) (writers : Nat → List (Nat × Nat) × List Nat) (avail : Nat → Nat)
    (hcov : ∀ j s, 0 < addsFor (writers j).1 s → s ∈ (writers j).2) (sched : List Proc) :
    let σ := run Cfg.ofSource (init subs maxes writers avail) sched
    (∀ j, (σ.writer j).pc ≠ 1) → ∀ i, 0 < σ.avail (σ.waiter i).sub → ¬ StuckProne σ.open (σ.waiter i) := by
  intro σ hq i ha hs
  obtain ⟨j, hj, _⟩ := C10_no_lost_wakeup subs maxes writers avail hcov sched i hs ha
  exact hq j hj

/-! ### progress: a waiter with something deliverable returns within four of its own steps -/

theorem reloop_spec (cfg : Cfg) (σ : Sys) (i : Nat) :
    ((reloop cfg σ i).waiter i).pc = 2 ∧ ((reloop cfg σ i).waiter i).sub = (σ.waiter i).sub ∧
    ((reloop cfg σ i).waiter i).max = (σ.waiter i).max ∧
    (reloop cfg σ i).avail = σ.avail ∧ (reloop cfg σ i).writer = σ.writer := by
  unfold reloop
  cases cfg.registerFirst <;> simp [setW, register, upd]

theorem step_query (cfg : Cfg) (σ : Sys) (i : Nat) (hpc : (σ.waiter i).pc = 2) (ha : 0 < σ.avail (σ.waiter i).sub) :
    ((waiterStep cfg σ i).waiter i).pc = 3 ∧ ((waiterStep cfg σ i).waiter i).found = true ∧
    (waiterStep cfg σ i).writer = σ.writer := by
  unfold waiterStep
  simp only [hpc]
  simp [setW, setAvail, upd, ha]

theorem step_return (cfg : Cfg) (σ : Sys) (i : Nat) (hpc : (σ.waiter i).pc = 3) (hf : (σ.waiter i).found = true) :
    ((waiterStep cfg σ i).waiter i).pc = 5 := by
  unfold waiterStep
  simp only [hpc, hf]
  simp [setW, upd]

theorem step_done (cfg : Cfg) (σ : Sys) (i : Nat) (hpc : (σ.waiter i).pc = 5) : waiterStep cfg σ i = σ := by
  unfold waiterStep
  simp only [hpc]

theorem run_done (cfg : Cfg) (σ : Sys) (i : Nat) (hpc : (σ.waiter i).pc = 5) (n : Nat) :
    ((run cfg σ (List.replicate n (.waiter i))).waiter i).pc = 5 := by
  induction n with
  | zero => exact hpc
  | succ n ih => simp only [List.replicate_succ, run, step]; rw [step_done cfg σ i hpc]; exact ih

/-- from "registered, query ahead" with something deliverable: two steps -/
theorem from_registered (cfg : Cfg) (σ : Sys) (i : Nat) (hpc : (σ.waiter i).pc = 2) (ha : 0 < σ.avail (σ.waiter i).sub) (n : Nat) :
    ((run cfg σ (List.replicate (n + 2) (.waiter i))).waiter i).pc = 5 := by
  obtain ⟨h3, hf, _⟩ := step_query cfg σ i hpc ha
  have h5 := step_return cfg _ i h3 hf
  have : List.replicate (n + 2) (Proc.waiter i) = .waiter i :: .waiter i :: List.replicate n (.waiter i) := by
    simp [List.replicate_succ]
  rw [this]
  simp only [run, step]
  exact run_done cfg _ i h5 n

theorem from_reloop (cfg : Cfg) (σ : Sys) (i : Nat) (ha : 0 < σ.avail (σ.waiter i).sub) (n : Nat) :
    ((run cfg (reloop cfg σ i) (List.replicate (n + 2) (.waiter i))).waiter i).pc = 5 := by
  obtain ⟨h2, hs, _, hav, _⟩ := reloop_spec cfg σ i
  exact from_registered cfg _ i h2 (by rw [hs, hav]; exact ha) n

/-- **C10 (prompt return)**: in any reachable state in which no commit hook is pending, a waiter that
    has not returned and whose subscription has a deliverable message returns within four of its own
    steps — the model has no timer, so neither its timeout nor a retry timer is involved — provided
    nobody else takes the message first (the schedule here runs the waiter alone). -/
theorem C10_returns (subs maxes : Nat → Nat) (writers : Nat → List (Nat × Nat) × List Nat) (avail : Nat → Nat)
    (hcov : ∀ j s, 0 < addsFor (writers j).1 s → s ∈ (writers j).2) (sched : List Proc) :
    let σ := run Cfg.ofSource (init subs maxes writers avail) sched
    (∀ j, (σ.writer j).pc ≠ 1) → ∀ i, 0 < σ.avail (σ.waiter i).sub → (σ.waiter i).pc ≤ 5 →
      ((run Cfg.ofSource σ (List.replicate 4 (.waiter i))).waiter i).pc = 5 := by
  intro σ hq i ha hle
  have hns := C10_quiescent subs maxes writers avail hcov sched hq i ha
  have hI : Inv σ := (Inv.init subs maxes writers avail hcov).run Cfg.ofSource ofSource_good sched
  have hr : Cfg.ofSource.registerFirst = true := ofSource_good.2
  -- case analysis on where the waiter is
  have hcases : (σ.waiter i).pc = 0 ∨ (σ.waiter i).pc = 1 ∨ (σ.waiter i).pc = 2 ∨ (σ.waiter i).pc = 3 ∨
      (σ.waiter i).pc = 4 ∨ (σ.waiter i).pc = 5 := by omega
  rcases hcases with h0 | h1 | h2 | h3 | h4 | h5
  · -- 0 → 1 → reloop → query → return
    have e : List.replicate 4 (Proc.waiter i) = .waiter i :: .waiter i :: List.replicate (0 + 2) (.waiter i) := by
      simp [List.replicate_succ]
    rw [e]; simp only [run, step]
    have s1 : waiterStep Cfg.ofSource σ i = setW σ i { σ.waiter i with pc := 1 } := by
      unfold waiterStep; simp only [h0]
    rw [s1]
    have s2 : waiterStep Cfg.ofSource (setW σ i { σ.waiter i with pc := 1 }) i = reloop Cfg.ofSource (setW σ i { σ.waiter i with pc := 1 }) i := by
      unfold waiterStep; simp [setW, upd]
    rw [s2]
    apply from_reloop
    simp [setW, upd]; exact ha
  · have e : List.replicate 4 (Proc.waiter i) = .waiter i :: List.replicate (1 + 2) (.waiter i) := by
      simp [List.replicate_succ]
    rw [e]; simp only [run, step]
    have s1 : waiterStep Cfg.ofSource σ i = reloop Cfg.ofSource σ i := by unfold waiterStep; simp only [h1]
    rw [s1]
    exact from_reloop Cfg.ofSource σ i ha 1
  · exact from_registered Cfg.ofSource σ i h2 ha 2
  · cases hf : (σ.waiter i).found with
    | true =>
      have h5 := step_return Cfg.ofSource σ i h3 hf
      have e : List.replicate 4 (Proc.waiter i) = .waiter i :: List.replicate 3 (.waiter i) := by simp [List.replicate_succ]
      rw [e]; simp only [run, step]
      exact run_done Cfg.ofSource _ i h5 3
    | false =>
      -- not stuck-prone: the channel is closed, so the loop goes round
      have hclosed : chanOpen σ.open (σ.waiter i).chan = false := by
        cases hc : chanOpen σ.open (σ.waiter i).chan with
        | false => rfl
        | true => exact absurd ⟨Or.inl ⟨h3, hf⟩, hc⟩ hns
      have e : List.replicate 4 (Proc.waiter i) = .waiter i :: List.replicate (1 + 2) (.waiter i) := by
        simp [List.replicate_succ]
      rw [e]; simp only [run, step]
      have s1 : waiterStep Cfg.ofSource σ i = reloop Cfg.ofSource σ i := by
        unfold waiterStep; simp only [h3, hf, hr, hclosed]; simp
      rw [s1]
      exact from_reloop Cfg.ofSource σ i ha 1
  · have hclosed : chanOpen σ.open (σ.waiter i).chan = false := by
      cases hc : chanOpen σ.open (σ.waiter i).chan with
      | false => rfl
      | true => exact absurd ⟨Or.inr h4, hc⟩ hns
    have e : List.replicate 4 (Proc.waiter i) = .waiter i :: List.replicate (1 + 2) (.waiter i) := by
      simp [List.replicate_succ]
    rw [e]; simp only [run, step]
    have s1 : waiterStep Cfg.ofSource σ i = reloop Cfg.ofSource σ i := by
      unfold waiterStep; simp only [h4, hclosed]; simp
    rw [s1]
    exact from_reloop Cfg.ofSource σ i ha 1
  · exact run_done Cfg.ofSource σ i h5 4

/-! ### the two source facts are necessary: each alternative loses a wake-up -/

/-- one waiter on subscription 1; one writer that makes a message deliverable on subscription 1 and
    wakes subscriptions [0, 1] (nobody waits on 0) -/
def demo : Sys := init (fun _ => 1) (fun _ => 10) (fun _ => ([(1, 1)], [0, 1])) (fun _ => 0)

def lost (σ : Sys) (i : Nat) : Bool :=
  (σ.waiter i).pc == 4 && chanOpen σ.open (σ.waiter i).chan && decide (0 < σ.avail (σ.waiter i).sub) &&
  (σ.writer 0).pc == 2

/-- with `return` instead of `continue` in WakePublishListeners the waiter sleeps on: the waiter
    registers, queries, blocks; the writer commits and its wake-up call stops at subscription 0 -/
theorem C10_return_variant_loses :
    lost (run { wakeContinue := false, registerFirst := true } demo
      [.waiter 0, .waiter 0, .waiter 0, .waiter 0, .writer 0, .writer 0]) 0 = true := by decide

/-- with the query before the registration the waiter sleeps on: it queries (nothing there), the
    writer commits and wakes (nobody registered), then the waiter registers and blocks -/
theorem C10_late_register_variant_loses :
    lost (run { wakeContinue := true, registerFirst := false } demo
      [.waiter 0, .waiter 0, .waiter 0, .writer 0, .writer 0, .waiter 0]) 0 = true := by decide

/-- non-vacuity: the same schedules under the source's configuration end with the waiter not lost,
    and running the waiter alone returns the message -/
example : lost (run Cfg.ofSource demo [.waiter 0, .waiter 0, .waiter 0, .waiter 0, .writer 0, .writer 0]) 0 = false := by decide
example : ((run Cfg.ofSource demo [.waiter 0, .waiter 0, .waiter 0, .waiter 0, .writer 0, .writer 0,
    .waiter 0, .waiter 0, .waiter 0]).waiter 0).pc = 5 := by decide

end Mmmbbb.Notify

/-! ### the store side: the writers named by the property wake every subscription whose rows they touch

`covers` above is a hypothesis about writers.  For the store model (`Model/Actions.lean`, the one the
correspondence runs compare with the implementation operation by operation, wake set included) it is
discharged here: each of these operations leaves the delivery rows of every subscription *outside*
its wake set exactly as they were and adds no row there, so nothing can have become deliverable on a
subscription that is not woken.  (Dead-lettering wakes the source subscription and the forward
targets by construction: `deadLetter` returns `forward targets ++ [source]`, `deliverAll_shape`.) -/
namespace Mmmbbb

theorem C10_wakes_cover_publish {db : Db} {t : Topic} {now : Time} {pm : PubMsg} {db' : Db} {w : List Id}
    (h : publishOne db t now pm = .ok (db', w)) : SameUnwoken w db.dels db'.dels := publishOne_unwoken h

theorem C10_wakes_cover_ack {db : Db} {now : Time} {ids : List Id} {o : TxOut Nat} (h : ack db now ids = .ok o) :
    SameUnwoken o.wakes db.dels o.db.dels := ack_unwoken h

theorem C10_wakes_cover_zero_deadline {db : Db} {now : Time} {ids : List Id} {Δ : Int} (hΔ : Δ ≤ 0) {o : TxOut Nat}
    (h : delay db now ids Δ = .ok o) : SameUnwoken o.wakes db.dels o.db.dels := delay0_unwoken hΔ h

theorem C10_wakes_cover_seek_time {db : Db} {now : Time} {sub : String} {T : Time} {o : TxOut (Nat × Nat)}
    (h : seekTime db now sub T = .ok o) :
    ∃ s, db.liveSubByName sub = some s ∧ SameUnwoken [s.id] db.dels o.db.dels ∧ (o.wakes = [s.id] ∨ o.db.dels = db.dels) :=
  seekTime_unwoken h

theorem C10_wakes_cover_seek_snapshot {db : Db} {now : Time} {sub snap : String} {o : TxOut (Nat × Nat)}
    (h : seekSnap db now sub snap = .ok o) :
    ∃ s, db.liveSubByName sub = some s ∧ SameUnwoken [s.id] db.dels o.db.dels ∧ (o.wakes = [s.id] ∨ o.db.dels = db.dels) :=
  seekSnap_unwoken h

end Mmmbbb
